/-
  Property C11 — cell-union algebra is exact set algebra on leaf cells.

  Specification.  A valid cell `c` covers the leaf cells whose ids are the ODD numbers in
  `[rangeMin c, rangeMax c]`.  The executable `coversLeaf cu n` says that position `n` lies in
  the range of some member of `cu`; the covered LEAF set is its restriction to odd `n`
  (even positions between two sibling ranges are not leaf ids, see the `example` after
  `normalize_leaves`).  Two unions "cover the same leaves" when
  `∀ n, n % 2 = 1 → coversLeaf x n = coversLeaf y n`.

  Contract of the Go code: all ids are valid (`∀ c ∈ cu, isValid c = true`).
-/
import S2.Intersect
import S2Proofs.CellUnionLemmas
open S2 S2.CellID S2.CellUnion
namespace S2Proofs.C11
open S2Proofs

/-- all members are valid cell ids (the contract of every CellUnion method) -/
abbrev AllValid (cu : CU) : Prop := ∀ c ∈ cu, isValid c = true

/-- `x` and `y` cover the same leaf cells -/
def SameLeaves (x y : CU) : Prop := ∀ n, n % 2 = 1 → coversLeaf x n = coversLeaf y n

-- concrete ids used in the non-vacuity examples
/-- face 0 -/                     abbrev f0 : CellID := 0x1000000000000000
/-- the four children of face 0 -/ abbrev f0c0 : CellID := 0x0400000000000000
abbrev f0c1 : CellID := 0x0c00000000000000
abbrev f0c2 : CellID := 0x1400000000000000
abbrev f0c3 : CellID := 0x1c00000000000000
/-- face 1 -/                     abbrev f1 : CellID := 0x3000000000000000
/-- child 0 of child 0 of face 0 -/ abbrev f0c00 : CellID := 0x0100000000000000

/-! ## (a) `areSiblings` -/

/-- For four valid, pairwise distinct ids: `areSiblings a b c d` holds exactly when `{a,b,c,d}` is
    the set of the four children of one (valid, non-leaf) cell. -/
theorem areSiblings_iff_children {a b c d : CellID}
    (ha : isValid a = true) (hb : isValid b = true) (hc : isValid c = true) (hd : isValid d = true)
    (hab : a ≠ b) (hac : a ≠ c) (had : a ≠ d) (hbc : b ≠ c) (hbd : b ≠ d) (hcd : c ≠ d) :
    areSiblings a b c d = true ↔
      ∃ p, isValid p = true ∧ level p < 30 ∧
        ∀ x, x ∈ [a, b, c, d] ↔ x ∈ [child p 0, child p 1, child p 2, child p 3] := by
  obtain ⟨k, hk⟩ := (isValid_iff d).mp hd
  constructor
  · intro h
    obtain ⟨hk1, ta, tb, tc, td, hta, htb, htc, htd, ea, eb, ec, ed, _⟩ := (areSiblings_iff hk).mp h
    have hp : IsCell (parent d (k-1)) (k-1) := hk.parent_isCell (by omega)
    refine ⟨parent d (k-1), hp.valid, by rw [hp.level_eq]; have := hk.k_le; omega, ?_⟩
    have nab : ta ≠ tb := by rintro rfl; exact hab (ea.trans eb.symm)
    have nac : ta ≠ tc := by rintro rfl; exact hac (ea.trans ec.symm)
    have nad : ta ≠ td := by rintro rfl; exact had (ea.trans ed.symm)
    have nbc : tb ≠ tc := by rintro rfl; exact hbc (eb.trans ec.symm)
    have nbd : tb ≠ td := by rintro rfl; exact hbd (eb.trans ed.symm)
    have ncd : tc ≠ td := by rintro rfl; exact hcd (ec.trans ed.symm)
    intro x
    simp only [List.mem_cons, List.not_mem_nil, or_false]
    constructor
    · intro hx
      have : ∃ t, t < 4 ∧ x = child (parent d (k-1)) t := by
        rcases hx with rfl | rfl | rfl | rfl
        · exact ⟨ta, hta, ea⟩
        · exact ⟨tb, htb, eb⟩
        · exact ⟨tc, htc, ec⟩
        · exact ⟨td, htd, ed⟩
      obtain ⟨t, ht, rfl⟩ := this
      have ht' : t = 0 ∨ t = 1 ∨ t = 2 ∨ t = 3 := by omega
      rcases ht' with rfl | rfl | rfl | rfl <;> simp
    · intro hx
      have : ∃ t, t < 4 ∧ x = child (parent d (k-1)) t := by
        rcases hx with rfl | rfl | rfl | rfl
        · exact ⟨0, by omega, rfl⟩
        · exact ⟨1, by omega, rfl⟩
        · exact ⟨2, by omega, rfl⟩
        · exact ⟨3, by omega, rfl⟩
      obtain ⟨t, ht, rfl⟩ := this
      have : t = ta ∨ t = tb ∨ t = tc ∨ t = td := by omega
      rcases this with rfl | rfl | rfl | rfl
      · exact Or.inl ea.symm
      · exact Or.inr (Or.inl eb.symm)
      · exact Or.inr (Or.inr (Or.inl ec.symm))
      · exact Or.inr (Or.inr (Or.inr ed.symm))
  · rintro ⟨p, hpv, hpl, hset⟩
    obtain ⟨j, hj⟩ := (isValid_iff p).mp hpv
    rw [hj.level_eq] at hpl
    have pick : ∀ x, x ∈ [a, b, c, d] → ∃ t, t < 4 ∧ x = child p t := by
      intro x hx
      have := (hset x).mp hx
      simp only [List.mem_cons, List.not_mem_nil, or_false] at this
      rcases this with rfl | rfl | rfl | rfl
      · exact ⟨0, by omega, rfl⟩
      · exact ⟨1, by omega, rfl⟩
      · exact ⟨2, by omega, rfl⟩
      · exact ⟨3, by omega, rfl⟩
    obtain ⟨ta, hta, ea⟩ := pick a (by simp)
    obtain ⟨tb, htb, eb⟩ := pick b (by simp)
    obtain ⟨tc, htc, ec⟩ := pick c (by simp)
    obtain ⟨td, htd, ed⟩ := pick d (by simp)
    have nab : ta ≠ tb := by rintro rfl; exact hab (ea.trans eb.symm)
    have nac : ta ≠ tc := by rintro rfl; exact hac (ea.trans ec.symm)
    have nad : ta ≠ td := by rintro rfl; exact had (ea.trans ed.symm)
    have nbc : tb ≠ tc := by rintro rfl; exact hbc (eb.trans ec.symm)
    have nbd : tb ≠ td := by rintro rfl; exact hbd (eb.trans ed.symm)
    have ncd : tc ≠ td := by rintro rfl; exact hcd (ec.trans ed.symm)
    have hdk : IsCell d (j+1) := by rw [ed]; exact hj.child_isCell hpl htd
    have hkj : k = j + 1 := hk.unique hdk
    subst hkj
    have hpar : parent d (j + 1 - 1) = p := by
      rw [Nat.add_sub_cancel, ed]; exact hj.parent_child hpl htd
    rw [areSiblings_iff hk]
    refine ⟨by omega, ta, tb, tc, td, hta, htb, htc, htd, ?_, ?_, ?_, ?_, ?_⟩
    · rw [hpar]; exact ea
    · rw [hpar]; exact eb
    · rw [hpar]; exact ec
    · rw [hpar]; exact ed
    · interval_cases ta <;> interval_cases tb <;> interval_cases tc <;> interval_cases td <;>
        first | rfl | omega

example : areSiblings f0c2 f0c0 f0c3 f0c1 = true := by decide
example : isValid f0c2 = true ∧ isValid f0c0 = true ∧ isValid f0c3 = true ∧ isValid f0c1 = true ∧
    isValid f0 = true ∧ level f0 < 30 ∧
    [child f0 0, child f0 1, child f0 2, child f0 3] = [f0c0, f0c1, f0c2, f0c3] := by decide

/-- The form used by `Normalize`: four valid cells in increasing order with disjoint leaf ranges
    pass the sibling test exactly when they are child 0,1,2,3 (in this order) of one cell. -/
theorem areSiblings_sorted_iff {a b c d : CellID}
    (ha : isValid a = true) (hb : isValid b = true) (hc : isValid c = true) (hd : isValid d = true)
    (hab : (rangeMax a).toNat < (rangeMin b).toNat) (hbc : (rangeMax b).toNat < (rangeMin c).toNat)
    (hcd : (rangeMax c).toNat < (rangeMin d).toNat) :
    areSiblings a b c d = true ↔
      ∃ p, isValid p = true ∧ level p < 30 ∧
        a = child p 0 ∧ b = child p 1 ∧ c = child p 2 ∧ d = child p 3 := by
  obtain ⟨k, hk⟩ := (isValid_iff d).mp hd
  have fa := valid_facts ha
  have fb := valid_facts hb
  have fc := valid_facts hc
  have fd := valid_facts hd
  have hab' : hi a < lo b := hab
  have hbc' : hi b < lo c := hbc
  have hcd' : hi c < lo d := hcd
  constructor
  · intro h
    obtain ⟨hk1, ea, eb, ec, ed⟩ := areSiblings_sorted hk h (by omega) (by omega) (by omega)
    have hp : IsCell (parent d (k-1)) (k-1) := hk.parent_isCell (by omega)
    exact ⟨parent d (k-1), hp.valid, by rw [hp.level_eq]; have := hk.k_le; omega, ea, eb, ec, ed⟩
  · rintro ⟨p, hpv, hpl, rfl, rfl, rfl, rfl⟩
    obtain ⟨j, hj⟩ := (isValid_iff p).mp hpv
    rw [hj.level_eq] at hpl
    exact areSiblings_children hj hpl

example : isValid f0c0 = true ∧ isValid f0c1 = true ∧ isValid f0c2 = true ∧ isValid f0c3 = true ∧
    (rangeMax f0c0).toNat < (rangeMin f0c1).toNat ∧ (rangeMax f0c1).toNat < (rangeMin f0c2).toNat ∧
    (rangeMax f0c2).toNat < (rangeMin f0c3).toNat ∧ areSiblings f0c0 f0c1 f0c2 f0c3 = true := by decide

/-! ## (b) `normalize` -/

/-- Normalizing never changes the set of covered leaf cells. -/
theorem normalize_leaves (cu : CU) (hv : AllValid cu) : SameLeaves (normalize cu) cu := by
  intro n hn
  rw [coversLeaf_eq_iff]
  exact (normalize_spec cu hv).2.2.2 n hn

/-- the hypothesis is satisfiable by an unsorted, duplicated, overlapping multiset with a complete
    sibling group, and the statement is about odd positions only: the even position between two
    sibling ranges is "covered" by the parent but by none of the children. -/
example : AllValid [f0c3, f1, f0c1, f0c00, f0c0, f0c2, f0c1] ∧
    normalize [f0c3, f1, f0c1, f0c00, f0c0, f0c2, f0c1] = [f0, f1] ∧
    coversLeaf [f0] 0x0800000000000000 = true ∧
    coversLeaf [f0c0, f0c1, f0c2, f0c3] 0x0800000000000000 = false :=
  ⟨by decide, normalize_eq_of_perm (s := [f0c00, f0c0, f0c1, f0c1, f0c2, f0c3, f1]) (by decide) (by decide)
    (by decide), by decide, by decide⟩

/-- The output of `normalize` is a valid union (valid ids, strictly increasing, pairwise disjoint
    leaf ranges) … -/
theorem normalize_isValidCU (cu : CU) (hv : AllValid cu) : isValidCU (normalize cu) = true := by
  have h := normalize_spec cu hv
  exact (isValidCU_iff _).mpr ⟨h.1, h.2.1⟩

/-- … that contains no complete sibling group: it is normalized. -/
theorem normalize_isNormalizedCU (cu : CU) (hv : AllValid cu) : isNormalizedCU (normalize cu) = true := by
  have h := normalize_spec cu hv
  exact (isNormalizedCU_iff _).mpr ⟨h.1, h.2.1, h.2.2.1⟩

/-- every cell of the output is valid -/
theorem normalize_allValid (cu : CU) (hv : AllValid cu) : AllValid (normalize cu) :=
  (normalize_spec cu hv).1

/-- UNIQUENESS: two normalized unions that cover the same leaf cells are equal. -/
theorem normalized_unique (x y : CU) (hx : isNormalizedCU x = true) (hy : isNormalizedCU y = true)
    (h : SameLeaves x y) : x = y := by
  obtain ⟨x1, x2, x3⟩ := (isNormalizedCU_iff x).mp hx
  obtain ⟨y1, y2, y3⟩ := (isNormalizedCU_iff y).mp hy
  exact normal_unique x1 x2 x3 y1 y2 y3 (fun n hn => (coversLeaf_eq_iff x y n).mp (h n hn))

example : isNormalizedCU [f0c0, f0c1, f0c2, f1] = true ∧ isNormalizedCU [f0, f1] = true ∧
    isNormalizedCU [f0c0, f0c1, f0c2, f0c3] = false := by decide

/-- Hence `normalize cu` is THE normalized union with the leaf set of `cu`. -/
theorem normalize_unique (cu y : CU) (hv : AllValid cu) (hy : isNormalizedCU y = true)
    (h : SameLeaves y cu) : y = normalize cu := by
  apply normalized_unique y (normalize cu) hy (normalize_isNormalizedCU cu hv)
  intro n hn
  rw [h n hn, normalize_leaves cu hv n hn]

/-- a normalized union is a fixed point of `normalize` -/
theorem normalize_of_isNormalized (cu : CU) (h : isNormalizedCU cu = true) : normalize cu = cu := by
  have hv : AllValid cu := ((isNormalizedCU_iff cu).mp h).1
  exact (normalize_unique cu cu hv h (fun _ _ => rfl)).symm

/-- idempotence -/
theorem normalize_idempotent (cu : CU) (hv : AllValid cu) : normalize (normalize cu) = normalize cu :=
  normalize_of_isNormalized _ (normalize_isNormalizedCU cu hv)

/-- `normalize` is a canonical form for the covered leaf set -/
theorem normalize_eq_iff (x y : CU) (hx : AllValid x) (hy : AllValid y) :
    normalize x = normalize y ↔ SameLeaves x y := by
  constructor
  · intro h n hn
    rw [← normalize_leaves x hx n hn, h, normalize_leaves y hy n hn]
  · intro h
    apply normalize_unique y (normalize x) hy (normalize_isNormalizedCU x hx)
    intro n hn
    rw [normalize_leaves x hx n hn, h n hn]

example : AllValid [f0c3, f0c1, f0c0, f0c2] ∧ AllValid [f0, f0c00] ∧
    normalize [f0c3, f0c1, f0c0, f0c2] = normalize [f0, f0c00] :=
  ⟨by decide, by decide, by
    rw [normalize_eq_of_perm (l := [f0c3, f0c1, f0c0, f0c2]) (s := [f0c0, f0c1, f0c2, f0c3]) (r := [f0])
        (by decide) (by decide) (by decide),
      normalize_eq_of_perm (l := [f0, f0c00]) (s := [f0c00, f0]) (r := [f0]) (by decide) (by decide) (by decide)]⟩

/-! ## (c) membership tests by binary search -/

/-- every leaf of `a` is a leaf of `b` -/
def LeavesSubset (a b : CU) : Prop := ∀ n, n % 2 = 1 → coversLeaf a n = true → coversLeaf b n = true
/-- `a` and `b` share a leaf -/
def LeavesMeet (a b : CU) : Prop := ∃ n, n % 2 = 1 ∧ coversLeaf a n = true ∧ coversLeaf b n = true

/-- Binary search: on a valid union (sorted, disjoint) `searchGT` returns the first index whose id is
    greater than `id` (all earlier ids are ≤ `id`). -/
theorem searchGT_correct (cu : CU) (id : CellID) (hcu : isValidCU cu = true) :
    searchGT cu.toArray id ≤ cu.length ∧
      (∀ t, t < searchGT cu.toArray id → cu[t]! ≤ id) ∧
      (∀ t, searchGT cu.toArray id ≤ t → t < cu.length → id < cu[t]!) := by
  obtain ⟨hv, hs⟩ := (isValidCU_iff cu).mp hcu
  obtain ⟨h1, h2, h3⟩ := searchGT_spec cu id (sorted_mono hv hs)
  refine ⟨h1, fun t ht => ?_, fun t ht ht' => ?_⟩
  · rw [UInt64.le_iff_toNat_le]; exact h2 t ht
  · rw [UInt64.lt_iff_toNat_lt]; exact h3 t ht ht'

example : isValidCU [f0c0, f0c2, f1] = true ∧ searchGT [f0c0, f0c2, f1].toArray f0c1 = 1 := by decide

/-- `ContainsCellID` on a NORMALIZED union (the documented precondition) decides whether every leaf
    of `id` is covered. -/
theorem containsCellID_iff (cu : CU) (id : CellID) (hcu : isNormalizedCU cu = true)
    (hid : isValid id = true) : containsCellID cu id = true ↔ LeavesSubset [id] cu := by
  obtain ⟨hv, hs, hn⟩ := (isNormalizedCU_iff cu).mp hcu
  rw [containsCellID_iff_exists hv hs, exists_contains_iff_leaves hv hs hn hid]
  unfold LeavesSubset
  simp only [coversLeaf_iff, covers_single]
  constructor
  · intro h n hn' ⟨h1, h2⟩; exact h n hn' h1 h2
  · intro h n hn' h1 h2; exact h n hn' ⟨h1, h2⟩

/-- the precondition matters: a valid but un-normalized union covers all leaves of face 0 while
    `containsCellID` answers false (this is the documented behaviour of the library). -/
example : isNormalizedCU [f0c0, f0c1, f1] = true ∧ isValid f0c1 = true ∧ containsCellID [f0c0, f0c1, f1] f0c1 = true ∧
    isValidCU [f0c0, f0c1, f0c2, f0c3] = true ∧ isNormalizedCU [f0c0, f0c1, f0c2, f0c3] = false ∧
    containsCellID [f0c0, f0c1, f0c2, f0c3] f0 = false := by decide

/-- `IntersectsCellID` on a valid (sorted, disjoint; not necessarily normalized) union decides
    whether `id` shares a leaf with it. -/
theorem intersectsCellID_iff (cu : CU) (id : CellID) (hcu : isValidCU cu = true)
    (hid : isValid id = true) : intersectsCellID cu id = true ↔ LeavesMeet [id] cu := by
  obtain ⟨hv, hs⟩ := (isValidCU_iff cu).mp hcu
  rw [intersectsCellID_iff_exists hv hs id hid, exists_meets_iff_leaves hv hid]
  unfold LeavesMeet
  simp only [coversLeaf_iff, covers_single]
  constructor
  · rintro ⟨n, h0, h1, h2, h3⟩; exact ⟨n, h0, ⟨h1, h2⟩, h3⟩
  · rintro ⟨n, h0, ⟨h1, h2⟩, h3⟩; exact ⟨n, h0, h1, h2, h3⟩

example : isValidCU [f0c0, f0c1, f0c2, f0c3] = true ∧ isValid f0 = true ∧
    intersectsCellID [f0c0, f0c1, f0c2, f0c3] f0 = true ∧ intersectsCellID [f0c0, f0c1, f0c2, f0c3] f1 = false := by
  decide

/-- `Contains(CellUnion)`: on a normalized `cu`, for any union `o` of valid cells. -/
theorem containsCU_iff (cu o : CU) (hcu : isNormalizedCU cu = true) (ho : AllValid o) :
    containsCU cu o = true ↔ LeavesSubset o cu := by
  unfold containsCU
  rw [List.all_eq_true]
  constructor
  · intro h n hn hc
    obtain ⟨c, hc, h1, h2⟩ := (coversLeaf_iff o n).mp hc
    have := (containsCellID_iff cu c hcu (ho c hc)).mp (h c hc)
    exact this n hn ((coversLeaf_iff [c] n).mpr ((covers_single c n).mpr ⟨h1, h2⟩))
  · intro h c hc
    rw [containsCellID_iff cu c hcu (ho c hc)]
    intro n hn hcov
    obtain ⟨h1, h2⟩ := (covers_single c n).mp ((coversLeaf_iff [c] n).mp hcov)
    exact h n hn ((coversLeaf_iff o n).mpr ⟨c, hc, h1, h2⟩)

example : isNormalizedCU [f0, f1] = true ∧ AllValid [f0c1, f0c00, f0c1] ∧ containsCU [f0, f1] [f0c1, f0c00, f0c1] = true := by
  decide

/-- `Intersects(CellUnion)`: `cu` any union of valid cells, `o` a valid (sorted, disjoint) union. -/
theorem intersectsCU_iff (cu o : CU) (hcu : AllValid cu) (ho : isValidCU o = true) :
    intersectsCU cu o = true ↔ LeavesMeet cu o := by
  unfold intersectsCU
  rw [List.any_eq_true]
  constructor
  · rintro ⟨c, hc, h⟩
    obtain ⟨n, hn, h1, h2⟩ := (intersectsCellID_iff o c ho (hcu c hc)).mp h
    obtain ⟨g1, g2⟩ := (covers_single c n).mp ((coversLeaf_iff [c] n).mp h1)
    exact ⟨n, hn, (coversLeaf_iff cu n).mpr ⟨c, hc, g1, g2⟩, h2⟩
  · rintro ⟨n, hn, h1, h2⟩
    obtain ⟨c, hc, g1, g2⟩ := (coversLeaf_iff cu n).mp h1
    refine ⟨c, hc, (intersectsCellID_iff o c ho (hcu c hc)).mpr ⟨n, hn, ?_, h2⟩⟩
    exact (coversLeaf_iff [c] n).mpr ((covers_single c n).mpr ⟨g1, g2⟩)

example : AllValid [f1, f0c00, f0c00] ∧ isValidCU [f0c0, f0c1] = true ∧ intersectsCU [f1, f0c00, f0c00] [f0c0, f0c1] = true := by
  decide

/-! ## (d) set operations -/

/-- MINIMALITY of the normal form: a normalized union has the fewest cells among all unions of valid
    cells covering the same leaves ("the minimal sequence of cells"). -/
theorem normalized_minimal (x y : CU) (hx : isNormalizedCU x = true) (hy : AllValid y)
    (h : SameLeaves x y) : x.length ≤ y.length := by
  rw [normalize_unique y x hy hx h]
  exact normalize_length y

example : isNormalizedCU [f0] = true ∧ AllValid [f0c3, f0c1, f0c0, f0c2, f0c00] := by decide

/-- `CellUnionFromUnion`: normalized, and covers exactly the union of the leaf sets. -/
theorem union_spec (cus : List CU) (hv : ∀ cu ∈ cus, AllValid cu) :
    isNormalizedCU (union cus) = true ∧
      ∀ n, n % 2 = 1 → coversLeaf (union cus) n = cus.any (fun cu => coversLeaf cu n) := by
  have hvf : AllValid cus.flatten := by
    intro c hc
    obtain ⟨cu, hcu, hc'⟩ := List.mem_flatten.mp hc
    exact hv cu hcu c hc'
  refine ⟨normalize_isNormalizedCU _ hvf, fun n hn => ?_⟩
  unfold union
  rw [normalize_leaves _ hvf n hn]
  unfold coversLeaf
  rw [List.any_flatten]

example : (∀ cu ∈ [[f0c3, f0c1], [f0c0, f0c2, f0c00], [f1]], AllValid cu) ∧
    union [[f0c3, f0c1], [f0c0, f0c2, f0c00], [f1]] = [f0, f1] :=
  ⟨by decide, normalize_eq_of_perm (s := [f0c00, f0c0, f0c1, f0c2, f0c3, f1]) (by decide) (by decide) (by decide)⟩

/-- `CellUnionFromIntersectionWithCellID` on a valid (sorted, disjoint) union: normalized, and covers
    exactly the leaves of `x` that are leaves of `id`. -/
theorem intersectionWithCellID_leaves (x : CU) (id : CellID) (hx : isValidCU x = true)
    (hid : isValid id = true) :
    isNormalizedCU (intersectionWithCellID x id) = true ∧
      ∀ n, n % 2 = 1 →
        coversLeaf (intersectionWithCellID x id) n = (coversLeaf x n && coversLeaf [id] n) := by
  obtain ⟨hv, hs⟩ := (isValidCU_iff x).mp hx
  obtain ⟨h1, h2, h3, h4⟩ := intersectionWithCellID_spec x id hv hs hid
  refine ⟨(isNormalizedCU_iff _).mpr ⟨h1, h2, h3⟩, fun n hn => ?_⟩
  have := h4 n hn
  rw [← coversLeaf_iff, ← coversLeaf_iff, ← covers_single, ← coversLeaf_iff] at this
  cases hA : coversLeaf (intersectionWithCellID x id) n <;> cases hB : coversLeaf x n <;>
    cases hC : coversLeaf [id] n <;> simp_all

example : isValidCU [f0c0, f0c1, f0c3, f1] = true ∧ isValid f0 = true ∧
    containsCellID [f0c0, f0c1, f0c3, f1] f0 = false ∧ containsCellID [f0c0, f0c1, f0c3, f1] f0c00 = true := by
  decide

/-- `CellUnionFromDifference`: for ANY union `x` of valid cells and any valid (sorted, disjoint; not
    necessarily normalized) union `y`, the result consists of valid cells and covers exactly the
    leaves of `x` that are not leaves of `y`. -/
theorem difference_leaves (x y : CU) (hx : AllValid x) (hy : isValidCU y = true) :
    AllValid (difference x y) ∧
      ∀ n, n % 2 = 1 → coversLeaf (difference x y) n = (coversLeaf x n && !coversLeaf y n) := by
  obtain ⟨hvy, hsy⟩ := (isValidCU_iff y).mp hy
  obtain ⟨h1, h2⟩ := difference_spec x y hx hvy hsy
  refine ⟨h1, fun n hn => ?_⟩
  have := h2 n hn
  rw [← coversLeaf_iff, ← coversLeaf_iff, ← coversLeaf_iff] at this
  cases hA : coversLeaf (difference x y) n <;> cases hB : coversLeaf x n <;>
    cases hC : coversLeaf y n <;> simp_all

/-- … and it is again a valid (sorted, disjoint) union when `x` is. -/
theorem difference_valid (x y : CU) (hx : isValidCU x = true) (hy : isValidCU y = true) :
    isValidCU (difference x y) = true := difference_isValidCU x y hx hy

/-- Recursion depth of `cellUnionDifferenceInternal`: the model's fuel 32 is never exhausted (more
    fuel gives the same result), for every valid starting cell. -/
theorem difference_fuel_suffices (y : CU) (hy : isValidCU y = true) (id : CellID)
    (hid : isValid id = true) (acc : List CellID) (f : Nat) (hf : 32 ≤ f) :
    differenceInternal y f id acc = differenceInternal y 32 id acc := by
  obtain ⟨hvy, hsy⟩ := (isValidCU_iff y).mp hy
  exact differenceInternal_fuel32 y hvy hsy hid acc f hf

/-- a level-2 hole; an un-normalized `y`; a single-leaf hole (recursion down to level 30) -/
example : AllValid [f0, f0c1] ∧ isValidCU [f0c00] = true ∧ isValidCU [f0c0, f0c1, f0c2, f0c3] = true ∧
    difference [f0] [f0c00] = [0x0300000000000000, 0x0500000000000000, 0x0700000000000000, f0c1, f0c2, f0c3] ∧
    difference [f0] [f0c0, f0c1, f0c2, f0c3] = [] ∧ isValidCU [(1 : UInt64)] = true ∧
    (difference [f0] [(1 : UInt64)]).length = 90 := by decide

/-- `Denormalize(minLevel, levelMod)` under its contract (`minLevel ≤ 30`, `1 ≤ levelMod ≤ 3`): valid
    cells, the same leaves, and every cell has level ≥ minLevel with `level - minLevel` a multiple of
    `levelMod` unless the expansion stopped at the maximum level 30 (as the Go doc says). -/
theorem denormalize_leaves (cu : CU) (minLevel levelMod : Nat) (hv : AllValid cu) (hmin : minLevel ≤ 30)
    (hmod : 1 ≤ levelMod ∧ levelMod ≤ 3) :
    AllValid (denormalize cu minLevel levelMod) ∧ SameLeaves (denormalize cu minLevel levelMod) cu ∧
      ∀ c ∈ denormalize cu minLevel levelMod,
        minLevel ≤ level c ∧ ((level c - minLevel) % levelMod = 0 ∨ level c = 30) := by
  obtain ⟨h1, h2, h3⟩ := denormalize_spec cu minLevel levelMod hv hmin hmod
  exact ⟨h1, fun n hn => (coversLeaf_eq_iff _ _ n).mpr (h2 n hn), h3⟩

/-- … and a valid (sorted, disjoint) union stays one. -/
theorem denormalize_valid (cu : CU) (minLevel levelMod : Nat) (h : isValidCU cu = true)
    (hmin : minLevel ≤ 30) (hmod : 1 ≤ levelMod ∧ levelMod ≤ 3) :
    isValidCU (denormalize cu minLevel levelMod) = true :=
  denormalize_isValidCU cu minLevel levelMod h hmin hmod

example : AllValid [f0c0, f1] ∧ isValidCU [f0c0, f1] = true ∧
    denormalize [f0c0, f1] 0 2 =
      [0x0100000000000000, 0x0300000000000000, 0x0500000000000000, 0x0700000000000000, f1] := by decide

/-- `LeafCellsCovered` of a valid (sorted, disjoint) union is the number of covered leaf cells
    (= the number of odd positions below 6·2^61 that the union covers). -/
theorem leafCellsCovered_count (cu : CU) (h : isValidCU cu = true) :
    leafCellsCovered cu =
      (List.range (6 * 2^61)).countP (fun n => decide (n % 2 = 1) && coversLeaf cu n) := by
  obtain ⟨hv, hs⟩ := (isValidCU_iff cu).mp h
  exact leafCellsCovered_eq_count' cu hv hs

example : isValidCU [f0c0, f1] = true ∧ leafCellsCovered [f0c0, f1] = 4^29 + 4^30 := by decide

/-- The skipping two-pointer loop of `CellUnionFromIntersection` (before its final Normalize) on two
    valid (sorted, disjoint; not necessarily normalized) unions: every emitted cell is a valid member
    of `x` or `y`, and the emitted cells cover exactly the positions covered by both. -/
theorem intersectionRaw_leaves (x y : CU) (hx : isValidCU x = true) (hy : isValidCU y = true) :
    AllValid (intersectionRaw x y) ∧ (∀ c ∈ intersectionRaw x y, c ∈ x ∨ c ∈ y) ∧
      ∀ n, coversLeaf (intersectionRaw x y) n = (coversLeaf x n && coversLeaf y n) := by
  obtain ⟨hvx, hsx⟩ := (isValidCU_iff x).mp hx
  obtain ⟨hvy, hsy⟩ := (isValidCU_iff y).mp hy
  obtain ⟨h1, h2⟩ := intersectionRaw_spec x y hvx hsx hvy hsy
  refine ⟨h1, intersectionRaw_mem x y hvx hsx hvy hsy, fun n => ?_⟩
  have := h2 n
  rw [← coversLeaf_iff, ← coversLeaf_iff, ← coversLeaf_iff] at this
  cases hA : coversLeaf (intersectionRaw x y) n <;> cases hB : coversLeaf x n <;>
    cases hC : coversLeaf y n <;> simp_all

/-- The loop's fuel `2*(|x|+|y|)+4` always suffices: the loop has exited by itself (every iteration
    advances `i + j`, also through the `lowerBound` skips), more fuel changes nothing. -/
theorem intersectionRaw_fuel_suffices (x y : CU) (hx : isValidCU x = true) (hy : isValidCU y = true)
    (extra : Nat) :
    intersectionRaw.go x.toArray y.toArray (2 * (x.length + y.length) + 4 + extra) 0 0 [] =
      intersectionRaw.go x.toArray y.toArray (2 * (x.length + y.length) + 4) 0 0 [] := by
  obtain ⟨hvx, hsx⟩ := (isValidCU_iff x).mp hx
  obtain ⟨hvy, hsy⟩ := (isValidCU_iff y).mp hy
  exact intersectionRaw_fuel x y hvx hsx hvy hsy extra

/-- `CellUnionFromIntersection`: normalized, and covers exactly the common leaves. -/
theorem intersection_leaves (x y : CU) (hx : isValidCU x = true) (hy : isValidCU y = true) :
    isNormalizedCU (intersection x y) = true ∧
      ∀ n, n % 2 = 1 → coversLeaf (intersection x y) n = (coversLeaf x n && coversLeaf y n) := by
  obtain ⟨hvx, hsx⟩ := (isValidCU_iff x).mp hx
  obtain ⟨hvy, hsy⟩ := (isValidCU_iff y).mp hy
  obtain ⟨h1, h2, h3, h4⟩ := intersection_spec x y hvx hsx hvy hsy
  refine ⟨(isNormalizedCU_iff _).mpr ⟨h1, h2, h3⟩, fun n hn => ?_⟩
  have := h4 n hn
  rw [← coversLeaf_iff, ← coversLeaf_iff, ← coversLeaf_iff] at this
  cases hA : coversLeaf (intersection x y) n <;> cases hB : coversLeaf x n <;>
    cases hC : coversLeaf y n <;> simp_all

/-- equal-rangeMin, emit and skip branches all occur on this pair -/
example : isValidCU [f0c0, f0c1, f1] = true ∧ isValidCU [f0c00, f0c1, 0x5000000000000000] = true ∧
    intersectionRaw [f0c0, f0c1, f1] [f0c00, f0c1, 0x5000000000000000] = [f0c00, f0c1] := by decide

/-! ### range tiling -/

/-- `MaxTile`: for a valid cell `ci` starting before the leaf position `limit` (odd word), the result
    is a valid cell with the same first leaf that ends before `limit` and is the LARGEST such cell
    (any valid cell with the same first leaf ending before `limit` is inside it).  The fuel 32 of both
    loops of the model is never exhausted (part of the proof of `maxTile_spec`). -/
theorem maxTile_largest (ci limit : CellID) (hci : isValid ci = true) (hodd : limit.toNat % 2 = 1)
    (hlt : (rangeMin ci).toNat < limit.toNat) :
    isValid (maxTile ci limit) = true ∧ rangeMin (maxTile ci limit) = rangeMin ci ∧
      (rangeMax (maxTile ci limit)).toNat < limit.toNat ∧
      ∀ z, isValid z = true → rangeMin z = rangeMin ci → (rangeMax z).toNat < limit.toNat →
        (rangeMax z).toNat ≤ (rangeMax (maxTile ci limit)).toNat := by
  obtain ⟨k, hk⟩ := (isValid_iff ci).mp hci
  obtain ⟨j, hm, hlo, _, _⟩ := maxTile_spec hk hodd hlt
  refine ⟨hm.1.valid, UInt64.toNat_inj.mp hlo, hm.2.1, fun z hz hzlo hzhi => ?_⟩
  exact hm.largest hz (by show (rangeMin z).toNat = (rangeMin (maxTile ci limit)).toNat; rw [hzlo]; exact hlo.symm) hzhi

example : isValid (9 : CellID) = true ∧ (0xC000000000000001 : CellID).toNat % 2 = 1 ∧
    (rangeMin (9 : CellID)).toNat < (0xC000000000000001 : CellID).toNat ∧
    maxTile 9 0xC000000000000001 = 12 ∧ maxTile 9 13 = 9 := by decide

/-- `CellUnionFromRange(begin, end)` under its contract (`begin`, `end` leaf positions, i.e. odd words
    `≤ End(MaxLevel) = 6·2^61+1`, `begin ≤ end`): the result covers exactly the leaves in `[begin, end)`
    and is normalized, hence (by `normalized_minimal`) it is THE minimal tiling of the range. -/
theorem fromRange_tiles (b e : CellID)
    (h : b.toNat % 2 = 1 ∧ e.toNat % 2 = 1 ∧ b.toNat ≤ e.toNat ∧ e.toNat ≤ 6 * 2^61 + 1) :
    isNormalizedCU (fromRange b e) = true ∧
      ∀ n, n % 2 = 1 → (coversLeaf (fromRange b e) n = true ↔ b.toNat ≤ n ∧ n < e.toNat) := by
  obtain ⟨h1, h2⟩ := fromRange_spec' h
  exact ⟨h1, fun n hn => by rw [coversLeaf_iff]; exact h2 n hn⟩

/-- minimality, spelled out: no union of valid cells with the same leaves has fewer cells -/
theorem fromRange_minimal (b e : CellID)
    (h : b.toNat % 2 = 1 ∧ e.toNat % 2 = 1 ∧ b.toNat ≤ e.toNat ∧ e.toNat ≤ 6 * 2^61 + 1)
    (y : CU) (hy : AllValid y) (hsame : SameLeaves (fromRange b e) y) :
    (fromRange b e).length ≤ y.length :=
  normalized_minimal _ y (fromRange_tiles b e h).1 hy hsame

/-- the model's fuel 400 for the tiling loop is never exhausted: at most 186 tiles are produced
    (`fromRange 3 0xBFFFFFFFFFFFFFFF` has 184) and more fuel gives the same result -/
theorem fromRange_fuel_suffices (b e : CellID)
    (h : b.toNat % 2 = 1 ∧ e.toNat % 2 = 1 ∧ b.toNat ≤ e.toNat ∧ e.toNat ≤ 6 * 2^61 + 1) (g : Nat)
    (hg : 400 ≤ g) :
    (fromRange.go e g (maxTile b e) []).reverse = fromRange b e ∧ (fromRange b e).length ≤ 186 := by
  have hr := fromRange_reaches h.1 ⟨h.2.1, h.2.2.2⟩ h.2.2.1
  refine ⟨?_, fromRange_length_le h.1 ⟨h.2.1, h.2.2.2⟩ h.2.2.1⟩
  unfold fromRange
  rw [go_fuel_irrelevant e 187 g _ _ hr (by omega), go_fuel_irrelevant e 187 400 _ _ hr (by omega)]

example : ((7 : CellID).toNat % 2 = 1 ∧ (35 : CellID).toNat % 2 = 1 ∧ (7 : CellID).toNat ≤ (35 : CellID).toNat ∧
      (35 : CellID).toNat ≤ 6 * 2^61 + 1) ∧ fromRange 7 35 = [7, 12, 20, 28, 33] ∧
    fromRange 1 0xC000000000000001 = [fromFace 0, fromFace 1, fromFace 2, fromFace 3, fromFace 4, fromFace 5] := by
  decide

/-! ## (e) CellIndex and s2intersect.Find

Models: `S2/CellIndex.lean` (`build`, range iterator, contents iterator with de-duplication),
`S2/Intersect.lean` (`find`).  The two full statements below are kept here as `def … : Prop`; they are
PROVED in `Properties/C11_Index.lean` (`cellIndex_contents_correct`, `find_correct`), together with the
theorems about the range iterator and the contents iterator.  They are additionally evaluated on every
run by the oracle judges (`Oracle/C11b.lean`: `judgeRanges`, `judgeSweep`, `judgeFind`) on the
implementation's own output. -/

/-- FULL STATEMENT (proved: `cellIndex_contents_correct` in `Properties/C11_Index.lean`): for all valid
    cells with labels ≥ 0, the range nodes of `Build` tile `[firstLeaf, endLeaf)` and at EVERY leaf of
    every range the contents chain is exactly (as a multiset) the set of indexed pairs whose cell
    contains the leaf, its label set is `labelsAt`. -/
def CellIndex_contents_correct : Prop := S2Proofs.CIdx.CellIndex_contents_correct

/-- FULL STATEMENT (proved: `find_correct` in `Properties/C11_Index.lean`): `Find` on unions of valid
    cells: index sets have ≥ 2 members; a leaf `x` covered by an entry with index set `S` has
    `S = {i | x ∈ cus[i]}` (so entries are disjoint and leaves covered by fewer than two unions are in no
    entry), and every leaf covered by at least two unions is covered by the entry for exactly its index
    set. -/
def Find_correct : Prop :=
  ∀ cus : List CU, (∀ cu ∈ cus, AllValid cu) →
    (∀ r ∈ Intersect.find cus, 2 ≤ r.indices.length) ∧
    ∀ x, x % 2 = 1 →
      (∀ r ∈ Intersect.find cus, (coversLeaf r.cells x = true → r.indices = Intersect.coveringAt cus x)) ∧
      (2 ≤ (Intersect.coveringAt cus x).length →
        ∃ r ∈ Intersect.find cus, r.indices = Intersect.coveringAt cus x ∧ coversLeaf r.cells x = true)

open S2.CellIndex in
/-- (ALL inputs, no contract): the range nodes of `Build` have strictly increasing start ids, so the ranges
    `[start_p, start_{p+1})` are non-empty, increasing and contiguous. -/
theorem cellIndex_ranges_sorted (cells : List (CellID × Int)) :
    (S2Proofs.CIdx.starts (build cells).ranges).Pairwise (· < ·) :=
  S2Proofs.CIdx.build_ranges_sorted cells

open S2.CellIndex in
/-- (labels ≥ 0, the contract of `Add`): the label tree holds exactly the added pairs, each as
    often as it was added. -/
theorem cellIndex_tree_perm (cells : List (CellID × Int)) (hl : ∀ p ∈ cells, 0 ≤ p.2) :
    (S2Proofs.CIdx.treePairs (build cells).tree).Perm cells :=
  S2Proofs.CIdx.build_tree_perm cells hl

example : ∀ p ∈ [((0x1000000000000000 : CellID), (3 : Int)), (0x0400000000000000, 0)], 0 ≤ p.2 := by simp

open S2.CellIndex in
/-- (ALL inputs, no contract): parent links point strictly backwards (or are -1), every range node's
    `contents` is -1 or a valid node index, and the parent-chain walk of the contents iterator never
    exhausts its fuel `tree.size + 1`. -/
theorem cellIndex_wellformed (cells : List (CellID × Int)) :
    S2Proofs.CIdx.TreeWF (build cells).tree ∧
    (∀ r ∈ (build cells).ranges.toList, -1 ≤ r.contents ∧ r.contents < ((build cells).tree.size : Int)) ∧
    ∀ r ∈ (build cells).ranges.toList, ∀ extra : Nat,
      chain (build cells).tree ((build cells).tree.size + 1 + extra) r.contents =
        chain (build cells).tree ((build cells).tree.size + 1) r.contents := by
  obtain ⟨h1, h2⟩ := S2Proofs.CIdx.build_wf cells
  exact ⟨h1, h2, fun r hr extra => S2Proofs.CIdx.build_chain_fuel cells r hr extra⟩

end S2Proofs.C11
