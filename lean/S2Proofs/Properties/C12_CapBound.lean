/-
  C12 / C10 — "all points of a cell lie within its bounding cap", as theorems about the FLOAT code of `Cell.CapBound`
  (s2/cell.go, with `padCapBound` of s2/rect.go after repair 7d5d157).

  Model: `S2.CellM.capBoundRaw` / `padCapBound` / `capBound` (`lean/S2/CellCap.lean`, bit-exact binary64; the only libm call,
  `ChordAngleFromAngle(6·2^-52)` inside `Cap.Expanded`, is the parameter `dc`; Go's value is `capSlackChord = 36·2^-104`).
  Exact cell: `C12Dist.InCellXYZ c q` (unit vectors whose face-frame image lies in the cone over the uv rectangle).

  PROVED for EVERY valid cell id (all faces, all levels), no hypothesis besides `isValid`:
   * `capBoundRaw_radius`   : the cap before padding is `(capCenter, R)` with `R` finite, `0 ≤ R ≤ 0.85`, `R ≥` each computed vertex chord;
   * `capBoundRaw_contains_cell` : every point `q` of the exact cell has `|center − q|² ≤ R·(1+9.6ε) + 2.01ε·√R + 22ε²` (ε = 2^-52) —
     the UNPADDED cap contains the exact cell up to an explicit slack `< 11·2^-52` (`capNeed_le`);
   * `capBound_contains_cell` : the PADDED cap (what `CapBound()` returns) contains the exact cell with NO slack:
     `|center − q|² ≤ radius` in exact arithmetic, for every `dc ∈ [35·2^-104, 4]`;
   * `capBound_containsPoint` : for every Normalize-grade float point `p` (`nunitB`) whose direction lies in the exact cell
     (`InCone`: five inequalities on the float coordinates, decidable in exact arithmetic), the FLOAT test
     `CapBound().ContainsPoint(p)` is true.
  Core geometry: `C12Cap.hull_dot` (a cap of radius < 90° containing the four vertices contains their spherical convex hull, from
  `cell_combination`), `C12Cap.mid_dot_ge_half` (the uv-centre sees every vertex under ≤ 60°, any rectangle in [-1,1]²),
  `mid_dot_ge_quadrant` (< 45.6° for level ≥ 1), face cells 54.74° (`raw_le_of_face`).  Float side: `C16Acc.scaleSpec` (Normalize),
  `CapF64.between_spec` (chord), `C12Cap.needed_real` (error budget, needed side), `C12Cap.padRadius_lower` (what the padding provides).
-/
import S2Proofs.C12Cap.Main
import S2Proofs.C12Dist.Examples

set_option exponentiation.threshold 3000

namespace S2Proofs.C12
open S2 S2.CellM S2.Exact S2Proofs.FloatErr S2Proofs.F64Order S2Proofs.C16Acc S2Proofs.C12Dist S2Proofs.CapF64 S2Proofs.C12Cap
open S2.CapF64

/-- the direction of `P` (face frame) lies in the cell: five inequalities, decidable in exact arithmetic for float coordinates -/
def InCone (r : RRect) (P : R3) : Prop :=
  0 < P.z ∧ r.u0 * P.z ≤ P.x ∧ P.x ≤ r.u1 * P.z ∧ r.v0 * P.z ≤ P.y ∧ P.y ≤ r.v1 * P.z

/-- a point of the cone is a positive multiple of a point of the exact cell -/
theorem inCone_dir (r : RRect) (P : R3) (h : InCone r P) :
    ∃ (lam : ℝ) (q : R3), 0 < lam ∧ InCell r q ∧ P = R3.smul lam q := by
  obtain ⟨hz, a1, a2, a3, a4⟩ := h
  have hn2 : 0 < P.norm2 := by unfold R3.norm2; nlinarith [sq_nonneg P.x, sq_nonneg P.y, sq_pos_of_pos hz]
  have hn : 0 < P.norm := Real.sqrt_pos.mpr hn2
  have hi : 0 < 1 / P.norm := by positivity
  refine ⟨P.norm, R3.smul (1 / P.norm) P, hn, ⟨?_, ?_, ?_, ?_, ?_, ?_⟩, ?_⟩
  · rw [R3.norm2_smul, ← R3.norm_sq P]; field_simp
  · show 0 < 1 / P.norm * P.z
    positivity
  · show r.u0 * (1 / P.norm * P.z) ≤ 1 / P.norm * P.x
    have := mul_le_mul_of_nonneg_left a1 hi.le
    linarith
  · show 1 / P.norm * P.x ≤ r.u1 * (1 / P.norm * P.z)
    have := mul_le_mul_of_nonneg_left a2 hi.le
    linarith
  · show r.v0 * (1 / P.norm * P.z) ≤ 1 / P.norm * P.y
    have := mul_le_mul_of_nonneg_left a3 hi.le
    linarith
  · show 1 / P.norm * P.y ≤ r.v1 * (1 / P.norm * P.z)
    have := mul_le_mul_of_nonneg_left a4 hi.le
    linarith
  · unfold R3.smul; ext <;> simp <;> field_simp

/-- the slack of the unpadded cap is below `11·2^-52` for radii up to 0.85 -/
theorem capNeed_le (R : ℝ) (h0 : 0 ≤ R) (h1 : R ≤ 17 / 20) : capNeed R ≤ R + 11 * eps := by
  unfold capNeed
  have hs : Real.sqrt R ≤ 1 := by
    rw [show (1 : ℝ) = Real.sqrt 1 by simp]; exact Real.sqrt_le_sqrt (by linarith)
  have he := eps_pos
  have h2 : eps ^ 2 ≤ eps / 1000 := by unfold eps; norm_num
  have h3 : R * (96 / 10 * eps) ≤ 17 / 20 * (96 / 10 * eps) := mul_le_mul_of_nonneg_right h1 (by positivity)
  have h4 : 201 / 100 * eps * Real.sqrt R ≤ 201 / 100 * eps * 1 := mul_le_mul_of_nonneg_left hs (by positivity)
  nlinarith

/-- **the cap before `padCapBound`**: centre `capCenter`, radius finite, in `[0, 0.85]`, at least each computed vertex chord -/
theorem capBoundRaw_radius (id : CellID) (hv : CellID.isValid id = true) :
    (capBoundRaw (cellFromCellID id)).center = capCenter (cellFromCellID id) ∧
    Fin (capBoundRaw (cellFromCellID id)).radius ∧ 0 ≤ val (capBoundRaw (cellFromCellID id)).radius ∧
    val (capBoundRaw (cellFromCellID id)).radius ≤ 17 / 20 ∧
    ∀ k, k < 4 → F64.le (Chord.between (capCenter (cellFromCellID id)) (vertex (cellFromCellID id) k))
      (capBoundRaw (cellFromCellID id)).radius = true := by
  have ctx := capCtx id hv
  obtain ⟨R, hraw, fR, n0, h1, m0, m1, m2, m3⟩ := raw_radius_le id hv
  rw [hraw]
  refine ⟨rfl, fR, n0, h1, ?_⟩
  intro k hk
  have : k = 0 ∨ k = 1 ∨ k = 2 ∨ k = 3 := by omega
  rcases this with h | h | h | h <;> subst h
  · exact (le_iff_val (between_fin ctx.ctrN ctx.v0.1).1 fR).2 m0
  · exact (le_iff_val (between_fin ctx.ctrN ctx.v1.1).1 fR).2 m1
  · exact (le_iff_val (between_fin ctx.ctrN ctx.v2.1).1 fR).2 m2
  · exact (le_iff_val (between_fin ctx.ctrN ctx.v3.1).1 fR).2 m3

/-- **the unpadded cap contains the exact cell up to an explicit slack** (exact arithmetic on the float centre and radius):
    for every valid cell and every point `q` of the exact cell, `|center − q|² ≤ R(1 + 9.6ε) + 2.01ε√R + 22ε² ≤ R + 11ε`. -/
theorem capBoundRaw_contains_cell (id : CellID) (hv : CellID.isValid id = true) (q : R3)
    (hq : InCellXYZ (cellFromCellID id) q) :
    S2Proofs.C12Dist.dist2 (ofV (capBoundRaw (cellFromCellID id)).center) q ≤ capNeed (val (capBoundRaw (cellFromCellID id)).radius) ∧
    capNeed (val (capBoundRaw (cellFromCellID id)).radius) ≤ val (capBoundRaw (cellFromCellID id)).radius + 11 * eps := by
  have ctx := capCtx id hv
  obtain ⟨R, hraw, fR, n0, h1, m0, m1, m2, m3⟩ := raw_radius_le id hv
  rw [hraw]
  refine ⟨?_, capNeed_le _ n0 h1⟩
  show S2Proofs.C12Dist.dist2 (ofV (capCenter (cellFromCellID id))) q ≤ capNeed (val R)
  set c := cellFromCellID id with hc
  have hq' : InCell (rectOf c) (uvwR c.face q) := hq
  have hP : |(uvwR c.face q).norm2 - 1| ≤ NU * eps := by
    rw [hq'.1]; simp; unfold NU eps; positivity
  have hPq : uvwR c.face q = R3.smul 1 (uvwR c.face q) := by unfold R3.smul; ext <;> simp
  have key := cell_chain c ctx (val R) m0 m1 m2 m3 n0 h1 (uvwR c.face q) (uvwR c.face q) 1 hq' hP one_pos hPq
  rw [uvwR_dist2] at key
  have hd0 : 0 ≤ S2Proofs.C12Dist.dist2 (ofV (capCenter c)) q := by
    unfold S2Proofs.C12Dist.dist2; exact R3.norm2_nonneg _
  have hk : 1 ≤ (1 + uR) ^ 5 := one_le_pow₀ (by have := uR_nonneg; linarith)
  have he := eR_nonneg
  nlinarith

/-- `Cell.CapBound()` unfolded: the centre is unchanged, the radius is `padRadius (R.Add(dc))` -/
theorem capBound_eq (id : CellID) (hv : CellID.isValid id = true) (dc : F64) :
    capBound (cellFromCellID id) dc = ⟨capCenter (cellFromCellID id),
      padRadius (Chord.add (capBoundRaw (cellFromCellID id)).radius dc)⟩ := by
  obtain ⟨R, hraw, fR, n0, -⟩ := raw_radius_le id hv
  unfold capBound padCapBound
  rw [hraw, expanded_eq]
  have hne : F64.lt R Chord.f0 = false := by
    rw [Bool.eq_false_iff]; intro h
    have := (lt_iff_val fR val_f0.1).1 h
    rw [val_f0.2] at this; linarith
  simp only [hne, Bool.false_eq_true, if_false]

/-- **`capBound_contains_cell` — the cap returned by `Cell.CapBound()` contains the exact cell, with no slack**: for every valid cell id,
    every outcome `dc ∈ [35·2^-104, 4]` of the `sin` call (Go: `36·2^-104`) and every point `q` of the exact cell,
    `|center − q|² ≤ radius` in exact arithmetic on the returned float centre and radius; the radius is a finite chord angle `≤ 4`. -/
theorem capBound_contains_cell (id : CellID) (hv : CellID.isValid id = true) (dc : F64) (fdc : Fin dc)
    (hdc0 : 35 * eps ^ 2 ≤ val dc) (hdc4 : val dc ≤ 4) (q : R3) (hq : InCellXYZ (cellFromCellID id) q) :
    Fin (capBound (cellFromCellID id) dc).radius ∧ val (capBound (cellFromCellID id) dc).radius ≤ 4 ∧
    S2Proofs.C12Dist.dist2 (ofV (capBound (cellFromCellID id) dc).center) q ≤ val (capBound (cellFromCellID id) dc).radius := by
  obtain ⟨h1, h2⟩ := capBoundRaw_contains_cell id hv q hq
  obtain ⟨hc, fR, n0, hR1, -⟩ := capBoundRaw_radius id hv
  obtain ⟨fp, p4, plow⟩ := padRadius_lower _ dc fR fdc n0 hR1 hdc0 hdc4
  rw [capBound_eq id hv dc]
  rw [hc] at h1
  exact ⟨fp, p4, le_trans h1 plow⟩

/-- **`capBound_containsPoint` — the float test accepts every float point of the cell**: for every valid cell id, every `dc ∈ [35·2^-104, 4]`
    and every Normalize-grade float vector `p` (`nunitB`: what `Normalize` / `PointFromCoords` deliver) whose direction lies in the exact
    cell (`InCone` on the face-frame coordinates of `p`), `c.CapBound().ContainsPoint(p)` evaluates to true in binary64. -/
theorem capBound_containsPoint (id : CellID) (hv : CellID.isValid id = true) (dc : F64) (fdc : Fin dc)
    (hdc0 : 35 * eps ^ 2 ≤ val dc) (hdc4 : val dc ≤ 4) (p : V3) (hp : nunitB p = true)
    (hcone : InCone (rectOf (cellFromCellID id)) (uvwR (cellFromCellID id).face (ofV p))) :
    (capBound (cellFromCellID id) dc).containsPoint p = true := by
  have ctx := capCtx id hv
  obtain ⟨R, hraw, fR, n0, h1, m0, m1, m2, m3⟩ := raw_radius_le id hv
  obtain ⟨fp, p4, plow⟩ := padRadius_lower R dc fR fdc n0 h1 hdc0 hdc4
  rw [capBound_eq id hv dc, hraw, containsPoint_eq]
  set c := cellFromCellID id with hc
  obtain ⟨lam, q', hlam, hq', hPq⟩ := inCone_dir _ _ hcone
  have key := cell_chain c ctx (val R) m0 m1 m2 m3 n0 h1 (uvwR c.face (ofV p)) q' lam hq' (nunit_real hp c.face) hlam hPq
  rw [dist2_frame] at key
  have hC' := (nunitB_iff _).1 ctx.ctrN
  have hp' := (nunitB_iff p).1 hp
  obtain ⟨ca1, ca2, ca3⟩ := nunit_coord_le hC'
  obtain ⟨cb1, cb2, cb3⟩ := nunit_coord_le hp'
  obtain ⟨fb, _, _, hU, _⟩ := between_spec (capCenter c) p hC'.1 hp'.1 ca1 ca2 ca3 cb1 cb2 cb3
  apply (le_iff_val fb fp).2
  unfold capNeed at key
  linarith

/-! ### Non-vacuity -/

-- valid ids: a face cell, a level-29 cell, a leaf cell; Go's value of `dc` satisfies the hypotheses on `dc`
example : CellID.isValid (0x1000000000000000 : CellID) = true ∧ CellID.isValid (0x5555555555555554 : CellID) = true ∧
    CellID.isValid (0x3000000000000001 : CellID) = true ∧ Fin capSlackChord := by decide

set_option exponentiation.threshold 256 in
theorem capSlackChord_val : val capSlackChord = 36 * eps ^ 2 := by
  have h : toInt capSlackChord = 9 * 2 ^ 972 := by decide +kernel
  unfold val eps; rw [h]; push_cast
  rw [show (2 : ℝ) ^ 1074 = 2 ^ 972 * 2 ^ 102 by rw [← pow_add]]
  have hp : (0 : ℝ) < 2 ^ 972 := by positivity
  generalize (2 : ℝ) ^ 972 = B at *
  field_simp
  norm_num

example : 35 * eps ^ 2 ≤ val capSlackChord ∧ val capSlackChord ≤ 4 := by
  rw [capSlackChord_val]
  have := eps_pos
  constructor
  · nlinarith [sq_nonneg eps]
  · unfold eps; norm_num

-- the exact cell of every valid id (e.g. the leaf cell above) is not empty: the quantifier over `q` is never vacuous
example : ∃ q, InCellXYZ (cellFromCellID (0x3000000000000001 : CellID)) q := by
  obtain ⟨q, hq⟩ := cell_nonempty (0x3000000000000001 : CellID) (by decide)
  exact ⟨q, hq.1⟩

-- a float point satisfying the hypotheses of `capBound_containsPoint`: the face cell of face 0 and `p = (1, 0, 0)`
example : nunitB (⟨F64.one, fzero, fzero⟩ : V3) = true ∧
    InCone (rectOf (cellFromCellID (0x1000000000000000 : CellID)))
      (uvwR (cellFromCellID (0x1000000000000000 : CellID)).face (ofV ⟨F64.one, fzero, fzero⟩)) := by
  refine ⟨by decide +kernel, ?_⟩
  rw [cell_level0_rect _ (by decide) (by decide)]
  have hf : (cellFromCellID (0x1000000000000000 : CellID)).face = 0 := by decide +kernel
  rw [hf]
  have h1 : val F64.one = 1 := S2Proofs.C12Dist.VertexErr.val_one
  have h0 : val fzero = 0 := (zero_val false).2
  unfold InCone uvwR ofV
  simp only [h1, h0]
  norm_num

end S2Proofs.C12
