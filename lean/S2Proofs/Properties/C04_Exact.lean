/-
  Property C04, deepening: the hypotheses `EqLaws G`, sign-swap (`rs b a c = -rs a b c`) and `CrossLaws G`
  of `Properties/C04.lean` DISCHARGED for the concrete exact geometry `S2.Contain.exactGeo`
  (Go `==` on float vectors, `Pred.exactDecision`, `s2Ortho`), and the conditional theorems of C04
  restated as unconditional corollaries for it.

  Input domain: every point involved (loop vertices, query point `p`, reference point `o`) has FINITE
  coordinates (`Fin3`).  Nothing else: no ±0 condition (Go `==` and the exact sign both identify +0 and
  -0, and C04's statements are phrased with Go `==`, not with structural equality), no unit-length
  condition, no condition on the reference directions `s2Ortho v` (which may even be non-finite: the
  `OrderedCCW` terms of `VertexCrossing` are never opened by these proofs).

  The GLOBAL forms `EqLaws exactGeo` (all values of type `V3`) is FALSE — `eqLaws_exactGeo_global_false`
  (NaN is not `==` to itself) — which is why the laws are proved relative to the finite vectors
  (`S2Proofs.Contain.CrossOn`) instead of instantiating the structures of `Contain/Cross.lean` verbatim.

  Not discharged here: `ParityCocycle` / `CellHyp` (index invariants + Jordan-type geometry) and
  `CellLoopsTile` — they are not orientation-algebra facts.  `floatGeo` (the float cascade
  `robustSign`): its sign-swap law would follow from this file and C02's `robustSign_given_error_bounds`,
  i.e. only GIVEN the float error bounds; not stated.
-/
import S2Proofs.Properties.C04
import S2Proofs.Contain.CrossOn
import S2Proofs.ExactSignLaws
namespace S2Proofs.C04
open S2 S2.Contain S2Proofs.Contain S2Proofs.F64Order S2Proofs.ExactLaws

/-! ## 1. the laws of the exact geometry -/

/-- **`EqLaws` for `exactGeo`**, on the finite vectors: Go `==` is an equivalence relation. -/
theorem eqLaws_exactGeo : EqLawsOn exactGeo Fin3 where
  refl _ ha := feq_refl ha
  symm _ _ ha hb h := feq_symm ha hb h
  trans _ _ _ ha hb hc h1 h2 := feq_trans ha hb hc h1 h2

example : Fin3 eX ∧ Fin3 eXm ∧ exactGeo.eq eX eXm = true ∧ exactGeo.eq eXm eX = true := by decide +kernel

/-- the global form is false: a vector with a NaN coordinate is not `==` to itself -/
theorem eqLaws_exactGeo_global_false : ¬ EqLaws exactGeo := by
  intro h
  have := h.refl ⟨⟨0x7FF8000000000000⟩, f0, f0⟩
  revert this
  decide +kernel

/-- **the sign-swap law for `exactGeo`**, on the finite vectors (all of them, degenerate triples and ±0
    twins included): `RobustSign(b,a,c) = -RobustSign(a,b,c)` for the exact + symbolic sign. -/
theorem signSwap_exactGeo : SwapOn exactGeo Fin3 :=
  fun _ _ _ ha hb hc => E_swap12 ha hb hc

/-- the exactly coplanar triple (decided by the symbolic perturbation) and a triple with a ±0 twin -/
example : exactGeo.rs eY eX eXY = 1 ∧ exactGeo.rs eX eY eXY = -1 ∧ exactGeo.rs eXm eX eY = 0 := by
  decide +kernel

/-- **`CrossLaws` for `exactGeo`**: `EdgeOrVertexCrossing(a,b,c,d) = EdgeOrVertexCrossing(a,b,d,c)` for all
    finite points. -/
theorem crossLaws_exactGeo {a b c d : V3} (ha : Fin3 a) (hb : Fin3 b) (hc : Fin3 c) (hd : Fin3 d) :
    edgeOrVertexCrossing exactGeo a b c d = edgeOrVertexCrossing exactGeo a b d c :=
  eovc_rev_on eqLaws_exactGeo signSwap_exactGeo ha hb hc hd

/-- a proper crossing, and a vertex crossing (shared endpoint `eX`) -/
example : edgeOrVertexCrossing exactGeo eXYu ⟨f1, f1, F64.neg f1⟩ eX eY = true ∧
    edgeOrVertexCrossing exactGeo eXYu ⟨f1, f1, F64.neg f1⟩ eY eX = true ∧
    edgeOrVertexCrossing exactGeo eX eD eX eY = edgeOrVertexCrossing exactGeo eX eD eY eX := by
  refine ⟨by decide +kernel, by decide +kernel, ?_⟩
  exact crossLaws_exactGeo (by decide +kernel) (by decide +kernel) (by decide +kernel) (by decide +kernel)

/-! ## 2. concrete loops for the non-vacuity examples -/

/-- the octant triangle with vertices on the three axes -/
def triXYZ : LoopM V3 := mkLoop exactGeo originPoint #[eX, eY, eZ]
/-- a triangle with an exactly collinear vertex pair on the equator (`eXY` lies on the great circle
    through `eX`, `eY`) -/
def triDeg : LoopM V3 := mkLoop exactGeo originPoint #[eX, eXY, eZ]

private theorem fin_originPoint : Fin3 originPoint := by decide +kernel
private theorem loopIn_triXYZ : LoopIn Fin3 triXYZ := by unfold LoopIn; decide +kernel
private theorem loopIn_triDeg : LoopIn Fin3 triDeg := by unfold LoopIn; decide +kernel

/-- interior point, exterior point, a vertex (semi-open rule) -/
example : bruteContains exactGeo originPoint triXYZ eD = true ∧
    bruteContains exactGeo originPoint triXYZ ⟨f1, f1, F64.neg f1⟩ = false := by decide +kernel

/-! ## 3. parity and inversion, unconditional for the exact geometry -/

/-- Reversing the vertex order does not change the exact crossing parity of any segment with the loop. -/
theorem crossParity_reverse_exact {a b : V3} (ha : Fin3 a) (hb : Fin3 b) {vs : List V3}
    (hvs : ∀ v ∈ vs, Fin3 v) :
    crossParity exactGeo a b (loopEdges vs.reverse) = crossParity exactGeo a b (loopEdges vs) :=
  crossParity_loop_reverse_on eqLaws_exactGeo signSwap_exactGeo ha hb hvs

example : crossParity exactGeo originPoint eD (loopEdges [eX, eXY, eZ].reverse) =
    crossParity exactGeo originPoint eD (loopEdges [eX, eXY, eZ]) :=
  crossParity_reverse_exact fin_originPoint (by decide +kernel) (by decide +kernel)

/-- **Inversion law, exact geometry**: `Loop.Invert` complements exact containment at EVERY finite point
    (vertices, points on edges, ±0 twins of vertices included), for every loop with finite vertices. -/
theorem bruteContains_invert_exact {o p : V3} (ho : Fin3 o) (hp : Fin3 p) {L : LoopM V3}
    (hL : LoopIn Fin3 L) :
    bruteContains exactGeo o (invert L) p = !bruteContains exactGeo o L p :=
  bruteContains_invert_on eqLaws_exactGeo signSwap_exactGeo ho hp hL

/-- at a vertex, at a ±0 twin of a vertex, and at a point exactly on an edge of the degenerate triangle -/
example : bruteContains exactGeo originPoint (invert triXYZ) eX = !bruteContains exactGeo originPoint triXYZ eX ∧
    bruteContains exactGeo originPoint (invert triXYZ) eXm = !bruteContains exactGeo originPoint triXYZ eXm ∧
    bruteContains exactGeo originPoint (invert triDeg) eXY = !bruteContains exactGeo originPoint triDeg eXY :=
  ⟨bruteContains_invert_exact fin_originPoint (by decide +kernel) loopIn_triXYZ,
   bruteContains_invert_exact fin_originPoint (by decide +kernel) loopIn_triXYZ,
   bruteContains_invert_exact fin_originPoint (by decide +kernel) loopIn_triDeg⟩

/-- A loop and its inverse contain every finite point exactly once, in the exact geometry.
    (`_partial` as in `Properties/C04.lean`: a statement about the model function `bruteContains`; that every
    evaluation path of the library returns it is the correspondence check.) -/
theorem loop_and_inverse_partition_exact_partial {o p : V3} (ho : Fin3 o) (hp : Fin3 p) {L : LoopM V3}
    (hL : LoopIn Fin3 L) :
    (bruteContains exactGeo o L p = true ∧ bruteContains exactGeo o (invert L) p = false) ∨
    (bruteContains exactGeo o L p = false ∧ bruteContains exactGeo o (invert L) p = true) := by
  rw [bruteContains_invert_exact ho hp hL]
  cases bruteContains exactGeo o L p <;> simp

example :
    (bruteContains exactGeo originPoint triDeg eXYu = true ∧
      bruteContains exactGeo originPoint (invert triDeg) eXYu = false) ∨
    (bruteContains exactGeo originPoint triDeg eXYu = false ∧
      bruteContains exactGeo originPoint (invert triDeg) eXYu = true) :=
  loop_and_inverse_partition_exact_partial fin_originPoint (by decide +kernel) loopIn_triDeg

/-- The two-loop tiling (loop + inverse) for the exact geometry: exactly one of the two loops contains
    any given finite point. -/
theorem tiling_two_loops_exact_partial {o p : V3} (ho : Fin3 o) (hp : Fin3 p) {L : LoopM V3}
    (hL : LoopIn Fin3 L) :
    ([L, invert L].filter fun M => bruteContains exactGeo o M p).length = 1 := by
  rcases loop_and_inverse_partition_exact_partial ho hp hL with ⟨h1, h2⟩ | ⟨h1, h2⟩ <;>
    simp [h1, h2]

example : ([triXYZ, invert triXYZ].filter fun M => bruteContains exactGeo originPoint M eY).length = 1 :=
  tiling_two_loops_exact_partial fin_originPoint (by decide +kernel) loopIn_triXYZ

/-- The one-vertex loops (empty / full) contain a finite point iff `originInside` (exact geometry). -/
theorem bruteContains_oneVertex_exact (o p : V3) {v : V3} (hv : Fin3 v) (oi : Bool) :
    bruteContains exactGeo o ⟨#[v], oi⟩ p = oi := by
  unfold bruteContains crossParity
  simp [loopEdges, eovc_degenerate_edge exactGeo o p v v (eqLaws_exactGeo.refl v hv)]

example : bruteContains exactGeo originPoint ⟨#[eZ], true⟩ eD = true :=
  bruteContains_oneVertex_exact _ _ (by decide +kernel) _

/-! ## 4. polygons, unconditional for the exact geometry -/

/-- **Polygon containment is the XOR the code computes, and it is the Shape-level brute force** —
    exact geometry, all loops with finite vertices, any finite point. -/
theorem polygonContains_eq_containsBruteForce_exact {o p : V3} (ho : Fin3 o) (hp : Fin3 p)
    {pg : PolygonM V3} (hpg : PolygonIn Fin3 pg) :
    polygonContains exactGeo o pg p = containsBruteForce exactGeo (polygonShape o pg) p :=
  polygonContains_eq_containsBruteForce_on eqLaws_exactGeo signSwap_exactGeo ho hp hpg

/-- a shell and a hole sharing the collinear vertex pair -/
def pgEx : PolygonM V3 := [⟨triXYZ, false⟩, ⟨triDeg, true⟩]

private theorem polygonIn_pgEx : PolygonIn Fin3 pgEx := by
  intro l hl
  simp only [pgEx, List.mem_cons, List.not_mem_nil, or_false] at hl
  rcases hl with h | h <;> rw [h]
  · exact loopIn_triXYZ
  · exact loopIn_triDeg

example : polygonContains exactGeo originPoint pgEx eD =
    containsBruteForce exactGeo (polygonShape originPoint pgEx) eD :=
  polygonContains_eq_containsBruteForce_exact fin_originPoint (by decide +kernel) polygonIn_pgEx

/-- **Polygon vs complement**, exact geometry: inverting any one loop complements containment at every
    finite point. -/
theorem polygonContains_invertAt_exact {o p : V3} (ho : Fin3 o) (hp : Fin3 p) {pg : PolygonM V3}
    (hpg : PolygonIn Fin3 pg) (k : Nat) (hk : k < pg.length) :
    polygonContains exactGeo o (polygonInvertAt pg k) p = !polygonContains exactGeo o pg p :=
  polygonContains_invertAt_on eqLaws_exactGeo signSwap_exactGeo ho hp hpg k hk

example : polygonContains exactGeo originPoint (polygonInvertAt pgEx 1) eXY =
    !polygonContains exactGeo originPoint pgEx eXY :=
  polygonContains_invertAt_exact fin_originPoint (by decide +kernel) polygonIn_pgEx 1 (by decide)

/-- A polygon and its complement contain every finite point exactly once (exact geometry, model level). -/
theorem polygon_and_complement_partition_exact_partial {o p : V3} (ho : Fin3 o) (hp : Fin3 p)
    {pg : PolygonM V3} (hpg : PolygonIn Fin3 pg) (k : Nat) (hk : k < pg.length) :
    (polygonContains exactGeo o pg p = true ∧ polygonContains exactGeo o (polygonInvertAt pg k) p = false) ∨
    (polygonContains exactGeo o pg p = false ∧ polygonContains exactGeo o (polygonInvertAt pg k) p = true) := by
  rw [polygonContains_invertAt_exact ho hp hpg k hk]
  cases polygonContains exactGeo o pg p <;> simp

example :
    (polygonContains exactGeo originPoint pgEx eX = true ∧
      polygonContains exactGeo originPoint (polygonInvertAt pgEx 0) eX = false) ∨
    (polygonContains exactGeo originPoint pgEx eX = false ∧
      polygonContains exactGeo originPoint (polygonInvertAt pgEx 0) eX = true) :=
  polygon_and_complement_partition_exact_partial fin_originPoint (by decide +kernel) polygonIn_pgEx 0 (by decide)

/-! ## 5. the open / closed vertex models of `ContainsPointQuery`, exact geometry -/

/-- Open model = semi-open answer, except that an endpoint (Go `==`) of a listed edge is never contained. -/
theorem shapeContainsM_open_exact (center : V3) (cc : Bool) {es : List (V3 × V3)} {p : V3}
    (hp : Fin3 p) (hes : EdgesIn Fin3 es) (hne : es ≠ []) :
    shapeContainsM exactGeo .open_ 2 center cc es p =
      (shapeContainsM exactGeo .semiOpen 2 center cc es p && !isEndpoint exactGeo es p) := by
  unfold shapeContainsM
  cases es with
  | nil => exact absurd rfl hne
  | cons e es => simp [shapeContainsGo_open_on eqLaws_exactGeo center hp _ hes, shapeContainsGo_semiOpen]

/-- Closed model = semi-open answer, except that an endpoint of a listed edge is always contained. -/
theorem shapeContainsM_closed_exact (center : V3) (cc : Bool) {es : List (V3 × V3)} {p : V3}
    (hp : Fin3 p) (hes : EdgesIn Fin3 es) (hne : es ≠ []) :
    shapeContainsM exactGeo .closed 2 center cc es p =
      (shapeContainsM exactGeo .semiOpen 2 center cc es p || isEndpoint exactGeo es p) := by
  unfold shapeContainsM
  cases es with
  | nil => exact absurd rfl hne
  | cons e es => simp [shapeContainsGo_closed_on eqLaws_exactGeo center hp _ hes, shapeContainsGo_semiOpen]

/-- the query point is the ±0 twin of a vertex: it IS an endpoint for Go `==` -/
example : isEndpoint exactGeo (loopEdges [eX, eY, eZ]) eXm = true ∧
    shapeContainsM exactGeo .closed 2 eD true (loopEdges [eX, eY, eZ]) eXm = true ∧
    shapeContainsM exactGeo .open_ 2 eD true (loopEdges [eX, eY, eZ]) eXm = false := by
  have hes : EdgesIn Fin3 (loopEdges [eX, eY, eZ]) := edgesIn_loopEdges (by decide +kernel)
  have he : isEndpoint exactGeo (loopEdges [eX, eY, eZ]) eXm = true := by decide +kernel
  refine ⟨he, ?_, ?_⟩
  · rw [shapeContainsM_closed_exact eD true (by decide +kernel) hes (by simp [loopEdges]), he]; simp
  · rw [shapeContainsM_open_exact eD true (by decide +kernel) hes (by simp [loopEdges]), he]; simp

end S2Proofs.C04
