/-
  Property C04 / C06, the crossing-parity cocycle PROVED for the exact geometry.

  `Properties/C04.lean` assumes, for the path equality "index path = brute force", the geometric hypothesis
      ParityCocycle G ref center p es :
        (crossParity G ref center es != crossParity G center p es) = crossParity G ref p es
  for the closed edge chains of loops.  Here it is a THEOREM for `exactGeo` (Go `==`, the exact + symbolic
  orientation `Pred.exactDecision`, `s2Ortho`), for ALL finite float inputs — collinear, coplanar, proportional
  configurations included.  Chains are arbitrary: repeated vertices, degenerate edges `v == v`,
  self-intersections, any length, several chains (polygons).  No simplicity hypothesis is needed.

    §2  `parityCocycle_exact(_chains/_array)`   input class `CocycleDom`: ref, center, p pairwise not `==`, no
        chain vertex `==` to one of them (then every `crossingSign` involved is `.cross` or `.doNot`);
        no hypothesis on reference directions.
    §5  `parityCocycle_exact_shared(_chains)`   input class `CocycleDomShared`: chain vertices MAY be `==` to ref,
        center, p (`.maybe` → `vertexCrossing`, `orderedCCW` around the shared vertex with `s2Ortho`); needs
        `s2Ortho x` finite and not `==` x for x = ref, center, p — and that cannot be dropped:
        `parityCocycle_fails_for_zero_ref`.
    §6  `parityCocycle_exact_any`               input class `CocycleDomAny`: additionally two of ref, center, p may
        be `==` (query point = cell centre, query point = reference point, …): the same float vector, or ±0 twins
        of each other whose reference directions `s2Ortho` are `==` (decidable hypothesis; always true in IEEE
        arithmetic, not proved for the soft-float).

  Proof (S2Proofs.Contain.Cocycle, CocycleShared): the orientation decisions are a chirotope for all inputs
  (`C02.exactDecision_grassmann_plucker`, from the global simulation of simplicity).  Every point gets a potential
  (`inTri`: on the inner side of the three sides of the triangle (ref, center, p); at a corner: its reference
  direction is in the half-open inner wedge), and for EVERY edge u w the number of sides of the triangle it
  crosses (as `edgeOrVertexCrossing` counts) has the parity of pot u + pot w: `five_enum` (no endpoint at a
  corner: five points, all 2^10 sign patterns with the Grassmann–Plücker relations, kernel-checked),
  `corner_enum` (one endpoint at a corner: the four directions around it, 208 patterns), `occw_corner` (both
  endpoints at corners).  Summed over a closed chain every vertex is counted twice.

  Consequences: the `cocycle` field of `CellHyp` is discharged (`cellHyp_exact`); `iteratorContains_eq_parity`,
  `loop_indexPath_eq_bruteForce`, `shapeContains_eq_containsBruteForce`, and for polygons
  `polygon_queryPath_eq_polygonContains_exact(_any)` hold for the exact geometry with only the index invariants
  `CellInv` (ids duplicate-free and in range, I2, I3) as hypotheses; the brute-force answer does not depend on
  the reference point (`containsBruteForce_refPoint_exact`).  C06: `Properties/C06_Cocycle.lean`.
-/
import S2Proofs.Properties.C04_Exact
import S2Proofs.Properties.C02_Chirotope
import S2Proofs.Contain.Cocycle
import S2Proofs.Contain.CocycleShared
namespace S2Proofs.C04
open S2 S2.Contain S2.Pred S2.Exact S2Proofs.Contain S2Proofs.F64Order S2Proofs.ExactLaws

/-! ## 1. the exact geometry is a chirotope on the finite vectors -/

private theorem gpB_iff (t1 t2 t3 : Int) : gpB t1 t2 t3 = true ↔
    ((t1 = 0 ∧ t2 = 0 ∧ t3 = 0) ∨ ((t1 = 1 ∨ t2 = 1 ∨ t3 = 1) ∧ (t1 = -1 ∨ t2 = -1 ∨ t3 = -1))) := by
  simp [gpB, and_assoc, or_assoc]

/-- **`ChiroOn` for `exactGeo`**: on the finite float vectors (±0 twins, zero vectors, proportional and coplanar
    vectors included) Go `==` is an equivalence and the exact + symbolic orientation sign is alternating, ±1 on
    pairwise non-`==` points, compatible with `==`, and satisfies the three-term Grassmann–Plücker relations. -/
theorem chiroOn_exactGeo : ChiroOn exactGeo Fin3 where
  eqv := eqLaws_exactGeo
  rot _ _ _ ha hb hc := E_rot ha hb hc
  swap _ _ _ ha hb hc := E_swap12 ha hb hc
  range _ _ _ ha hb hc := E_range ha hb hc
  unit _ _ _ ha hb hc hab hbc hac :=
    E_unit ha hb hc hab hbc (by rw [feq_comm hc ha]; exact hac)
  congr _ _ _ _ ha hb hc hc' h := E_congr ha hb hc ha hb hc' (feq_refl ha) (feq_refl hb) h
  gp x a b c d hx ha hb hc hd := by
    unfold GPrel
    show gpB (exactDecision x a b * exactDecision x c d) (-(exactDecision x a c * exactDecision x b d))
      (exactDecision x a d * exactDecision x b c) = true
    rw [gpB_iff, E_eq hx ha hb, E_eq hx hc hd, E_eq hx ha hc, E_eq hx hb hd, E_eq hx ha hd, E_eq hx hb hc]
    exact C02.exactDecision_grassmann_plucker _ _ _ _ _

/-! ## 2. the cocycle -/

/-- the input class of the cocycle theorem (decidable): everything finite, `ref`, `center`, `p` pairwise not
    `==`, no chain vertex `==` to one of them -/
def CocycleDom (ref center p : V3) (chains : List (List V3)) : Prop :=
  Fin3 ref ∧ Fin3 center ∧ Fin3 p ∧
  V3.feq ref center = false ∧ V3.feq center p = false ∧ V3.feq ref p = false ∧
  ∀ vs ∈ chains, ∀ v ∈ vs, Fin3 v ∧ V3.feq ref v = false ∧ V3.feq center v = false ∧ V3.feq p v = false

instance (ref center p : V3) (chains : List (List V3)) : Decidable (CocycleDom ref center p chains) := by
  unfold CocycleDom; infer_instance

/-- **The parity cocycle for the exact geometry, several closed chains** (a polygon's loops): the exact crossing
    parity of ref → center plus that of center → p equals that of ref → p. -/
theorem parityCocycle_exact_chains {ref center p : V3} {chains : List (List V3)}
    (h : CocycleDom ref center p chains) :
    ParityCocycle exactGeo ref center p (chains.flatMap loopEdges) := by
  obtain ⟨hr, hc, hp, hrc, hcp, hrp, hv⟩ := h
  exact parityCocycle_chains chiroOn_exactGeo hr hc hp hrc hcp hrp
    (fun vs hvs v hm => ⟨(hv vs hvs v hm).1, (hv vs hvs v hm).2.1⟩)
    (fun vs hvs v hm => ⟨(hv vs hvs v hm).1, (hv vs hvs v hm).2.2.1⟩)
    (fun vs hvs v hm => ⟨(hv vs hvs v hm).1, (hv vs hvs v hm).2.2.2⟩)

/-- **The parity cocycle for the exact geometry, one loop** (`hfin`, `hdist`, `hoff` = `CocycleDom … [vs]`;
    no simplicity hypothesis). -/
theorem parityCocycle_exact {ref center p : V3} {vs : List V3} (h : CocycleDom ref center p [vs]) :
    ParityCocycle exactGeo ref center p (loopEdges vs) := by
  have := parityCocycle_exact_chains h
  simpa using this

/-- the form with the hypotheses spelt out, for the vertex array of a loop -/
theorem parityCocycle_exact_array (vs : Array V3) (ref center p : V3)
    (hfin : Fin3 ref ∧ Fin3 center ∧ Fin3 p ∧ ∀ v ∈ vs.toList, Fin3 v)
    (hdist : V3.feq ref center = false ∧ V3.feq center p = false ∧ V3.feq ref p = false)
    (hoff : ∀ v ∈ vs.toList, V3.feq ref v = false ∧ V3.feq center v = false ∧ V3.feq p v = false) :
    ParityCocycle exactGeo ref center p (loopEdges vs.toList) :=
  parityCocycle_exact ⟨hfin.1, hfin.2.1, hfin.2.2.1, hdist.1, hdist.2.1, hdist.2.2, fun l hl v hv => by
    simp only [List.mem_singleton] at hl; subst hl
    exact ⟨hfin.2.2.2 v hv, hoff v hv⟩⟩

/-! ## 3. index path = brute force, without the geometric hypothesis -/

/-- the invariants of ONE index cell that remain (`CellHyp` without its `cocycle` field) -/
structure CellInv (G : Geo V3) (ref : V3) (refContained : Bool) (es : List (V3 × V3))
    (center : V3) (containsCenter : Bool) (ids : List Nat) (p : V3) : Prop where
  /-- the listed edge ids are duplicate-free … -/
  nodup : ids.Nodup
  /-- … and are edge ids of the shape -/
  inRange : ∀ i ∈ ids, i < es.length
  /-- I2: an edge that is not listed does not count as a crossing of centre → p -/
  i2 : ∀ i (h : i < es.length), i ∉ ids → edgeOrVertexCrossing G center p es[i].1 es[i].2 = false
  /-- I3: `containsCenter` is the brute-force answer at the cell centre -/
  i3 : containsCenter = (refContained != crossParity G ref center es)

/-- **`CellHyp` for the exact geometry from the index invariants alone.** -/
theorem cellHyp_exact {ref center p : V3} {chains : List (List V3)} {rc cc : Bool} {ids : List Nat}
    (hd : CocycleDom ref center p chains)
    (hi : CellInv exactGeo ref rc (chains.flatMap loopEdges) center cc ids p) :
    CellHyp exactGeo ref rc (chains.flatMap loopEdges) center cc ids p :=
  ⟨hi.nodup, hi.inRange, hi.i2, hi.i3, parityCocycle_exact_chains hd⟩

/-- **Index path = brute force, exact geometry.**  `iteratorContainsPoint` (containsCenter XOR crossings of
    centre → p with the LISTED edges) returns the reference-point parity over ALL edges — the cocycle is no
    longer a hypothesis. -/
theorem iteratorContains_eq_parity_exact {ref center p : V3} {chains : List (List V3)} {rc cc : Bool}
    {ids : List Nat} (hd : CocycleDom ref center p chains)
    (hi : CellInv exactGeo ref rc (chains.flatMap loopEdges) center cc ids p) :
    iteratorContains exactGeo center cc (listed (chains.flatMap loopEdges) ids) p =
      (rc != crossParity exactGeo ref p (chains.flatMap loopEdges)) :=
  iteratorContains_eq_parity (cellHyp_exact hd hi)

/-- Loop form: the index path of `Loop.ContainsPoint` equals `bruteForceContainsPoint`, exact geometry. -/
theorem loop_indexPath_eq_bruteForce_exact {o center p : V3} {L : LoopM V3} {cc : Bool} {ids : List Nat}
    (hd : CocycleDom o center p [L.vertices.toList])
    (hi : CellInv exactGeo o L.originInside (loopEdges L.vertices.toList) center cc ids p) :
    iteratorContains exactGeo center cc (listed (loopEdges L.vertices.toList) ids) p =
      bruteContains exactGeo o L p :=
  loop_indexPath_eq_bruteForce o L
    ⟨hi.nodup, hi.inRange, hi.i2, hi.i3, parityCocycle_exact hd⟩

/-- **Query-object path = brute force, exact geometry** (semi-open model): for a 2-dimensional shape whose edge
    list is a concatenation of closed chains, `ContainsPointQuery.shapeContains` on the located cell returns
    `containsBruteForce(shape, p)`. -/
theorem shapeContains_eq_containsBruteForce_exact (S : ShapeM V3) (hdim : S.dim = 2)
    {chains : List (List V3)} (hch : S.edges.toList = chains.flatMap loopEdges)
    {center p : V3} {cc : Bool} {ids : List Nat}
    (hd : CocycleDom S.refPoint center p chains)
    (hi : CellInv exactGeo S.refPoint S.refContained S.edges.toList center cc ids p) :
    shapeContainsM exactGeo .semiOpen S.dim center cc (listed S.edges.toList ids) p =
      containsBruteForce exactGeo S p := by
  refine shapeContains_eq_containsBruteForce S hdim ⟨hi.nodup, hi.inRange, hi.i2, hi.i3, ?_⟩
  rw [hch]
  exact parityCocycle_exact_chains hd

/-- the closed vertex chains of a polygon as `polygonShape` lists them: empty / full loops dropped, holes
    reversed -/
def polygonChains (pg : PolygonM V3) : List (List V3) :=
  (pg.filter fun l => !l.loop.isEmptyOrFull).map fun l =>
    if l.isHole then l.loop.vertices.toList.reverse else l.loop.vertices.toList

theorem polygonShape_edges_eq_chains (o : V3) (pg : PolygonM V3) :
    (polygonShape o pg).edges.toList = (polygonChains pg).flatMap loopEdges := by
  unfold polygonShape polygonChains polygonEdges
  simp only [List.flatMap_map]
  congr 1
  funext l
  unfold orientedEdges
  split <;> rfl

/-- **Polygons: query-object path on the index = `Polygon.ContainsPoint` (XOR of the loops' brute-force
    answers), exact geometry.** -/
theorem polygon_queryPath_eq_polygonContains_exact {o center p : V3} {pg : PolygonM V3} {cc : Bool}
    {ids : List Nat} (hpg : PolygonIn Fin3 pg)
    (hd : CocycleDom o center p (polygonChains pg))
    (hi : CellInv exactGeo o (polygonOriginInside pg) (polygonShape o pg).edges.toList center cc ids p) :
    shapeContainsM exactGeo .semiOpen 2 center cc (listed (polygonShape o pg).edges.toList ids) p =
      polygonContains exactGeo o pg p := by
  rw [polygonContains_eq_containsBruteForce_exact hd.1 hd.2.2.1 hpg]
  exact shapeContains_eq_containsBruteForce_exact (polygonShape o pg) rfl
    (polygonShape_edges_eq_chains o pg) hd hi

/-! ## 4. non-vacuity -/

/-- a point outside the octant triangle -/
def pOut : V3 := ⟨f1, f1, F64.neg f1⟩
/-- 2.0 -/
def f2 : F64 := ⟨0x4000000000000000⟩
/-- two points of the great circle z = 0 through `eX`, `eXY`, `eY` -/
def eX2Y : V3 := ⟨f2, f1, f0⟩
def eXY2 : V3 := ⟨f1, f2, f0⟩

/-- general position: the octant triangle, `OriginPoint` (outside), the centre (1,1,1) (inside), (1,1,-1)
    (outside): the three parities are 1, 1, 0 -/
example : CocycleDom originPoint eD pOut [[eX, eY, eZ]] ∧
    crossParity exactGeo originPoint eD (loopEdges [eX, eY, eZ]) = true ∧
    crossParity exactGeo eD pOut (loopEdges [eX, eY, eZ]) = true ∧
    crossParity exactGeo originPoint pOut (loopEdges [eX, eY, eZ]) = false := by decide +kernel

example : ParityCocycle exactGeo originPoint eD pOut (loopEdges [eX, eY, eZ]) :=
  parityCocycle_exact (by decide +kernel)

/-- degenerate: the triangle (1,0,0) (1,1,0) (0,0,1) has an edge ON the great circle z = 0; `ref` = (0,1,0),
    `center` = (2,1,0), `p` = (1,2,0) are on the same great circle: ref, center, p are collinear (exact
    determinant 0), both of them are exactly coplanar with the edge eX → eXY, and `center` lies ON that edge.
    Every decision involved is made by the symbolic perturbation. -/
example : CocycleDom eY eX2Y eXY2 [[eX, eXY, eZ]] ∧
    detSign eY eX2Y eXY2 = 0 ∧ detSign eX eXY eX2Y = 0 ∧ detSign eX eXY eXY2 = 0 ∧ detSign eX eXY eY = 0 := by
  decide +kernel

example : ParityCocycle exactGeo eY eX2Y eXY2 (loopEdges [eX, eXY, eZ]) :=
  parityCocycle_exact (by decide +kernel)

example : ParityCocycle exactGeo originPoint eD pOut (loopEdges #[eX, eY, eZ].toList) :=
  parityCocycle_exact_array #[eX, eY, eZ] originPoint eD pOut (by decide +kernel) (by decide +kernel)
    (by decide +kernel)

/-- a chain that is not a simple loop (a vertex visited twice, a degenerate edge, a ±0 twin) is allowed -/
example : ParityCocycle exactGeo originPoint eD pOut (loopEdges [eX, eY, eY, eZ, eXm, eXY]) :=
  parityCocycle_exact (by decide +kernel)

/-- two chains (a shell and a hole traversed backwards) -/
example : ParityCocycle exactGeo originPoint eD pOut ([[eX, eY, eZ], [eZ, eXY, eX]].flatMap loopEdges) :=
  parityCocycle_exact_chains (by decide +kernel)

/-- `CellInv` instance: one cell centred at (1,1,1) that lists the three edges of the octant triangle;
    `OriginPoint` is outside (`rc = false`), the centre is inside (`cc = true`) -/
example : CellInv exactGeo originPoint false (loopEdges [eX, eY, eZ]) eD true [0, 1, 2] pOut where
  nodup := by decide
  inRange := by decide
  i2 := by
    intro i h hi
    simp only [loopEdges] at h
    have : i = 0 ∨ i = 1 ∨ i = 2 := by simp at h; omega
    rcases this with rfl | rfl | rfl <;> simp at hi
  i3 := by decide +kernel

/-- `polygon_queryPath_eq_polygonContains_exact` on the shell + hole polygon of C04_Exact (six edges, all listed in
    one cell centred at (1,1,1), `containsCenter` as I3 prescribes) -/
example : shapeContainsM exactGeo .semiOpen 2 eD
      (polygonOriginInside pgEx != crossParity exactGeo originPoint eD (polygonShape originPoint pgEx).edges.toList)
      (listed (polygonShape originPoint pgEx).edges.toList [0, 1, 2, 3, 4, 5]) pOut =
    polygonContains exactGeo originPoint pgEx pOut := by
  have hpg : PolygonIn Fin3 pgEx := by
    intro l hl
    simp only [pgEx, List.mem_cons, List.not_mem_nil, or_false] at hl
    rcases hl with h | h <;> rw [h] <;> unfold LoopIn <;> decide +kernel
  have hlen : (polygonShape originPoint pgEx).edges.toList.length = 6 := by decide +kernel
  refine polygon_queryPath_eq_polygonContains_exact hpg (by decide +kernel)
    ⟨by decide, fun i hi => by rw [hlen]; revert i; decide, fun i h hi => ?_, rfl⟩
  rw [hlen] at h
  have : i = 0 ∨ i = 1 ∨ i = 2 ∨ i = 3 ∨ i = 4 ∨ i = 5 := by omega
  rcases this with rfl | rfl | rfl | rfl | rfl | rfl <;> simp at hi

/-! ## 5. shared vertices: ref / center / p may be `==` to chain vertices -/

/-- the input class of the shared-vertex cocycle (decidable): everything finite, `ref`, `center`, `p` pairwise
    not `==`, and the reference directions `s2Ortho` of these three points finite and not `==` to their point
    (true for every vector of roughly unit length; it fails for the zero vector, `s2Ortho 0 = 0`, and for vectors
    so large that the cross product overflows).  NOTHING is asked of the chains except finite coordinates:
    their vertices may be `==` to `ref`, `center` or `p` (also as ±0 twins), may repeat, edges may be degenerate;
    the reference directions may be `==` to other points. -/
def CocycleDomShared (ref center p : V3) (chains : List (List V3)) : Prop :=
  Fin3 ref ∧ Fin3 center ∧ Fin3 p ∧
  V3.feq ref center = false ∧ V3.feq center p = false ∧ V3.feq ref p = false ∧
  (Fin3 (s2Ortho ref) ∧ V3.feq ref (s2Ortho ref) = false) ∧
  (Fin3 (s2Ortho center) ∧ V3.feq center (s2Ortho center) = false) ∧
  (Fin3 (s2Ortho p) ∧ V3.feq p (s2Ortho p) = false) ∧
  ∀ vs ∈ chains, ∀ v ∈ vs, Fin3 v

instance (ref center p : V3) (chains : List (List V3)) : Decidable (CocycleDomShared ref center p chains) := by
  unfold CocycleDomShared; infer_instance

theorem corners_exactGeo {ref center p : V3} {chains : List (List V3)}
    (h : CocycleDomShared ref center p chains) : Corners exactGeo Fin3 ref center p :=
  ⟨h.1, h.2.1, h.2.2.1, h.2.2.2.1, h.2.2.2.2.1, h.2.2.2.2.2.1,
   h.2.2.2.2.2.2.1.1, h.2.2.2.2.2.2.2.1.1, h.2.2.2.2.2.2.2.2.1.1,
   h.2.2.2.2.2.2.1.2, h.2.2.2.2.2.2.2.1.2, h.2.2.2.2.2.2.2.2.1.2⟩

/-- **The parity cocycle for the exact geometry with shared vertices** (the general statement: a loop vertex
    exactly at the cell centre, a query point that is a loop vertex, a reference point that is a loop vertex). -/
theorem parityCocycle_exact_shared_chains {ref center p : V3} {chains : List (List V3)}
    (h : CocycleDomShared ref center p chains) :
    ParityCocycle exactGeo ref center p (chains.flatMap loopEdges) :=
  parityCocycle_shared_chains chiroOn_exactGeo (corners_exactGeo h) h.2.2.2.2.2.2.2.2.2

/-- one loop -/
theorem parityCocycle_exact_shared {ref center p : V3} {vs : List V3}
    (h : CocycleDomShared ref center p [vs]) : ParityCocycle exactGeo ref center p (loopEdges vs) := by
  have := parityCocycle_exact_shared_chains h
  simpa using this

/-! ### non-vacuity, shared vertices -/

/-- the query point IS a loop vertex (`p = eX`); `OriginPoint`, (1,1,1) as before -/
example : CocycleDomShared originPoint eD eX [[eX, eY, eZ]] := by decide +kernel

example : ParityCocycle exactGeo originPoint eD eX (loopEdges [eX, eY, eZ]) :=
  parityCocycle_exact_shared (by decide +kernel)

/-- a loop vertex exactly at the cell centre (`center = eY`), the query point the ±0 twin of another vertex
    (`p = eXm`, `==` to `eX` with a different bit pattern), and the degenerate triangle with its collinear
    vertex pair; `ref` = (1,2,0) on the great circle of that edge -/
example : CocycleDomShared eXY2 eY eXm [[eX, eXY, eY, eZ]] := by decide +kernel

example : ParityCocycle exactGeo eXY2 eY eXm (loopEdges [eX, eXY, eY, eZ]) :=
  parityCocycle_exact_shared (by decide +kernel)

/-- all three of ref / center / p are loop vertices; a second chain shares them -/
example : ParityCocycle exactGeo eX eY eZ ([[eX, eY, eZ], [eZ, eD, eY, eX]].flatMap loopEdges) :=
  parityCocycle_exact_shared_chains (by decide +kernel)

/-- the values in the first example are not trivial: the vertex rule puts the vertex `eX` outside, so the
    segment (1,1,1) → `eX` counts ONE vertex crossing at `eX` -/
example : crossParity exactGeo originPoint eD (loopEdges [eX, eY, eZ]) = true ∧
    crossParity exactGeo eD eX (loopEdges [eX, eY, eZ]) = true ∧
    crossParity exactGeo originPoint eX (loopEdges [eX, eY, eZ]) = false := by decide +kernel

/-! ## 6. coincidences among ref / center / p -/

/-- query point = cell centre (the same float vector): any edge list -/
theorem parityCocycle_exact_center_eq_p (ref p : V3) (es : List (V3 × V3)) (hp : Fin3 p) :
    ParityCocycle exactGeo ref p p es := by
  unfold ParityCocycle
  rw [crossParity_degenerate exactGeo p p es (feq_refl hp)]
  simp

/-- reference point = cell centre: any edge list -/
theorem parityCocycle_exact_ref_eq_center (ref p : V3) (es : List (V3 × V3)) (hr : Fin3 ref) :
    ParityCocycle exactGeo ref ref p es := by
  unfold ParityCocycle
  rw [crossParity_degenerate exactGeo ref ref es (feq_refl hr)]
  simp

/-- query point = reference point: any edge list with finite endpoints (the crossing parity does not depend on
    the direction of the query edge) -/
theorem parityCocycle_exact_ref_eq_p {ref center : V3} {es : List (V3 × V3)} (hr : Fin3 ref)
    (hc : Fin3 center) (hes : EdgesIn Fin3 es) : ParityCocycle exactGeo ref center ref es := by
  unfold ParityCocycle
  rw [crossParity_degenerate exactGeo ref ref es (feq_refl hr),
    crossParity_swap_ab_on eqLaws_exactGeo signSwap_exactGeo hr hc hes]
  simp

/-- the most general input class: any two of `ref`, `center`, `p` are either not `==`, or `==` (the same vector, or
    ±0 twins of each other) with `==` reference directions `s2Ortho` (for the same vector this is implied by
    finiteness; for ±0 twins it holds in IEEE arithmetic — every operation of `Ortho` maps `==` inputs to `==`
    outputs — but that is not proved for the soft-float, so it is a decidable hypothesis); reference directions as
    in `CocycleDomShared`; chains finite. -/
def CocycleDomAny (ref center p : V3) (chains : List (List V3)) : Prop :=
  Fin3 ref ∧ Fin3 center ∧ Fin3 p ∧
  (V3.feq ref center = false ∨ V3.feq (s2Ortho ref) (s2Ortho center) = true) ∧
  (V3.feq center p = false ∨ V3.feq (s2Ortho center) (s2Ortho p) = true) ∧
  (V3.feq ref p = false ∨ V3.feq (s2Ortho ref) (s2Ortho p) = true) ∧
  (Fin3 (s2Ortho ref) ∧ V3.feq ref (s2Ortho ref) = false) ∧
  (Fin3 (s2Ortho center) ∧ V3.feq center (s2Ortho center) = false) ∧
  (Fin3 (s2Ortho p) ∧ V3.feq p (s2Ortho p) = false) ∧
  ∀ vs ∈ chains, ∀ v ∈ vs, Fin3 v

instance (ref center p : V3) (chains : List (List V3)) : Decidable (CocycleDomAny ref center p chains) := by
  unfold CocycleDomAny; infer_instance

private theorem cocycleDomAny_of_shared {ref center p : V3} {chains : List (List V3)}
    (h : CocycleDomShared ref center p chains) : CocycleDomAny ref center p chains :=
  ⟨h.1, h.2.1, h.2.2.1, Or.inl h.2.2.2.1, Or.inl h.2.2.2.2.1, Or.inl h.2.2.2.2.2.1, h.2.2.2.2.2.2⟩

/-- **The parity cocycle for the exact geometry, general form**: shared vertices and coincidences of
    ref / center / p (same vector or ±0 twins) allowed. -/
theorem parityCocycle_exact_any {ref center p : V3} {chains : List (List V3)}
    (h : CocycleDomAny ref center p chains) :
    ParityCocycle exactGeo ref center p (chains.flatMap loopEdges) := by
  obtain ⟨hr, hc, hp, e1, e2, e3, o1, o2, o3, hv⟩ := h
  have hes : EdgesIn Fin3 (chains.flatMap loopEdges) := by
    intro e he
    obtain ⟨vs, hvs, h1, h2⟩ := mem_flatMap_loopEdges he
    exact ⟨hv vs hvs _ h1, hv vs hvs _ h2⟩
  have H := chiroOn_exactGeo
  cases q1 : V3.feq ref center with
  | true =>
    -- ref == center
    have er : V3.feq (s2Ortho ref) (s2Ortho center) = true := by
      rcases e1 with e | e
      · rw [q1] at e; cases e
      · exact e
    unfold ParityCocycle
    rw [crossParity_degenerate exactGeo ref center _ q1,
      crossParity_congr_a_on H hr hc hp o1.1 o2.1 o3.1 q1 er hes]
    simp
  | false =>
  cases q2 : V3.feq center p with
  | true =>
    have er : V3.feq (s2Ortho center) (s2Ortho p) = true := by
      rcases e2 with e | e
      · rw [q2] at e; cases e
      · exact e
    unfold ParityCocycle
    rw [crossParity_degenerate exactGeo center p _ q2,
      crossParity_congr_b_on H hr hc hp o1.1 o2.1 o3.1 q2 er hes]
    simp
  | false =>
  cases q3 : V3.feq ref p with
  | true =>
    have er : V3.feq (s2Ortho ref) (s2Ortho p) = true := by
      rcases e3 with e | e
      · rw [q3] at e; cases e
      · exact e
    unfold ParityCocycle
    rw [crossParity_degenerate exactGeo ref p _ q3,
      ← crossParity_swap_ab_on eqLaws_exactGeo signSwap_exactGeo hr hc hes,
      crossParity_congr_b_on H hc hr hp o2.1 o1.1 o3.1 q3 er hes]
    simp
  | false => exact parityCocycle_exact_shared_chains ⟨hr, hc, hp, q1, q2, q3, o1, o2, o3, hv⟩

/-! ### the path equalities in the general input class -/

/-- **Index path = brute force, exact geometry, shared vertices and coincidences allowed.** -/
theorem iteratorContains_eq_parity_exact_any {ref center p : V3} {chains : List (List V3)} {rc cc : Bool}
    {ids : List Nat} (hd : CocycleDomAny ref center p chains)
    (hi : CellInv exactGeo ref rc (chains.flatMap loopEdges) center cc ids p) :
    iteratorContains exactGeo center cc (listed (chains.flatMap loopEdges) ids) p =
      (rc != crossParity exactGeo ref p (chains.flatMap loopEdges)) :=
  iteratorContains_eq_parity ⟨hi.nodup, hi.inRange, hi.i2, hi.i3, parityCocycle_exact_any hd⟩

/-- Loop form, shared vertices and coincidences allowed. -/
theorem loop_indexPath_eq_bruteForce_exact_any {o center p : V3} {L : LoopM V3} {cc : Bool} {ids : List Nat}
    (hd : CocycleDomAny o center p [L.vertices.toList])
    (hi : CellInv exactGeo o L.originInside (loopEdges L.vertices.toList) center cc ids p) :
    iteratorContains exactGeo center cc (listed (loopEdges L.vertices.toList) ids) p =
      bruteContains exactGeo o L p :=
  loop_indexPath_eq_bruteForce o L
    ⟨hi.nodup, hi.inRange, hi.i2, hi.i3, by simpa using parityCocycle_exact_any hd⟩

/-- **Query-object path = brute force, exact geometry** (semi-open model), shared vertices and coincidences allowed. -/
theorem shapeContains_eq_containsBruteForce_exact_any (S : ShapeM V3) (hdim : S.dim = 2)
    {chains : List (List V3)} (hch : S.edges.toList = chains.flatMap loopEdges)
    {center p : V3} {cc : Bool} {ids : List Nat}
    (hd : CocycleDomAny S.refPoint center p chains)
    (hi : CellInv exactGeo S.refPoint S.refContained S.edges.toList center cc ids p) :
    shapeContainsM exactGeo .semiOpen S.dim center cc (listed S.edges.toList ids) p =
      containsBruteForce exactGeo S p := by
  refine shapeContains_eq_containsBruteForce S hdim ⟨hi.nodup, hi.inRange, hi.i2, hi.i3, ?_⟩
  rw [hch]
  exact parityCocycle_exact_any hd

/-- **Polygons** (loops may share vertices with each other and with ref / centre / p). -/
theorem polygon_queryPath_eq_polygonContains_exact_any {o center p : V3} {pg : PolygonM V3} {cc : Bool}
    {ids : List Nat} (hpg : PolygonIn Fin3 pg)
    (hd : CocycleDomAny o center p (polygonChains pg))
    (hi : CellInv exactGeo o (polygonOriginInside pg) (polygonShape o pg).edges.toList center cc ids p) :
    shapeContainsM exactGeo .semiOpen 2 center cc (listed (polygonShape o pg).edges.toList ids) p =
      polygonContains exactGeo o pg p := by
  rw [polygonContains_eq_containsBruteForce_exact hd.1 hd.2.2.1 hpg]
  exact shapeContains_eq_containsBruteForce_exact_any (polygonShape o pg) rfl
    (polygonShape_edges_eq_chains o pg) hd hi

/-- query point = reference point = a loop vertex; query point = cell centre -/
example : ParityCocycle exactGeo eX eD eX ([[eX, eY, eZ]].flatMap loopEdges) ∧
    ParityCocycle exactGeo originPoint eD eD ([[eX, eY, eZ]].flatMap loopEdges) :=
  ⟨parityCocycle_exact_any (by decide +kernel), parityCocycle_exact_any (by decide +kernel)⟩

/-- cell centre = the loop vertex `eX`, query point = its ±0 twin `eXm` (`==`, different bit pattern); the two
    reference directions are `==` -/
example : V3.feq eX eXm = true ∧ eX ≠ eXm ∧ V3.feq (s2Ortho eX) (s2Ortho eXm) = true ∧
    CocycleDomAny originPoint eX eXm [[eX, eY, eZ]] := by decide +kernel

example : ParityCocycle exactGeo originPoint eX eXm ([[eX, eY, eZ]].flatMap loopEdges) :=
  parityCocycle_exact_any (by decide +kernel)

/-! ### the float cascade, GIVEN that it agrees with the exact sign -/

/-- `ChiroOn` for `floatGeo` (orientation by the full float cascade `Pred.robustSign`) on any set of finite
    vectors on which the cascade returns the exact + symbolic sign — i.e. GIVEN that the float filters are sound
    on these points (property C02, `robustSign_given_error_bounds`). -/
theorem chiroOn_floatGeo_of_sound {S : V3 → Prop} (hfin : ∀ x, S x → Fin3 x)
    (hs : ∀ a b c, S a → S b → S c → robustSign a b c = exactDecision a b c) : ChiroOn floatGeo S where
  eqv := ⟨fun a ha => eqLaws_exactGeo.refl a (hfin a ha),
    fun a b ha hb => eqLaws_exactGeo.symm a b (hfin a ha) (hfin b hb),
    fun a b c ha hb hc => eqLaws_exactGeo.trans a b c (hfin a ha) (hfin b hb) (hfin c hc)⟩
  rot a b c ha hb hc := by
    show robustSign b c a = robustSign a b c
    rw [hs b c a hb hc ha, hs a b c ha hb hc]; exact E_rot (hfin a ha) (hfin b hb) (hfin c hc)
  swap a b c ha hb hc := by
    show robustSign b a c = -robustSign a b c
    rw [hs b a c hb ha hc, hs a b c ha hb hc]; exact E_swap12 (hfin a ha) (hfin b hb) (hfin c hc)
  range a b c ha hb hc := by
    show robustSign a b c = -1 ∨ robustSign a b c = 0 ∨ robustSign a b c = 1
    rw [hs a b c ha hb hc]; exact E_range (hfin a ha) (hfin b hb) (hfin c hc)
  unit a b c ha hb hc hab hbc hac := by
    show robustSign a b c = 1 ∨ robustSign a b c = -1
    rw [hs a b c ha hb hc]
    exact chiroOn_exactGeo.unit a b c (hfin a ha) (hfin b hb) (hfin c hc) hab hbc hac
  congr a b c c' ha hb hc hc' h := by
    show robustSign a b c = robustSign a b c'
    rw [hs a b c ha hb hc, hs a b c' ha hb hc']
    exact chiroOn_exactGeo.congr a b c c' (hfin a ha) (hfin b hb) (hfin c hc) (hfin c' hc') h
  gp x a b c d hx ha hb hc hd := by
    have := chiroOn_exactGeo.gp x a b c d (hfin x hx) (hfin a ha) (hfin b hb) (hfin c hc) (hfin d hd)
    unfold GPrel at this ⊢
    show gpB (robustSign x a b * robustSign x c d) (-(robustSign x a c * robustSign x b d))
      (robustSign x a d * robustSign x b c) = true
    rw [hs x a b hx ha hb, hs x c d hx hc hd, hs x a c hx ha hc, hs x b d hx hb hd, hs x a d hx ha hd,
      hs x b c hx hb hc]
    exact this

/-- **The parity cocycle for the float geometry, GIVEN sound float filters** on the points involved (`pts`:
    ref, center, p, their reference directions, the chain vertices).  `_partial`: the agreement of the float
    cascade with the exact sign is a hypothesis (C02 proves it from the error bounds of the float stages). -/
theorem parityCocycle_float_partial {ref center p : V3} {chains : List (List V3)} (pts : List V3)
    (hd : CocycleDomShared ref center p chains)
    (hmem : ref ∈ pts ∧ center ∈ pts ∧ p ∈ pts ∧ s2Ortho ref ∈ pts ∧ s2Ortho center ∈ pts ∧ s2Ortho p ∈ pts ∧
      ∀ vs ∈ chains, ∀ v ∈ vs, v ∈ pts)
    (hfin : ∀ x ∈ pts, Fin3 x)
    (hs : ∀ a ∈ pts, ∀ b ∈ pts, ∀ c ∈ pts, robustSign a b c = exactDecision a b c) :
    ParityCocycle floatGeo ref center p (chains.flatMap loopEdges) := by
  have k := corners_exactGeo hd
  obtain ⟨m1, m2, m3, m4, m5, m6, m7⟩ := hmem
  exact parityCocycle_shared_chains (S := (· ∈ pts))
    (chiroOn_floatGeo_of_sound hfin (fun a b c ha hb hc => hs a ha b hb c hc))
    ⟨m1, m2, m3, k.hAB, k.hBC, k.hAC, m4, m5, m6, k.nA, k.nB, k.nC⟩ m7

/-- the hypotheses hold for the octant triangle with ref, center, p = its three vertices (216 evaluations of the
    float cascade against the exact sign) -/
example : ParityCocycle floatGeo eX eY eZ ([[eX, eY, eZ]].flatMap loopEdges) := by
  refine parityCocycle_float_partial [eX, eY, eZ, s2Ortho eX, s2Ortho eY, s2Ortho eZ] (by decide +kernel) ?_ ?_ ?_
  · simp
  · decide +kernel
  · decide +kernel

/-! ### the brute-force answer does not depend on the reference point -/

/-- **Change of reference point**: moving the reference point of a 2-dimensional shape from `o` to `o'` and
    updating `contained` by the crossing parity of `o → o'` (what `referencePointForShape` /
    `initOriginAndBound` establish) does not change `containsBruteForce` at any point `p`. -/
theorem containsBruteForce_refPoint_exact {o o' p : V3} {chains : List (List V3)} (rc : Bool)
    (hd : CocycleDomAny o' o p chains) (hne : V3.feq o' p = false) :
    containsBruteForce exactGeo ⟨2, (chains.flatMap loopEdges).toArray, o', rc != crossParity exactGeo o o' (chains.flatMap loopEdges)⟩ p =
      containsBruteForce exactGeo ⟨2, (chains.flatMap loopEdges).toArray, o, rc⟩ p := by
  have hes : EdgesIn Fin3 (chains.flatMap loopEdges) := by
    intro e he
    obtain ⟨vs, hvs, h1, h2⟩ := mem_flatMap_loopEdges he
    exact ⟨hd.2.2.2.2.2.2.2.2.2 vs hvs _ h1, hd.2.2.2.2.2.2.2.2.2 vs hvs _ h2⟩
  have hc := parityCocycle_exact_any hd
  unfold ParityCocycle at hc
  rw [crossParity_swap_ab_on eqLaws_exactGeo signSwap_exactGeo hd.2.1 hd.1 hes] at hc
  have hne' : exactGeo.eq o' p = false := hne
  unfold containsBruteForce
  simp only [bne_self_eq_false, Bool.false_eq_true, ↓reduceIte, hne', List.toList_toArray]
  by_cases h : exactGeo.eq o p = true
  · rw [crossParity_degenerate exactGeo o p _ h] at hc
    rw [if_pos h, ← hc]; simp
  · rw [if_neg h, ← hc]
    cases rc <;> cases crossParity exactGeo o o' (chains.flatMap loopEdges) <;>
      cases crossParity exactGeo o p (chains.flatMap loopEdges) <;> rfl

/-- the octant triangle seen from `OriginPoint` (outside) and from its own vertex `eX` -/
example : containsBruteForce exactGeo ⟨2, ([[eX, eY, eZ]].flatMap loopEdges).toArray, eX,
      false != crossParity exactGeo originPoint eX ([[eX, eY, eZ]].flatMap loopEdges)⟩ eD =
    containsBruteForce exactGeo ⟨2, ([[eX, eY, eZ]].flatMap loopEdges).toArray, originPoint, false⟩ eD :=
  containsBruteForce_refPoint_exact false (by decide +kernel) (by decide +kernel)

/-! ### the reference-direction hypothesis cannot be dropped -/

/-- the zero vector (not a point of the sphere; `s2Ortho 0 = 0`) -/
def vZero : V3 := ⟨f0, f0, f0⟩

/-- **The hypothesis `s2Ortho ref` not `==` `ref` is needed** for a statement over all finite float vectors:
    with `ref` = the zero vector (its own reference direction) as a vertex of the chain, the cocycle FAILS in
    the exact model — `OrderedCCW` around a vertex degenerates when the reference direction is the vertex
    itself.  (`center`, `p` are not chain vertices; everything is finite, pairwise not `==`.)
    Unit-length inputs never meet this case. -/
theorem parityCocycle_fails_for_zero_ref :
    V3.feq vZero (s2Ortho vZero) = true ∧ Fin3 vZero ∧
    V3.feq vZero eY = false ∧ V3.feq eY eX = false ∧ V3.feq vZero eX = false ∧
    ¬ ParityCocycle exactGeo vZero eY eX (loopEdges [eD, eZ, vZero]) := by
  unfold ParityCocycle
  decide +kernel

end S2Proofs.C04
