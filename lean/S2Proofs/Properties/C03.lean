/-
  Property C03 — edge-crossing tests are exact, symmetric and independent of traversal state.

  Model: `S2.Crossing` (CrossingSign, VertexCrossing, EdgeOrVertexCrossing, AngleContainsVertex and the
  bodies of the EdgeCrosser methods, float fast paths included) and `S2.Crosser` (the EdgeCrosser
  as a state machine).  Specification: `S2.Crossing.exactCrossing` — MaybeCross iff the edges share
  an endpoint, otherwise Cross iff the triangles ACB, CBD, BDA, DAC have the same orientation under
  the exact sign with the library's symbolic perturbation (`Pred.exactDecision`).

  Hypotheses (defined in `S2Proofs.CrossingLemmas`, all relative to a point set `S`):
    `Dom S`        Go `==` is equality on S, the zero vector is not in S;
    `SignLaws S`   rotation / swap / ±1-on-distinct-points of the exact sign (C02's theorems);
    `FloatSound S` triageSign, stableSign and the outward-tangent rejection never contradict the
                   exact sign  — float error analysis, NOT proved: theorems using it are `_partial`.
  `FloatSound` is not a formality: before repo commit cc06be0 (finding D24) the quadruple `wA…wD`
  below made the model — and the Go code — decide differently from the exact criterion, because
  stableSign's error bound underflowed to 0; it is kept as a regression witness.
-/
import S2Proofs.CrossingLemmas
import S2Proofs.CrossingExamples
namespace S2Proofs.C03
open S2 S2.Pred S2.Crossing S2.Crosser

local notation "E" => S2.Pred.exactDecision

/-! ## (a) the stateless test -/

section stateless
variable {S : V3 → Prop} {a b c d : V3}

/-- reversing AB leaves the exact criterion unchanged (SignLaws only, no float hypothesis) -/
theorem exactCrossing_reverse_ab (hD : Dom S) (hL : SignLaws S)
    (ha : S a) (hb : S b) (hc : S c) (hd : S d) :
    exactCrossing b a c d = exactCrossing a b c d := by
  have hs : sharesEndpoint b a c d = sharesEndpoint a b c d := by
    rw [Bool.eq_iff_iff, shares_iff hD hb ha hc hd, shares_iff hD ha hb hc hd]
    constructor <;> (intro h; rcases h with h | h | h | h <;> simp [h])
  have h4 : fourSameWith exactDecision b a c d = fourSameWith exactDecision a b c d := by
    rw [Bool.eq_iff_iff, fourSame_iff hL hb ha hc hd, fourSame_iff hL ha hb hc hd]
    have e1 : E b a c = -(E a b c) := E_bac hL ha hb hc
    have e2 : E b a d = -(E a b d) := E_bac hL ha hb hd
    rw [e1, e2]; omega
  unfold exactCrossing exactCrossingWith; rw [hs, h4]

example : exactCrossing pY pX pC pD = exactCrossing pX pY pC pD :=
  exactCrossing_reverse_ab L0_dom L0_signLaws (by mem) (by mem) (by mem) (by mem)

/-- reversing CD leaves the exact criterion unchanged -/
theorem exactCrossing_reverse_cd (hD : Dom S) (hL : SignLaws S)
    (ha : S a) (hb : S b) (hc : S c) (hd : S d) :
    exactCrossing a b d c = exactCrossing a b c d := by
  have hs : sharesEndpoint a b d c = sharesEndpoint a b c d := by
    rw [Bool.eq_iff_iff, shares_iff hD ha hb hd hc, shares_iff hD ha hb hc hd]
    constructor <;> (intro h; rcases h with h | h | h | h <;> simp [h])
  have h4 : fourSameWith exactDecision a b d c = fourSameWith exactDecision a b c d := by
    rw [Bool.eq_iff_iff, fourSame_iff hL ha hb hd hc, fourSame_iff hL ha hb hc hd]
    have e1 : E d c b = -(E c d b) := E_bac hL hc hd hb
    have e2 : E d c a = -(E c d a) := E_bac hL hc hd ha
    rw [e1, e2]; omega
  unfold exactCrossing exactCrossingWith; rw [hs, h4]

example : exactCrossing pX pY pD pC = exactCrossing pX pY pC pD :=
  exactCrossing_reverse_cd L0_dom L0_signLaws (by mem) (by mem) (by mem) (by mem)

/-- exchanging the two edges leaves the exact criterion unchanged -/
theorem exactCrossing_swap_edges (hD : Dom S) (hL : SignLaws S)
    (ha : S a) (hb : S b) (hc : S c) (hd : S d) :
    exactCrossing c d a b = exactCrossing a b c d := by
  have hs : sharesEndpoint c d a b = sharesEndpoint a b c d := by
    rw [Bool.eq_iff_iff, shares_iff hD hc hd ha hb, shares_iff hD ha hb hc hd]
    constructor <;> (intro h; rcases h with h | h | h | h <;> simp [h])
  have h4 : fourSameWith exactDecision c d a b = fourSameWith exactDecision a b c d := by
    rw [Bool.eq_iff_iff, fourSame_iff hL hc hd ha hb, fourSame_iff hL ha hb hc hd]
    omega
  unfold exactCrossing exactCrossingWith; rw [hs, h4]

example : exactCrossing pC pD pX pY = exactCrossing pX pY pC pD :=
  exactCrossing_swap_edges L0_dom L0_signLaws (by mem) (by mem) (by mem) (by mem)

/-- FULL STRENGTH statement of "decided exactly" (no float hypothesis): for all nearly unit-length
    points, no edge with exactly antipodal endpoints.  It was FALSE for the model (and the code) before the
    repair of finding D24 (witness `wA…wD` below); it is not proved; what holds is `crossingSign_exact_partial`. -/
def nearUnit (p : V3) : Bool :=
  Exact.finite3 p &&
  decide ((((Exact.ofV3 p).norm2 - (Exact.scale : Int) ^ 2).natAbs) * 2 ^ 50 ≤ Exact.scale ^ 2)
def antipodal (p q : V3) : Bool := ((Exact.ofV3 p).add (Exact.ofV3 q)).isZero
def FullExactness : Prop :=
  ∀ a b c d : V3, nearUnit a = true → nearUnit b = true → nearUnit c = true → nearUnit d = true →
    antipodal a b = false → antipodal c d = false →
    crossingSign a b c d = exactCrossing a b c d

/-- `CrossingSign` is decided exactly, GIVEN sound float filters.  Partial: `FloatSound` is assumed. -/
theorem crossingSign_exact_partial (hD : Dom S) (hL : SignLaws S) (hF : FloatSound S)
    (ha : S a) (hb : S b) (hc : S c) (hd : S d) :
    crossingSign a b c d = exactCrossing a b c d :=
  crossingSign_eq_exact hD hL hF ha hb hc hd

example : crossingSign pX pY pC pD = 1 := by
  rw [crossingSign_exact_partial L0_dom L0_signLaws L0_floatSound (by mem) (by mem) (by mem)
    (by mem)]
  decide +kernel

/-- symmetry of `CrossingSign` (properties (1),(2) of its Go comment).  Partial: `FloatSound`. -/
theorem crossingSign_symmetric_partial (hD : Dom S) (hL : SignLaws S) (hF : FloatSound S)
    (ha : S a) (hb : S b) (hc : S c) (hd : S d) :
    crossingSign b a c d = crossingSign a b c d ∧ crossingSign a b d c = crossingSign a b c d ∧
    crossingSign c d a b = crossingSign a b c d := by
  rw [crossingSign_eq_exact hD hL hF hb ha hc hd, crossingSign_eq_exact hD hL hF ha hb hd hc,
    crossingSign_eq_exact hD hL hF hc hd ha hb, crossingSign_eq_exact hD hL hF ha hb hc hd]
  exact ⟨exactCrossing_reverse_ab hD hL ha hb hc hd, exactCrossing_reverse_cd hD hL ha hb hc hd,
    exactCrossing_swap_edges hD hL ha hb hc hd⟩

example : crossingSign pC pD pX pY = crossingSign pX pY pC pD :=
  (crossingSign_symmetric_partial L0_dom L0_signLaws L0_floatSound (by mem) (by mem) (by mem)
    (by mem)).2.2

/-- `MaybeCross` exactly when two vertices of different edges coincide — for ALL edges, degenerate
    ones included (the code tests shared vertices before degeneracy).  Partial: `FloatSound`. -/
theorem crossingSign_maybe_iff_partial (hD : Dom S) (hL : SignLaws S) (hF : FloatSound S)
    (ha : S a) (hb : S b) (hc : S c) (hd : S d) :
    crossingSign a b c d = 0 ↔ (a = c ∨ a = d ∨ b = c ∨ b = d) := by
  rw [crossingSign_eq_exact hD hL hF ha hb hc hd, ← shares_iff hD ha hb hc hd]
  unfold exactCrossing exactCrossingWith
  cases sharesEndpoint a b c d <;> cases fourSameWith exactDecision a b c d <;> simp

example : crossingSign pX pY pX pD = 0 :=
  (crossingSign_maybe_iff_partial L0_dom L0_signLaws L0_floatSound (by mem) (by mem) (by mem)
    (by mem)).mpr (Or.inl rfl)

/-- degenerate edges, exactly as the code decides them: MaybeCross if a vertex is shared, otherwise
    DoNotCross (never Cross).  Partial: `FloatSound`. -/
theorem crossingSign_degenerate_partial (hD : Dom S) (hL : SignLaws S) (hF : FloatSound S)
    (ha : S a) (hb : S b) (hc : S c) (hd : S d) (hdeg : a = b ∨ c = d) :
    crossingSign a b c d = if (a = c ∨ a = d ∨ b = c ∨ b = d) then 0 else -1 := by
  rw [crossingSign_eq_exact hD hL hF ha hb hc hd]
  by_cases hs : (a = c ∨ a = d ∨ b = c ∨ b = d)
  · rw [if_pos hs]
    exact exactCrossing_of_shares ((shares_iff hD ha hb hc hd).mpr hs)
  · rw [if_neg hs]
    have hs' : sharesEndpoint a b c d = false := by
      cases h : sharesEndpoint a b c d
      · rfl
      · exact absurd ((shares_iff hD ha hb hc hd).mp h) hs
    refine exactCrossing_neg_one hs' ?_
    rw [fourSame_iff hL ha hb hc hd]
    rcases hdeg with h | h
    · subst h; have := E_aab hL ha hc; omega
    · subst h; have := E_aab hL hc hb; omega

example : crossingSign pX pX pC pD = -1 := by
  rw [crossingSign_degenerate_partial L0_dom L0_signLaws L0_floatSound (by mem) (by mem)
    (by mem) (by mem) (Or.inl rfl)]
  decide

end stateless

/-! ## (b) the incremental crosser: every history, every call order -/

section crosser
variable {S : V3 → Prop} {a b : V3}

/-- REFINEMENT.  For every history of calls on one EdgeCrosser for the edge `a b` (any mixture of
    RestartAt / ChainCrossingSign / CrossingSign / EdgeOrVertexCrossing / EdgeOrVertexChainCrossing,
    all vertices in `S`, not starting with a chain call), every returned value equals the stateless
    `CrossingSign` / `EdgeOrVertexCrossing` of the fixed edge and the current chain edge.
    Partial: `FloatSound` is assumed. -/
theorem crosser_refines_stateless_partial (hD : Dom S) (hL : SignLaws S) (hF : FloatSound S)
    (ha : S a) (hb : S b) (ops : List Op) (hpts : ∀ op ∈ ops, ∀ p ∈ op.points, S p)
    (hwf : wellFormed ops = true) :
    run (init a b) ops = spec a b zero3 ops :=
  run_eq_spec hD hL hF ha hb ops init_inv hpts (Or.inr hwf)

/-- a mixed history on the edge pX pY: fresh call, chained call, restart, vertex-rule calls -/
def ops0 : List Op :=
  [.crossingSign pC pD, .chainCrossingSign pC, .restartAt pD, .edgeOrVertexChainCrossing pX,
   .edgeOrVertexCrossing pX pC, .crossingSign pC pC, .chainCrossingSign pY]

example : run (init pX pY) ops0 = spec pX pY zero3 ops0 :=
  crosser_refines_stateless_partial L0_dom L0_signLaws L0_floatSound (by mem) (by mem) ops0
    (by simp [ops0, Op.points, L0]) (by decide)

/-- The same from ANY state the crosser can be in (so the theorem also covers continuing after an
    arbitrary prefix): if the invariant holds and the current vertex is known, the remaining outputs
    are the stateless answers.  Partial: `FloatSound`. -/
theorem crosser_refines_from_state_partial (hD : Dom S) (hL : SignLaws S) (hF : FloatSound S)
    (ha : S a) (hb : S b) {e : St} (hI : Inv S a b e) (hc : S e.c) (ops : List Op)
    (hpts : ∀ op ∈ ops, ∀ p ∈ op.points, S p) :
    run e ops = spec a b e.c ops :=
  run_eq_spec hD hL hF ha hb ops hI hpts (Or.inl hc)

example : run (initChain pX pY pC) [.chainCrossingSign pD] = spec pX pY pC [.chainCrossingSign pD] :=
  crosser_refines_from_state_partial L0_dom L0_signLaws L0_floatSound (by mem) (by mem)
    (restartAt_inv L0_floatSound (by mem) (by mem) init_inv (by mem)).1 (by exact (by mem : pC ∈ L0)) _
    (by simp [Op.points, L0])

/-- THE CACHE INVARIANT the code maintains, after every history: the fields `a b aTangent bTangent`
    never change and `acb` is either 0 ("not known", it is then recomputed by `expensiveSign` before
    use) or the exact orientation of (a, c, b) = `-E a b c` for the CURRENT `c` — on the fast path,
    after every early return of the slow path and after its deferred update.  Partial: `FloatSound`. -/
theorem crosser_invariant_partial (hD : Dom S) (hL : SignLaws S) (hF : FloatSound S)
    (ha : S a) (hb : S b) (ops : List Op) (hpts : ∀ op ∈ ops, ∀ p ∈ op.points, S p)
    (hwf : wellFormed ops = true) :
    (exec (init a b) ops).acb = 0 ∨
      (exec (init a b) ops).acb = -(E a b (exec (init a b) ops).c) :=
  (exec_inv hD hL hF ha hb ops init_inv hpts (Or.inr hwf)).cache

example : (exec (init pX pY) ops0).acb = 0 ∨
    (exec (init pX pY) ops0).acb = -(E pX pY (exec (init pX pY) ops0).c) :=
  crosser_invariant_partial L0_dom L0_signLaws L0_floatSound (by mem) (by mem) ops0
    (by simp [ops0, Op.points, L0]) (by decide)

/-- every output of a history is the EXACT specification (four-orientation criterion / vertex rule
    on the exact crossing sign).  Partial: `FloatSound`. -/
theorem crosser_sign_outputs_exact_partial (hD : Dom S) (hL : SignLaws S) (hF : FloatSound S)
    (ha : S a) (hb : S b) {e : St} (hI : Inv S a b e) (hc : S e.c) {d : V3} (hd : S d) :
    (step e (.chainCrossingSign d)).2 = .sign (exactCrossing a b e.c d) := by
  have := (chainCrossingSign_spec hD hL hF ha hb hI hc hd).1
  show Out.sign (chainCrossingSign e d).2 = _
  rw [this]

example : (step (initChain pX pY pC) (.chainCrossingSign pD)).2 = .sign (exactCrossing pX pY pC pD) :=
  crosser_sign_outputs_exact_partial L0_dom L0_signLaws L0_floatSound (by mem) (by mem)
    (restartAt_inv L0_floatSound (by mem) (by mem) init_inv (by mem)).1 (by exact (by mem : pC ∈ L0)) (by mem)

end crosser

/-! ## (c) the shared-vertex rule -/

section vertex
variable {T : V3 → Prop} {a b c d : V3}

/-- rule (1) of the Go comment: a degenerate edge never counts as a vertex crossing -/
theorem vertexCrossing_rule1 (hD : Dom T) (occw : V3 → V3 → V3 → V3 → Bool)
    (ha : T a) (hb : T b) (hc : T c) (hd : T d) :
    vertexCrossingWith occw a a c d = false ∧ vertexCrossingWith occw a b c c = false := by
  rw [vc_eq hD occw ha ha hc hd, vc_eq hD occw ha hb hc hc]; simp

example : vertexCrossing pX pX pC pD = false :=
  (vertexCrossing_rule1 (b := pY) L0_dom orderedCCW (by mem) (by mem) (by mem) (by mem)).1

/-- rule (2): identical or reversed NON-degenerate edges count as crossing (for a = b the code
    returns false, by rule (1)) -/
theorem vertexCrossing_rule2 (hD : Dom T) (occw : V3 → V3 → V3 → V3 → Bool)
    (ha : T a) (hb : T b) (hab : a ≠ b) :
    vertexCrossingWith occw a b a b = true ∧ vertexCrossingWith occw a b b a = true := by
  rw [vc_eq hD occw ha hb ha hb, vc_eq hD occw ha hb hb ha]
  simp [hab, Ne.symm hab]

example : vertexCrossing pX pY pY pX = true :=
  (vertexCrossing_rule2 L0_dom orderedCCW (by mem) (by mem) (by decide)).2

/-- rule (3): reversing either edge does not change VertexCrossing -/
theorem vertexCrossing_rule3 (hD : Dom T) (occw : V3 → V3 → V3 → V3 → Bool)
    (ha : T a) (hb : T b) (hc : T c) (hd : T d) :
    vertexCrossingWith occw a b d c = vertexCrossingWith occw a b c d ∧
    vertexCrossingWith occw b a c d = vertexCrossingWith occw a b c d ∧
    vertexCrossingWith occw b a d c = vertexCrossingWith occw a b c d := by
  rw [vc_eq hD occw ha hb hd hc, vc_eq hD occw hb ha hc hd, vc_eq hD occw hb ha hd hc,
    vc_eq hD occw ha hb hc hd]
  by_cases h1 : a = b
  · subst h1; simp
  by_cases h2 : c = d
  · subst h2; simp
  have h1' : b ≠ a := Ne.symm h1
  have h2' : d ≠ c := Ne.symm h2
  by_cases h3 : a = c
  · subst h3
    by_cases h4 : b = d
    · subst h4; simp [h1, h1']
    · have : d ≠ b := Ne.symm h4
      simp [h1, h1', h2, h2', h4]
  by_cases h4 : b = d
  · subst h4
    have : c ≠ a := Ne.symm h3
    simp [h1, h1', h2, h2', h3]
  by_cases h5 : a = d
  · subst h5
    by_cases h6 : b = c
    · subst h6; simp [h1, h1']
    · have : c ≠ b := Ne.symm h6
      simp [h1, h1', h2, h2', h6]
  by_cases h6 : b = c
  · subst h6
    have : d ≠ a := Ne.symm h5
    simp [h1, h1', h2, h2', h5]
  have h3' : c ≠ a := Ne.symm h3
  have h4' : d ≠ b := Ne.symm h4
  have h5' : d ≠ a := Ne.symm h5
  have h6' : c ≠ b := Ne.symm h6
  simp [h1, h1', h2, h2', h3, h4, h5, h6]

example : vertexCrossing pY pX pD pX = vertexCrossing pX pY pX pD :=
  (vertexCrossing_rule3 L0_dom orderedCCW (by mem) (by mem) (by mem) (by mem)).2.2

/-- rule (4), the property's last sentence: two non-degenerate edges that share EXACTLY ONE vertex —
    exactly one of VC(a,b,c,d), VC(c,d,a,b) holds.  Needs of the orientation function only
    antisymmetry around the shared vertex and ±1 on distinct points (`RSLaws`), on a set containing
    the four points and the reference direction of the shared vertex; no chirotope axiom. -/
theorem vertexCrossing_exactly_one (hD : Dom T) {rs : V3 → V3 → V3 → Int} (hR : RSLaws T rs)
    (ha : T a) (hb : T b) (hc : T c) (hd : T d) (hra : T (referenceDir a)) (hrb : T (referenceDir b))
    (hab : a ≠ b) (hcd : c ≠ d)
    (hone : (a = c ∧ b ≠ d) ∨ (b = d ∧ a ≠ c) ∨ (a = d ∧ b ≠ c) ∨ (b = c ∧ a ≠ d)) :
    vertexCrossingWith (orderedCCWWith rs) a b c d =
      !(vertexCrossingWith (orderedCCWWith rs) c d a b) := by
  rw [vc_eq hD _ ha hb hc hd, vc_eq hD _ hc hd ha hb]
  have hab' : b ≠ a := Ne.symm hab
  have hcd' : d ≠ c := Ne.symm hcd
  rcases hone with ⟨h, h'⟩ | ⟨h, h'⟩ | ⟨h, h'⟩ | ⟨h, h'⟩
  · subst h
    have h'' : d ≠ b := Ne.symm h'
    simp only [hab, hcd, h', h'', or_self, if_false, if_true, decide_false, Bool.false_or]
    exact occw_compl hR hra ha hb hd hcd' hab h'
  · subst h
    have h'' : c ≠ a := Ne.symm h'
    simp only [hab, hcd, h', h'', or_self, if_false, if_true]
    exact occw_compl hR hrb hb ha hc hcd hab' h'
  · subst h
    have h'' : c ≠ b := Ne.symm h'
    have : b ≠ a := hab'
    simp only [hab, hab', hcd, hcd', h', h'', or_self, if_false, if_true, decide_false, Bool.false_or]
    exact occw_compl hR hra ha hb hc hcd hab h'
  · subst h
    have h'' : d ≠ a := Ne.symm h'
    simp only [hab, hab', hcd, hcd', h', h'', or_self, if_false, if_true]
    exact occw_compl hR hrb hb ha hd hcd' hab' h'

/-- … for the library's `VertexCrossing` (orientation = `RobustSign`) -/
example : vertexCrossing pX pY pX pD = !(vertexCrossing pX pD pX pY) :=
  vertexCrossing_exactly_one (rs := robustSign) L1_dom L1_rsLaws (by mem) (by mem) (by mem) (by mem)
    (by mem) (by mem) (by decide) (by decide) (Or.inl ⟨rfl, by decide⟩)

/-- rule (4) for `VertexCrossing` from the bundled hypotheses `Dom`, `SignLaws`, `FloatSound` on a set
    containing the reference directions (corollary, not counted as an obligation: its hypotheses are
    implied by `RSLaws S robustSign` through `rsLaws_robust`, and the example above instantiates the
    generic theorem at `robustSign` directly). -/
example {S : V3 → Prop} (hD : Dom S) (hL : SignLaws S)
    (hF : FloatSound S) (ha : S a) (hb : S b) (hc : S c) (hd : S d)
    (hra : S (referenceDir a)) (hrb : S (referenceDir b)) (hab : a ≠ b) (hcd : c ≠ d)
    (hone : (a = c ∧ b ≠ d) ∨ (b = d ∧ a ≠ c) ∨ (a = d ∧ b ≠ c) ∨ (b = c ∧ a ≠ d)) :
    vertexCrossing a b c d = !(vertexCrossing c d a b) :=
  vertexCrossing_exactly_one hD (rsLaws_robust hD hL hF) ha hb hc hd hra hrb hab hcd hone

/-- AngleContainsVertex rules (1),(2): false for ABA; complementary for ABC / CBA when A ≠ C -/
theorem angleContainsVertex_rules {rs : V3 → V3 → V3 → Int} (hR : RSLaws T rs)
    (ha : T a) (hb : T b) (hc : T c) (hrb : T (referenceDir b)) (hab : a ≠ b) (hbc : b ≠ c) :
    (!(orderedCCWWith rs (referenceDir b) a a b)) = false ∧
    (a ≠ c → (!(orderedCCWWith rs (referenceDir b) c a b)) =
      !(!(orderedCCWWith rs (referenceDir b) a c b))) := by
  refine ⟨by rw [occw_mid_eq hR hrb hb ha]; rfl, fun hac => ?_⟩
  rw [occw_compl hR hrb hb ha hc (Ne.symm hbc) (Ne.symm hab) hac]

example : angleContainsVertex pY pX pD = !(angleContainsVertex pD pX pY) :=
  (angleContainsVertex_rules (rs := robustSign) L1_rsLaws (a := pY) (b := pX) (c := pD) (by mem) (by mem)
    (by mem) (by mem) (by decide) (by decide)).2 (by decide)

end vertex

/-! ### regression witness: stableSign's error bound used to underflow

  a = (0, -0.1727, 0.9850), b = (0, -0.7271, -0.6865), c = (0.6405, 0.5431, 0.5431),
  d = b with x moved by two subnormal ulps (x = -1e-323).  The exact determinant of (c,d,b) is
  positive; before the repair of `stableSign` (repo commit cc06be0) `stableSign c d b` was -1 because
  `detErrorMultiplier * sqrt(|e1|²·|e2|²)` underflowed to 0, and `CrossingSign` answered DoNotCross
  where the exact criterion says Cross (found by the C03 oracle; finding D24 in known_findings.json).  With the repaired
  code / model the quadruple is decided exactly. -/

def wA : V3 := ⟨⟨0x0000000000000000⟩, ⟨0xbfc61a2a95f0073f⟩, ⟨0x3fef84f2ea145e79⟩⟩
def wB : V3 := ⟨⟨0x0000000000000000⟩, ⟨0xbfe744931bb484b4⟩, ⟨0xbfe5f7e28fa256cf⟩⟩
def wC : V3 := ⟨⟨0x3fe47ea8d1bc38e7⟩, ⟨0x3fe160acf2007c2e⟩, ⟨0x3fe160acf2007c2e⟩⟩
def wD : V3 := ⟨⟨0x8000000000000002⟩, ⟨0xbfe744931bb484b4⟩, ⟨0xbfe5f7e28fa256cf⟩⟩

example : nearUnit wA = true ∧ nearUnit wB = true ∧ nearUnit wC = true ∧ nearUnit wD = true ∧
    crossingSign wA wB wC wD = 1 ∧ exactCrossing wA wB wC wD = 1 ∧
    stableSign wC wD wB = 0 ∧ Exact.detSign wC wD wB = 1 := by decide +kernel

end S2Proofs.C03
