/-
  Property C10 (c), deepening: the hypothesis structure `SignLaws` of the monotone-chain hull
  (S2Proofs.C10.Hull) DISCHARGED for the library's exact orientation sign `Pred.exactDecisionI`, with the sort
  order of `ConvexHull()` (`lt a b :⇔ RobustSign(origin, a, b) = +1`), for point sets in GENERAL POSITION
  inside an open half-space (`C10L.GenPos`):
      no three distinct points coplanar with the sphere centre, no two distinct points coplanar with the sort
      origin and the centre, all points strictly on one side of a plane through the origin vector
      (true in `ConvexHull()` when all points lie within the open hemisphere about the cap centre: `w = centre × origin`).
  `cyc`, `anti`, `nondeg` hold for ALL inputs (degenerate ones too — C02); the transitivity of the sort order
  and Knuth's `t1 t2 t3` are derived from the three-term Grassmann–Plücker identity (`C10L.gp3`).

  Proved in `Properties/C10_Degenerate.lean` (`signLaws_degenerate`, from `C02.sos_global_holds`), not here: `t1 t2 t3` / `trans` for DEGENERATE configurations, where the sign is decided by the symbolic
  perturbation.  They are sign-consequences of Grassmann–Plücker relations, so they hold for every sign function
  that is realised by one genuine point configuration; for `exactDecisionI` that realisability is exactly C02's
  unproved `sos_global` (one perturbation per point serving all triples).  `signLaws_degenerate_statement` below
  keeps the full statement visible; no counterexample is known (see DELIVER.md for the search that was run).
-/
import S2Proofs.Properties.C10
import S2Proofs.C10.ExactSign

namespace S2Proofs.C10
open S2 S2.Exact S2.Pred S2.Bounds S2Proofs.C10L S2Proofs.ExactLaws

/-- the orientation function of the hull model instantiated with the exact sign, on the points of `S` -/
def sgnOn (S : IV3 → Prop) (a b c : {p // S p}) : Int := exactDecisionI a.1 b.1 c.1

/-- the comparator of the `sort.Slice` call of `ConvexHull()` with the exact sign -/
def ltAround (o : IV3) (S : IV3 → Prop) (a b : {p // S p}) : Prop := exactDecisionI o a.1 b.1 = 1

/-! ## non-vacuity instance: six points of a small cap around the pole, in general position -/

def capPts : List IV3 := [⟨0, 0, 10⟩, ⟨4, 0, 10⟩, ⟨4, 4, 10⟩, ⟨0, 4, 10⟩, ⟨1, 2, 10⟩, ⟨3, 2, 10⟩]
/-- the sort origin (orthogonal to the cap centre (0,0,1), slightly skewed as `Ortho` is) -/
def capO : IV3 := ⟨100, 3, 0⟩
def capS : IV3 → Prop := (· ∈ capPts)
/-- a member of the instance with its membership proof -/
def capPt (p : IV3) (h : p ∈ capPts := by simp [capPts]) : {p // capS p} := ⟨p, h⟩

private theorem genPos_cap : GenPos capO capS where
  tri a b c ha hb hc :=
    (by decide +kernel : ∀ a ∈ capPts, ∀ b ∈ capPts, ∀ c ∈ capPts, a ≠ b → b ≠ c → a ≠ c → det3 a b c ≠ 0)
      a ha b hb c hc
  org a b ha hb :=
    (by decide +kernel : ∀ a ∈ capPts, ∀ b ∈ capPts, a ≠ b → det3 capO a b ≠ 0) a ha b hb
  half := ⟨⟨-3, 100, 0⟩, fun p hp =>
    (by decide +kernel : ∀ p ∈ capPts, 0 < det3 capO ⟨-3, 100, 0⟩ p) p hp⟩

/-- the six points sorted around `capO` (the output of `sortAround` on `capPts`) -/
def capSorted : List {p // capS p} :=
  [capPt ⟨0, 4, 10⟩, capPt ⟨4, 4, 10⟩, capPt ⟨1, 2, 10⟩, capPt ⟨3, 2, 10⟩,
   capPt ⟨0, 0, 10⟩, capPt ⟨4, 0, 10⟩]

def capHull : List {p // capS p} :=
  [capPt ⟨0, 4, 10⟩, capPt ⟨0, 0, 10⟩, capPt ⟨4, 0, 10⟩, capPt ⟨4, 4, 10⟩]

private theorem capSorted_pairwise : capSorted.Pairwise (ltAround capO capS) := by
  unfold ltAround; decide +kernel

private theorem capHull_eq : convexHullSorted (sgnOn capS) capSorted = .loop capHull := by
  rw [convexHullSorted_loop (sgnOn capS) (by decide)]
  exact congrArg Hull.loop (by decide +kernel)

/-! ## the laws -/

/-- **`SignLaws` for the exact sign, both sort directions**, points in general position around `o`. -/
theorem signLaws_exact_general_position {o : IV3} {S : IV3 → Prop} (h : GenPos o S) :
    SignLaws (sgnOn S) (ltAround o S) ∧ SignLaws (sgnOn S) (fun a b => ltAround o S b a) :=
  ⟨signLaws_exact_genPos h, signLaws_exact_genPos_rev h⟩

example : SignLaws (sgnOn capS) (ltAround capO capS) ∧
    SignLaws (sgnOn capS) (fun a b => ltAround capO capS b a) :=
  signLaws_exact_general_position genPos_cap

/-- The part of the laws that needs NO general-position hypothesis: cyclic symmetry, antisymmetry and
    non-degeneracy of the exact sign hold for all integer vectors, degenerate triples included. -/
theorem signLaws_exact_algebraic_part (a b c : IV3) :
    exactDecisionI a b c = exactDecisionI b c a ∧ exactDecisionI b a c = -exactDecisionI a b c ∧
    (a ≠ b → b ≠ c → a ≠ c → exactDecisionI a b c = 1 ∨ exactDecisionI a b c = -1) :=
  ⟨(EI_rot a b c).symm, EI_swap12 a b c, fun h1 h2 h3 => EI_unit a b c h1 h2 (Ne.symm h3)⟩

/-- an exactly coplanar triple: still ±1 -/
example : det3 ⟨1, 0, 0⟩ ⟨1, 1, 0⟩ ⟨0, 1, 0⟩ = 0 ∧ exactDecisionI ⟨1, 0, 0⟩ ⟨1, 1, 0⟩ ⟨0, 1, 0⟩ = 1 := by
  decide +kernel

/-- **The hull theorem for the exact sign**: for points in general position sorted around the origin as
    `ConvexHull()` sorts them, every input point is a vertex of the hull loop or lies strictly left (exact sign
    +1, i.e. positive exact determinant) of every edge of the loop, the closing edge included. -/
theorem hull_contains_input_exact {o : IV3} {S : IV3 → Prop} (h : GenPos o S) {pts vs : List {p // S p}}
    (hs : pts.Pairwise (ltAround o S)) (h3 : 3 ≤ pts.length)
    (hv : convexHullSorted (sgnOn S) pts = .loop vs) :
    ∀ a b, CyclicPair vs a b → ∀ p ∈ pts, p ≠ a → p ≠ b →
      exactDecisionI a.1 b.1 p.1 = 1 ∧ 0 < det3 a.1 b.1 p.1 := by
  intro a b hc p hp hpa hpb
  have := hull_contains_input (signLaws_exact_genPos h) (signLaws_exact_genPos_rev h) hs h3 hv a b hc p hp hpa hpb
  exact ⟨this, det_pos_of_sign h a.2 b.2 p.2 this⟩

example : ∀ a b, CyclicPair capHull a b → ∀ p ∈ capSorted, p ≠ a → p ≠ b →
    exactDecisionI a.1 b.1 p.1 = 1 ∧ 0 < det3 a.1 b.1 p.1 :=
  hull_contains_input_exact genPos_cap capSorted_pairwise (by decide) capHull_eq

/-- **The hull loop is convex for the exact sign**: every cyclically consecutive triple turns counter-clockwise. -/
theorem hull_is_convex_exact {o : IV3} {S : IV3 → Prop} (h : GenPos o S) {pts vs : List {p // S p}}
    (hs : pts.Pairwise (ltAround o S)) (h3 : 3 ≤ pts.length)
    (hv : convexHullSorted (sgnOn S) pts = .loop vs) :
    ∀ a b c, CyclicPair vs a b → CyclicPair vs b c → c ≠ a → exactDecisionI a.1 b.1 c.1 = 1 :=
  hull_is_convex (signLaws_exact_genPos h) (signLaws_exact_genPos_rev h) hs h3 hv

example : ∀ a b c, CyclicPair capHull a b → CyclicPair capHull b c → c ≠ a → exactDecisionI a.1 b.1 c.1 = 1 :=
  hull_is_convex_exact genPos_cap capSorted_pairwise (by decide) capHull_eq

/-- The half-space condition of `GenPos` is needed for the sort order to be transitive: three vectors at 120°
    around the axis `o` are cyclically ordered (each is `lt` the next). -/
theorem ltAround_cyclic_without_halfspace :
    exactDecisionI ⟨0, 0, 1⟩ ⟨2, 0, 1⟩ ⟨-1, 2, 1⟩ = 1 ∧ exactDecisionI ⟨0, 0, 1⟩ ⟨-1, 2, 1⟩ ⟨-1, -2, 1⟩ = 1 ∧
    exactDecisionI ⟨0, 0, 1⟩ ⟨-1, -2, 1⟩ ⟨2, 0, 1⟩ = 1 := by decide +kernel

/-- FULL statement, PROVED in `Properties/C10_Degenerate.lean` (`signLaws_degenerate`): the laws for arbitrary (also degenerate) distinct points of an open
    half-space, the half-space side being read off the exact sign itself.  Follows from C02's `sos_global`
    (not proved there) because `t1 t2 t3` and `trans` are sign-consequences of Grassmann–Plücker relations of
    the genuinely perturbed configuration; `signLaws_exact_general_position` is the part with no vanishing
    determinant. -/
def signLaws_degenerate_statement : Prop :=
  ∀ (o : IV3) (S : IV3 → Prop), (∀ p, S p → p ≠ o) → (∃ w, ¬ S w ∧ w ≠ o ∧ ∀ p, S p → exactDecisionI o w p = 1) →
    SignLaws (sgnOn S) (ltAround o S) ∧ SignLaws (sgnOn S) (fun a b => ltAround o S b a)

end S2Proofs.C10
