/-
  C13 (targets) — the TARGET object of an EdgeQuery call is part of the history model.

  `S2.History.Target`: kind (point / edge / cell / index); for index targets (`MinDistanceToShapeIndexTarget`) the
  target's own ShapeIndex (shapes + build bookkeeping, the same `Index` record as the queried index) and the
  target's own EdgeQuery `m.query` (option record written by `setMaxError` / `setIncludeInteriors` /
  `setUseBruteForce`, cached edge count, cached covering).  Ops `newTarget`, `tadd`, `tset`, `tcall`.
  An `Answer` is a function of (visible shapes of the queried index, effective options) — `outer` — and of
  (visible shapes of the target's index, effective inner options) — `target`.

  The general theorems of `Properties/C13.lean` (`fixed_answers_history_free`, `fixed_never_stuck`,
  `fixed_options_preserved`) quantify over `List Op` and therefore cover the new ops; their proofs were
  extended (`HistoryLemmas.step_fixed`, `fet_fixed`).  This file states what they say about targets, and the
  regression witnesses:
    D49 (repaired in /repo 3519f3b)  maxError forwarded to the target only when non-zero;
    D51 (OPEN on the current tree)   the target's inner query keeps the covering of the target's index.
-/
import S2Proofs.Properties.C13
namespace S2Proofs.C13
open S2.History S2Proofs.HistoryLemmas

/-- a NEW target object over a new index holding the same shapes, configured as the caller configured `t` -/
def freshLike (t : Target) : Target :=
  (Target.new t.kind t.idx.shapes).configure t.q.user.includeInteriors t.q.user.useBruteForce

/-- FULL STATEMENT: after any history, in a call with any effective outer options `o`, the target's own query
    searches with the options a fresh target would search with -/
def TargetOptionsFresh (f : Fixes) : Prop :=
  ∀ (loopVerts : Nat) (loopOrigin : Bool) (pk : PolyKind) (polyVerts : Nat) (h : List Op) (t : Target),
    (runV f (State.init f loopVerts loopOrigin pk polyVerts) h).1.tgt = some t →
    ∀ o : Opts, t.effInner f o = (freshLike t).effInner f o

theorem effInner_fresh_of_ok (t : Target) (ht : TgtOK t) (o : Opts) :
    t.effInner Fixes.all o = (freshLike t).effInner Fixes.all o := by
  simp [Target.effInner, Target.setMaxError, Fixes.all, freshLike, Target.configure, Target.new, EQ.new,
    Opts.default, ht.ii, ht.bf]

/-- ALL finite histories (any interleaving of calls of all kinds, threshold tests, additions to the target's
    index, re-creation and re-configuration of the target): the effective inner options of the target at
    every call are those of a fresh target.  ("At every call": every prefix of a history is a history.) -/
theorem fixed_target_options_fresh : TargetOptionsFresh Fixes.all := by
  intro n o k m h t ht oo
  have hs := (run_fixed _ (sok_init Fixes.all n o k m true (fun _ => Or.inl rfl)) h).2
  exact effInner_fresh_of_ok t (hs.tgt t ht) oo

/-- … and the geometry the fresh target is compared on is the target's current one -/
theorem freshLike_geo (t : Target) (hk : t.kind = .index) : (freshLike t).geo = t.geo := by
  simp [freshLike, Target.geo, Target.configure, Target.new, addAll_shapes, Index.new, hk]

/-- one call with the CURRENT index target in any reachable state of the repaired model answers exactly as a
    fresh query with a fresh target over the current shapes of both indexes: in particular `capBound` is that of
    the current target shapes (`cap`), the inner search sees all of them (`inner`), with the options of a fresh
    target (`iopts`) -/
theorem fixed_tcall_answer (s : State) (hs : SOK true s) (q : EQ) (t : Target) (k : QKind)
    (hq : s.eq = some q) (ht : s.tgt = some t) (hk : t.kind = .index) :
    (stepV Fixes.all s (.tcall k)).2 = .eq (specAnsT s.idx.shapes q.user k t.geo) q.user := by
  rw [(step_fixed s (.tcall k) hs).2.2]
  have hkg : t.geo.kind = .index := hk
  simp [spec, abs, hq, ht, hkg]

/-- the same over whole histories: the general theorem, instantiated at histories that end in a call with the
    current target (non-vacuity of the new ops below) -/
theorem fixed_answers_history_free_targets (n : Nat) (o : Bool) (pk : PolyKind) (m : Nat) (h : List Op) (k : QKind) :
    (runV Fixes.all (State.init Fixes.all n o pk m) (h ++ [.tcall k])).2 =
      (runSpec (abs (State.init Fixes.all n o pk m)) (h ++ [.tcall k])).2 :=
  fixed_answers_history_free n o pk m _

/-! ### non-vacuity: histories in which the target's state matters -/

def B : Shape := ⟨40, false⟩      -- a target shape with more edges than the inner brute-force threshold (30)
def S : Shape := ⟨6, false⟩       -- a small target shape

/-- a threshold call, then FindEdges with the same target object after its index grew: the second answer sees
    both target shapes through capBound (`cap`), through the inner search (`inner.edges`), with inner
    maxError = 0 although the call before ran with maxError = π -/
example : (outs Fixes.all 8 .normal
    [.add L, .newEQ Opts.default, .newTarget .index [B], .tcall (.isDistanceLess 10), .tadd S, .tcall .findEdges]).getLast? =
    some (.eq ⟨⟨.list, some [0], [0], 2147483647, .infinity, .zero⟩,
            some ⟨some [0, 1], some [0, 1], ⟨1, .infinity, .zero, true, false⟩,
                  some ⟨.single, some [0, 1], [0, 1], 1, .infinity, .zero⟩⟩⟩ Opts.default) := by decide

/-- the hypotheses of `fixed_tcall_answer` are satisfiable: the state after `add, newEQ, newTarget` -/
example : ∃ s q t, SOK true s ∧ s.eq = some q ∧ s.tgt = some t ∧ t.kind = .index :=
  ⟨_, _, _, (run_fixed _ (sok_init Fixes.all 8 false .normal 8 true (fun _ => Or.inl rfl))
      [.add L, .newEQ Opts.default, .newTarget .index [B]]).2, rfl, rfl, rfl⟩

/-! ### D49 (repaired in /repo): the faithful old behaviour -/

/-- all repairs but D49 -/
def noD49 : Fixes := { Fixes.all with d49 := false }

/-- D49: IsDistanceLess, then FindEdges with the same target object: the target's own query still searches
    with maxError = π (`iopts.maxError`, `inner.maxError`); a fresh target searches with 0 -/
theorem current_D49_wrong :
    (outs noD49 8 .normal
      [.add L, .newEQ Opts.default, .newTarget .index [S], .tcall (.isDistanceLess 10), .tcall .findEdges]).getLast? =
      some (.eq ⟨⟨.list, some [0], [0], 2147483647, .infinity, .zero⟩,
              some ⟨some [0], some [0], ⟨1, .infinity, .straight, true, false⟩,
                    some ⟨.single, some [0], [0], 1, .infinity, .straight⟩⟩⟩ Opts.default) ∧
    (runSpec (abs (State.init noD49 8 false .normal 8))
      [.add L, .newEQ Opts.default, .newTarget .index [S], .tcall (.isDistanceLess 10), .tcall .findEdges]).2.getLast? =
      some (.eq ⟨⟨.list, some [0], [0], 2147483647, .infinity, .zero⟩,
              some ⟨some [0], some [0], ⟨1, .infinity, .zero, true, false⟩,
                    some ⟨.single, some [0], [0], 1, .infinity, .zero⟩⟩⟩ Opts.default) := by decide

theorem current_D49_not_history_free : ¬ AnswersHistoryFree noD49 := by
  intro h
  have := h 8 false .normal 8
    [.add L, .newEQ Opts.default, .newTarget .index [S], .tcall (.isDistanceLess 10), .tcall .findEdges]
  revert this; decide

theorem current_D49_options_not_fresh : ¬ TargetOptionsFresh noD49 := by
  intro h
  have := h 8 false .normal 8
    [.add L, .newEQ Opts.default, .newTarget .index [S], .tcall (.isDistanceLess 10)] _ rfl Opts.default
  revert this; decide

/-- a target that is used for ONE call only is not affected (what held before the repair) -/
theorem current_D49_partial_first_call (t : Target) (o : Opts) (hf : t.q.opts.maxError = Lim.zero) :
    t.effInner noD49 o = t.effInner Fixes.all o := by
  simp only [Target.effInner, Target.setMaxError, noD49, Fixes.all]
  by_cases h : o.maxError = Lim.zero
  · simp [h, hf]
  · simp [h]

example : (Target.new .index [S]).q.opts.maxError = Lim.zero := rfl

/-! ### D51 (open on the current tree): the covering cached by the target's own query -/

/-- D51: Distance with a target whose index has more than 30 edges, a shape added to the target's index,
    Distance again with the same target object: capBound sees both target shapes (`cap = [0, 1]`), the inner
    search only the first (`inner.edges = [0]`: the covering of the target's index cached by the first call) -/
theorem current_D51_wrong :
    (outs Fixes.tree 8 .normal
      [.add L, .newEQ Opts.default, .newTarget .index [B], .tcall .distance, .tadd S, .tcall .distance]).getLast? =
      some (.eq ⟨⟨.dist, some [0], [0], 1, .infinity, .zero⟩,
              some ⟨some [0, 1], some [0, 1], ⟨1, .infinity, .zero, true, false⟩,
                    some ⟨.single, some [0, 1], [0], 1, .infinity, .zero⟩⟩⟩ Opts.default) ∧
    (runSpec (abs (State.init Fixes.tree 8 false .normal 8))
      [.add L, .newEQ Opts.default, .newTarget .index [B], .tcall .distance, .tadd S, .tcall .distance]).2.getLast? =
      some (.eq ⟨⟨.dist, some [0], [0], 1, .infinity, .zero⟩,
              some ⟨some [0, 1], some [0, 1], ⟨1, .infinity, .zero, true, false⟩,
                    some ⟨.single, some [0, 1], [0, 1], 1, .infinity, .zero⟩⟩⟩ Opts.default) := by decide

theorem tree_not_history_free : ¬ AnswersHistoryFree Fixes.tree := by
  intro h
  have := h 8 false .normal 8
    [.add L, .newEQ Opts.default, .newTarget .index [B], .tcall .distance, .tadd S, .tcall .distance]
  revert this; decide

/-- D51 needs the inner optimized path: with a small target index (at most 30 edges at its first use) the inner
    query counts the edges once, stays on the brute-force path for ever and sees every later shape -/
theorem tree_D51_small_target_ok :
    outs Fixes.tree 8 .normal
      [.add L, .newEQ Opts.default, .newTarget .index [S], .tcall .distance, .tadd B, .tcall .distance] =
    (runSpec (abs (State.init Fixes.tree 8 false .normal 8))
      [.add L, .newEQ Opts.default, .newTarget .index [S], .tcall .distance, .tadd B, .tcall .distance]).2 := by decide

/-- the options part of the property does hold on the current tree (D49 is repaired there) -/
theorem tree_target_options_fresh_partial (t : Target)
    (hii : t.q.opts.includeInteriors = t.q.user.includeInteriors) (hbf : t.q.opts.useBruteForce = t.q.user.useBruteForce)
    (o : Opts) : t.effInner Fixes.tree o = (freshLike t).effInner Fixes.tree o := by
  simp [Target.effInner, Target.setMaxError, Fixes.tree, freshLike, Target.configure, Target.new, EQ.new,
    Opts.default, hii, hbf]

example : (Target.new .index [S]).q.opts.includeInteriors = (Target.new .index [S]).q.user.includeInteriors := rfl

end S2Proofs.C13
