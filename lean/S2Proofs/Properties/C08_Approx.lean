/-
  C08 (continued) — approximate targets (targets that USE MaxError: shape-index targets),
  furthest-edge queries, threshold calls.

  Model: `S2.EdgeQueryM` (unchanged).  Hypotheses: `DistOrder`, `SubLaws`, `SubMono` (proved for
  both distance types) and `WorldApprox I err w d` — the target's `updateDistanceToEdge` returns a
  value within the limit, not below the true distance `d e` and above it by at most `err`; "not ok"
  is exact; `updateDistanceToCell` may overestimate by `err`; the initial cells are complete.
  An exact world is an approximate world for every error (`exact_world_is_approx`), so everything
  below also covers point / edge / cell targets.

  (1) MaxResults ≠ 1 (`ApproxMultiSpec`, stated in `C08.lean`, is PROVED: `approxMultiSpec_proved`).
      The Go code never tightens the distance limit when MaxResults ≠ 1, hence every edge is tested
      against the limit of the options and the value reported for it is a function of the edge.
      * `approx_multi_answer`: the answer of either path is the post-processed list of interior
        results and per-edge contributions; `approx_multi_optimized_eq_bruteforce`: the optimized
        search with the duplicate filter (`testedEdges`) and conservative cell distances returns the
        same list as the brute-force scan without them — the filter loses nothing;
      * `approx_multi_topk` (`TopKWithin`): ≤ MaxResults entries, sorted, duplicate-free, one entry
        per edge key, every entry within the limit and within MaxError of its true distance; RANK:
        fewer than j+1 edges are truly closer than `reported_j − MaxError` (`approx_multi_rank_count`,
        `approx_multi_rank_sorted`: `reported_j − MaxError ≤ j-th smallest true distance`); k-BEST: an
        edge within the limit that is left out is not closer than `reported − MaxError` of any entry
        and then the answer is full.
  (2) The furthest-edge instance (`maxDist`: `less` is `>`, `zero` is 180°, `sub` adds) and the
      closest-edge instance written out over `Int`: `furthest_approx_multi_explicit`,
      `closest_approx_multi_explicit`, `furthest_single_explicit`; non-vacuity on the worlds
      `FurthestEx.wF`, `SingleEx1.w1` (optimized path really uses its queue).
  (3) MaxResults = 1 and threshold calls for approximate targets: `single_approx_spec`,
      `isDistanceLess_approx_iff_within`, `isDistanceLess_approx_iff_optimum`,
      `closest_isDistanceLess_explicit`, `furthest_isDistanceGreater_explicit`,
      `isConservativeDistanceLessOrEqual_approx`.  Observation (not a defect, proved harmless): for
      `IsDistanceGreater` on a furthest-edge query the Go code compares `maxError = Straight` with
      `distance().zero().chordAngle() = Straight` and therefore does NOT treat a shape-index target as
      approximate (`useConservativeCellDistance = false`) although the target was handed the error;
      the answer is right because any first hit lowers the limit to `zero` (side condition `hq`).
  (4) `rootsComplete` (a field of `WorldOK` / `WorldApprox`) for the unbounded search, DERIVED from
      the proved `initCovering_repaired_spec` and the completeness of the descent
      (`rootsComplete_unbounded_from_initCovering`); what remains a hypothesis there: the index holds
      every edge (C06) and, for finite limits, the covering of the search disc (C05 / C12).
  (5) Where `WorldApprox.approxEdge / approxEdgeNone` come from: `updateDistanceToEdge` of a shape-index
      target is a single-result search of the target's own query with an EXACT edge target; its
      contract follows from the proved MaxResults = 1 theorems
      (`shapeIndexTarget_updateDistanceToEdge_contract`).
-/
import S2Proofs.Properties.C08
import S2Proofs.EdgeQuery.SearchApproxMulti
import S2Proofs.EdgeQuery.SearchApproxRank
import S2Proofs.EdgeQuery.SearchApproxSingle
import S2Proofs.EdgeQuery.SearchApproxEx
import S2Proofs.EdgeQuery.RootsComplete
import S2Proofs.EdgeQuery.ShapeIndexTarget
set_option linter.unusedSectionVars false
namespace S2Proofs.C08
open S2 S2.EdgeQueryM S2Proofs.EdgeQuery

variable {D : Type} [DecidableEq D] {I : DistI D}

/-! ## (0) Exact worlds are approximate worlds -/

/-- a target that does not use MaxError satisfies the hypotheses made of one that does, for every
    permitted error: all theorems below specialise to exact targets -/
theorem exact_world_is_approx {w : World D} {d : EdgeKey → D} (O : DistOrder I) {err : D}
    (S : SubLaws I err) (H : WorldOK I w d) : WorldApprox I err w d :=
  H.toApprox O S

/-! ## (1) MaxResults ≠ 1 with an approximate target -/

section Multi
variable {o : Opts D} {w : World D} {d : EdgeKey → D}

/-- the result `maybeAddResult` appends for edge `e` at the distance limit of the options -/
abbrev edgeContribution (o : Opts D) (w : World D) (e : EdgeKey) : Option (Result D) :=
  ApproxMulti.hitA w o.distanceLimit e

/-- the answer of EITHER path (brute force / optimized, with or without duplicate filter, with or
    without conservative cell distances): interior results and the contribution of every edge of
    the index at the limit of the options, sorted, de-duplicated, cut at MaxResults -/
theorem approx_multi_answer (O : DistOrder I) (S : SubLaws I o.maxError)
    (A : WorldApprox I o.maxError w d) (hk : o.maxResults ≠ 1) (hz : o.distanceLimit ≠ I.zero)
    (hif : o.invertedFilter = false) :
    findEdges I o w = some (postProcess I o.maxResults
      (interiorResults I o w ++ w.allEdges.filterMap (edgeContribution o w))) :=
  ApproxMulti.findEdges_answer I o w d O S A hk hz hif

/-- THE DUPLICATE FILTER LOSES NOTHING: the optimized search (which for such a target runs with
    `avoidDuplicates` / `testedEdges` and conservative cell distances) returns the same list as the
    brute-force scan (which tests every edge exactly once) -/
theorem approx_multi_optimized_eq_bruteforce (O : DistOrder I) (S : SubLaws I o.maxError)
    (A : WorldApprox I o.maxError w d) (hk : o.maxResults ≠ 1) (hif : o.invertedFilter = false) :
    findEdges I { o with useBruteForce := false } { w with small := false } =
      findEdges I { o with useBruteForce := true } w :=
  ApproxMulti.opt_eq_brute I o w d O S A hk hif

/-- a zero distance limit returns nothing (first statement of `findEdgesInternal`) -/
theorem findEdges_zero_limit (hz : o.distanceLimit = I.zero) : findEdges I o w = some [] := by
  have hz' : (o.distanceLimit == I.zero) = true := by simpa using hz
  unfold findEdges findEdgesInternal
  simp only [hz', if_true, Option.map_some]
  simp [postProcess, sortAndUniqueResults]

/-- THE DOCUMENTED SEMANTICS of `MaxResults = k`, `MaxError = ε` for a target that uses ε -/
structure TopKWithin (I : DistI D) (o : Opts D) (w : World D) (d : EdgeKey → D)
    (rs : List (Result D)) : Prop where
  /-- at most `k` entries -/
  length_le : rs.length ≤ o.maxResults
  /-- strictly increasing in (distance, shape, edge) -/
  sorted : rs.Pairwise (fun a b => Result.less I a b = true)
  nodup : rs.Nodup
  /-- at most one entry per edge of the index -/
  key_unique : ∀ r ∈ rs, ∀ r' ∈ rs, 0 ≤ r.edge → r.shape = r'.shape → r.edge = r'.edge → r = r'
  /-- an entry is an interior result or an edge of the index; its distance is within the limit, not
      below the true distance and above it by at most ε -/
  sound : ∀ r ∈ rs,
    (o.includeInteriors = true ∧ r.dist = I.zero ∧ r.edge = -1 ∧ r.shape ∈ w.interiors) ∨
    (∃ e ∈ w.allEdges, r.shape = e.shape ∧ r.edge = e.edge ∧
      I.less r.dist o.distanceLimit = true ∧ I.less r.dist (d e) = false ∧
      I.less (d e) (I.sub r.dist o.maxError) = false)
  /-- RANK: fewer than `j+1` distinct edges are truly closer than `reported_j − ε` -/
  rank : ∀ (j : Nat) (hj : j < rs.length) (es : List EdgeKey), es.Nodup →
    (∀ e ∈ es, e ∈ w.allEdges ∧ I.less (d e) (I.sub rs[j].dist o.maxError) = true) → es.length ≤ j
  /-- k-BEST up to ε: an edge within the limit is reported, or the answer is full and the edge is
      not closer than `reported − ε` for any entry -/
  kbest : ∀ e ∈ w.allEdges, I.less (d e) o.distanceLimit = true →
    (∃ r ∈ rs, r.shape = e.shape ∧ r.edge = e.edge) ∨
    (rs.length = o.maxResults ∧ ∀ r ∈ rs, I.less (d e) (I.sub r.dist o.maxError) = false)

/-- MAIN THEOREM of (1): whatever path is taken, the answer has the documented semantics -/
theorem approx_multi_topk (O : DistOrder I) (S : SubLaws I o.maxError) (M : SubMono I o.maxError)
    (A : WorldApprox I o.maxError w d) (hk : o.maxResults ≠ 1) (hif : o.invertedFilter = false)
    {rs : List (Result D)} (h : findEdges I o w = some rs) : TopKWithin I o w d rs := by
  by_cases hz : o.distanceLimit = I.zero
  · rw [findEdges_zero_limit hz] at h
    cases h
    refine ⟨Nat.zero_le _, List.Pairwise.nil, List.nodup_nil, ?_, ?_, ?_, ?_⟩
    · intro r hr; cases hr
    · intro r hr; cases hr
    · intro j hj; cases hj
    · intro e _ hl
      rw [hz, A.zeroMin] at hl; cases hl
  · rw [approx_multi_answer O S A hk hz hif] at h
    have hrs : rs = postProcess I o.maxResults
        (ApproxMulti.raw w o.distanceLimit (interiorResults I o w)) := (Option.some.inj h).symm
    have hR0 : ∀ r ∈ interiorResults I o w,
        o.includeInteriors = true ∧ r.dist = I.zero ∧ r.edge = -1 ∧ r.shape ∈ w.interiors := by
      intro r hr
      unfold interiorResults at hr
      split at hr
      · rename_i hi
        obtain ⟨sh, hsh, rfl⟩ := List.mem_map.1 hr
        exact ⟨hi, rfl, rfl, hsh⟩
      · cases hr
    refine ⟨?_, ?_, ?_, ?_, ?_, ?_, ?_⟩
    · rw [hrs]; exact post_length_le _ _
    · rw [hrs]; exact S2Proofs.EdgeQuery.post_sorted O _ _
    · rw [hrs]; exact S2Proofs.EdgeQuery.post_nodup O _ _
    · exact ApproxMulti.answer_key_unique (fun r hr => (hR0 r hr).2.2.1) hrs
    · intro r hr
      rcases ApproxMulti.answer_sound A hrs r hr with h0 | ⟨e, he, a, b, _, c, c', c''⟩
      · exact Or.inl (hR0 r h0)
      · exact Or.inr ⟨e, he, a, b, c, c', c''⟩
    · intro j hj es hnd hes
      exact ApproxMulti.rank_bound O S M A (fun r hr => (hR0 r hr).2.1) hrs j hj es hnd hes
    · intro e he hl
      exact ApproxMulti.answer_kbest O M A hrs he hl

/-- RANK, counting form (edge list of the index duplicate-free): at most `j` edges are truly closer
    than `reported_j − ε` -/
theorem approx_multi_rank_count (O : DistOrder I) (S : SubLaws I o.maxError)
    (M : SubMono I o.maxError) (A : WorldApprox I o.maxError w d) (hk : o.maxResults ≠ 1)
    (hif : o.invertedFilter = false) (hnd : w.allEdges.Nodup) {rs : List (Result D)}
    (h : findEdges I o w = some rs) (j : Nat) (hj : j < rs.length) :
    w.allEdges.countP (fun e => I.less (d e) (I.sub rs[j].dist o.maxError)) ≤ j := by
  rw [List.countP_eq_length_filter]
  apply (approx_multi_topk O S M A hk hif h).rank j hj _ (hnd.sublist List.filter_sublist)
  intro e he
  exact List.mem_filter.1 he

/-- RANK, sorted form: `reported_j − ε ≤ (j-th smallest TRUE distance)`, i.e. for each rank the
    reported distance is at most ε above the true distance of that rank -/
theorem approx_multi_rank_sorted (O : DistOrder I) (S : SubLaws I o.maxError)
    (M : SubMono I o.maxError) (A : WorldApprox I o.maxError w d) (hk : o.maxResults ≠ 1)
    (hif : o.invertedFilter = false) (hnd : w.allEdges.Nodup) {rs : List (Result D)}
    (h : findEdges I o w = some rs) (j : Nat) (hj : j < rs.length)
    (hj' : j < (ApproxMulti.trueSorted I w d).length) :
    I.less (ApproxMulti.trueSorted I w d)[j] (I.sub rs[j].dist o.maxError) = false := by
  by_cases hz : o.distanceLimit = I.zero
  · rw [findEdges_zero_limit hz] at h
    cases h; cases hj
  · rw [approx_multi_answer O S A hk hz hif] at h
    have hrs : rs = postProcess I o.maxResults
        (ApproxMulti.raw w o.distanceLimit (interiorResults I o w)) := (Option.some.inj h).symm
    have hR0 : ∀ r ∈ interiorResults I o w, r.dist = I.zero := by
      intro r hr
      unfold interiorResults at hr
      split at hr
      · obtain ⟨sh, _, rfl⟩ := List.mem_map.1 hr; rfl
      · cases hr
    exact ApproxMulti.rank_sorted O S M A hR0 hnd hrs j hj hj'

/-- RANK, TWO-SIDED (no interior results, duplicate-free edge list): for every rank `j`
    `true_j ≤ reported_j` and `reported_j − ε ≤ true_j`, where `true_j` is the `j`-th smallest TRUE
    distance over all edges of the index — the documented meaning of MaxError for MaxResults > 1 -/
theorem approx_multi_rank_two_sided (O : DistOrder I) (S : SubLaws I o.maxError)
    (M : SubMono I o.maxError) (A : WorldApprox I o.maxError w d) (hk : o.maxResults ≠ 1)
    (hif : o.invertedFilter = false) (hi : o.includeInteriors = false) (hnd : w.allEdges.Nodup)
    {rs : List (Result D)} (h : findEdges I o w = some rs) (j : Nat) (hj : j < rs.length)
    (hj' : j < (ApproxMulti.trueSorted I w d).length) :
    I.less rs[j].dist (ApproxMulti.trueSorted I w d)[j] = false ∧
    I.less (ApproxMulti.trueSorted I w d)[j] (I.sub rs[j].dist o.maxError) = false := by
  refine ⟨?_, approx_multi_rank_sorted O S M A hk hif hnd h j hj hj'⟩
  by_cases hz : o.distanceLimit = I.zero
  · rw [findEdges_zero_limit hz] at h
    cases h; cases hj
  · rw [approx_multi_answer O S A hk hz hif] at h
    have hR0 : interiorResults I o w = [] := by simp [interiorResults, hi]
    rw [hR0] at h
    have hrs : rs = postProcess I o.maxResults (ApproxMulti.raw w o.distanceLimit []) :=
      (Option.some.inj h).symm
    exact ApproxMulti.rank_sorted_lower O A hrs j hj hj'

/-- `ApproxMultiSpec` (stated in `C08.lean`, "not proved" there) HOLDS for every distance type with
    the order laws: with MaxResults ≥ the number of edges and no interiors, every edge within the
    limit is reported, and every entry is an edge of the index within MaxError of its true distance -/
theorem approxMultiSpec_proved (O : DistOrder I) (S : SubLaws I o.maxError) :
    ApproxMultiSpec I o w d := by
  intro A hk _ _ hi hif hall rs h
  have hk1 : o.maxResults ≠ 1 := by omega
  by_cases hz : o.distanceLimit = I.zero
  · rw [findEdges_zero_limit hz] at h
    cases h
    refine ⟨?_, fun r hr => by cases hr⟩
    intro e _ hl
    rw [hz, A.zeroMin] at hl; cases hl
  · rw [approx_multi_answer O S A hk1 hz hif] at h
    have hrs : rs = postProcess I o.maxResults
        (ApproxMulti.raw w o.distanceLimit (interiorResults I o w)) := (Option.some.inj h).symm
    have hR0 : interiorResults I o w = [] := by simp [interiorResults, hi]
    rw [hR0] at hrs
    have hmem := ApproxMulti.answer_all (R0 := []) O (by simpa using hall) hrs
    constructor
    · intro e he hl
      obtain ⟨r, hr, _⟩ := ApproxMulti.hit_of_within A hl
      obtain ⟨_, k1, k2⟩ := ApproxMulti.hitA_some hr
      exact ⟨r, (hmem r).2 (ApproxMulti.mem_raw.2 (Or.inr ⟨e, he, hr⟩)), k1, k2⟩
    · intro r hr
      rcases ApproxMulti.answer_sound A hrs r hr with h0 | ⟨e, he, a, b, _, _, c', c''⟩
      · cases h0
      · exact ⟨e, he, a, b, c', c''⟩

end Multi

/-! ### Non-vacuity of (1) -/

/-- closest, approximate target (overestimates by 3), MaxError 7, MaxResults 4: both paths -/
example : findEdges (minDist 1000) (SingleEx1.oC 4 1001 false false) SingleEx1.w1 =
    some [⟨23, 0, 5⟩, ⟨26, 0, 4⟩, ⟨29, 0, 3⟩, ⟨32, 0, 6⟩] := by decide
example : findEdges (minDist 1000) (SingleEx1.oC 4 1001 false true) SingleEx1.w1 =
    some [⟨23, 0, 5⟩, ⟨26, 0, 4⟩, ⟨29, 0, 3⟩, ⟨32, 0, 6⟩] := by decide
/-- limit 30: the edges at true distance 26 and 29 are BOTH reported at 29 (the overestimate
    depends on the limit), the interior result takes the first slot -/
example : findEdges (minDist 1000) (SingleEx1.oC 4 30 true false) SingleEx1.w1 =
    some [⟨0, 0, -1⟩, ⟨23, 0, 5⟩, ⟨26, 0, 4⟩, ⟨29, 0, 3⟩] := by decide
/-- the theorem applies: the hypotheses hold of this world and these options -/
example : TopKWithin (minDist 1000) (SingleEx1.oC 4 30 true false) SingleEx1.w1 SingleEx1.d1
    [⟨0, 0, -1⟩, ⟨23, 0, 5⟩, ⟨26, 0, 4⟩, ⟨29, 0, 3⟩] :=
  approx_multi_topk (o := SingleEx1.oC 4 30 true false) (minDist_order 1000)
    (minDist_sub 1000 7 (by omega)) (minDist_subMono 1000 7 (by omega)) SingleEx1.w1_ok
    (by decide) rfl (by decide)
example : SingleEx1.w1.allEdges.Nodup := SingleEx1.w1_nodup
/-- a world in which an edge key lies in TWO index cells (the duplicate filter is exercised): the
    exact world of `C08.lean`, seen as an approximate one -/
example : WorldApprox Example.I0 5 Example.w0 Example.d0 :=
  exact_world_is_approx (minDist_order 1000) (minDist_sub 1000 5 (by omega)) Example.w0_ok
example : findEdges Example.I0 (Example.oD9 false) Example.w0 =
    findEdges Example.I0 { Example.oD9 false with useBruteForce := true } Example.w0 :=
  approx_multi_optimized_eq_bruteforce (o := Example.oD9 false) (minDist_order 1000)
    (minDist_sub 1000 5 (by omega))
    (exact_world_is_approx (minDist_order 1000) (minDist_sub 1000 5 (by omega)) Example.w0_ok)
    (by decide) rfl

/-! ## (3a) MaxResults = 1 with an approximate target, generalised -/

section Single
variable {o : Opts D} {w : World D} {d : EdgeKey → D}

/-- MaxResults = 1 (`findEdge`, `Distance`), target that uses MaxError, either path: at most one
    result; it is an interior result or an edge reported within MaxError of its true distance;
    no edge is closer than `reported − MaxError`; nothing returned ⇒ nothing within the limit;
    interiors ⇒ distance zero.  `hq`: when the query's own flag says "target exact" although the
    target is approximate (furthest-edge query with MaxError = 180°, see the file header), every
    distance within the limit minus MaxError must be ≤ zero. -/
theorem single_approx_spec (O : DistOrder I) (S : SubLaws I o.maxError) (M : SubMono I o.maxError)
    (A : WorldApprox I o.maxError w d) (h1 : o.maxResults = 1)
    (hq : (o.maxError != I.zero && o.targetUsesMaxError) = false →
      ∀ x, I.less x I.zero = false → I.less x o.distanceLimit = true →
        I.less I.zero (I.sub x o.maxError) = false) {rs : List (Result D)}
    (h : findEdges I o w = some rs) : ApproxSingle.SingleSpec I o w d rs :=
  ApproxSingle.single_spec O S M A h1 hq h

/-- the side condition `hq` follows from `distanceLimit − MaxError ≤ zero` (the case the Go comment
    describes: "when distanceLimit < maxError … all remaining candidate cells can be discarded") -/
theorem single_hq_of_small_limit (O : DistOrder I) (M : SubMono I o.maxError)
    (h : I.less I.zero (I.sub o.distanceLimit o.maxError) = false) :
    ∀ x, I.less x I.zero = false → I.less x o.distanceLimit = true →
      I.less I.zero (I.sub x o.maxError) = false :=
  ApproxSingle.hq_of_limit O M h

end Single

/-! ## (3b) Threshold calls with approximate targets -/

section Threshold
variable {o : Opts D} {w : World D} {d : EdgeKey → D}

/-- `IsDistanceLess(t)` (and `IsDistanceGreater(t)` of a furthest query, which delegates to it) with
    a target that uses the error `straight` it is handed — its `updateDistanceToEdge` may return
    ANY value between the true distance and the limit: the answer is exactly "the target is inside
    an indexed polygon (interiors included) or some edge is truly within `t`" -/
theorem isDistanceLess_approx_iff_within (O : DistOrder I) {straight t : D}
    (A : WorldApprox I straight w d) (Sst : SubLaws I straight) (Mst : SubMono I straight)
    (hq : (straight != I.zero && o.targetUsesMaxError) = false →
      ∀ x, I.less x I.zero = false → I.less x t = true → I.less I.zero (I.sub x straight) = false)
    (hsh : ∀ e ∈ w.allEdges, 0 ≤ e.shape) (hin : ∀ sh ∈ w.interiors, 0 ≤ sh)
    {b : Bool} (hb : isDistanceLess I straight o w t = some b) :
    (b = true ↔ Within I o w d t) :=
  ApproxSingle.isDistanceLess_spec_approx O A Sst Mst hq hsh hin hb

/-- … hence it answers exactly `optimum < t`, where `optimum` is the TRUE distance (`DistSpec`: what
    an exact unbounded search returns: zero inside a polygon, else the minimum over all edges, else
    infinity) -/
theorem isDistanceLess_approx_iff_optimum (O : DistOrder I) {straight t : D}
    (A : WorldApprox I straight w d) (Sst : SubLaws I straight) (Mst : SubMono I straight)
    (hq : (straight != I.zero && o.targetUsesMaxError) = false →
      ∀ x, I.less x I.zero = false → I.less x t = true → I.less I.zero (I.sub x straight) = false)
    (hlim : o.distanceLimit = I.infinity)
    (hinf : I.less I.zero I.infinity = true) (ht1 : I.less I.infinity t = false)
    (ht0 : I.less t I.zero = false)
    (hsh : ∀ e ∈ w.allEdges, 0 ≤ e.shape) (hin : ∀ sh ∈ w.interiors, 0 ≤ sh)
    {b : Bool} {optimum : D} (hb : isDistanceLess I straight o w t = some b)
    (hd : DistSpec I o w d optimum) : (b = true ↔ I.less optimum t = true) :=
  ApproxSingle.isDistanceLess_iff_approx O A Sst Mst hq hlim hinf ht1 ht0 hsh hin hb hd

/-- `IsConservativeDistanceLessOrEqual(target, limit)` =
    `IsDistanceLess(target, limit.Expanded(minUpdateDistanceMaxError(limit)))`
    (`IsConservativeDistanceGreaterOrEqual` likewise on a furthest query, with `Expanded(−…)`);
    `expanded` is that expanded threshold as a distance -/
def isConservativeDistanceLessOrEqual (I : DistI D) (straight : D) (o : Opts D) (w : World D)
    (expanded : D) : Option Bool :=
  isDistanceLess I straight o w expanded

/-- it answers exactly "something is truly within the EXPANDED threshold"; in particular it is
    conservative: if some edge is at true distance ≤ `limit` and `limit < expanded`, it says yes -/
theorem isConservativeDistanceLessOrEqual_approx (O : DistOrder I) {straight limit expanded : D}
    (A : WorldApprox I straight w d) (Sst : SubLaws I straight) (Mst : SubMono I straight)
    (hq : (straight != I.zero && o.targetUsesMaxError) = false →
      ∀ x, I.less x I.zero = false → I.less x expanded = true →
        I.less I.zero (I.sub x straight) = false)
    (hsh : ∀ e ∈ w.allEdges, 0 ≤ e.shape) (hin : ∀ sh ∈ w.interiors, 0 ≤ sh)
    {b : Bool} (hb : isConservativeDistanceLessOrEqual I straight o w expanded = some b) :
    (b = true ↔ Within I o w d expanded) ∧
    (I.less limit expanded = true → (∃ e ∈ w.allEdges, I.less limit (d e) = false) → b = true) := by
  have hiff := ApproxSingle.isDistanceLess_spec_approx O A Sst Mst hq hsh hin hb
  refine ⟨hiff, ?_⟩
  rintro hle ⟨e, he, hde⟩
  rw [hiff]
  have hlt : I.less (d e) expanded = true := Single.ord_lt_of_le_of_lt O hde hle
  refine ⟨?_, Or.inr ⟨e, he, hlt⟩⟩
  intro h0
  rw [h0, A.zeroMin] at hlt; cases hlt

end Threshold

/-! ## (2) The two instances written out over `Int` -/

/-- `EdgeQueryResult.Less` of a closest-edge query -/
theorem resultLess_minDist (top : Int) (a b : Result Int) :
    Result.less (minDist top) a b = true ↔
      a.dist < b.dist ∨ (a.dist = b.dist ∧ (a.shape < b.shape ∨ (a.shape = b.shape ∧ a.edge < b.edge))) := by
  unfold Result.less
  by_cases h1 : a.dist = b.dist <;> by_cases h2 : a.shape = b.shape <;>
    simp [h1, h2, minDist]

/-- `EdgeQueryResult.Less` of a furthest-edge query: LARGER distances first -/
theorem resultLess_maxDist (top : Int) (a b : Result Int) :
    Result.less (maxDist top) a b = true ↔
      a.dist > b.dist ∨ (a.dist = b.dist ∧ (a.shape < b.shape ∨ (a.shape = b.shape ∧ a.edge < b.edge))) := by
  unfold Result.less
  by_cases h1 : a.dist = b.dist <;> by_cases h2 : a.shape = b.shape <;>
    simp [h1, h2, maxDist]

section Explicit
variable {o : Opts Int} {w : World Int} {d : EdgeKey → Int}

/-- CLOSEST-edge query, MaxResults = k ≠ 1, MaxError = ε ≥ 0, target that uses ε, either path:
    ≤ k entries; increasing in (distance, shape, edge); every entry is an interior result (distance
    0) or an edge with `true ≤ reported ≤ true + ε`, `reported < limit`; for every rank `j` at most
    `j` edges have `true < reported_j − ε`; an unreported edge within the limit has
    `reported ≤ true + ε` for every entry and the answer is full -/
theorem closest_approx_multi_explicit (top : Int) (herr : 0 ≤ o.maxError)
    (A : WorldApprox (minDist top) o.maxError w d) (hk : o.maxResults ≠ 1)
    (hif : o.invertedFilter = false) (hnd : w.allEdges.Nodup) {rs : List (Result Int)}
    (h : findEdges (minDist top) o w = some rs) :
    rs.length ≤ o.maxResults ∧
    rs.Pairwise (fun a b => a.dist < b.dist ∨
      (a.dist = b.dist ∧ (a.shape < b.shape ∨ (a.shape = b.shape ∧ a.edge < b.edge)))) ∧
    (∀ r ∈ rs,
      (o.includeInteriors = true ∧ r.dist = 0 ∧ r.edge = -1 ∧ r.shape ∈ w.interiors) ∨
      (∃ e ∈ w.allEdges, r.shape = e.shape ∧ r.edge = e.edge ∧ r.dist < o.distanceLimit ∧
        d e ≤ r.dist ∧ r.dist ≤ d e + o.maxError)) ∧
    (∀ (j : Nat) (hj : j < rs.length),
      (w.allEdges.filter (fun e => decide (d e < rs[j].dist - o.maxError))).length ≤ j) ∧
    (∀ e ∈ w.allEdges, d e < o.distanceLimit →
      (∃ r ∈ rs, r.shape = e.shape ∧ r.edge = e.edge) ∨
      (rs.length = o.maxResults ∧ ∀ r ∈ rs, r.dist ≤ d e + o.maxError)) := by
  have T := approx_multi_topk (minDist_order top) (minDist_sub top _ herr)
    (minDist_subMono top _ herr) A hk hif h
  refine ⟨T.length_le, T.sorted.imp (fun {a b} hab => (resultLess_minDist top a b).1 hab), ?_, ?_, ?_⟩
  · intro r hr
    rcases T.sound r hr with h0 | ⟨e, he, a, b, c, c', c''⟩
    · exact Or.inl h0
    · refine Or.inr ⟨e, he, a, b, by simpa [minDist] using c, by simpa [minDist] using c', ?_⟩
      have h1 := minDist_sub_ge top r.dist o.maxError herr
      have h2 : ¬ d e < (minDist top).sub r.dist o.maxError := by simpa [minDist] using c''
      omega
  · intro j hj
    apply T.rank j hj _ (hnd.sublist List.filter_sublist)
    intro e he
    obtain ⟨he1, he2⟩ := List.mem_filter.1 he
    refine ⟨he1, ?_⟩
    have h1 := minDist_sub_ge top rs[j].dist o.maxError herr
    have h2 : d e < rs[j].dist - o.maxError := by simpa using he2
    show decide (d e < (minDist top).sub rs[j].dist o.maxError) = true
    simp only [decide_eq_true_eq]; omega
  · intro e he hl
    rcases T.kbest e he (by simpa [minDist] using hl) with h0 | ⟨h1, h2⟩
    · exact Or.inl h0
    · refine Or.inr ⟨h1, fun r hr => ?_⟩
      have h3 := minDist_sub_ge top r.dist o.maxError herr
      have h4 : ¬ d e < (minDist top).sub r.dist o.maxError := by simpa [minDist] using h2 r hr
      omega

/-- FURTHEST-edge query (`NewFurthestEdgeQuery`), MaxResults = k ≠ 1, MaxError = ε ≥ 0, target that
    uses ε (`MaxDistanceToShapeIndexTarget`), either path: ≤ k entries; DEcreasing in distance (then
    shape, edge); every entry is an interior result (distance 180° = `top`) or an edge with
    `true − ε ≤ reported ≤ true`, `reported > limit`; for every rank `j` at most `j` edges have
    `true > reported_j + ε`; an unreported edge beyond the limit has `true ≤ reported + ε` for every
    entry and the answer is full -/
theorem furthest_approx_multi_explicit (top : Int) (herr : 0 ≤ o.maxError)
    (A : WorldApprox (maxDist top) o.maxError w d) (hk : o.maxResults ≠ 1)
    (hif : o.invertedFilter = false) (hnd : w.allEdges.Nodup) {rs : List (Result Int)}
    (h : findEdges (maxDist top) o w = some rs) :
    rs.length ≤ o.maxResults ∧
    rs.Pairwise (fun a b => a.dist > b.dist ∨
      (a.dist = b.dist ∧ (a.shape < b.shape ∨ (a.shape = b.shape ∧ a.edge < b.edge)))) ∧
    (∀ r ∈ rs,
      (o.includeInteriors = true ∧ r.dist = top ∧ r.edge = -1 ∧ r.shape ∈ w.interiors) ∨
      (∃ e ∈ w.allEdges, r.shape = e.shape ∧ r.edge = e.edge ∧ r.dist > o.distanceLimit ∧
        r.dist ≤ d e ∧ d e ≤ r.dist + o.maxError)) ∧
    (∀ (j : Nat) (hj : j < rs.length),
      (w.allEdges.filter (fun e => decide (d e > rs[j].dist + o.maxError))).length ≤ j) ∧
    (∀ e ∈ w.allEdges, d e > o.distanceLimit →
      (∃ r ∈ rs, r.shape = e.shape ∧ r.edge = e.edge) ∨
      (rs.length = o.maxResults ∧ ∀ r ∈ rs, d e ≤ r.dist + o.maxError)) := by
  have T := approx_multi_topk (maxDist_order top) (maxDist_sub top _ herr)
    (maxDist_subMono top _ herr) A hk hif h
  refine ⟨T.length_le, T.sorted.imp (fun {a b} hab => (resultLess_maxDist top a b).1 hab), ?_, ?_, ?_⟩
  · intro r hr
    rcases T.sound r hr with h0 | ⟨e, he, a, b, c, c', c''⟩
    · exact Or.inl h0
    · refine Or.inr ⟨e, he, a, b, by simpa [maxDist] using c, by simpa [maxDist] using c', ?_⟩
      have h1 := maxDist_sub_le top r.dist o.maxError herr
      have h2 : ¬ d e > (maxDist top).sub r.dist o.maxError := by simpa [maxDist] using c''
      omega
  · intro j hj
    apply T.rank j hj _ (hnd.sublist List.filter_sublist)
    intro e he
    obtain ⟨he1, he2⟩ := List.mem_filter.1 he
    refine ⟨he1, ?_⟩
    have h1 := maxDist_sub_le top rs[j].dist o.maxError herr
    have h2 : d e > rs[j].dist + o.maxError := by simpa using he2
    show decide (d e > (maxDist top).sub rs[j].dist o.maxError) = true
    simp only [decide_eq_true_eq]; omega
  · intro e he hl
    rcases T.kbest e he (by simpa [maxDist] using hl) with h0 | ⟨h1, h2⟩
    · exact Or.inl h0
    · refine Or.inr ⟨h1, fun r hr => ?_⟩
      have h3 := maxDist_sub_le top r.dist o.maxError herr
      have h4 : ¬ d e > (maxDist top).sub r.dist o.maxError := by simpa [maxDist] using h2 r hr
      omega

/-- CLOSEST-edge query, two-sided rank statement over `Int`: with `true_0 ≤ true_1 ≤ …` the true
    distances of all edges in increasing order, `true_j ≤ reported_j ≤ true_j + ε` for every rank -/
theorem closest_rank_explicit (top : Int) (herr : 0 ≤ o.maxError)
    (A : WorldApprox (minDist top) o.maxError w d) (hk : o.maxResults ≠ 1)
    (hif : o.invertedFilter = false) (hi : o.includeInteriors = false) (hnd : w.allEdges.Nodup)
    {rs : List (Result Int)} (h : findEdges (minDist top) o w = some rs) (j : Nat)
    (hj : j < rs.length) (hj' : j < (ApproxMulti.trueSorted (minDist top) w d).length) :
    (ApproxMulti.trueSorted (minDist top) w d)[j] ≤ rs[j].dist ∧
    rs[j].dist ≤ (ApproxMulti.trueSorted (minDist top) w d)[j] + o.maxError := by
  obtain ⟨h1, h2⟩ := approx_multi_rank_two_sided (minDist_order top) (minDist_sub top _ herr)
    (minDist_subMono top _ herr) A hk hif hi hnd h j hj hj'
  have h3 := minDist_sub_ge top rs[j].dist o.maxError herr
  have h1' : ¬ rs[j].dist < (ApproxMulti.trueSorted (minDist top) w d)[j] := by
    simpa [minDist] using h1
  have h2' : ¬ (ApproxMulti.trueSorted (minDist top) w d)[j] < (minDist top).sub rs[j].dist o.maxError := by
    simpa [minDist] using h2
  omega

/-- FURTHEST-edge query, two-sided rank statement over `Int`: with `true_0 ≥ true_1 ≥ …` the true
    distances of all edges in DEcreasing order, `true_j − ε ≤ reported_j ≤ true_j` for every rank -/
theorem furthest_rank_explicit (top : Int) (herr : 0 ≤ o.maxError)
    (A : WorldApprox (maxDist top) o.maxError w d) (hk : o.maxResults ≠ 1)
    (hif : o.invertedFilter = false) (hi : o.includeInteriors = false) (hnd : w.allEdges.Nodup)
    {rs : List (Result Int)} (h : findEdges (maxDist top) o w = some rs) (j : Nat)
    (hj : j < rs.length) (hj' : j < (ApproxMulti.trueSorted (maxDist top) w d).length) :
    rs[j].dist ≤ (ApproxMulti.trueSorted (maxDist top) w d)[j] ∧
    (ApproxMulti.trueSorted (maxDist top) w d)[j] ≤ rs[j].dist + o.maxError := by
  obtain ⟨h1, h2⟩ := approx_multi_rank_two_sided (maxDist_order top) (maxDist_sub top _ herr)
    (maxDist_subMono top _ herr) A hk hif hi hnd h j hj hj'
  have h3 := maxDist_sub_le top rs[j].dist o.maxError herr
  have h1' : ¬ rs[j].dist > (ApproxMulti.trueSorted (maxDist top) w d)[j] := by
    simpa [maxDist] using h1
  have h2' : ¬ (ApproxMulti.trueSorted (maxDist top) w d)[j] > (maxDist top).sub rs[j].dist o.maxError := by
    simpa [maxDist] using h2
  omega

/-- FURTHEST-edge query, MaxResults = 1 (`FindEdge`, `Distance`), MaxError = ε with 0 ≤ ε ≠ 180°,
    target that uses ε, either path: at most one result; NO edge is further than `reported + ε`;
    the result is an interior result or an edge with `true − ε ≤ reported ≤ true`; no result ⇒ no
    edge is beyond the limit -/
theorem furthest_single_explicit (top : Int) (herr : 0 ≤ o.maxError) (hne : o.maxError ≠ top)
    (A : WorldApprox (maxDist top) o.maxError w d) (h1 : o.maxResults = 1)
    (hU : o.targetUsesMaxError = true) {rs : List (Result Int)}
    (h : findEdges (maxDist top) o w = some rs) :
    rs.length ≤ 1 ∧
    (∀ r ∈ rs, ∀ e ∈ w.allEdges, d e ≤ r.dist + o.maxError) ∧
    (∀ r ∈ rs,
      (o.includeInteriors = true ∧ r.dist = top ∧ r.edge = -1 ∧ r.shape ∈ w.interiors) ∨
      (∃ e ∈ w.allEdges, r.shape = e.shape ∧ r.edge = e.edge ∧ r.dist > o.distanceLimit ∧
        r.dist ≤ d e ∧ d e ≤ r.dist + o.maxError)) ∧
    (rs = [] → ∀ e ∈ w.allEdges, d e ≤ o.distanceLimit) := by
  have hq : (o.maxError != (maxDist top).zero && o.targetUsesMaxError) = false →
      ∀ x, (maxDist top).less x (maxDist top).zero = false → (maxDist top).less x o.distanceLimit = true →
        (maxDist top).less (maxDist top).zero ((maxDist top).sub x o.maxError) = false := by
    intro hc
    exfalso
    have : (maxDist top).zero = top := rfl
    rw [hU, this] at hc
    simp only [Bool.and_true, bne_eq_false_iff_eq] at hc
    exact hne hc
  have T := single_approx_spec (maxDist_order top) (maxDist_sub top _ herr)
    (maxDist_subMono top _ herr) A h1 hq h
  refine ⟨T.length, ?_, ?_, ?_⟩
  · intro r hr e he
    have h3 := maxDist_sub_le top r.dist o.maxError herr
    have h4 : ¬ d e > (maxDist top).sub r.dist o.maxError := by simpa [maxDist] using T.optimal r hr e he
    omega
  · intro r hr
    rcases T.sound r hr with h0 | ⟨e, he, a, b, c, c', c''⟩
    · exact Or.inl h0
    · refine Or.inr ⟨e, he, a, b, by simpa [maxDist] using c, by simpa [maxDist] using c', ?_⟩
      have h3 := maxDist_sub_le top r.dist o.maxError herr
      have h4 : ¬ d e > (maxDist top).sub r.dist o.maxError := by simpa [maxDist] using c''
      omega
  · intro hnil e he
    simpa [maxDist] using T.complete hnil e he

/-- CLOSEST-edge query: `IsDistanceLess(target, t)` with a shape-index target (which is handed
    MaxError = 180° = `top` and may report any value between the true distance and the limit)
    answers exactly "interior hit, or some edge at TRUE distance < t", for 0-or-more `t ≤ Infinity` -/
theorem closest_isDistanceLess_explicit (top t : Int) (h0 : 0 ≤ top) (ht : t ≤ top + 1)
    (A : WorldApprox (minDist top) top w d)
    (hsh : ∀ e ∈ w.allEdges, 0 ≤ e.shape) (hin : ∀ sh ∈ w.interiors, 0 ≤ sh)
    {b : Bool} (hb : isDistanceLess (minDist top) top o w t = some b) :
    (b = true ↔ t ≠ 0 ∧ ((o.includeInteriors = true ∧ w.interiors ≠ []) ∨ ∃ e ∈ w.allEdges, d e < t)) := by
  have := isDistanceLess_approx_iff_within (minDist_order top) A (minDist_sub top top h0)
    (minDist_subMono top top h0) (fun _ => minDist_hq top t ht) hsh hin hb
  rw [this]
  simp [Within, minDist]

/-- FURTHEST-edge query: `IsDistanceGreater(target, t)` with a `MaxDistanceToShapeIndexTarget`
    answers exactly "interior hit, or some edge at TRUE distance > t", for every threshold
    `t ≥ Negative (= −1)`.  Here the query's own flag `targetUsesMaxError` is FALSE
    (`maxError = Straight = zero().chordAngle()`), see the file header. -/
theorem furthest_isDistanceGreater_explicit (top t : Int) (h0 : 0 ≤ top) (ht : -1 ≤ t)
    (A : WorldApprox (maxDist top) top w d)
    (hsh : ∀ e ∈ w.allEdges, 0 ≤ e.shape) (hin : ∀ sh ∈ w.interiors, 0 ≤ sh)
    {b : Bool} (hb : isDistanceLess (maxDist top) top o w t = some b) :
    (b = true ↔ t ≠ top ∧ ((o.includeInteriors = true ∧ w.interiors ≠ []) ∨ ∃ e ∈ w.allEdges, d e > t)) := by
  have := isDistanceLess_approx_iff_within (maxDist_order top) A (maxDist_sub top top h0)
    (maxDist_subMono top top h0) (fun _ => maxDist_hq top t ht) hsh hin hb
  rw [this]
  simp [Within, maxDist]

end Explicit

/-! ### Non-vacuity of (2), (3) -/

/-- furthest, target underestimates by 3, MaxError 7, MaxResults 4: both paths (true distances of
    the four furthest edges: 980, 977, 974, 971) -/
example : findEdges (maxDist 1000) (FurthestEx.oF 4 (-1) false false) FurthestEx.wF =
    some [⟨977, 0, 5⟩, ⟨974, 0, 4⟩, ⟨971, 0, 3⟩, ⟨968, 0, 6⟩] := by decide
example : findEdges (maxDist 1000) (FurthestEx.oF 4 (-1) false true) FurthestEx.wF =
    some [⟨977, 0, 5⟩, ⟨974, 0, 4⟩, ⟨971, 0, 3⟩, ⟨968, 0, 6⟩] := by decide +kernel
/-- with a limit (only distances > 970) and interiors (reported at 180° = 1000, first) -/
example : findEdges (maxDist 1000) (FurthestEx.oF 4 970 true false) FurthestEx.wF =
    some [⟨1000, 0, -1⟩, ⟨977, 0, 5⟩, ⟨974, 0, 4⟩, ⟨971, 0, 3⟩] := by decide
/-- MaxResults = 1 -/
example : findEdges (maxDist 1000) (FurthestEx.oF 1 (-1) false false) FurthestEx.wF =
    some [⟨980, 0, 5⟩] := by decide
example : WorldApprox (maxDist 1000) 7 FurthestEx.wF FurthestEx.dF := FurthestEx.wF_ok
example : FurthestEx.wF.allEdges.Nodup := FurthestEx.wF_nodup
example : SubMono (maxDist 1000) 7 := maxDist_subMono 1000 7 (by decide)
/-- the explicit furthest theorem applies to these options and this world -/
example := furthest_approx_multi_explicit (o := FurthestEx.oF 4 970 true false) 1000 (by decide)
  FurthestEx.wF_ok (by decide) rfl FurthestEx.wF_nodup
  (rs := [⟨1000, 0, -1⟩, ⟨977, 0, 5⟩, ⟨974, 0, 4⟩, ⟨971, 0, 3⟩]) (by decide)
example := furthest_single_explicit (o := FurthestEx.oF 1 (-1) false false) 1000 (by decide) (by decide)
  FurthestEx.wF_ok rfl rfl (rs := [⟨980, 0, 5⟩]) (by decide)

/-- the true distances in the order of the query: closest increasing, furthest decreasing; the
    reported lists above are within 3 ≤ 7 of them rank by rank -/
example : (ApproxMulti.trueSorted (minDist 1000) SingleEx1.w1 SingleEx1.d1).take 4 = [20, 23, 26, 29] := by
  decide
example : (ApproxMulti.trueSorted (maxDist 1000) FurthestEx.wF FurthestEx.dF).take 4 = [980, 977, 974, 971] := by
  decide

/-- threshold calls with the sloppiest targets the contract allows (true closest distance 20, true
    furthest distance 980): exact answers on both paths -/
example : [0, 20, 21, 1001].map (isDistanceLess (minDist 1000) 1000 (SloppyEx.oT 1001 false false) SloppyEx.wC) =
    [some false, some false, some true, some true] := by decide
example : [0, 20, 21, 1001].map (isDistanceLess (minDist 1000) 1000 (SloppyEx.oT 1001 false true) SloppyEx.wC) =
    [some false, some false, some true, some true] := by decide
example : [-1, 0, 979, 980, 1000].map (isDistanceLess (maxDist 1000) 1000 (SloppyEx.oT (-1) false false) SloppyEx.wF) =
    [some true, some true, some true, some false, some false] := by decide
example : [-1, 0, 979, 980, 1000].map (isDistanceLess (maxDist 1000) 1000 (SloppyEx.oT (-1) false true) SloppyEx.wF) =
    [some true, some true, some true, some false, some false] := by decide +kernel
/-- interiors included: inside a polygon the furthest distance is 180°, greater than every t < 180° -/
example : [979, 980, 999, 1000].map (isDistanceLess (maxDist 1000) 1000 (SloppyEx.oT (-1) true false) SloppyEx.wF) =
    [some true, some true, some true, some false] := by decide
example : WorldApprox (minDist 1000) 1000 SloppyEx.wC SingleEx1.d1 := SloppyEx.wC_ok
example : WorldApprox (maxDist 1000) 1000 SloppyEx.wF FurthestEx.dF := SloppyEx.wF_ok
/-- the furthest threshold search stops after ONE hit with limit `zero` (= 1000); the value it
    reports (980 = limit + 1) is the sloppy one -/
example : (findEdgesInternal (maxDist 1000)
      { SloppyEx.oT (-1) false false with maxResults := 1, distanceLimit := 979, maxError := 1000 }
      SloppyEx.wF).map (fun s => (s.results, s.limit)) = some ([⟨980, 0, 5⟩], 1000) := by decide
/-- the observation of the file header: for the furthest threshold call the query's flag is off -/
example : ((1000 : Int) != (maxDist 1000).zero && true) = false := by decide
example : ((1000 : Int) != (minDist 1000).zero && true) = true := by decide

/-! ## (4) `rootsComplete` for the unbounded search, from `initCovering` -/

/-- Let the index be a sorted list of pairwise disjoint valid cells with their clipped edges, let
    `cov` be what `initCovering` computes for it, and let the cells `initQueue` starts from be the
    cell trees below the covering cells (`Roots.subtree`: index cells are leaves, any other cell has
    as kids its children — in the order 1, 0, 3, 2 — that contain an index cell; this is the case
    `distanceLimit = infinity` of `initQueue`).  If every edge of the index is stored in some index
    cell (C06), then EVERY edge is below the initial cells — `rootsComplete` whatever the distances
    — and, if index cells store only edges of the index, nothing else is (`rootsSound`). -/
theorem rootsComplete_unbounded_from_initCovering (ix : Roots.CIndex)
    (cd : CellID → D → Option D) (hok : IndexCellsOK (Roots.ids ix)) {cov : List (CellID × Bool)}
    (hcov : initCovering (Roots.ids ix) = some cov) (w : World D) (lim : D)
    (hroots : w.roots lim = Roots.coveringRoots ix cd cov)
    (hidx : ∀ e ∈ w.allEdges, ∃ x es, ix.lookup x = some es ∧ e ∈ es) :
    (∀ e ∈ w.allEdges, e ∈ edgesUnderList (w.roots lim)) ∧
    ((∀ x es, ix.lookup x = some es → ∀ e ∈ es, e ∈ w.allEdges) →
      ∀ e ∈ edgesUnderList (w.roots lim), e ∈ w.allEdges) := by
  rw [hroots]
  constructor
  · intro e he
    obtain ⟨x, es, hl, hes⟩ := hidx e he
    exact Roots.covering_roots_complete ix cd hok hcov hl e hes
  · intro hs e he
    obtain ⟨x, es, hl, hes⟩ := Roots.covering_roots_sound ix cd cov he
    exact hs x es hl e hes

/-- the covering always exists (`initCovering_repaired_spec`), so the theorem is never vacuous on a
    valid index -/
theorem initCovering_exists (ix : Roots.CIndex) (hok : IndexCellsOK (Roots.ids ix)) :
    ∃ cov, initCovering (Roots.ids ix) = some cov := by
  obtain ⟨cov, h, _⟩ := initCovering_repaired_spec (Roots.ids ix) hok
  exact ⟨cov, h⟩

/-- non-vacuity: four index cells of mixed levels on faces 0 and 4 (an edge key shared by two
    cells), covering = the two faces, and a world built on it whose optimized search descends
    through the tree and agrees with the brute-force scan -/
example : IndexCellsOK (Roots.ids Roots.exIndex) := Roots.exIndex_ok
example : initCovering (Roots.ids Roots.exIndex) =
    some [(CellID.fromFace 0, false), (CellID.fromFace 4, false)] :=
  Roots.exIndex_cov

namespace RootsEx
def dist (e : EdgeKey) : Int := 10 + 7 * e.shape + 3 * e.edge
def wR : World Int where
  updEdge e lim := if dist e < lim then some (dist e) else none
  allEdges := [⟨0, 0⟩, ⟨0, 1⟩, ⟨0, 2⟩, ⟨1, 0⟩, ⟨1, 1⟩]
  interiors := []
  small := false
  emptyTarget := false
  located := none
  roots _ := Roots.coveringRoots Roots.exIndex (fun _ lim => if 0 < lim then some 0 else none)
    [(CellID.fromFace 0, false), (CellID.fromFace 4, false)]
def oR (brute : Bool) : Opts Int where
  maxResults := 3
  distanceLimit := 1001
  maxError := 0
  includeInteriors := false
  useBruteForce := brute
  targetUsesMaxError := false
end RootsEx

/-- every edge of the example world is stored in some index cell -/
private theorem rootsEx_index_complete :
    ∀ e ∈ RootsEx.wR.allEdges, ∃ x es, Roots.exIndex.lookup x = some es ∧ e ∈ es := by
  intro e he
  simp only [RootsEx.wR, List.mem_cons, List.mem_nil_iff, or_false] at he
  rcases he with rfl | rfl | rfl | rfl | rfl
  · exact ⟨CellID.child (CellID.child (CellID.fromFace 0) 1) 2, [⟨0, 0⟩, ⟨0, 1⟩], by decide +kernel, by decide⟩
  · exact ⟨CellID.child (CellID.child (CellID.fromFace 0) 1) 2, [⟨0, 0⟩, ⟨0, 1⟩], by decide +kernel, by decide⟩
  · exact ⟨CellID.child (CellID.fromFace 0) 3, [⟨0, 1⟩, ⟨0, 2⟩], by decide +kernel, by decide⟩
  · exact ⟨CellID.child (CellID.fromFace 4) 2, [⟨1, 0⟩, ⟨1, 1⟩], by decide +kernel, by decide⟩
  · exact ⟨CellID.child (CellID.fromFace 4) 2, [⟨1, 0⟩, ⟨1, 1⟩], by decide +kernel, by decide⟩
example : ∀ e ∈ RootsEx.wR.allEdges, e ∈ edgesUnderList (RootsEx.wR.roots 1001) :=
  (rootsComplete_unbounded_from_initCovering Roots.exIndex _ Roots.exIndex_ok Roots.exIndex_cov
    RootsEx.wR 1001 rfl rootsEx_index_complete).1
example : findEdges (minDist 1000) (RootsEx.oR false) RootsEx.wR =
    some [⟨10, 0, 0⟩, ⟨13, 0, 1⟩, ⟨16, 0, 2⟩] := by decide +kernel
example : findEdges (minDist 1000) (RootsEx.oR true) RootsEx.wR =
    some [⟨10, 0, 0⟩, ⟨13, 0, 1⟩, ⟨16, 0, 2⟩] := by decide +kernel

/-! ## (5) The edge contract of `WorldApprox`, derived for shape-index targets -/

/-- `Min/MaxDistanceToShapeIndexTarget.updateDistanceToEdge(edge, lim)` (`ShapeIndexTarget.updEdge`:
    `findEdge` of the target's own query, options `oi` with `maxError = ε`, limit `lim`, over the
    target index seen from the exact edge target) satisfies exactly what `WorldApprox` assumes:
    "ok, x" ⇒ `x` within the limit, not below the true distance, above it by at most ε;
    "not ok" ⇒ the true distance is not within the limit.  `dtrue` = exact distance edge ↔ target
    index; `zero ≤ lim ≤ infinity`. -/
theorem shapeIndexTarget_updateDistanceToEdge_contract {oi : Opts D} {wi : World D}
    {di : EdgeKey → D} (O : DistOrder I) (S : SubLaws I oi.maxError)
    (hU : oi.targetUsesMaxError = false) (H : WorldOK I wi di)
    (hsh : ∀ f ∈ wi.allEdges, 0 ≤ f.shape) (hin : ∀ sh ∈ wi.interiors, 0 ≤ sh)
    {dtrue : D} (hd : DistSpec I { oi with distanceLimit := I.infinity } wi di dtrue)
    (hinf : I.less I.zero I.infinity = true) {lim : D}
    (hlim : I.less I.infinity lim = false) (hl0 : I.less lim I.zero = false) :
    (∀ x, ShapeIndexTarget.updEdge I oi wi lim = some x →
      I.less x lim = true ∧ I.less x dtrue = false ∧ I.less dtrue (I.sub x oi.maxError) = false) ∧
    (ShapeIndexTarget.updEdge I oi wi lim = none → I.less dtrue lim = false) :=
  ShapeIndexTarget.updEdge_contract O S hU H hsh hin hd hinf hlim hl0

/-- non-vacuity: the target index `SingleEx0.w0` (true distance 20), ε = 7: the value returned depends
    on the limit handed in — 26 (limit ∞), 23 (limit 25), "not ok" (limit 20) -/
example : [1001, 25, 21, 20].map (ShapeIndexTarget.updEdge (minDist 1000) (SingleEx0.o0 7 false false) SingleEx0.w0) =
    [some 26, some 23, some 20, none] := by decide
example : DistSpec (minDist 1000) { SingleEx0.o0 7 false false with distanceLimit := (minDist 1000).infinity }
    SingleEx0.w0 SingleEx0.d0 20 := by
  have h := distance_spec (o := SingleEx0.o0 0 false false) (minDist_order 1000) SingleEx0.w0_ok rfl
    (by intro a; simp [minDist, SingleEx0.o0]) (x := 20) (by decide)
  exact ⟨h.zeroLimit, h.interior, h.edges⟩

end S2Proofs.C08
