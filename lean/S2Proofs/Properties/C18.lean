/-
  C18 — Area, curvature and centroid are consistent with containment and orientation.

  What is a THEOREM here (all loops, any number of vertices >= 3, no size bound):
   (a) `CanonicalFirstVertex` picks the same VERTEX and the same direction for every rotation of the
       vertex list, and the same vertex with the OPPOSITE direction for the inverted (reversed) loop;
       the indices it returns keep every `Vertex(..)` access of `TurningAngle` inside `[0, 2n-1]`.
       Exact condition: `OrdOK` — `Cmp(..) == -1` is a strict total order on the loop's vertices, i.e.
       no two positions hold `Cmp`-equal vertices (duplicate vertices are invalid loops).  Without it
       the inversion law is FALSE (`canonicalFirstVertex_invert_needs_distinct`).
   (b) `TurningAngle` adds up THE SAME numbers IN THE SAME order for a loop, all its rotations and its
       inverse (`turnTotal_rotate`, `turnTotal_invert`); hence it is exactly invariant under rotation
       with NO hypothesis on `TurnAngle` or on float addition beyond their being functions
       (`turningAngle_rotate`), and exactly negated by inversion as soon as `float64(-1)*x = -(float64(1)*x)`
       and the clamp commutes with negation (`turningAngle_invert`; hypotheses `SignLaws`).  `SignLaws`
       is PROVED for the soft-float binary64 (`f64_signLaws`: sign symmetry of round-to-nearest-even,
       `math.Max`/`math.Min` clamp) on all non-NaN values, giving `f64_turningAngle_rotate` /
       `f64_turningAngle_invert` with no hypothesis but validity of the loop and "the total is not NaN".
       NOTE: the antisymmetry `TurnAngle(a,b,c) = -TurnAngle(c,b,a)` and `-(a+b) = (-a)+(-b)` are NOT
       needed: for direction -1 the code evaluates `TurnAngle(Vertex(i+1), Vertex(i), Vertex(i-1))`,
       which for the inverted loop are literally the same calls as for the original loop, and applies
       the sign once at the end.  (The antisymmetry is still tested on the implementation, op `c18ta3`.)
   (c) `Polygon.Area` / `Polygon.Centroid` are the left-to-right signed sums over `p.loops`
       (`polygonArea_eq_signed_fold`, `polygonCentroid_eq_signed_fold`: shells added, holes subtracted, same
       convention for both); they are invariant under reordering the loops when the addition is
       commutative and associative (exact arithmetic: `polygonArea_perm_of_comm_assoc`) and for two loops
       when it is merely commutative with a neutral start value (`polygonArea_swap_two`), and they are NOT
       order independent in float64 for three loops (`f64_polygonArea_order_dependent`).
   (d) `Area`'s last step agrees with `IsNormalized`: a loop that is not normalized never gets an area
       within `maxError` of 0, a normalized loop never one within `maxError` of 4π
       (`areaFinish_not_small_of_not_normalized`, `areaFinish_not_big_of_normalized`); without a long
       edge from vertex 0 the surface integral is the plain triangle fan (`surfaceIntegral_eq_fan`).

  PARTIAL (stated as `def … : Prop`, judged on the implementation by Oracle.C18, not proved): every
  numeric sentence of the property — area(L) + area(inverse L) = 4π, area = sum over a triangulation,
  independence of the start vertex within the error, agreement with containment for slivers.  They
  are statements about libm (`atan`, `atan2`, `tan`) and float error budgets; S2.F64 has no libm.
-/
import S2Proofs.Measures.Turning
import S2Proofs.F64Order
import S2Proofs.Measures.Lex
import S2Proofs.Measures.Surface
import S2Proofs.Measures.F64Sign
import S2.Contain
namespace S2Proofs.C18
open S2 S2.Measures

variable {P A : Type} [Inhabited P] (E : TurnEnv P A)

/-! ### (a) CanonicalFirstVertex -/

/-- Rotation: the canonical first vertex of the rotated list is the same vertex — its index is the
    old index shifted by the rotation (mod n) — and the direction is the same. -/
theorem canonicalFirstVertex_rotate {vs : List P} (h : OrdOK E.lt vs) (h3 : 3 ≤ vs.length) (k : Nat) :
    vertex (rotate vs k) (canonicalFirstVertex E (rotate vs k)).1 = vertex vs (canonicalFirstVertex E vs).1 ∧
    (canonicalFirstVertex E (rotate vs k)).1 + k ≡ (canonicalFirstVertex E vs).1 [ZMOD (vs.length : Int)] ∧
    (canonicalFirstVertex E (rotate vs k)).2 = (canonicalFirstVertex E vs).2 := by
  have hne : vs ≠ [] := by intro h0; rw [h0] at h3; simp at h3
  obtain ⟨hmod, hdir, _⟩ := canon_rotate E h h3 k
  have hw3 : 3 ≤ (rotate vs k).length := by rw [length_rotate]; exact h3
  refine ⟨?_, hmod, hdir⟩
  rw [vertex_eq_cyc _ (cfv_spec E (h.rotate k) hw3).2.1, vertex_eq_cyc _ (cfv_spec E h h3).2.1,
    cyc_rotate hne]
  exact cyc_congr vs hmod

/-- Inversion: the canonical first vertex of the reversed list is the same vertex — index mirrored
    (mod n) — and the direction is the opposite one. -/
theorem canonicalFirstVertex_invert {vs : List P} (h : OrdOK E.lt vs) (h3 : 3 ≤ vs.length) :
    vertex (invert vs) (canonicalFirstVertex E (invert vs)).1 = vertex vs (canonicalFirstVertex E vs).1 ∧
    -1 - (canonicalFirstVertex E (invert vs)).1 ≡ (canonicalFirstVertex E vs).1 [ZMOD (vs.length : Int)] ∧
    (canonicalFirstVertex E (invert vs)).2 = -(canonicalFirstVertex E vs).2 := by
  have hne : vs ≠ [] := by intro h0; rw [h0] at h3; simp at h3
  obtain ⟨hmod, hdir, _⟩ := canon_invert E h h3
  have hw3 : 3 ≤ (invert vs).length := by unfold invert; rw [List.length_reverse]; exact h3
  refine ⟨?_, hmod, hdir⟩
  rw [vertex_eq_cyc _ (cfv_spec E h.reverse hw3).2.1, vertex_eq_cyc _ (cfv_spec E h h3).2.1]
  unfold invert
  rw [cyc_reverse hne]
  exact cyc_congr vs hmod

/-- The vertex sequence `(first, first+dir, …, first+(n-1)*dir)` of the doc comment does not change
    when the loop is rotated or inverted. -/
theorem canonical_sequence_invariant {vs : List P} (h : OrdOK E.lt vs) (h3 : 3 ≤ vs.length) (k : Nat) :
    canonFn E (rotate vs k) = canonFn E vs ∧ canonFn E (invert vs) = canonFn E vs :=
  ⟨(canon_rotate E h h3 k).2.2, (canon_invert E h h3).2.2⟩

/-- The returned index is the position of the least vertex, in `[0,n)` for direction +1 and in
    `[n,2n)` for direction -1 — so that `first + m*dir` stays in `[0, 2n-1]` for `0 <= m <= n`, which
    is what `Vertex` needs (Go's `%` would go negative, and the slice access panic, below 0). -/
theorem canonicalFirstVertex_range {vs : List P} (h : OrdOK E.lt vs) (h3 : 3 ≤ vs.length) :
    IsMin E.lt vs (vertex vs (canonicalFirstVertex E vs).1) ∧
    (((canonicalFirstVertex E vs).2 = 1 ∧ 0 ≤ (canonicalFirstVertex E vs).1 ∧
        (canonicalFirstVertex E vs).1 < vs.length) ∨
     ((canonicalFirstVertex E vs).2 = -1 ∧ (vs.length : Int) ≤ (canonicalFirstVertex E vs).1 ∧
        (canonicalFirstVertex E vs).1 < 2 * vs.length)) := by
  obtain ⟨hm, h0, hc⟩ := cfv_spec E h h3
  rw [vertex_eq_cyc _ h0]
  refine ⟨hm, ?_⟩
  rcases hc with ⟨a, b, _⟩ | ⟨a, b, c, _⟩
  · exact Or.inl ⟨a, h0, b⟩
  · exact Or.inr ⟨a, b, c⟩

/-! ### (b) TurningAngle -/

/-- The compensated total inside `TurningAngle` is bit-for-bit the same for every rotation of the
    loop: the same summands in the same order. -/
theorem turnTotal_rotate {vs : List P} (h : OrdOK E.lt vs) (h3 : 3 ≤ vs.length) (k : Nat) :
    turnTotal E (rotate vs k) = turnTotal E vs := by
  have hw3 : 3 ≤ (rotate vs k).length := by rw [length_rotate]; exact h3
  rw [turnTotal_eq E (h.rotate k) hw3, turnTotal_eq E h h3, (canon_rotate E h h3 k).2.2, length_rotate]

/-- … and for the inverted loop (before the sign is applied). -/
theorem turnTotal_invert {vs : List P} (h : OrdOK E.lt vs) (h3 : 3 ≤ vs.length) :
    turnTotal E (invert vs) = turnTotal E vs := by
  have hl : (invert vs).length = vs.length := by unfold invert; exact List.length_reverse
  have hw3 : 3 ≤ (invert vs).length := by rw [hl]; exact h3
  rw [turnTotal_eq E h.reverse hw3, turnTotal_eq E h h3, (canon_invert E h h3).2.2, hl]

/-- **The total turning angle is exactly unchanged by rotating the vertex order.**  No hypothesis on
    `TurnAngle`, on the float addition or on the clamp: only that the vertices are pairwise different. -/
theorem turningAngle_rotate {vs : List P} (h : OrdOK E.lt vs) (h3 : 3 ≤ vs.length) (k : Nat) :
    turningAngle E (rotate vs k) = turningAngle E vs := by
  have hw3 : 3 ≤ (rotate vs k).length := by rw [length_rotate]; exact h3
  rw [turningAngle_of_three E hw3, turningAngle_of_three E h3, turnTotal_rotate E h h3,
    (canonicalFirstVertex_rotate E h h3 k).2.2]

/-- the two facts about the float carrier the negation law needs, on the values `ok` -/
structure SignLaws (E : TurnEnv P A) (neg : A → A) (ok : A → Prop) : Prop where
  /-- `-(-x) = x` -/
  neg_neg : ∀ x, neg (neg x) = x
  /-- `clamp(float64(-1) * x) = -clamp(float64(1) * x)` -/
  final_neg : ∀ x, ok x → E.clamp (E.mulDir (-1) x) = neg (E.clamp (E.mulDir 1 x))

/-- **The total turning angle is exactly negated by inverting the loop**, whenever multiplying by
    `float64(-1)` instead of `float64(1)` and clamping to the symmetric interval negates the result
    (true for every float that is not NaN).  `hok` : the compensated total is such a value. -/
theorem turningAngle_invert {vs : List P} (h : OrdOK E.lt vs) (h3 : 3 ≤ vs.length)
    {neg : A → A} {ok : A → Prop} (S : SignLaws E neg ok) (hok : ok (turnTotal E vs)) :
    turningAngle E (invert vs) = neg (turningAngle E vs) := by
  have hl : (invert vs).length = vs.length := by unfold invert; exact List.length_reverse
  have hw3 : 3 ≤ (invert vs).length := by rw [hl]; exact h3
  rw [turningAngle_of_three E hw3, turningAngle_of_three E h3, turnTotal_invert E h h3,
    (canonicalFirstVertex_invert E h h3).2.2]
  rcases (canonicalFirstVertex_range E h h3).2 with ⟨a, _⟩ | ⟨a, _⟩
  · rw [a]; exact S.final_neg _ hok
  · rw [a, S.final_neg _ hok, S.neg_neg]; rfl

/-- Inverting twice gives back the loop, so under the same laws the rotation law and the negation law
    compose: any rotation of the inverse has exactly the negated turning angle. -/
theorem turningAngle_rotate_invert {vs : List P} (h : OrdOK E.lt vs) (h3 : 3 ≤ vs.length)
    {neg : A → A} {ok : A → Prop} (S : SignLaws E neg ok) (hok : ok (turnTotal E vs)) (k : Nat) :
    turningAngle E (rotate (invert vs) k) = neg (turningAngle E vs) := by
  have hl : (invert vs).length = vs.length := by unfold invert; exact List.length_reverse
  rw [turningAngle_rotate E h.reverse (by rw [hl]; exact h3), turningAngle_invert E h h3 S hok]


/-! ### (c) polygons: signed sums over shells and holes -/

section polygon
variable {V : Type}

/-- `Polygon.Area` is the left-to-right fold that ADDS the area of every shell and SUBTRACTS the area
    of every hole (given `float64(1)*x = x` and `a + float64(-1)*x = a - x`, true for floats). -/
theorem polygonArea_eq_signed_fold (add sub : A → A → A) (mulDir : Int → A → A) (zero : A)
    (h1 : ∀ x, mulDir 1 x = x) (hm : ∀ a x, add a (mulDir (-1) x) = sub a x) (ls : List (PLoop A V)) :
    polygonArea add mulDir zero ls =
      ls.foldl (fun acc l => if l.isHole then sub acc l.area else add acc l.area) zero := by
  unfold polygonArea
  congr 1
  funext acc l
  unfold PLoop.sign
  by_cases hh : l.isHole = true
  · simp only [hh, if_true]; exact hm _ _
  · have hf : l.isHole = false := by simpa using hh
    simp [hf, h1]

/-- `Polygon.Centroid` uses the same convention: shells added, holes subtracted, left to right. -/
theorem polygonCentroid_eq_signed_fold (vadd vsub : V → V → V) (vzero : V) (ls : List (PLoop A V)) :
    polygonCentroid vadd vsub vzero ls =
      ls.foldl (fun u l => if l.isHole then vsub u l.centroid else vadd u l.centroid) vzero := by
  unfold polygonCentroid
  congr 1
  funext u l
  unfold PLoop.sign
  by_cases hh : l.isHole = true
  · simp [hh]
  · simp [hh]

/-- Appending a loop adds exactly its signed area to the previous total (what "signed sum over shells
    and holes" means operationally: one rounding per loop, in list order). -/
theorem polygonArea_snoc (add : A → A → A) (mulDir : Int → A → A) (zero : A)
    (ls : List (PLoop A V)) (l : PLoop A V) :
    polygonArea add mulDir zero (ls ++ [l]) =
      add (polygonArea add mulDir zero ls) (mulDir l.sign l.area) := by
  unfold polygonArea; rw [List.foldl_append]; rfl

/-- Reordering the loops does not change `Polygon.Area` when the addition is commutative and
    associative (exact arithmetic). -/
theorem polygonArea_perm_of_comm_assoc (add : A → A → A) (mulDir : Int → A → A) (zero : A)
    (hc : ∀ a b, add a b = add b a) (ha : ∀ a b c, add (add a b) c = add a (add b c))
    {ls ms : List (PLoop A V)} (hp : ls.Perm ms) :
    polygonArea add mulDir zero ls = polygonArea add mulDir zero ms := by
  unfold polygonArea
  apply List.Perm.foldl_eq' hp
  intro x _ y _ z
  rw [ha, ha, hc (mulDir x.sign x.area)]

/-- With float addition (commutative, `0 + x = x`, not associative) the order is still irrelevant
    for a polygon of TWO loops. -/
theorem polygonArea_swap_two (add : A → A → A) (mulDir : Int → A → A) (zero : A)
    (hc : ∀ a b, add a b = add b a) (h0 : ∀ a, add zero a = a) (l m : PLoop A V) :
    polygonArea add mulDir zero [l, m] = polygonArea add mulDir zero [m, l] := by
  simp only [polygonArea, List.foldl_cons, List.foldl_nil, h0]
  exact hc _ _

end polygon

/-- In float64 the polygon area DOES depend on the order of three loops: shells of area
    1, 2^-53, 2^-53 give 1 in this order and 1 + 2^-52 in the reverse order. -/
theorem f64_polygonArea_order_dependent :
    let one : PLoop F64 V3 := ⟨0, ⟨0x3FF0000000000000⟩, default⟩
    let eps : PLoop F64 V3 := ⟨0, ⟨0x3CA0000000000000⟩, default⟩
    f64PolygonArea [one, eps, eps] = ⟨0x3FF0000000000000⟩ ∧
    f64PolygonArea [eps, eps, one] = ⟨0x3FF0000000000001⟩ := by
  decide +kernel

/-! ### (d) surface integral and the final decision of `Area` -/

section surface
variable {S : Type} (F : SurfEnv P S)

/-- Without an (almost) 180-degree edge from vertex 0 the origin never moves and the surface
    integral is the plain triangle fan from vertex 0, summed left to right: "the area is the sum of
    the (signed) areas of the fan triangulation", exactly, for the computed numbers. -/
theorem surfaceIntegral_eq_fan (vs : List P)
    (hshort : ∀ m : Nat, m < vs.length - 2 → F.angleGt (vertex vs ((m : Int) + 2)) (vertex vs 0) = false)
    (heq : F.eqP (vertex vs 0) (vertex vs 0) = true) :
    surfaceIntegral F vs = fanSum F vs := by
  unfold surfaceIntegral fanSum
  simp only
  rw [surfLoop_short F vs (vertex vs 0) (vs.length - 2) 1 F.zero (fun m hm => by
    have := hshort m hm
    rw [show (1 : Int) + m + 1 = (m : Int) + 2 by ring]; exact this)]
  simp only [heq, Bool.not_true, Bool.false_eq_true, if_false]
  congr 1
  funext s m
  rw [show (1 : Int) + m = (m : Int) + 1 by ring, show (m : Int) + 1 + 1 = (m : Int) + 2 by ring]

end surface

section area
variable (G : AreaEnv A)

/-- A loop that `IsNormalized` rejects never gets an area below `maxError` (it is reported as 4π
    instead): the near-zero decision of `Area` follows the curvature test, not the triangle sum. -/
theorem areaFinish_not_small_of_not_normalized (raw maxErr : A)
    (hbig : G.lt G.fourPi maxErr = false) :
    G.lt (areaFinish G raw maxErr false) maxErr = false := by
  unfold areaFinish areaDecide
  generalize areaClamp G raw = area
  simp only [Bool.not_false, Bool.and_true, Bool.and_false, Bool.false_eq_true, if_false]
  split
  · exact hbig
  · rename_i h; simpa using h

/-- A loop that `IsNormalized` accepts never gets an area above `4π - maxError` (it is reported as 0). -/
theorem areaFinish_not_big_of_normalized (raw maxErr : A)
    (h0 : G.lt (G.sub G.fourPi maxErr) G.zero = false) :
    G.lt (G.sub G.fourPi maxErr) (areaFinish G raw maxErr true) = false := by
  unfold areaFinish areaDecide
  generalize areaClamp G raw = area
  simp only [Bool.not_true, Bool.and_false, Bool.and_true, Bool.false_eq_true, if_false]
  split
  · exact h0
  · rename_i h; simpa using h

end area


/-! ### the concrete order: `r3.Vector.Cmp` on finite float vectors -/

open S2.Exact S2Proofs.F64Order in
/-- For finite (no NaN / Inf) vertices that are pairwise `Cmp`-different — which is what loop
    validation demands (no duplicate vertices; `Cmp == 0` is Go's `==` on finite vectors) —
    `Cmp(..) == -1` satisfies `OrdOK`: the theorems above apply to every valid `s2.Loop`. -/
theorem ordOK_v3lt {vs : List V3} (hfin : ∀ v ∈ vs, Fin3 v)
    (hd : vs.Pairwise (fun a b => V3.cmp a b ≠ 0)) : OrdOK v3lt vs := by
  refine ⟨fun a ha => ?_, fun a ha b hb c hc => ?_, ?_⟩
  · unfold v3lt; rw [v3cmp_eq (hfin a ha) (hfin a ha)]
    generalize ofV3 a = x
    have := (iv3cmp_lt_iff x x).not.2 (by omega)
    simpa using this
  · unfold v3lt
    rw [v3cmp_eq (hfin a ha) (hfin b hb), v3cmp_eq (hfin b hb) (hfin c hc), v3cmp_eq (hfin a ha) (hfin c hc)]
    generalize ofV3 a = x; generalize ofV3 b = y; generalize ofV3 c = z
    simp only [beq_iff_eq, iv3cmp_lt_iff]
    omega
  · refine (List.Pairwise.and_mem.1 hd).imp ?_
    rintro a b ⟨ha, hb, hab⟩
    unfold v3lt
    have e : V3.cmp b a = IV3.cmp (ofV3 b) (ofV3 a) := v3cmp_eq (hfin b hb) (hfin a ha)
    rw [v3cmp_eq (hfin a ha) (hfin b hb)] at hab ⊢
    rw [e]
    generalize ofV3 a = x at *; generalize ofV3 b = y at *
    simp only [beq_iff_eq, iv3cmp_lt_iff]
    have := (iv3cmp_eq_zero_iff x y).not.1 hab
    omega

/-! ### the float64 instance: no hypothesis left but "not NaN" -/

/-- The soft-float carrier of `TurningAngle` (IEEE-754 binary64 `*` by `float64(±1)`, `math.Max` / `math.Min`
    clamp) satisfies `SignLaws` on every value that is not a NaN — whatever `TurnAngle` computes. -/
theorem f64_signLaws {Q : Type} (lt : Q → Q → Bool) (ta : Q → Q → Q → F64) (southern : Q → Bool) :
    SignLaws (f64TurnEnv lt ta southern) F64.neg (fun x => x.isNaN = false) :=
  ⟨f64_neg_neg, fun x hx => f64_final_neg x hx⟩

open S2Proofs.F64Order in
/-- **float64, rotation**: for every valid loop (finite, pairwise different vertices, n >= 3) and EVERY
    function `ta` standing for `TurnAngle`, the model of `Loop.TurningAngle` returns bit-identical results
    for all rotations of the vertex list. -/
theorem f64_turningAngle_rotate (ta : V3 → V3 → V3 → F64) (southern : V3 → Bool) {vs : List V3}
    (hfin : ∀ v ∈ vs, Fin3 v) (hd : vs.Pairwise (fun a b => V3.cmp a b ≠ 0)) (h3 : 3 ≤ vs.length) (k : Nat) :
    turningAngle (f64TurnEnv v3lt ta southern) (rotate vs k) = turningAngle (f64TurnEnv v3lt ta southern) vs :=
  turningAngle_rotate _ (ordOK_v3lt hfin hd) h3 k

open S2Proofs.F64Order in
/-- **float64, inversion**: … and the bit-exactly negated result (sign bit flipped) for the inverted loop,
    provided the compensated total is not a NaN. -/
theorem f64_turningAngle_invert (ta : V3 → V3 → V3 → F64) (southern : V3 → Bool) {vs : List V3}
    (hfin : ∀ v ∈ vs, Fin3 v) (hd : vs.Pairwise (fun a b => V3.cmp a b ≠ 0)) (h3 : 3 ≤ vs.length)
    (hnn : (turnTotal (f64TurnEnv v3lt ta southern) vs).isNaN = false) :
    turningAngle (f64TurnEnv v3lt ta southern) (invert vs) =
      F64.neg (turningAngle (f64TurnEnv v3lt ta southern) vs) :=
  turningAngle_invert _ (ordOK_v3lt hfin hd) h3 (f64_signLaws v3lt ta southern) hnn

/-- Why the code's design (same summands, same order, ONE sign at the end) matters: the alternative
    law `-(a + b) = (-a) + (-b)` is NOT bit-exact in binary64 — exact cancellation gives `+0` for
    both orders of the signs: `1 + (-1) = +0` and `(-1) + 1 = +0`, but `-(+0) = -0`. -/
theorem f64_add_neg_not_bitexact :
    F64.add (F64.neg F64.one) (F64.neg (F64.neg F64.one)) ≠ F64.neg (F64.add F64.one (F64.neg F64.one)) := by
  decide +kernel

/-! ### non-vacuity and sharpness -/

/-- a toy environment over `Nat` points with exact integer arithmetic; its `turnAngle` is deliberately
    NOT antisymmetric: the invariance theorems do not need that -/
def exEnv : TurnEnv Nat Int :=
  { lt := fun a b => decide (a < b), turnAngle := fun a b c => (a : Int) * b + 2 * c,
    add := (· + ·), sub := (· - ·), zero := 0, mulDir := fun d x => d * x,
    clamp := fun x => max (-100) (min 100 x), special := fun _ => 7 }

example : OrdOK exEnv.lt [5, 3, 8, 1, 9] ∧ 3 ≤ [5, 3, 8, 1, 9].length := by decide
example : canonicalFirstVertex exEnv [5, 3, 8, 1, 9] = (8, -1) := by decide
example : canonicalFirstVertex exEnv (rotate [5, 3, 8, 1, 9] 2) = (6, -1) := by decide
example : canonicalFirstVertex exEnv (invert [5, 3, 8, 1, 9]) = (1, 1) := by decide
example : SignLaws exEnv (fun x => -x) (fun _ => True) :=
  ⟨fun x => by simp, fun x _ => by simp only [exEnv]; omega⟩
example : turningAngle exEnv (rotate [5, 3, 8, 1, 9] 2) = turningAngle exEnv [5, 3, 8, 1, 9] ∧
    turningAngle exEnv (invert [5, 3, 8, 1, 9]) = -turningAngle exEnv [5, 3, 8, 1, 9] ∧
    turningAngle exEnv [5, 3, 8, 1, 9] ≠ 0 := by decide

/-- three finite, pairwise different float vertices: (1,0,0), (0,1,0), (0,0,1) -/
example : OrdOK v3lt
    [⟨⟨0x3FF0000000000000⟩, ⟨0⟩, ⟨0⟩⟩, ⟨⟨0⟩, ⟨0x3FF0000000000000⟩, ⟨0⟩⟩, ⟨⟨0⟩, ⟨0⟩, ⟨0x3FF0000000000000⟩⟩] := by
  apply ordOK_v3lt <;> decide +kernel

/-- The distinctness condition is necessary: with a duplicate vertex (an invalid loop) the inverted
    loop gets the SAME direction, and its turning angle is not the negated one. -/
theorem canonicalFirstVertex_invert_needs_distinct :
    (canonicalFirstVertex exEnv (invert [0, 1, 1])).2 = (canonicalFirstVertex exEnv [0, 1, 1]).2 ∧
    turningAngle exEnv (invert [0, 1, 1]) ≠ -turningAngle exEnv [0, 1, 1] := by decide

/-- hypotheses of the area theorems are satisfiable: integer carrier, 4π ~ 1256, maxError 3 -/
def exArea : AreaEnv Int :=
  { add := (· + ·), sub := (· - ·), neg := fun x => -x, lt := fun a b => decide (a < b),
    ge := fun a b => decide (a ≥ b), zero := 0, pi := 314, fourPi := 1256 }
example : exArea.lt exArea.fourPi 3 = false ∧ exArea.lt (exArea.sub exArea.fourPi 3) exArea.zero = false ∧
    areaFinish exArea 1 3 false = 1256 ∧ areaFinish exArea (-2) 3 true = 0 := by decide

/-! ### the numeric sentences of the property (PARTIAL: definitions, judged by Oracle.C18) -/

/-- exact rational value of a finite float -/
def val (x : F64) : Rat := (S2.Exact.toInt x : Rat) / 2 ^ 1074

def piLo : Rat := 3141592653589793238 / 1000000000000000000
def piHi : Rat := 3141592653589793239 / 1000000000000000000

/-- the documented error of one `Area` call on a loop with `n` vertices that the oracle uses:
    up to `2n` triangles (comment in `Loop.Area`) times the documented maximum error `5e-15` of
    `PointArea` / `GirardArea`; it dominates `turningAngleMaxError = 11.25·2^-52·n` -/
def areaTol (n : Nat) : Rat := (n : Rat) / 100000000000000

/-- what the numeric sentences speak about: the implementation's `Area` and `PointArea` as
    functions of the vertex list, and which loops are valid -/
structure AreaImpl where
  valid : List V3 → Prop
  area : List V3 → F64
  pointArea : V3 → V3 → V3 → F64

/-- "The area of a loop and of its inverse sum to the area of the sphere" (within the error). -/
def AreaComplement (I : AreaImpl) : Prop :=
  ∀ vs, I.valid vs →
    4 * piLo - 2 * areaTol vs.length ≤ val (I.area vs) + val (I.area (invert vs)) ∧
    val (I.area vs) + val (I.area (invert vs)) ≤ 4 * piHi + 2 * areaTol vs.length

/-- "… is independent of the starting vertex within the documented error". -/
def AreaStartIndependent (I : AreaImpl) : Prop :=
  ∀ vs k, I.valid vs → |val (I.area (rotate vs k)) - val (I.area vs)| ≤ 2 * areaTol vs.length

/-- "… equals the sum of the areas of any triangulation of the loop": `isTriangulation` (a geometric
    notion that is not formalised here) is a parameter; the oracle checks star triangulations from an
    interior point and signed fans from every vertex. -/
def AreaTriangulation (I : AreaImpl) (isTriangulation : List V3 → List (V3 × V3 × V3) → Prop) : Prop :=
  ∀ vs ts, I.valid vs → isTriangulation vs ts →
    |val (I.area vs) - (ts.map fun t => val (I.pointArea t.1 t.2.1 t.2.2)).sum| ≤
      2 * areaTol (vs.length + ts.length)

/-- "… is near zero or near the whole sphere in agreement with which points the loop actually
    contains, even for degenerate slivers": if all vertices lie within the cap `{x : x·c ≥ t|x||c|}`
    (0 < t) then the loop is either inside that cap or contains its whole complement, and which of
    the two is decided EXACTLY by `S2.Contain.exactLoopContains` at the antipode of `c`; the area must
    be on the corresponding side: at most the cap area `2π(1-t)`, or at least `4π` minus it. -/
def AreaAgreesWithContainment (I : AreaImpl) : Prop :=
  ∀ (vs : List V3) (c : V3) (t : Rat), I.valid vs → 0 < t →
    (∀ v ∈ vs, (S2.Exact.ofV3 v).dot (S2.Exact.ofV3 c) > 0 ∧
      (((S2.Exact.ofV3 v).dot (S2.Exact.ofV3 c) : Int) : Rat) ^ 2 ≥
        t ^ 2 * ((S2.Exact.ofV3 v).norm2 : Rat) * ((S2.Exact.ofV3 c).norm2 : Rat)) →
    (S2.Contain.exactLoopContains vs.toArray c.neg = false →
        val (I.area vs) ≤ 2 * piHi * (1 - t) * (1 + 1 / 1000000000) + areaTol vs.length) ∧
    (S2.Contain.exactLoopContains vs.toArray c.neg = true →
        val (I.area vs) ≥ 4 * piLo - 2 * piHi * (1 - t) * (1 + 1 / 1000000000) - areaTol vs.length)

end S2Proofs.C18
