/-
  S2Proofs.Properties.C19_F64 — the carrier facts of the interval algebra (C19) PROVED for binary64.

  The generic interval theorems (`Properties/C19.lean`) assume the laws `IvlLaws`, `IvlArithLaws`,
  `IvlLengthLaws` about their number carrier.  Here the corresponding facts are proved for the bit-exact
  soft-float `S2.F64` with the constants of the instance `S2.IvlF64`, stated on raw `F64` values
  (`F64` is not a `LinearOrder`: NaN, two zeros).  `Fin x` = `S2Proofs.F64Order.Fin x` = "exponent field ≠ 2047".

  Foundation: `S2Proofs/F64Round/*` — `roundNE` is correctly rounded (nearest-even), so
  `ext (a ⊕ b) = rint (toInt a + toInt b)` with `rint` monotone and the identity on floats.
-/
import S2Proofs.F64Round.Carrier

set_option linter.unusedSimpArgs false
set_option linter.unusedVariables false

namespace S2Proofs.C19F64
open S2 S2.Exact S2Proofs.F64Order S2Proofs.F64Sym S2Proofs.F64Inj S2Proofs.F64Round
open S2.IvlF64

private theorem fin_zero : F64Order.Fin (F64.zero false) := by decide

private theorem nonneg_of_le {m : F64} (hm : F64Order.Fin m) (h : F64.le (F64.zero false) m = true) :
    0 ≤ toInt m := by
  have := (le_iff fin_zero hm).1 h
  rwa [toInt_zero] at this

private theorem nonpos_of_le {m : F64} (hm : F64Order.Fin m) (h : F64.le m (F64.zero false) = true) :
    toInt m ≤ 0 := by
  have := (le_iff hm fin_zero).1 h
  rwa [toInt_zero] at this

/-! ### 1. `+` and `−` never produce NaN on finite operands -/

theorem add_not_nan (a b : F64) (ha : F64Order.Fin a) (hb : F64Order.Fin b) : (F64.add a b).isNaN = false :=
  F64Round.add_not_nan ha hb

theorem sub_not_nan (a b : F64) (ha : F64Order.Fin a) (hb : F64Order.Fin b) : (F64.sub a b).isNaN = false :=
  F64Round.sub_not_nan ha hb

example : F64Order.Fin ⟨0x7FEFFFFFFFFFFFFF⟩ ∧ (F64.add ⟨0x7FEFFFFFFFFFFFFF⟩ ⟨0x7FEFFFFFFFFFFFFF⟩).isNaN = false ∧
    F64.add ⟨0x7FEFFFFFFFFFFFFF⟩ ⟨0x7FEFFFFFFFFFFFFF⟩ = F64.inf false := by decide +kernel

/-! ### 2. expanding by a margin (`IvlArithLaws`): `a ≤ a ⊕ m`, `a ⊖ m ≤ a` for `m ≥ 0`, and the mirror facts.
    The results may be ±inf (overflow), the inequalities still hold. -/

theorem le_add_nonneg (a m : F64) (ha : F64Order.Fin a) (hm : F64Order.Fin m)
    (h : F64.le (F64.zero false) m = true) : F64.le a (F64.add a m) = true :=
  le_add_of_nonneg ha hm (nonneg_of_le hm h)

theorem sub_nonneg_le (a m : F64) (ha : F64Order.Fin a) (hm : F64Order.Fin m)
    (h : F64.le (F64.zero false) m = true) : F64.le (F64.sub a m) a = true :=
  sub_le_of_nonneg ha hm (nonneg_of_le hm h)

theorem add_nonpos_le (a m : F64) (ha : F64Order.Fin a) (hm : F64Order.Fin m)
    (h : F64.le m (F64.zero false) = true) : F64.le (F64.add a m) a = true :=
  add_le_of_nonpos ha hm (nonpos_of_le hm h)

theorem le_sub_nonpos (a m : F64) (ha : F64Order.Fin a) (hm : F64Order.Fin m)
    (h : F64.le m (F64.zero false) = true) : F64.le a (F64.sub a m) = true :=
  le_sub_of_nonpos ha hm (nonpos_of_le hm h)

/-- non-vacuity: a subnormal operand (min subnormal + min subnormal, exact) -/
example : F64Order.Fin ⟨0x0000000000000001⟩ ∧ F64.le (F64.zero false) ⟨0x0000000000000001⟩ = true ∧
    F64.add ⟨0x0000000000000001⟩ ⟨0x0000000000000001⟩ = ⟨0x0000000000000002⟩ ∧
    F64.le ⟨0x0000000000000001⟩ (F64.add ⟨0x0000000000000001⟩ ⟨0x0000000000000001⟩) = true := by decide +kernel

/-- non-vacuity: the sum rounds (1 + (2^-53 + 2^-105) is not representable and rounds up to 1 + 2^-52) -/
example : F64Order.Fin F64.one ∧ F64Order.Fin ⟨0x3CA0000000000001⟩ ∧
    F64.le (F64.zero false) ⟨0x3CA0000000000001⟩ = true ∧
    F64.add F64.one ⟨0x3CA0000000000001⟩ = ⟨0x3FF0000000000001⟩ ∧
    toInt (F64.add F64.one ⟨0x3CA0000000000001⟩) ≠ toInt F64.one + toInt ⟨0x3CA0000000000001⟩ ∧
    F64.le F64.one (F64.add F64.one ⟨0x3CA0000000000001⟩) = true := by decide +kernel

/-- non-vacuity: the sum overflows to +inf, the inequality still holds -/
example : F64Order.Fin ⟨0x7FEFFFFFFFFFFFFF⟩ ∧ F64.le (F64.zero false) ⟨0x7FEFFFFFFFFFFFFF⟩ = true ∧
    F64.add ⟨0x7FEFFFFFFFFFFFFF⟩ ⟨0x7FEFFFFFFFFFFFFF⟩ = F64.inf false ∧
    F64.le ⟨0x7FEFFFFFFFFFFFFF⟩ (F64.add ⟨0x7FEFFFFFFFFFFFFF⟩ ⟨0x7FEFFFFFFFFFFFFF⟩) = true := by decide +kernel

/-- non-vacuity of the mirror facts: margin −3, the difference overflows to −inf -/
example : F64.le (F64.neg F64.three) (F64.zero false) = true ∧
    F64.le (F64.add F64.one (F64.neg F64.three)) F64.one = true ∧
    F64.le F64.one (F64.sub F64.one (F64.neg F64.three)) = true ∧
    F64.sub ⟨0xFFEFFFFFFFFFFFFF⟩ ⟨0x7FEFFFFFFFFFFFFF⟩ = F64.inf true ∧
    F64.le (F64.sub ⟨0xFFEFFFFFFFFFFFFF⟩ ⟨0x7FEFFFFFFFFFFFFF⟩) ⟨0xFFEFFFFFFFFFFFFF⟩ = true := by decide +kernel

/-! ### 3. monotonicity of `+`, `−`, `0.5·`, `2·` -/

theorem add_mono_left (a b c : F64) (ha : F64Order.Fin a) (hb : F64Order.Fin b) (hc : F64Order.Fin c)
    (h : F64.le a b = true) : F64.le (F64.add a c) (F64.add b c) = true :=
  F64Round.add_mono_left ha hb hc h

theorem add_mono_right (a b c : F64) (ha : F64Order.Fin a) (hb : F64Order.Fin b) (hc : F64Order.Fin c)
    (h : F64.le a b = true) : F64.le (F64.add c a) (F64.add c b) = true :=
  F64Round.add_mono_right ha hb hc h

theorem sub_mono_left (a b c : F64) (ha : F64Order.Fin a) (hb : F64Order.Fin b) (hc : F64Order.Fin c)
    (h : F64.le a b = true) : F64.le (F64.sub a c) (F64.sub b c) = true :=
  F64Round.sub_mono_left ha hb hc h

theorem sub_anti_right (a b c : F64) (ha : F64Order.Fin a) (hb : F64Order.Fin b) (hc : F64Order.Fin c)
    (h : F64.le a b = true) : F64.le (F64.sub c b) (F64.sub c a) = true :=
  F64Round.sub_anti_right ha hb hc h

example : F64Order.Fin F64.one ∧ F64Order.Fin F64.three ∧ F64Order.Fin ⟨0x3CA0000000000001⟩ ∧
    F64.le F64.one F64.three = true ∧
    F64.le (F64.add F64.one ⟨0x3CA0000000000001⟩) (F64.add F64.three ⟨0x3CA0000000000001⟩) = true ∧
    F64.le (F64.sub ⟨0x3CA0000000000001⟩ F64.three) (F64.sub ⟨0x3CA0000000000001⟩ F64.one) = true := by
  decide +kernel

/-- `half` of the instance `IvlF64` (`0.5 * x`) is monotone -/
theorem half_mono (a b : F64) (ha : F64Order.Fin a) (hb : F64Order.Fin b) (h : F64.le a b = true) :
    F64.le (F64.mul F64.half a) (F64.mul F64.half b) = true :=
  mul_mono_of_nonneg fin_half ha hb (by have := toInt_half; omega) h

/-- `dbl` of the instance `IvlF64` (`2 * x`) is monotone (results may be ±inf) -/
theorem dbl_mono (a b : F64) (ha : F64Order.Fin a) (hb : F64Order.Fin b) (h : F64.le a b = true) :
    F64.le (F64.mul F64.two a) (F64.mul F64.two b) = true :=
  mul_mono_of_nonneg fin_two ha hb (by rw [toInt_two]; positivity) h

/-- `0.5 * x` is exact unless it underflows: for every float with exponent field ≥ 2 (`|x| ≥ 2^-1021`) -/
theorem half_exact (x : F64) (hx : F64Order.Fin x) (h : 2 ≤ x.expField) :
    F64Order.Fin (F64.mul F64.half x) ∧ 2 * toInt (F64.mul F64.half x) = toInt x :=
  F64Round.half_exact hx (mag_even_of_expField h)

/-- `2 * x` is exact unless it overflows: for every float with exponent field ≤ 2045 (`|x| < 2^1023`) -/
theorem dbl_exact (x : F64) (hx : F64Order.Fin x) (h : x.expField ≤ 2045) :
    F64Order.Fin (F64.mul F64.two x) ∧ toInt (F64.mul F64.two x) = 2 * toInt x := by
  apply F64Round.dbl_exact hx
  have h1 := F64Round.mant_lt x
  have h2 : 2 ^ (x.expField - 1) ≤ 2 ^ 2044 := Nat.pow_le_pow_right (by decide) (by omega)
  have h3 : (2 : Nat) ^ 2098 = 2 * (2 ^ 53 * 2 ^ 2044) := by
    rw [← Nat.pow_add, ← Nat.pow_succ']
  unfold mag
  have : x.mant * 2 ^ (x.expField - 1) < 2 ^ 53 * 2 ^ 2044 :=
    Nat.lt_of_lt_of_le (Nat.mul_lt_mul_of_pos_right h1 (Nat.two_pow_pos _)) (Nat.mul_le_mul_left _ h2)
  omega

/-- `2 * m` overflows to the infinity of the sign of `m` exactly for the top binade (`|m| ≥ 2^1023`) -/
theorem dbl_big (m : F64) (hm : F64Order.Fin m) (h : m.expField = 2046) :
    F64.mul F64.two m = F64.inf m.signBit := dbl_overflow hm h

example : F64Order.Fin ⟨0xFFE0000000000000⟩ ∧ (⟨0xFFE0000000000000⟩ : F64).expField = 2046 ∧
    F64.mul F64.two ⟨0xFFE0000000000000⟩ = F64.inf true := by decide +kernel

example : F64Order.Fin cPi ∧ 2 ≤ cPi.expField ∧ cPi.expField ≤ 2045 ∧ F64.mul F64.half cPi = cHalfPi ∧
    F64.mul F64.two cPi = cTwoPi := by decide +kernel

/-- underflow / overflow do occur outside the stated ranges -/
example : 2 * toInt (F64.mul F64.half ⟨0x0000000000000001⟩) ≠ toInt ⟨0x0000000000000001⟩ ∧
    F64.mul F64.two ⟨0x7FEFFFFFFFFFFFFF⟩ = F64.inf false := by decide +kernel

/-! ### 4. `math.Remainder(x, 2π)` lands in `[-π, π]` -/

theorem rem_range (x : F64) (hx : F64Order.Fin x) :
    F64.le ⟨0xc00921fb54442d18⟩ (F64.remainder x f64TwoPi) = true ∧
      F64.le (F64.remainder x f64TwoPi) f64Pi = true := by
  have hy : F64Order.Fin cTwoPi := consts_fin.2.2.1
  have hy0 : cTwoPi.isZero = false := by decide
  have hpi : F64Order.Fin cPi := consts_fin.1
  have hnpi : F64Order.Fin cNegPi := consts_fin.2.1
  show F64.le cNegPi (F64.remainder x cTwoPi) = true ∧ F64.le (F64.remainder x cTwoPi) cPi = true
  obtain ⟨n, h1, h2, h3⟩ := ext_remainder hx hy hy0
  have hnn := remainder_not_nan hx hy hy0
  rw [le_iff_ext (isNaN_false hnpi) hnn, le_iff_ext hnn (isNaN_false hpi), h1, ext_finite hnpi,
    ext_finite hpi, toInt_cNegPi]
  have hm : (mag cTwoPi : Int) = 2 * toInt cPi := by
    rw [mag_cTwoPi, toInt_eq_mag, cPi_sign]; simp
  rw [hm] at h2 h3 ⊢
  have f1 : rint (toInt cPi) 1 = toInt cPi := by simpa using rint_fix cPi hpi 1 (by decide)
  have f2 : rint (-toInt cPi) 1 = -toInt cPi := by rw [rint_neg, f1]
  generalize toInt x - n * (2 * toInt cPi) = r at *
  constructor
  · calc -toInt cPi = rint (-toInt cPi) 1 := f2.symm
      _ ≤ rint r 1 := rint_mono (by decide) (by decide) (by omega)
  · calc rint r 1 ≤ rint (toInt cPi) 1 := rint_mono (by decide) (by decide) (by omega)
      _ = toInt cPi := f1

/-- non-vacuity: a large argument and a subnormal one -/
example : F64Order.Fin ⟨0x4340000000000000⟩ ∧
    F64.le ⟨0xc00921fb54442d18⟩ (F64.remainder ⟨0x4340000000000000⟩ f64TwoPi) = true ∧
    F64.le (F64.remainder ⟨0x4340000000000000⟩ f64TwoPi) f64Pi = true ∧
    F64.remainder ⟨0x0000000000000001⟩ f64TwoPi = ⟨0x0000000000000001⟩ := by decide +kernel

/-- `math.Remainder(x, 2π)` is exact: it is finite and equals `x − n·2π` (the float `2π`) for an integer `n` -/
theorem rem_exact (x : F64) (hx : F64Order.Fin x) :
    ∃ n : Int, F64Order.Fin (F64.remainder x f64TwoPi) ∧
      toInt (F64.remainder x f64TwoPi) = toInt x - n * toInt f64TwoPi := by
  have hy : F64Order.Fin cTwoPi := consts_fin.2.2.1
  have hy0 : cTwoPi.isZero = false := by decide
  obtain ⟨n, h1, h2, _, _⟩ := remainder_exact hx hy hy0
  refine ⟨n, h1, ?_⟩
  have : toInt f64TwoPi = (mag cTwoPi : Int) := by
    show toInt cTwoPi = _
    rw [toInt_eq_mag, cTwoPi_sign]; simp
  rw [this]; exact h2

example : ∃ n : Int, toInt (F64.remainder ⟨0x4024000000000000⟩ f64TwoPi) =
    toInt (⟨0x4024000000000000⟩ : F64) - n * toInt f64TwoPi := ⟨2, by decide +kernel⟩

/-! ### 5. no overflow for arguments of the documented range -/

/-- `a ⊕ b` is finite whenever `|a| ≤ π` and `|b| < 2^1023` -/
theorem add_fin (a b : F64) (ha : F64Order.Fin a) (hb : F64Order.Fin b)
    (hpi : F64.le (F64.abs a) f64Pi = true) (hbe : b.expField < 2046) : F64Order.Fin (F64.add a b) := by
  apply add_fin_of_le_max ha hb
  have hfa : F64Order.Fin (F64.abs a) := (fin_abs a).2 ha
  have h1 := (le_iff hfa consts_fin.1).1 hpi
  rw [toInt_abs] at h1
  have hmb : mag b < 2 ^ 2097 := by
    have h1 := F64Round.mant_lt b
    have h2 : 2 ^ (b.expField - 1) ≤ 2 ^ 2044 := Nat.pow_le_pow_right (by decide) (by omega)
    have h3 : (2 : Nat) ^ 2097 = 2 ^ 53 * 2 ^ 2044 := by rw [← Nat.pow_add]
    unfold mag
    rw [h3]
    exact Nat.lt_of_lt_of_le (Nat.mul_lt_mul_of_pos_right h1 (Nat.two_pow_pos _)) (Nat.mul_le_mul_left _ h2)
  have hb' : (toInt b).natAbs = mag b := natAbs_toInt b
  have hc : toInt cPi + 2 ^ 2097 ≤ (maxMag : Int) := by decide +kernel
  show (toInt a + toInt b).natAbs ≤ maxMag
  rw [← Int.natCast_natAbs] at h1
  change ((toInt a).natAbs : Int) ≤ toInt cPi at h1
  omega

example : F64Order.Fin cPi ∧ F64Order.Fin ⟨0x7FDFFFFFFFFFFFFF⟩ ∧ F64.le (F64.abs cPi) f64Pi = true ∧
    (⟨0x7FDFFFFFFFFFFFFF⟩ : F64).expField < 2046 ∧ F64Order.Fin (F64.add cPi ⟨0x7FDFFFFFFFFFFFFF⟩) := by
  decide +kernel

/-! ### 6. the constant facts of `IvlLaws` / `IvlLengthLaws` for the constants of `S2.IvlF64` -/

theorem consts_finite : F64Order.Fin (IvlOps.pi : F64) ∧ F64Order.Fin (IvlOps.negPi : F64) ∧
    F64Order.Fin (IvlOps.twoPi : F64) ∧ F64Order.Fin (IvlOps.halfPi : F64) ∧
    F64Order.Fin (IvlOps.negHalfPi : F64) ∧ F64Order.Fin (IvlOps.negOne : F64) ∧
    F64Order.Fin (IvlOps.one : F64) ∧ F64Order.Fin (IvlOps.zero : F64) := consts_fin

theorem negPi_lt_pi : F64.lt (IvlOps.negPi : F64) IvlOps.pi = true := F64Round.negPi_lt_pi
theorem negHalfPi_lt_halfPi : F64.lt (IvlOps.negHalfPi : F64) IvlOps.halfPi = true := F64Round.negHalfPi_lt_halfPi
theorem zero_lt_one : F64.lt (IvlOps.zero : F64) IvlOps.one = true := F64Round.zero_lt_one
theorem negOne_neg : F64.lt (IvlOps.negOne : F64) IvlOps.zero = true := F64Round.negOne_lt_zero
theorem zero_one_lat : F64.le (IvlOps.negHalfPi : F64) IvlOps.zero = true ∧
    F64.le (IvlOps.one : F64) IvlOps.halfPi = true := F64Round.zero_one_lat
/-- `(-π) ⊖ π < 0` (it is exactly −2π) -/
theorem sub_negPi_pi_neg : F64.lt (IvlOps.sub (IvlOps.negPi : F64) IvlOps.pi) IvlOps.zero = true :=
  F64Round.sub_negPi_pi_neg
/-- `((-π) ⊖ π) ⊕ 2π` is not positive (it is exactly 0) -/
theorem empty_len_not_pos :
    F64.lt (IvlOps.zero : F64) (IvlOps.add (IvlOps.sub (IvlOps.negPi : F64) IvlOps.pi) IvlOps.twoPi) = false :=
  F64Round.empty_len_not_pos
/-- `-π`, `-π/2` of the instance are the negations of `π`, `π/2`; `2π` is twice `π` -/
theorem consts_rel : (IvlOps.negPi : F64) = F64.neg IvlOps.pi ∧ (IvlOps.negHalfPi : F64) = F64.neg IvlOps.halfPi ∧
    toInt (IvlOps.twoPi : F64) = 2 * toInt (IvlOps.pi : F64) ∧
    toInt (IvlOps.pi : F64) = 2 * toInt (IvlOps.halfPi : F64) :=
  ⟨cNegPi_eq, cNegHalfPi_eq, toInt_cTwoPi, toInt_cPi⟩

/-- `math.Abs(a) ≤ π ↔ -π ≤ a ∧ a ≤ π` for every non-NaN `a` (incl. ±inf) -/
theorem abs_le_pi (a : F64) (ha : a.isNaN = false) :
    F64.le (IvlOps.abs a) (IvlOps.pi : F64) = true ↔
      (F64.le (IvlOps.negPi : F64) a = true ∧ F64.le a (IvlOps.pi : F64) = true) := by
  have := abs_le_iff a cPi ha (isNaN_false consts_fin.1)
  rw [← cNegPi_eq] at this
  exact this

theorem abs_le_halfPi (a : F64) (ha : a.isNaN = false) :
    F64.le (IvlOps.abs a) (IvlOps.halfPi : F64) = true ↔
      (F64.le (IvlOps.negHalfPi : F64) a = true ∧ F64.le a (IvlOps.halfPi : F64) = true) := by
  have := abs_le_iff a cHalfPi ha (isNaN_false consts_fin.2.2.2.1)
  rw [← cNegHalfPi_eq] at this
  exact this

/-- for NaN both sides are false, so the equivalence holds for ALL `a` -/
theorem abs_le_pi_all (a : F64) :
    F64.le (IvlOps.abs a) (IvlOps.pi : F64) = true ↔
      (F64.le (IvlOps.negPi : F64) a = true ∧ F64.le a (IvlOps.pi : F64) = true) := by
  cases ha : a.isNaN
  · exact abs_le_pi a ha
  · have h1 : F64.le (F64.abs a) cPi = false := le_nan_left _ _ (by rw [isNaN_abs]; exact ha)
    have h2 : F64.le a cPi = false := le_nan_left _ _ ha
    show F64.le (F64.abs a) cPi = true ↔ (F64.le cNegPi a = true ∧ F64.le a cPi = true)
    rw [h1, h2]; simp

example : F64.le (IvlOps.abs (F64.neg F64.three)) (IvlOps.pi : F64) = true ∧
    F64.le (IvlOps.abs (F64.inf true)) (IvlOps.pi : F64) = false ∧
    F64.le (IvlOps.negPi : F64) (F64.inf true) = false := by decide +kernel

/-- float `==` on finite values is equality of the exact values (`+0 == -0`) -/
theorem feq_iff_toInt (a b : F64) (ha : F64Order.Fin a) (hb : F64Order.Fin b) :
    IvlOps.feq a b = true ↔ toInt a = toInt b := feq_iff ha hb

/-- … and equality of the bit patterns unless one of them is −0 -/
theorem feq_iff_eq (a b : F64) (ha : F64Order.Fin a) (hb : F64Order.Fin b) (za : a ≠ F64.zero true)
    (zb : b ≠ F64.zero true) : IvlOps.feq a b = true ↔ a = b := by
  rw [feq_iff_toInt a b ha hb]
  exact ⟨fun h => toInt_inj h za zb, fun h => by rw [h]⟩

example : IvlOps.feq (F64.zero false) (F64.zero true) = true ∧ F64.zero false ≠ F64.zero true ∧
    toInt (F64.zero false) = toInt (F64.zero true) := by decide +kernel

/-! ### 7. order facts on the non-NaN floats (what a `LinearOrder` would give) -/

theorem le_refl (a : F64) (ha : a.isNaN = false) : F64.le a a = true := by
  rw [le_iff_ext ha ha]

theorem le_trans (a b c : F64) (ha : a.isNaN = false) (hb : b.isNaN = false) (hc : c.isNaN = false)
    (h1 : F64.le a b = true) (h2 : F64.le b c = true) : F64.le a c = true := by
  rw [le_iff_ext ha hb] at h1; rw [le_iff_ext hb hc] at h2; rw [le_iff_ext ha hc]; omega

theorem le_total (a b : F64) (ha : a.isNaN = false) (hb : b.isNaN = false) :
    F64.le a b = true ∨ F64.le b a = true := by
  rw [le_iff_ext ha hb, le_iff_ext hb ha]; omega

theorem lt_iff_not_le (a b : F64) (ha : a.isNaN = false) (hb : b.isNaN = false) :
    F64.lt a b = true ↔ ¬ F64.le b a = true := by
  rw [lt_iff_ext ha hb, le_iff_ext hb ha]; omega

theorem le_antisymm_feq (a b : F64) (ha : a.isNaN = false) (hb : b.isNaN = false)
    (h1 : F64.le a b = true) (h2 : F64.le b a = true) : F64.feq a b = true := by
  rw [le_iff_ext ha hb] at h1; rw [le_iff_ext hb ha] at h2; rw [feq_iff_ext ha hb]; omega

example : (F64.inf true).isNaN = false ∧ F64.three.isNaN = false ∧ F64.le (F64.inf true) F64.three = true ∧
    F64.lt (F64.inf true) F64.three = true := by decide +kernel

end S2Proofs.C19F64
