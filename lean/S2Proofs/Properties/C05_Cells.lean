/-
  Property C05 for regions that are CELLS and CELL UNIONS — the region hypotheses of
  `S2Proofs.Properties.C05` (`IntersectsSafe`, `ContainsSafe`, `StartOK`, "the start cells cover")
  discharged exactly.

  Regions (model: `S2.CovererRegions`, the same values the oracle `Oracle.C05` compares with Go for the
  harness kinds cell / cu / cub):
      `regionOf (.cell id)`        = `cellRegion id`        s2.Cell       (`id.Contains`, `id.Intersects`)
      `regionOf (.cellUnion cu)`   = `cellUnionRegion cu`   *s2.CellUnion (`ContainsCellID`, `IntersectsCellID`, binary search)
  Point set of a region: the LEAF cell ids (odd numbers) it covers, `LeafIn k.cells` — the discrete
  semantics of C11.

  What is left as hypothesis, and why:
    * validity of the input: `isValidCU k.cells` (cell: `isValid id`; union: valid ids, sorted, disjoint —
      NOT necessarily normalized), exactly what `IntersectsCellID`'s binary search needs (for the interior
      statements validity of the single ids is enough: any order, any overlaps);
    * `bound` = `region.CellUnionBound()` and `geo cu` = `(&cu).CellUnionBound()` of the re-cover branch are
      FLOAT geometry (`CapBound().CellUnionBound()`); they enter as data with their contract
      "valid cells that cover" (`BoundOK`, `GeoSound`).  For a region that returns its own cells as bound
      (harness kind `cub`) `BoundOK` holds by reflexivity (`ownBound_ok`).
  Everything else — every `Options` (any ints), every fuel (depth of the re-cover recursion) — is universally
  quantified.

  Contents
   (R1) `regionOf_intersectsSafe`, `regionOf_containsSafe`, `cellUnionRegion_containsSafe_any`
   (R2) `startCells_cover`, `fastCovering_covers` (FastCovering covers its bound, re-cover recursion included)
   (R3) `covering_covers_region`   Covering / CellUnion cover every leaf of the region
   (R4) `interiorCovering_inside_region`, `interiorCovering_inside_cellUnion_any`
   (R5) `region_sandwich`, `covering_levels_region`, `cellUnion_normalized_region`
   (R6) own-bound corollaries with no hypothesis but `isValidCU cu`
   (S)  output size: `atMostMaxCells_false` (the unqualified doc promise is false), `rawResult_size`,
        `interior_rawResult_size`, `covering_size` (≤ max(MaxCells, #start cells)), `fastCovering_size`,
        `fastCoveringRec_size`, `covering_size_from_bound` (≤ max(MaxCells, 6) end to end), the MinLevel exception
        shown by example;
   (K)  `isCanonical_complete` — `IsCanonical` characterised exactly (the converse of `isCanonical_sound`).
-/
import S2Proofs.C05.Regions
import S2Proofs.C05.Size
import S2Proofs.C05.CanonicalIff
import S2Proofs.C05.FastSize
open S2 S2.CellID S2.CellUnion S2.Coverer
namespace S2Proofs.C05

/-! ### (R1) the region predicates are safe -/

/-- (R1a) `IntersectsCell` of a cell / of a valid cell union never says *no* for a cell that holds a
    leaf of the region. -/
theorem regionOf_intersectsSafe (k : RegionKind) (hk : isValidCU k.cells = true) :
    IntersectsSafe (regionOf k) (LeafIn k.cells) := by
  cases k with
  | cell id => exact (cellRegion_intersectsSafe id).congr (fun n h => (leafIn_single id n).mp h)
  | cellUnion cu => exact cellUnionRegion_intersectsSafe hk

/-- (R1b) `ContainsCell` of a cell / of a valid cell union never says *yes* for a cell with a leaf
    outside the region. -/
theorem regionOf_containsSafe (k : RegionKind) (hk : isValidCU k.cells = true) :
    ContainsSafe (regionOf k) (LeafIn k.cells) := by
  cases k with
  | cell id =>
    have hid : isValid id = true := by rw [← isValidCU_single]; exact hk
    exact (cellRegion_containsSafe hid).congr (fun n h => (leafIn_single id n).mpr h)
  | cellUnion cu => exact cellUnionRegion_containsSafe ((isValidCU_iff cu).mp hk).1

/-- (R1c) for `ContainsCell` of a cell union NOTHING but validity of the single ids is needed: the list may
    be unsorted, overlapping, un-normalized (the CAVEAT of cellunion.go concerns false negatives only). -/
theorem cellUnionRegion_containsSafe_any (cu : CU) (hv : ∀ c ∈ cu, isValid c = true) :
    ContainsSafe (cellUnionRegion cu) (LeafIn cu) :=
  cellUnionRegion_containsSafe hv

/-- non-vacuity of (R1): a valid, NOT normalized union (four siblings) and an unsorted list -/
example : isValidCU (RegionKind.cellUnion (childrenList (fromFace 2))).cells = true ∧
    isNormalizedCU (childrenList (fromFace 2)) = false ∧
    (∀ c ∈ [fromFace 3, child (fromFace 1) 2, fromFace 0], isValid c = true) ∧
    isValidCU [fromFace 3, child (fromFace 1) 2, fromFace 0] = false := by
  refine ⟨by decide +kernel, by decide +kernel, ?_, by decide +kernel⟩
  intro c hc
  simp only [List.mem_cons, List.not_mem_nil, or_false] at hc
  rcases hc with rfl | rfl | rfl <;> decide +kernel

/-- sortedness IS needed for `IntersectsSafe`: on the unsorted list `[3/, 1/2, 0/]` the binary search
    answers *no* for the cell `1/2` itself. -/
example : intersectsCellID [fromFace 3, child (fromFace 1) 2, fromFace 0] (child (fromFace 1) 2) = false := by decide +kernel

/-! ### (R2) the start cells: `FastCovering` covers its bound -/

/-- contract of `region.CellUnionBound()`: valid cells covering every leaf of the region -/
structure BoundOK (cells bound : CU) : Prop where
  valid : ∀ c ∈ bound, isValid c = true
  covers : S2Proofs.C11.LeavesSubset cells bound

/-- a region that hands out its own (valid) cells as `CellUnionBound()` — harness kind `cub` -/
theorem ownBound_ok (cu : CU) (hv : ∀ c ∈ cu, isValid c = true) : BoundOK cu cu := ⟨hv, fun _ _ h => h⟩

/-- (R2a) `FastCovering` covers every leaf its bound covers — every configuration (any ints), every depth of
    the re-cover recursion, every sound `geo`.  (Together with `fastCovering_levels`: covers AND honours
    MinLevel / MaxLevel / LevelMod.) -/
theorem fastCovering_covers (fuel : Nat) (geo : CU → CU) (hgeo : GeoSound geo) (o : Options) (bound : CU)
    (hb : ∀ c ∈ bound, isValid c = true) :
    S2Proofs.C11.LeavesSubset bound (fastCoveringRec fuel geo o bound) :=
  (sub_iff_leavesSubset _ _).mp (normalizeCoveringRec_sub hgeo fuel _ (newCoverer_ok o) bound hb)

/-- (R2b) the start cells `initialCandidates` computes meet the whole start contract of the search:
    `StartOK`, and they cover whatever the bound covers. -/
theorem startCells_cover (fuel : Nat) (geo : CU → CU) (hgeo : GeoSound geo) (o : Options) (bound : CU)
    (hb : ∀ c ∈ bound, isValid c = true) :
    StartOK (newCoverer o) (startCellsRec fuel geo o bound) ∧
      S2Proofs.C11.LeavesSubset bound (startCellsRec fuel geo o bound) :=
  ⟨startCellsRec_ok fuel geo o bound hgeo.valid hb, fastCovering_covers fuel geo hgeo _ bound hb⟩

/-- a sound `geo` exists: e.g. "the valid cells of the union itself" -/
theorem geoSound_filter : GeoSound (fun cu => cu.filter isValid) where
  valid := fun _ _ hc => (List.mem_filter.mp hc).2
  covers := fun cu hcu _ _ ⟨c, hc, hin⟩ =>
    ⟨c, List.mem_filter.mpr ⟨hc, ((isValidCU_iff cu).mp hcu).1 c hc⟩, hin⟩

/-! ### (R3) coverings cover -/

/-- (R3) END TO END for cell and cell-union regions: `Covering` and `CellUnion`, computed from
    `CellUnionBound()` on exactly as the code does, cover every leaf of the region — for every `Options`
    (any ints), every depth of the re-cover recursion.  Hypotheses: the region is a valid cell / valid cell
    union, and the two float-geometry inputs keep their contract. -/
theorem covering_covers_region (fuel : Nat) (geo : CU → CU) (hgeo : GeoSound geo) (o : Options)
    (k : RegionKind) (hk : isValidCU k.cells = true) (bound : CU) (hb : BoundOK k.cells bound) :
    S2Proofs.C11.LeavesSubset k.cells (coveringFromBound fuel geo o false (regionOf k) bound) ∧
    S2Proofs.C11.LeavesSubset k.cells (cellUnionFromBound fuel geo o false (regionOf k) bound) := by
  obtain ⟨hs, hc⟩ := startCells_cover fuel geo hgeo o bound hb.valid
  have := covering_covers_heap o (regionOf k) (LeafIn k.cells) (regionOf_intersectsSafe k hk) _ hs
    (fun n hn hP => hc n hn (hb.covers n hn hP))
  exact ⟨fun n hn hP => (this n hn hP).1, fun n hn hP => (this n hn hP).2⟩

/-! ### (R4) interior coverings are inside -/

/-- (R4) END TO END: every leaf of `InteriorCovering` and of `InteriorCellUnion` of a cell / cell-union
    region is a leaf of the region.  The bound only has to consist of valid cells (it need not cover). -/
theorem interiorCovering_inside_region (fuel : Nat) (geo : CU → CU) (hgeo : ∀ cu, ∀ c ∈ geo cu, isValid c = true)
    (o : Options) (k : RegionKind) (hk : isValidCU k.cells = true) (bound : CU) (hb : ∀ c ∈ bound, isValid c = true) :
    S2Proofs.C11.LeavesSubset (coveringFromBound fuel geo o true (regionOf k) bound) k.cells ∧
    S2Proofs.C11.LeavesSubset (cellUnionFromBound fuel geo o true (regionOf k) bound) k.cells := by
  have hs := startCellsRec_ok fuel geo o bound hgeo hb
  have := interiorCovering_inside_heap o (regionOf k) (LeafIn k.cells) (regionOf_containsSafe k hk) _ hs
  exact ⟨fun n hn h => (this n hn).1 h, fun n hn h => (this n hn).2 h⟩

/-- (R4') the same for a cell union given as ANY list of valid ids (unsorted, overlapping, un-normalized). -/
theorem interiorCovering_inside_cellUnion_any (fuel : Nat) (geo : CU → CU) (hgeo : ∀ cu, ∀ c ∈ geo cu, isValid c = true)
    (o : Options) (cu : CU) (hv : ∀ c ∈ cu, isValid c = true) (bound : CU) (hb : ∀ c ∈ bound, isValid c = true) :
    S2Proofs.C11.LeavesSubset (coveringFromBound fuel geo o true (cellUnionRegion cu) bound) cu ∧
    S2Proofs.C11.LeavesSubset (cellUnionFromBound fuel geo o true (cellUnionRegion cu) bound) cu := by
  have hs := startCellsRec_ok fuel geo o bound hgeo hb
  have := interiorCovering_inside_heap o (cellUnionRegion cu) (LeafIn cu) (cellUnionRegion_containsSafe hv) _ hs
  exact ⟨fun n hn h => (this n hn).1 h, fun n hn h => (this n hn).2 h⟩

/-! ### (R5) sandwich, levels, normal form -/

/-- (R5a) `InteriorCovering ⊆ region ⊆ Covering` on leaf sets. -/
theorem region_sandwich (fuel : Nat) (geo : CU → CU) (hgeo : GeoSound geo) (o o' : Options)
    (k : RegionKind) (hk : isValidCU k.cells = true) (bound : CU) (hb : BoundOK k.cells bound) :
    S2Proofs.C11.LeavesSubset (coveringFromBound fuel geo o' true (regionOf k) bound)
      (coveringFromBound fuel geo o false (regionOf k) bound) := by
  intro n hn h
  exact (covering_covers_region fuel geo hgeo o k hk bound hb).1 n hn
    ((interiorCovering_inside_region fuel geo hgeo.valid o' k hk bound hb.valid).1 n hn h)

/-- (R5b) levels honoured (instance of `covering_levels_from_bound`; no condition on the region at all). -/
theorem covering_levels_region (fuel : Nat) (geo : CU → CU) (hgeo : ∀ cu, ∀ c ∈ geo cu, isValid c = true)
    (o : Options) (interior : Bool) (k : RegionKind) (bound : CU) (hb : ∀ c ∈ bound, isValid c = true) :
    ∀ c ∈ coveringFromBound fuel geo o interior (regionOf k) bound, LevelsOK (newCoverer o) c :=
  covering_levels_from_bound fuel geo o interior (regionOf k) bound hgeo hb

/-- (R5c) `CellUnion` / `InteriorCellUnion` return a NORMALIZED union (valid, sorted, disjoint, no four
    siblings) — for any region. -/
theorem cellUnion_normalized_region (fuel : Nat) (geo : CU → CU) (hgeo : ∀ cu, ∀ c ∈ geo cu, isValid c = true)
    (o : Options) (interior : Bool) (R : Region) (bound : CU) (hb : ∀ c ∈ bound, isValid c = true) :
    isNormalizedCU (cellUnionFromBound fuel geo o interior R bound) = true := by
  have hs := startCellsRec_ok fuel geo o bound hgeo hb
  unfold cellUnionFromBound cellUnionWith
  apply S2Proofs.C11.normalize_isNormalizedCU
  exact valid_of_res (coveringInternal_res heapLawful (newCoverer_ok o) interior R _ hs)

/-! ### (R6) no hypothesis but validity: a region that is its own bound (harness kind `cub`) -/

/-- (R6) a valid cell union used as a region with `CellUnionBound()` = its own cells: `Covering` covers it,
    `InteriorCovering` is inside it, for every `Options` and every depth. -/
theorem ownBound_covering (fuel : Nat) (geo : CU → CU) (hgeo : GeoSound geo) (o : Options) (cu : CU)
    (hcu : isValidCU cu = true) :
    S2Proofs.C11.LeavesSubset cu (coveringFromBound fuel geo o false (cellUnionRegion cu) cu) ∧
    S2Proofs.C11.LeavesSubset cu (cellUnionFromBound fuel geo o false (cellUnionRegion cu) cu) ∧
    S2Proofs.C11.LeavesSubset (coveringFromBound fuel geo o true (cellUnionRegion cu) cu) cu ∧
    S2Proofs.C11.LeavesSubset (cellUnionFromBound fuel geo o true (cellUnionRegion cu) cu) cu := by
  have hv := ((isValidCU_iff cu).mp hcu).1
  have h1 := covering_covers_region fuel geo hgeo o (.cellUnion cu) hcu cu (ownBound_ok cu hv)
  have h2 := interiorCovering_inside_region fuel geo hgeo.valid o (.cellUnion cu) hcu cu hv
  exact ⟨h1.1, h1.2, h2.1, h2.2⟩

/-- non-vacuity of (R3)/(R4)/(R6), by evaluation: the valid union `[0/12, 0/13, 1/]` (with itself as bound,
    `MaxCells 2`, `MaxLevel 1`): the covering is the two faces, the interior covering is face 1. -/
example : isValidCU [child (child (fromFace 0) 1) 2, child (child (fromFace 0) 1) 3, fromFace 1] = true ∧
    coveringFromBound 1 (fun cu => cu.filter isValid) ⟨0, 1, 1, 2⟩ false
        (cellUnionRegion [child (child (fromFace 0) 1) 2, child (child (fromFace 0) 1) 3, fromFace 1])
        [child (child (fromFace 0) 1) 2, child (child (fromFace 0) 1) 3, fromFace 1]
      = [child (fromFace 0) 1, fromFace 1] ∧
    coveringFromBound 1 (fun cu => cu.filter isValid) ⟨0, 1, 1, 2⟩ true
        (cellUnionRegion [child (child (fromFace 0) 1) 2, child (child (fromFace 0) 1) 3, fromFace 1])
        [child (child (fromFace 0) 1) 2, child (child (fromFace 0) 1) 3, fromFace 1]
      = [fromFace 1] := by
  refine ⟨by decide +kernel, ?_, ?_⟩ <;>
  · simp only [coveringFromBound, startCellsRec, fastCoveringRec, normalizeCoveringRec, normalizeCovering, preNormalize,
      recoverOwn, covering, cellUnionWith, coveringWith, coveringInternal, normalize, sortIDs_eq_isort]
    decide +kernel

/-- non-vacuity for a CELL region: the level-3 cell `0/123`, bound = its face: `Covering` is the cell itself,
    `InteriorCovering` too (the search descends 3 levels), with `LevelMod 3` the interior covering is the
    cell as well since level 3 is on the grid. -/
example : isValidCU (RegionKind.cell (child (child (child (fromFace 0) 1) 2) 3)).cells = true ∧
    coveringFromBound 1 (fun cu => cu.filter isValid) ⟨0, 30, 1, 8⟩ false
        (regionOf (.cell (child (child (child (fromFace 0) 1) 2) 3))) [fromFace 0]
      = [child (child (child (fromFace 0) 1) 2) 3] ∧
    coveringFromBound 1 (fun cu => cu.filter isValid) ⟨0, 30, 3, 8⟩ true
        (regionOf (.cell (child (child (child (fromFace 0) 1) 2) 3))) [fromFace 0]
      = [child (child (child (fromFace 0) 1) 2) 3] := by
  refine ⟨by decide +kernel, ?_, ?_⟩ <;>
  · simp only [coveringFromBound, startCellsRec, fastCoveringRec, normalizeCoveringRec, normalizeCovering, preNormalize,
      recoverOwn, covering, cellUnionWith, coveringWith, coveringInternal, normalize, sortIDs_eq_isort]
    decide +kernel

/-! ### (S) output size

regioncoverer.go: "`rc := &s2.RegionCoverer{MaxLevel: 30, MaxCells: 5}` … yields a CellUnion of at most 5 cells",
qualified by the notes "MinLevel takes priority over MaxCells", "up to 6 cells may be returned if that is the
minimum number of cells required", "an arbitrary number of cells may be returned if MinLevel is too high".
The search starts from the cells of the temporary `FastCovering` (`MaxCells = min(4, MaxCells)`); the exact
statement the code satisfies is:  at most `max(MaxCells, number of start cells)` cells.  -/

/-- the unqualified promise "at most MaxCells cells" -/
def AtMostMaxCells : Prop :=
  ∀ (o : Options) (R : Region) (start : CU), StartOK (newCoverer o) start → (newCoverer o).minLevel = 0 →
    ((covering o R start).length : Int) ≤ max o.maxCells 0

/-- … is FALSE, as the doc's second note says: three cells on three faces (a cube corner), `MaxCells = 1`,
    start cells = the three cells: the covering has 3 cells. -/
theorem atMostMaxCells_false : ¬ AtMostMaxCells := by
  intro h
  have := h ⟨0, 30, 1, 1⟩ (cellUnionRegion [0x0aaaaaaaaaaaaaab, 0x2aaaaaaaaaaaaaab, 0x4aaaaaaaaaaaaaab])
    [0x0aaaaaaaaaaaaaab, 0x2aaaaaaaaaaaaaab, 0x4aaaaaaaaaaaaaab]
    (by intro c hc
        simp only [List.mem_cons, List.not_mem_nil, or_false] at hc
        rcases hc with rfl | rfl | rfl <;> decide +kernel)
    (by decide +kernel)
  revert this
  simp only [covering, cellUnionWith, coveringWith, coveringInternal, normalize, sortIDs_eq_isort]
  decide +kernel

/-- (S1) EXTERIOR search, `MinLevel = 0` (after clamping), EVERY LevelMod: the raw result of the search (before the
    final Normalize / Denormalize) has at most `max(MaxCells, number of start cells)` cells — every region,
    every pop order. -/
theorem rawResult_size {Q : Type} {ops : PQOps Q} (law : LawfulPQ ops) (o : Options) (R : Region) (start : CU)
    (hmin : (newCoverer o).minLevel = 0) :
    ((rawResult ops (newCoverer o) false R start).length : Int) ≤ max o.maxCells start.length :=
  rawResult_size_ext law (newCoverer o) R hmin start

/-- (S2) INTERIOR search, EVERY MinLevel and LevelMod: the raw result has at most `max(MaxCells, number of start
    cells)` cells. -/
theorem interior_rawResult_size {Q : Type} {ops : PQOps Q} (law : LawfulPQ ops) (o : Options) (R : Region) (start : CU) :
    ((rawResult ops (newCoverer o) true R start).length : Int) ≤ max o.maxCells start.length :=
  rawResult_size_int law (newCoverer o) R start

/-- (S3) OUTPUT SIZE of `Covering`, `InteriorCovering`, `CellUnion`, `InteriorCellUnion` with `MinLevel = 0`,
    `LevelMod = 1` (after clamping; the defaults): at most `max(MaxCells, number of start cells)` cells — every
    region, every pop order, every MaxCells (also ≤ 0), every MaxLevel.
    (`LevelMod > 1`: the raw bounds (S1)/(S2) hold, but the final Normalize + Denormalize is not bounded here —
    `CoveringSizeAnyMod` below; no counterexample in 650 000 runs of the real code, see DELIVER.md.) -/
theorem covering_size {Q : Type} {ops : PQOps Q} (law : LawfulPQ ops) (o : Options) (interior : Bool) (R : Region)
    (start : CU) (hmin : (newCoverer o).minLevel = 0) (hmod : (newCoverer o).levelMod = 1) :
    ((coveringWith ops o interior R start).length : Int) ≤ max o.maxCells start.length ∧
    ((cellUnionWith ops o interior R start).length : Int) ≤ max o.maxCells start.length :=
  coveringWith_size law o interior R start hmin hmod

/-- the statement for every LevelMod (open: the final `Denormalize` re-expands cells merged by `Normalize`) -/
def CoveringSizeAnyMod : Prop :=
  ∀ (o : Options) (interior : Bool) (R : Region) (start : CU), StartOK (newCoverer o) start →
    (newCoverer o).minLevel = 0 →
    ((coveringWith heapOps o interior R start).length : Int) ≤ max o.maxCells start.length

/-- non-vacuity of (S3) and sharpness of the `max`: default options, the cube-corner region above: 3 start
    cells, `MaxCells = 1`, 3 cells returned = max(1, 3). -/
example : (newCoverer ⟨0, 30, 1, 1⟩).minLevel = 0 ∧ (newCoverer ⟨0, 30, 1, 1⟩).levelMod = 1 ∧
    (covering ⟨0, 30, 1, 1⟩ (cellUnionRegion [0x0aaaaaaaaaaaaaab, 0x2aaaaaaaaaaaaaab, 0x4aaaaaaaaaaaaaab])
      [0x0aaaaaaaaaaaaaab, 0x2aaaaaaaaaaaaaab, 0x4aaaaaaaaaaaaaab]).length = 3 := by
  refine ⟨by decide +kernel, by decide +kernel, ?_⟩
  simp only [covering, cellUnionWith, coveringWith, coveringInternal, normalize, sortIDs_eq_isort]
  decide +kernel

/-- the `MinLevel = 0` hypothesis of (S1)/(S3) is needed ("MinLevel takes priority over MaxCells"): `MinLevel 1`,
    `MaxCells 1`, one start cell (face 0), region = face 0: four cells. -/
example : StartOK (newCoverer ⟨1, 30, 1, 1⟩) [fromFace 0] ∧
    (covering ⟨1, 30, 1, 1⟩ (cellUnionRegion [fromFace 0]) [fromFace 0]).length = 4 := by
  constructor
  · intro c hc; simp only [List.mem_singleton] at hc; subst hc; decide +kernel
  · simp only [covering, cellUnionWith, coveringWith, coveringInternal, normalize, sortIDs_eq_isort]
    decide +kernel

/-- (S4) SIZE of `FastCovering` with `MinLevel = 0` (after clamping), EVERY LevelMod, any `recover` that keeps the
    bound (e.g. when the re-cover branch is not taken): at most `max(MaxCells, 6)` cells — either the covering
    fits, or its cells lie on pairwise different faces. -/
theorem fastCovering_size (o : Options) (recover : CU → CU) (bound : CU) (hmin : (newCoverer o).minLevel = 0)
    (hb : ∀ c ∈ bound, isValid c = true)
    (hrec : takesRecover (newCoverer o) bound = true →
      ((recover (preNormalize (newCoverer o) bound)).length : Int) ≤ max o.maxCells 6) :
    ((fastCovering o recover bound).length : Int) ≤ max o.maxCells 6 :=
  normalizeCovering_size (newCoverer_ok o) hmin recover bound hb hrec

/-- (S5) SIZE of `FastCovering` with `MinLevel = 0, LevelMod = 1`, the re-cover recursion of the code included
    (`recDepthOK`: the recursion bottoms out within the `fuel` nested re-coverings the model follows). -/
theorem fastCoveringRec_size (fuel : Nat) (geo : CU → CU) (hgeo : ∀ cu, ∀ c ∈ geo cu, isValid c = true)
    (o : Options) (bound : CU) (hmin : (newCoverer o).minLevel = 0) (hmod : (newCoverer o).levelMod = 1)
    (hb : ∀ c ∈ bound, isValid c = true) (hd : recDepthOK fuel geo (newCoverer o) bound = true) :
    ((fastCoveringRec fuel geo o bound).length : Int) ≤ max o.maxCells 6 :=
  normalizeCoveringRec_size geo hgeo fuel _ (newCoverer_ok o) hmin hmod bound hb hd

/-- (S6) THE DOC'S PROMISE, made exact, END TO END from `CellUnionBound()` on: with `MinLevel = 0, LevelMod = 1`
    (the defaults) `Covering`, `InteriorCovering`, `CellUnion`, `InteriorCellUnion` return at most
    `max(MaxCells, 6)` cells — "up to 6 cells may be returned if that is the minimum number of cells required" —
    for every region, every MaxCells, every MaxLevel, every valid bound. -/
theorem covering_size_from_bound (fuel : Nat) (geo : CU → CU) (hgeo : ∀ cu, ∀ c ∈ geo cu, isValid c = true)
    (o : Options) (interior : Bool) (R : Region) (bound : CU)
    (hmin : (newCoverer o).minLevel = 0) (hmod : (newCoverer o).levelMod = 1) (hb : ∀ c ∈ bound, isValid c = true)
    (hd : recDepthOK fuel geo (newCoverer (tempOptions (newCoverer o))) bound = true) :
    ((coveringFromBound fuel geo o interior R bound).length : Int) ≤ max o.maxCells 6 ∧
    ((cellUnionFromBound fuel geo o interior R bound).length : Int) ≤ max o.maxCells 6 := by
  obtain ⟨t0, _, t1⟩ := newCoverer_tempOptions (newCoverer_ok o)
  have hst := fastCoveringRec_size fuel geo hgeo (tempOptions (newCoverer o)) bound t0 t1 hb hd
  have hsz := covering_size heapLawful o interior R (startCellsRec fuel geo o bound) hmin hmod
  have e : (tempOptions (newCoverer o)).maxCells = min 4 o.maxCells := rfl
  rw [e] at hst
  unfold coveringFromBound cellUnionFromBound
  unfold startCellsRec at hsz ⊢
  constructor <;> omega

/-- non-vacuity of (S5)/(S6): the six-cell bound is attained — one leaf cell per face, `MaxCells = 1`. -/
example : recDepthOK 0 (fun cu => cu) (newCoverer (tempOptions (newCoverer ⟨0, 30, 1, 1⟩)))
      [0x0aaaaaaaaaaaaaab, 0x2aaaaaaaaaaaaaab, 0x4aaaaaaaaaaaaaab, 0x6aaaaaaaaaaaaaab, 0x8aaaaaaaaaaaaaab, 0xaaaaaaaaaaaaaaab] = true ∧
    (coveringFromBound 0 (fun cu => cu) ⟨0, 30, 1, 1⟩ false
      (cellUnionRegion [0x0aaaaaaaaaaaaaab, 0x2aaaaaaaaaaaaaab, 0x4aaaaaaaaaaaaaab, 0x6aaaaaaaaaaaaaab, 0x8aaaaaaaaaaaaaab, 0xaaaaaaaaaaaaaaab])
      [0x0aaaaaaaaaaaaaab, 0x2aaaaaaaaaaaaaab, 0x4aaaaaaaaaaaaaab, 0x6aaaaaaaaaaaaaab, 0x8aaaaaaaaaaaaaab, 0xaaaaaaaaaaaaaaab]).length = 6 := by
  constructor
  · simp only [recDepthOK, takesRecover, preNormalize, normalize, sortIDs_eq_isort]
    decide +kernel
  · simp only [coveringFromBound, startCellsRec, fastCoveringRec, normalizeCoveringRec, normalizeCovering, preNormalize,
      cellUnionWith, coveringWith, coveringInternal, normalize, sortIDs_eq_isort]
    decide +kernel

/-! ### (K) `IsCanonical`, both directions -/

/-- (K) `IsCanonical` accepts a covering IF AND ONLY IF (`CanonSpec`)
      * every cell is valid, has `minLevel ≤ level ≤ trueMax` and lies on the LevelMod grid,
      * the cells are sorted and pairwise disjoint,
      * when there are more than `MaxCells` cells: no two consecutive cells have a common ancestor at `minLevel`
        or deeper (they could be merged),
      * there are no `4^LevelMod` consecutive cells forming a sibling run — same level `≥ minLevel + levelMod`,
        same ancestor `levelMod` levels up (`LinkedRun`, `LinkedRun.same`) — (they could be replaced by that ancestor).
    For every `Options` (any ints) and every list of ids.  The "only if" half extends `isCanonical_sound`
    (clauses 3 and 4 are new), the "if" half is its converse. -/
theorem isCanonical_complete (o : Options) (cov : CU) :
    isCanonical (newCoverer o) cov = true ↔ CanonSpec (newCoverer o) cov :=
  isCanonical_iff (newCoverer_ok o) cov

/-- the sibling-run clause at work: three children of face 0 are canonical, all four are not (they form a
    `LinkedRun` of length `4 = 4^1`); with `MaxCells = 2` the three children are rejected by the too-many clause. -/
example : isCanonical (newCoverer ⟨0, 30, 1, 8⟩) [child (fromFace 0) 0, child (fromFace 0) 1, child (fromFace 0) 2] = true ∧
    isCanonical (newCoverer ⟨0, 30, 1, 8⟩) (childrenList (fromFace 0)) = false ∧
    isCanonical (newCoverer ⟨0, 30, 1, 2⟩) [child (fromFace 0) 0, child (fromFace 0) 1, child (fromFace 0) 2] = false ∧
    isCanonical (newCoverer ⟨0, 30, 1, 2⟩) [fromFace 0, fromFace 1, fromFace 2] = true := by
  refine ⟨by decide +kernel, by decide +kernel, by decide +kernel, by decide +kernel⟩

/-- … and the run that `CanonSpec.noRun` forbids, exhibited -/
example : LinkedRun (newCoverer ⟨0, 30, 1, 8⟩) (childrenList (fromFace 0)) := by
  have e : childrenList (fromFace 0) =
      [child (fromFace 0) 0, child (fromFace 0) 1, child (fromFace 0) 2, child (fromFace 0) 3] := by decide +kernel
  rw [e]
  refine LinkedRun.cons ?_ (LinkedRun.cons ?_ (LinkedRun.cons ?_ (LinkedRun.single _))) <;>
    exact ⟨by decide +kernel, by decide +kernel, by decide +kernel⟩

end S2Proofs.C05
