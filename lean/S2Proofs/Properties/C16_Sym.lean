/-
  Property C16, order independence — the sign symmetry of the REAL numeric kernels, and what it gives for `Intersection`.

  NOTE (repair D50, docs/fixes/D50_intersection_canonical_order.diff): the statements about `Intersection` in this file are about
  the code BEFORE that repair — `intersectionOld` / `intersectionStableOld` of S2/EdgeNum.lean, in which only the stable kernel saw
  sorted edges and the exact kernel / the vertex sum were evaluated on the caller's order — and are kept as REGRESSION WITNESSES:
  they show what had to be assumed (`DecisiveAt`, `OccwSym` / `GenPos`), that each assumption was necessary, and the in-contract
  order dependence D50 (`bitIdentityOld_violated_in_contract`).  The repaired `Intersection` canonicalises its argument order once;
  its bit identity in all 8 orders needs none of these assumptions: S2Proofs.Properties.C16_Canonical.  The kernel theorems
  (`kernelSym_real`, `KernelSymOn`) are about the kernels themselves and are unaffected by the repair.

  `S2Proofs.Properties.C16` proves bit identity of `Intersection` under the 8 argument orders for ABSTRACT kernels satisfying
  `KernelSym`.  This file looks at the kernels of the model (`intersectionStableSorted`, `intersectionExact`, `signCorrect`,
  coordinate-wise negation `V3.neg`):

   * `KernelSym` AS STATED IS FALSE for them                                                        kernelSym_real_false
       - `sc_neg` fails when the hemisphere test `pt·s` is exactly 0 (then `signCorrect` returns `pt` and `−pt` unchanged);
       - `e_revA/e_revB/e_swap` fail in the collinear branch of `intersectionExact`, which returns the SAME endpoint, not the
         negated one                                                                                  e_swap_not_negated
     and `BitIdentityClaimOld` / `GoEqualityClaimOld` as stated are FALSE (edges with exactly antipodal endpoints pass `InContract`)
                                                                               bitIdentityClaimOld_false, goEqualityClaimOld_false
   * the corrected structure `KernelSymOn` (fields relativised to decidable domains, the exact kernel related by
     "same or negated") HOLDS for the real kernels, unconditionally                                       kernelSym_real
       domains: finite points (part of `GoodInput`);  hemisphere test decisive (`Decisive`: `pt·s` neither ±0 nor NaN);
       for REVERSING an edge in the collinear branch of the exact kernel: the `OrderedCCW` flags are symmetric (`OccwSym`,
       decidable; NOT proved from the float cascade of `RobustSign` — see DELIVER) — swapping the edges needs no such condition
   * hence, for the model's `Intersection`                intersectionOld_reverse_a, intersectionOld_reverse_b, intersectionOld_swap,
       all 8 orders                                                                        intersectionOld_order_independent
     and the corrected claim over all inputs                                                        bitIdentityClaimOld_corrected
   * `InContract ⇒ GoodInput` (no overflow on unit vectors, crossing edges share no vertex)          goodInput_of_inContract
     so that on the inputs of the property only `DecisiveAt` and (collinear branch) `OccwSym` remain
                                                                                   intersectionOld_order_independent_inContract
   * `OccwSym` follows from ONE primitive decidable fact — no two of the vertices involved are parallel (`GenPos`: five exact
     determinants ≠ 0) — through the unconditional soundness of `RobustSign` (C02) and the error analysis of `Normalize`
     (`C16N.toVector_normLe`)                                      occwSym_of_genPos, intersectionOld_order_independent_genPos
   * FINDING: `GenPos` cannot be dropped IN CONTRACT — collinear overlapping edges with two PARALLEL (not bit-equal) vertices:
     reversing an edge changes the result by 5°                                               bitIdentityOld_violated_in_contract
   * both remaining side conditions are NECESSARY on `GoodInput` (bit-pattern counterexamples, reproduced with the Go code)
                                                                                        decisive_necessary, occwSym_necessary

  All float-level facts hold on ALL bit patterns met inside the kernels (overflow to ±Inf, Inf − Inf = NaN, the one NaN
  pattern of the model): S2Proofs.F64Sym2, S2Proofs.C16Kernel.
-/
import S2Proofs.C16Kernel
import S2Proofs.C16Occw

set_option linter.unusedSimpArgs false
set_option linter.unusedVariables false

namespace S2Proofs.C16
open S2 S2.Exact S2.EdgeNum S2Proofs.F64Order S2Proofs.PredLemmas S2Proofs.F64Sym2 S2Proofs.C16K

/-! ## the relations of `C16.lean` in terms of `Z3` / `R3` -/

private theorem ZEq_iff {p q : V3} : ZEq p q ↔ Z3 p q := canonZero_eq_iff

private theorem ZEq_neg_iff {p' p : V3} : ZEq p' p.neg ↔ R3 p' p := canonZero_eq_iff

private theorem ZEqO_of_ORel {o' o : Option V3} (h : ORel o' o) : ZEqO o' (o.map V3.neg) := by
  cases o' <;> cases o
  · trivial
  · exact h
  · exact h
  · exact ZEq_neg_iff.mpr h

/-! ## `KernelSym` as stated does not hold for the real kernels -/

private def mk (x y z : UInt64) : V3 := ⟨⟨x⟩, ⟨y⟩, ⟨z⟩⟩

/-- `sc_neg` fails for the real hemisphere correction: `pt = (1,0,0)`, `s = 0` (the test `pt·s < 0` is false for `pt` and for
    `−pt`, so both are returned unchanged).  Hence `KernelSym` AS STATED is false for the real kernels. -/
theorem kernelSym_real_false : ¬ KernelSym intersectionStableSorted intersectionExact signCorrect V3.neg := by
  intro H
  have := H.sc_neg (mk 0x3FF0000000000000 0 0) zero3
  revert this
  unfold ZEq
  decide +kernel

/-- the collinear branch of the real exact kernel returns the SAME endpoint when the edges are swapped — not the negated one
    (regression input F3 of `C16.lean`): the `e_…` fields of `KernelSym` have to allow "same or negated" -/
theorem e_swap_not_negated : ∃ a0 a1 b0 b1 : V3, GoodInput a0 a1 b0 b1 ∧
    ¬ ZEq (intersectionExact b0 b1 a0 a1) (V3.neg (intersectionExact a0 a1 b0 b1)) ∧
    ZEq (intersectionExact b0 b1 a0 a1) (intersectionExact a0 a1 b0 b1) :=
  ⟨mk 0x0000000000000000 0x3fee405c2c895498 0xbfd4ddd1118f2cc3, mk 0x0000000000000000 0xbfa7771b1bbb43e1 0xbfeff7645e7860e3,
   mk 0x0000000000000000 0xbfa657fd72b54c3d 0xbfeff8321526404e, mk 0x0000000000000000 0xbfe3813010bbeb1e 0xbfe95e60a884f08f,
   by decide +kernel, by unfold ZEq; decide +kernel, by unfold ZEq; decide +kernel⟩

/-! ## the corrected structure -/

/-- "the same point or its negation, up to the sign of zero coordinates" -/
def PMEq (nneg : V3 → V3) (p' p : V3) : Prop := ZEq p' p ∨ ZEq p' (nneg p)

/-- `KernelSym` with every field relativised to a domain, and the exact kernel related by `PMEq`:
    `D` for the stable kernel and for swapping the edges in the exact kernel, `DA` / `DB` for reversing the first / second
    edge in the exact kernel, `DS` (point, vertex sum) for the hemisphere correction. -/
structure KernelSymOn (D DA DB : V3 → V3 → V3 → V3 → Prop) (DS : V3 → V3 → Prop)
    (K : V3 → V3 → V3 → V3 → Option V3) (E : V3 → V3 → V3 → V3 → V3) (sc : V3 → V3 → V3) (nneg : V3 → V3) : Prop where
  k_revA : ∀ a0 a1 b0 b1, D a0 a1 b0 b1 → ZEqO (K a1 a0 b0 b1) ((K a0 a1 b0 b1).map nneg)
  k_revB : ∀ a0 a1 b0 b1, D a0 a1 b0 b1 → ZEqO (K a0 a1 b1 b0) ((K a0 a1 b0 b1).map nneg)
  e_revA : ∀ a0 a1 b0 b1, DA a0 a1 b0 b1 → PMEq nneg (E a1 a0 b0 b1) (E a0 a1 b0 b1)
  e_revB : ∀ a0 a1 b0 b1, DB a0 a1 b0 b1 → PMEq nneg (E a0 a1 b1 b0) (E a0 a1 b0 b1)
  e_swap : ∀ a0 a1 b0 b1, D a0 a1 b0 b1 → PMEq nneg (E b0 b1 a0 a1) (E a0 a1 b0 b1)
  sc_neg : ∀ p s, DS p s → ZEq (sc (nneg p) s) (sc p s)
  sc_congr : ∀ p q s, ZEq p q → ZEq (sc p s) (sc q s)

section generic
variable {D DA DB : V3 → V3 → V3 → V3 → Prop} {DS : V3 → V3 → Prop}
  {K : V3 → V3 → V3 → V3 → Option V3} {E : V3 → V3 → V3 → V3 → V3} {sc : V3 → V3 → V3} {nneg : V3 → V3}

/-- the stable kernel's answer on the sorted tuple -/
def stableOn (K : V3 → V3 → V3 → V3 → Option V3) (a0 a1 b0 b1 : V3) : Option V3 :=
  K (stableArgs a0 a1 b0 b1).1 (stableArgs a0 a1 b0 b1).2.1 (stableArgs a0 a1 b0 b1).2.2.1 (stableArgs a0 a1 b0 b1).2.2.2

/-- the raw point of `Intersection`, before the hemisphere correction and the zero canonicalisation -/
def rawPt (K : V3 → V3 → V3 → V3 → Option V3) (E : V3 → V3 → V3 → V3 → V3) (a0 a1 b0 b1 : V3) : V3 :=
  (stableOn K a0 a1 b0 b1).getD (E a0 a1 b0 b1)

private theorem selection_eq_raw (a0 a1 b0 b1 : V3) :
    selection K E sc a0 a1 b0 b1 = canonZero (sc (rawPt K E a0 a1 b0 b1) (sum4 a0 a1 b0 b1)) := rfl

private theorem pm_aux {o o' : Option V3} {e e' : V3} (ho : ZEqO o' (o.map nneg)) (he : o = none → PMEq nneg e' e) :
    PMEq nneg (o'.getD e') (o.getD e) := by
  cases o with
  | none =>
    cases o' with
    | none => exact he rfl
    | some p' => exact absurd ho (by simp [ZEqO])
  | some p =>
    cases o' with
    | none => exact absurd ho (by simp [ZEqO])
    | some p' => exact Or.inr ho

private theorem pm_aux_swap (o : Option V3) {e e' : V3} (he : o = none → PMEq nneg e' e) :
    PMEq nneg (o.getD e') (o.getD e) := by
  cases o with
  | none => exact he rfl
  | some p => exact Or.inl rfl

/-- points related by `PMEq` are identified by the exit of `Intersection`, when the hemisphere test is in its domain -/
private theorem finish_pm (H : KernelSymOn D DA DB DS K E sc nneg) {p' p s : V3} (h : PMEq nneg p' p) (hd : DS p s) :
    canonZero (sc p' s) = canonZero (sc p s) := by
  rcases h with h | h
  · exact H.sc_congr _ _ s h
  · exact (H.sc_congr _ _ s h).trans (H.sc_neg p s hd)

/-- reversing the first edge: the raw point is the same or negated -/
theorem rawPt_reverse_a (H : KernelSymOn D DA DB DS K E sc nneg) {a0 a1 b0 b1 : V3} (G : GoodInput a0 a1 b0 b1)
    (hD : D a0 a1 b0 b1) (hD' : D b0 b1 a0 a1) (hA : stableOn K a0 a1 b0 b1 = none → DA a0 a1 b0 b1) :
    PMEq nneg (rawPt K E a1 a0 b0 b1) (rawPt K E a0 a1 b0 b1) := by
  unfold rawPt stableOn at *
  rw [stableArgs_reverse_a a0 a1 b0 b1 G.fa0 G.fa1 G.fb0 G.fb1 G.lenA]
  rw [stableArgs_eq a0 a1 b0 b1] at hA ⊢
  cases h : aFirst a0 a1 b0 b1
  · simp only [h, Bool.false_eq_true, if_false] at hA ⊢
    exact pm_aux (H.k_revB b0 b1 a0 a1 hD') (fun hn => H.e_revA a0 a1 b0 b1 (hA hn))
  · simp only [h, if_true] at hA ⊢
    exact pm_aux (H.k_revA a0 a1 b0 b1 hD) (fun hn => H.e_revA a0 a1 b0 b1 (hA hn))

/-- reversing the second edge: the raw point is the same or negated -/
theorem rawPt_reverse_b (H : KernelSymOn D DA DB DS K E sc nneg) {a0 a1 b0 b1 : V3} (G : GoodInput a0 a1 b0 b1)
    (hD : D a0 a1 b0 b1) (hD' : D b0 b1 a0 a1) (hB : stableOn K a0 a1 b0 b1 = none → DB a0 a1 b0 b1) :
    PMEq nneg (rawPt K E a0 a1 b1 b0) (rawPt K E a0 a1 b0 b1) := by
  unfold rawPt stableOn at *
  rw [stableArgs_reverse_b a0 a1 b0 b1 G.fa0 G.fa1 G.fb0 G.fb1 G.lenB]
  rw [stableArgs_eq a0 a1 b0 b1] at hB ⊢
  cases h : aFirst a0 a1 b0 b1
  · simp only [h, Bool.false_eq_true, if_false] at hB ⊢
    exact pm_aux (H.k_revA b0 b1 a0 a1 hD') (fun hn => H.e_revB a0 a1 b0 b1 (hB hn))
  · simp only [h, if_true] at hB ⊢
    exact pm_aux (H.k_revB a0 a1 b0 b1 hD) (fun hn => H.e_revB a0 a1 b0 b1 (hB hn))

/-- swapping the edges: the stable kernel sees the same tuple, the exact fallback is the same or negated -/
theorem rawPt_swap (H : KernelSymOn D DA DB DS K E sc nneg) {a0 a1 b0 b1 : V3} (G : GoodInput a0 a1 b0 b1)
    (hD : D a0 a1 b0 b1) : PMEq nneg (rawPt K E b0 b1 a0 a1) (rawPt K E a0 a1 b0 b1) := by
  unfold rawPt stableOn
  rw [stableArgs_swap_fin a0 a1 b0 b1 G.fa0 G.fa1 G.fb0 G.fb1 G.finA G.finB G.mins]
  exact pm_aux_swap _ (fun _ => H.e_swap a0 a1 b0 b1 hD)

/-- reversing the first edge: the stable kernel's answer is negated (same accept / reject decision) -/
theorem stableOn_reverse_a (H : KernelSymOn D DA DB DS K E sc nneg) {a0 a1 b0 b1 : V3} (G : GoodInput a0 a1 b0 b1)
    (hD : D a0 a1 b0 b1) (hD' : D b0 b1 a0 a1) :
    ZEqO (stableOn K a1 a0 b0 b1) ((stableOn K a0 a1 b0 b1).map nneg) := by
  unfold stableOn
  rw [stableArgs_reverse_a a0 a1 b0 b1 G.fa0 G.fa1 G.fb0 G.fb1 G.lenA, stableArgs_eq a0 a1 b0 b1]
  cases h : aFirst a0 a1 b0 b1
  · simp only [h, Bool.false_eq_true, if_false]; exact H.k_revB b0 b1 a0 a1 hD'
  · simp only [h, if_true]; exact H.k_revA a0 a1 b0 b1 hD

theorem stableOn_reverse_b (H : KernelSymOn D DA DB DS K E sc nneg) {a0 a1 b0 b1 : V3} (G : GoodInput a0 a1 b0 b1)
    (hD : D a0 a1 b0 b1) (hD' : D b0 b1 a0 a1) :
    ZEqO (stableOn K a0 a1 b1 b0) ((stableOn K a0 a1 b0 b1).map nneg) := by
  unfold stableOn
  rw [stableArgs_reverse_b a0 a1 b0 b1 G.fa0 G.fa1 G.fb0 G.fb1 G.lenB, stableArgs_eq a0 a1 b0 b1]
  cases h : aFirst a0 a1 b0 b1
  · simp only [h, Bool.false_eq_true, if_false]; exact H.k_revA b0 b1 a0 a1 hD'
  · simp only [h, if_true]; exact H.k_revB a0 a1 b0 b1 hD

/-- swapping the edges: the stable kernel sees the same tuple -/
theorem stableOn_swap {a0 a1 b0 b1 : V3} (G : GoodInput a0 a1 b0 b1) : stableOn K b0 b1 a0 a1 = stableOn K a0 a1 b0 b1 := by
  unfold stableOn
  rw [stableArgs_swap_fin a0 a1 b0 b1 G.fa0 G.fa1 G.fb0 G.fb1 G.finA G.finB G.mins]

private theorem none_iff_of_ZEqO {o' o : Option V3} {f : V3 → V3} (h : ZEqO o' (o.map f)) : o' = none ↔ o = none := by
  cases o' <;> cases o <;> simp_all [ZEqO]

/-- generic: reversing the first edge does not change the bits -/
theorem selection_reverse_a_on (H : KernelSymOn D DA DB DS K E sc nneg) {a0 a1 b0 b1 : V3} (G : GoodInput a0 a1 b0 b1)
    (hD : D a0 a1 b0 b1) (hD' : D b0 b1 a0 a1) (hA : stableOn K a0 a1 b0 b1 = none → DA a0 a1 b0 b1)
    (hS : DS (rawPt K E a0 a1 b0 b1) (sum4 a0 a1 b0 b1)) :
    selection K E sc a1 a0 b0 b1 = selection K E sc a0 a1 b0 b1 := by
  rw [selection_eq_raw, selection_eq_raw]
  have hs : sum4 a1 a0 b0 b1 = sum4 a0 a1 b0 b1 := by unfold sum4; rw [G.sumA]
  rw [hs]
  exact finish_pm H (rawPt_reverse_a H G hD hD' hA) hS

/-- generic: reversing the second edge does not change the bits -/
theorem selection_reverse_b_on (H : KernelSymOn D DA DB DS K E sc nneg) {a0 a1 b0 b1 : V3} (G : GoodInput a0 a1 b0 b1)
    (hD : D a0 a1 b0 b1) (hD' : D b0 b1 a0 a1) (hB : stableOn K a0 a1 b0 b1 = none → DB a0 a1 b0 b1)
    (hS : DS (rawPt K E a0 a1 b0 b1) (sum4 a0 a1 b0 b1)) :
    selection K E sc a0 a1 b1 b0 = selection K E sc a0 a1 b0 b1 := by
  rw [selection_eq_raw, selection_eq_raw]
  have hs : sum4 a0 a1 b1 b0 = sum4 a0 a1 b0 b1 := by unfold sum4; rw [G.sumB]
  rw [hs]
  exact finish_pm H (rawPt_reverse_b H G hD hD' hB) hS

/-- generic: swapping the edges does not change the bits -/
theorem selection_swap_on (H : KernelSymOn D DA DB DS K E sc nneg) {a0 a1 b0 b1 : V3} (G : GoodInput a0 a1 b0 b1)
    (hD : D a0 a1 b0 b1) (hS : DS (rawPt K E a0 a1 b0 b1) (sum4 a0 a1 b0 b1)) :
    selection K E sc b0 b1 a0 a1 = selection K E sc a0 a1 b0 b1 := by
  rw [selection_eq_raw, selection_eq_raw]
  have hs : sum4 b0 b1 a0 a1 = sum4 a0 a1 b0 b1 := by unfold sum4; exact G.sumS
  rw [hs]
  exact finish_pm H (rawPt_swap H G hD) hS
end generic

/-! ## the real kernels -/

/-- the four points are finite (a part of `GoodInput`) -/
def FinInput (a0 a1 b0 b1 : V3) : Prop := Fin3 a0 ∧ Fin3 a1 ∧ Fin3 b0 ∧ Fin3 b1

/-- domain of "reverse the first edge" in the exact kernel: finite points and, if the edges are exactly collinear, the
    `OrderedCCW` flags against the reversed edge are symmetric -/
def RevAOK (a0 a1 b0 b1 : V3) : Prop := FinInput a0 a1 b0 b1 ∧ (Collinear a0 a1 b0 b1 → OccwSym a0 a1 b0 b1)
/-- domain of "reverse the second edge" in the exact kernel -/
def RevBOK (a0 a1 b0 b1 : V3) : Prop := FinInput a0 a1 b0 b1 ∧ (Collinear a0 a1 b0 b1 → OccwSym b0 b1 a0 a1)

instance (a0 a1 b0 b1 : V3) : Decidable (FinInput a0 a1 b0 b1) := by unfold FinInput; infer_instance
instance (a0 a1 b0 b1 : V3) : Decidable (RevAOK a0 a1 b0 b1) := by unfold RevAOK; infer_instance
instance (a0 a1 b0 b1 : V3) : Decidable (RevBOK a0 a1 b0 b1) := by unfold RevBOK; infer_instance

private theorem GoodInput.fin {a0 a1 b0 b1 : V3} (G : GoodInput a0 a1 b0 b1) : FinInput a0 a1 b0 b1 := ⟨G.fa0, G.fa1, G.fb0, G.fb1⟩
private theorem GoodInput.fin' {a0 a1 b0 b1 : V3} (G : GoodInput a0 a1 b0 b1) : FinInput b0 b1 a0 a1 := ⟨G.fb0, G.fb1, G.fa0, G.fa1⟩

private theorem pmEq_of_PM3 {p' p : V3} (h : PM3 p' p) : PMEq V3.neg p' p := by
  rcases h with h | h
  · exact Or.inl (ZEq_iff.mpr h)
  · exact Or.inr (ZEq_neg_iff.mpr h)

/-- **The real kernels of `Intersection` are sign-symmetric up to the sign of zeros** (corrected structure):
    stable kernel — same accept / reject decision and negated point under reversal of either edge (finite points, any
    overflow / NaN inside); exact kernel — same or negated point under reversal / swap; hemisphere correction — blind to
    zero signs, and undoes the negation whenever `pt·s` is neither ±0 nor NaN. -/
theorem kernelSym_real :
    KernelSymOn FinInput RevAOK RevBOK Decisive intersectionStableSorted intersectionExact signCorrect V3.neg where
  k_revA := fun a0 a1 b0 b1 h => ZEqO_of_ORel (stable_revA h.1 h.2.1 h.2.2.1 h.2.2.2)
  k_revB := fun a0 a1 b0 b1 _ => ZEqO_of_ORel (stable_revB a0 a1 b0 b1)
  e_revA := fun a0 a1 b0 b1 h => pmEq_of_PM3 (exact_revA h.1.1 h.1.2.1 h.1.2.2.1 h.1.2.2.2 h.2)
  e_revB := fun a0 a1 b0 b1 h => pmEq_of_PM3 (exact_revB h.1.1 h.1.2.1 h.1.2.2.1 h.1.2.2.2 h.2)
  e_swap := fun a0 a1 b0 b1 h => pmEq_of_PM3 (exact_swap h.1 h.2.1 h.2.2.1 h.2.2.2)
  sc_neg := fun p s hd => ZEq_iff.mpr (signCorrect_R3 (R3_neg p) hd)
  sc_congr := fun p q s h => ZEq_iff.mpr (signCorrect_Z3 s (ZEq_iff.mp h))

/-! ## `Intersection` -/

/-- the raw point of the model's `Intersection` (stable result, else exact result) -/
def rawPoint (a0 a1 b0 b1 : V3) : V3 := rawPt intersectionStableSorted intersectionExact a0 a1 b0 b1

/-- the hemisphere test of `Intersection` is decisive on this input: `rawPoint · ((a0+a1)+(b0+b1))` is neither ±0 nor NaN -/
def DecisiveAt (a0 a1 b0 b1 : V3) : Prop := Decisive (rawPoint a0 a1 b0 b1) (sum4 a0 a1 b0 b1)

/-- the exact fallback is used and takes its collinear branch -/
def ExactCollinear (a0 a1 b0 b1 : V3) : Prop := intersectionStableOld a0 a1 b0 b1 = none ∧ Collinear a0 a1 b0 b1

instance (a0 a1 b0 b1 : V3) : Decidable (DecisiveAt a0 a1 b0 b1) := by unfold DecisiveAt; infer_instance
instance (a0 a1 b0 b1 : V3) : Decidable (ExactCollinear a0 a1 b0 b1) := by unfold ExactCollinear; infer_instance

private theorem stableOn_eq (a0 a1 b0 b1 : V3) : stableOn intersectionStableSorted a0 a1 b0 b1 = intersectionStableOld a0 a1 b0 b1 := rfl

/-- **bit identity under reversing the first edge** -/
theorem intersectionOld_reverse_a {a0 a1 b0 b1 : V3} (G : GoodInput a0 a1 b0 b1) (hd : DecisiveAt a0 a1 b0 b1)
    (hc : ExactCollinear a0 a1 b0 b1 → OccwSym a0 a1 b0 b1) :
    intersectionOld a1 a0 b0 b1 = intersectionOld a0 a1 b0 b1 := by
  rw [intersectionOld_is_selection, intersectionOld_is_selection]
  exact selection_reverse_a_on kernelSym_real G G.fin G.fin' (fun hn => ⟨G.fin, fun hcol => hc ⟨hn, hcol⟩⟩) hd

/-- **bit identity under reversing the second edge** -/
theorem intersectionOld_reverse_b {a0 a1 b0 b1 : V3} (G : GoodInput a0 a1 b0 b1) (hd : DecisiveAt a0 a1 b0 b1)
    (hc : ExactCollinear a0 a1 b0 b1 → OccwSym b0 b1 a0 a1) :
    intersectionOld a0 a1 b1 b0 = intersectionOld a0 a1 b0 b1 := by
  rw [intersectionOld_is_selection, intersectionOld_is_selection]
  exact selection_reverse_b_on kernelSym_real G G.fin G.fin' (fun hn => ⟨G.fin, fun hcol => hc ⟨hn, hcol⟩⟩) hd

/-- **bit identity under swapping the two edges** (transversal AND collinear, no `OrderedCCW` hypothesis) -/
theorem intersectionOld_swap {a0 a1 b0 b1 : V3} (G : GoodInput a0 a1 b0 b1) (hd : DecisiveAt a0 a1 b0 b1) :
    intersectionOld b0 b1 a0 a1 = intersectionOld a0 a1 b0 b1 := by
  rw [intersectionOld_is_selection, intersectionOld_is_selection]
  exact selection_swap_on kernelSym_real G G.fin hd

/-! ### non-vacuity: concrete inputs meeting every hypothesis -/

private def f4a0 := mk 0xbfefd44ddc89bf69 0x3fba67e5fdc238ad 0x8000000000000001
private def f4a1 := mk 0xbfe8a56939bcbcbb 0xbfd7323388dac21c 0x3fe0cb605d9b5942
private def f4b0 := mk 0xbfd0fc39f116dc7b 0x3feeda3bd53c8ea0 0x8000000000000000
private def f4b1 := mk 0xbfeff135f8e02bbe 0x3faec05ffe58da34 0x8000000000000000
/-- the STABLE path (regression input F4, in contract): finite, decisive, not collinear -/
example : InContract f4a0 f4a1 f4b0 f4b1 ∧ GoodInput f4a0 f4a1 f4b0 f4b1 ∧ DecisiveAt f4a0 f4a1 f4b0 f4b1 ∧
    ¬ ExactCollinear f4a0 f4a1 f4b0 f4b1 ∧ intersectionStableOld f4a0 f4a1 f4b0 f4b1 ≠ none := by decide +kernel

/-- the stable kernel on F4: accepted in every order, the point is NEGATED (bit for bit here) by each reversal -/
example : ORel (intersectionStableSorted f4a1 f4a0 f4b0 f4b1) (intersectionStableSorted f4a0 f4a1 f4b0 f4b1) ∧
    ORel (intersectionStableSorted f4a0 f4a1 f4b1 f4b0) (intersectionStableSorted f4a0 f4a1 f4b0 f4b1) ∧
    (intersectionStableSorted f4a1 f4a0 f4b0 f4b1).isSome = true ∧
    intersectionStableSorted f4a1 f4a0 f4b0 f4b1 ≠ intersectionStableSorted f4a0 f4a1 f4b0 f4b1 := by decide +kernel

private def f3a0 := mk 0x0000000000000000 0x3fee405c2c895498 0xbfd4ddd1118f2cc3
private def f3a1 := mk 0x0000000000000000 0xbfa7771b1bbb43e1 0xbfeff7645e7860e3
private def f3b0 := mk 0x0000000000000000 0xbfa657fd72b54c3d 0xbfeff8321526404e
private def f3b1 := mk 0x0000000000000000 0xbfe3813010bbeb1e 0xbfe95e60a884f08f
/-- the EXACT path, COLLINEAR branch (regression input F3, in contract): all hypotheses incl. `OccwSym` both ways hold -/
example : InContract f3a0 f3a1 f3b0 f3b1 ∧ GoodInput f3a0 f3a1 f3b0 f3b1 ∧ DecisiveAt f3a0 f3a1 f3b0 f3b1 ∧
    ExactCollinear f3a0 f3a1 f3b0 f3b1 ∧ OccwSym f3a0 f3a1 f3b0 f3b1 ∧ OccwSym f3b0 f3b1 f3a0 f3a1 := by decide +kernel

/-- the domains of `kernelSym_real` are inhabited (`Decisive` on a point and a vertex sum) -/
example : FinInput f3a0 f3a1 f3b0 f3b1 ∧ RevAOK f3a0 f3a1 f3b0 f3b1 ∧ RevBOK f3a0 f3a1 f3b0 f3b1 ∧
    Decisive (mk 0x3FF0000000000000 0 0) (mk 0x4000000000000000 0x3FB999999999999A 0) := by decide +kernel

/-! ### the side conditions are necessary (counterexamples on bit patterns) -/

/-- WITHOUT `DecisiveAt` the result is NOT order independent: two transversal edges whose four vertices sum to exactly 0
    (`a = (0.6, ±0.8, 0)`, `b = (−0.6, 0, ±0.8)`): `pt·s = ±0`, the hemisphere correction keeps `pt` and `−pt`. -/
theorem decisive_necessary : ∃ a0 a1 b0 b1 : V3, GoodInput a0 a1 b0 b1 ∧ ¬ ExactCollinear a0 a1 b0 b1 ∧
    ¬ DecisiveAt a0 a1 b0 b1 ∧ intersectionOld a1 a0 b0 b1 ≠ intersectionOld a0 a1 b0 b1 ∧
    intersectionOld a0 a1 b1 b0 ≠ intersectionOld a0 a1 b0 b1 ∧ intersectionOld b0 b1 a0 a1 ≠ intersectionOld a0 a1 b0 b1 :=
  ⟨mk 0x3fe3333333333333 0x3fe999999999999a 0, mk 0x3fe3333333333333 0xbfe999999999999a 0,
   mk 0xbfe3333333333333 0 0x3fe999999999999a, mk 0xbfe3333333333333 0 0xbfe999999999999a, by decide +kernel⟩

/-- WITHOUT `OccwSym` reversing an edge in the collinear branch is NOT order independent: `a = (1,0,0)→(0.6,0.8,0)`,
    `b = (1+2^-52,0,0)→(0.8,−0.6,0)` on the great circle `z = 0`, `b0` parallel to `a0` (all determinants against the rounded
    normal vanish exactly, the symbolic perturbation of `RobustSign` decides, and it is not odd in the normal):
    `Intersection(a0,a1,b0,b1) = (1+2^-52,0,0)` but `Intersection(a1,a0,b0,b1)` = the sentinel `(10,10,10)`.
    (The two edges do not cross: the input satisfies `GoodInput` and `DecisiveAt`, not `InContract`.) -/
theorem occwSym_necessary : ∃ a0 a1 b0 b1 : V3, GoodInput a0 a1 b0 b1 ∧ DecisiveAt a0 a1 b0 b1 ∧
    ExactCollinear a0 a1 b0 b1 ∧ ¬ OccwSym a0 a1 b0 b1 ∧ intersectionOld a1 a0 b0 b1 ≠ intersectionOld a0 a1 b0 b1 :=
  ⟨mk 0x3ff0000000000000 0 0, mk 0x3fe3333333333333 0x3fe999999999999a 0,
   mk 0x3ff0000000000001 0 0, mk 0x3fe999999999999a 0xbfe3333333333333 0, by decide +kernel⟩

/-! ## the claim of the property -/

/-- `BitIdentityClaimOld` AS STATED (over `InContract` = unit length + `CrossingSign == Cross`) is FALSE: two edges with EXACTLY
    antipodal endpoints, `a = (1,0,0)→(−1,0,0)`, `b = (0,1,0)→(0,−1,0)`, pass `InContract` (the model's `CrossingSign` says
    Cross), both normals are exactly 0, the collinear branch answers, the vertex sum is exactly 0 — and reversing `b` changes the
    result from `(−1,0,0)` to `(0,1,0)`.  (Edges of exactly 180° are outside the documented contract of S2 and outside the
    quantifier of the property, "edge lengths … to NEARLY 180 degrees": the Lean predicate `InContract` is too wide.) -/
theorem bitIdentityClaimOld_false : ¬ BitIdentityClaimOld := by
  intro h
  have hc : InContract (mk 0x3ff0000000000000 0 0) (mk 0xbff0000000000000 0 0) (mk 0 0x3ff0000000000000 0)
      (mk 0 0xbff0000000000000 0) := by decide +kernel
  have := (h _ _ _ _ hc).2.1
  revert this
  decide +kernel

/-- the weaker `GoEqualityClaimOld` (Go `==`) is false as stated for the same reason, on the same input -/
theorem goEqualityClaimOld_false : ¬ GoEqualityClaimOld := by
  intro h
  have hc : InContract (mk 0x3ff0000000000000 0 0) (mk 0xbff0000000000000 0 0) (mk 0 0x3ff0000000000000 0)
      (mk 0 0xbff0000000000000 0) := by decide +kernel
  have := (h _ _ _ _ hc).2.1
  revert this
  decide +kernel

/-- the corrected claim: all inputs meeting the decidable conditions `GoodInput` (finite points, finite squared lengths and
    vertex sums, different smaller endpoints), `DecisiveAt` (hemisphere test not exactly 0 / NaN) and — only when the exact
    fallback takes its collinear branch — symmetric `OrderedCCW` flags -/
def BitIdentityClaimOldCorrected : Prop := ∀ a0 a1 b0 b1, GoodInput a0 a1 b0 b1 → DecisiveAt a0 a1 b0 b1 →
  (ExactCollinear a0 a1 b0 b1 → OccwSym a0 a1 b0 b1 ∧ OccwSym b0 b1 a0 a1) →
  intersectionOld a1 a0 b0 b1 = intersectionOld a0 a1 b0 b1 ∧ intersectionOld a0 a1 b1 b0 = intersectionOld a0 a1 b0 b1 ∧
  intersectionOld b0 b1 a0 a1 = intersectionOld a0 a1 b0 b1

/-- **C16, bit identity, for the real kernels** (corrected statement; both side conditions are necessary:
    `decisive_necessary`, `occwSym_necessary`) -/
theorem bitIdentityClaimOld_corrected : BitIdentityClaimOldCorrected := fun a0 a1 b0 b1 G hd hc =>
  ⟨intersectionOld_reverse_a G hd (fun h => (hc h).1), intersectionOld_reverse_b G hd (fun h => (hc h).2), intersectionOld_swap G hd⟩

/-- for edges that are NOT exactly collinear (or whenever the stable kernel accepts) no `OrderedCCW` hypothesis is left -/
theorem bitIdentityOld_transversal {a0 a1 b0 b1 : V3} (G : GoodInput a0 a1 b0 b1) (hd : DecisiveAt a0 a1 b0 b1)
    (ht : ¬ ExactCollinear a0 a1 b0 b1) :
    intersectionOld a1 a0 b0 b1 = intersectionOld a0 a1 b0 b1 ∧ intersectionOld a0 a1 b1 b0 = intersectionOld a0 a1 b0 b1 ∧
    intersectionOld b0 b1 a0 a1 = intersectionOld a0 a1 b0 b1 :=
  bitIdentityClaimOld_corrected a0 a1 b0 b1 G hd (fun h => absurd h ht)

/-! ## all 8 argument orders -/

/-- an input meeting all side conditions of the order-independence theorems -/
structure SymInput (a0 a1 b0 b1 : V3) : Prop where
  good : GoodInput a0 a1 b0 b1
  dec : DecisiveAt a0 a1 b0 b1
  occ : ExactCollinear a0 a1 b0 b1 → OccwSym a0 a1 b0 b1 ∧ OccwSym b0 b1 a0 a1

private theorem OccwSym.rev {a0 a1 b0 b1 : V3} (h : OccwSym a0 a1 b0 b1) : OccwSym a1 a0 b0 b1 := ⟨h.1.symm, h.2.symm⟩
private theorem OccwSym.flip {a0 a1 b0 b1 : V3} (h : OccwSym a0 a1 b0 b1) : OccwSym a0 a1 b1 b0 := ⟨h.2, h.1⟩

private theorem decisive_pm {p' p : V3} (s : V3) (h : PMEq V3.neg p' p) : Decisive p' s ↔ Decisive p s := by
  rcases h with h | h
  · exact decisive_Z3 s (ZEq_iff.mp h)
  · exact decisive_R3 s (ZEq_neg_iff.mp h)

/-- the side conditions are closed under reversing the first edge -/
theorem SymInput.revA {a0 a1 b0 b1 : V3} (S : SymInput a0 a1 b0 b1) : SymInput a1 a0 b0 b1 := by
  have G := S.good
  have hA : stableOn intersectionStableSorted a0 a1 b0 b1 = none → RevAOK a0 a1 b0 b1 :=
    fun hn => ⟨G.fin, fun hcol => (S.occ ⟨hn, hcol⟩).1⟩
  refine ⟨G.revA, ?_, ?_⟩
  · have hs : sum4 a1 a0 b0 b1 = sum4 a0 a1 b0 b1 := by unfold sum4; rw [G.sumA]
    unfold DecisiveAt rawPoint
    rw [hs]
    exact (decisive_pm _ (rawPt_reverse_a kernelSym_real G G.fin G.fin' hA)).mpr S.dec
  · rintro ⟨hn', hcol'⟩
    have hn : intersectionStableOld a0 a1 b0 b1 = none :=
      (none_iff_of_ZEqO (stableOn_reverse_a kernelSym_real G G.fin G.fin')).mp hn'
    have hcol : Collinear a0 a1 b0 b1 := by
      unfold Collinear at *; rw [← feq_zero3_R3 (xOf_revA a0 a1 b0 b1)]; exact hcol'
    have o := S.occ ⟨hn, hcol⟩
    exact ⟨OccwSym.rev o.1, OccwSym.flip o.2⟩

/-- … under reversing the second edge -/
theorem SymInput.revB {a0 a1 b0 b1 : V3} (S : SymInput a0 a1 b0 b1) : SymInput a0 a1 b1 b0 := by
  have G := S.good
  have hB : stableOn intersectionStableSorted a0 a1 b0 b1 = none → RevBOK a0 a1 b0 b1 :=
    fun hn => ⟨G.fin, fun hcol => (S.occ ⟨hn, hcol⟩).2⟩
  refine ⟨G.revB, ?_, ?_⟩
  · have hs : sum4 a0 a1 b1 b0 = sum4 a0 a1 b0 b1 := by unfold sum4; rw [G.sumB]
    unfold DecisiveAt rawPoint
    rw [hs]
    exact (decisive_pm _ (rawPt_reverse_b kernelSym_real G G.fin G.fin' hB)).mpr S.dec
  · rintro ⟨hn', hcol'⟩
    have hn : intersectionStableOld a0 a1 b0 b1 = none :=
      (none_iff_of_ZEqO (stableOn_reverse_b kernelSym_real G G.fin G.fin')).mp hn'
    have hcol : Collinear a0 a1 b0 b1 := by
      unfold Collinear at *; rw [← feq_zero3_R3 (xOf_revB a0 a1 b0 b1)]; exact hcol'
    have o := S.occ ⟨hn, hcol⟩
    exact ⟨OccwSym.flip o.1, OccwSym.rev o.2⟩

/-- … under swapping the edges -/
theorem SymInput.swap {a0 a1 b0 b1 : V3} (S : SymInput a0 a1 b0 b1) : SymInput b0 b1 a0 a1 := by
  have G := S.good
  refine ⟨G.swap, ?_, ?_⟩
  · have hs : sum4 b0 b1 a0 a1 = sum4 a0 a1 b0 b1 := by unfold sum4; exact G.sumS
    unfold DecisiveAt rawPoint
    rw [hs]
    exact (decisive_pm _ (rawPt_swap kernelSym_real G G.fin)).mpr S.dec
  · rintro ⟨hn', hcol'⟩
    have hn : intersectionStableOld a0 a1 b0 b1 = none := by
      have := stableOn_swap (K := intersectionStableSorted) G
      rw [stableOn_eq, stableOn_eq] at this
      rw [← this]; exact hn'
    have hcol : Collinear a0 a1 b0 b1 := by
      unfold Collinear at *; rw [← feq_zero3_R3 (xOf_swap a0 a1 b0 b1)]; exact hcol'
    have o := S.occ ⟨hn, hcol⟩
    exact ⟨o.2, o.1⟩

/-- **ORDER INDEPENDENCE (BIT IDENTITY) of the model's `Intersection`, real kernels**: all 8 argument orders (reverse either
    edge, swap the edges) give the same bits on every input meeting the side conditions. -/
theorem intersectionOld_order_independent {a0 a1 b0 b1 : V3} (S : SymInput a0 a1 b0 b1) :
    intersectionOld a1 a0 b0 b1 = intersectionOld a0 a1 b0 b1 ∧
    intersectionOld a0 a1 b1 b0 = intersectionOld a0 a1 b0 b1 ∧
    intersectionOld a1 a0 b1 b0 = intersectionOld a0 a1 b0 b1 ∧
    intersectionOld b0 b1 a0 a1 = intersectionOld a0 a1 b0 b1 ∧
    intersectionOld b0 b1 a1 a0 = intersectionOld a0 a1 b0 b1 ∧
    intersectionOld b1 b0 a0 a1 = intersectionOld a0 a1 b0 b1 ∧
    intersectionOld b1 b0 a1 a0 = intersectionOld a0 a1 b0 b1 := by
  have ra : ∀ {a0 a1 b0 b1 : V3}, SymInput a0 a1 b0 b1 → intersectionOld a1 a0 b0 b1 = intersectionOld a0 a1 b0 b1 :=
    fun S => intersectionOld_reverse_a S.good S.dec (fun h => (S.occ h).1)
  have rb : ∀ {a0 a1 b0 b1 : V3}, SymInput a0 a1 b0 b1 → intersectionOld a0 a1 b1 b0 = intersectionOld a0 a1 b0 b1 :=
    fun S => intersectionOld_reverse_b S.good S.dec (fun h => (S.occ h).2)
  have sw : ∀ {a0 a1 b0 b1 : V3}, SymInput a0 a1 b0 b1 → intersectionOld b0 b1 a0 a1 = intersectionOld a0 a1 b0 b1 :=
    fun S => intersectionOld_swap S.good S.dec
  have e1 := ra S
  have e2 := rb S
  have e3 := (ra S.revB).trans e2
  exact ⟨e1, e2, e3, sw S, (sw S.revA).trans e1, (sw S.revB).trans e2, (sw S.revA.revB).trans e3⟩

/-! ## in terms of the contract of `Intersection` -/

/-- **in-contract inputs are good inputs**: unit-length points (within the `Normalize` guarantee) whose edges cross
    (`CrossingSign == Cross`) are finite, have finite squared lengths and vertex sums (no overflow: every intermediate result is
    below 2^11), and different smaller endpoints (crossing edges share no vertex).  `GoodInput` is thereby discharged for the
    inputs the property quantifies over; what remains are `DecisiveAt` and, in the collinear branch, `OccwSym`. -/
theorem goodInput_of_inContract {a0 a1 b0 b1 : V3} (h : InContract a0 a1 b0 b1) : GoodInput a0 a1 b0 b1 :=
  S2Proofs.C16K.goodInput_of_inContract h

/-- **C16 bit identity on in-contract inputs**: all 8 argument orders give the same bits whenever the hemisphere test is
    decisive and (collinear branch only) the `OrderedCCW` flags are symmetric. -/
theorem intersectionOld_order_independent_inContract {a0 a1 b0 b1 : V3} (h : InContract a0 a1 b0 b1)
    (hd : DecisiveAt a0 a1 b0 b1) (hc : ExactCollinear a0 a1 b0 b1 → OccwSym a0 a1 b0 b1 ∧ OccwSym b0 b1 a0 a1) :
    intersectionOld a1 a0 b0 b1 = intersectionOld a0 a1 b0 b1 ∧
    intersectionOld a0 a1 b1 b0 = intersectionOld a0 a1 b0 b1 ∧
    intersectionOld a1 a0 b1 b0 = intersectionOld a0 a1 b0 b1 ∧
    intersectionOld b0 b1 a0 a1 = intersectionOld a0 a1 b0 b1 ∧
    intersectionOld b0 b1 a1 a0 = intersectionOld a0 a1 b0 b1 ∧
    intersectionOld b1 b0 a0 a1 = intersectionOld a0 a1 b0 b1 ∧
    intersectionOld b1 b0 a1 a0 = intersectionOld a0 a1 b0 b1 :=
  intersectionOld_order_independent ⟨goodInput_of_inContract h, hd, hc⟩

/-! ## the `OrderedCCW` hypothesis from primitive facts (through the unconditional `RobustSign = exact decision` of C02) -/

/-- general position of the four vertices against the rounded normal `n` of edge `(a0,a1)`: none of the five exact
    determinants used by the two `OrderedCCW` calls vanishes, i.e. no two of the vertices involved are parallel as exact vectors -/
def GenPos (a0 a1 b0 b1 : V3) : Prop :=
  det3 (ofV3 b0) (ofV3 (nrmV a0 a1)) (ofV3 a1) ≠ 0 ∧ det3 (ofV3 a0) (ofV3 (nrmV a0 a1)) (ofV3 b0) ≠ 0 ∧
  det3 (ofV3 a1) (ofV3 (nrmV a0 a1)) (ofV3 a0) ≠ 0 ∧ det3 (ofV3 b1) (ofV3 (nrmV a0 a1)) (ofV3 a1) ≠ 0 ∧
  det3 (ofV3 a0) (ofV3 (nrmV a0 a1)) (ofV3 b1) ≠ 0

instance (a0 a1 b0 b1 : V3) : Decidable (GenPos a0 a1 b0 b1) := by unfold GenPos; infer_instance

/-- in general position the `OrderedCCW` flags ARE symmetric: `RobustSign` is the exact decision on points of squared norm
    ≤ 1 + 2^-16 (C02, unconditional), the rounded normalised normals are such points (`C16N.toVector_normLe`, error analysis of
    `Normalize`), and the exact determinant is odd in the normal -/
theorem occwSym_of_genPos {a0 a1 b0 b1 : V3} (ua0 : UnitPt a0) (ua1 : UnitPt a1) (ub0 : UnitPt b0) (ub1 : UnitPt b1)
    (g : GenPos a0 a1 b0 b1) : OccwSym a0 a1 b0 b1 :=
  occwSym_of_exact (unitish_of_unitPt ua0).normLe (unitish_of_unitPt ua1).normLe (unitish_of_unitPt ub0).normLe
    (unitish_of_unitPt ub1).normLe g.1 g.2.1 g.2.2.1 g.2.2.2.1 g.2.2.2.2

/-- **C16 bit identity on in-contract inputs, `OrderedCCW` hypothesis discharged**: all 8 argument orders give the same bits
    whenever the hemisphere test is decisive and — only if the exact fallback takes its collinear branch — no two of the
    vertices are parallel (general position against both rounded normals). -/
theorem intersectionOld_order_independent_genPos {a0 a1 b0 b1 : V3} (h : InContract a0 a1 b0 b1)
    (hd : DecisiveAt a0 a1 b0 b1) (hg : ExactCollinear a0 a1 b0 b1 → GenPos a0 a1 b0 b1 ∧ GenPos b0 b1 a0 a1) :
    intersectionOld a1 a0 b0 b1 = intersectionOld a0 a1 b0 b1 ∧
    intersectionOld a0 a1 b1 b0 = intersectionOld a0 a1 b0 b1 ∧
    intersectionOld a1 a0 b1 b0 = intersectionOld a0 a1 b0 b1 ∧
    intersectionOld b0 b1 a0 a1 = intersectionOld a0 a1 b0 b1 ∧
    intersectionOld b0 b1 a1 a0 = intersectionOld a0 a1 b0 b1 ∧
    intersectionOld b1 b0 a0 a1 = intersectionOld a0 a1 b0 b1 ∧
    intersectionOld b1 b0 a1 a0 = intersectionOld a0 a1 b0 b1 :=
  intersectionOld_order_independent_inContract h hd (fun hc =>
    ⟨occwSym_of_genPos h.1 h.2.1 h.2.2.1 h.2.2.2.1 (hg hc).1, occwSym_of_genPos h.2.2.1 h.2.2.2.1 h.1 h.2.1 (hg hc).2⟩)

/-- **FINDING (in contract; reproduced with the Go code): `GenPos` / `OccwSym` cannot be dropped even on in-contract inputs.**
    Two exactly collinear, overlapping edges on the great circle `z = 0`:  `a = 85° → (0, 1−2^-52, 0)`,
    `b = −50° → (0, 1−2^-53, 0)`.  All four points are unit length within the `Normalize` guarantee, `CrossingSign == Cross`,
    the hemisphere test is decisive, the edges are 5° and 140° long — but `a1` and `b1` are PARALLEL (the same point of the sphere,
    two different float vectors), the determinant `det(a1, n, b1)` vanishes, `RobustSign` is decided by the symbolic perturbation,
    and the collinear rule returns `b1` for `(a0,a1,b0,b1)`, `a0` (5° away!) for `(a1,a0,b0,b1)` and `a1` for `(a0,a1,b1,b0)`.
    Hence the property "bit-identical under reversing either edge" FAILS on this in-contract input (swapping the edges is fine,
    as `intersectionOld_swap` proves). -/
theorem bitIdentityOld_violated_in_contract : ∃ a0 a1 b0 b1 : V3, InContract a0 a1 b0 b1 ∧ DecisiveAt a0 a1 b0 b1 ∧
    ExactCollinear a0 a1 b0 b1 ∧ ¬ GenPos a0 a1 b0 b1 ∧
    intersectionOld a0 a1 b0 b1 = b1 ∧ intersectionOld a1 a0 b0 b1 = a0 ∧ intersectionOld a0 a1 b1 b0 = a1 ∧
    intersectionOld b0 b1 a0 a1 = b1 :=
  ⟨mk 0x3fb64fd6b8c28100 0x3fefe0d3b41815a2 0, mk 0 0x3feffffffffffffe 0,
   mk 0x3fe491b7523c161d 0xbfe8836fa2cf5039 0, mk 0 0x3fefffffffffffff 0, by decide +kernel⟩

/-- non-vacuity: the collinear in-contract input F3 is in general position against both normals -/
example : GenPos f3a0 f3a1 f3b0 f3b1 ∧ GenPos f3b0 f3b1 f3a0 f3a1 := by decide +kernel

/-- non-vacuity: the collinear in-contract input F3 meets all side conditions -/
example : SymInput f3a0 f3a1 f3b0 f3b1 :=
  ⟨by decide +kernel, by decide +kernel, fun _ => by decide +kernel⟩

end S2Proofs.C16
