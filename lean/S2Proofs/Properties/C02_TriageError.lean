/-
  Property C02 (error constant of `triageSign`) — the float error analysis behind
  `maxDeterminantError = 1.8274 · dblEpsilon`, proved for ALL finite float triples that are unit
  length up to a tolerance.

  `triageSign a b c` computes `d = fl((a × b) · c)` in binary64 (`V3.cross`, `V3.dot`: 9 products,
  3 differences, 2 sums, in exactly the order of r3.Vector.Cross / Dot) and answers ±1 when
  `|d| > maxDeterminantError`.

  RESULT.  With u = 2^-53, for finite vectors with exact squared norms ≤ 1 + 2^-16 (no lower bound is
  needed; `Unitish` asks | ‖p‖² − 1 | ≤ 2^-16, which every `Normalize`d point satisfies with a factor
  2^35 to spare):

      |d − det| ≤ f·|det| + K,    f = (3/2)u(1 + u/3) < 1,    K ≤ 3.654785·u          (`triage_error_bound`)

  and  3.654799·u ≤ maxDeterminantError ≤ 3.6548·u  (exact value of the float constant).  The first-order
  part of K is (5/2 + 2/√3)·u·|a||b||c| = 3.6547005·u·|a||b||c| — the constant of the library comment — and the
  term f·|det| (the "relative error" the comment neglects) provably cannot change the sign.  Hence the
  constant 1.8274·dblEpsilon IS sufficient: `triageSign_sound`.

  NOT proved, and not needed: the absolute bound `|d − det| ≤ maxDeterminantError` (hypothesis `hbound` of
  `C02.triageSign_given_error_bound`) for triples with large |det|; for |det| ≈ 1 the rigorous bound is only
  ≈ 5.15·u > 3.6548·u (the largest error seen in 2·10^7 random unit triples is 2.52·u).  The route here
  therefore goes through `sign_of_error_bound` (relative part of the error is harmless), not through `hbound`.

  NO ASSUMPTION LEFT.  The `…_of_stdModel` theorems take the standard model of the soft-float as ONE hypothesis
  structure `StdModel` (F64.mul / add / sub of finite operands are finite and correctly rounded while the exact
  result is below 2^1000); `FloatErr/RoundNE.lean` + `FloatErr/Ops.lean` PROVE it from the definition of
  `F64.roundNE` (`stdModel : StdModel`), and the theorems without suffix are unconditional.
-/
import S2Proofs.FloatErr.Triage
import S2Proofs.FloatErr.Ops
import S2Proofs.Properties.C02

namespace S2Proofs.C02Err
open S2 S2.Exact S2.Pred S2Proofs.F64Order S2Proofs.PredLemmas S2Proofs.FloatErr

/-- finite coordinates and `| ‖p‖² − 1 | ≤ 2^-16`, the squared norm computed EXACTLY
    (integers at scale 2^(2·1074)) -/
def Unitish (p : V3) : Prop :=
  Fin3 p ∧ |norm2I p - (scale : ℤ) ^ 2| * 2 ^ 16 ≤ (scale : ℤ) ^ 2

instance (p : V3) : Decidable (Unitish p) := by unfold Unitish; infer_instance

theorem Unitish.normLe {p : V3} (h : Unitish p) : NormLe p := by
  refine ⟨h.1, le_trans ?_ h.2⟩
  exact mul_le_mul_of_nonneg_right (le_abs_self _) (by norm_num)

/-- the exact real determinant `(a × b) · c` of three float vectors -/
noncomputable def detReal (a b c : V3) : ℝ :=
  detR (val a.x) (val a.y) (val a.z) (val b.x) (val b.y) (val b.z) (val c.x) (val c.y) (val c.z)

/-- `detReal` is the exact integer determinant of `S2.Exact`, scaled. -/
theorem detReal_eq (a b c : V3) :
    detReal a b c = (det3 (ofV3 a) (ofV3 b) (ofV3 c) : ℝ) / (2 ^ 1074) ^ 3 := by
  unfold detReal
  rw [det_val, one_div, inv_pow]
  rfl

/-- **Rigorous error bound of the float determinant** (all second-order and underflow terms included):
    for finite vectors with squared norm ≤ 1 + 2^-16 the float determinant is finite and
    `|fl((a×b)·c) − (a×b)·c| ≤ (3/2)u(1+u/3)·|(a×b)·c| + 3.654785·u`, `u = 2^-53`. -/
theorem triage_error_bound (H : StdModel) (a b c : V3) (ha : NormLe a) (hb : NormLe b) (hc : NormLe c) :
    Fin ((a.cross b).dot c) ∧
    |val ((a.cross b).dot c) - detReal a b c| ≤ fU uR * |detReal a b c| + 3654785 / 1000000 * uR := by
  obtain ⟨h1, h2⟩ := float_det_error H a b c ha hb hc
  exact ⟨h1, le_trans h2 (by have := kR_le; unfold detReal; linarith)⟩

/-- the rigorous constant is below the code's constant: `3.654785·u < 3.654799·u ≤ maxDeterminantError ≤ 3.6548·u` -/
theorem constant_comparison :
    3654785 / 1000000 * uR < val maxDeterminantError ∧ val maxDeterminantError ≤ 36548 / 10000 * uR := by
  refine ⟨lt_of_lt_of_le ?_ mde_ge, mde_le⟩
  have : 0 < uR := by unfold uR; positivity
  nlinarith

/-- **`triageSign` is sound** (given the standard model): for all finite float triples with squared norms
    at most 1 + 2^-16 it returns 0 or the sign of the exact determinant. -/
theorem triageSign_sound_of_stdModel_normLe (H : StdModel) (a b c : V3)
    (ha : NormLe a) (hb : NormLe b) (hc : NormLe c) :
    triageSign a b c = 0 ∨ triageSign a b c = detSign a b c :=
  triageSign_sound_normLe H a b c ha hb hc

/-- **`triageSign` is sound** on unit-ish vectors (given the standard model). -/
theorem triageSign_sound_of_stdModel (H : StdModel) (a b c : V3)
    (ha : Unitish a) (hb : Unitish b) (hc : Unitish c) :
    triageSign a b c = 0 ∨ triageSign a b c = detSign a b c :=
  triageSign_sound_normLe H a b c ha.normLe hb.normLe hc.normLe

/-- the `triage` field of `C03.FloatSound` on the set `S := Unitish`: a non-zero triage answer is the
    exact decision (incl. symbolic perturbation, which is not consulted because the determinant is non-zero). -/
theorem floatSound_triage_of_stdModel (H : StdModel) (a b c : V3)
    (ha : Unitish a) (hb : Unitish b) (hc : Unitish c) (hne : triageSign a b c ≠ 0) :
    triageSign a b c = exactDecision a b c := by
  rcases triageSign_sound_of_stdModel H a b c ha hb hc with h | h
  · exact absurd h hne
  · rw [h] at hne ⊢
    exact (S2Proofs.C02.exactDecision_of_det_ne a b c ha.1 hb.1 hc.1 hne).symm

/-- …and `RobustSign` then needs only the `stableSign` bound to be the exact decision. -/
theorem robustSign_of_stdModel (H : StdModel) (a b c : V3)
    (ha : Unitish a) (hb : Unitish b) (hc : Unitish c)
    (hstab : stableSign a b c = 0 ∨ stableSign a b c = detSign a b c) :
    robustSign a b c = exactDecision a b c :=
  S2Proofs.C02.robustSign_given_error_bounds a b c ha.1 hb.1 hc.1
    (triageSign_sound_of_stdModel H a b c ha hb hc) hstab

/-! ### unconditional statements (`StdModel` is proved: `FloatErr.stdModel`) -/

/-- **The soft-float satisfies the standard model** (restated here so that the audit sees it). -/
theorem stdModel_holds : StdModel := stdModel

/-- **Rigorous error bound of the float determinant**, unconditional. -/
theorem triage_error_bound_holds (a b c : V3) (ha : NormLe a) (hb : NormLe b) (hc : NormLe c) :
    Fin ((a.cross b).dot c) ∧
    |val ((a.cross b).dot c) - detReal a b c| ≤ fU uR * |detReal a b c| + 3654785 / 1000000 * uR :=
  triage_error_bound stdModel a b c ha hb hc

/-- **C02, triage stage: `triageSign` returns 0 or the sign of the exact determinant** for ALL finite float
    triples that are unit length up to `| ‖p‖² − 1 | ≤ 2^-16`.  Unconditional. -/
theorem triageSign_sound (a b c : V3) (ha : Unitish a) (hb : Unitish b) (hc : Unitish c) :
    triageSign a b c = 0 ∨ triageSign a b c = detSign a b c :=
  triageSign_sound_of_stdModel stdModel a b c ha hb hc

/-- the same for all finite vectors of squared norm ≤ 1 + 2^-16 (shorter vectors, even 0, are fine). -/
theorem triageSign_sound_normLe (a b c : V3) (ha : NormLe a) (hb : NormLe b) (hc : NormLe c) :
    triageSign a b c = 0 ∨ triageSign a b c = detSign a b c :=
  triageSign_sound_of_stdModel_normLe stdModel a b c ha hb hc

/-- the `triage` field of `C03.FloatSound (S := Unitish)`, unconditional. -/
theorem floatSound_triage (a b c : V3) (ha : Unitish a) (hb : Unitish b) (hc : Unitish c)
    (hne : triageSign a b c ≠ 0) : triageSign a b c = exactDecision a b c :=
  floatSound_triage_of_stdModel stdModel a b c ha hb hc hne

/-- `RobustSign` is the exact decision on unit-ish points GIVEN only the `stableSign` error bound. -/
theorem robustSign_given_stable_bound (a b c : V3) (ha : Unitish a) (hb : Unitish b) (hc : Unitish c)
    (hstab : stableSign a b c = 0 ∨ stableSign a b c = detSign a b c) :
    robustSign a b c = exactDecision a b c :=
  robustSign_of_stdModel stdModel a b c ha hb hc hstab

/-! ### non-vacuity: concrete unit-ish bit patterns (points produced by `s2.PointFromCoords`) whose
    determinant is ≈ 1e-15 (triage answers +1) resp. ≈ 2.2e-16 (triage answers 0, exact sign +1) -/

def exA : V3 := ⟨⟨0xBFC73B5D16708D3B⟩, ⟨0x3FE6152C1D992D7C⟩, ⟨0x3FE66B524AE2F6C8⟩⟩
def exB : V3 := ⟨⟨0xBFE40DE563C8EFCC⟩, ⟨0xBFD9FA6CDE506A6A⟩, ⟨0x3FE5494E583A5FE3⟩⟩
def exC : V3 := ⟨⟨0xBFD84E933CC645CC⟩, ⟨0x3FDB016D7B4CB9EA⟩, ⟨0x3FEA57E0A0E1A4E4⟩⟩

example : Unitish exA ∧ Unitish exB ∧ Unitish exC ∧ triageSign exA exB exC = 1 ∧ detSign exA exB exC = 1 := by
  decide +kernel

def exA' : V3 := ⟨⟨0x3FA174CBEA592F36⟩, ⟨0xBFE2BC8156267C60⟩, ⟨0x3FE9EB1689C8BCD7⟩⟩
def exB' : V3 := ⟨⟨0x3FE53D7E7D3A898E⟩, ⟨0x3FE2205F17609B2E⟩, ⟨0xBFDF425E4B0A1A49⟩⟩
def exC' : V3 := ⟨⟨0x3FE6544D860A1F83⟩, ⟨0xBFD1513C3F05137D⟩, ⟨0x3FE5392BE4C4802E⟩⟩

example : Unitish exA' ∧ Unitish exB' ∧ Unitish exC' ∧ triageSign exA' exB' exC' = 0 ∧ detSign exA' exB' exC' = 1 := by
  decide +kernel

/-- the weaker hypothesis `NormLe` (no lower bound on the norm): also a short vector and the zero vector qualify -/
example : NormLe exA ∧ NormLe ⟨F64.half, F64.zero false, F64.zero true⟩ ∧
    NormLe ⟨F64.zero false, F64.zero false, F64.zero false⟩ := by decide +kernel

/-- the remaining hypothesis of `robustSign_given_stable_bound` holds on the examples -/
example : (stableSign exA exB exC = 0 ∨ stableSign exA exB exC = detSign exA exB exC) ∧
    (stableSign exA' exB' exC' = 0 ∨ stableSign exA' exB' exC' = detSign exA' exB' exC') ∧
    robustSign exA' exB' exC' = 1 := by decide +kernel

/-- the exact determinant of the first example is ≈ 1e-15: `0.9e-15 < det < 1.1e-15` (scaled integers) -/
example : 9 * (scale : ℤ) ^ 3 < det3 (ofV3 exA) (ofV3 exB) (ofV3 exC) * 10 ^ 16 ∧
    det3 (ofV3 exA) (ofV3 exB) (ofV3 exC) * 10 ^ 16 < 11 * (scale : ℤ) ^ 3 := by decide +kernel

end S2Proofs.C02Err
