/-
  Property C04, the general tiling / partition statements for the exact geometry `exactGeo`
  (Go `==`, the exact + symbolic orientation `Pred.exactDecision`, `s2Ortho`), from the crossing-parity cocycle
  (`C04_Cocycle.lean`, a theorem) — brute-force level (`bruteContains` = `Loop.bruteForceContainsPoint`; the
  index paths are connected to it by `loop_indexPath_eq_bruteForce_exact_any` etc.).

  §1  input classes (decidable).
  §2  `LoopFromPoints` without the reference point: the answer of a loop built by the constructor
      (`mkLoop` = `initOriginAndBound`) is `AngleContainsVertex(v0,v1,v2)` XOR the crossing parity of v1 → p;
      it does not depend on the reference point (`OriginPoint` could be any point).
  §3  valid (simple) loops: the constructor's choice of "vertex 1" is immaterial (rotation of the vertex list),
      and the loop REBUILT from the reversed vertex list is exactly `Invert` of the loop:
      `mkLoop_reverse_eq_invert_exact`; a loop and the rebuilt reversed loop contain every point exactly once.
  §4  families of k loops whose directed edges cancel in pairs (cells of one level, the six faces, the children of
      a cell against the subdivided parent, a loop and its inverse …): the NUMBER of loops that contain a point
      has the same parity at every point, vertices and boundary points included (`tiling_parity_exact`; shared
      vertices that are only `==`, i.e. ±0 twins on cube-face boundaries: `tiling_parity_eq_exact`); with "at most
      two loops contain p" (hypothesis) every point is contained exactly once.  Children vs subdivided parent.
  §5  polygons: families of polygons; a polygon and the polygon rebuilt with one loop reversed.
  §6  the real (4-vertex) parent against its children: equal except inside the four slivers between a parent
      edge and the two child edges that replace it (`children_tile_cell_exact`); the sliver hypothesis is needed
      (`children_vs_real_parent_differ_at_midpoints`).
  §7  non-vacuity: the level-2 cell 6989586621679009792 of face 3 with its four children (bit patterns of
      `Cell.Vertex`), the six face loops (`six_faces_odd_exact`).
  §8  all 24 cells of level 1 (`level1_cells_odd_exact`): their shared vertices are NOT all bit-identical (six
      points on face boundaries occur as +0 / -0 twins) but the edges cancel up to `==`.

  What is NOT proved: that at most one (or: at most two) cell loops of a level contain a given point (pairwise
  disjointness of convex cells — a convexity fact about the sign, not a parity fact); it is the explicit
  hypothesis `hle` of `tiling_exactly_once(_eq)_exact`, and `CellLoopsTile` for the cells of a level remains a
  `def` (`cellLoopsTile_exact_partial`).  The crossing parity gives the count mod 2 only: a k-fold cover by loops
  with cancelling boundaries has count k everywhere.
-/
import S2Proofs.Properties.C04_Cocycle
import S2Proofs.Contain.Tiling
namespace S2Proofs.C04
open S2 S2.Contain S2.Pred S2Proofs.Contain S2Proofs.F64Order S2Proofs.ExactLaws

/-! ## 1. input classes -/

/-- a point at which the vertex rule can be evaluated: finite, with a finite reference direction `s2Ortho` that is
    not `==` to the point (true of every roughly unit vector; see `parityCocycle_fails_for_zero_ref`) -/
def PtOK (x : V3) : Prop := Fin3 x ∧ Fin3 (s2Ortho x) ∧ V3.feq x (s2Ortho x) = false

/-- two points are not `==`, or they are `==` (the same vector, or ±0 twins) with `==` reference directions
    (automatic for the same vector) -/
def Compat (x y : V3) : Prop := V3.feq x y = false ∨ V3.feq (s2Ortho x) (s2Ortho y) = true

instance (x : V3) : Decidable (PtOK x) := by unfold PtOK; infer_instance
instance (x y : V3) : Decidable (Compat x y) := by unfold Compat; infer_instance

private theorem compat_self {x : V3} (h : PtOK x) : Compat x x := Or.inr (feq_refl h.2.1)

private theorem compat_symm {x y : V3} (hx : PtOK x) (hy : PtOK y) (h : Compat x y) : Compat y x := by
  rcases h with h | h
  · exact Or.inl (by rw [feq_comm hy.1 hx.1]; exact h)
  · exact Or.inr (feq_symm hx.2.1 hy.2.1 h)

private theorem cocycleDomAny_of {r c p : V3} {vs : List V3} (hr : PtOK r) (hc : PtOK c) (hp : PtOK p)
    (h1 : Compat r c) (h2 : Compat c p) (h3 : Compat r p) (hv : ∀ v ∈ vs, Fin3 v) :
    CocycleDomAny r c p [vs] :=
  ⟨hr.1, hc.1, hp.1, h1, h2, h3, ⟨hr.2.1, hr.2.2⟩, ⟨hc.2.1, hc.2.2⟩, ⟨hp.2.1, hp.2.2⟩,
    fun l hl v hm => by simp only [List.mem_singleton] at hl; subst hl; exact hv v hm⟩

private theorem cocycle3_exact {r c p : V3} {vs : List V3} (h : CocycleDomAny r c p [vs]) :
    Cocycle3 exactGeo r c p (loopEdges vs) := by
  have := parityCocycle_exact_any h
  simpa [ParityCocycle, Cocycle3] using this

/-- the input class of the loop theorems: reference point `o`, query point `p`, vertex list `vs` — everything
    `PtOK`, and `==` coincidences between `o`, `p` and the vertices only with `==` reference directions -/
def LoopDom (o : V3) (vs : List V3) (p : V3) : Prop :=
  PtOK o ∧ PtOK p ∧ Compat o p ∧ ∀ v ∈ vs, PtOK v ∧ Compat o v ∧ Compat v p

instance (o : V3) (vs : List V3) (p : V3) : Decidable (LoopDom o vs p) := by unfold LoopDom; infer_instance

/-- "at least three vertices, pairwise not `==`" -/
def DistinctVerts (vs : List V3) : Prop :=
  3 ≤ vs.length ∧ vs.Nodup ∧ ∀ a ∈ vs, ∀ b ∈ vs, a ≠ b → V3.feq a b = false

instance (vs : List V3) : Decidable (DistinctVerts vs) := by unfold DistinctVerts; infer_instance

private theorem distinctVerts_of_simple {vs : List V3} (h : SimpleLoop exactGeo vs) : DistinctVerts vs :=
  ⟨h.len, h.nodup, h.distinct⟩

/-! ## 2. the constructor's answer without the reference point -/

/-- **`LoopFromPoints(vs).ContainsPoint(p)` (brute force) is `AngleContainsVertex(v0,v1,v2)` XOR the exact
    crossing parity of `v1 → p`** — whatever the reference point `o` is.  Any vertex list (no simplicity),
    `p` may be a vertex, `o` may be a vertex. -/
theorem mkLoop_contains_eq_vertexContains_exact {o p v0 v1 v2 : V3} {rest : List V3}
    (h01 : V3.feq v0 v1 = false) (h21 : V3.feq v2 v1 = false)
    (hd : CocycleDomAny o v1 p [v0 :: v1 :: v2 :: rest]) :
    bruteContains exactGeo o (mkLoop exactGeo o (v0 :: v1 :: v2 :: rest).toArray) p =
      vertexContains exactGeo (v0 :: v1 :: v2 :: rest) p :=
  mkLoop_contains_eq_vertexContains exactGeo o p v0 v1 v2 rest h01 h21 (cocycle3_exact hd)

/-- **Containment does not depend on the reference point**: built and evaluated with `o` or with `o'`, the loop
    gives the same answer at `p`.  (`OriginPoint` is a convention, not part of the meaning of a loop.) -/
theorem mkLoop_contains_origin_independent_exact {o o' p v0 v1 v2 : V3} {rest : List V3}
    (h01 : V3.feq v0 v1 = false) (h21 : V3.feq v2 v1 = false)
    (hd : CocycleDomAny o v1 p [v0 :: v1 :: v2 :: rest])
    (hd' : CocycleDomAny o' v1 p [v0 :: v1 :: v2 :: rest]) :
    bruteContains exactGeo o (mkLoop exactGeo o (v0 :: v1 :: v2 :: rest).toArray) p =
      bruteContains exactGeo o' (mkLoop exactGeo o' (v0 :: v1 :: v2 :: rest).toArray) p := by
  rw [mkLoop_contains_eq_vertexContains_exact h01 h21 hd, mkLoop_contains_eq_vertexContains_exact h01 h21 hd']

/-- the same for a vertex list given as a list with at least three pairwise non-`==` vertices -/
theorem mkLoop_contains_eq_vertexContains_list_exact {o p : V3} {vs : List V3} (hv : DistinctVerts vs)
    (hd : LoopDom o vs p) :
    bruteContains exactGeo o (mkLoop exactGeo o vs.toArray) p = vertexContains exactGeo vs p := by
  obtain ⟨hlen, hnd, hdis⟩ := hv
  match vs, hlen, hnd, hdis, hd with
  | v0 :: v1 :: v2 :: rest, _, hnd, hdis, hd =>
    simp only [List.nodup_cons, List.mem_cons, not_or] at hnd
    have m0 : v0 ∈ v0 :: v1 :: v2 :: rest := by simp
    have m1 : v1 ∈ v0 :: v1 :: v2 :: rest := by simp
    have m2 : v2 ∈ v0 :: v1 :: v2 :: rest := by simp
    obtain ⟨ho, hp, hop, hvs⟩ := hd
    exact mkLoop_contains_eq_vertexContains_exact (hdis v0 m0 v1 m1 hnd.1.1)
      (hdis v2 m2 v1 m1 (Ne.symm hnd.2.1.1))
      (cocycleDomAny_of ho (hvs v1 m1).1 hp (hvs v1 m1).2.1 (hvs v1 m1).2.2 hop (fun v hm => (hvs v hm).1.1))

/-! ## 3. valid loops: rotation and reversal of the vertex list -/

private theorem walkHyp_exact {o p : V3} {vs : List V3} (hs : SimpleLoop exactGeo vs) (hd : LoopDom o vs p) :
    WalkHyp exactGeo Fin3 vs p where
  simple := hs
  inS v hv := ⟨(hd.2.2.2 v hv).1.1, (hd.2.2.2 v hv).1.2.1⟩
  hp := hd.2.1.1
  cocycle a ha b hb hab :=
    cocycle3_exact (cocycleDomAny_of (hd.2.2.2 a ha).1 (hd.2.2.2 b hb).1 hd.2.1 (Or.inl (hs.distinct a ha b hb hab))
      (hd.2.2.2 b hb).2.2 (hd.2.2.2 a ha).2.2 (fun v hm => (hd.2.2.2 v hm).1.1))

private theorem loopDom_of_mem {o p : V3} {vs vs' : List V3} (hm : ∀ v ∈ vs', v ∈ vs) (hd : LoopDom o vs p) :
    LoopDom o vs' p :=
  ⟨hd.1, hd.2.1, hd.2.2.1, fun v hv => hd.2.2.2 v (hm v hv)⟩

/-- **Rotation invariance**: for a valid loop, `LoopFromPoints` gives the same containment function whichever
    vertex the list starts with (the constructor tests vertex 1; any vertex would do). -/
theorem mkLoop_rotate_exact {o p : V3} {vs : List V3} (hs : SimpleLoop exactGeo vs) (hd : LoopDom o vs p)
    (k : Nat) :
    bruteContains exactGeo o (mkLoop exactGeo o (vs.rotate k).toArray) p =
      bruteContains exactGeo o (mkLoop exactGeo o vs.toArray) p := by
  rw [mkLoop_contains_eq_vertexContains_list_exact (distinctVerts_of_simple (hs.rotate k))
      (loopDom_of_mem (fun v hv => List.mem_rotate.1 hv) hd),
    mkLoop_contains_eq_vertexContains_list_exact (distinctVerts_of_simple hs) hd,
    vertexContains_rotate chiroOn_exactGeo (walkHyp_exact hs hd) k]

/-- **Every vertex satisfies the constructor's rule**: a valid loop built by `LoopFromPoints` contains its
    vertex `b` (previous vertex `a`, next vertex `c`, anywhere along the loop) iff `AngleContainsVertex(a,b,c)`.
    (`mkLoop_contains_vertex1` is the case of vertex 1, true by construction.) -/
theorem mkLoop_contains_vertex_exact {o a b c : V3} {pre post : List V3}
    (hs : SimpleLoop exactGeo (pre ++ a :: b :: c :: post))
    (hd : LoopDom o (pre ++ a :: b :: c :: post) b) :
    bruteContains exactGeo o (mkLoop exactGeo o (pre ++ a :: b :: c :: post).toArray) b =
      angleContainsVertex exactGeo a b c := by
  have hr : (pre ++ a :: b :: c :: post).rotate pre.length = a :: b :: c :: post ++ pre :=
    List.rotate_append_length_eq _ _
  rw [← mkLoop_rotate_exact hs hd pre.length, hr]
  have hs' := hs.rotate pre.length
  rw [hr] at hs'
  have hnd := hs'.nodup
  simp only [List.cons_append, List.nodup_cons, List.mem_cons, not_or] at hnd
  have ma : a ∈ a :: b :: c :: post ++ pre := by simp
  have mb : b ∈ a :: b :: c :: post ++ pre := by simp
  have mc : c ∈ a :: b :: c :: post ++ pre := by simp
  exact mkLoop_contains_vertex1 exactGeo o a b c (post ++ pre) (hs'.distinct a ma b mb hnd.1.1)
    (hs'.distinct c mc b mb (Ne.symm hnd.2.1.1))

/-- **A loop and the loop rebuilt from the reversed vertex list are complementary** at every point of the input
    class (vertices and boundary points included). -/
theorem mkLoop_reverse_contains_exact {o p : V3} {vs : List V3} (hs : SimpleLoop exactGeo vs)
    (hd : LoopDom o vs p) :
    bruteContains exactGeo o (mkLoop exactGeo o vs.reverse.toArray) p =
      !bruteContains exactGeo o (mkLoop exactGeo o vs.toArray) p := by
  have hv := (distinctVerts_of_simple hs)
  have hv' : DistinctVerts vs.reverse :=
    ⟨by simpa using hv.1, List.nodup_reverse.2 hv.2.1,
      fun a ha b hb => hv.2.2 a (List.mem_reverse.1 ha) b (List.mem_reverse.1 hb)⟩
  rw [mkLoop_contains_eq_vertexContains_list_exact hv' (loopDom_of_mem (fun v hv => List.mem_reverse.1 hv) hd),
    mkLoop_contains_eq_vertexContains_list_exact hv hd,
    vertexContains_reverse chiroOn_exactGeo (walkHyp_exact hs hd)]

/-- `bruteForceContainsPoint(origin)` is the origin bit -/
private theorem bruteContains_origin_exact {o : V3} (ho : Fin3 o) (L : LoopM V3) :
    bruteContains exactGeo o L o = L.originInside := by
  unfold bruteContains
  rw [crossParity_degenerate exactGeo o o _ (feq_refl ho)]
  simp

/-- **The origin bit is geometric**: `initOriginAndBound` sets `originInside` to the containment of the reference
    point as seen from vertex 1 (`AngleContainsVertex(v0,v1,v2)` XOR the crossing parity of `v1 → o`) — "the
    origin-containment flag is computed by the same parity rule". -/
theorem mkLoop_originInside_exact {o : V3} {vs : List V3} (hv : DistinctVerts vs) (hd : LoopDom o vs o) :
    (mkLoop exactGeo o vs.toArray).originInside = vertexContains exactGeo vs o := by
  rw [← bruteContains_origin_exact hd.1.1, mkLoop_contains_eq_vertexContains_list_exact hv hd]

/-- **`Loop.Invert` IS the loop rebuilt from the reversed vertices**: for a valid loop, `Invert` (reverse the
    vertex slice, flip `originInside`) produces exactly the `Loop` value that `LoopFromPoints` computes for the
    reversed vertex list — the origin bit `initOriginAndBound` derives from the reversed vertices is the
    complement.  (This is what keeps `originInside` consistent under `Invert`, decode / re-encode and cloning.) -/
theorem mkLoop_reverse_eq_invert_exact {o : V3} {vs : List V3} (hs : SimpleLoop exactGeo vs)
    (hd : LoopDom o vs o) :
    mkLoop exactGeo o vs.reverse.toArray = invert (mkLoop exactGeo o vs.toArray) := by
  have h := mkLoop_reverse_contains_exact hs hd
  rw [bruteContains_origin_exact hd.1.1, bruteContains_origin_exact hd.1.1] at h
  unfold mkLoop invert at *
  simp only at h ⊢
  rw [h]
  simp

/-- **A loop and its rebuilt inverse partition the sphere**: exactly one of `LoopFromPoints(vs)`,
    `LoopFromPoints(reverse vs)` contains `p` — for EVERY valid loop and every point of the input class. -/
theorem loop_and_reversed_loop_partition_exact {o p : V3} {vs : List V3} (hs : SimpleLoop exactGeo vs)
    (hd : LoopDom o vs p) :
    (bruteContains exactGeo o (mkLoop exactGeo o vs.toArray) p = true ∧
      bruteContains exactGeo o (mkLoop exactGeo o vs.reverse.toArray) p = false) ∨
    (bruteContains exactGeo o (mkLoop exactGeo o vs.toArray) p = false ∧
      bruteContains exactGeo o (mkLoop exactGeo o vs.reverse.toArray) p = true) := by
  rw [mkLoop_reverse_contains_exact hs hd]
  cases bruteContains exactGeo o (mkLoop exactGeo o vs.toArray) p <;> simp

/-! ## 4. families of loops whose boundaries cancel -/

/-- the number of loops of the family that contain `p` (all loops share the reference point `o`, as in the
    library: `OriginPoint`) -/
def containCount (o : V3) (loops : List (LoopM V3)) (p : V3) : Nat :=
  (loops.filter fun L => bruteContains exactGeo o L p).length

private theorem parity_of_decide {a b : Nat} (h : decide (a % 2 = 1) = decide (b % 2 = 1)) : a % 2 = b % 2 := by
  have := decide_eq_decide.1 h
  omega

/-- **Tiling parity** (k loops, exact geometry): if the directed edges of the loops cancel in pairs — every edge
    appears once forward and once reversed among the loops, with bit-identical endpoints — then the number of loops
    that contain `p` has, at EVERY finite point `p` (vertices, points on shared edges included), the parity of the
    number of loops whose origin bit is set.  No simplicity / validity hypothesis on the loops. -/
theorem tiling_parity_exact {o p : V3} (ho : Fin3 o) (hp : Fin3 p) {loops : List (LoopM V3)}
    (hL : ∀ L ∈ loops, LoopIn Fin3 L) (hc : EdgesCancel (familyEdges loops)) :
    containCount o loops p % 2 = (loops.filter fun L => L.originInside).length % 2 := by
  have h := family_parity eqLaws_exactGeo signSwap_exactGeo ho hp hL hc
  rw [xorAll_map_eq_count_odd, xorAll_map_eq_count_odd] at h
  exact parity_of_decide h

/-- **The count parity is the same at all points**: one evaluation (e.g. at the reference point, or at any
    sample point) fixes it everywhere. -/
theorem tiling_parity_constant_exact {o p q : V3} (ho : Fin3 o) (hp : Fin3 p) (hq : Fin3 q)
    {loops : List (LoopM V3)} (hL : ∀ L ∈ loops, LoopIn Fin3 L) (hc : EdgesCancel (familyEdges loops)) :
    containCount o loops p % 2 = containCount o loops q % 2 := by
  rw [tiling_parity_exact ho hp hL hc, tiling_parity_exact ho hq hL hc]

/-- **Tiling parity, shared vertices up to `==`**: the same when the shared vertices of the loops are only `==`
    (±0 twins: cell vertices on a cube-face boundary are computed once per face and differ in the sign of a zero
    coordinate) — `EdgesCancelEq`.  Needs the reference directions of `o` and `p` finite. -/
theorem tiling_parity_eq_exact {o p : V3} (ho : Fin3 o) (hp : Fin3 p) (hro : Fin3 (s2Ortho o))
    (hrp : Fin3 (s2Ortho p)) {loops : List (LoopM V3)}
    (hL : ∀ L ∈ loops, LoopIn Fin3 L) (hc : EdgesCancelEq exactGeo (familyEdges loops)) :
    containCount o loops p % 2 = (loops.filter fun L => L.originInside).length % 2 := by
  have h := family_parity_eq chiroOn_exactGeo ho hp hro hrp hL hc
  rw [xorAll_map_eq_count_odd, xorAll_map_eq_count_odd] at h
  exact parity_of_decide h

/-- exactly once, GIVEN at most two (shared vertices up to `==`) -/
theorem tiling_exactly_once_eq_exact {o p : V3} (ho : Fin3 o) (hp : Fin3 p) (hro : Fin3 (s2Ortho o))
    (hrp : Fin3 (s2Ortho p)) {loops : List (LoopM V3)}
    (hL : ∀ L ∈ loops, LoopIn Fin3 L) (hc : EdgesCancelEq exactGeo (familyEdges loops))
    (hodd : (loops.filter fun L => L.originInside).length % 2 = 1)
    (hle : containCount o loops p ≤ 2) :
    containCount o loops p = 1 := by
  have := tiling_parity_eq_exact ho hp hro hrp hL hc
  omega

/-- **Exactly once**, GIVEN that at most two loops of the family contain `p` (in particular: given that the
    loops are pairwise disjoint at `p`): a family with cancelling boundaries whose reference point is in an odd
    number of loops contains `p` exactly once.  The hypothesis `hle` is the convexity / disjointness part of the
    tiling claim that the cocycle does not give. -/
theorem tiling_exactly_once_exact {o p : V3} (ho : Fin3 o) (hp : Fin3 p) {loops : List (LoopM V3)}
    (hL : ∀ L ∈ loops, LoopIn Fin3 L) (hc : EdgesCancel (familyEdges loops))
    (hodd : (loops.filter fun L => L.originInside).length % 2 = 1)
    (hle : containCount o loops p ≤ 2) :
    containCount o loops p = 1 := by
  have := tiling_parity_exact ho hp hL hc
  omega

/-- the statement `CellLoopsTile` of `Properties/C04.lean` restricted to the finite points, for the exact geometry:
    under the disjointness hypothesis it follows from the cancellation of the boundaries.  `_partial`: the
    hypothesis `hle` is not discharged for the cell loops of a level. -/
theorem cellLoopsTile_exact_partial {o : V3} (ho : Fin3 o) {loops : List (LoopM V3)}
    (hL : ∀ L ∈ loops, LoopIn Fin3 L) (hc : EdgesCancel (familyEdges loops))
    (hodd : (loops.filter fun L => L.originInside).length % 2 = 1)
    (hle : ∀ p, Fin3 p → containCount o loops p ≤ 2) :
    ∀ p, Fin3 p → (loops.filter fun L => bruteContains exactGeo o L p).length = 1 :=
  fun p hp => tiling_exactly_once_exact ho hp hL hc hodd (hle p hp)

/-- **Children vs parent**: if the edges of the loops `kids` cancel against the edges of the loop `par` (the four
    children of a cell against the parent WITH the edge midpoints as vertices; in general any subdivision of a
    loop), then at every finite point: "p is in an odd number of kids" XOR "p is in par" is the same bit as at the
    reference point. -/
theorem children_xor_parent_exact {o p : V3} (ho : Fin3 o) (hp : Fin3 p) {kids : List (LoopM V3)}
    {par : LoopM V3} (hK : ∀ L ∈ kids, LoopIn Fin3 L) (hP : LoopIn Fin3 par)
    (hc : EdgesCancel (familyEdges (kids ++ [invert par]))) :
    (xorAll (kids.map fun L => bruteContains exactGeo o L p) != bruteContains exactGeo o par p) =
      (xorAll (kids.map fun L => L.originInside) != par.originInside) := by
  have hL : ∀ L ∈ kids ++ [invert par], LoopIn Fin3 L := by
    intro L hL
    simp only [List.mem_append, List.mem_singleton] at hL
    rcases hL with h | rfl
    · exact hK L h
    · exact loopIn_invert hP
  have h := family_parity eqLaws_exactGeo signSwap_exactGeo ho hp hL hc
  simp only [List.map_append, List.map_cons, List.map_nil, xorAll_append, xorAll_cons, xorAll_nil,
    bruteContains_invert_exact ho hp hP] at h
  revert h
  simp only [invert]
  generalize xorAll (kids.map fun L => bruteContains exactGeo o L p) = x
  generalize bruteContains exactGeo o par p = y
  generalize xorAll (kids.map fun L => L.originInside) = z
  generalize par.originInside = w
  cases x <;> cases y <;> cases z <;> cases w <;> simp

/-- **The children tile the (subdivided) parent**: with consistent origin bits (the reference point is in the
    parent iff it is in an odd number of children — what `initOriginAndBound` establishes for cell loops, checked
    by evaluation in §7) a finite point is in the parent iff it is in an odd number of children. -/
theorem children_tile_parent_exact {o p : V3} (ho : Fin3 o) (hp : Fin3 p) {kids : List (LoopM V3)}
    {par : LoopM V3} (hK : ∀ L ∈ kids, LoopIn Fin3 L) (hP : LoopIn Fin3 par)
    (hc : EdgesCancel (familyEdges (kids ++ [invert par])))
    (hflags : xorAll (kids.map fun L => L.originInside) = par.originInside) :
    bruteContains exactGeo o par p = decide (containCount o kids p % 2 = 1) := by
  have h := children_xor_parent_exact ho hp hK hP hc
  rw [hflags, xorAll_map_eq_count_odd] at h
  unfold containCount
  revert h
  generalize decide ((kids.filter fun L => bruteContains exactGeo o L p).length % 2 = 1) = x
  generalize bruteContains exactGeo o par p = y
  generalize par.originInside = w
  cases x <;> cases y <;> cases w <;> simp

/-! ## 5. polygons -/

/-- **Polygon families**: polygons (any nesting, any number of loops each) whose loops' directed edges cancel
    altogether — e.g. a polygon and its complement, the polygons of a planar subdivision — the XOR of
    `Polygon.ContainsPoint` over the family is the same at every finite point: the XOR of the polygons' origin
    bits. -/
theorem polygon_family_parity_exact {o p : V3} (ho : Fin3 o) (hp : Fin3 p) {pgs : List (PolygonM V3)}
    (hpg : ∀ pg ∈ pgs, PolygonIn Fin3 pg)
    (hc : EdgesCancel (familyEdges (pgs.flatten.map fun l => l.loop))) :
    xorAll (pgs.map fun pg => polygonContains exactGeo o pg p) =
      xorAll (pgs.map fun pg => polygonOriginInside pg) := by
  have hL : ∀ L ∈ pgs.flatten.map (fun l => l.loop), LoopIn Fin3 L := by
    intro L hL
    obtain ⟨l, hl, rfl⟩ := List.mem_map.1 hL
    obtain ⟨pg, hpgm, hlm⟩ := List.mem_flatten.1 hl
    exact hpg pg hpgm l hlm
  have h := family_parity eqLaws_exactGeo signSwap_exactGeo ho hp hL hc
  have e1 : ∀ f : LoopM V3 → Bool, xorAll ((pgs.flatten.map fun l => l.loop).map f) =
      xorAll (pgs.map fun pg => xorAll (pg.map fun l => f l.loop)) := by
    intro f
    rw [List.map_map]
    have := xorAll_flatMap (fun pg : PolygonM V3 => pg) (fun l => f l.loop) pgs
    rw [List.flatMap_id'] at this
    exact this
  rw [e1, e1] at h
  exact h

/-- a polygon and its complement (one loop inverted) as a two-polygon family: every finite point is in exactly
    one of them — for every polygon (this is `polygon_and_complement_partition_exact_partial`, restated as a
    count) -/
theorem polygon_and_complement_count_exact {o p : V3} (ho : Fin3 o) (hp : Fin3 p) {pg : PolygonM V3}
    (hpg : PolygonIn Fin3 pg) (k : Nat) (hk : k < pg.length) :
    ([pg, polygonInvertAt pg k].filter fun q => polygonContains exactGeo o q p).length = 1 := by
  rcases polygon_and_complement_partition_exact_partial ho hp hpg k hk with ⟨h1, h2⟩ | ⟨h1, h2⟩ <;>
    simp [h1, h2]

/-- **A polygon and the polygon REBUILT with one loop reversed partition the sphere**: the loop `vs` of the
    polygon `pre ++ [vs] ++ post` is replaced by the loop `LoopFromPoints(reverse vs)` (origin bit recomputed by the
    constructor, hole flags arbitrary): containment is complemented at every point of the input class — for every
    polygon, whatever its other loops are. -/
theorem polygon_and_rebuilt_complement_exact {o p : V3} {vs : List V3} (hs : SimpleLoop exactGeo vs)
    (hd : LoopDom o vs p) (pre post : PolygonM V3) (h1 h2 : Bool) :
    polygonContains exactGeo o (pre ++ ⟨mkLoop exactGeo o vs.reverse.toArray, h2⟩ :: post) p =
      !polygonContains exactGeo o (pre ++ ⟨mkLoop exactGeo o vs.toArray, h1⟩ :: post) p := by
  unfold polygonContains
  simp only [List.map_append, List.map_cons, xorAll_append, xorAll_cons, mkLoop_reverse_contains_exact hs hd]
  generalize xorAll (pre.map fun l => bruteContains exactGeo o l.loop p) = x
  generalize xorAll (post.map fun l => bruteContains exactGeo o l.loop p) = y
  generalize bruteContains exactGeo o (mkLoop exactGeo o vs.toArray) p = z
  cases x <;> cases y <;> cases z <;> rfl

/-! ## 6. the real parent (four vertices) against its children -/

/-- pairwise not `==` -/
def Tri3 (A B C : V3) : Prop := V3.feq A B = false ∧ V3.feq B C = false ∧ V3.feq A C = false

/-- `x` is not `==` to a corner of the triangle and lies strictly outside it (`inTri`: on the inner side of all
    three sides, decided by the exact + symbolic sign) -/
def OffTri (A B C x : V3) : Prop :=
  V3.feq A x = false ∧ V3.feq B x = false ∧ V3.feq C x = false ∧ inTri exactGeo A B C x = false

instance (A B C : V3) : Decidable (Tri3 A B C) := by unfold Tri3; infer_instance
instance (A B C x : V3) : Decidable (OffTri A B C x) := by unfold OffTri; infer_instance

/-- a segment whose endpoints are outside a triangle (and not at its corners) crosses its boundary an even number
    of times -/
theorem crossParity_triangle_outside_exact {A B C o p : V3} (hA : Fin3 A) (hB : Fin3 B) (hC : Fin3 C)
    (ho : Fin3 o) (hp : Fin3 p) (ht : Tri3 A B C) (oo : OffTri A B C o) (op : OffTri A B C p) :
    crossParity exactGeo o p (loopEdges [A, B, C]) = false := by
  rw [crossParity_triangle chiroOn_exactGeo hA hB hC ho hp ht.1 ht.2.1 ht.2.2 oo.1 oo.2.1 oo.2.2.1
    op.1 op.2.1 op.2.2.1, oo.2.2.2, op.2.2.2]
  rfl

/-- the quadrilateral `v0 v1 v2 v3` (a cell), the extra vertices `m_i` on its edges (the midpoints that the
    children use), and a point `x`: everything finite, the sliver triangles `v_i m_i v_{i+1}` have pairwise
    non-`==` corners, and `x` is outside the four slivers and not at one of the eight vertices.  This is the
    precise meaning of "generic point" for children vs parent: in floating point the midpoint `m_i` is not
    exactly on the great circle through `v_i`, `v_{i+1}`, so the parent's edge and the two child edges enclose a
    sliver (width ~1e-16) whose points are in the parent and in no child, or conversely. -/
def SliverDom (v0 v1 v2 v3 m0 m1 m2 m3 x : V3) : Prop :=
  (∀ v ∈ [v0, v1, v2, v3, m0, m1, m2, m3, x], Fin3 v) ∧
  Tri3 v0 m0 v1 ∧ Tri3 v1 m1 v2 ∧ Tri3 v2 m2 v3 ∧ Tri3 v3 m3 v0 ∧
  OffTri v0 m0 v1 x ∧ OffTri v1 m1 v2 x ∧ OffTri v2 m2 v3 x ∧ OffTri v3 m3 v0 x

instance (v0 v1 v2 v3 m0 m1 m2 m3 x : V3) : Decidable (SliverDom v0 v1 v2 v3 m0 m1 m2 m3 x) := by
  unfold SliverDom; infer_instance

/-- **The cell loop and the subdivided cell loop agree outside the slivers**: same origin bit, reference point and
    query point outside the four slivers — same answer. -/
theorem quad_eq_subdivided_exact {o p v0 v1 v2 v3 m0 m1 m2 m3 : V3}
    (ho : SliverDom v0 v1 v2 v3 m0 m1 m2 m3 o) (hp : SliverDom v0 v1 v2 v3 m0 m1 m2 m3 p) (f : Bool) :
    bruteContains exactGeo o ⟨#[v0, v1, v2, v3], f⟩ p =
      bruteContains exactGeo o ⟨#[v0, m0, v1, m1, v2, m2, v3, m3], f⟩ p := by
  obtain ⟨hf, t0, t1, t2, t3, o0, o1, o2, o3⟩ := ho
  obtain ⟨hf', _, _, _, _, p0, p1, p2, p3⟩ := hp
  have f0 := hf v0 (by simp)
  have f1 := hf v1 (by simp)
  have f2 := hf v2 (by simp)
  have f3 := hf v3 (by simp)
  have g0 := hf m0 (by simp)
  have g1 := hf m1 (by simp)
  have g2 := hf m2 (by simp)
  have g3 := hf m3 (by simp)
  have fo := hf o (by simp)
  have fp := hf' p (by simp)
  unfold bruteContains
  simp only
  rw [crossParity_quad_subdivided (m0 := m0) (m1 := m1) (m2 := m2) (m3 := m3) eqLaws_exactGeo
      signSwap_exactGeo fo fp f0 f1 f2 f3,
    crossParity_triangle_outside_exact f0 g0 f1 fo fp t0 o0 p0,
    crossParity_triangle_outside_exact f1 g1 f2 fo fp t1 o1 p1,
    crossParity_triangle_outside_exact f2 g2 f3 fo fp t2 o2 p2,
    crossParity_triangle_outside_exact f3 g3 f0 fo fp t3 o3 p3]
  simp

/-- **The children tile the parent cell** (the real four-vertex loop): if the children's edges cancel against the
    subdivided parent and the origin bits are consistent, then every finite point outside the four slivers (and
    not one of the eight boundary vertices) is in the parent iff it is in an odd number of children. -/
theorem children_tile_cell_exact {o p v0 v1 v2 v3 m0 m1 m2 m3 : V3} {kids : List (LoopM V3)} {f : Bool}
    (ho : SliverDom v0 v1 v2 v3 m0 m1 m2 m3 o) (hp : SliverDom v0 v1 v2 v3 m0 m1 m2 m3 p)
    (hK : ∀ L ∈ kids, LoopIn Fin3 L)
    (hc : EdgesCancel (familyEdges (kids ++ [invert ⟨#[v0, m0, v1, m1, v2, m2, v3, m3], f⟩])))
    (hflags : xorAll (kids.map fun L => L.originInside) = f) :
    bruteContains exactGeo o ⟨#[v0, v1, v2, v3], f⟩ p = decide (containCount o kids p % 2 = 1) := by
  rw [quad_eq_subdivided_exact ho hp]
  have hf := ho.1
  have hP : LoopIn Fin3 (⟨#[v0, m0, v1, m1, v2, m2, v3, m3], f⟩ : LoopM V3) := by
    intro v hv
    simp only [List.mem_cons, List.not_mem_nil, or_false] at hv
    exact hf v (by simp only [List.mem_cons]; tauto)
  exact children_tile_parent_exact (hf o (by simp)) (hp.1 p (by simp)) hK hP hc hflags

/-! ## 7. non-vacuity: a cell and its four children; the six faces -/

/-- a witness for `EdgesCancel`: one edge of every pair (greedy) -/
def halfEdges (es : List (V3 × V3)) : List (V3 × V3) :=
  es.foldl (fun acc e => if acc.contains (e.2, e.1) then acc else e :: acc) []

private theorem edgesCancel_of_half {es : List (V3 × V3)}
    (h : es.Perm (halfEdges es ++ (halfEdges es).map Prod.swap)) : EdgesCancel es := ⟨_, h⟩

/-! The cell `CellID 6989586621679009792` (face 3, level 2; its vertex 0 is the cube corner (-1,1,1)/√3) and its
    four children, vertices = `Cell.Vertex(k)` as the model `S2.CellM.vertex` computes them (bit patterns).
    `cP*` parent vertices, `cM*` edge midpoints (vertices of two children each), `cC` the centre (a vertex of
    all four children). -/
def cP0 : V3 := ⟨⟨0xbfe279a74590331d⟩, ⟨0x3fe279a74590331d⟩, ⟨0x3fe279a74590331d⟩⟩
def cP1 : V3 := ⟨⟨0xbfe5b47879588362⟩, ⟨0x3fe5b47879588362⟩, ⟨0x3fd21664651f1827⟩⟩
def cP2 : V3 := ⟨⟨0xbfeb91d0ddac86fe⟩, ⟨0x3fd6f98363651b28⟩, ⟨0x3fd6f98363651b28⟩⟩
def cP3 : V3 := ⟨⟨0xbfe5b47879588362⟩, ⟨0x3fd21664651f1827⟩, ⟨0x3fe5b47879588362⟩⟩
def cM01 : V3 := ⟨⟨0xbfe459a4f05c6bbe⟩, ⟨0x3fe459a4f05c6bbe⟩, ⟨0x3fdbfb42ca7f1425⟩⟩
def cM12 : V3 := ⟨⟨0xbfe8f0b06e020edf⟩, ⟨0x3fe125794ba16a39⟩, ⟨0x3fd4c89306570c64⟩⟩
def cM23 : V3 := ⟨⟨0xbfe8f0b06e020edf⟩, ⟨0x3fd4c89306570c64⟩, ⟨0x3fe125794ba16a39⟩⟩
def cM30 : V3 := ⟨⟨0xbfe459a4f05c6bbe⟩, ⟨0x3fdbfb42ca7f1425⟩, ⟨0x3fe459a4f05c6bbe⟩⟩
def cC : V3 := ⟨⟨0xbfe6f17a0d23512d⟩, ⟨0x3fdf8c07d2108f9e⟩, ⟨0x3fdf8c07d2108f9e⟩⟩

/-- the vertex lists of `LoopFromCell(child k)` -/
def kid0 : List V3 := [cP0, cM01, cC, cM30]
def kid1 : List V3 := [cM01, cP1, cM12, cC]
def kid2 : List V3 := [cC, cM12, cP2, cM23]
def kid3 : List V3 := [cM30, cC, cM23, cP3]
/-- the parent with the midpoints as vertices, and the real parent `LoopFromCell(parent)` -/
def parMid : List V3 := [cP0, cM01, cP1, cM12, cP2, cM23, cP3, cM30]
def par4 : List V3 := [cP0, cP1, cP2, cP3]

/-- `LoopFromPoints` with the library's `OriginPoint` -/
def mkO (vs : List V3) : LoopM V3 := mkLoop exactGeo originPoint vs.toArray

def kidLoops : List (LoopM V3) := [mkO kid0, mkO kid1, mkO kid2, mkO kid3]

private theorem fin_origin : Fin3 originPoint := by decide +kernel

/-- the child loop 0 is a valid loop; the input class holds for the query points `cC` (its own vertex, shared by
    all four children), `cM23` (a vertex of two other children) and for `OriginPoint` itself -/
example : SimpleLoop exactGeo kid0 ∧ LoopDom originPoint kid0 cC ∧ LoopDom originPoint kid0 cM23 ∧
    LoopDom originPoint kid0 originPoint := by decide +kernel

/-- §2 at a vertex of the loop, reference points `OriginPoint` and (0,0,1)/(1,1,1) -/
example : bruteContains exactGeo originPoint (mkLoop exactGeo originPoint kid0.toArray) cC =
    bruteContains exactGeo eD (mkLoop exactGeo eD kid0.toArray) cC :=
  mkLoop_contains_origin_independent_exact (by decide +kernel) (by decide +kernel) (by decide +kernel)
    (by decide +kernel)

/-- §3: rotation, the vertex rule at vertex 2 (`cC`), reversal, `Invert` = rebuilt loop -/
example : bruteContains exactGeo originPoint (mkLoop exactGeo originPoint (kid0.rotate 3).toArray) cC =
    bruteContains exactGeo originPoint (mkLoop exactGeo originPoint kid0.toArray) cC :=
  mkLoop_rotate_exact (by decide +kernel) (by decide +kernel) 3

example : bruteContains exactGeo originPoint (mkLoop exactGeo originPoint ([cP0] ++ cM01 :: cC :: cM30 :: []).toArray) cC =
    angleContainsVertex exactGeo cM01 cC cM30 :=
  mkLoop_contains_vertex_exact (by decide +kernel) (by decide +kernel)

example : (mkLoop exactGeo originPoint kid0.toArray).originInside = vertexContains exactGeo kid0 originPoint :=
  mkLoop_originInside_exact (by decide +kernel) (by decide +kernel)

example : mkLoop exactGeo originPoint kid0.reverse.toArray = invert (mkO kid0) :=
  mkLoop_reverse_eq_invert_exact (by decide +kernel) (by decide +kernel)

example :
    (bruteContains exactGeo originPoint (mkLoop exactGeo originPoint kid0.toArray) cC = true ∧
      bruteContains exactGeo originPoint (mkLoop exactGeo originPoint kid0.reverse.toArray) cC = false) ∨
    (bruteContains exactGeo originPoint (mkLoop exactGeo originPoint kid0.toArray) cC = false ∧
      bruteContains exactGeo originPoint (mkLoop exactGeo originPoint kid0.reverse.toArray) cC = true) :=
  loop_and_reversed_loop_partition_exact (by decide +kernel) (by decide +kernel)

/-- the eight-vertex subdivided parent is a valid loop too -/
example : SimpleLoop exactGeo parMid ∧ LoopDom originPoint parMid cC := by decide +kernel

/-- §4: the edges of the four children cancel against the subdivided parent; all vertices finite; the origin bits
    (all `false`: `OriginPoint` is far away, near the north pole) are consistent -/
private theorem kids_cancel : EdgesCancel (familyEdges (kidLoops ++ [invert (mkO parMid)])) :=
  edgesCancel_of_half (by decide +kernel)

private theorem kids_fin : (∀ L ∈ kidLoops, LoopIn Fin3 L) ∧ LoopIn Fin3 (mkO parMid) := by
  unfold LoopIn; decide +kernel

private theorem kids_flags : xorAll (kidLoops.map fun L => L.originInside) = (mkO parMid).originInside := by
  decide +kernel

/-- at the centre `cC` — a vertex of all four children — exactly one child contains the point (evaluation), and
    the general theorem says: in the subdivided parent iff in an odd number of children -/
example : containCount originPoint kidLoops cC = 1 ∧ containCount originPoint kidLoops cM23 = 1 ∧
    containCount originPoint kidLoops cM01 = 0 := by decide +kernel

example : bruteContains exactGeo originPoint (mkO parMid) cM23 =
    decide (containCount originPoint kidLoops cM23 % 2 = 1) :=
  children_tile_parent_exact fin_origin (by decide +kernel) kids_fin.1 kids_fin.2 kids_cancel kids_flags

/-- the family "four children + inverted subdivided parent": the count has the same parity at any two finite points -/
example : containCount originPoint (kidLoops ++ [invert (mkO parMid)]) cC % 2 =
    containCount originPoint (kidLoops ++ [invert (mkO parMid)]) eD % 2 := by
  refine tiling_parity_constant_exact fin_origin (by decide +kernel) (by decide +kernel) ?_ kids_cancel
  intro L hL
  simp only [List.mem_append, List.mem_singleton] at hL
  rcases hL with h | rfl
  · exact kids_fin.1 L h
  · exact loopIn_invert kids_fin.2

/-- §6: the real parent.  `OriginPoint` and the centre are outside the slivers … -/
private theorem sliverDom_origin : SliverDom cP0 cP1 cP2 cP3 cM01 cM12 cM23 cM30 originPoint := by decide +kernel

example : bruteContains exactGeo originPoint ⟨#[cP0, cP1, cP2, cP3], false⟩ cC =
    decide (containCount originPoint kidLoops cC % 2 = 1) :=
  children_tile_cell_exact sliverDom_origin (by decide +kernel) kids_fin.1
    (edgesCancel_of_half (by decide +kernel)) (by decide +kernel)

/-- … and the sliver hypothesis cannot be dropped: the midpoint `cM01` (a corner of a sliver) is contained in the
    real parent loop and in NO child; the midpoint `cM23` is contained in a child and NOT in the real parent loop
    (the float midpoints are not on the great circles of the parent's edges: `[cP0 cM01 cP1] = -1`,
    `[cP2 cM23 cP3] = +1`).  The subdivided parent agrees with the children at both points. -/
theorem children_vs_real_parent_differ_at_midpoints :
    bruteContains exactGeo originPoint (mkO par4) cM01 = true ∧ containCount originPoint kidLoops cM01 = 0 ∧
    bruteContains exactGeo originPoint (mkO parMid) cM01 = false ∧
    bruteContains exactGeo originPoint (mkO par4) cM23 = false ∧ containCount originPoint kidLoops cM23 = 1 ∧
    bruteContains exactGeo originPoint (mkO parMid) cM23 = true ∧
    exactGeo.rs cP0 cM01 cP1 = -1 ∧ exactGeo.rs cP2 cM23 cP3 = 1 := by decide +kernel

/-- the two-loop family "child 0 and its inverse": `cellLoopsTile_exact_partial` applies (at most two loops can
    contain a point) — every finite point is in exactly one of them -/
example : ∀ p, Fin3 p →
    ([mkO kid0, invert (mkO kid0)].filter fun L => bruteContains exactGeo originPoint L p).length = 1 :=
  cellLoopsTile_exact_partial fin_origin (by unfold LoopIn; decide +kernel) (edgesCancel_of_half (by decide +kernel))
    (by decide +kernel) (fun p _ => List.length_filter_le _ _)

/-! the six face loops `LoopFromCell(face f)`: vertices (±1,±1,±1)/√3, bit-identical across faces -/
def cu (sx sy sz : Bool) : V3 :=
  ⟨⟨if sx then 0xbfe279a74590331d else 0x3fe279a74590331d⟩, ⟨if sy then 0xbfe279a74590331d else 0x3fe279a74590331d⟩,
   ⟨if sz then 0xbfe279a74590331d else 0x3fe279a74590331d⟩⟩

def faceLoops : List (LoopM V3) :=
  [mkO [cu false true true, cu false false true, cu false false false, cu false true false],
   mkO [cu false false true, cu true false true, cu true false false, cu false false false],
   mkO [cu false false false, cu true false false, cu true true false, cu false true false],
   mkO [cu true false false, cu true false true, cu true true true, cu true true false],
   mkO [cu true true false, cu true true true, cu false true true, cu false true false],
   mkO [cu true true true, cu true false true, cu false false true, cu false true true]]

/-- the six faces: boundaries cancel, `OriginPoint` is in exactly one face (face 2), so every finite point is in
    an odd number of faces — e.g. the cube corner (1,1,1)/√3, shared by three faces, is in exactly one -/
private theorem faces_cancel : EdgesCancel (familyEdges faceLoops) := edgesCancel_of_half (by decide +kernel)

private theorem faces_fin : ∀ L ∈ faceLoops, LoopIn Fin3 L := by unfold LoopIn; decide +kernel

private theorem faces_flags : (faceLoops.filter fun L => L.originInside).length % 2 = 1 := by decide +kernel

theorem six_faces_odd_exact {p : V3} (hp : Fin3 p) : containCount originPoint faceLoops p % 2 = 1 := by
  rw [tiling_parity_exact fin_origin hp faces_fin faces_cancel]
  exact faces_flags

example : containCount originPoint faceLoops (cu false false false) = 1 := by decide +kernel

example : containCount originPoint faceLoops (cu false false false) = 1 :=
  tiling_exactly_once_exact fin_origin (by decide +kernel) faces_fin faces_cancel faces_flags (by decide +kernel)

/-! §5: polygons — the children as two polygons against the inverted parent; a polygon with the child 0 as a
    hole, rebuilt with the hole reversed -/
example : xorAll ([[⟨mkO kid0, false⟩, ⟨mkO kid1, false⟩], [⟨mkO kid2, false⟩, ⟨mkO kid3, false⟩],
      [⟨invert (mkO parMid), false⟩]].map fun pg => polygonContains exactGeo originPoint pg cC) =
    xorAll ([[⟨mkO kid0, false⟩, ⟨mkO kid1, false⟩], [⟨mkO kid2, false⟩, ⟨mkO kid3, false⟩],
      [⟨invert (mkO parMid), false⟩]].map fun pg => polygonOriginInside pg) := by
  refine polygon_family_parity_exact fin_origin (by decide +kernel) ?_ ?_
  · unfold PolygonIn LoopIn; decide +kernel
  · exact kids_cancel

example : ([[⟨mkO parMid, false⟩, ⟨mkO kid0, true⟩], polygonInvertAt [⟨mkO parMid, false⟩, ⟨mkO kid0, true⟩] 1].filter
      fun q => polygonContains exactGeo originPoint q cC).length = 1 :=
  polygon_and_complement_count_exact fin_origin (by decide +kernel) (by unfold PolygonIn LoopIn; decide +kernel) 1
    (by decide)

example : polygonContains exactGeo originPoint
      ([⟨mkO parMid, false⟩] ++ ⟨mkLoop exactGeo originPoint kid0.reverse.toArray, false⟩ :: []) cC =
    !polygonContains exactGeo originPoint
      ([⟨mkO parMid, false⟩] ++ ⟨mkLoop exactGeo originPoint kid0.toArray, true⟩ :: []) cC :=
  polygon_and_rebuilt_complement_exact (by decide +kernel) (by decide +kernel) _ _ _ _

/-! ## 8. all 24 cells of level 1 (shared vertices up to `==`) -/

/-- a witness for `EdgesCancelEq`: greedy pairing of every edge with a later edge that is its reverse up to `==` -/
def pairUp : Nat → List (V3 × V3) → List (V3 × V3) × List (V3 × V3)
  | 0, _ => ([], [])
  | _, [] => ([], [])
  | n + 1, e :: es =>
    match es.find? (fun f => V3.feq e.1 f.2 && V3.feq e.2 f.1) with
    | none => ([e], [])
    | some f => let r := pairUp n (es.erase f); (e :: r.1, f :: r.2)

/-- the decidable check that `pairUp` succeeded -/
def PairOK (es : List (V3 × V3)) : Prop :=
  es.Perm ((pairUp es.length es).1 ++ (pairUp es.length es).2) ∧
  (pairUp es.length es).1.length = (pairUp es.length es).2.length ∧
  ∀ x ∈ (pairUp es.length es).1.zip (pairUp es.length es).2,
    V3.feq x.1.1 x.2.2 = true ∧ V3.feq x.1.2 x.2.1 = true

instance (es : List (V3 × V3)) : Decidable (PairOK es) := by unfold PairOK; infer_instance

private theorem edgesCancelEq_of_pairOK {es : List (V3 × V3)} (h : PairOK es) : EdgesCancelEq exactGeo es :=
  ⟨_, _, h.1, h.2.1, h.2.2⟩

/-- the vertices `Cell.Vertex(k)` of the 24 level-1 cells (values of the model `S2.CellM.vertex`): 26 points of the
    sphere, 32 bit patterns — the six points with a zero coordinate that lie on a cube-face boundary come in two
    versions, `+0` and `-0` -/
def l1Verts : List V3 :=
  [⟨⟨0x3fe279a74590331d⟩, ⟨0xbfe279a74590331d⟩, ⟨0xbfe279a74590331d⟩⟩,
  ⟨⟨0x3fe6a09e667f3bcc⟩, ⟨0x0000000000000000⟩, ⟨0xbfe6a09e667f3bcc⟩⟩,
  ⟨⟨0x3ff0000000000000⟩, ⟨0x0000000000000000⟩, ⟨0x0000000000000000⟩⟩,
  ⟨⟨0x3fe6a09e667f3bcc⟩, ⟨0xbfe6a09e667f3bcc⟩, ⟨0x0000000000000000⟩⟩,
  ⟨⟨0x3fe6a09e667f3bcc⟩, ⟨0x0000000000000000⟩, ⟨0x3fe6a09e667f3bcc⟩⟩,
  ⟨⟨0x3fe279a74590331d⟩, ⟨0xbfe279a74590331d⟩, ⟨0x3fe279a74590331d⟩⟩,
  ⟨⟨0x3fe6a09e667f3bcc⟩, ⟨0x3fe6a09e667f3bcc⟩, ⟨0x0000000000000000⟩⟩,
  ⟨⟨0x3fe279a74590331d⟩, ⟨0x3fe279a74590331d⟩, ⟨0x3fe279a74590331d⟩⟩,
  ⟨⟨0x3fe279a74590331d⟩, ⟨0x3fe279a74590331d⟩, ⟨0xbfe279a74590331d⟩⟩,
  ⟨⟨0x8000000000000000⟩, ⟨0x3fe6a09e667f3bcc⟩, ⟨0xbfe6a09e667f3bcc⟩⟩,
  ⟨⟨0x8000000000000000⟩, ⟨0x3ff0000000000000⟩, ⟨0x0000000000000000⟩⟩,
  ⟨⟨0xbfe279a74590331d⟩, ⟨0x3fe279a74590331d⟩, ⟨0xbfe279a74590331d⟩⟩,
  ⟨⟨0xbfe6a09e667f3bcc⟩, ⟨0x3fe6a09e667f3bcc⟩, ⟨0x0000000000000000⟩⟩,
  ⟨⟨0xbfe279a74590331d⟩, ⟨0x3fe279a74590331d⟩, ⟨0x3fe279a74590331d⟩⟩,
  ⟨⟨0x8000000000000000⟩, ⟨0x3fe6a09e667f3bcc⟩, ⟨0x3fe6a09e667f3bcc⟩⟩,
  ⟨⟨0x8000000000000000⟩, ⟨0x8000000000000000⟩, ⟨0x3ff0000000000000⟩⟩,
  ⟨⟨0x3fe6a09e667f3bcc⟩, ⟨0x8000000000000000⟩, ⟨0x3fe6a09e667f3bcc⟩⟩,
  ⟨⟨0x8000000000000000⟩, ⟨0xbfe6a09e667f3bcc⟩, ⟨0x3fe6a09e667f3bcc⟩⟩,
  ⟨⟨0xbfe6a09e667f3bcc⟩, ⟨0x8000000000000000⟩, ⟨0x3fe6a09e667f3bcc⟩⟩,
  ⟨⟨0xbfe279a74590331d⟩, ⟨0xbfe279a74590331d⟩, ⟨0x3fe279a74590331d⟩⟩,
  ⟨⟨0xbfe6a09e667f3bcc⟩, ⟨0x3fe6a09e667f3bcc⟩, ⟨0x8000000000000000⟩⟩,
  ⟨⟨0xbff0000000000000⟩, ⟨0x8000000000000000⟩, ⟨0x8000000000000000⟩⟩,
  ⟨⟨0xbfe6a09e667f3bcc⟩, ⟨0x8000000000000000⟩, ⟨0xbfe6a09e667f3bcc⟩⟩,
  ⟨⟨0xbfe279a74590331d⟩, ⟨0xbfe279a74590331d⟩, ⟨0xbfe279a74590331d⟩⟩,
  ⟨⟨0xbfe6a09e667f3bcc⟩, ⟨0xbfe6a09e667f3bcc⟩, ⟨0x8000000000000000⟩⟩,
  ⟨⟨0x0000000000000000⟩, ⟨0xbff0000000000000⟩, ⟨0x8000000000000000⟩⟩,
  ⟨⟨0x0000000000000000⟩, ⟨0xbfe6a09e667f3bcc⟩, ⟨0x3fe6a09e667f3bcc⟩⟩,
  ⟨⟨0x3fe6a09e667f3bcc⟩, ⟨0xbfe6a09e667f3bcc⟩, ⟨0x8000000000000000⟩⟩,
  ⟨⟨0x0000000000000000⟩, ⟨0xbfe6a09e667f3bcc⟩, ⟨0xbfe6a09e667f3bcc⟩⟩,
  ⟨⟨0xbfe6a09e667f3bcc⟩, ⟨0x0000000000000000⟩, ⟨0xbfe6a09e667f3bcc⟩⟩,
  ⟨⟨0x0000000000000000⟩, ⟨0x0000000000000000⟩, ⟨0xbff0000000000000⟩⟩,
  ⟨⟨0x0000000000000000⟩, ⟨0x3fe6a09e667f3bcc⟩, ⟨0xbfe6a09e667f3bcc⟩⟩]

/-- `LoopFromCell` of the 24 level-1 cells (faces 0..5, Hilbert order), as indices into `l1Verts` -/
def l1Idx : List (List Nat) := [[0, 1, 2, 3], [3, 2, 4, 5], [2, 6, 7, 4], [1, 8, 6, 2], [8, 9, 10, 6], [9, 11, 12, 10], [10, 12, 13, 14], [6, 10, 14, 7], [7, 14, 15, 16], [16, 15, 17, 5], [15, 18, 19, 17], [14, 13, 18, 15], [13, 20, 21, 18], [20, 11, 22, 21], [21, 22, 23, 24], [18, 21, 24, 19], [19, 24, 25, 26], [26, 25, 27, 5], [25, 28, 0, 27], [24, 23, 28, 25], [23, 29, 30, 28], [29, 11, 31, 30], [30, 31, 8, 1], [28, 30, 1, 0]]

def l1Loops : List (LoopM V3) :=
  l1Idx.map fun l => mkO (l.map fun i => l1Verts.getD i default)

/-- ±0 twins do occur among the shared vertices: the edges do NOT cancel bit-for-bit … -/
example : ¬ (familyEdges l1Loops).Perm
    (halfEdges (familyEdges l1Loops) ++ (halfEdges (familyEdges l1Loops)).map Prod.swap) := by decide +kernel

/-- … but they cancel up to `==` -/
private theorem l1_cancel : EdgesCancelEq exactGeo (familyEdges l1Loops) := edgesCancelEq_of_pairOK (by decide +kernel)

private theorem l1_fin : ∀ L ∈ l1Loops, LoopIn Fin3 L := by unfold LoopIn; decide +kernel

/-- `OriginPoint` is in exactly one level-1 cell -/
private theorem l1_flags : (l1Loops.filter fun L => L.originInside).length = 1 := by decide +kernel

/-- **All cells of level 1**: every finite point (with a finite reference direction) is contained in an ODD
    number of the 24 cell loops — cube corners, face-boundary points and the ±0 twins of vertices included. -/
theorem level1_cells_odd_exact {p : V3} (hp : Fin3 p) (hrp : Fin3 (s2Ortho p)) :
    containCount originPoint l1Loops p % 2 = 1 := by
  rw [tiling_parity_eq_exact fin_origin hp (by decide +kernel) hrp l1_fin l1_cancel, l1_flags]

/-- at the face centre (1,0,0) (shared by four cells), at the point (1,-1,0)/√2 of a face boundary in its two
    versions (entries 3 and 27: `==`, different bit patterns), at a cube corner: exactly one cell (evaluation) -/
example : containCount originPoint l1Loops (l1Verts.getD 2 default) = 1 ∧
    V3.feq (l1Verts.getD 3 default) (l1Verts.getD 27 default) = true ∧
    l1Verts.getD 3 default ≠ l1Verts.getD 27 default ∧
    containCount originPoint l1Loops (l1Verts.getD 3 default) = 1 ∧
    containCount originPoint l1Loops (l1Verts.getD 27 default) = 1 ∧
    containCount originPoint l1Loops (l1Verts.getD 0 default) = 1 := by decide +kernel

example : containCount originPoint l1Loops (l1Verts.getD 27 default) = 1 :=
  tiling_exactly_once_eq_exact fin_origin (by decide +kernel) (by decide +kernel) (by decide +kernel) l1_fin
    l1_cancel (by rw [l1_flags]) (by decide +kernel)

example : containCount originPoint l1Loops (l1Verts.getD 27 default) % 2 = 1 :=
  level1_cells_odd_exact (by decide +kernel) (by decide +kernel)

end S2Proofs.C04
