/-
  S2Proofs.Properties.C07_Walk — property C07, the two-index walk of the loop relations
  (model `S2.RelateWalk` = `hasCrossingRelation` / `loopCrosser` / `rangeIterator` as written).

  PROVED here, for ALL pairs of indexes whose cell lists are valid, sorted and pairwise disjoint
  (`IdxOK`, a decidable predicate on the dumped index; no bound on sizes or levels) and for EVERY
  instance of the tests the walk performs (in particular the real ones, `realTests`):
    * `walk_no_fuel_exhaustion`            the merge loop ends within `walkFuel` iterations (each iteration
                                           moves an iterator forward); `hasCrossingRelation_total`,
                                           `contains_total`, `intersects_total`, `compareBoundary_total`
    * `walk_visits_each_intersecting_pair_once`   THE ITERATOR-ALIGNMENT INVARIANT: the walk looks at every
                                           pair (A-cell, B-cell) with intersecting leaf ranges exactly once and at
                                           no other pair — on every control path (`centerA` answers arbitrary)
    * `walk_instrumented_complete`         the same for the real tests with early exit: either the walk
                                           returns `true`, or it has looked at every such pair (once)
    * `walk_invariant`                     induction principle over the walk (any indexes): a state property
                                           that survives every non-firing test holds when the walk returns `false`
    * `walk_false_no_listed_crossing`, `walk_false_no_crossing`   COMPLETENESS OF THE CROSSING SEARCH for the
                                           real tests (all three relations): if `hasCrossingRelation` returns false
                                           (and `getCells` is complete, the index lists every crossing pair in two
                                           meeting cells) then NO pair of edges crosses: `Relate.anyCrossing = false`
    * `walk_false_found_shared`            COMPLETENESS OF THE SHARED-VERTEX SEARCH: under the same hypotheses, if the
                                           loops share a vertex the returned relation state has `foundSharedVertex`
  STATED (def … : Prop), not proved: `WalkContainsEqExact`, `WalkIntersectsEqExact`,
  `WalkCompareBoundaryEqExact` (the walk's answer = the exact relation `S2.Relate` under the index
  hypotheses); what is missing is said at the definitions.  They are decided per generated pair by the
  correspondence check (op `c07walk`: clauses walk-contains / walk-intersects / walk-boundary, and the
  hypotheses hyp-cells / hyp-covered are evaluated on the real index).
-/
import S2Proofs.C07.WalkMain
import S2Proofs.C07.WalkReal
namespace S2Proofs.C07
open S2 S2.CellID S2.RelateWalk

/-! ### vocabulary -/

/-- the leaf ranges of cell `i` of `IA` and cell `j` of `IB` intersect -/
def RangesMeet (IA IB : Index) (i j : Nat) : Prop :=
  i < IA.size ∧ j < IB.size ∧ IA.rangeMinAt i ≤ IB.rangeMaxAt j ∧ IB.rangeMinAt j ≤ IA.rangeMaxAt i

instance (IA IB : Index) (i j : Nat) : Decidable (RangesMeet IA IB i j) := by unfold RangesMeet; exact inferInstance

private theorem rangesMeet_iff (IA IB : Index) (i j : Nat) : RangesMeet IA IB i j ↔ interR IA IB i j := by
  unfold RangesMeet interR lo hi
  simp only [toNat_le_iff]

/-- number of leaf cells of the range of a cell minus one (`rangeMax - rangeMin` as a natural) -/
def rangeWidth (I : Index) (p : Nat) : Nat := (I.rangeMaxAt p).toNat - (I.rangeMinAt p).toNat

/-- the pair has to be looked at: equal cells when both have edges; nested cells unless the larger one
    has edges and the smaller one has none (`hasCrossing` steps over such a cell: nothing to test) -/
def NeedsLook (IA IB : Index) (i j : Nat) : Prop :=
  (rangeWidth IA i = rangeWidth IB j → 0 < IA.numEdgesAt i ∧ 0 < IB.numEdgesAt j) ∧
  (rangeWidth IB j < rangeWidth IA i → IA.numEdgesAt i = 0 ∨ 0 < IB.numEdgesAt j) ∧
  (rangeWidth IA i < rangeWidth IB j → IB.numEdgesAt j = 0 ∨ 0 < IA.numEdgesAt i)

private theorem needsLook_iff (IA IB : Index) (i j : Nat) : NeedsLook IA IB i j ↔ needR IA IB i j := Iff.rfl

/-- the logger: every callback records the pairs (A position, B position) it looks at and reports no
    crossing; `cA` answers `containsCenterMatches(aClipped, l.aCrossingTarget)` arbitrarily, so that both
    branches of the edge-free-cell shortcut are covered.  `subcell` (a CrossingEdgeQuery below the cell)
    and a skipped edge-free cell stand for all the cells of the other index below the cell. -/
def logT (IA IB : Index) (cA : Bool → Nat → Bool) : Tests Log where
  cellCell sw x y s := (s ++ [mkPair sw x y], false)
  subcell sw x s := (s ++ (underOf IA IB sw x).map (mkPair sw x), false)
  centerA sw x s := (s ++ (if cA sw x = true then [] else (underOf IA IB sw x).map (mkPair sw x)), cA sw x)
  centerB sw x y s := (s ++ [mkPair sw x y], false)
  sameCenter _ _ s := (s, false)

/-! ### termination -/

/-- On valid, sorted, pairwise disjoint cell lists the merge loop of `hasCrossingRelation` never runs
    out of fuel, whatever the tests answer: every iteration moves at least one iterator forward. -/
theorem walk_no_fuel_exhaustion {σ : Type} (T : Tests σ) (IA IB : Index) (hA : IdxOK IA) (hB : IdxOK IB) (s : σ) :
    ∃ s' r, walk T IA IB s = some (s', r) := by
  obtain ⟨s', r, h, _⟩ := mainLoop_spec T IA IB (fun _ => []) False (ghost_off T IA IB)
    (facts_of_ok hA) (facts_of_ok hB) (lam_of_ok hA hB) (walkFuel IA IB) 0 0 s (Nat.zero_le _) (Nat.zero_le _)
    ⟨fun i j h => by omega, fun i j h => by omega⟩ (by unfold walkFuel; omega) (fun h => h.elim)
  exact ⟨s', r, h⟩

example : IdxOK ⟨#[⟨0x1000000000000000, true, []⟩, ⟨0x3400000000000000, false, [0, 1]⟩, ⟨0x3c00000000000000, false, [1, 2]⟩]⟩ := by
  decide +kernel

/-- the real `hasCrossingRelation` of the model always returns -/
theorem hasCrossingRelation_total {α : Type} [DecidableEq α] (G : Relate.Geo α) (k : RelKind) (A B : Relate.Loop α)
    (IA IB : Index) (gcAB gcBA : Nat → Nat → List Nat) (hA : IdxOK IA) (hB : IdxOK IB) :
    (hasCrossingRelation G k A B IA IB gcAB gcBA).isSome = true := by
  obtain ⟨s', r, h⟩ := walk_no_fuel_exhaustion (realTests G k A B IA IB gcAB gcBA) IA IB hA hB {}
  unfold hasCrossingRelation; rw [h]; rfl

theorem contains_total {α : Type} [DecidableEq α] (G : Relate.Geo α) (R : Rects) (A B : Relate.Loop α)
    (IA IB : Index) (gcAB gcBA : Nat → Nat → List Nat) (hA : IdxOK IA) (hB : IdxOK IB) :
    (RelateWalk.contains G R A B IA IB gcAB gcBA).isSome = true := by
  have := hasCrossingRelation_total G .contains A B IA IB gcAB gcBA hA hB
  unfold RelateWalk.contains containsFrom
  split
  · rfl
  · split
    · rfl
    · simpa using this

theorem intersects_total {α : Type} [DecidableEq α] (G : Relate.Geo α) (R : Rects) (A B : Relate.Loop α)
    (IA IB : Index) (gcAB gcBA : Nat → Nat → List Nat) (hA : IdxOK IA) (hB : IdxOK IB) :
    (RelateWalk.intersects G R A B IA IB gcAB gcBA).isSome = true := by
  have := hasCrossingRelation_total G .intersects A B IA IB gcAB gcBA hA hB
  unfold RelateWalk.intersects intersectsFrom
  split
  · rfl
  · simpa using this

theorem compareBoundary_total {α : Type} [DecidableEq α] (G : Relate.Geo α) (R : Rects) (A B : Relate.Loop α)
    (IA IB : Index) (gcAB gcBA : Nat → Nat → List Nat) (hA : IdxOK IA) (hB : IdxOK IB) :
    (RelateWalk.compareBoundary G R A B IA IB gcAB gcBA).isSome = true := by
  have := hasCrossingRelation_total G (.compareBoundary B.isHole) A B IA IB gcAB gcBA hA hB
  unfold RelateWalk.compareBoundary compareBoundaryFrom
  split
  · rfl
  · split
    · rfl
    · split
      · rfl
      · simpa using this

/-! ### the iterator-alignment invariant -/

private theorem logT_ghost (IA IB : Index) (cA : Bool → Nat → Bool) : Ghost (logT IA IB cA) IA IB id True :=
  ⟨fun _ _ _ _ _ => rfl, fun _ _ _ _ => rfl, fun _ _ _ _ => rfl, fun _ _ _ _ _ => rfl, fun _ _ _ _ => rfl⟩

private theorem logT_quiet (IA IB : Index) (cA : Bool → Nat → Bool) : Quiet (logT IA IB cA) :=
  ⟨fun _ _ _ _ => rfl, fun _ _ _ => rfl, fun _ _ _ _ => rfl, fun _ _ _ => rfl⟩

/-- what the final log invariant says in the public vocabulary -/
private theorem logInv_final {IA IB : Index} {l : Log} (h : LogInvR IA IB (mkPair false) IA.size IB.size l) :
    l.Nodup ∧ (∀ i j, (i, j) ∈ l → RangesMeet IA IB i j) ∧
      (∀ i j, RangesMeet IA IB i j → NeedsLook IA IB i j → (i, j) ∈ l) := by
  refine ⟨h.nodup, ?_, ?_⟩
  · intro i j hm
    obtain ⟨i', j', e, hi', _⟩ := h.sound _ hm
    have : i = i' ∧ j = j' := by simpa [mkPair] using e
    rw [this.1, this.2]; exact (rangesMeet_iff IA IB i' j').mpr hi'
  · intro i j hm hn
    have hi' := (rangesMeet_iff IA IB i j).mp hm
    have := h.complete i j hi' (Or.inl hi'.1) hn
    simpa [mkPair] using this

/-- ITERATOR ALIGNMENT (full): for all valid, sorted, pairwise disjoint cell lists and on every control
    path, the walk runs to the end and the list of pairs (A-cell, B-cell) it looks at
      * has no repetition                                  (every pair at most once),
      * contains only pairs whose leaf ranges intersect,
      * contains every pair whose leaf ranges intersect and that has to be looked at (`NeedsLook`:
        all of them except a cell without edges below a larger cell with edges, which `hasCrossing` steps over). -/
theorem walk_visits_each_intersecting_pair_once (IA IB : Index) (hA : IdxOK IA) (hB : IdxOK IB)
    (cA : Bool → Nat → Bool) :
    ∃ log, walk (logT IA IB cA) IA IB [] = some (log, false) ∧ log.Nodup ∧
      (∀ i j, (i, j) ∈ log → RangesMeet IA IB i j) ∧
      (∀ i j, RangesMeet IA IB i j → NeedsLook IA IB i j → (i, j) ∈ log) := by
  obtain ⟨s', r, h, hinv⟩ := mainLoop_spec (logT IA IB cA) IA IB id True (logT_ghost IA IB cA)
    (facts_of_ok hA) (facts_of_ok hB) (lam_of_ok hA hB) (walkFuel IA IB) 0 0 [] (Nat.zero_le _) (Nat.zero_le _)
    ⟨fun i j h => by omega, fun i j h => by omega⟩ (by unfold walkFuel; omega)
    (fun _ => ⟨List.nodup_nil, fun e he => by simp at he, fun i j _ h => by omega⟩)
  have hr : r = false := mainLoop_quiet (logT_quiet IA IB cA) IA IB _ _ _ _ _ _ h
  subst hr
  exact ⟨s', h, logInv_final (hinv rfl trivial)⟩

/-- non-vacuity and a concrete run: A = three cells (a face cell without edges, two level-2 cells),
    B = a level-1 cell with edges over A's two small cells, and a face cell -/
example :
    let IA : Index := ⟨#[⟨0x1000000000000000, true, []⟩, ⟨0x3100000000000000, false, [0, 1]⟩, ⟨0x3300000000000000, false, [1, 2]⟩]⟩
    let IB : Index := ⟨#[⟨0x1000000000000000, false, [5]⟩, ⟨0x3400000000000000, false, [0, 1, 2]⟩, ⟨0x5000000000000000, true, []⟩]⟩
    IdxOK IA ∧ IdxOK IB ∧
      walk (logT IA IB (fun _ _ => true)) IA IB [] = some ([(1, 1), (2, 1)], false) := by
  decide +kernel

/-- The same for ANY tests (in particular `realTests`) with their early exits: the instrumented walk
    either reports a crossing, or it has looked (once each) at every pair of cells with intersecting
    ranges that has to be looked at, and only at pairs with intersecting ranges. -/
theorem walk_instrumented_complete {σ : Type} (T : Tests σ) (IA IB : Index) (hA : IdxOK IA) (hB : IdxOK IB) (s : σ) :
    ∃ s' log r, walk (instr T IA IB) IA IB (s, []) = some ((s', log), r) ∧
      (r = false → log.Nodup ∧ (∀ i j, (i, j) ∈ log → RangesMeet IA IB i j) ∧
        (∀ i j, RangesMeet IA IB i j → NeedsLook IA IB i j → (i, j) ∈ log)) := by
  have G : Ghost (instr T IA IB) IA IB (fun s => s.2) True :=
    ⟨fun _ _ _ _ _ => rfl, fun _ _ _ _ => rfl, fun _ _ _ _ => rfl, fun _ _ _ _ _ => rfl, fun _ _ _ _ => rfl⟩
  obtain ⟨s', r, h, hinv⟩ := mainLoop_spec (instr T IA IB) IA IB (fun s => s.2) True G
    (facts_of_ok hA) (facts_of_ok hB) (lam_of_ok hA hB) (walkFuel IA IB) 0 0 (s, []) (Nat.zero_le _) (Nat.zero_le _)
    ⟨fun i j h => by omega, fun i j h => by omega⟩ (by unfold walkFuel; omega)
    (fun _ => ⟨List.nodup_nil, fun e he => by simp at he, fun i j _ h => by omega⟩)
  exact ⟨s'.1, s'.2, r, h, fun hr => logInv_final (hinv hr trivial)⟩

/-- Any property `J` of the walk's state that survives every test that does not report a crossing
    (`Preserves`; the centre tests only need to be considered for an own cell without edges) holds at the
    end of a walk that returns `false` — for all indexes (no hypothesis on the cell lists).  With `instr` this is the induction principle for "no visited pair fired". -/
theorem walk_invariant {σ : Type} (T : Tests σ) (IA IB : Index) (J : σ → Prop) (Pr : Preserves T IA IB J) (s s' : σ)
    (hJ : J s) (h : walk T IA IB s = some (s', false)) : J s' :=
  mainLoop_inv Pr _ _ _ _ _ hJ h

/-- instance: for the logger the log only grows (every earlier log is a prefix of every later one) -/
example (IA IB : Index) (cA : Bool → Nat → Bool) (l0 : Log) :
    Preserves (logT IA IB cA) IA IB (fun l => l0 <+: l) :=
  ⟨fun _ _ _ _ h _ => h.trans (List.prefix_append _ _), fun _ _ _ h _ => h.trans (List.prefix_append _ _),
   fun _ _ _ h _ => h.trans (List.prefix_append _ _), fun _ _ _ _ h _ _ => h.trans (List.prefix_append _ _),
   fun _ _ _ h _ => h⟩

/-! ### stated: the walk returns the exact relation -/

section stated
open S2.Relate
variable {α : Type} [DecidableEq α] (G : Geo α)

/-- I1 + covering, in the form the walk needs: every pair of edges (i of A, j of B) that is not
    `DoNotCross` (a proper crossing, or a shared vertex) is listed in two index cells whose leaf ranges
    intersect.  (Follows from: every edge is listed in every cell it meets, and the cells of an index
    cover its edges.)  Evaluated on the real index by the oracle (clause hyp-covered). -/
def PairsCovered (A B : Loop α) (IA IB : Index) : Prop :=
  ∀ i j, i < A.numEdges → j < B.numEdges →
    crossingSign G (A.vertex G i) (A.vertex G (i + 1)) (B.vertex G j) (B.vertex G (j + 1)) ≠ -1 →
    ∃ pa pb, i ∈ IA.edgesAt pa ∧ j ∈ IB.edgesAt pb ∧ RangesMeet IA IB pa pb

/-- completeness of `CrossingEdgeQuery.getCells` (the passed-in table): for a cell `pa` of X and an edge
    `aj` listed in it, every cell of Y below `pa` that lists an edge not `DoNotCross` with `aj` is returned -/
def GetCellsComplete (X Y : Loop α) (IX IY : Index) (gc : Nat → Nat → List Nat) : Prop :=
  ∀ pa aj pb bj, aj ∈ IX.edgesAt pa → bj ∈ IY.edgesAt pb →
    IX.rangeMinAt pa ≤ IY.idAt pb → IY.idAt pb ≤ IX.rangeMaxAt pa →
    crossingSign G (X.vertex G aj) (X.vertex G (aj + 1)) (Y.vertex G bj) (Y.vertex G (bj + 1)) ≠ -1 →
    pb ∈ gc aj pa

/-- no edge listed in cell `pa` of A's index properly crosses an edge listed in cell `pb` of B's index -/
def NoCross (A B : Loop α) (IA IB : Index) (pa pb : Nat) : Prop :=
  ∀ i ∈ IA.edgesAt pa, ∀ j ∈ IB.edgesAt pb, ¬ CrossE G A B i j

/-- the real tests, instrumented: as long as no test fires, no visited pair of cells lists a properly
    crossing pair of edges (the subcell query relies on `GetCellsComplete`) -/
theorem realTests_preserve_noCross (k : RelKind) (A B : Loop α) (IA IB : Index) (gcAB gcBA : Nat → Nat → List Nat)
    (cAB : GetCellsComplete G A B IA IB gcAB) (cBA : GetCellsComplete G B A IB IA gcBA) :
    Preserves (instr (realTests G k A B IA IB gcAB gcBA) IA IB) IA IB
      (fun s => ∀ e ∈ s.2, NoCross G A B IA IB e.1 e.2) := by
  have edgeFree : ∀ (I : Index) (x : Nat), I.numEdgesAt x = 0 → I.edgesAt x = [] := by
    intro I x h; unfold Index.numEdgesAt at h; exact List.eq_nil_of_length_eq_zero h
  refine ⟨?_, ?_, ?_, ?_, ?_⟩
  · -- cellCell
    intro sw x y s hJ hr e he
    rcases List.mem_append.mp he with he | he
    · exact hJ e he
    · simp only [List.mem_singleton] at he
      subst he
      cases sw with
      | false =>
        have := cellCrossesCell_false G k false A B (IB.edgesAt y) (IA.edgesAt x) s.1.rel hr
        intro i hi' j hj; exact this i hi' j hj
      | true =>
        have := cellCrossesCell_false G k true B A (IA.edgesAt y) (IB.edgesAt x) s.1.rel hr
        intro i hi' j hj hc
        exact this j hj i hi' ((crossE_symm G A B i j).mp hc)
  · -- subcell
    intro sw x s hJ hr e he
    rcases List.mem_append.mp he with he | he
    · exact hJ e he
    · obtain ⟨p, hp, rfl⟩ := List.mem_map.mp he
      cases sw with
      | false =>
        have hp' : p ∈ under IA IB x := hp
        have hu : IA.rangeMinAt x ≤ IB.idAt p ∧ IB.idAt p ≤ IA.rangeMaxAt x := by
          unfold under at hp'; simpa using (List.mem_filter.mp hp').2
        have := cellCrossesAnySubcell_false G k false A B IB (fun aj => gcAB aj x) (IA.edgesAt x) s.1.qAB s.1.rel hr
        intro i hi' j hj hc
        have hne : crossingSign G (A.vertex G i) (A.vertex G (i + 1)) (B.vertex G j) (B.vertex G (j + 1)) ≠ -1 := by
          unfold CrossE at hc; rw [hc]; decide
        exact this i hi' p (cAB x i p j hi' hj hu.1 hu.2 hne) j hj hc
      | true =>
        have hp' : p ∈ under IB IA x := hp
        have hu : IB.rangeMinAt x ≤ IA.idAt p ∧ IA.idAt p ≤ IB.rangeMaxAt x := by
          unfold under at hp'; simpa using (List.mem_filter.mp hp').2
        have := cellCrossesAnySubcell_false G k true B A IA (fun aj => gcBA aj x) (IB.edgesAt x) s.1.qBA s.1.rel hr
        intro i hi' j hj hc
        have hc' := (crossE_symm G A B i j).mp hc
        have hne : crossingSign G (B.vertex G j) (B.vertex G (j + 1)) (A.vertex G i) (A.vertex G (i + 1)) ≠ -1 := by
          unfold CrossE at hc'; rw [hc']; decide
        exact this j hj p (cBA x j p i hj hi' hu.1 hu.2 hne) i hi' hc'
  · -- centerA: the own cell has no edges
    intro sw x s hJ h0 e he
    rcases List.mem_append.mp he with he | he
    · exact hJ e he
    · split at he
      · simp at he
      · obtain ⟨p, _, rfl⟩ := List.mem_map.mp he
        cases sw with
        | false => intro i hi'; have hi2 : i ∈ IA.edgesAt x := hi'; rw [edgeFree IA x (by simpa using h0)] at hi2; simp at hi2
        | true => intro i _ j hj; have hj2 : j ∈ IB.edgesAt x := hj; rw [edgeFree IB x (by simpa using h0)] at hj2; simp at hj2
  · -- centerB
    intro sw x y s hJ h0 _ e he
    rcases List.mem_append.mp he with he | he
    · exact hJ e he
    · simp only [List.mem_singleton] at he
      subst he
      cases sw with
      | false => intro i hi'; have hi2 : i ∈ IA.edgesAt x := hi'; rw [edgeFree IA x (by simpa using h0)] at hi2; simp at hi2
      | true => intro i _ j hj; have hj2 : j ∈ IB.edgesAt x := hj; rw [edgeFree IB x (by simpa using h0)] at hj2; simp at hj2
  · intro x y s hJ _; exact hJ

/-- COMPLETENESS OF THE CROSSING SEARCH.  If `hasCrossingRelation` (any of the three relations) returns
    `false` on valid sorted disjoint indexes, with a complete `getCells` table, then no edge listed in a
    cell of A properly crosses an edge listed in a cell of B whose range meets it. -/
theorem walk_false_no_listed_crossing (k : RelKind) (A B : Loop α) (IA IB : Index) (gcAB gcBA : Nat → Nat → List Nat)
    (hA : IdxOK IA) (hB : IdxOK IB)
    (cAB : GetCellsComplete G A B IA IB gcAB) (cBA : GetCellsComplete G B A IB IA gcBA) (rs : RelState)
    (h : hasCrossingRelation G k A B IA IB gcAB gcBA = some (false, rs)) :
    ∀ pa pb, RangesMeet IA IB pa pb → NoCross G A B IA IB pa pb := by
  obtain ⟨s', log, r, hw, hcomp⟩ := walk_instrumented_complete (realTests G k A B IA IB gcAB gcBA) IA IB hA hB {}
  have hfst := mainLoop_fst (realTests G k A B IA IB gcAB gcBA) IA IB (walkFuel IA IB) 0 0 {} []
  have hw' : mainLoop (instr (realTests G k A B IA IB gcAB gcBA) IA IB) IA IB (walkFuel IA IB) 0 0 ({}, []) = some ((s', log), r) := hw
  rw [hw'] at hfst
  have hreal : walk (realTests G k A B IA IB gcAB gcBA) IA IB {} = some (s', r) := hfst.symm
  have hr : r = false := by
    unfold hasCrossingRelation at h
    rw [hreal] at h
    simpa using congrArg (fun o => o.map Prod.fst) h
  subst hr
  have hJ := walk_invariant _ IA IB _ (realTests_preserve_noCross G k A B IA IB gcAB gcBA cAB cBA) ({}, []) (s', log)
    (fun e he => by simp at he) hw
  obtain ⟨_, _, hall⟩ := hcomp rfl
  intro pa pb hm i hi' j hj
  have hne1 : 0 < IA.numEdgesAt pa := by unfold Index.numEdgesAt; exact List.length_pos_of_mem hi'
  have hne2 : 0 < IB.numEdgesAt pb := by unfold Index.numEdgesAt; exact List.length_pos_of_mem hj
  have hmem := hall pa pb hm ⟨fun _ => ⟨hne1, hne2⟩, fun _ => Or.inr hne2, fun _ => Or.inr hne1⟩
  exact hJ (pa, pb) hmem i hi' j hj

/-- … hence, when the index lists every crossing pair in two meeting cells (`PairsCovered`, a consequence
    of I1), the boundaries do not cross at all: condition (1) of `Loop.Contains`, exactly. -/
theorem walk_false_no_crossing (k : RelKind) (A B : Loop α) (IA IB : Index) (gcAB gcBA : Nat → Nat → List Nat)
    (hA : IdxOK IA) (hB : IdxOK IB) (hcov : PairsCovered G A B IA IB)
    (cAB : GetCellsComplete G A B IA IB gcAB) (cBA : GetCellsComplete G B A IB IA gcBA) (rs : RelState)
    (h : hasCrossingRelation G k A B IA IB gcAB gcBA = some (false, rs)) :
    anyCrossing G A B = false := by
  have hno := walk_false_no_listed_crossing G k A B IA IB gcAB gcBA hA hB cAB cBA rs h
  cases hc : anyCrossing G A B
  · rfl
  · exfalso
    unfold anyCrossing at hc
    simp only [List.any_eq_true, List.mem_range, beq_iff_eq] at hc
    obtain ⟨i, hi', j, hj, hx⟩ := hc
    obtain ⟨pa, pb, h1, h2, h3⟩ := hcov i j hi' hj (by rw [hx]; decide)
    exact hno pa pb h3 i h1 j h2 hx

/-- whenever a listed pair of edges of cells `pa`, `pb` ends in a common vertex, the relation has seen a shared vertex -/
def SharedSeen (A B : Loop α) (IA IB : Index) (found : Bool) (pa pb : Nat) : Prop :=
  ∀ i ∈ IA.edgesAt pa, ∀ j ∈ IB.edgesAt pb, SharedEnd G A B i j → found = true

theorem realTests_preserve_sharedSeen (k : RelKind) (A B : Loop α) (IA IB : Index) (gcAB gcBA : Nat → Nat → List Nat)
    (cAB : GetCellsComplete G A B IA IB gcAB) (cBA : GetCellsComplete G B A IB IA gcBA) :
    Preserves (instr (realTests G k A B IA IB gcAB gcBA) IA IB) IA IB
      (fun s => ∀ e ∈ s.2, SharedSeen G A B IA IB s.1.rel.foundSharedVertex e.1 e.2) := by
  have edgeFree : ∀ (I : Index) (x : Nat), I.numEdgesAt x = 0 → I.edgesAt x = [] := by
    intro I x h; unfold Index.numEdgesAt at h; exact List.eq_nil_of_length_eq_zero h
  have hzero : ∀ (X Y : Loop α) (a b : Nat), SharedEnd G X Y a b →
      crossingSign G (X.vertex G a) (X.vertex G (a + 1)) (Y.vertex G b) (Y.vertex G (b + 1)) ≠ -1 := by
    intro X Y a b hsh
    rw [crossingSign_eq]; unfold SharedEnd at hsh; simp [hsh]
  refine ⟨?_, ?_, ?_, ?_, ?_⟩
  · -- cellCell
    intro sw x y s hJ hr e he
    rcases List.mem_append.mp he with he | he
    · intro i hi' j hj hsh
      have hold := hJ e he i hi' j hj hsh
      cases sw with
      | false => exact cellCrossesCell_mono G k false A B (IB.edgesAt y) (IA.edgesAt x) s.1.rel hold
      | true => exact cellCrossesCell_mono G k true B A (IA.edgesAt y) (IB.edgesAt x) s.1.rel hold
    · simp only [List.mem_singleton] at he
      subst he
      cases sw with
      | false =>
        intro i hi' j hj hsh
        exact cellCrossesCell_found G k false A B (IB.edgesAt y) (IA.edgesAt x) s.1.rel hr i hi' j hj hsh
      | true =>
        intro i hi' j hj hsh
        exact cellCrossesCell_found G k true B A (IA.edgesAt y) (IB.edgesAt x) s.1.rel hr j hj i hi' hsh.symm
  · -- subcell
    intro sw x s hJ hr e he
    rcases List.mem_append.mp he with he | he
    · intro i hi' j hj hsh
      have hold := hJ e he i hi' j hj hsh
      cases sw with
      | false => exact cellCrossesAnySubcell_mono G k false A B IB (fun aj => gcAB aj x) (IA.edgesAt x) s.1.qAB s.1.rel hold
      | true => exact cellCrossesAnySubcell_mono G k true B A IA (fun aj => gcBA aj x) (IB.edgesAt x) s.1.qBA s.1.rel hold
    · obtain ⟨p, hp, rfl⟩ := List.mem_map.mp he
      cases sw with
      | false =>
        have hp' : p ∈ under IA IB x := hp
        have hu : IA.rangeMinAt x ≤ IB.idAt p ∧ IB.idAt p ≤ IA.rangeMaxAt x := by
          unfold under at hp'; simpa using (List.mem_filter.mp hp').2
        intro i hi' j hj hsh
        exact cellCrossesAnySubcell_found G k false A B IB (fun aj => gcAB aj x) (IA.edgesAt x) s.1.qAB s.1.rel hr
          i hi' p (cAB x i p j hi' hj hu.1 hu.2 (hzero A B i j hsh)) j hj hsh
      | true =>
        have hp' : p ∈ under IB IA x := hp
        have hu : IB.rangeMinAt x ≤ IA.idAt p ∧ IA.idAt p ≤ IB.rangeMaxAt x := by
          unfold under at hp'; simpa using (List.mem_filter.mp hp').2
        intro i hi' j hj hsh
        exact cellCrossesAnySubcell_found G k true B A IA (fun aj => gcBA aj x) (IB.edgesAt x) s.1.qBA s.1.rel hr
          j hj p (cBA x j p i hj hi' hu.1 hu.2 (hzero B A j i hsh.symm)) i hi' hsh.symm
  · -- centerA: the own cell has no edges, the state is untouched
    intro sw x s hJ h0 e he
    rcases List.mem_append.mp he with he | he
    · exact hJ e he
    · split at he
      · simp at he
      · obtain ⟨p, _, rfl⟩ := List.mem_map.mp he
        cases sw with
        | false => intro i hi'; have hi2 : i ∈ IA.edgesAt x := hi'; rw [edgeFree IA x (by simpa using h0)] at hi2; simp at hi2
        | true => intro i _ j hj; have hj2 : j ∈ IB.edgesAt x := hj; rw [edgeFree IB x (by simpa using h0)] at hj2; simp at hj2
  · -- centerB
    intro sw x y s hJ h0 _ e he
    rcases List.mem_append.mp he with he | he
    · exact hJ e he
    · simp only [List.mem_singleton] at he
      subst he
      cases sw with
      | false => intro i hi'; have hi2 : i ∈ IA.edgesAt x := hi'; rw [edgeFree IA x (by simpa using h0)] at hi2; simp at hi2
      | true => intro i _ j hj; have hj2 : j ∈ IB.edgesAt x := hj; rw [edgeFree IB x (by simpa using h0)] at hj2; simp at hj2
  · intro x y s hJ _; exact hJ

/-- COMPLETENESS OF THE SHARED-VERTEX SEARCH.  If `hasCrossingRelation` returns `false` (valid sorted
    disjoint indexes, complete `getCells` table, `PairsCovered`) and some edge of A and some edge of B
    end in a common vertex, then the relation object has `foundSharedVertex = true`: `Contains` /
    `Intersects` / `compareBoundary` then decide by the wedges and never fall through to the
    point-containment test while the loops touch. -/
theorem walk_false_found_shared (k : RelKind) (A B : Loop α) (IA IB : Index) (gcAB gcBA : Nat → Nat → List Nat)
    (hA : IdxOK IA) (hB : IdxOK IB) (hcov : PairsCovered G A B IA IB)
    (cAB : GetCellsComplete G A B IA IB gcAB) (cBA : GetCellsComplete G B A IB IA gcBA) (rs : RelState)
    (h : hasCrossingRelation G k A B IA IB gcAB gcBA = some (false, rs))
    (i j : Nat) (hi' : i < A.numEdges) (hj : j < B.numEdges) (hsh : SharedEnd G A B i j) :
    rs.foundSharedVertex = true := by
  obtain ⟨s', log, r, hw, hcomp⟩ := walk_instrumented_complete (realTests G k A B IA IB gcAB gcBA) IA IB hA hB {}
  have hfst := mainLoop_fst (realTests G k A B IA IB gcAB gcBA) IA IB (walkFuel IA IB) 0 0 {} []
  have hw' : mainLoop (instr (realTests G k A B IA IB gcAB gcBA) IA IB) IA IB (walkFuel IA IB) 0 0 ({}, []) = some ((s', log), r) := hw
  rw [hw'] at hfst
  have hreal : walk (realTests G k A B IA IB gcAB gcBA) IA IB {} = some (s', r) := hfst.symm
  unfold hasCrossingRelation at h
  rw [hreal] at h
  have hr : r = false ∧ s'.rel = rs := by simpa using h
  obtain ⟨hr, hrs⟩ := hr
  subst hr
  have hJ := walk_invariant _ IA IB _ (realTests_preserve_sharedSeen G k A B IA IB gcAB gcBA cAB cBA) ({}, []) (s', log)
    (fun e he => by simp at he) hw
  obtain ⟨_, _, hall⟩ := hcomp rfl
  have hne : crossingSign G (A.vertex G i) (A.vertex G (i + 1)) (B.vertex G j) (B.vertex G (j + 1)) ≠ -1 := by
    rw [crossingSign_eq]; unfold SharedEnd at hsh; simp [hsh]
  obtain ⟨pa, pb, h1, h2, h3⟩ := hcov i j hi' hj hne
  have hne1 : 0 < IA.numEdgesAt pa := by unfold Index.numEdgesAt; exact List.length_pos_of_mem h1
  have hne2 : 0 < IB.numEdgesAt pb := by unfold Index.numEdgesAt; exact List.length_pos_of_mem h2
  have hmem := hall pa pb h3 ⟨fun _ => ⟨hne1, hne2⟩, fun _ => Or.inr hne2, fun _ => Or.inr hne1⟩
  rw [← hrs]
  exact hJ (pa, pb) hmem i h1 j h2 hsh

/-- the hypothesis `GetCellsComplete` is satisfiable for every pair of loops and indexes: the table that
    returns all cells of the other index (what a brute-force query would do) is complete -/
theorem getCellsComplete_all (X Y : Loop α) (IX IY : Index) :
    GetCellsComplete G X Y IX IY (fun _ _ => List.range IY.size) := by
  intro pa aj pb bj _ h2 _ _ _
  have : pb < IY.size := by
    rcases Nat.lt_or_ge pb IY.size with h | h
    · exact h
    · unfold Index.edgesAt at h2
      rw [dif_neg (by unfold Index.size at h; omega)] at h2
      simp at h2
  exact List.mem_range.mpr this

/-- non-vacuity of `walk_false_no_crossing`: the pentagon 0..4 and the inscribed triangle 0,2,3 of `geo5`
    (three shared vertices, no crossing), each indexed by one face cell listing all its edges -/
example :
    let IA : Index := ⟨#[⟨0x1000000000000000, false, [0, 1, 2, 3, 4]⟩]⟩
    let IB : Index := ⟨#[⟨0x1000000000000000, false, [0, 1, 2]⟩]⟩
    IdxOK IA ∧ IdxOK IB ∧ PairsCovered geo5 pent5 tri5 IA IB ∧
    hasCrossingRelation geo5 .contains pent5 tri5 IA IB (fun _ _ => List.range IB.size) (fun _ _ => List.range IA.size)
      = some (false, { foundSharedVertex := true }) ∧
    anyCrossing geo5 pent5 tri5 = false ∧ SharedEnd geo5 pent5 tri5 4 2 := by
  intro IA IB
  have hA : IdxOK IA := by decide +kernel
  have hB : IdxOK IB := by decide +kernel
  have hcov : PairsCovered geo5 pent5 tri5 IA IB := by
    intro i j hi' hj _
    have hi2 : i < 5 := hi'
    have hj2 : j < 3 := hj
    refine ⟨0, 0, ?_, ?_, by decide⟩
    · show i ∈ [0, 1, 2, 3, 4]; simp; omega
    · show j ∈ [0, 1, 2]; simp; omega
  have hw : hasCrossingRelation geo5 .contains pent5 tri5 IA IB (fun _ _ => List.range IB.size) (fun _ _ => List.range IA.size)
      = some (false, { foundSharedVertex := true }) := by decide +kernel
  exact ⟨hA, hB, hcov, hw,
    walk_false_no_crossing geo5 .contains pent5 tri5 IA IB _ _ hA hB hcov
      (getCellsComplete_all geo5 pent5 tri5 IA IB) (getCellsComplete_all geo5 tri5 pent5 IB IA) _ hw, by unfold SharedEnd; decide⟩

/-- I3 together with the point-set reading of the relation (Jordan-type, not available in the exact
    model): whenever the centre shortcut of the walk fires for relation `k`, the exact relation has
    the value the walk then returns. -/
def CenterShortcutSound (k : RelKind) (IA IB : Index) (exactCrossed : Bool) : Prop :=
  ∀ pa pb, RangesMeet IA IB pa pb →
    ((IA.numEdgesAt pa = 0 ∧ rangeWidth IB pb ≤ rangeWidth IA pa) ∨ (IB.numEdgesAt pb = 0 ∧ rangeWidth IA pa ≤ rangeWidth IB pb)) →
    containsCenterMatches (IA.ccAt pa) k.aTarget = true → containsCenterMatches (IB.ccAt pb) k.bTarget = true →
    exactCrossed = true

/-- the bounding-rectangle answers are sound shortcuts (they are Go's own booleans in the model) -/
def RectsSound (R : Rects) (A B : Loop α) : Prop :=
  (R.aSubContainsB = false → Relate.contains G A B = false) ∧
  (R.boundsIntersect = false → Relate.intersects G A B = false ∧ (A.isEmpty = false → B.isEmpty = false → Relate.compareBoundary G A B = -1)) ∧
  ((R.bSubContainsA || R.unionFull) = false → ¬ (A.containsPoint G (B.vertex G 0) = true ∧ B.containsPoint G (A.vertex G 0) = true)) ∧
  ((R.aSubContainsB || R.unionFull) = false → A.containsPoint G (B.vertex G 0) = false ∨ Relate.intersects G A B = true) ∧
  (R.bSubContainsA = false → B.containsPoint G (A.vertex G 0) = false ∨ Relate.intersects G A B = true)

/-- the common hypotheses -/
structure WalkHyps (R : Rects) (A B : Loop α) (IA IB : Index) (gcAB gcBA : Nat → Nat → List Nat) : Prop where
  okA : IdxOK IA
  okB : IdxOK IB
  covered : PairsCovered G A B IA IB
  gcAB : GetCellsComplete G A B IA IB gcAB
  gcBA : GetCellsComplete G B A IB IA gcBA
  rects : RectsSound G R A B

/-- FULL STATEMENT (not proved): `Loop.Contains` as walked = the exact relation.
    Missing: the characterisation of the real tests (`edgeCrossesCell` … `cellCrossesAnySubcell` with
    the accumulating query list) as "some listed pair of edges crosses, or some wedge test at a shared
    vertex fires", to be combined with `walk_instrumented_complete` and `PairsCovered`. -/
def WalkContainsEqExact : Prop :=
  ∀ (R : Rects) (A B : Loop α) (IA IB : Index) (gcAB gcBA : Nat → Nat → List Nat),
    WalkHyps G R A B IA IB gcAB gcBA →
    CenterShortcutSound .contains IA IB (!(Relate.contains G A B)) →
    RelateWalk.contains G R A B IA IB gcAB gcBA = some (Relate.contains G A B)

/-- FULL STATEMENT (not proved): `Loop.Intersects` as walked = the exact relation -/
def WalkIntersectsEqExact : Prop :=
  ∀ (R : Rects) (A B : Loop α) (IA IB : Index) (gcAB gcBA : Nat → Nat → List Nat),
    WalkHyps G R A B IA IB gcAB gcBA →
    CenterShortcutSound .intersects IA IB (Relate.intersects G A B) →
    RelateWalk.intersects G R A B IA IB gcAB gcBA = some (Relate.intersects G A B)

/-- FULL STATEMENT (not proved): `Loop.compareBoundary` as walked = the exact relation
    (no centre shortcut: both crossing targets are `dontCare`) -/
def WalkCompareBoundaryEqExact : Prop :=
  ∀ (R : Rects) (A B : Loop α) (IA IB : Index) (gcAB gcBA : Nat → Nat → List Nat),
    WalkHyps G R A B IA IB gcAB gcBA → A.isEmpty = false → B.isEmpty = false →
    RelateWalk.compareBoundary G R A B IA IB gcAB gcBA = some (Relate.compareBoundary G A B)

end stated

end S2Proofs.C07
