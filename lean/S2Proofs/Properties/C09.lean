/-
  C09 — Encoding is lossless: decoding an encoding reproduces the value exactly.

  Model: `S2.Codec` (bytes = `List UInt8`, decoders in the option monad, floats as bit patterns,
  the decoder-side float recomputation in the bit-exact soft-float `S2.F64`).
  Every theorem below is quantified over ALL values / lengths and over arbitrary trailing bytes
  `rest` (the decoder consumes exactly its own encoding).

  Findings recorded here as Lean facts (see DELIVER.md):
   * `snap_signed_zero_counterexample`, `octant_polygon_not_bit_identical`: the compressed polygon
     format does NOT reproduce the sign of a zero coordinate (Go `==` treats −0 = +0 in
     `xyzToFaceSiTi`): the octant triangle (1,0,0),(0,1,0),(0,0,1) decodes to
     (1,0,0),(−0,1,0),(−0,−0,1).  The bit-identity theorem therefore carries the side condition
     `ZeroSignsAgree`; `polygon_roundtrip_statement` (the property as worded) is FALSE.
   * `cellUnion_over_limit_rejected`: a cell union with more than 1 000 000 cells is encoded
     without error but its encoding is rejected by the decoder.
-/
import S2Proofs.CodecLemmas
namespace S2Proofs.C09
open S2 S2.Codec S2Proofs.Codec

/-! ## 1. primitives -/

/-- uvarint: every `x < 2^64` round-trips and the decoder stops exactly at the end of the encoding. -/
theorem uvarint_roundtrip (x : Nat) (hx : x < 2 ^ 64) (rest : Bytes) :
    readUvarint (putUvarint x ++ rest) = some (x, rest) := readUvarint_put x hx rest
example : (18446744073709551615 : Nat) < 2 ^ 64 := by decide

/-- little-endian fixed width values (uint32, uint64, float64 bit pattern, bool). -/
theorem le_roundtrip (a : UInt32) (b c : UInt64) (d : Bool) (rest : Bytes) :
    readUint32 (writeUint32 a ++ rest) = some (a, rest) ∧
    readUint64 (writeUint64 b ++ rest) = some (b, rest) ∧
    readFloat64Bits (writeFloat64Bits c ++ rest) = some (c, rest) ∧
    readBool (writeBool d ++ rest) = some (d, rest) :=
  ⟨readUint32_write a rest, readUint64_write b rest, readFloat64Bits_write c rest, readBool_write d rest⟩

/-- zig-zag, all int32 values. -/
theorem zigzag_roundtrip (x : UInt32) : zigzagDecode (zigzagEncode x) = x := zigzagDecode_encode x

/-- table-based bit interleave, all pairs of 32-bit values. -/
theorem interleave_roundtrip (x y : UInt32) : deinterleaveUint32 (interleaveUint32 x y) = (x, y) :=
  deinterleave_interleave x y

/-- N-th derivative coder: for EVERY order `n`, every start state and every int32 stream,
    decode ∘ encode = id (wrap-around arithmetic); the per-step state invariant is
    `coderDecode_encode`. -/
theorem coder_roundtrip (n : Nat) (mem : List UInt32) (ks : List UInt32) :
    coderDecodeAll n mem (coderEncodeAll n mem ks) = ks := coderDecodeAll_encodeAll n mem ks

/-- face runs: the run list expands to the face sequence, and the decoder reads back exactly the
    run list (faces < 6, at most `maxEncodedVertices` vertices — what the Go callers guarantee). -/
theorem faceRuns_roundtrip (fs : List Nat) (hf : ∀ f ∈ fs, f < 6) (hn : fs.length ≤ maxEncodedVertices)
    (rest : Bytes) :
    expandRuns (faceRunsOf fs) = fs ∧
    decodeFaces fs.length (encodeFaces (faceRunsOf fs) ++ rest) = some (faceRunsOf fs, rest) := by
  obtain ⟨hexp, hsum, hgood⟩ := faceRunsOf_spec fs hf
  have hN : fs.length ≤ 50000000 := hn
  refine ⟨hexp, ?_⟩
  exact decodeFacesAux_encode (faceRunsOf fs) fs.length fs.length 0 rest hgood
    (by have := length_le_sumCounts _ hgood; omega) (by omega)
    (by intro r hr
        have h1 := count_le_sumCounts _ r hr
        have h2 := (hgood r hr).2
        omega)
example : (∀ f ∈ [0, 0, 5, 5, 5, 1], f < 6) ∧ [0, 0, 5, 5, 5, 1].length ≤ maxEncodedVertices := by decide

/-! ## 2. the snap condition and the compressed point list -/

/-- `xyzToFaceSiTi p` reporting level `L` means: `p` is Go-`==` to the very float expression the
    decoder evaluates (`facePiQitoXYZ`, via `siTiToST(si) = piQiToST(si >> (31-L), L)` which is
    proved exact in the soft-float for every centre coordinate). -/
theorem snapped_is_decoder_expression (p : V3) (L : Nat) (hL : L ≤ 30)
    (hlev : (xyzToFaceSiTi p).level = (L : Int))
    (hsi : (xyzToFaceSiTi p).si ≤ 2147483648) (hti : (xyzToFaceSiTi p).ti ≤ 2147483648) :
    V3.feq p (centreOf L (xyzToFaceSiTi p)) = true := snapped_feq_centre p L hL hlev hsi hti

/-- … hence bit identity, provided zero coordinates carry the same sign as the centre's. -/
theorem snapExact_of_zero_signs (p : V3) (L : Nat) (hL : L ≤ 30)
    (hsi : (xyzToFaceSiTi p).si ≤ 2147483648) (hti : (xyzToFaceSiTi p).ti ≤ 2147483648)
    (hz : (xyzToFaceSiTi p).level = (L : Int) → ZeroSignsAgree p (centreOf L (xyzToFaceSiTi p))) :
    SnapExact L p := snapExact_of_zeroSigns p L hL hsi hti hz

/-- a cell centre of level 30 (non-vacuity of `SnapExact` with a true premise) -/
def centre30 : V3 := centreOf 30 ⟨default, 3, 1234567891, 987654321, 30⟩
example : (xyzToFaceSiTi centre30).level = 30 ∧ SnapExact 30 centre30 := by
  unfold SnapExact; decide +kernel

/-- FINDING: the side condition is necessary.  (0,1,0) is reported as a level-0 centre but the
    decoder's recomputation is (−0,1,0). -/
theorem snap_signed_zero_counterexample :
    let p : V3 := ⟨⟨0⟩, ⟨0x3ff0000000000000⟩, ⟨0⟩⟩
    (xyzToFaceSiTi p).level = 0 ∧ ¬ SnapExact 0 p := by
  unfold SnapExact; decide +kernel

/-- compressed point list: `decodePointsCompressed ∘ encodePointsCompressed = id` on coordinates,
    any mix of snapped / unsnapped vertices, any faces, any `level ≤ 30`. -/
theorem pointsCompressed_roundtrip (level : Nat) (hl : level ≤ 30) (vs : List XFST)
    (hf : ∀ v ∈ vs, v.face < 6) (hn : vs.length ≤ maxEncodedVertices)
    (hsnap : ∀ v ∈ vs, v.level = (level : Int) → centreOf level v = v.xyz) (rest : Bytes) :
    decodePointsCompressed level vs.length (encodePointsCompressed vs level ++ rest) =
      some (vs.map (·.xyz), rest) :=
  decodePointsCompressed_encode bitLaws level hl vs hf hn hsnap rest

/-! ## 3. per type -/

theorem point_roundtrip (p : V3) (rest : Bytes) : decodePoint' (encodePoint' p ++ rest) = some (p, rest) :=
  decodePoint_encode p rest
theorem cap_roundtrip (c : CapM) (rest : Bytes) : decodeCap (encodeCap c ++ rest) = some (c, rest) :=
  decodeCap_encode c rest
theorem rect_roundtrip (r : RectM) (rest : Bytes) : decodeRect (encodeRect r ++ rest) = some (r, rest) :=
  decodeRect_encode r rest
theorem cellID_roundtrip (c : UInt64) (rest : Bytes) : decodeCellID (encodeCellID c ++ rest) = some (c, rest) :=
  decodeCellID_encode c rest
theorem cell_roundtrip (c : UInt64) (rest : Bytes) : decodeCell (encodeCell c ++ rest) = some (c, rest) :=
  decodeCell_encode c rest

/-- cell unions up to the decoder's limit of 1 000 000 cells -/
theorem cellUnion_roundtrip (cu : List UInt64) (h : cu.length ≤ maxCells) (rest : Bytes) :
    decodeCellUnion (encodeCellUnion cu ++ rest) = some (cu, rest) := decodeCellUnion_encode cu h rest
example : [1, 2, 3].length ≤ maxCells := by decide

/-- FINDING: above the limit the encoder still succeeds and the decoder rejects its output. -/
theorem cellUnion_over_limit_rejected (cu : List UInt64) (h : maxCells < cu.length) (h2 : cu.length < 2 ^ 63)
    (rest : Bytes) : decodeCellUnion (encodeCellUnion cu ++ rest) = none :=
  decodeCellUnion_encode_too_long cu h h2 rest
example : maxCells < (List.replicate 1000001 (0 : UInt64)).length ∧
    (List.replicate 1000001 (0 : UInt64)).length < 2 ^ 63 := by
  rw [List.length_replicate]; decide

/-- polylines up to the decoder's limit of 50 000 000 vertices: same vertices, same order -/
theorem polyline_roundtrip (p : List V3) (h : p.length ≤ maxEncodedVertices) (rest : Bytes) :
    decodePolyline (encodePolyline p ++ rest) = some (p, rest) := decodePolyline_encode p h rest

/-- lossless loop: vertices (bits, order), originInside, depth and the encoded bound -/
theorem loop_roundtrip (l : LoopM) (h : l.vertices.length ≤ maxEncodedVertices) (hd : l.depth < 2 ^ 32)
    (rest : Bytes) : decodeLoop (encodeLoop l ++ rest) = some (l, rest) := decodeLoop_encode l h hd rest

/-- compressed loop: vertices, originInside, depth; the bound iff ≥ 64 vertices -/
theorem loopCompressed_roundtrip (L : Nat) (hL : L ≤ 30) (l : LoopM) (hok : LoopOK L l) (bytes : Bytes)
    (henc : encodeLoopCompressed l L (xyzFaceSiTiVertices l.vertices) = some bytes) (rest : Bytes) :
    decodeLoopCompressed L (bytes ++ rest) = some (loopCOf l, rest) :=
  decodeLoopCompressed_encode bitLaws L hL l hok bytes henc rest

/-! ## 4. polygons, whichever format the encoder selects -/

/-- observable fields the property speaks about -/
def obsM (l : LoopM) : List V3 × Bool × Nat := (l.vertices, l.originInside, l.depth)
def obsC (l : LoopC) : List V3 × Bool × Nat := (l.vertices, l.originInside, l.depth)

/-- a polygon the API can produce and both decoders accept: loop / vertex counts within the decoder
    limits, every loop has a vertex, depths fit `int32`, `hasHoles` is "some loop has odd depth"
    (`initLoopProperties`), and every vertex satisfies the snap condition at every level
    (implied by `ZeroSignsAgree`, see `snapExact_of_zero_signs`). -/
structure PolygonOK (p : PolygonM) : Prop where
  nloops : p.loops.length ≤ maxEncodedLoops
  loopsOK : ∀ l ∈ p.loops, 0 < l.vertices.length ∧ l.vertices.length ≤ maxEncodedVertices ∧ l.depth < 2 ^ 32
  holes : p.hasHoles = p.loops.any (fun l => l.depth % 2 == 1)
  snap : ∀ L, L ≤ 30 → ∀ l ∈ p.loops, ∀ v ∈ l.vertices, SnapExact L v

theorem loopOK_of (p : PolygonM) (h : PolygonOK p) (L : Nat) (hL : L ≤ 30) : ∀ l ∈ p.loops, LoopOK L l := by
  intro l hl
  obtain ⟨h1, h2, h3⟩ := h.loopsOK l hl
  exact ⟨h1, h2, by omega, h.snap L hL l hl⟩

/-- **polygon round trip, both formats**: whatever `Polygon.encode` selects, `Polygon.Decode`
    succeeds, consumes exactly the encoding, and returns the same loops in the same order with
    bit-identical vertices in the same order, the same origin flags, depths and `hasHoles`. -/
theorem polygon_roundtrip (p : PolygonM) (hok : PolygonOK p) (bytes : Bytes)
    (henc : encodePolygon p = some bytes) (rest : Bytes) :
    ∃ q, decodePolygon (bytes ++ rest) = some (q, rest) ∧
      q.loops.map obsC = p.loops.map obsM ∧ q.hasHoles = p.hasHoles := by
  have hobs : (p.loops.map loopCOf).map obsC = p.loops.map obsM := by
    simp [List.map_map, Function.comp_def, obsC, obsM, loopCOf]
  have hobs2 : (p.loops.map LoopM.toC).map obsC = p.loops.map obsM := by
    simp [List.map_map, Function.comp_def, obsC, obsM, LoopM.toC]
  have hholes : (p.loops.map loopCOf).any (fun l => l.depth % 2 == 1) = p.hasHoles := by
    rw [hok.holes]; simp [List.any_map, Function.comp_def, loopCOf]
  unfold encodePolygon at henc
  split at henc
  · -- no vertices: compressed with MaxLevel
    have h0 : polygonXFST p = [] := by
      have : p.loops = [] := by
        rename_i hz
        rcases hp : p.loops with _ | ⟨l, ls⟩
        · rfl
        · have := (hok.loopsOK l (by simp [hp])).1
          simp only [PolygonM.numVertices, hp, List.map_cons, List.sum_cons, beq_iff_eq] at hz; omega
      simp [polygonXFST, this]
    rw [← h0] at henc
    exact ⟨_, decodePolygon_encodeCompressed bitLaws p 30 (by omega) (loopOK_of p hok 30 (by omega)) bytes henc rest,
      hobs, hholes⟩
  · simp only [] at henc
    split at henc
    · have hL := snapLevelOf_le (polygonXFST p)
      exact ⟨_, decodePolygon_encodeCompressed bitLaws p _ hL (loopOK_of p hok _ hL) bytes henc rest, hobs, hholes⟩
    · exact ⟨_, decodePolygon_encodeLossless p bytes hok.nloops
        (fun l hl => ⟨(hok.loopsOK l hl).2.1, (hok.loopsOK l hl).2.2⟩) henc rest, hobs2, rfl⟩

/-- a concrete polygon meeting `PolygonOK` with snapped and unsnapped vertices is exhibited in the
    oracle runs; here: the hypotheses are satisfiable (one loop of level-30 centres). -/
def tri : PolygonM :=
  ⟨[⟨[centreOf 30 ⟨default, 3, 1234567891, 987654321, 30⟩, centreOf 30 ⟨default, 3, 1234567893, 987654321, 30⟩,
      centreOf 30 ⟨default, 3, 1234567891, 987654323, 30⟩], false, 0, default⟩], false, default⟩
example : (encodePolygon tri).isSome = true ∧ polygonChoosesCompressed tri = true ∧
    (∀ l ∈ tri.loops, ∀ v ∈ l.vertices, SnapExact 30 v) := by
  unfold SnapExact; decide +kernel

/-- The property exactly as worded (no zero-sign side condition): FALSE, see below. -/
def polygon_roundtrip_statement : Prop :=
  ∀ (p : PolygonM) (bytes : Bytes), encodePolygon p = some bytes →
    ∃ q, decodePolygon bytes = some (q, []) ∧ q.loops.map obsC = p.loops.map obsM

/-- the octant triangle (1,0,0),(0,1,0),(0,0,1) -/
def octant : PolygonM :=
  ⟨[⟨[⟨⟨0x3ff0000000000000⟩, ⟨0⟩, ⟨0⟩⟩, ⟨⟨0⟩, ⟨0x3ff0000000000000⟩, ⟨0⟩⟩, ⟨⟨0⟩, ⟨0⟩, ⟨0x3ff0000000000000⟩⟩],
     false, 0, default⟩], false, default⟩

/-- FINDING (confirmed on the Go implementation by the oracle, op `encpolygon`): the encoder picks
    the compressed format at level 0 and the decoded vertices differ in the sign of zeros. -/
theorem octant_polygon_not_bit_identical :
    (match encodePolygon octant with
     | some b => (match decodePolygon b with
        | some (q, _) => q.loops.map (·.vertices) != octant.loops.map (·.vertices)
        | none => false)
     | none => false) = true := by decide +kernel

/-- what does hold without the side condition is `polygon_roundtrip` (with `PolygonOK.snap`);
    and IEEE-equality of every decoded coordinate (`snapped_is_decoder_expression`). -/
theorem polygon_roundtrip_partial (p : PolygonM) (hok : PolygonOK p) (bytes : Bytes)
    (henc : encodePolygon p = some bytes) :
    ∃ q, decodePolygon bytes = some (q, []) ∧ q.loops.map obsC = p.loops.map obsM := by
  obtain ⟨q, h1, h2, _⟩ := polygon_roundtrip p hok bytes henc []
  exact ⟨q, by simpa using h1, h2⟩

/-! ## 5. the format choice depends only on the value (via the level histogram) -/

/-- `Polygon.encode` = compressed iff `polygonChoosesCompressed`, which for a non-empty polygon is
    the arithmetic test `3·numVertices < 13·numSnapped` on the histogram maximum. -/
theorem format_choice (p : PolygonM) :
    encodePolygon p =
      (if polygonChoosesCompressed p then
        encodePolygonCompressed p (if p.numVertices == 0 then 30 else (snapLevelOf (polygonXFST p)).1)
          (if p.numVertices == 0 then [] else polygonXFST p)
       else encodePolygonLossless p) := by
  unfold encodePolygon polygonChoosesCompressed
  by_cases h : p.numVertices == 0 <;> simp [h]

theorem useCompressed_iff (n s : Nat) (hs : s ≤ n) : useCompressed n s = true ↔ 3 * n < 13 * s := by
  unfold useCompressed; simp; omega
example : (5 : Nat) ≤ 10 := by decide

/- "Encoding twice yields the same bytes": in the model `encodePolygon` (and every other encoder)
   is a pure function of the value, so there is nothing to prove; on the implementation side the
   oracle compares the second encoding byte for byte on every generated value. -/

end S2Proofs.C09
