/-
  C09 — Encoding is lossless: decoding an encoding reproduces the value exactly.

  Model: `S2.Codec` (bytes = `List UInt8`, decoders in the option monad, floats as bit patterns,
  the decoder-side float recomputation in the bit-exact soft-float `S2.F64`).
  Every theorem below is quantified over ALL values / lengths and over arbitrary trailing bytes
  `rest` (the decoder consumes exactly its own encoding).

  History: the first version of this file carried two findings as Lean facts (signed zeros lost by
  the compressed polygon format because `xyzToFaceSiTi` compared with `==`; `CellUnion.Encode`
  accepting unions its own decoder rejects).  Both were repaired in /repo (bit-pattern comparison in
  `xyzToFaceSiTi`; `maxEncodedCells` check in `CellUnion.encode`); the model follows the new code
  and the side conditions / counterexamples are gone: "snapped ⇒ bit-identical" holds outright.
-/
import S2Proofs.CodecLemmas
namespace S2Proofs.C09
open S2 S2.Codec S2Proofs.Codec

/-! ## 1. primitives -/

/-- uvarint: every `x < 2^64` round-trips and the decoder stops exactly at the end of the encoding. -/
theorem uvarint_roundtrip (x : Nat) (hx : x < 2 ^ 64) (rest : Bytes) :
    readUvarint (putUvarint x ++ rest) = some (x, rest) := readUvarint_put x hx rest
example : (18446744073709551615 : Nat) < 2 ^ 64 := by decide

/-- little-endian fixed width values (uint32, uint64, float64 bit pattern, bool). -/
theorem le_roundtrip (a : UInt32) (b c : UInt64) (d : Bool) (rest : Bytes) :
    readUint32 (writeUint32 a ++ rest) = some (a, rest) ∧
    readUint64 (writeUint64 b ++ rest) = some (b, rest) ∧
    readFloat64Bits (writeFloat64Bits c ++ rest) = some (c, rest) ∧
    readBool (writeBool d ++ rest) = some (d, rest) :=
  ⟨readUint32_write a rest, readUint64_write b rest, readFloat64Bits_write c rest, readBool_write d rest⟩

/-- zig-zag, all int32 values. -/
theorem zigzag_roundtrip (x : UInt32) : zigzagDecode (zigzagEncode x) = x := zigzagDecode_encode x

/-- table-based bit interleave, all pairs of 32-bit values. -/
theorem interleave_roundtrip (x y : UInt32) : deinterleaveUint32 (interleaveUint32 x y) = (x, y) :=
  deinterleave_interleave x y

/-- N-th derivative coder: for EVERY order `n`, every start state and every int32 stream,
    decode ∘ encode = id (wrap-around arithmetic); the per-step state invariant is
    `coderDecode_encode`. -/
theorem coder_roundtrip (n : Nat) (mem : List UInt32) (ks : List UInt32) :
    coderDecodeAll n mem (coderEncodeAll n mem ks) = ks := coderDecodeAll_encodeAll n mem ks

/-- face runs: the run list expands to the face sequence, and the decoder reads back exactly the
    run list (faces < 6, at most `maxEncodedVertices` vertices — what the Go callers guarantee). -/
theorem faceRuns_roundtrip (fs : List Nat) (hf : ∀ f ∈ fs, f < 6) (hn : fs.length ≤ maxEncodedVertices)
    (rest : Bytes) :
    expandRuns (faceRunsOf fs) = fs ∧
    decodeFaces fs.length (encodeFaces (faceRunsOf fs) ++ rest) = some (faceRunsOf fs, rest) := by
  obtain ⟨hexp, hsum, hgood⟩ := faceRunsOf_spec fs hf
  have hN : fs.length ≤ 50000000 := hn
  refine ⟨hexp, ?_⟩
  exact decodeFacesAux_encode (faceRunsOf fs) fs.length fs.length 0 rest hgood
    (by have := length_le_sumCounts _ hgood; omega) (by omega)
    (by intro r hr
        have h1 := count_le_sumCounts _ r hr
        have h2 := (hgood r hr).2
        omega)
example : (∀ f ∈ [0, 0, 5, 5, 5, 1], f < 6) ∧ [0, 0, 5, 5, 5, 1].length ≤ maxEncodedVertices := by decide

/-! ## 2. the snap condition and the compressed point list -/

/-- `xyzToFaceSiTi p` reporting level `L` means: `p` is BIT-IDENTICAL to the very float expression
    the decoder evaluates (`facePiQitoXYZ`); rests on `siTiToST(si) = piQiToST(si >> (31-L), L)`,
    proved exact in the soft-float for every centre coordinate of every level.
    Hypothesis: si, ti within `[0, maxSiTi]` (holds for every finite non-zero vector). -/
theorem snapped_is_decoder_expression (p : V3) (L : Nat) (hL : L ≤ 30)
    (hlev : (xyzToFaceSiTi p).level = (L : Int)) (hr : SiTiInRange p) :
    centreOf L (xyzToFaceSiTi p) = p := snapped_eq_centre p L hL hlev hr

/-- a cell centre of level 30 (non-vacuity: the premise `level = 30` is true for it) -/
def centre30 : V3 := centreOf 30 ⟨default, 3, 1234567891, 987654321, 30⟩
example : (xyzToFaceSiTi centre30).level = 30 ∧ SiTiInRange centre30 := by
  unfold SiTiInRange; decide +kernel

/-- signed zeros: (0,1,0) is NOT reported as a centre any more (the face-1 centre is (−0,1,0)),
    so it is stored verbatim in the off-centre list; (−0,1,0) is reported as the level-0 centre. -/
example : (xyzToFaceSiTi ⟨⟨0⟩, ⟨0x3ff0000000000000⟩, ⟨0⟩⟩).level = -1 ∧
    (xyzToFaceSiTi ⟨⟨0x8000000000000000⟩, ⟨0x3ff0000000000000⟩, ⟨0⟩⟩).level = 0 := by decide +kernel

/-- compressed point list on arbitrary `xyzFaceSiTi` records: `decode ∘ encode = id` on coordinates
    whenever the records marked "level = `level`" are bit-equal to the recomputed centre
    (for records produced by `xyzToFaceSiTi` this is `snapped_is_decoder_expression`). -/
theorem pointsCompressed_roundtrip_records (level : Nat) (hl : level ≤ 30) (vs : List XFST)
    (hf : ∀ v ∈ vs, v.face < 6) (hn : vs.length ≤ maxEncodedVertices)
    (hsnap : ∀ v ∈ vs, v.level = (level : Int) → centreOf level v = v.xyz) (rest : Bytes) :
    decodePointsCompressed level vs.length (encodePointsCompressed vs level ++ rest) =
      some (vs.map (·.xyz), rest) :=
  decodePointsCompressed_encode bitLaws level hl vs hf hn hsnap rest

/-- **compressed point list, as the code uses it**: for ANY points (any mix of cell centres of any
    level and arbitrary points, any faces) and ANY `level ≤ 30`,
    `decodePointsCompressed (encodePointsCompressed (xyzToFaceSiTi pts) level) = pts`, bit for bit. -/
theorem pointsCompressed_roundtrip (level : Nat) (hl : level ≤ 30) (pts : List V3)
    (hn : pts.length ≤ maxEncodedVertices) (hr : ∀ p ∈ pts, SiTiInRange p) (rest : Bytes) :
    decodePointsCompressed level pts.length
        (encodePointsCompressed (xyzFaceSiTiVertices pts) level ++ rest) = some (pts, rest) := by
  have h := decodePointsCompressed_encode bitLaws level hl (xyzFaceSiTiVertices pts)
    (by intro v hv; simp only [xyzFaceSiTiVertices, List.mem_map] at hv
        obtain ⟨p, _, rfl⟩ := hv; exact xyzToFaceSiTi_face_lt p)
    (by simpa [xyzFaceSiTiVertices] using hn)
    (by intro v hv; simp only [xyzFaceSiTiVertices, List.mem_map] at hv
        obtain ⟨p, hp, rfl⟩ := hv
        intro hlev; rw [xyzToFaceSiTi_xyz]; exact snapped_eq_centre p level hl hlev (hr p hp)) rest
  have hxyz : (xyzFaceSiTiVertices pts).map (·.xyz) = pts := by
    simp [xyzFaceSiTiVertices, List.map_map, Function.comp_def, xyzToFaceSiTi_xyz]
  have hlen : (xyzFaceSiTiVertices pts).length = pts.length := by simp [xyzFaceSiTiVertices]
  rw [hlen, hxyz] at h
  exact h
example : [centre30].length ≤ maxEncodedVertices ∧ ∀ p ∈ [centre30], SiTiInRange p := by
  unfold SiTiInRange; decide +kernel

/-! ## 3. per type -/

theorem point_roundtrip (p : V3) (rest : Bytes) : decodePoint' (encodePoint' p ++ rest) = some (p, rest) :=
  decodePoint_encode p rest
theorem cap_roundtrip (c : CapM) (rest : Bytes) : decodeCap (encodeCap c ++ rest) = some (c, rest) :=
  decodeCap_encode c rest
theorem rect_roundtrip (r : RectM) (rest : Bytes) : decodeRect (encodeRect r ++ rest) = some (r, rest) :=
  decodeRect_encode r rest
theorem cellID_roundtrip (c : UInt64) (rest : Bytes) : decodeCellID (encodeCellID c ++ rest) = some (c, rest) :=
  decodeCellID_encode c rest
/-- a Cell round-trips iff its id is a valid cell id (every `Cell` value built by the API has one);
    `Cell.Decode` rejects bytes that do not hold a valid id -/
theorem cell_roundtrip (c : UInt64) (hv : S2.CellID.isValid c = true) (rest : Bytes) :
    decodeCell (encodeCell c ++ rest) = some (c, rest) :=
  decodeCell_encode c hv rest
example : S2.CellID.isValid 0x1000000000000000 = true := by decide

/-- every cell union the encoder accepts round-trips (same ids, same order) -/
theorem cellUnion_roundtrip (cu : List UInt64) (bytes : Bytes) (henc : encodeCellUnion cu = some bytes)
    (rest : Bytes) : decodeCellUnion (bytes ++ rest) = some (cu, rest) := decodeCellUnion_encode cu bytes henc rest
example : (encodeCellUnion [1, 2, 3]).isSome = true := by decide

/-- the ENCODER rejects exactly the unions of more than 1 000 000 cells (`maxEncodedCells`),
    i.e. exactly those the decoder would reject -/
theorem cellUnion_over_limit_rejected (cu : List UInt64) :
    encodeCellUnion cu = none ↔ maxCells < cu.length := by
  have := encodeCellUnion_isSome_iff cu
  cases h : encodeCellUnion cu <;> simp [h] at this ⊢ <;> omega

/-- polylines up to the decoder's limit of 50 000 000 vertices: same vertices, same order -/
theorem polyline_roundtrip (p : List V3) (h : p.length ≤ maxEncodedVertices) (rest : Bytes) :
    decodePolyline (encodePolyline p ++ rest) = some (p, rest) := decodePolyline_encode p h rest

/-- lossless loop: vertices (bits, order), originInside, depth and the encoded bound -/
theorem loop_roundtrip (l : LoopM) (h : l.vertices.length ≤ maxEncodedVertices) (hd : l.depth < 2 ^ 32)
    (rest : Bytes) : decodeLoop (encodeLoop l ++ rest) = some (l, rest) := decodeLoop_encode l h hd rest

/-- compressed loop: vertices, originInside, depth; the bound iff ≥ 64 vertices -/
theorem loopCompressed_roundtrip (L : Nat) (hL : L ≤ 30) (l : LoopM) (hok : LoopOK L l) (bytes : Bytes)
    (henc : encodeLoopCompressed l L (xyzFaceSiTiVertices l.vertices) = some bytes) (rest : Bytes) :
    decodeLoopCompressed L (bytes ++ rest) = some (loopCOf l, rest) :=
  decodeLoopCompressed_encode bitLaws L hL l hok bytes henc rest

/-! ## 4. polygons, whichever format the encoder selects -/

/-- observable fields the property speaks about -/
def obsM (l : LoopM) : List V3 × Bool × Nat := (l.vertices, l.originInside, l.depth)
def obsC (l : LoopC) : List V3 × Bool × Nat := (l.vertices, l.originInside, l.depth)

/-- a polygon the API can produce and both decoders accept: loop / vertex counts within the decoder
    limits, every loop has a vertex, depths fit `int32`, `hasHoles` is "some loop has odd depth"
    (`initLoopProperties`), si/ti of every vertex within `[0, maxSiTi]`.  No condition on snapping,
    zero signs, levels or faces. -/
structure PolygonOK (p : PolygonM) : Prop where
  nloops : p.loops.length ≤ maxEncodedLoops
  loopsOK : ∀ l ∈ p.loops, 0 < l.vertices.length ∧ l.vertices.length ≤ maxEncodedVertices ∧ l.depth < 2 ^ 32
  holes : p.hasHoles = p.loops.any (fun l => l.depth % 2 == 1)
  range : ∀ l ∈ p.loops, ∀ v ∈ l.vertices, SiTiInRange v

theorem loopOK_of (p : PolygonM) (h : PolygonOK p) (L : Nat) : ∀ l ∈ p.loops, LoopOK L l := by
  intro l hl
  obtain ⟨h1, h2, h3⟩ := h.loopsOK l hl
  exact ⟨h1, h2, by omega, h.range l hl⟩

/-- **polygon round trip, both formats, the property as worded**: whatever `Polygon.encode`
    selects, `Polygon.Decode` succeeds, consumes exactly the encoding, and returns the same loops in
    the same order with bit-identical vertices in the same order, the same origin flags, depths and
    `hasHoles` — for any mix of vertices that are / are not cell centres at any level. -/
theorem polygon_roundtrip (p : PolygonM) (hok : PolygonOK p) (bytes : Bytes)
    (henc : encodePolygon p = some bytes) (rest : Bytes) :
    ∃ q, decodePolygon (bytes ++ rest) = some (q, rest) ∧
      q.loops.map obsC = p.loops.map obsM ∧ q.hasHoles = p.hasHoles := by
  have hobs : (p.loops.map loopCOf).map obsC = p.loops.map obsM := by
    simp [List.map_map, Function.comp_def, obsC, obsM, loopCOf]
  have hobs2 : (p.loops.map LoopM.toC).map obsC = p.loops.map obsM := by
    simp [List.map_map, Function.comp_def, obsC, obsM, LoopM.toC]
  have hholes : (p.loops.map loopCOf).any (fun l => l.depth % 2 == 1) = p.hasHoles := by
    rw [hok.holes]; simp [List.any_map, Function.comp_def, loopCOf]
  unfold encodePolygon at henc
  split at henc
  · -- no vertices: compressed with MaxLevel
    have h0 : polygonXFST p = [] := by
      have : p.loops = [] := by
        rename_i hz
        rcases hp : p.loops with _ | ⟨l, ls⟩
        · rfl
        · have := (hok.loopsOK l (by simp [hp])).1
          simp only [PolygonM.numVertices, hp, List.map_cons, List.sum_cons, beq_iff_eq] at hz; omega
      simp [polygonXFST, this]
    rw [← h0] at henc
    exact ⟨_, decodePolygon_encodeCompressed bitLaws p 30 (by omega) (loopOK_of p hok 30) bytes henc rest,
      hobs, hholes⟩
  · simp only [] at henc
    split at henc
    · have hL := snapLevelOf_le (polygonXFST p)
      exact ⟨_, decodePolygon_encodeCompressed bitLaws p _ hL (loopOK_of p hok _) bytes henc rest, hobs, hholes⟩
    · exact ⟨_, decodePolygon_encodeLossless p bytes hok.nloops
        (fun l hl => ⟨(hok.loopsOK l hl).2.1, (hok.loopsOK l hl).2.2⟩) henc rest, hobs2, rfl⟩

/-- non-vacuity: a concrete triangle of level-30 centres meets `PolygonOK`, is encodable, and the
    encoder chooses the compressed format for it -/
def tri : PolygonM :=
  ⟨[⟨[centreOf 30 ⟨default, 3, 1234567891, 987654321, 30⟩, centreOf 30 ⟨default, 3, 1234567893, 987654321, 30⟩,
      centreOf 30 ⟨default, 3, 1234567891, 987654323, 30⟩], false, 0, default⟩], false, default⟩
example : (encodePolygon tri).isSome = true ∧ polygonChoosesCompressed tri = true ∧
    (∀ l ∈ tri.loops, ∀ v ∈ l.vertices, SiTiInRange v) := by
  unfold SiTiInRange; decide +kernel

/-- the octant triangle (1,0,0),(0,1,0),(0,0,1) — the former counterexample -/
def octant : PolygonM :=
  ⟨[⟨[⟨⟨0x3ff0000000000000⟩, ⟨0⟩, ⟨0⟩⟩, ⟨⟨0⟩, ⟨0x3ff0000000000000⟩, ⟨0⟩⟩, ⟨⟨0⟩, ⟨0⟩, ⟨0x3ff0000000000000⟩⟩],
     false, 0, default⟩], false, default⟩

/-- with the repaired `xyzToFaceSiTi` it round-trips bit-exactly (kernel-evaluated end to end;
    only (1,0,0) is still reported as a level-0 centre; the encoder still selects the compressed
    format and stores (0,1,0), (0,0,1) verbatim in the off-centre list) -/
example :
    (match encodePolygon octant with
     | some b => (match decodePolygon b with
        | some (q, r) => q.loops.map (·.vertices) == octant.loops.map (·.vertices) && r.isEmpty
        | none => false)
     | none => false) = true := by decide +kernel

/-! ## 5. the format choice depends only on the value (via the level histogram) -/

/-- `Polygon.encode` = compressed iff `polygonChoosesCompressed`, which for a non-empty polygon is
    the arithmetic test `3·numVertices < 13·numSnapped` on the histogram maximum. -/
theorem format_choice (p : PolygonM) :
    encodePolygon p =
      (if polygonChoosesCompressed p then
        encodePolygonCompressed p (if p.numVertices == 0 then 30 else (snapLevelOf (polygonXFST p)).1)
          (if p.numVertices == 0 then [] else polygonXFST p)
       else encodePolygonLossless p) := by
  unfold encodePolygon polygonChoosesCompressed
  by_cases h : p.numVertices == 0 <;> simp [h]

theorem useCompressed_iff (n s : Nat) (hs : s ≤ n) : useCompressed n s = true ↔ 3 * n < 13 * s := by
  unfold useCompressed; simp; omega
example : (5 : Nat) ≤ 10 := by decide

/- "Encoding twice yields the same bytes": in the model `encodePolygon` (and every other encoder)
   is a pure function of the value, so there is nothing to prove; on the implementation side the
   oracle compares the second encoding byte for byte on every generated value. -/

end S2Proofs.C09
