/-
  C19 (caps) for BINARY64 ITSELF — the cap model `S2.CapM` instantiated at the bit-exact soft-float
  (`S2.CapF64.Cap`: points = `V3`, chord angle = `F64`, `ChordAngleBetweenPoints = min(4, |a−b|²)` evaluated in floats),
  with the rounding allowance the repaired code actually adds (`Chord.addCapSlack` = `1.5·maxErr` of s2/cap.go).

  Contract of the point arguments: Normalize-grade unit vectors, `nunitB v = true` ⇔ finite coordinates and
  `|‖v‖² − 1| ≤ (289/64)·2^-52 = 4.515625·2^-52` in EXACT arithmetic.  This is what `r3.Vector.Normalize` GUARANTEES
  (`S2Proofs.CapF64.normalize_nunit`, from the standard model: 9 roundings = 4.5·2^-52 + O(2^-104)), i.e. the documented precondition of
  `ChordAngle.MaxPointError`; Go's `IsUnit` tolerates 5e-14 ≈ 225·2^-52, which is NOT enough (`addCap_needs_normalized`).
  Nothing is assumed about the arithmetic: the soft-float is proved correctly rounded (`S2Proofs.FloatErr.stdModel`, `S2Proofs.F64Round`),
  the spherical triangle inequality in chord form is proved from the Gram determinant (`S2Proofs.CapF64.unit_triangle`,
  `real_triangle_core`), the error budget of `AddCap` is `S2Proofs.CapF64.budget`, the float glue `S2Proofs.CapF64.addCap_core`.

  PROVED for every input (exact float statements, no allowance in the conclusion):
    `nunitB_normalize` (outputs of `Normalize` satisfy the contract), `cap_addPoint_contains_f64`, `cap_addCap_contains_f64` (the allowance of repair D29 suffices), `cap_addCap_valid_f64`,
    `cap_union_contains_f64`, `cap_union_valid_f64` (for EVERY outcome of the trigonometric part of `Cap.Union` whose centre is a
    Normalize-grade unit vector: no accuracy of libm is needed), `cap_expanded_contains_f64` (`r ≤ r.Add(dc)` holds exactly in binary64),
    `cap_complement_valid_f64`, `cap_isFull_all_points_f64`, `cap_isEmpty_no_points_f64`, `cap_nonempty_contains_center_f64`.
  FALSE for binary64 (the code has no allowance there), witnesses replayed against the Go library:
    `not_capContainsSound`, `not_capIntersectsComplete`, `not_capComplementCovers`;
  what holds instead, PROVED for every input, with an explicit allowance on the squared chord:
    `cap_contains_sound_partial_f64`, `cap_intersects_partial_f64` (relative 25·2^-52 + absolute 22·2^-104),
    `cap_complement_covers_partial_f64` (absolute 44·2^-52).
-/
import S2Proofs.CapF64.Model
import S2Proofs.CapF64.Complement
import S2Proofs.CapF64.AddMono
import S2Proofs.CapF64.Normalize

namespace S2Proofs.C19Cap64
open S2 S2.Exact S2Proofs.F64Order S2Proofs.FloatErr S2Proofs.CapF64
open S2.CapF64

/-! ### the contract is what `Normalize` guarantees -/

/-- **every output of `r3.Vector.Normalize` satisfies the contract of the cap theorems**: for a finite vector whose exact squared norm lies in
    `[2^-400, 2^400]` (no under- / overflow), the bit-exact model `V3.normalize` of `v.Mul(1 / math.Sqrt(v.Norm2()))` returns a vector with
    `nunitB = true`.  (`s2.PointFromCoords`, `InterpolateAtDistance`, `Point.Normalize` all end in this call.) -/
theorem nunitB_normalize (v : V3) (hv : Fin3 v) (hlo : 1 / 2 ^ 400 ≤ nrm2 v) (hhi : nrm2 v ≤ 2 ^ 400) :
    nunitB v.normalize = true :=
  (nunitB_iff _).2 (normalize_nunit v hv hlo hhi)

/-! ### full / empty -/

/-- a full cap accepts every Normalize-grade point -/
theorem cap_isFull_all_points_f64 (c : Cap) (hcc : nunitB c.center = true) (h : c.isFull = true)
    (p : V3) (hp : nunitB p = true) : c.containsPoint p = true := by
  obtain ⟨f, _, h4⟩ := between_fin hcc hp
  rw [isFull_eq] at h
  rw [containsPoint_eq]
  have n4 : F64Carrier.NN Chord.f4 := F64Carrier.nn_of_fin val_f4.1
  have nr : F64Carrier.NN c.radius := by
    unfold F64Carrier.NN
    by_contra hc
    have hc' : c.radius.isNaN = true := by simpa using hc
    unfold F64.feq at h
    rw [F64Carrier.cmp_nan_left hc'] at h
    simp at h
  have hk := (F64Carrier.feq_iff_key nr n4).1 h
  have h1 : F64.le (Chord.between c.center p) Chord.f4 = true := by
    rw [le_iff_val f val_f4.1, val_f4.2]; exact h4
  rw [F64Carrier.le_iff_key (F64Carrier.nn_of_fin f) nr, hk]
  exact (F64Carrier.le_iff_key (F64Carrier.nn_of_fin f) n4).1 h1

/-- an empty cap accepts no Normalize-grade point -/
theorem cap_isEmpty_no_points_f64 (c : Cap) (hcc : nunitB c.center = true) (h : c.isEmpty = true)
    (p : V3) (hp : nunitB p = true) : c.containsPoint p = false := by
  obtain ⟨f, h0, _⟩ := between_fin hcc hp
  rw [isEmpty_eq] at h
  rw [containsPoint_eq, Bool.eq_false_iff]
  intro hc
  have := not_lt_zero_of_le f h0 hc
  rw [h] at this
  exact absurd this (by simp)

/-- a valid non-empty cap accepts its own centre (`|c − c|²` is computed as exactly 0) -/
theorem cap_nonempty_contains_center_f64 (c : Cap) (hc : c.isValid = true) (hcc : nunitB c.center = true)
    (hne : c.isEmpty = false) : c.containsPoint c.center = true := by
  rw [isEmpty_eq] at hne
  obtain ⟨fr, r0, _⟩ := radius_fin (valid_radius hc) hne
  obtain ⟨f, v⟩ := between_self c.center ((nunitB_iff _).1 hcc).1
  rw [containsPoint_eq, le_iff_val f fr, v]
  exact r0

/-! ### AddPoint -/

/-- **(1)** after `AddPoint(p)` the cap contains `p`, and it keeps every point it contained (all in float arithmetic). -/
theorem cap_addPoint_contains_f64 (c : Cap) (hc : c.isValid = true) (hcc : nunitB c.center = true)
    (p : V3) (hp : nunitB p = true) :
    (c.addPoint p).containsPoint p = true ∧
    ∀ q : V3, nunitB q = true → c.containsPoint q = true → (c.addPoint p).containsPoint q = true := by
  obtain ⟨fn, n0, n4⟩ := between_fin hcc hp
  rw [addPoint_eq]
  by_cases he : F64.lt c.radius Chord.f0 = true
  · rw [if_pos he]
    constructor
    · rw [containsPoint_eq]
      obtain ⟨f, v⟩ := between_self p ((nunitB_iff p).1 hp).1
      rw [le_iff_val f val_f0.1, v, val_f0.2]
    · intro q hq hcq
      have := cap_isEmpty_no_points_f64 c hcc (by rw [isEmpty_eq]; exact he) q hq
      rw [this] at hcq; exact absurd hcq (by simp)
  · have he' : F64.lt c.radius Chord.f0 = false := by simpa using he
    rw [if_neg he]
    obtain ⟨fr, r0, r4⟩ := radius_fin (valid_radius hc) he'
    by_cases hl : F64.lt c.radius (Chord.between c.center p) = true
    · rw [if_pos hl]
      constructor
      · rw [containsPoint_eq]; exact le_refl' fn
      · intro q _ hcq
        rw [containsPoint_eq] at hcq ⊢
        exact le_trans' hcq (le_of_lt' hl)
    · rw [if_neg hl]
      constructor
      · rw [containsPoint_eq]
        exact le_of_not_lt (F64Carrier.nn_of_fin fr) (F64Carrier.nn_of_fin fn) (by simpa using hl)
      · intro q _ hcq; exact hcq

/-! ### AddCap -/

/-- **(2)** `AddCap`: every Normalize-grade point that the float `ContainsPoint` of `c` or of `o` accepts is accepted by the float
    `ContainsPoint` of `c.AddCap(o)` — the allowance `1.5·maxErr` of the repaired code (D29) suffices. -/
theorem cap_addCap_contains_f64 (c o : Cap) (hc : c.isValid = true) (ho : o.isValid = true)
    (hcc : nunitB c.center = true) (hoc : nunitB o.center = true) (p : V3) (hp : nunitB p = true)
    (h : c.containsPoint p = true ∨ o.containsPoint p = true) : (c.addCap o).containsPoint p = true := by
  rw [addCap_eq]
  by_cases hce : F64.lt c.radius Chord.f0 = true
  · rw [if_pos hce]
    rcases h with h | h
    · have := cap_isEmpty_no_points_f64 c hcc (by rw [isEmpty_eq]; exact hce) p hp
      rw [this] at h; exact absurd h (by simp)
    · exact h
  · rw [if_neg hce]
    by_cases hoe : F64.lt o.radius Chord.f0 = true
    · rw [if_pos hoe]
      rcases h with h | h
      · exact h
      · have := cap_isEmpty_no_points_f64 o hoc (by rw [isEmpty_eq]; exact hoe) p hp
        rw [this] at h; exact absurd h (by simp)
    · rw [if_neg hoe]
      have hce' : F64.lt c.radius Chord.f0 = false := by simpa using hce
      have hoe' : F64.lt o.radius Chord.f0 = false := by simpa using hoe
      obtain ⟨fr, r0, r4⟩ := radius_fin (valid_radius hc) hce'
      obtain ⟨fo, o0, o4⟩ := radius_fin (valid_radius ho) hoe'
      obtain ⟨fn, n0, n4⟩ := newRad_fin (c := c) hcc hoc ho (by rw [isEmpty_eq]; exact hoe')
      obtain ⟨fap, _, _⟩ := between_fin hcc hp
      by_cases hl : F64.lt c.radius (newRad c o) = true
      · rw [if_pos hl, containsPoint_eq]
        rcases h with h | h
        · rw [containsPoint_eq] at h
          exact le_trans' h (le_of_lt' hl)
        · rw [containsPoint_eq] at h
          obtain ⟨_, _, hcore⟩ := addCap_core c.center o.center p o.radius ((nunitB_iff _).1 hcc) ((nunitB_iff _).1 hoc)
            ((nunitB_iff _).1 hp) fo o0 o4 h
          exact (le_iff_val fap fn).2 hcore
      · rw [if_neg hl]
        rcases h with h | h
        · exact h
        · rw [containsPoint_eq] at h ⊢
          obtain ⟨_, _, hcore⟩ := addCap_core c.center o.center p o.radius ((nunitB_iff _).1 hcc) ((nunitB_iff _).1 hoc)
            ((nunitB_iff _).1 hp) fo o0 o4 h
          have h1 : F64.le (Chord.between c.center p) (newRad c o) = true := (le_iff_val fap fn).2 hcore
          exact le_trans' h1 (le_of_not_lt (F64Carrier.nn_of_fin fr) (F64Carrier.nn_of_fin fn) (by simpa using hl))

/-- `AddCap` of valid caps (Normalize-grade centres) is valid, and its centre is one of the two centres. -/
theorem cap_addCap_valid_f64 (c o : Cap) (hc : c.isValid = true) (ho : o.isValid = true)
    (hcc : nunitB c.center = true) (hoc : nunitB o.center = true) :
    (c.addCap o).isValid = true ∧ nunitB (c.addCap o).center = true := by
  rw [addCap_eq]
  by_cases hce : F64.lt c.radius Chord.f0 = true
  · rw [if_pos hce]; exact ⟨ho, hoc⟩
  · rw [if_neg hce]
    by_cases hoe : F64.lt o.radius Chord.f0 = true
    · rw [if_pos hoe]; exact ⟨hc, hcc⟩
    · rw [if_neg hoe]
      have hoe' : F64.lt o.radius Chord.f0 = false := by simpa using hoe
      obtain ⟨fn, n0, n4⟩ := newRad_fin (c := c) hcc hoc ho (by rw [isEmpty_eq]; exact hoe')
      by_cases hl : F64.lt c.radius (newRad c o) = true
      · rw [if_pos hl]
        refine ⟨?_, hcc⟩
        rw [isValid_eq, Bool.and_eq_true]
        exact ⟨valid_unit (c := c) hc, by rw [le_iff_val fn val_f4.1, val_f4.2]; exact n4⟩
      · rw [if_neg hl]; exact ⟨hc, hcc⟩

/-! ### Union -/

/-- **(3)** `Union` (after repair D30) contains every Normalize-grade point of both operands, for EVERY outcome of its trigonometric part:
    `containedByAngles` (the test `cRadius >= distance + otherRadius` on `math.Asin` values) is an arbitrary Boolean and `t` (the cap built by
    `InterpolateAtDistance` / `CapFromCenterAngle` from `math.Sin`, `math.Cos`, `math.Tan`, …) is an ARBITRARY cap whose centre is a
    Normalize-grade unit vector — no accuracy hypothesis on libm at all; an invalid `t` is discarded by the code itself. -/
theorem cap_union_contains_f64 (c o : Cap) (hc : c.isValid = true) (ho : o.isValid = true)
    (hcc : nunitB c.center = true) (hoc : nunitB o.center = true)
    (containedByAngles : Bool) (t : Cap) (htc : nunitB t.center = true) (p : V3) (hp : nunitB p = true)
    (h : c.containsPoint p = true ∨ o.containsPoint p = true) :
    (c.unionWith o containedByAngles t).containsPoint p = true := by
  unfold CapM.unionWith
  dsimp only
  by_cases hlt : c.radius < o.radius
  · simp only [hlt, if_true]
    split_ifs with c1 c2 c3
    · rcases (Bool.or_eq_true_iff.1 c1) with hf | he
      · exact cap_isFull_all_points_f64 o hoc hf p hp
      · have := cap_isEmpty_no_points_f64 c hcc he p hp
        rcases h with h | h
        · rw [this] at h; exact absurd h (by simp)
        · exact h
    · exact cap_addCap_contains_f64 o c ho hc hoc hcc p hp h.symm
    · exact cap_addCap_contains_f64 o c ho hc hoc hcc p hp h.symm
    · have ht : t.isValid = true := by simpa using c3
      obtain ⟨v1, u1⟩ := cap_addCap_valid_f64 t o ht ho htc hoc
      apply cap_addCap_contains_f64 _ c v1 hc u1 hcc p hp
      rcases h with h | h
      · exact Or.inr h
      · exact Or.inl (cap_addCap_contains_f64 t o ht ho htc hoc p hp (Or.inr h))
  · simp only [hlt, if_false]
    split_ifs with c1 c2 c3
    · rcases (Bool.or_eq_true_iff.1 c1) with hf | he
      · exact cap_isFull_all_points_f64 c hcc hf p hp
      · have := cap_isEmpty_no_points_f64 o hoc he p hp
        rcases h with h | h
        · exact h
        · rw [this] at h; exact absurd h (by simp)
    · exact cap_addCap_contains_f64 c o hc ho hcc hoc p hp h
    · exact cap_addCap_contains_f64 c o hc ho hcc hoc p hp h
    · have ht : t.isValid = true := by simpa using c3
      obtain ⟨v1, u1⟩ := cap_addCap_valid_f64 t c ht hc htc hcc
      apply cap_addCap_contains_f64 _ o v1 ho u1 hoc p hp
      rcases h with h | h
      · exact Or.inl (cap_addCap_contains_f64 t c ht hc htc hcc p hp (Or.inr h))
      · exact Or.inr h

/-- `Union` is valid for every outcome of the trigonometric part (same parameters as above). -/
theorem cap_union_valid_f64 (c o : Cap) (hc : c.isValid = true) (ho : o.isValid = true)
    (hcc : nunitB c.center = true) (hoc : nunitB o.center = true)
    (containedByAngles : Bool) (t : Cap) (htc : nunitB t.center = true) :
    (c.unionWith o containedByAngles t).isValid = true := by
  unfold CapM.unionWith
  dsimp only
  by_cases hlt : c.radius < o.radius
  · simp only [hlt, if_true]
    split_ifs with c1 c2 c3
    · exact ho
    · exact (cap_addCap_valid_f64 o c ho hc hoc hcc).1
    · exact (cap_addCap_valid_f64 o c ho hc hoc hcc).1
    · have ht : t.isValid = true := by simpa using c3
      obtain ⟨v1, u1⟩ := cap_addCap_valid_f64 t o ht ho htc hoc
      exact (cap_addCap_valid_f64 _ c v1 hc u1 hcc).1
  · simp only [hlt, if_false]
    split_ifs with c1 c2 c3
    · exact hc
    · exact (cap_addCap_valid_f64 c o hc ho hcc hoc).1
    · exact (cap_addCap_valid_f64 c o hc ho hcc hoc).1
    · have ht : t.isValid = true := by simpa using c3
      obtain ⟨v1, u1⟩ := cap_addCap_valid_f64 t c ht hc htc hcc
      exact (cap_addCap_valid_f64 _ o v1 ho u1 hoc).1

/-! ### the tests WITHOUT rounding slack: `Contains`, `Intersects` — sound up to an explicit allowance

`Cap.Contains` / `Cap.Intersects` compare chord angles with no allowance, so the exact set-theoretic laws fail by an ulp (witnesses below);
what holds for every input is the law up to the relative allowance `25·2^-52` and the absolute allowance `22·2^-104` on the squared chord. -/

/-- **Contains is sound up to rounding**: if `c.Contains(o)` and the float test of `o` accepts `p`, then the float chord from `c.center` to `p`
    exceeds `c.radius` by at most the relative `25·2^-52` and the absolute `22·2^-104`. -/
theorem cap_contains_sound_partial_f64 (c o : Cap) (hc : c.isValid = true) (ho : o.isValid = true)
    (hcc : nunitB c.center = true) (hoc : nunitB o.center = true) (p : V3) (hp : nunitB p = true)
    (h : c.contains o = true) (hop : o.containsPoint p = true) :
    Fin c.radius ∧ val (Chord.between c.center p) ≤ val c.radius * (1 + 25 * eps) + 22 * eps ^ 2 := by
  obtain ⟨fap, ap0, ap4⟩ := between_fin hcc hp
  have he0 := eps_pos
  have hpos : ∀ r : ℝ, 0 ≤ r → r ≤ r * (1 + 25 * eps) + 22 * eps ^ 2 := by
    intro r hr
    have : 0 ≤ r * (25 * eps) + 22 * eps ^ 2 := by positivity
    linarith
  rw [contains_eq] at h
  by_cases hfe : (c.isFull || o.isEmpty) = true
  · rcases Bool.or_eq_true_iff.1 hfe with hf | hemp
    · have hcp := cap_isFull_all_points_f64 c hcc hf p hp
      rw [containsPoint_eq] at hcp
      have fr : Fin c.radius := F64Carrier.fin_of_between fap val_f4.1 hcp (valid_radius hc)
      have := (le_iff_val fap fr).1 hcp
      exact ⟨fr, le_trans this (hpos _ (le_trans ap0 this))⟩
    · have := cap_isEmpty_no_points_f64 o hoc hemp p hp
      rw [this] at hop; exact absurd hop (by simp)
  · rw [if_neg hfe] at h
    have hoe : o.isEmpty = false := by
      cases hx : o.isEmpty
      · rfl
      · rw [hx] at hfe; simp at hfe
    rw [isEmpty_eq] at hoe
    obtain ⟨fo, o0, o4⟩ := radius_fin (valid_radius ho) hoe
    have ha := (nunitB_iff _).1 hcc
    have hb := (nunitB_iff _).1 hoc
    have hp' := (nunitB_iff _).1 hp
    obtain ⟨ca1, ca2, ca3⟩ := nunit_coord_le ha
    obtain ⟨cb1, cb2, cb3⟩ := nunit_coord_le hb
    obtain ⟨fcd, cd0, cd4, _, cdL⟩ := between_spec c.center o.center ha.1 hb.1 ca1 ca2 ca3 cb1 cb2 cb3
    rw [containsPoint_eq] at hop
    have tri := triangle_f64 c.center o.center p (Chord.between c.center o.center) o.radius ha hb hp' fcd cd0 cd4 fo o0 o4 cdL
      (leg_of_le hb hp' fo o4 hop)
    obtain ⟨fd, d0, _, _⟩ := chordAdd_spec _ _ fcd fo cd0 cd4 o0 o4
    have fr : Fin c.radius := F64Carrier.fin_of_between fd val_f4.1 h (valid_radius hc)
    have hle := (le_iff_val fd fr).1 h
    refine ⟨fr, le_trans tri ?_⟩
    have : val (Chord.add (Chord.between c.center o.center) o.radius) * (1 + 25 * eps) ≤ val c.radius * (1 + 25 * eps) :=
      mul_le_mul_of_nonneg_right hle (by positivity)
    linarith

/-- **a common point forces Intersects up to rounding**: if the float tests of `c` and of `o` both accept `p`, then the float chord between the
    centres exceeds `c.radius.Add(o.radius)` (the quantity `Intersects` compares with) by at most `25·2^-52` relative, `22·2^-104` absolute. -/
theorem cap_intersects_partial_f64 (c o : Cap) (hc : c.isValid = true) (ho : o.isValid = true)
    (hcc : nunitB c.center = true) (hoc : nunitB o.center = true) (p : V3) (hp : nunitB p = true)
    (h1 : c.containsPoint p = true) (h2 : o.containsPoint p = true) :
    c.isEmpty = false ∧ o.isEmpty = false ∧
    val (Chord.between c.center o.center) ≤ val (Chord.add c.radius o.radius) * (1 + 25 * eps) + 22 * eps ^ 2 := by
  obtain ⟨fap, ap0, _⟩ := between_fin hcc hp
  obtain ⟨fbp, bp0, _⟩ := between_fin hoc hp
  rw [containsPoint_eq] at h1 h2
  have hce := not_lt_zero_of_le fap ap0 h1
  have hoe := not_lt_zero_of_le fbp bp0 h2
  obtain ⟨fr, r0, r4⟩ := radius_fin (valid_radius hc) hce
  obtain ⟨fo, o0, o4⟩ := radius_fin (valid_radius ho) hoe
  have ha := (nunitB_iff _).1 hcc
  have hb := (nunitB_iff _).1 hoc
  have hp' := (nunitB_iff _).1 hp
  refine ⟨by rw [isEmpty_eq]; exact hce, by rw [isEmpty_eq]; exact hoe, ?_⟩
  have l2 := leg_of_le hb hp' fo o4 h2
  rw [dist2_comm] at l2
  exact triangle_f64 c.center p o.center c.radius o.radius ha hp' hb fr r0 r4 fo o0 o4 (leg_of_le ha hp' fr r4 h1) l2

/-! ### Expanded -/

/-- **(4) Expanded keeps every point, exactly** (no allowance needed): for `dc = ChordAngleFromAngle(distance) ∈ [0, 4]` every Normalize-grade
    point accepted by the float test of `c` is accepted by the float test of `c.Expanded`, and the result is valid.  The reason is
    `chordAdd_ge_left`: the float `r.Add(dc)` is never below `r` (standard model + monotone rounding; the regime `r` within `2^-45` of 4 with
    `dc < 2^-47` needs the binary64 grid). -/
theorem cap_expanded_contains_f64 (c : Cap) (hc : c.isValid = true) (hcc : nunitB c.center = true)
    (dc : F64) (fdc : Fin dc) (dc0 : 0 ≤ val dc) (dc4 : val dc ≤ 4) (p : V3) (hp : nunitB p = true)
    (h : c.containsPoint p = true) :
    (c.expanded dc).isValid = true ∧ (c.expanded dc).containsPoint p = true := by
  obtain ⟨fap, ap0, ap4⟩ := between_fin hcc hp
  rw [containsPoint_eq] at h
  have hce := not_lt_zero_of_le fap ap0 h
  obtain ⟨fr, r0, r4⟩ := radius_fin (valid_radius hc) hce
  have hle := (le_iff_val fap fr).1 h
  rw [expanded_eq, hce]
  simp only [Bool.false_eq_true, if_false]
  obtain ⟨fd, d0, d4, _⟩ := chordAdd_spec c.radius dc fr fdc r0 r4 dc0 dc4
  have hmono := chordAdd_ge_left c.radius dc fr fdc r0 r4 dc0 dc4
  refine ⟨?_, ?_⟩
  · rw [isValid_eq, Bool.and_eq_true]
    exact ⟨valid_unit (c := c) hc, by rw [le_iff_val fd val_f4.1, val_f4.2]; exact d4⟩
  · rw [containsPoint_eq]
    exact (le_iff_val fap fd).2 (le_trans hle hmono)

/-! ### Complement -/

/-- `Complement` of a valid cap (Normalize-grade centre) is valid and its centre is Normalize-grade. -/
theorem cap_complement_valid_f64 (c : Cap) (hc : c.isValid = true) (hcc : nunitB c.center = true) :
    c.complement.isValid = true ∧ nunitB c.complement.center = true := by
  rw [complement_eq]
  split_ifs with h1 h2
  · exact ⟨by decide +kernel, by decide +kernel⟩
  · exact ⟨by decide +kernel, by decide +kernel⟩
  · have he : F64.lt c.radius Chord.f0 = false := by rw [← isEmpty_eq]; simpa using h2
    obtain ⟨fr, r0, r4⟩ := radius_fin (valid_radius hc) he
    obtain ⟨fs, _, s4, _⟩ := sub4_spec c.radius fr r0 r4
    have hn := (nunitB_iff _).1 hcc
    refine ⟨?_, (nunitB_iff _).2 (nunit_neg hn)⟩
    rw [isValid_eq, Bool.and_eq_true]
    refine ⟨?_, by rw [le_iff_val fs val_f4.1, val_f4.2]; exact s4⟩
    show Chord.isUnit (c.center.mul Chord.fNeg1) = true
    rw [isUnit_neg c.center hn.1]; exact valid_unit hc

/-- **a cap and its complement cover every Normalize-grade point up to rounding**: `p` is accepted by `c`, or its float chord from the
    complement's centre exceeds the complement's radius by at most `44·2^-52` (absolute, on the squared chord).  The exact law (no allowance)
    is false for floats: see DELIVER.md. -/
theorem cap_complement_covers_partial_f64 (c : Cap) (hc : c.isValid = true) (hcc : nunitB c.center = true)
    (p : V3) (hp : nunitB p = true) :
    c.containsPoint p = true ∨
      (Fin c.complement.radius ∧ val (Chord.between c.complement.center p) ≤ val c.complement.radius + 44 * eps) := by
  by_cases hcp : c.containsPoint p = true
  · exact Or.inl hcp
  · right
    have he0 := eps_pos
    rw [complement_eq]
    split_ifs with h1 h2
    · exact absurd (cap_isFull_all_points_f64 c hcc h1 p hp) hcp
    · obtain ⟨_, _, b4⟩ := between_fin (a := (CapM.full : Cap).center) (by decide +kernel) hp
      refine ⟨val_f4.1, ?_⟩
      show val (Chord.between (CapM.full : Cap).center p) ≤ val Chord.f4 + 44 * eps
      rw [val_f4.2]; linarith
    · have he : F64.lt c.radius Chord.f0 = false := by rw [← isEmpty_eq]; simpa using h2
      obtain ⟨fr, r0, r4⟩ := radius_fin (valid_radius hc) he
      obtain ⟨fs, _, _, _⟩ := sub4_spec c.radius fr r0 r4
      have hout : F64.le (Chord.between c.center p) c.radius = false := by
        rw [← containsPoint_eq]; simpa using hcp
      exact ⟨fs, complement_covers_core c.center p c.radius ((nunitB_iff _).1 hcc) ((nunitB_iff _).1 hp) fr r0 r4 hout⟩

/-! ### Non-vacuity: concrete instances of the hypotheses (bit patterns; the caps `exA`, `exB` and the probe `exP` are the former
counterexample D29 of `AddCap`: `exP` is accepted by `exB`, rejected by `exA`, and accepted by `exA.AddCap(exB)` and by the Union) -/

section Examples
def exX : V3 := ⟨F64.one, Chord.f0, Chord.f0⟩
def exY : V3 := ⟨Chord.f0, F64.one, Chord.f0⟩
def exA : Cap := ⟨⟨⟨0x3fef2fa8a5c00669⟩, ⟨0xbfcafca85f1c2009⟩, ⟨0x3fb3707c5d9a22e1⟩⟩, ⟨0x3ffd877431415986⟩⟩
def exB : Cap := ⟨⟨⟨0xbfe00ea81fad87d0⟩, ⟨0xbfeaadad918518d5⟩, ⟨0x3fcd8274f2060848⟩⟩, ⟨0x39b4484bfeebc2a0⟩⟩
def exP : V3 := ⟨⟨0xbfe00ea81fad87d6⟩, ⟨0xbfeaadad918518d2⟩, ⟨0x3fcd8274f2060860⟩⟩
/-- stand-in for the trigonometric outcome of `Union` -/
def exT : Cap := ⟨exY, F64.one⟩
def exC : Cap := ⟨exX, ⟨0x400c000000000000⟩⟩   -- radius 3.5
def exO : Cap := ⟨exY, F64.half⟩

-- hypotheses of `cap_addCap_contains_f64`, `cap_addCap_valid_f64`, `cap_union_contains_f64` (+ the conclusions, evaluated)
example : exA.isValid = true ∧ exB.isValid = true ∧ nunitB exA.center = true ∧ nunitB exB.center = true ∧ nunitB exP = true ∧
    exB.containsPoint exP = true ∧ exA.containsPoint exP = false ∧ (exA.addCap exB).containsPoint exP = true ∧
    nunitB exT.center = true ∧ (exA.unionWith exB false exT).containsPoint exP = true ∧
    (exA.unionWith exB true exT).containsPoint exP = true := by decide +kernel
-- hypotheses of `cap_addPoint_contains_f64` (non-empty and empty receiver)
example : exC.isValid = true ∧ nunitB exC.center = true ∧ (exC.addPoint exP).containsPoint exP = true ∧
    ((⟨exX, Chord.fNeg1⟩ : Cap).isValid = true) ∧ ((⟨exX, Chord.fNeg1⟩ : Cap).addPoint exP).containsPoint exP = true := by decide +kernel
-- hypotheses of `cap_contains_sound_partial_f64`, `cap_intersects_partial_f64`, `cap_expanded_contains_f64`,
-- `cap_isFull_all_points_f64`, `cap_isEmpty_no_points_f64`
example : exC.isValid = true ∧ exO.isValid = true ∧ nunitB exO.center = true ∧ exC.contains exO = true ∧ exO.containsPoint exY = true ∧
    exC.containsPoint exY = true ∧ exC.intersects exO = true ∧ Fin F64.half ∧ (exC.expanded F64.half).containsPoint exY = true ∧
    (⟨exX, Chord.f4⟩ : Cap).isFull = true ∧ (⟨exX, Chord.fNeg1⟩ : Cap).isEmpty = true := by decide +kernel

/-! ### The exact laws that have NO allowance in the code are FALSE for binary64 (witnesses; all vectors Normalize-grade, caps valid) -/

/-- the exact law "Contains is sound w.r.t. point membership" -/
def CapContainsSound : Prop := ∀ (c o : Cap) (p : V3), c.isValid = true → o.isValid = true → nunitB c.center = true →
  nunitB o.center = true → nunitB p = true → c.contains o = true → o.containsPoint p = true → c.containsPoint p = true

/-- the exact law "a common point forces Intersects" -/
def CapIntersectsComplete : Prop := ∀ (c o : Cap) (p : V3), c.isValid = true → o.isValid = true → nunitB c.center = true →
  nunitB o.center = true → nunitB p = true → c.containsPoint p = true → o.containsPoint p = true → c.intersects o = true

/-- the exact law "a cap and its complement cover every point" -/
def CapComplementCovers : Prop := ∀ (c : Cap) (p : V3), c.isValid = true → nunitB c.center = true → nunitB p = true →
  c.containsPoint p = true ∨ c.complement.containsPoint p = true

/-- c = ((1,0,0), 0x400ddb3d742c2655 = chord(x,y).Add(1) exactly), o = ((0,1,0), 1.0), p = (−√3/2 rounded, 1/2, 0):
    `Contains` holds with equality, `o` accepts `p` (computed chord exactly 1.0), but the computed chord from `c.center` to `p` is
    0x400ddb3d742c2657, two ulps above `c.radius`. -/
def wC1 : Cap := ⟨exX, ⟨0x400ddb3d742c2655⟩⟩
def wO1 : Cap := ⟨exY, F64.one⟩
def wP1 : V3 := ⟨⟨0xbfebb67ae8584cab⟩, ⟨0x3fe0000000000000⟩, Chord.f0⟩

theorem not_capContainsSound : ¬ CapContainsSound := fun h =>
  absurd (h wC1 wO1 wP1 (by decide +kernel) (by decide +kernel) (by decide +kernel) (by decide +kernel) (by decide +kernel)
    (by decide +kernel) (by decide +kernel)) (by decide +kernel)

/-- c = ((1,0,0), 0.5), o = ((0,1,0), 0x3fe5ab00ac5a0e2c), p = (0.75, fl(√7/4) = 0x3fe52a7fa9d2f8ea, 0) (‖p‖² = 1 + 0.19·2^-52): both radii are
    exactly the computed chords to `p`, so both caps accept `p`, but `c.radius.Add(o.radius) = 0x3fffffffffffffff` is one ulp below the chord 2.0
    between the centres. -/
def wC2 : Cap := ⟨exX, F64.half⟩
def wO2 : Cap := ⟨exY, ⟨0x3fe5ab00ac5a0e2c⟩⟩
def wP2 : V3 := ⟨⟨0x3fe8000000000000⟩, ⟨0x3fe52a7fa9d2f8ea⟩, Chord.f0⟩

theorem not_capIntersectsComplete : ¬ CapIntersectsComplete := fun h =>
  absurd (h wC2 wO2 wP2 (by decide +kernel) (by decide +kernel) (by decide +kernel) (by decide +kernel) (by decide +kernel)
    (by decide +kernel) (by decide +kernel)) (by decide +kernel)

/-- c = ((1,0,0), 2.0) (a hemisphere), p = (0, 1 + 2^-52, 0) (‖p‖² = 1 + 2·2^-52 + …): the computed chords from `c.center` and from `−c.center` are both
    0x4000000000000001 > 2.0, so `p` is outside `c` and outside `c.Complement()` = ((−1,0,0), 2.0). -/
def wC4 : Cap := ⟨exX, F64.two⟩
def wP4 : V3 := ⟨Chord.f0, ⟨0x3ff0000000000001⟩, Chord.f0⟩

theorem not_capComplementCovers : ¬ CapComplementCovers := fun h => by
  have := h wC4 wP4 (by decide +kernel) (by decide +kernel) (by decide +kernel)
  revert this
  decide +kernel

/-- **The Normalize-grade precondition cannot be weakened to Go's `IsUnit`**: all three vectors pass `IsUnit` (`|‖v‖²−1| ≤ 5e-14`; here
    ‖c‖² − 1 ≈ +180·2^-52, ‖o‖² − 1 ≈ −180·2^-52), both caps are valid, `o` accepts `p`, but `c.AddCap(o)` (radius 0x400a953fd4e97c95) does not:
    the computed chord is 0x400a953fd4e97da0, 267 ulps above.  (Native search, sub-package D: failures start at |‖v‖²−1| ≈ 18·2^-52.) -/
theorem addCap_needs_normalized :
    let c : Cap := ⟨⟨⟨0x3ff000000000005a⟩, Chord.f0, Chord.f0⟩, Chord.f0⟩
    let o : Cap := ⟨⟨Chord.f0, ⟨0x3fefffffffffff4c⟩, Chord.f0⟩, F64.half⟩
    let p : V3 := ⟨⟨0xbfe52a7fa9d2f961⟩, ⟨0x3fe8000000000087⟩, Chord.f0⟩
    c.isValid = true ∧ o.isValid = true ∧ Chord.isUnit p = true ∧ o.containsPoint p = true ∧ (c.addCap o).containsPoint p = false ∧
      nunitB c.center = false ∧ nunitB o.center = false ∧ nunitB p = false := by
  decide +kernel

-- hypotheses of `nunitB_normalize`: v = (1, 1, 1) (‖v‖² = 3), whose normalisation is Normalize-grade but not exactly unit
example : Fin3 (⟨F64.one, F64.one, F64.one⟩ : V3) ∧ nunitB (⟨F64.one, F64.one, F64.one⟩ : V3).normalize = true ∧
    (⟨F64.one, F64.one, F64.one⟩ : V3).normalize = ⟨⟨0x3fe279a74590331d⟩, ⟨0x3fe279a74590331d⟩, ⟨0x3fe279a74590331d⟩⟩ := by decide +kernel
example : (1 : ℝ) / 2 ^ 400 ≤ nrm2 (⟨F64.one, F64.one, F64.one⟩ : V3) ∧ nrm2 (⟨F64.one, F64.one, F64.one⟩ : V3) ≤ 2 ^ 400 := by
  have h1 : val F64.one = 1 := by
    have : toInt F64.one = 2 ^ 1074 := by decide +kernel
    unfold val; rw [this]; push_cast; exact div_self (by positivity)
  unfold nrm2
  simp only [h1]
  constructor
  · have : (1 : ℝ) / 2 ^ 400 ≤ 1 := by
      rw [div_le_one (by positivity)]; exact one_le_pow₀ (by norm_num)
    linarith
  · have h3 : (2 : ℝ) ^ 2 ≤ 2 ^ 400 := pow_le_pow_right₀ (by norm_num) (by norm_num)
    have h5 : (1 : ℝ) ^ 2 + 1 ^ 2 + 1 ^ 2 ≤ 2 ^ 2 := by norm_num
    exact le_trans h5 h3

end Examples

end S2Proofs.C19Cap64
