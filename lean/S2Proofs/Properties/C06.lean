/-
  Property C06 (discrete half, package c06a): "Every shape exposes one edge set: its edges
  enumerated by edge id and by (chain, offset) are identical and chain positions invert chain
  lookup."  — the Shape interface contract of s2/shape.go for every Shape implementation, for
  all sizes, about the model `S2.Shapes` (tied to the Go source by S2Proofs/Ties/C06.lean and by
  the correspondence check `c06a`).

  `Contract A ne nc` (S2/Shapes.lean) bundles the clauses:
    (i)   pos_edge   : ChainPosition(e) = (c,o) in range, Chain(c).Start+o = e, ChainEdge(c,o) = Edge(e)
    (ii)  chain_inv  : ChainPosition(Chain(i).Start+j) = (i,j), Edge(Chain(i).Start+j) = ChainEdge(i,j)
    (iii) tile_*     : Chain(0).Start = 0, Chain(i).Start+Length = Chain(i+1).Start, last end = NumEdges
    (iv)  every `∃ … = some …` : no accessor panics on in-range arguments.

  The current tree violates the contract in three accessors (D11, D12, D13): for these the full
  statement is kept as a `def … : Prop`, shown false on a concrete instance, and proved for the
  repaired accessor (`…Fixed`, the Go repair is fix_D1x.diff).

  The second part (cell location, S2.Locate) follows below.
-/
import S2Proofs.C06.LaxPolygon
import S2Proofs.C06.Locate
namespace S2Proofs.C06
open S2 S2.Shapes

/-! ## Loop (incl. the empty and the full loop, n = 1) -/

/-- Loop: any vertex count, empty (n=1, origin outside: 0 chains), full (n=1, origin inside: one
    chain of length 0). -/
theorem loop_contract (s : LoopS) : Contract (Loop.acc s) (Loop.NumEdges s) (Loop.NumChains s) := by
  have hne : Loop.NumEdges s = if (s.n : Int) = 1 then 0 else (s.n : Int) := by
    simp [Loop.NumEdges, Loop.isEmptyOrFull]
  have hnc : Loop.NumChains s = if ((s.n : Int) = 1 ∧ s.originInside = false) then 0 else 1 := by
    simp [Loop.NumChains, Loop.IsEmpty, Loop.isEmptyOrFull, Loop.ContainsOrigin]
  apply contract_single
  · rfl
  · rfl
  · rw [hne]; split <;> omega
  · rw [hnc]; split <;> simp
  · rw [hnc, hne]; intro h; split at h
    · rename_i h1; simp [h1.1]
    · omega
  · intro i; rfl
  · intro e; rfl
  · intro e h0 h
    rw [hne] at h
    split at h
    · omega
    · by_cases he : e + 1 < s.n
      · refine ⟨(e, e+1), ?_, ?_⟩ <;>
          simp [Loop.acc, Loop.Edge, Loop.ChainEdge, vertex_lt s h0 h, vertex_lt s (by omega) he]
      · have : e + 1 = s.n := by omega
        have hp : 0 < s.n := by omega
        refine ⟨(e, 0), ?_, ?_⟩ <;>
          simp [Loop.acc, Loop.Edge, Loop.ChainEdge, vertex_lt s h0 h, this, vertex_n s hp]

example : Contract (Loop.acc ⟨5, true, 1⟩) 5 1 := loop_contract ⟨5, true, 1⟩
example : Contract (Loop.acc ⟨1, true, 0⟩) 0 1 := loop_contract ⟨1, true, 0⟩   -- full loop
example : Contract (Loop.acc ⟨1, false, 0⟩) 0 0 := loop_contract ⟨1, false, 0⟩ -- empty loop

/-! ## Polyline, LaxPolyline -/

theorem polyline_contract (s : SeqS) : Contract (Polyline.acc s) (Polyline.NumEdges s) (Polyline.NumChains s) := by
  have hne : Polyline.NumEdges s = if (s.n : Int) = 0 then 0 else (s.n : Int) - 1 := rfl
  have hnc : Polyline.NumChains s = minInt 1 (Polyline.NumEdges s) := rfl
  apply contract_single
  · rfl
  · rfl
  · rw [hne]; split <;> omega
  · rw [hnc, hne]; unfold minInt; split <;> split <;> omega
  · rw [hnc, hne]; unfold minInt; split <;> split <;> omega
  · intro i; rfl
  · intro e; rfl
  · intro e h0 h
    rw [hne] at h
    have : e + 1 < s.n := by split at h <;> omega
    refine ⟨(e, e+1), ?_, ?_⟩ <;>
      simp [Polyline.acc, Polyline.Edge, Polyline.ChainEdge, vtx_some h0 (by omega : e < s.n), vtx_some (by omega : 0 ≤ e + 1) this]

example : Contract (Polyline.acc ⟨4⟩) 3 1 := polyline_contract ⟨4⟩
example : Contract (Polyline.acc ⟨1⟩) 0 0 := polyline_contract ⟨1⟩

theorem laxPolyline_contract (s : SeqS) :
    Contract (LaxPolyline.acc s) (LaxPolyline.NumEdges s) (LaxPolyline.NumChains s) := by
  have hne : LaxPolyline.NumEdges s = maxInt 0 ((s.n : Int) - 1) := rfl
  have hnc : LaxPolyline.NumChains s = minInt 1 (LaxPolyline.NumEdges s) := rfl
  apply contract_single
  · rfl
  · rfl
  · rw [hne]; unfold maxInt; split <;> omega
  · rw [hnc, hne]; unfold minInt maxInt; split <;> split <;> omega
  · rw [hnc, hne]; unfold minInt maxInt; split <;> split <;> omega
  · intro i; rfl
  · intro e; rfl
  · intro e h0 h
    rw [hne] at h
    have : e + 1 < s.n := by unfold maxInt at h; split at h <;> omega
    refine ⟨(e, e+1), ?_, ?_⟩ <;>
      simp [LaxPolyline.acc, LaxPolyline.Edge, LaxPolyline.ChainEdge, vtx_some h0 (by omega : e < s.n), vtx_some (by omega : 0 ≤ e + 1) this]

example : Contract (LaxPolyline.acc ⟨2⟩) 1 1 := laxPolyline_contract ⟨2⟩

/-! ## PointVector (defect D12) and the test-only edgeVectorShape -/

/-- full statement for the code as it is -/
def PointVector_contract : Prop :=
  ∀ s : SeqS, Contract (PointVector.acc s) (PointVector.NumEdges s) (PointVector.NumChains s)

/-- D12: with 2 points, `ChainEdge(1, 0)` is `(p[1], p[0])` but `Edge(1)` is `(p[1], p[1])`. -/
theorem pointVector_contract_false : ¬ PointVector_contract := by
  intro h
  obtain ⟨c, o, st, len, ed, h1, _, _, h2, _, _, _, h3, h4⟩ := (h ⟨2⟩).pos_edge 1 (by decide) (by decide)
  have e1 : (c, o) = (1, 0) := by
    have : (PointVector.acc ⟨2⟩).chainPosition 1 = some (1, 0) := by decide
    rw [this] at h1; exact (Option.some.inj h1).symm
  obtain ⟨rfl, rfl⟩ := Prod.mk.inj e1
  have a : (PointVector.acc ⟨2⟩).edge 1 = some (1, 1) := by decide
  have b : (PointVector.acc ⟨2⟩).chainEdge 1 0 = some (1, 0) := by decide
  rw [a] at h3; rw [b] at h4
  have := h3.trans h4.symm
  exact absurd this (by decide)

/-- the concrete disagreement, on the accessors themselves -/
example : PointVector.ChainEdge ⟨2⟩ 1 0 = some (1, 0) ∧ PointVector.Edge ⟨2⟩ 1 = some (1, 1) := by decide

/-- PointVector with `ChainEdge` repaired (fix_D12.diff): the contract holds for every length.
    Since only `ChainEdge` differs, this is also what holds of the current code: everything
    except the clauses mentioning `ChainEdge`. -/
theorem pointVectorFixed_contract (s : SeqS) :
    Contract (PointVector.accFixed s) (PointVector.NumEdges s) (PointVector.NumChains s) := by
  apply contract_unit
  · rfl
  · rfl
  · show (0 : Int) ≤ (s.n : Int); omega
  · intro i; rfl
  · intro e; rfl
  · intro e h0 h
    have h' : e < s.n := h
    refine ⟨(e, e), ?_, ?_⟩ <;>
      simp [PointVector.accFixed, PointVector.accWith, PointVector.Edge, PointVector.ChainEdgeFixed, vtx_some h0 h']

example : Contract (PointVector.accFixed ⟨3⟩) 3 3 := pointVectorFixed_contract ⟨3⟩

theorem edgeVector_contract (s : SeqS) :
    Contract (EdgeVector.acc s) (EdgeVector.NumEdges s) (EdgeVector.NumChains s) := by
  apply contract_unit
  · rfl
  · rfl
  · show (0 : Int) ≤ (s.n : Int); omega
  · intro i; rfl
  · intro e; rfl
  · intro e h0 h
    have h' : e < s.n := h
    refine ⟨(2 * e, 2 * e + 1), ?_, ?_⟩ <;>
      simp [EdgeVector.acc, EdgeVector.Edge, EdgeVector.ChainEdge, edgeAt, h0, h']

example : Contract (EdgeVector.acc ⟨3⟩) 3 3 := edgeVector_contract ⟨3⟩

/-! ## LaxLoop (defect D11) -/

def LaxLoop_contract : Prop :=
  ∀ n : Nat, Contract (LaxLoop.acc (LaxLoopS.ofLen n)) (LaxLoop.NumEdges (LaxLoopS.ofLen n)) (LaxLoop.NumChains (LaxLoopS.ofLen n))

/-- D11: a one-vertex LaxLoop has the edge `Edge(0) = (v0,v0)`, but `ChainEdge(0,0)` reads
    `vertices[1]` and panics. -/
theorem laxLoop_contract_false : ¬ LaxLoop_contract := by
  intro h
  obtain ⟨c, o, st, len, ed, h1, _, _, h2, _, _, _, h3, h4⟩ := (h 1).pos_edge 0 (by decide) (by decide)
  have e1 : (c, o) = (0, 0) := by
    have : (LaxLoop.acc (LaxLoopS.ofLen 1)).chainPosition 0 = some (0, 0) := by decide
    rw [this] at h1; exact (Option.some.inj h1).symm
  obtain ⟨rfl, rfl⟩ := Prod.mk.inj e1
  have b : (LaxLoop.acc (LaxLoopS.ofLen 1)).chainEdge 0 0 = none := by decide
  rw [b] at h4
  cases h4

/-- the concrete disagreements: a panic for the last edge, a wrong end point for the others -/
example : LaxLoop.ChainEdge (LaxLoopS.ofLen 1) 0 0 = none ∧ LaxLoop.Edge (LaxLoopS.ofLen 1) 0 = some (0, 0) := by decide
example : LaxLoop.ChainEdge (LaxLoopS.ofLen 3) 0 0 = some (0, 0) ∧ LaxLoop.Edge (LaxLoopS.ofLen 3) 0 = some (0, 1) := by decide
example : LaxLoop.ChainEdge (LaxLoopS.ofLen 3) 0 2 = none ∧ LaxLoop.Edge (LaxLoopS.ofLen 3) 2 = some (2, 0) := by decide

/-- LaxLoop with `ChainEdge` repaired (fix_D11.diff); also: what holds of the current code is
    everything except the clauses mentioning `ChainEdge`. -/
theorem laxLoopFixed_contract (n : Nat) :
    Contract (LaxLoop.accFixed (LaxLoopS.ofLen n)) (LaxLoop.NumEdges (LaxLoopS.ofLen n)) (LaxLoop.NumChains (LaxLoopS.ofLen n)) := by
  have hne : LaxLoop.NumEdges (LaxLoopS.ofLen n) = (n : Int) := rfl
  have hnc : LaxLoop.NumChains (LaxLoopS.ofLen n) = minInt 1 (n : Int) := rfl
  apply contract_single
  · rfl
  · rfl
  · rw [hne]; omega
  · rw [hnc]; unfold minInt; split <;> omega
  · rw [hnc, hne]; unfold minInt; split <;> omega
  · intro i; rfl
  · intro e; rfl
  · intro e h0 h
    rw [hne] at h
    by_cases he : e + 1 = (n : Int)
    · refine ⟨(e, 0), ?_, ?_⟩ <;>
        simp [LaxLoop.accFixed, LaxLoop.accWith, LaxLoop.Edge, LaxLoop.ChainEdgeFixed, LaxLoopS.ofLen, he,
          vtx_some h0 h, vtx_some (Int.le_refl 0) (by omega : (0:Int) < n)]
    · refine ⟨(e, e + 1), ?_, ?_⟩ <;>
        simp [LaxLoop.accFixed, LaxLoop.accWith, LaxLoop.Edge, LaxLoop.ChainEdgeFixed, LaxLoopS.ofLen, he,
          vtx_some h0 h, vtx_some (by omega : 0 ≤ e + 1) (by omega : e + 1 < n)]

example : Contract (LaxLoop.accFixed (LaxLoopS.ofLen 1)) 1 1 := laxLoopFixed_contract 1
example : Contract (LaxLoop.accFixed (LaxLoopS.ofLen 0)) 0 0 := laxLoopFixed_contract 0

/-! ## LaxPolygon (defect D13) -/

def LaxPolygon_contract : Prop :=
  ∀ ns : List Nat, Contract (LaxPolygon.acc (LaxPolygonS.ofLens ns)) (ns.sum : Nat) (ns.length : Nat)

/-- D13: two triangles; edge 3 is the first edge of chain 1 but `ChainPosition(3)` answers chain
    `cumulativeVertices[2] - cumulativeVertices[1] = 3`. -/
theorem laxPolygon_contract_false : ¬ LaxPolygon_contract := by
  intro h
  obtain ⟨c, o, st, len, ed, h1, _, hc, _⟩ := (h [3, 3]).pos_edge 3 (by decide) (by decide)
  have : (LaxPolygon.acc (LaxPolygonS.ofLens [3, 3])).chainPosition 3 = some (3, 0) := by decide
  rw [this] at h1
  have e1 := Prod.mk.inj (Option.some.inj h1)
  have : c = 3 := e1.1.symm
  subst this
  exact absurd hc (by decide)

example : LaxPolygon.ChainPosition (LaxPolygonS.ofLens [3, 3]) 3 = some (3, 0) ∧
          LaxPolygon.ChainPositionFixed (LaxPolygonS.ofLens [3, 3]) 3 = some (1, 0) := by decide

/-- LaxPolygon with `ChainPosition` repaired (fix_D13.diff): the contract holds for every list
    of loop sizes (no loops, one loop = the `numLoops == 1` paths, ≥ 2 loops = the
    `cumulativeVertices` paths; empty loops = full loops included).  Also: what holds of the current
    code is everything except the clauses mentioning `ChainPosition`. -/
theorem laxPolygonFixed_contract (ns : List Nat) :
    Contract (LaxPolygon.accFixed (LaxPolygonS.ofLens ns)) (ns.sum : Nat) (ns.length : Nat) := by
  match ns with
  | [] =>
    apply contract_prefix
    · rfl
    · rfl
    · intro i hi; simp at hi
    · intro i hi; simp at hi
    · intro i hi; simp at hi
  | [n] =>
    have h := contract_single (LaxPolygon.accFixed (LaxPolygonS.ofLens [n])) (n : Int) 1 rfl rfl (by omega)
      (Or.inr rfl) (by omega) (fun i => rfl) (fun e => rfl) (by
        intro e h0 h
        by_cases he : e + 1 = (n : Int)
        · refine ⟨(e, 0), ?_, ?_⟩ <;>
            simp [LaxPolygon.accFixed, LaxPolygon.accWith, LaxPolygon.Edge, LaxPolygon.ChainEdge, LaxPolygon.numLoopVertices,
              LaxPolygonS.ofLens, he, vtx_some h0 h, vtx_some (Int.le_refl 0) (by omega : (0:Int) < n)]
        · refine ⟨(e, e + 1), ?_, ?_⟩ <;>
            simp [LaxPolygon.accFixed, LaxPolygon.accWith, LaxPolygon.Edge, LaxPolygon.ChainEdge, LaxPolygon.numLoopVertices,
              LaxPolygonS.ofLens, he, vtx_some h0 h, vtx_some (by omega : 0 ≤ e + 1) (by omega : e + 1 < n)])
    simpa using h
  | a :: b :: rest =>
    apply contract_prefix
    · exact lp_numEdges a b rest
    · rfl
    · exact lp_chain a b rest
    · exact lp_chainPositionFixed a b rest
    · exact lp_edge a b rest

example : Contract (LaxPolygon.accFixed (LaxPolygonS.ofLens [3, 0, 1, 2])) 6 4 := laxPolygonFixed_contract [3, 0, 1, 2]

/-! ## Polygon (linear-scan path ≤ 12 loops, `cumulativeEdges` path > 12 loops)

  `PolyValid` is the precondition under which the property is claimed: the loop list is what
  `Polygon.Validate` accepts as far as vertex counts go — a one-vertex (empty/full) loop occurs only
  as the single loop of the empty/full polygon.  (Observation, not a defect of a valid polygon: for
  2…12 loops one of which has exactly one vertex, `NumEdges` counts that vertex as an edge while
  `Chain` reports length 0, so the chains do not tile; `checkContract` shows it below.) -/

def PolyValid (loops : List LoopS) : Prop :=
  (∃ l, loops = [l] ∧ l.n = 1) ∨ (∀ l ∈ loops, l.n ≠ 1)

/-- full statement; PROVED for every valid loop list (any number of loops, both search paths) as
    `polygon_contract` in S2Proofs/Properties/C06_Polygon.lean (helper lemmas S2Proofs/C06/Polygon.lean;
    the correspondence check `c06a` additionally exercises both search paths on every run). -/
def Polygon_contract : Prop :=
  ∀ loops : List LoopS, PolyValid loops →
    Contract (Polygon.acc (PolygonS.fromLoops loops)) (Polygon.NumEdges (PolygonS.fromLoops loops))
      (Polygon.NumChains (PolygonS.fromLoops loops))

example : PolyValid [⟨1, true, 0⟩] := Or.inl ⟨_, rfl, rfl⟩
/-- instances (executable check of all clauses; both paths) -/
example : checkContract (Polygon.acc (PolygonS.fromLoops [⟨3,false,0⟩, ⟨4,false,1⟩, ⟨2,false,0⟩])) 9 3 = none := by decide
example : checkContract (Polygon.acc (PolygonS.fromLoops ((List.range 14).map fun k => ⟨k + 2, false, k⟩))) 119 14 = none := by decide
/-- the observation above: an invalid two-loop polygon containing an empty loop -/
example : checkContract (Polygon.acc (PolygonS.fromLoops [⟨1,false,0⟩, ⟨3,false,0⟩])) 4 2 ≠ none := by decide

/-! ## Cell location: seek / LocatePoint / LocateCellID (model S2.Locate)

  For every list of index cells satisfying `CellsOK` (each cell inside its own leaf range, sorted and
  pairwise disjoint: `rangeMax` of an earlier cell < `rangeMin` of a later one, no sentinel) — and,
  for LocateCellID, a target satisfying `TargetOK` (in its own range; nested-or-disjoint w.r.t. the
  index cells).  These are facts about valid cell ids (package C01); they are hypotheses here.
  "contains" is the model of Go's `CellID.Contains` (`S2.CellID.contains`). -/
section Locate
open S2.CellID S2.Locate
variable {cells : List CellID}

/-- LocatePoint: if index cell `k` contains the target, the answer is `true` and the iterator is on `k`. -/
theorem locatePoint_found (H : CellsOK cells) (t : CellID) (k : Nat) (hk : k < cells.length)
    (hc : contains cells[k] t = true) : locatePoint cells t = (true, k) := by
  have hc' := (contains_iff _ _).mp hc
  have rk := H.rng hk
  by_cases hge : t.toNat ≤ cells[k].toNat
  · have hs : seek cells t = k := by
      apply seek_eq t k (by omega)
      · intro j hj hjk
        have := H.srt hjk hk; have := H.rng hj; omega
      · intro j hj hkj
        by_cases e : j = k
        · subst e; exact hge
        · have := H.ids (show k < j by omega) hj; omega
    have h1 : rangeMin cells[k] ≤ t := ule.mpr hc'.1
    unfold locatePoint
    simp [hs, H.notDone hk, idAt_lt hk, h1]
  · have hs : seek cells t = k + 1 := by
      apply seek_eq t (k+1) (by omega)
      · intro j hj hjk
        by_cases e : j = k
        · subst e; omega
        · have := H.ids (show j < k by omega) hk; omega
      · intro j hj hkj
        have := H.srt (show k < j by omega) hj; have := H.rng hj; omega
    have first : (!done cells (k+1) && decide (rangeMin (idAt cells (k+1)) ≤ t)) = false := by
      by_cases hl : k + 1 < cells.length
      · have := H.srt (show k < k+1 by omega) hl
        have : ¬ rangeMin cells[k+1] ≤ t := by rw [ule]; omega
        simp [idAt_lt hl, this]
      · simp [done_ge (show cells.length ≤ k+1 by omega)]
    have h2 : rangeMax cells[k] ≥ t := ule.mpr hc'.2
    unfold locatePoint
    simp [hs, first, Locate.prev, idAt_lt hk, h2]

/-- LocatePoint: if no index cell contains the target, the answer is `false`. -/
theorem locatePoint_none (H : CellsOK cells) (t : CellID)
    (hno : ∀ (k : Nat) (hk : k < cells.length), contains cells[k] t = false) : (locatePoint cells t).1 = false := by
  obtain ⟨w1, w2, w3⟩ := seek_weak (cells := cells) t
  have first : (!done cells (seek cells t) && decide (rangeMin (idAt cells (seek cells t)) ≤ t)) = false := by
    by_cases hl : seek cells t < cells.length
    · have a := w2 hl
      have r := H.rng hl
      have n := hno _ hl
      have : ¬ rangeMin cells[seek cells t] ≤ t := by
        intro h; rw [ule] at h
        have : contains cells[seek cells t] t = true := (contains_iff _ _).mpr ⟨h, by omega⟩
        rw [n] at this; cases this
      simp [idAt_lt hl, this]
    · simp [done_ge (show cells.length ≤ seek cells t by omega)]
  unfold locatePoint
  simp only [first]
  by_cases h0 : seek cells t = 0
  · simp [h0, Locate.prev]
  · have hl : seek cells t - 1 < cells.length := by omega
    have a := w3 (by omega) hl
    have r := H.rng hl
    have n := hno _ hl
    have : ¬ rangeMax cells[seek cells t - 1] ≥ t := by
      intro h; rw [ge_iff_le, ule] at h
      have : contains cells[seek cells t - 1] t = true := (contains_iff _ _).mpr ⟨by omega, h⟩
      rw [n] at this; cases this
    simp [Locate.prev, h0, idAt_lt hl, this]


/-- non-vacuity: three disjoint cells (two level-1 cells of face 0, face 1), targets inside / outside -/
example : CellsOK [0x0400000000000000, 0x1400000000000000, 0x3000000000000000] := by decide
example : contains ([0x0400000000000000, 0x1400000000000000, 0x3000000000000000] : List CellID)[0] 0x0500000000000001 = true := by decide
example : locatePoint [0x0400000000000000, 0x1400000000000000, 0x3000000000000000] 0x0500000000000001 = (true, 0) := by decide
example : ∀ (k : Nat) (hk : k < 3), contains ([0x0400000000000000, 0x1400000000000000, 0x3000000000000000] : List CellID)[k] 0x0c00000000000001 = false := by decide

theorem locateCellID_indexed (H : CellsOK cells) (t : CellID) (T : TargetOK cells t) (k : Nat) (hk : k < cells.length)
    (hc : contains cells[k] t = true) : locateCellID cells t = (.indexed, k) := by
  have hc' := (contains_iff _ _).mp hc
  have rk := H.rng hk
  have rt : (rangeMin t).toNat ≤ t.toNat ∧ t.toNat ≤ (rangeMax t).toNat := by
    have := T.range; simpa [ule] using this
  obtain ⟨⟨n1, n2⟩, n3⟩ := T.nested cells[k] (List.getElem_mem hk) hc
  rw [ule] at n1 n2
  have n3' : cells[k].toNat = t.toNat ∨ cells[k].toNat < (rangeMin t).toNat ∨ (rangeMax t).toNat < cells[k].toNat := by
    rcases n3 with h | h | h
    · left; rw [h]
    · right; left; exact UInt64.lt_iff_toNat_lt.mp h
    · right; right; exact UInt64.lt_iff_toNat_lt.mp h
  by_cases hge : (rangeMin t).toNat ≤ cells[k].toNat
  · have hs : seek cells (rangeMin t) = k := by
      apply seek_eq _ k (by omega)
      · intro j hj hjk
        have := H.srt hjk hk; have := H.rng hj; omega
      · intro j hj hkj
        by_cases e : j = k
        · subst e; exact hge
        · have := H.ids (show k < j by omega) hj; omega
    have h1 : rangeMin cells[k] ≤ t := ule.mpr hc'.1
    have h2 : cells[k] ≥ t := ule.mpr (by omega)
    unfold locateCellID
    simp [hs, H.notDone hk, idAt_lt hk, h1, h2]
  · have hs : seek cells (rangeMin t) = k + 1 := by
      apply seek_eq _ (k+1) (by omega)
      · intro j hj hjk
        by_cases e : j = k
        · subst e; omega
        · have := H.ids (show j < k by omega) hk; omega
      · intro j hj hkj
        have := H.srt (show k < j by omega) hj; have := H.rng hj; omega
    have first : (!done cells (k+1) && (decide (idAt cells (k+1) ≥ t) && decide (rangeMin (idAt cells (k+1)) ≤ t))) = false := by
      by_cases hl : k + 1 < cells.length
      · have := H.srt (show k < k+1 by omega) hl
        have : ¬ rangeMin cells[k+1] ≤ t := by rw [ule]; omega
        simp [idAt_lt hl, this]
      · simp [done_ge (show cells.length ≤ k+1 by omega)]
    have second : (!done cells (k+1) && decide (idAt cells (k+1) ≤ rangeMax t)) = false := by
      by_cases hl : k + 1 < cells.length
      · have := H.srt (show k < k+1 by omega) hl
        have := H.rng hl
        have : ¬ cells[k+1] ≤ rangeMax t := by rw [ule]; omega
        simp [idAt_lt hl, this]
      · simp [done_ge (show cells.length ≤ k+1 by omega)]
    have h2 : rangeMax cells[k] ≥ t := ule.mpr hc'.2
    unfold locateCellID
    simp [hs, first, second, Locate.prev, idAt_lt hk, h2]

theorem locateCellID_subdivided (H : CellsOK cells) (t : CellID) (ht : rangeMin t ≤ t ∧ t ≤ rangeMax t)
    (hno : ∀ (k : Nat) (hk : k < cells.length), contains cells[k] t = false)
    (k0 : Nat) (hk0 : k0 < cells.length) (hc : contains t cells[k0] = true)
    (hmin : ∀ (j : Nat) (hj : j < cells.length), j < k0 → contains t cells[j] = false) :
    locateCellID cells t = (.subdivided, k0) := by
  have hc' := (contains_iff _ _).mp hc
  have rt : (rangeMin t).toNat ≤ t.toNat ∧ t.toNat ≤ (rangeMax t).toNat := by simpa [ule] using ht
  have hs : seek cells (rangeMin t) = k0 := by
    apply seek_eq _ k0 (by omega)
    · intro j hj hjk
      have a := H.ids hjk hk0
      have b := hmin j hj hjk
      by_cases c : (rangeMin t).toNat ≤ cells[j].toNat
      · have : contains t cells[j] = true := (contains_iff _ _).mpr ⟨c, by omega⟩
        rw [b] at this; cases this
      · omega
    · intro j hj hkj
      by_cases e : j = k0
      · subst e; exact hc'.1
      · have := H.ids (show k0 < j by omega) hj; omega
  have r := H.rng hk0
  have n := hno k0 hk0
  have first : (decide (cells[k0] ≥ t) && decide (rangeMin cells[k0] ≤ t)) = false := by
    by_cases a : cells[k0] ≥ t
    · by_cases b : rangeMin cells[k0] ≤ t
      · rw [ge_iff_le, ule] at a; rw [ule] at b
        have : contains cells[k0] t = true := (contains_iff _ _).mpr ⟨b, by omega⟩
        rw [n] at this; cases this
      · simp [b]
    · simp [a]
  have second : cells[k0] ≤ rangeMax t := ule.mpr hc'.2
  unfold locateCellID
  simp only [hs, H.notDone hk0, idAt_lt hk0, first, second]
  simp

theorem locateCellID_disjoint (H : CellsOK cells) (t : CellID) (ht : rangeMin t ≤ t ∧ t ≤ rangeMax t)
    (hno : ∀ (k : Nat) (hk : k < cells.length), contains cells[k] t = false)
    (hno' : ∀ (k : Nat) (hk : k < cells.length), contains t cells[k] = false) :
    (locateCellID cells t).1 = .disjoint := by
  have rt : (rangeMin t).toNat ≤ t.toNat ∧ t.toNat ≤ (rangeMax t).toNat := by simpa [ule] using ht
  obtain ⟨w1, w2, w3⟩ := seek_weak (cells := cells) (rangeMin t)
  have first : (!done cells (seek cells (rangeMin t)) && (decide (idAt cells (seek cells (rangeMin t)) ≥ t) &&
      decide (rangeMin (idAt cells (seek cells (rangeMin t))) ≤ t))) = false := by
    by_cases hl : seek cells (rangeMin t) < cells.length
    · have r := H.rng hl
      have n := hno _ hl
      rw [idAt_lt hl]
      by_cases a : cells[seek cells (rangeMin t)] ≥ t
      · by_cases b : rangeMin cells[seek cells (rangeMin t)] ≤ t
        · rw [ge_iff_le, ule] at a; rw [ule] at b
          have : contains cells[seek cells (rangeMin t)] t = true := (contains_iff _ _).mpr ⟨b, by omega⟩
          rw [n] at this; cases this
        · simp [b]
      · simp [a]
    · simp [done_ge (show cells.length ≤ seek cells (rangeMin t) by omega)]
  have second : (!done cells (seek cells (rangeMin t)) && decide (idAt cells (seek cells (rangeMin t)) ≤ rangeMax t)) = false := by
    by_cases hl : seek cells (rangeMin t) < cells.length
    · have a := w2 hl
      have n := hno' _ hl
      rw [idAt_lt hl]
      have : ¬ cells[seek cells (rangeMin t)] ≤ rangeMax t := by
        intro h; rw [ule] at h
        have : contains t cells[seek cells (rangeMin t)] = true := (contains_iff _ _).mpr ⟨a, h⟩
        rw [n] at this; cases this
      simp [this]
    · simp [done_ge (show cells.length ≤ seek cells (rangeMin t) by omega)]
  unfold locateCellID
  simp only [first, second]
  by_cases h0 : seek cells (rangeMin t) = 0
  · simp [h0, Locate.prev]
  · have hl : seek cells (rangeMin t) - 1 < cells.length := by omega
    have a := w3 (by omega) hl
    have r := H.rng hl
    have n := hno _ hl
    have : ¬ rangeMax cells[seek cells (rangeMin t) - 1] ≥ t := by
      intro h; rw [ge_iff_le, ule] at h
      have : contains cells[seek cells (rangeMin t) - 1] t = true := (contains_iff _ _).mpr ⟨by omega, h⟩
      rw [n] at this; cases this
    simp [Locate.prev, h0, idAt_lt hl, this]

/-- non-vacuity of the LocateCellID hypotheses: Indexed (a level-2 descendant of cell 0), Subdivided
    (face 0 contains cells 0 and 1), Disjoint (face 2) -/
example : TargetOK [0x0400000000000000, 0x1400000000000000, 0x3000000000000000] 0x0500000000000000 := by decide
example : locateCellID [0x0400000000000000, 0x1400000000000000, 0x3000000000000000] 0x0500000000000000 = (.indexed, 0) := by decide
example : locateCellID [0x0400000000000000, 0x1400000000000000, 0x3000000000000000] 0x1000000000000000 = (.subdivided, 0) := by decide
example : locateCellID [0x0400000000000000, 0x1400000000000000, 0x3000000000000000] 0x5000000000000000 = (.disjoint, 2) := by decide

end Locate

end S2Proofs.C06
