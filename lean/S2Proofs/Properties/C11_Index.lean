/-
  Property C11, part (e): the cell index (s2/cell_index.go) and the multi-way intersection finder
  (s2/s2intersect).  These are the theorems that were only `def … : Prop` + run-time judge before.

  Models: `S2/CellIndex.lean`, `S2/Intersect.lean`.  Helper files: `S2Proofs/CU/CellIndexStack.lean`
  (LIFO invariant of the stack walk), `S2Proofs/CU/CellIndexBuild.lean` (label tree ↔ abstract stack).

  Contract of `CellIndex.Add`: valid cell ids, labels ≥ 0 (Go panics on a negative label).
-/
import S2Proofs.Properties.C11
import S2Proofs.CU.CellIndexBuild
import S2Proofs.CU.ContentsIterBuild
import S2Proofs.CU.CellIndexExample
import S2Proofs.CU.CellIndexMaximal
import S2Proofs.CU.RangeIter
import S2Proofs.CU.SweepAll
import S2Proofs.CU.FindFinal
open S2 S2.CellID S2.CellUnion S2.CellIndex
namespace S2Proofs.C11
open S2Proofs S2Proofs.CIdx

/-! ## (1) `CellIndex.Build` -/

/-- The full statement `CellIndex_contents_correct` of `Properties/C11.lean` holds: for every list of
    (valid cell, label ≥ 0) pairs the range nodes of `Build` start at the first leaf, end at
    `End(MaxLevel)`, and for every range and EVERY leaf position `x` in it the parent chain of the
    range's `contents` node is — as a multiset — exactly `{(c,l) ∈ input | c contains x}`, and its label
    set is `labelsAt`. -/
theorem cellIndex_contents_correct : CellIndex_contents_correct :=
  S2Proofs.CIdx.build_contents_correct

/-- non-vacuity: a face cell twice (two labels), one of its children, a leaf of another face -/
example : ∀ p ∈ [((0x1000000000000000 : CellID), (3 : Int)), (0x1000000000000000, 1),
    (0x0400000000000000, 0), (0x3000000000000001, 7)], isValid p.1 = true ∧ 0 ≤ p.2 := by decide

/-- The same, spelled out on the arrays (what a client of the range iterator sees), plus the facts
    about the sentinel node and empty ranges:
    * at least two range nodes; start ids strictly increasing; first = `firstLeaf`, last = `endLeaf`;
    * the last node (the sentinel, not a range) has `contents = -1`;
    * for every range `p` (`p + 1 < size`) and every odd position `x` with
      `ranges[p].startID ≤ x < ranges[p+1].startID`: the chain of `ranges[p].contents` is a permutation
      of `pairsAt cells x`; in particular the range is empty (`contents = -1`, `IsEmpty`) iff no
      indexed cell contains `x`. -/
theorem cellIndex_build_spec (cells : List (CellID × Int))
    (h : ∀ p ∈ cells, isValid p.1 = true ∧ 0 ≤ p.2) :
    let ix := build cells
    2 ≤ ix.ranges.size ∧
    (starts ix.ranges).Pairwise (· < ·) ∧
    ix.ranges[0]!.startID = firstLeaf ∧
    ix.ranges[ix.ranges.size - 1]!.startID = endLeaf ∧
    ix.ranges[ix.ranges.size - 1]!.contents = -1 ∧
    ∀ p, p + 1 < ix.ranges.size → ∀ x, x % 2 = 1 →
      ix.ranges[p]!.startID.toNat ≤ x → x < ix.ranges[p+1]!.startID.toNat →
      (chain ix.tree (ix.tree.size + 1) ix.ranges[p]!.contents).Perm (pairsAt cells x) ∧
      (ix.ranges[p]!.contents = -1 ↔ pairsAt cells x = []) := by
  intro ix
  have hix : ix = build cells := rfl
  clear_value ix
  subst hix
  obtain ⟨hsz, hfirst, hlast, hempty⟩ := build_ends cells h
  obtain ⟨hw, hcb⟩ := build_wf cells
  have hch := build_chained cells h
  have hneg : ∀ i : Int, -1 ≤ i → i < ((build cells).tree.size : Int) →
      (stk (build cells).tree i = [] ↔ i = -1) := by
    intro i h1 h2
    constructor
    · intro he
      by_cases h0 : 0 ≤ i
      · rw [stk_cons hw i h0 h2] at he; simp at he
      · omega
    · intro he; exact stk_neg _ _ (by omega)
  have hcp : ∀ p, p < (build cells).ranges.size →
      -1 ≤ (build cells).ranges[p]!.contents ∧ (build cells).ranges[p]!.contents < ((build cells).tree.size : Int) := by
    intro p hp
    exact hcb _ (by rw [getElem!_pos _ p hp]; exact Array.getElem_mem_toList _)
  refine ⟨hsz, build_ranges_sorted cells, hfirst, hlast, ?_, ?_⟩
  · have := hcp ((build cells).ranges.size - 1) (by omega)
    exact (hneg _ this.1 this.2).mp hempty
  · intro p hp x hx hlo hhi
    have hc := hcp p (by omega)
    have hR := hch.get p (by rw [obsList_length]; omega)
    rw [obsList_get cells p (by omega), obsList_get cells (p+1) (by omega)] at hR
    have hperm := hR x hx hlo hhi
    simp only at hperm
    rw [chain_eq_stk hw _ hc.2]
    refine ⟨hperm, ?_⟩
    rw [← hneg _ hc.1 hc.2]
    constructor
    · intro he; rw [he] at hperm; simpa [pairsOf] using hperm.symm.eq_nil
    · intro he; rw [he] at hperm
      have := hperm.eq_nil
      simpa [pairsOf] using this


/-- (contract) the ranges are MAXIMAL: two consecutive ranges never have the same contents — some
    indexed pair is on exactly one of the two parent chains (every interior boundary is the first leaf
    of an indexed cell or the position right after the last leaf of one). -/
theorem cellIndex_ranges_maximal (cells : List (CellID × Int))
    (h : ∀ p ∈ cells, isValid p.1 = true ∧ 0 ≤ p.2) (p : Nat) (hp : p + 2 < (build cells).ranges.size) :
    ∃ q : CellID × Int,
      (q ∈ chain (build cells).tree ((build cells).tree.size + 1) (build cells).ranges[p]!.contents ∧
        q ∉ chain (build cells).tree ((build cells).tree.size + 1) (build cells).ranges[p+1]!.contents) ∨
      (q ∉ chain (build cells).tree ((build cells).tree.size + 1) (build cells).ranges[p]!.contents ∧
        q ∈ chain (build cells).tree ((build cells).tree.size + 1) (build cells).ranges[p+1]!.contents) := by
  have hok := build_indexOK cells
  rw [chain_eq_stk hok.wf _ (hok.contents p (by omega)).2, chain_eq_stk hok.wf _ (hok.contents (p+1) (by omega)).2]
  exact build_maximal cells h p hp

example : (∀ p ∈ cells0, isValid p.1 = true ∧ 0 ≤ p.2) ∧ 0 + 2 < (build cells0).ranges.size := by
  rw [build0]; decide +kernel

/-- (contract) every range start id is a leaf position (odd word) -/
theorem cellIndex_starts_odd (cells : List (CellID × Int))
    (h : ∀ p ∈ cells, isValid p.1 = true ∧ 0 ≤ p.2) (p : Nat) (hp : p < (build cells).ranges.size) :
    (build cells).ranges[p]!.startID.toNat % 2 = 1 :=
  build_start_odd cells h p hp

example : (∀ p ∈ cells0, isValid p.1 = true ∧ 0 ≤ p.2) ∧ 1 < (build cells0).ranges.size ∧
    (build cells0).ranges[1]!.startID = 0x0800000000000001 := by
  rw [build0]; decide +kernel

/-! ## (2) `CellIndexRangeIterator`  (details: `CU/RangeIter.lean`, 78 lemmas for arbitrary node arrays) -/

open S2Proofs.RIter in
/-- Plain iterator on a built index (ALL inputs): `Begin` followed by `k` × `Next` is, for `k < size-1`,
    not `Done` and reports the `k`-th range `(StartID, LimitID, contents)` of `rangeList`; after `size-1`
    `Next`s it is `Done`.  So Begin/Next/Done enumerates exactly the ranges, in order. -/
theorem rangeIter_enumerates (cells : List (CellID × Int)) :
    (List.range ((build cells).ranges.size - 1)).map (fun k =>
      let c := nexts k (RangeIter.new (build cells)).begin
      (c.startID, c.limitID, c.contents)) = rangeList (build cells) ∧
    (∀ k, k < (build cells).ranges.size - 1 → (nexts k (RangeIter.new (build cells)).begin).done = false) ∧
    (nexts ((build cells).ranges.size - 1) (RangeIter.new (build cells)).begin).done = true :=
  ⟨enumerate_plain_list _, fun k hk => (enumerate_plain _ k hk).1, enumerate_plain_done _⟩

open S2Proofs.RIter in
/-- `Seek(target)` of the plain iterator on a built index (ALL inputs), for every leaf-range word
    `firstLeaf ≤ target < endLeaf`: the iterator is not `Done` and `StartID ≤ target < LimitID`, i.e. it is
    positioned at THE range containing the target.  (The Go doc comment "first range with startID >=
    target" is wrong; see the `decide` example in `CU/RangeIter.lean`: starts 1,5,9,13,17, target 6 ↦
    position 1.)  Targets before the first / at or after the last node: `seek_plain_before/after`. -/
theorem rangeIter_seek (cells : List (CellID × Int)) (c : RangeIter) (hc : c.rn = (build cells).ranges)
    (hne : c.nonEmpty = false) (t : CellID) (h1 : firstLeaf ≤ t) (h2 : t < endLeaf) :
    (c.seek t).rn = c.rn ∧ 0 ≤ (c.seek t).pos ∧ (c.seek t).done = false ∧
      (c.seek t).startID ≤ t ∧ t < (c.seek t).limitID :=
  seek_build_plain cells c hc hne t h1 h2

example : firstLeaf ≤ (0x0400000000000001 : CellID) ∧ (0x0400000000000001 : CellID) < endLeaf := by decide

open S2Proofs.RIter in
/-- (contract) `Seek(t)` for a leaf cell `t`, then reading the contents: the parent chain of the range
    the iterator is positioned at is exactly (as a multiset) the set of indexed pairs whose cell contains
    the leaf `t`. -/
theorem rangeIter_seek_contents (cells : List (CellID × Int))
    (h : ∀ p ∈ cells, isValid p.1 = true ∧ 0 ≤ p.2) (t : CellID)
    (hodd : t.toNat % 2 = 1) (h1 : firstLeaf ≤ t) (h2 : t < endLeaf) :
    (chain (build cells).tree ((build cells).tree.size + 1) ((RangeIter.new (build cells)).seek t).contents).Perm
      (pairsAt cells t.toNat) := by
  obtain ⟨e, h0, hd, ha, hb⟩ := seek_build_plain cells (RangeIter.new (build cells)) rfl rfl t h1 h2
  generalize (RangeIter.new (build cells)).seek t = c at *
  have hrn : c.rn = (build cells).ranges := e
  simp only [RangeIter.done, ge_iff_le, decide_eq_false_iff_not, Int.not_le] at hd
  rw [hrn] at hd
  have hp : c.pos.toNat + 1 < (build cells).ranges.size := by omega
  have hspec := (cellIndex_build_spec cells h).2.2.2.2.2 c.pos.toNat hp t.toNat hodd
  simp only [RangeIter.startID, RangeIter.limitID, hrn] at ha hb
  have e1 : (c.pos + 1).toNat = c.pos.toNat + 1 := by omega
  rw [e1] at hb
  simp only [RangeIter.contents, hrn]
  exact (hspec (UInt64.le_iff_toNat_le.mp ha) (UInt64.lt_iff_toNat_lt.mp hb)).1

example : (∀ p ∈ cells0, isValid p.1 = true ∧ 0 ≤ p.2) ∧ (0x0400000000000001 : CellID).toNat % 2 = 1 ∧
    firstLeaf ≤ (0x0400000000000001 : CellID) ∧ (0x0400000000000001 : CellID) < endLeaf := by decide

open S2Proofs.RIter in
/-- Non-empty iterator on a built index (ALL inputs): the loop `for it.Begin(); !it.Done(); it.Next()`
    visits exactly the ranges with `contents ≠ -1` (by `cellIndex_build_spec`: the ranges that meet an
    indexed cell), in order, each once. -/
theorem rangeIter_nonEmpty_enumerates (cells : List (CellID × Int)) :
    (visited (build cells).ranges.size (RangeIter.newNonEmpty (build cells)).begin).map
        (fun c => (c.startID, c.limitID, c.contents)) =
      (rangeList (build cells)).filter (fun r => r.2.2 ≠ -1) :=
  visited_build_nonEmpty cells

open S2Proofs.RIter in
/-- `Seek(target)` of the non-empty iterator on a built index (ALL inputs): with `p` the range containing
    the target, the iterator is at the first non-empty range at or after `p`, or `Done` if there is none
    (`IsSkipTarget rn p q`: `q ≥ p` is the least position that is the sentinel or non-empty). -/
theorem rangeIter_nonEmpty_seek (cells : List (CellID × Int)) (c : RangeIter) (hc : c.rn = (build cells).ranges)
    (hne : c.nonEmpty = true) (t : CellID) (h1 : firstLeaf ≤ t) (h2 : t < endLeaf) :
    ∃ p : Nat, p + 1 < c.rn.size ∧ c.rn[p]!.startID ≤ t ∧ t < c.rn[p + 1]!.startID ∧
      IsSkipTarget c.rn p (c.seek t).pos :=
  seek_build_nonEmpty cells c hc hne t h1 h2

/-- non-vacuity: the non-empty iterator of the example index, target = a leaf of face 3 (empty range 2):
    `Seek` ends at the sentinel (Done) -/
example : (RangeIter.newNonEmpty (build cells0)).rn = (build cells0).ranges ∧
    (RangeIter.newNonEmpty (build cells0)).nonEmpty = true ∧
    firstLeaf ≤ (0x7000000000000001 : CellID) ∧ (0x7000000000000001 : CellID) < endLeaf ∧
    ((RangeIter.newNonEmpty (build cells0)).seek 0x7000000000000001).pos = 3 := by
  rw [build0]; decide +kernel

open S2Proofs.RIter in
/-- `Prev` of the non-empty iterator (any node array, position `0 ≤ pos ≤ size-1`): if `q` is the last
    non-empty range strictly before the current position the iterator moves there and reports true;
    if there is none it reports false and ends at position 0 followed — when range 0 is empty and not the
    sentinel — by one `Next()` (`restore`).  The two cases are exhaustive (`nonEmptyPrev_cases`). The
    position is restored exactly when the iterator stood at the first stop position
    (`nonEmptyPrev_at_first`); from an empty range reached via `Advance` it is NOT (oddity 3 below). -/
theorem rangeIter_nonEmpty_prev (c : RangeIter) (hne : c.nonEmpty = true) (h0 : 0 ≤ c.pos)
    (h1 : c.pos ≤ (c.rn.size : Int) - 1) :
    (∀ q : Int, 0 ≤ q → q < c.pos → c.rn[q.toNat]!.contents ≠ -1 →
        (∀ r : Int, q < r → r < c.pos → c.rn[r.toNat]!.contents = -1) → c.prev = ({ c with pos := q }, true)) ∧
    ((∀ r : Int, 0 ≤ r → r < c.pos → c.rn[r.toNat]!.contents = -1) →
        c.prev = (restore { c with pos := 0 }, false)) ∧
    (IsSkipTarget c.rn 0 c.pos → c.prev = (c, false)) := by
  rw [prev_nonEmpty c hne]
  exact ⟨fun q a b d e => nonEmptyPrev_found c h0 h1 q a b d e, fun hb => nonEmptyPrev_none c h0 h1 hb,
    fun hf => nonEmptyPrev_at_first c hne hf⟩

open S2Proofs.RIter in
example : (RangeIter.mk ex5 3 true).nonEmpty = true ∧ (0 : Int) ≤ (RangeIter.mk ex5 3 true).pos ∧
    (RangeIter.mk ex5 3 true).pos ≤ ((RangeIter.mk ex5 3 true).rn.size : Int) - 1 ∧
    (RangeIter.mk ex5 3 true).prev = (RangeIter.mk ex5 1 true, true) := by
  refine ⟨rfl, by decide, by decide, ?_⟩
  rw [prev_nonEmpty _ rfl]
  exact nonEmptyPrev_found _ (by decide) (by decide) 1 (by decide) (by decide) (by decide)
    (fun r a b => by have b' : r < 3 := b
                     have : r = 2 := by omega
                     subst this; decide)

/-! ## (3) `CellIndexContentsIterator`

What the code guarantees (read off `StartUnion` / `Next`, proved in `CU/ContentsIter.lean`): the iterator
keeps `(nodeCutoff, prevStartID)`; `StartUnion(r)` first RESETS `nodeCutoff` to `-1` when
`r.StartID() < prevStartID`; the following `Next` loop reports the nodes of `r`'s parent chain whose
TREE INDEX is larger than `nodeCutoff` (a prefix of the chain, since indices decrease along it); afterwards
`nodeCutoff = max(nodeCutoff, r.contents)` and `prevStartID = r.StartID()`.  `Clear` = fresh iterator.
`specSweep ix (-1, 0) ps` is this fold, `sweep ix ps` is the model of the Go calls. -/

/-- ANY sequence of `StartUnion` calls (increasing, decreasing, zig-zag, repeated) on one fresh iterator
    over an index built from ANY input: the reported pairs are exactly those given by the fold
    `specSweep` (chain entries above the current cutoff; cutoff reset when the start id decreases). -/
theorem contentsIter_sweep_spec (cells : List (CellID × Int)) (ps : List Nat)
    (hps : ∀ p ∈ ps, p < (build cells).ranges.size) :
    sweep (build cells) ps = (specSweep (build cells) (-1, 0) ps).map pairsOf :=
  sweep_spec _ (build_indexOK cells) ps hps

/-- non-vacuity and the three regimes on a concrete index (face 0 with label 3, its child 0 with label 0;
    ranges: 0 = child 0, 1 = rest of face 0, 2 = faces 1..5 (empty), 3 = sentinel):
    increasing order de-duplicates, a repeated visit reports nothing, going back resets. -/
example :
    (∀ p ∈ cells0, isValid p.1 = true ∧ 0 ≤ p.2) ∧ (build cells0).ranges.size = 4 ∧
    sweep (build cells0) [0, 1, 2] =
      [[(0x0400000000000000, 0), (0x1000000000000000, 3)], [], []] ∧
    sweep (build cells0) [1, 1, 0, 1] =
      [[(0x1000000000000000, 3)], [], [(0x0400000000000000, 0), (0x1000000000000000, 3)], []] := by
  rw [build0]; decide +kernel

/-- A FRESH contents iterator (or one after `Clear`) positioned on range `p` reports the whole parent
    chain of the range (all inputs); under the contract this is, at every leaf `x` of the range, exactly
    the multiset of indexed pairs whose cell contains `x`. -/
theorem contentsIter_fresh (cells : List (CellID × Int)) (p : Nat) (hp : p + 1 < (build cells).ranges.size) :
    ((ContentsIter.new (build cells)).visit (rangeAt (build cells) p)).2 =
        chain (build cells).tree ((build cells).tree.size + 1) (build cells).ranges[p]!.contents ∧
    ((∀ q ∈ cells, isValid q.1 = true ∧ 0 ≤ q.2) → ∀ x, x % 2 = 1 →
      (build cells).ranges[p]!.startID.toNat ≤ x → x < (build cells).ranges[p+1]!.startID.toNat →
      ((ContentsIter.new (build cells)).visit (rangeAt (build cells) p)).2.Perm (pairsAt cells x)) := by
  have hok := build_indexOK cells
  have hk := hok.contents p (by omega)
  have hv := (visit_spec hok.wf hok.labels (ContentsIter.new (build cells)) (rangeAt (build cells) p) rfl
    (by simp [ContentsIter.new]) (by rw [rangeAt_contents]; exact hk)).1
  have he : effCut (ContentsIter.new (build cells)).nodeCutoff (ContentsIter.new (build cells)).prevStartID
      (rangeAt (build cells) p).startID = -1 := by
    unfold effCut; simp [ContentsIter.new]
  rw [he, rangeAt_contents, above_all] at hv
  have hc : ((ContentsIter.new (build cells)).visit (rangeAt (build cells) p)).2 =
      chain (build cells).tree ((build cells).tree.size + 1) (build cells).ranges[p]!.contents := by
    rw [hv, chain_eq_stk hok.wf _ hk.2]
  refine ⟨hc, fun h x hx hlo hhi => ?_⟩
  rw [hc]
  exact ((cellIndex_build_spec cells h).2.2.2.2.2 p hp x hx hlo hhi).1

example : (1 : Nat) + 1 < (build cells0).ranges.size := by
  rw [build0]; decide +kernel

/-- ONE iterator, ranges visited in NON-DECREASING order (all inputs, with node identities): the reports
    are the `pairsOf` of lists of tree nodes `outs` such that no tree node occurs twice in all of `outs`
    and a node is reported iff it lies on the chain of one of the visited ranges. -/
theorem contentsIter_increasing_nodes (cells : List (CellID × Int)) (ps : List Nat)
    (hsorted : ps.Pairwise (· ≤ ·)) (hps : ∀ p ∈ ps, p < (build cells).ranges.size) :
    ∃ outs : List (List Ent), sweep (build cells) ps = outs.map pairsOf ∧ outs.flatten.Nodup ∧
      ∀ e, e ∈ outs.flatten ↔ ∃ p ∈ ps, e ∈ stk (build cells).tree (build cells).ranges[p]!.contents := by
  have hok := build_indexOK cells
  refine ⟨incSweep (build cells) (-1) ps, ?_, incSweep_nodup _ hok (build_Mono cells) ps (-1) hsorted hps, ?_⟩
  · rw [sweep_spec _ hok ps hps,
      specSweep_inc _ (build_ranges_sorted cells) ps (-1) 0 hsorted hps (fun _ _ => by simp)]
  · intro e
    rw [incSweep_mem _ (build_Mono cells) ps (-1) hsorted hps e]
    have : (0 : Int) ≤ (e.1 : Int) := Int.natCast_nonneg _
    constructor
    · rintro ⟨_, h⟩; exact h
    · intro h; exact ⟨by omega, h⟩

example : [0, 1, 1, 2].Pairwise (· ≤ ·) ∧
    ∀ p ∈ [0, 1, 1, 2], p < (build cells0).ranges.size := by
  rw [build0]; decide +kernel

/-- ONE iterator, ranges visited in NON-DECREASING order, under the contract; `xs p` is any leaf of range
    `p`: the concatenation of everything reported is — as a multiset — the list of the indexed pairs
    whose cell contains one of the chosen leaves: each such `(cell, label)` pair is reported exactly as
    often as it was added ("exactly once"), pairs meeting none of the visited ranges are not reported. -/
theorem contentsIter_increasing (cells : List (CellID × Int)) (h : ∀ q ∈ cells, isValid q.1 = true ∧ 0 ≤ q.2)
    (ps : List Nat) (xs : Nat → Nat) (hsorted : ps.Pairwise (· ≤ ·))
    (hps : ∀ p ∈ ps, p + 1 < (build cells).ranges.size ∧ xs p % 2 = 1 ∧
      (build cells).ranges[p]!.startID.toNat ≤ xs p ∧ xs p < (build cells).ranges[p+1]!.startID.toNat) :
    (sweep (build cells) ps).flatten.Perm (cells.filter fun c => ps.any fun p => inCell (xs p) c) :=
  sweep_increasing cells h ps xs hsorted hps

/-- non-vacuity: ranges 0 and 2 of the example index with leaves `1` and `0x2000000000000001` -/
example : [0, 2].Pairwise (· ≤ ·) ∧
    ∀ p ∈ [0, 2], p + 1 < (build cells0).ranges.size ∧
      (fun p => if p = 0 then 1 else 0x2000000000000001) p % 2 = 1 ∧
      (build cells0).ranges[p]!.startID.toNat ≤
        (fun p => if p = 0 then 1 else 0x2000000000000001) p ∧
      (fun p => if p = 0 then 1 else 0x2000000000000001) p <
        (build cells0).ranges[p+1]!.startID.toNat := by
  rw [build0]; decide +kernel

/-- The canonical client loop — a (plain or non-empty) range iterator from `Begin` to `Done` with ONE
    contents iterator (`sweepIter`) — under the contract: all reports together are a permutation of the
    indexed pairs, i.e. every `(cell, label)` pair is reported EXACTLY as often as it was added (the C++
    guarantee "each (cell, label) pair is reported exactly once when ranges are visited in increasing
    order"). -/
theorem contentsIter_sweep_all (cells : List (CellID × Int)) (h : ∀ q ∈ cells, isValid q.1 = true ∧ 0 ≤ q.2)
    (nonEmpty : Bool) :
    ((sweepIter (build cells) nonEmpty).map (·.2.2)).flatten.Perm cells :=
  sweepIter_all_perm cells h nonEmpty

example : (∀ p ∈ cells0, isValid p.1 = true ∧ 0 ≤ p.2) ∧
    (sweepIter (build cells0) false).map (·.2.2) =
      [[(0x0400000000000000, 0), (0x1000000000000000, 3)], [], []] ∧
    (sweepIter (build cells0) true).map (·.2.2) = [[(0x0400000000000000, 0), (0x1000000000000000, 3)], []] := by
  rw [build0]; decide +kernel

/-! ## (4) `s2intersect.Find`  (proofs: `CU/Find*.lean`, namespace `S2Proofs.FindP`) -/

open S2.Intersect in
/-- The full statement `Find_correct` of `Properties/C11.lean` holds: for every list of unions of valid
    cells (not necessarily sorted or normalized; `Find` normalizes them), every result entry has ≥ 2 indices;
    a leaf covered by an entry with index list `S` has `S = {i | x ∈ cus[i]}`; every leaf covered by ≥ 2
    unions is covered by the entry whose index list is exactly its covering set. -/
theorem find_correct : Find_correct := S2Proofs.FindP.find_correct

example : ∀ cu ∈ S2Proofs.FindP.docCus, AllValid cu := by
  intro cu hcu
  simp only [S2Proofs.FindP.docCus, List.mem_cons, List.not_mem_nil, or_false] at hcu
  rcases hcu with rfl | rfl | rfl <;> decide

open S2.Intersect in
/-- Shape of the result: every entry's cell union is normalized; its index list is strictly increasing
    with all indices `< cus.length`; distinct entries have distinct index lists. -/
theorem find_shape (cus : List CU) (hv : ∀ cu ∈ cus, AllValid cu) :
    (∀ r ∈ find cus, isNormalizedCU r.cells = true ∧ r.indices.Pairwise (· < ·) ∧
        ∀ i ∈ r.indices, i < cus.length) ∧
    (find cus).Pairwise (fun a b => a.indices ≠ b.indices) :=
  S2Proofs.FindP.find_shape cus hv

open S2.Intersect in
/-- Exact coverage: a leaf lies in some result entry iff at least two unions cover it. -/
theorem find_covers_iff (cus : List CU) (hv : ∀ cu ∈ cus, AllValid cu) (x : Nat) (hx : x % 2 = 1) :
    (∃ r ∈ find cus, coversLeaf r.cells x = true) ↔ 2 ≤ (coveringAt cus x).length :=
  S2Proofs.FindP.find_covers_iff cus hv x hx

open S2.Intersect in
/-- Disjointness: two different entries never share a leaf. -/
theorem find_disjoint (cus : List CU) (hv : ∀ cu ∈ cus, AllValid cu) :
    (find cus).Pairwise (fun a b => ∀ x, x % 2 = 1 →
      ¬ (coversLeaf a.cells x = true ∧ coversLeaf b.cells x = true)) :=
  S2Proofs.FindP.find_disjoint cus hv

open S2.Intersect in
/-- THE ODDITY (what the code does, not a violation of the leaf-set semantics): for the four valid,
    normalized unions `[[3],[3,5],[3,5],[5]]` (leaf ids) `Find` returns an entry with index set `{1,2}` and
    an EMPTY cell union — no leaf is covered by exactly the unions 1 and 2. -/
theorem find_empty_entry_example :
    (∀ cu ∈ S2Proofs.FindP.oddCus, isNormalizedCU cu = true) ∧
    find S2Proofs.FindP.oddCus =
      [{ indices := [0, 1, 2], cells := [3] }, { indices := [1, 2], cells := [] },
       { indices := [1, 2, 3], cells := [5] }] :=
  ⟨S2Proofs.FindP.find_empty_entry.1, S2Proofs.FindP.find_oddCus⟩

open S2.Intersect in
/-- the example of the Go doc comment of `Find` (leaf `k` of the picture = leaf id `2k+1`) -/
theorem find_doc_example : find S2Proofs.FindP.docCus =
    [{ indices := [0, 1, 2], cells := [1, 3, 15] }, { indices := [0, 2], cells := [5, 7, 13] },
     { indices := [1, 2], cells := [21] }] :=
  S2Proofs.FindP.find_docCus

end S2Proofs.C11
