/-
  Property C04 — one face at one level, ALL levels k ≤ 30: the cell loops built from the real float vertices
  (`Cell.Vertex` = `faceUVToXYZ(f, stToUV(i/2^k), stToUV(j/2^k)).Normalize()`, array `C04Grid.gridV f k`) are convex
  quadrilaterals for the exact predicate and pairwise edge-separated, so at most one of the 4^k loops of the face
  contains a point (`face_cells_count_le_one_exact`, no hypothesis beyond the input class of the point).

  FINDING about the plan (not about the code): c04tiling2's `GridHyp` — "every grid vertex two or more rows above the
  top edge of a cell is strictly on its outer side", also for vertices far to the left or right — is FALSE for the real
  vertex array at level 30 (`gridHyp_false_level30`, kernel-evaluated on the model): the great circle through the two
  endpoints of a 2^-30-long edge is tilted by the independent 2^-53 roundings of the endpoints (up to 2^-22) and is off by
  hundreds of cell widths half a face away.  Replaced by `ConeHyp` (`C04Grid/Cone.lean`): the same three families, only
  for vertices inside the slope-one cone around the edge; still enough for `edgeSep` of every pair of cells
  (`cone_pair_edgeSep_exact`), and TRUE for every face and level (`gridV_coneHyp`):

    * `C04Grid.gridV_decomp`: the float vertex is `s·((u_i, v_j, 1) + ν)` in the face frame, `s > 0`, `|ν| ≤ 2^-51`
      (c16acc's `scaleSpec` for `Normalize`), `u_i`, `v_j` the float grid coordinates;
    * `C04Grid.grid_gap`: consecutive float grid coordinates are between `2^-31` and `2^-28` apart per leaf step;
    * `C04Grid.det_main`: hence the exact determinant of an edge along a grid line and a vertex `d ≥ 1` cells off the line
      and at most `3d` cells along it has the sign of the exact uv configuration (`exact_H_pos` … `exact_V_neg`);
    * `C04Grid.ptOK_of_unitish`: the reference direction `s2Ortho` of every finite vector of length `1 ± 2^-40` is finite
      and not `==` to it (c16acc's `vcross_facts`), so `RefOK` holds (`refOK_holds`).

  §1 the counterexample to `GridHyp`; §2 `ConeHyp`, count ≤ 1 (and ≤ 2 at vertices) for one face, all levels; §2b the
  input class for `OriginPoint()`; §3 the array IS what `Cell.Vertex` computes (`cell_vertices_eq_gridV`: shared
  vertices are bit-identical within a face), every valid cell id gives a `CellQuad` (`cellQ_ok`), cells of one face and
  level are disjoint (`same_face_cells_disjoint_exact`); §3b the twelve cube edges: the boundary vertices of the two
  faces are the same floats or ±0 twins (`cubeEdge_XY`, from the float antisymmetry of `stToUV`, `C04Grid.stToUV_R`), the
  two cells facing each other across a cube edge are edge-separated (`across_edge_XY_edgeSep`); §3c ADJACENT faces: a cell at least two cells away from the common cube edge is
  separated from EVERY cell of the other face by a LONG grid line (no lever arm), all 24 ordered pairs; §3d OPPOSITE faces:
  always separated (an interior line of a third face); §4 non-vacuity
  (level 30 included).

  NOT done: exactly-once (a single face is not a closed family: needs the six faces together); cells of adjacent faces
  that are BOTH within two cells of the common cube edge and do not face each other (the general
  assembly lemma `cells_count_le_one_of_disjoint` takes any pairwise exclusion); the pairing of the directed edges
  (`PairOK`) for general k; origin bits.
-/
import S2Proofs.C04Grid.Cone
import S2Proofs.C04Grid.Orient
import S2Proofs.C04Grid.RefDir
import S2Proofs.C04Grid.CrossFace
import S2Proofs.C04Grid.Antisym
import S2Proofs.C04Grid.HilbertInj
import S2Proofs.C03Zero.Twin
import S2Proofs.Properties.C12
import S2Proofs.Properties.C04_Tiling2_Vertex

set_option linter.unusedSimpArgs false
set_option linter.unusedVariables false

namespace S2Proofs.C04
open S2 S2.Contain S2.Pred S2.Exact S2Proofs.Contain S2Proofs.F64Order S2Proofs.ExactLaws S2Proofs.C04Grid

/-! ## 1. `GridHyp` is false for the real vertices at level 30 -/

/-- the top edge of the level-30 cell `(2^30 − 5, 2^30 − 7)` of face 0 against the vertex `(0, 2^30 − 5)`, two rows
    above it at the other end of the face: the vertex is on the INNER side of the edge's great circle -/
theorem top_orientation_far_level30 :
    exactDecision (gridV 0 30 (1073741819 + 1) (1073741817 + 1)) (gridV 0 30 1073741819 (1073741817 + 1))
      (gridV 0 30 0 1073741819) = 1 := by decide +kernel

/-- **`GridHyp` does not hold for the level-30 vertices of face 0** -/
theorem gridHyp_false_level30 : ¬ GridHyp (gridV 0 30) (2 ^ 30) := by
  intro h
  have := h.top 1073741819 1073741817 0 1073741819 (by norm_num) (by norm_num) (by norm_num) (by norm_num) (by norm_num)
  rw [top_orientation_far_level30] at this
  exact absurd this (by decide)

/-! ## 2. `ConeHyp` for the real vertices, every level -/

/-- the reference directions of the grid vertices are usable (`PtOK`: finite, `s2Ortho` finite and not `==`) -/
def RefOK (f k : Nat) : Prop := ∀ i, i ≤ 2 ^ k → ∀ j, j ≤ 2 ^ k → PtOK (gridV f k i j)

instance (f k : Nat) : Decidable (RefOK f k) := by unfold RefOK; infer_instance

/-- **`RefOK` holds for every face and every level**: a cell vertex has length within `10u` of 1 (`gridV_len`), and the
    reference direction of every finite vector of length `1 ± 2^-40` is finite and not `==` to it (`ptOK_of_unitish`) -/
theorem refOK_holds (f k : Nat) (hk : k ≤ 30) : RefOK f k :=
  fun i hi j hj => ptOK_gridV f k i j hk hi hj

private theorem nfeq_of {a b c : V3} (ha : Fin3 a) (hb : Fin3 b) (hc : Fin3 c) (h : exactDecision a b c = 1) :
    V3.feq a b = false ∧ V3.feq b c = false ∧ V3.feq c a = false := by
  have h0 : ¬ exactDecision a b c = 0 := by rw [h]; decide
  rw [E_zero_iff ha hb hc] at h0
  simpa [not_or] using h0

/-- **every cell of the grid is a convex counter-clockwise quadrilateral** (`CellQuad`), all levels -/
theorem gridV_cell_ok (f k : Nat) (hk : k ≤ 30) {i j : Nat} (hi : i < 2 ^ k) (hj : j < 2 ^ k) :
    (gcell (gridV f k) i j).OK := by
  have F0 := fin_gridV f k hk (Nat.le_of_lt hi) (Nat.le_of_lt hj)
  have F1 := fin_gridV f k hk (Nat.succ_le_of_lt hi) (Nat.le_of_lt hj)
  have F2 := fin_gridV f k hk (Nat.succ_le_of_lt hi) (Nat.succ_le_of_lt hj)
  have F3 := fin_gridV f k hk (Nat.le_of_lt hi) (Nat.succ_le_of_lt hj)
  have c0 : exactDecision (gridV f k i j) (gridV f k (i + 1) j) (gridV f k (i + 1) (j + 1)) = 1 :=
    exact_H_pos f k hk (d := 1) (by omega) (by omega) (by omega) (by omega) (by omega) (le_refl _) (Or.inl rfl)
      (by omega) (by omega) (Or.inl ⟨by omega, by omega⟩)
  have c1 : exactDecision (gridV f k (i + 1) j) (gridV f k (i + 1) (j + 1)) (gridV f k i (j + 1)) = 1 :=
    exact_V_pos f k hk (d := 1) (by omega) (by omega) (by omega) (by omega) (by omega) (le_refl _) (Or.inr rfl)
      (by omega) (by omega) (Or.inl ⟨by omega, by omega⟩)
  have c2 : exactDecision (gridV f k (i + 1) (j + 1)) (gridV f k i (j + 1)) (gridV f k i j) = 1 :=
    exact_H_pos f k hk (d := 1) (by omega) (by omega) (by omega) (by omega) (by omega) (le_refl _) (Or.inr rfl)
      (by omega) (by omega) (Or.inr ⟨by omega, by omega⟩)
  have c3 : exactDecision (gridV f k i (j + 1)) (gridV f k i j) (gridV f k (i + 1) j) = 1 :=
    exact_V_pos f k hk (d := 1) (by omega) (by omega) (by omega) (by omega) (by omega) (le_refl _) (Or.inl rfl)
      (by omega) (by omega) (Or.inr ⟨by omega, by omega⟩)
  obtain ⟨n01, n12, n20⟩ := nfeq_of F0 F1 F2 c0
  obtain ⟨-, n23, n31⟩ := nfeq_of F1 F2 F3 c1
  obtain ⟨-, n30, n02⟩ := nfeq_of F2 F3 F0 c2
  obtain ⟨-, -, n13⟩ := nfeq_of F3 F0 F1 c3
  obtain ⟨-, r1, r2⟩ := refOK_holds f k hk (i + 1) (Nat.succ_le_of_lt hi) j (Nat.le_of_lt hj)
  have n03 : V3.feq (gridV f k i j) (gridV f k i (j + 1)) = false := by rw [feq_comm F0 F3]; exact n30
  exact ⟨F0, F1, F2, F3, r1, n01, n02, n03, n12, n13, n23, r2, c0, c1, c2, c3⟩

/-- **`ConeHyp` holds for the float vertex array of every face at every level** (given `RefOK`) -/
theorem gridV_coneHyp (f k : Nat) (hk : k ≤ 30) : ConeHyp (gridV f k) (2 ^ k) where
  ok := fun i j hi hj => gridV_cell_ok f k hk hi hj
  top := fun i j a b hi hj ha hb h1 h2 h3 =>
    exact_H_neg f k hk (iA := i + 1) (iB := i) (jc := j + 1) (iW := a) (jW := b) (d := b - (j + 1))
      (by omega) (by omega) (by omega) ha hb (by omega) (Or.inl (by omega)) (by omega) (by omega)
      (Or.inr ⟨by omega, by omega⟩)
  bot := fun i j a b hi hj ha hb h1 h2 h3 =>
    exact_H_neg f k hk (iA := i) (iB := i + 1) (jc := j) (iW := a) (jW := b) (d := j - b)
      (by omega) (by omega) (by omega) ha hb (by omega) (Or.inr (by omega)) (by omega) (by omega)
      (Or.inl ⟨by omega, by omega⟩)
  right := fun i j a b hi hj ha hb h1 h2 h3 =>
    exact_V_neg f k hk (ic := i + 1) (jA := j) (jB := j + 1) (iW := a) (jW := b) (d := a - (i + 1))
      (by omega) (by omega) (by omega) ha hb (by omega) (Or.inl (by omega)) (by omega) (by omega)
      (Or.inl ⟨by omega, by omega⟩)

/-- every two cells of one face at one level are separated by the great circle of one of their eight edges -/
theorem face_cells_edgeSepAll_exact (f k : Nat) (hk : k ≤ 30) :
    edgeSepAll (gridCells (gridV f k) (2 ^ k)) = true :=
  cone_edgeSepAll_exact (gridV_coneHyp f k hk)

/-- **The 4^k cell loops of one face at level k (any k ≤ 30), built from the real float vertices: at most one
    contains p**, for every point of the input class that is not `==` to a grid vertex (points exactly on cell edges
    included). -/
theorem face_cells_count_le_one_exact (f k : Nat) (hk : k ≤ 30) {o p : V3}
    (hd : FamilyDom o (gridCells (gridV f k) (2 ^ k)) p) :
    containCount o ((gridCells (gridV f k) (2 ^ k)).map (Q4.loop o)) p ≤ 1 :=
  cone_cells_count_le_one_exact (gridV_coneHyp f k hk) hd

/-- two cells of the same face and level never both have `p` on their inner side (`p` off their vertices) -/
theorem face_cells_disjoint_exact (f k : Nat) (hk : k ≤ 30) {i j i' j' : Nat} (hi : i < 2 ^ k)
    (hj : j < 2 ^ k) (hi' : i' < 2 ^ k) (hj' : j' < 2 ^ k) (hlt : i < i' ∨ (i = i' ∧ j < j')) :
    edgeSep (gcell (gridV f k) i j) (gcell (gridV f k) i' j') = true :=
  cone_pair_edgeSep_exact (gridV_coneHyp f k hk) hi hj hi' hj' hlt


theorem mem_gridCells {V : Nat → Nat → V3} {n : Nat} {q : Q4} :
    q ∈ gridCells V n ↔ ∃ i, i < n ∧ ∃ j, j < n ∧ q = gcell V i j := by
  simp only [gridCells, List.mem_flatMap, List.mem_map, List.mem_range]
  constructor
  · rintro ⟨i, hi, j, hj, rfl⟩; exact ⟨i, hi, j, hj, rfl⟩
  · rintro ⟨i, hi, j, hj, rfl⟩; exact ⟨i, hi, j, hj, rfl⟩

/-- the input class of the theorem stated on the vertices: `o`, `p` usable, and every grid vertex compatible with `o`
    and not `==` to `p` -/
theorem face_familyDom (f k : Nat) (hk : k ≤ 30) {o p : V3} (ho : PtOK o) (hp : PtOK p)
    (hop : Compat o p)
    (hv : ∀ i, i ≤ 2 ^ k → ∀ j, j ≤ 2 ^ k → Compat o (gridV f k i j) ∧ V3.feq (gridV f k i j) p = false) :
    FamilyDom o (gridCells (gridV f k) (2 ^ k)) p := by
  refine ⟨ho, hp, hop, fun q hq => ?_⟩
  obtain ⟨i, hi, j, hj, rfl⟩ := mem_gridCells.1 hq
  refine ⟨gridV_cell_ok f k hk hi hj, (hv (i + 1) (by omega) j (by omega)).1, fun x hx => ?_⟩
  simp only [Q4.verts, gcell, List.mem_cons, List.not_mem_nil, or_false] at hx
  rcases hx with rfl | rfl | rfl | rfl
  · exact (hv i (by omega) j (by omega)).2
  · exact (hv (i + 1) (by omega) j (by omega)).2
  · exact (hv (i + 1) (by omega) (j + 1) (by omega)).2
  · exact (hv i (by omega) (j + 1) (by omega)).2

/-- `face_cells_count_le_one_exact` with the input class stated on the vertices -/
theorem face_cells_count_le_one_of_vertices (f k : Nat) (hk : k ≤ 30) {o p : V3} (ho : PtOK o)
    (hp : PtOK p) (hop : Compat o p)
    (hv : ∀ i, i ≤ 2 ^ k → ∀ j, j ≤ 2 ^ k → Compat o (gridV f k i j) ∧ V3.feq (gridV f k i j) p = false) :
    containCount o ((gridCells (gridV f k) (2 ^ k)).map (Q4.loop o)) p ≤ 1 :=
  face_cells_count_le_one_exact f k hk (face_familyDom f k hk ho hp hop hv)


/-! ## 2b. the input class for the usual reference point -/

/-- a reference point without zero coordinates is compatible with every finite point (a `==` point is the same vector) -/
theorem compat_of_nonzero {o v : V3} (ho : Fin3 o) (hv : Fin3 v) (hr : Fin3 (s2Ortho o))
    (hz : toInt o.x ≠ 0 ∧ toInt o.y ≠ 0 ∧ toInt o.z ≠ 0) : Compat o v := by
  cases h : V3.feq o v
  · exact Or.inl h
  · right
    have e := (v3feq_iff ho hv).1 h
    simp only [ofV3, IV3.mk.injEq] at e
    have z0 : toInt (F64.zero true) = 0 := by decide
    have nz : ∀ {a b : F64}, toInt a ≠ 0 → toInt a = toInt b → a = b := by
      intro a b ha hab
      refine S2Proofs.F64Inj.toInt_inj hab (fun h0 => ha (by rw [h0, z0])) (fun h0 => ha (by rw [hab, h0, z0]))
    have : o = v := by
      cases o; cases v
      simp only [V3.mk.injEq]
      exact ⟨nz hz.1 e.1, nz hz.2.1 e.2.1, nz hz.2.2 e.2.2⟩
    rw [← this]; exact feq_refl hr

/-- `OriginPoint()` is compatible with every finite point -/
theorem compat_originPoint {v : V3} (hv : Fin3 v) : Compat originPoint v :=
  compat_of_nonzero (by decide +kernel) hv (by decide +kernel) (by decide +kernel)

/-- a point whose length is not within `2^-40` of 1 is not `==` to any cell vertex -/
theorem offVerts_of_len (f k : Nat) (hk : k ≤ 30) {p : V3} (hp : Fin3 p)
    (h : 1 + 1 / 2 ^ 40 < (S2Proofs.C16Acc.ofV p).norm ∨ (S2Proofs.C16Acc.ofV p).norm < 1 - 1 / 2 ^ 40) :
    ∀ i, i ≤ 2 ^ k → ∀ j, j ≤ 2 ^ k → V3.feq (gridV f k i j) p = false := by
  intro i hi j hj
  cases hq : V3.feq (gridV f k i j) p
  · rfl
  · exfalso
    have e := ofV_eq_of_feq (fin_gridV f k hk hi hj) hp hq
    have hl := abs_le.mp (gridV_len f k i j hk hi hj)
    have hu : 10 * S2Proofs.FloatErr.uR ≤ 1 / 2 ^ 40 := by unfold S2Proofs.FloatErr.uR; norm_num
    rw [e] at hl
    rcases h with h | h <;> linarith

/-- **count ≤ 1 with the reference point `OriginPoint()`**: the only conditions left are on `p` — usable (`PtOK`),
    compatible with the origin, not `==` to a grid vertex -/
theorem face_cells_count_le_one_origin (f k : Nat) (hk : k ≤ 30) {p : V3} (hp : PtOK p)
    (hop : Compat originPoint p) (hoff : ∀ i, i ≤ 2 ^ k → ∀ j, j ≤ 2 ^ k → V3.feq (gridV f k i j) p = false) :
    containCount originPoint ((gridCells (gridV f k) (2 ^ k)).map (Q4.loop originPoint)) p ≤ 1 :=
  face_cells_count_le_one_of_vertices f k hk (by decide +kernel) hp hop
    (fun i hi j hj => ⟨compat_originPoint (fin_gridV f k hk hi hj), hoff i hi j hj⟩)

/-- **also AT the vertices: at most two** cell loops of the face contain p (at most one of the cells around p — the
    vertex rule — and at most one other), p possibly `==` to grid vertices -/
theorem face_cells_count_le_two_exact (f k : Nat) (hk : k ≤ 30) {o p : V3} (ho : PtOK o) (hp : PtOK p)
    (hop : Compat o p)
    (hv : ∀ i, i ≤ 2 ^ k → ∀ j, j ≤ 2 ^ k → Compat o (gridV f k i j) ∧ Compat (gridV f k i j) p ∧
      V3.feq (s2Ortho p) (gridV f k i j) = false) :
    containCount o ((gridCells (gridV f k) (2 ^ k)).map (Q4.loop o)) p ≤ 2 := by
  refine cells_count_le_two_exact ho hp hop (fun q hq => ?_) (face_cells_edgeSepAll_exact f k hk)
  obtain ⟨i, hi, j, hj, rfl⟩ := mem_gridCells.1 hq
  refine ⟨gridV_cell_ok f k hk hi hj, fun x hx => ?_⟩
  simp only [Q4.verts, gcell, List.mem_cons, List.not_mem_nil, or_false] at hx
  have R := refOK_holds f k hk
  rcases hx with rfl | rfl | rfl | rfl
  · exact ⟨R i (by omega) j (by omega), hv i (by omega) j (by omega)⟩
  · exact ⟨R (i + 1) (by omega) j (by omega), hv (i + 1) (by omega) j (by omega)⟩
  · exact ⟨R (i + 1) (by omega) (j + 1) (by omega), hv (i + 1) (by omega) (j + 1) (by omega)⟩
  · exact ⟨R i (by omega) (j + 1) (by omega), hv i (by omega) (j + 1) (by omega)⟩

/-! ## 3. the array IS what `Cell.Vertex` computes -/

open S2.CellID S2.CellM in
/-- **the four `Cell.Vertex(k)` of the cell of id `x` (level `n`, ij-square `(I, J)`) are the entries
    `(I,J)`, `(I+1,J)`, `(I+1,J+1)`, `(I,J+1)` of the face's array** — neighbouring cells read the same entries, so
    shared vertices are bit-identical within a face -/
theorem cell_vertices_eq_gridV {x : CellID} {n : Nat} (hx : IsCell x n) :
    vertex (cellFromCellID x) 0 = gridV (face x) n (S2Proofs.C12H.prefixState x n).1 (S2Proofs.C12H.prefixState x n).2.1 ∧
    vertex (cellFromCellID x) 1 = gridV (face x) n ((S2Proofs.C12H.prefixState x n).1 + 1) (S2Proofs.C12H.prefixState x n).2.1 ∧
    vertex (cellFromCellID x) 2 = gridV (face x) n ((S2Proofs.C12H.prefixState x n).1 + 1) ((S2Proofs.C12H.prefixState x n).2.1 + 1) ∧
    vertex (cellFromCellID x) 3 = gridV (face x) n (S2Proofs.C12H.prefixState x n).1 ((S2Proofs.C12H.prefixState x n).2.1 + 1) := by
  obtain ⟨huv, hface⟩ := S2Proofs.C12.cell_bound_is_square hx
  unfold vertex vertexRaw gridV gu S2Proofs.C12M.g
  rw [huv, hface]
  exact ⟨rfl, rfl, rfl, rfl⟩

open S2.CellID S2.CellM in
/-- the four float vertices `Cell.Vertex(0..3)` of the cell of id `x`: the vertices of `LoopFromCell` -/
def cellQ (x : CellID) : Q4 :=
  ⟨vertex (cellFromCellID x) 0, vertex (cellFromCellID x) 1, vertex (cellFromCellID x) 2, vertex (cellFromCellID x) 3⟩

open S2.CellID S2.CellM in
theorem cellQ_eq_gcell {x : CellID} {n : Nat} (hx : IsCell x n) :
    cellQ x = gcell (gridV (face x) n) (S2Proofs.C12H.prefixState x n).1 (S2Proofs.C12H.prefixState x n).2.1 := by
  obtain ⟨h0, h1, h2, h3⟩ := cell_vertices_eq_gridV hx
  unfold cellQ gcell
  rw [h0, h1, h2, h3]

open S2.CellID S2.CellM in
/-- **the loop of EVERY valid cell id is a convex counter-clockwise quadrilateral for the exact predicate**
    (`CellQuad`: the hypothesis of c04tiling2's `cellLoop_contains_eq_inner_exact`, `cellQuad_simple`, …) — no hypothesis -/
theorem cellQ_ok {x : CellID} {n : Nat} (hx : IsCell x n) : (cellQ x).OK := by
  obtain ⟨hI, hJ, -⟩ := S2Proofs.C12H.prefixState_bounds x n
  rw [cellQ_eq_gcell hx]
  exact gridV_cell_ok (face x) n hx.k_le hI hJ

open S2.CellID S2.CellM in
/-- **two cells of the same level and face with different ij-squares have no common inner point** (points on their
    edges included; `p` off their eight vertices) -/
theorem same_face_cells_disjoint_exact {x y : CellID} {n : Nat} (hx : IsCell x n) (hy : IsCell y n)
    (hf : face x = face y)
    (hne : ((S2Proofs.C12H.prefixState x n).1, (S2Proofs.C12H.prefixState x n).2.1) ≠
      ((S2Proofs.C12H.prefixState y n).1, (S2Proofs.C12H.prefixState y n).2.1))
    {p : V3} (fp : Fin3 p) (o1 : OffVerts (cellQ x) p) (o2 : OffVerts (cellQ y) p) :
    ¬ ((cellQ x).inner p = true ∧ (cellQ y).inner p = true) := by
  obtain ⟨hI, hJ, -⟩ := S2Proofs.C12H.prefixState_bounds x n
  obtain ⟨hI', hJ', -⟩ := S2Proofs.C12H.prefixState_bounds y n
  have okx := cellQ_ok hx
  have oky := cellQ_ok hy
  have ex := cellQ_eq_gcell hx
  have ey := cellQ_eq_gcell hy
  rw [← hf] at ey
  set i := (S2Proofs.C12H.prefixState x n).1
  set j := (S2Proofs.C12H.prefixState x n).2.1
  set i' := (S2Proofs.C12H.prefixState y n).1
  set j' := (S2Proofs.C12H.prefixState y n).2.1
  have hcases : (i < i' ∨ (i = i' ∧ j < j')) ∨ (i' < i ∨ (i' = i ∧ j' < j)) := by
    have : ¬ (i = i' ∧ j = j') := fun h => hne (by rw [h.1, h.2])
    omega
  rcases hcases with h | h
  · have hs := face_cells_disjoint_exact (face x) n hx.k_le hI hJ hI' hJ' h
    rw [← ex, ← ey] at hs
    exact edgeSep_disjoint_exact okx oky fp hs o1 o2
  · have hs := face_cells_disjoint_exact (face x) n hx.k_le hI' hJ' hI hJ h
    rw [← ex, ← ey] at hs
    intro hc
    exact edgeSep_disjoint_exact oky okx fp hs o2 o1 ⟨hc.2, hc.1⟩

open S2.CellID S2.CellM in
/-- **two DIFFERENT cells of the same level and face have no common inner point** (the ij-squares of different ids differ:
    `C04Grid.cell_eq_of_ij`) -/
theorem same_face_cells_disjoint_of_ne {x y : CellID} {n : Nat} (hx : IsCell x n) (hy : IsCell y n)
    (hf : face x = face y) (hxy : x ≠ y) {p : V3} (fp : Fin3 p) (o1 : OffVerts (cellQ x) p)
    (o2 : OffVerts (cellQ y) p) : ¬ ((cellQ x).inner p = true ∧ (cellQ y).inner p = true) :=
  same_face_cells_disjoint_exact hx hy hf
    (fun h => hxy (cell_eq_of_ij hx hy hf (Prod.mk.inj h).1 (Prod.mk.inj h).2)) fp o1 o2

/-! ## 3b. the twelve cube edges: the boundary vertices of the two faces are the same floats (six edges) or Go-`==`
  (six edges: the same floats except that the middle vertex, a coordinate `stToUV(1/2) = +0`, appears as `−0` on the
  other face — the ±0 twins), every level -/

private theorem negneg_one : -(F64.neg F64.one) = F64.one := by decide

private theorem feq_norm {a b : V3} (hb : Fin3 b.normalize) (h : S2Proofs.F64Sym2.Z3 a b) :
    V3.feq a.normalize b.normalize = true :=
  S2Proofs.C03Z.feq_of_Z3 hb (S2Proofs.C03Z.normalize_Z3 h)

/-- faces 0 and 1: the same floats along the common cube edge -/
theorem cubeEdge_01 (k : Nat) (hk : k ≤ 30) (t : Nat) : gridV 0 k (2 ^ k) t = gridV 1 k 0 t := by
  unfold gridV S2.STUV.faceUVToXYZ; simp only [gu_lo, gu_hi k hk, negneg_one]; try rfl

/-- faces 0 and 5: the same floats along the common cube edge -/
theorem cubeEdge_05 (k : Nat) (hk : k ≤ 30) (t : Nat) : gridV 0 k t 0 = gridV 5 k t (2 ^ k) := by
  unfold gridV S2.STUV.faceUVToXYZ; simp only [gu_lo, gu_hi k hk, negneg_one]; try rfl

/-- faces 1 and 2: the same floats along the common cube edge -/
theorem cubeEdge_12 (k : Nat) (hk : k ≤ 30) (t : Nat) : gridV 1 k t (2 ^ k) = gridV 2 k t 0 := by
  unfold gridV S2.STUV.faceUVToXYZ; simp only [gu_lo, gu_hi k hk, negneg_one]; try rfl

/-- faces 2 and 3: the same floats along the common cube edge -/
theorem cubeEdge_23 (k : Nat) (hk : k ≤ 30) (t : Nat) : gridV 2 k (2 ^ k) t = gridV 3 k 0 t := by
  unfold gridV S2.STUV.faceUVToXYZ; simp only [gu_lo, gu_hi k hk, negneg_one]; try rfl

/-- faces 3 and 4: the same floats along the common cube edge -/
theorem cubeEdge_34 (k : Nat) (hk : k ≤ 30) (t : Nat) : gridV 3 k t (2 ^ k) = gridV 4 k t 0 := by
  unfold gridV S2.STUV.faceUVToXYZ; simp only [gu_lo, gu_hi k hk, negneg_one]; try rfl

/-- faces 4 and 5: the same floats along the common cube edge -/
theorem cubeEdge_45 (k : Nat) (hk : k ≤ 30) (t : Nat) : gridV 4 k (2 ^ k) t = gridV 5 k 0 t := by
  unfold gridV S2.STUV.faceUVToXYZ; simp only [gu_lo, gu_hi k hk, negneg_one]; try rfl

/-- faces 0 and 2: Go-`==` along the common cube edge, index `t` on face 0, `t' = 2^k − t` on face 2 -/
theorem cubeEdge_02 (k : Nat) (hk : k ≤ 30) {t t' : Nat} (h : t + t' = 2 ^ k) :
    V3.feq (gridV 2 k 0 t') (gridV 0 k t (2 ^ k)) = true := by
  have h' : t' + t = 2 ^ k := by omega
  unfold gridV
  refine feq_norm (fin_gridV 0 k hk (by omega) (by omega)) ?_
  unfold S2.STUV.faceUVToXYZ
  simp only [gu_lo, gu_hi k hk, negneg_one]
  exact ⟨S2Proofs.F64Sym2.Z.refl _, neg_gu_Z k hk h, S2Proofs.F64Sym2.Z.refl _⟩

/-- faces 0 and 4: Go-`==` along the common cube edge, index `t` on face 0, `t' = 2^k − t` on face 4 -/
theorem cubeEdge_04 (k : Nat) (hk : k ≤ 30) {t t' : Nat} (h : t + t' = 2 ^ k) :
    V3.feq (gridV 4 k t' (2 ^ k)) (gridV 0 k 0 t) = true := by
  have h' : t' + t = 2 ^ k := by omega
  unfold gridV
  refine feq_norm (fin_gridV 0 k hk (by omega) (by omega)) ?_
  unfold S2.STUV.faceUVToXYZ
  simp only [gu_lo, gu_hi k hk, negneg_one]
  exact ⟨S2Proofs.F64Sym2.Z.refl _, S2Proofs.F64Sym2.Z.refl _, neg_gu_Z k hk h⟩

/-- faces 1 and 3: Go-`==` along the common cube edge, index `t` on face 1, `t' = 2^k − t` on face 3 -/
theorem cubeEdge_13 (k : Nat) (hk : k ≤ 30) {t t' : Nat} (h : t + t' = 2 ^ k) :
    V3.feq (gridV 3 k t' 0) (gridV 1 k (2 ^ k) t) = true := by
  have h' : t' + t = 2 ^ k := by omega
  unfold gridV
  refine feq_norm (fin_gridV 1 k hk (by omega) (by omega)) ?_
  unfold S2.STUV.faceUVToXYZ
  simp only [gu_lo, gu_hi k hk, negneg_one]
  exact ⟨S2Proofs.F64Sym2.Z.refl _, S2Proofs.F64Sym2.Z.refl _, neg_gu_Z k hk h⟩

/-- faces 1 and 5: Go-`==` along the common cube edge, index `t` on face 1, `t' = 2^k − t` on face 5 -/
theorem cubeEdge_15 (k : Nat) (hk : k ≤ 30) {t t' : Nat} (h : t + t' = 2 ^ k) :
    V3.feq (gridV 5 k (2 ^ k) t') (gridV 1 k t 0) = true := by
  have h' : t' + t = 2 ^ k := by omega
  unfold gridV
  refine feq_norm (fin_gridV 1 k hk (by omega) (by omega)) ?_
  unfold S2.STUV.faceUVToXYZ
  simp only [gu_lo, gu_hi k hk, negneg_one]
  exact ⟨(neg_gu_Z k hk h').symm, S2Proofs.F64Sym2.Z.refl _, S2Proofs.F64Sym2.Z.refl _⟩

/-- faces 2 and 4: Go-`==` along the common cube edge, index `t` on face 2, `t' = 2^k − t` on face 4 -/
theorem cubeEdge_24 (k : Nat) (hk : k ≤ 30) {t t' : Nat} (h : t + t' = 2 ^ k) :
    V3.feq (gridV 4 k 0 t') (gridV 2 k t (2 ^ k)) = true := by
  have h' : t' + t = 2 ^ k := by omega
  unfold gridV
  refine feq_norm (fin_gridV 2 k hk (by omega) (by omega)) ?_
  unfold S2.STUV.faceUVToXYZ
  simp only [gu_lo, gu_hi k hk, negneg_one]
  exact ⟨(neg_gu_Z k hk h').symm, S2Proofs.F64Sym2.Z.refl _, S2Proofs.F64Sym2.Z.refl _⟩

/-- faces 3 and 5: Go-`==` along the common cube edge, index `t` on face 3, `t' = 2^k − t` on face 5 -/
theorem cubeEdge_35 (k : Nat) (hk : k ≤ 30) {t t' : Nat} (h : t + t' = 2 ^ k) :
    V3.feq (gridV 5 k t' 0) (gridV 3 k (2 ^ k) t) = true := by
  have h' : t' + t = 2 ^ k := by omega
  unfold gridV
  refine feq_norm (fin_gridV 3 k hk (by omega) (by omega)) ?_
  unfold S2.STUV.faceUVToXYZ
  simp only [gu_lo, gu_hi k hk, negneg_one]
  exact ⟨S2Proofs.F64Sym2.Z.refl _, (neg_gu_Z k hk h').symm, S2Proofs.F64Sym2.Z.refl _⟩

/-! the two cells facing each other across each of the twelve cube edges are edge-separated (by their common edge, whose
   endpoints are the same floats or ±0 twins), every level, every position `t` along the edge -/

theorem across_edge_01_edgeSep (k : Nat) (hk : k ≤ 30) {t : Nat} (ht : t < 2 ^ k) :
    edgeSep (gcell (gridV 0 k) (2 ^ k - 1) t) (gcell (gridV 1 k) 0 t) = true := by
  have hpos : 0 < 2 ^ k := Nat.two_pow_pos k
  have hq := gridV_cell_ok 0 k hk (i := (2 ^ k - 1)) (j := t) (by omega) (by omega)
  have hq' := gridV_cell_ok 1 k hk (i := 0) (j := t) (by omega) (by omega)
  have e : 2 ^ k - 1 + 1 = 2 ^ k := by omega
  refine shared_edge_edgeSep_exact (a := gridV 0 k (2 ^ k) t) (b := gridV 0 k (2 ^ k) (t + 1))
    (a' := gridV 1 k 0 t) (b' := gridV 1 k 0 (t + 1)) hq hq' ?_ ?_ ?_ ?_
  · simp [Q4.edges, gcell, e]
  · simp [Q4.edges, gcell, e]
  · rw [cubeEdge_01 k hk]; exact feq_refl (fin_gridV 1 k hk (by omega) (by omega))
  · rw [cubeEdge_01 k hk]; exact feq_refl (fin_gridV 1 k hk (by omega) (by omega))

theorem across_edge_05_edgeSep (k : Nat) (hk : k ≤ 30) {t : Nat} (ht : t < 2 ^ k) :
    edgeSep (gcell (gridV 0 k) t 0) (gcell (gridV 5 k) t (2 ^ k - 1)) = true := by
  have hpos : 0 < 2 ^ k := Nat.two_pow_pos k
  have hq := gridV_cell_ok 0 k hk (i := t) (j := 0) (by omega) (by omega)
  have hq' := gridV_cell_ok 5 k hk (i := t) (j := (2 ^ k - 1)) (by omega) (by omega)
  have e : 2 ^ k - 1 + 1 = 2 ^ k := by omega
  refine shared_edge_edgeSep_exact (a := gridV 0 k t 0) (b := gridV 0 k (t + 1) 0)
    (a' := gridV 5 k t (2 ^ k)) (b' := gridV 5 k (t + 1) (2 ^ k)) hq hq' ?_ ?_ ?_ ?_
  · simp [Q4.edges, gcell, e]
  · simp [Q4.edges, gcell, e]
  · rw [cubeEdge_05 k hk]; exact feq_refl (fin_gridV 5 k hk (by omega) (by omega))
  · rw [cubeEdge_05 k hk]; exact feq_refl (fin_gridV 5 k hk (by omega) (by omega))

theorem across_edge_12_edgeSep (k : Nat) (hk : k ≤ 30) {t : Nat} (ht : t < 2 ^ k) :
    edgeSep (gcell (gridV 1 k) t (2 ^ k - 1)) (gcell (gridV 2 k) t 0) = true := by
  have hpos : 0 < 2 ^ k := Nat.two_pow_pos k
  have hq := gridV_cell_ok 1 k hk (i := t) (j := (2 ^ k - 1)) (by omega) (by omega)
  have hq' := gridV_cell_ok 2 k hk (i := t) (j := 0) (by omega) (by omega)
  have e : 2 ^ k - 1 + 1 = 2 ^ k := by omega
  refine shared_edge_edgeSep_exact (a := gridV 1 k (t + 1) (2 ^ k)) (b := gridV 1 k t (2 ^ k))
    (a' := gridV 2 k (t + 1) 0) (b' := gridV 2 k t 0) hq hq' ?_ ?_ ?_ ?_
  · simp [Q4.edges, gcell, e]
  · simp [Q4.edges, gcell, e]
  · rw [cubeEdge_12 k hk]; exact feq_refl (fin_gridV 2 k hk (by omega) (by omega))
  · rw [cubeEdge_12 k hk]; exact feq_refl (fin_gridV 2 k hk (by omega) (by omega))

theorem across_edge_23_edgeSep (k : Nat) (hk : k ≤ 30) {t : Nat} (ht : t < 2 ^ k) :
    edgeSep (gcell (gridV 2 k) (2 ^ k - 1) t) (gcell (gridV 3 k) 0 t) = true := by
  have hpos : 0 < 2 ^ k := Nat.two_pow_pos k
  have hq := gridV_cell_ok 2 k hk (i := (2 ^ k - 1)) (j := t) (by omega) (by omega)
  have hq' := gridV_cell_ok 3 k hk (i := 0) (j := t) (by omega) (by omega)
  have e : 2 ^ k - 1 + 1 = 2 ^ k := by omega
  refine shared_edge_edgeSep_exact (a := gridV 2 k (2 ^ k) t) (b := gridV 2 k (2 ^ k) (t + 1))
    (a' := gridV 3 k 0 t) (b' := gridV 3 k 0 (t + 1)) hq hq' ?_ ?_ ?_ ?_
  · simp [Q4.edges, gcell, e]
  · simp [Q4.edges, gcell, e]
  · rw [cubeEdge_23 k hk]; exact feq_refl (fin_gridV 3 k hk (by omega) (by omega))
  · rw [cubeEdge_23 k hk]; exact feq_refl (fin_gridV 3 k hk (by omega) (by omega))

theorem across_edge_34_edgeSep (k : Nat) (hk : k ≤ 30) {t : Nat} (ht : t < 2 ^ k) :
    edgeSep (gcell (gridV 3 k) t (2 ^ k - 1)) (gcell (gridV 4 k) t 0) = true := by
  have hpos : 0 < 2 ^ k := Nat.two_pow_pos k
  have hq := gridV_cell_ok 3 k hk (i := t) (j := (2 ^ k - 1)) (by omega) (by omega)
  have hq' := gridV_cell_ok 4 k hk (i := t) (j := 0) (by omega) (by omega)
  have e : 2 ^ k - 1 + 1 = 2 ^ k := by omega
  refine shared_edge_edgeSep_exact (a := gridV 3 k (t + 1) (2 ^ k)) (b := gridV 3 k t (2 ^ k))
    (a' := gridV 4 k (t + 1) 0) (b' := gridV 4 k t 0) hq hq' ?_ ?_ ?_ ?_
  · simp [Q4.edges, gcell, e]
  · simp [Q4.edges, gcell, e]
  · rw [cubeEdge_34 k hk]; exact feq_refl (fin_gridV 4 k hk (by omega) (by omega))
  · rw [cubeEdge_34 k hk]; exact feq_refl (fin_gridV 4 k hk (by omega) (by omega))

theorem across_edge_45_edgeSep (k : Nat) (hk : k ≤ 30) {t : Nat} (ht : t < 2 ^ k) :
    edgeSep (gcell (gridV 4 k) (2 ^ k - 1) t) (gcell (gridV 5 k) 0 t) = true := by
  have hpos : 0 < 2 ^ k := Nat.two_pow_pos k
  have hq := gridV_cell_ok 4 k hk (i := (2 ^ k - 1)) (j := t) (by omega) (by omega)
  have hq' := gridV_cell_ok 5 k hk (i := 0) (j := t) (by omega) (by omega)
  have e : 2 ^ k - 1 + 1 = 2 ^ k := by omega
  refine shared_edge_edgeSep_exact (a := gridV 4 k (2 ^ k) t) (b := gridV 4 k (2 ^ k) (t + 1))
    (a' := gridV 5 k 0 t) (b' := gridV 5 k 0 (t + 1)) hq hq' ?_ ?_ ?_ ?_
  · simp [Q4.edges, gcell, e]
  · simp [Q4.edges, gcell, e]
  · rw [cubeEdge_45 k hk]; exact feq_refl (fin_gridV 5 k hk (by omega) (by omega))
  · rw [cubeEdge_45 k hk]; exact feq_refl (fin_gridV 5 k hk (by omega) (by omega))

theorem across_edge_02_edgeSep (k : Nat) (hk : k ≤ 30) {t s : Nat} (hts : t + s + 1 = 2 ^ k) :
    edgeSep (gcell (gridV 0 k) t (2 ^ k - 1)) (gcell (gridV 2 k) 0 s) = true := by
  have hpos : 0 < 2 ^ k := Nat.two_pow_pos k
  have hq := gridV_cell_ok 0 k hk (i := t) (j := (2 ^ k - 1)) (by omega) (by omega)
  have hq' := gridV_cell_ok 2 k hk (i := 0) (j := s) (by omega) (by omega)
  have e : 2 ^ k - 1 + 1 = 2 ^ k := by omega
  have F : ∀ x y, x ≤ 2 ^ k → y ≤ 2 ^ k → Fin3 (gridV 0 k x y) := fun x y hx hy => fin_gridV 0 k hk hx hy
  have G : ∀ x y, x ≤ 2 ^ k → y ≤ 2 ^ k → Fin3 (gridV 2 k x y) := fun x y hx hy => fin_gridV 2 k hk hx hy
  refine shared_edge_edgeSep_exact (a := gridV 0 k (t + 1) (2 ^ k)) (b := gridV 0 k t (2 ^ k))
    (a' := gridV 2 k 0 s) (b' := gridV 2 k 0 (s + 1)) hq hq' ?_ ?_ ?_ ?_
  · simp [Q4.edges, gcell, e]
  · simp [Q4.edges, gcell, e]
  · exact feq_symm (G _ _ (by omega) (by omega)) (F _ _ (by omega) (by omega)) (cubeEdge_02 k hk (by omega))
  · exact feq_symm (G _ _ (by omega) (by omega)) (F _ _ (by omega) (by omega)) (cubeEdge_02 k hk (by omega))

theorem across_edge_04_edgeSep (k : Nat) (hk : k ≤ 30) {t s : Nat} (hts : t + s + 1 = 2 ^ k) :
    edgeSep (gcell (gridV 0 k) 0 t) (gcell (gridV 4 k) s (2 ^ k - 1)) = true := by
  have hpos : 0 < 2 ^ k := Nat.two_pow_pos k
  have hq := gridV_cell_ok 0 k hk (i := 0) (j := t) (by omega) (by omega)
  have hq' := gridV_cell_ok 4 k hk (i := s) (j := (2 ^ k - 1)) (by omega) (by omega)
  have e : 2 ^ k - 1 + 1 = 2 ^ k := by omega
  have F : ∀ x y, x ≤ 2 ^ k → y ≤ 2 ^ k → Fin3 (gridV 0 k x y) := fun x y hx hy => fin_gridV 0 k hk hx hy
  have G : ∀ x y, x ≤ 2 ^ k → y ≤ 2 ^ k → Fin3 (gridV 4 k x y) := fun x y hx hy => fin_gridV 4 k hk hx hy
  refine shared_edge_edgeSep_exact (a := gridV 0 k 0 (t + 1)) (b := gridV 0 k 0 t)
    (a' := gridV 4 k s (2 ^ k)) (b' := gridV 4 k (s + 1) (2 ^ k)) hq hq' ?_ ?_ ?_ ?_
  · simp [Q4.edges, gcell, e]
  · simp [Q4.edges, gcell, e]
  · exact feq_symm (G _ _ (by omega) (by omega)) (F _ _ (by omega) (by omega)) (cubeEdge_04 k hk (by omega))
  · exact feq_symm (G _ _ (by omega) (by omega)) (F _ _ (by omega) (by omega)) (cubeEdge_04 k hk (by omega))

theorem across_edge_13_edgeSep (k : Nat) (hk : k ≤ 30) {t s : Nat} (hts : t + s + 1 = 2 ^ k) :
    edgeSep (gcell (gridV 1 k) (2 ^ k - 1) t) (gcell (gridV 3 k) s 0) = true := by
  have hpos : 0 < 2 ^ k := Nat.two_pow_pos k
  have hq := gridV_cell_ok 1 k hk (i := (2 ^ k - 1)) (j := t) (by omega) (by omega)
  have hq' := gridV_cell_ok 3 k hk (i := s) (j := 0) (by omega) (by omega)
  have e : 2 ^ k - 1 + 1 = 2 ^ k := by omega
  have F : ∀ x y, x ≤ 2 ^ k → y ≤ 2 ^ k → Fin3 (gridV 1 k x y) := fun x y hx hy => fin_gridV 1 k hk hx hy
  have G : ∀ x y, x ≤ 2 ^ k → y ≤ 2 ^ k → Fin3 (gridV 3 k x y) := fun x y hx hy => fin_gridV 3 k hk hx hy
  refine shared_edge_edgeSep_exact (a := gridV 1 k (2 ^ k) t) (b := gridV 1 k (2 ^ k) (t + 1))
    (a' := gridV 3 k (s + 1) 0) (b' := gridV 3 k s 0) hq hq' ?_ ?_ ?_ ?_
  · simp [Q4.edges, gcell, e]
  · simp [Q4.edges, gcell, e]
  · exact feq_symm (G _ _ (by omega) (by omega)) (F _ _ (by omega) (by omega)) (cubeEdge_13 k hk (by omega))
  · exact feq_symm (G _ _ (by omega) (by omega)) (F _ _ (by omega) (by omega)) (cubeEdge_13 k hk (by omega))

theorem across_edge_15_edgeSep (k : Nat) (hk : k ≤ 30) {t s : Nat} (hts : t + s + 1 = 2 ^ k) :
    edgeSep (gcell (gridV 1 k) t 0) (gcell (gridV 5 k) (2 ^ k - 1) s) = true := by
  have hpos : 0 < 2 ^ k := Nat.two_pow_pos k
  have hq := gridV_cell_ok 1 k hk (i := t) (j := 0) (by omega) (by omega)
  have hq' := gridV_cell_ok 5 k hk (i := (2 ^ k - 1)) (j := s) (by omega) (by omega)
  have e : 2 ^ k - 1 + 1 = 2 ^ k := by omega
  have F : ∀ x y, x ≤ 2 ^ k → y ≤ 2 ^ k → Fin3 (gridV 1 k x y) := fun x y hx hy => fin_gridV 1 k hk hx hy
  have G : ∀ x y, x ≤ 2 ^ k → y ≤ 2 ^ k → Fin3 (gridV 5 k x y) := fun x y hx hy => fin_gridV 5 k hk hx hy
  refine shared_edge_edgeSep_exact (a := gridV 1 k t 0) (b := gridV 1 k (t + 1) 0)
    (a' := gridV 5 k (2 ^ k) (s + 1)) (b' := gridV 5 k (2 ^ k) s) hq hq' ?_ ?_ ?_ ?_
  · simp [Q4.edges, gcell, e]
  · simp [Q4.edges, gcell, e]
  · exact feq_symm (G _ _ (by omega) (by omega)) (F _ _ (by omega) (by omega)) (cubeEdge_15 k hk (by omega))
  · exact feq_symm (G _ _ (by omega) (by omega)) (F _ _ (by omega) (by omega)) (cubeEdge_15 k hk (by omega))

theorem across_edge_24_edgeSep (k : Nat) (hk : k ≤ 30) {t s : Nat} (hts : t + s + 1 = 2 ^ k) :
    edgeSep (gcell (gridV 2 k) t (2 ^ k - 1)) (gcell (gridV 4 k) 0 s) = true := by
  have hpos : 0 < 2 ^ k := Nat.two_pow_pos k
  have hq := gridV_cell_ok 2 k hk (i := t) (j := (2 ^ k - 1)) (by omega) (by omega)
  have hq' := gridV_cell_ok 4 k hk (i := 0) (j := s) (by omega) (by omega)
  have e : 2 ^ k - 1 + 1 = 2 ^ k := by omega
  have F : ∀ x y, x ≤ 2 ^ k → y ≤ 2 ^ k → Fin3 (gridV 2 k x y) := fun x y hx hy => fin_gridV 2 k hk hx hy
  have G : ∀ x y, x ≤ 2 ^ k → y ≤ 2 ^ k → Fin3 (gridV 4 k x y) := fun x y hx hy => fin_gridV 4 k hk hx hy
  refine shared_edge_edgeSep_exact (a := gridV 2 k (t + 1) (2 ^ k)) (b := gridV 2 k t (2 ^ k))
    (a' := gridV 4 k 0 s) (b' := gridV 4 k 0 (s + 1)) hq hq' ?_ ?_ ?_ ?_
  · simp [Q4.edges, gcell, e]
  · simp [Q4.edges, gcell, e]
  · exact feq_symm (G _ _ (by omega) (by omega)) (F _ _ (by omega) (by omega)) (cubeEdge_24 k hk (by omega))
  · exact feq_symm (G _ _ (by omega) (by omega)) (F _ _ (by omega) (by omega)) (cubeEdge_24 k hk (by omega))

theorem across_edge_35_edgeSep (k : Nat) (hk : k ≤ 30) {t s : Nat} (hts : t + s + 1 = 2 ^ k) :
    edgeSep (gcell (gridV 3 k) (2 ^ k - 1) t) (gcell (gridV 5 k) s 0) = true := by
  have hpos : 0 < 2 ^ k := Nat.two_pow_pos k
  have hq := gridV_cell_ok 3 k hk (i := (2 ^ k - 1)) (j := t) (by omega) (by omega)
  have hq' := gridV_cell_ok 5 k hk (i := s) (j := 0) (by omega) (by omega)
  have e : 2 ^ k - 1 + 1 = 2 ^ k := by omega
  have F : ∀ x y, x ≤ 2 ^ k → y ≤ 2 ^ k → Fin3 (gridV 3 k x y) := fun x y hx hy => fin_gridV 3 k hk hx hy
  have G : ∀ x y, x ≤ 2 ^ k → y ≤ 2 ^ k → Fin3 (gridV 5 k x y) := fun x y hx hy => fin_gridV 5 k hk hx hy
  refine shared_edge_edgeSep_exact (a := gridV 3 k (2 ^ k) t) (b := gridV 3 k (2 ^ k) (t + 1))
    (a' := gridV 5 k (s + 1) 0) (b' := gridV 5 k s 0) hq hq' ?_ ?_ ?_ ?_
  · simp [Q4.edges, gcell, e]
  · simp [Q4.edges, gcell, e]
  · exact feq_symm (G _ _ (by omega) (by omega)) (F _ _ (by omega) (by omega)) (cubeEdge_35 k hk (by omega))
  · exact feq_symm (G _ _ (by omega) (by omega)) (F _ _ (by omega) (by omega)) (cubeEdge_35 k hk (by omega))

/-! ## 3c. cells on ADJACENT faces, at least two cells away from the common cube edge: separated by a LONG grid line

  The separator is the great circle through the two boundary vertices of a whole column (row) line of face `f`, one
  column (row) beyond the cell and still inside the face; its endpoints are a quarter turn apart, so their roundings tilt
  it by 2^-51 only (no lever arm), and EVERY vertex of the neighbouring face is strictly beyond it. -/

private theorem sep_of_signs {A B : V3} {q q' : Q4} (fA : Fin3 A) (fB : Fin3 B) (fq : Fin3 q.v0)
    (h1 : ∀ x ∈ q.verts, exactDecision A B x = 1) (h2 : ∀ y ∈ q'.verts, exactDecision A B y = -1) :
    sepByB A B q q' = true := by
  have m0 : q.v0 ∈ q.verts := by simp [Q4.verts]
  have nAB := (nfeq_of fA fB fq (h1 _ m0)).1
  simp only [sepByB, Bool.and_eq_true, Bool.not_eq_true', List.all_eq_true, bne_iff_ne, ne_eq]
  exact ⟨⟨nAB, fun x hx => by rw [h1 x hx]; decide⟩, fun y hy => by rw [h2 y hy]; decide⟩

private theorem gverts'' {V : Nat → Nat → V3} {i j : Nat} {y : V3} (hy : y ∈ (gcell V i j).verts) :
    y = V i j ∨ y = V (i + 1) j ∨ y = V (i + 1) (j + 1) ∨ y = V i (j + 1) := by
  simpa [Q4.verts, gcell] using hy

section adjacent
variable (f h k : Nat) (hk : k ≤ 30)
include hk

/-- `h` beyond `u = +1`: a cell of `f` at least two columns from that edge and ANY cell of `h` -/
theorem sep_plusU (hd : PlusU f h) {i j i' j' : Nat} (hi : i + 3 ≤ 2 ^ k) (hj : j < 2 ^ k) (hi' : i' < 2 ^ k)
    (hj' : j' < 2 ^ k) :
    sepByB (gridV f k (i + 2) 0) (gridV f k (i + 2) (2 ^ k)) (gcell (gridV f k) i j) (gcell (gridV h k) i' j') = true := by
  refine sep_of_signs (fin_gridV f k hk (by omega) (Nat.zero_le _)) (fin_gridV f k hk (by omega) (le_refl _))
    (fin_gridV f k hk (by omega) (by omega)) (fun x hx => ?_) (fun y hy => ?_)
  · rcases gverts'' hx with rfl | rfl | rfl | rfl <;> exact col_left f k hk (by omega) (by omega) (by omega)
  · rcases gverts'' hy with rfl | rfl | rfl | rfl <;>
      exact col_plusU f h k hk hd (by omega) (by omega) (by omega) (by omega)

/-- `h` beyond `u = −1` -/
theorem sep_minusU (hd : MinusU f h) {i j i' j' : Nat} (hi0 : 2 ≤ i) (hi : i < 2 ^ k) (hj : j < 2 ^ k)
    (hi' : i' < 2 ^ k) (hj' : j' < 2 ^ k) :
    sepByB (gridV f k (i - 1) 0) (gridV f k (i - 1) (2 ^ k)) (gcell (gridV h k) i' j') (gcell (gridV f k) i j) = true := by
  refine sep_of_signs (fin_gridV f k hk (by omega) (Nat.zero_le _)) (fin_gridV f k hk (by omega) (le_refl _))
    (fin_gridV h k hk (by omega) (by omega)) (fun x hx => ?_) (fun y hy => ?_)
  · rcases gverts'' hx with rfl | rfl | rfl | rfl <;>
      exact col_minusU f h k hk hd (by omega) (by omega) (by omega) (by omega)
  · rcases gverts'' hy with rfl | rfl | rfl | rfl <;> exact col_right f k hk (by omega) (by omega) (by omega)

/-- `h` beyond `v = +1` -/
theorem sep_plusV (hd : PlusV f h) {i j i' j' : Nat} (hi : i < 2 ^ k) (hj : j + 3 ≤ 2 ^ k) (hi' : i' < 2 ^ k)
    (hj' : j' < 2 ^ k) :
    sepByB (gridV f k 0 (j + 2)) (gridV f k (2 ^ k) (j + 2)) (gcell (gridV h k) i' j') (gcell (gridV f k) i j) = true := by
  refine sep_of_signs (fin_gridV f k hk (Nat.zero_le _) (by omega)) (fin_gridV f k hk (le_refl _) (by omega))
    (fin_gridV h k hk (by omega) (by omega)) (fun x hx => ?_) (fun y hy => ?_)
  · rcases gverts'' hx with rfl | rfl | rfl | rfl <;>
      exact row_plusV f h k hk hd (by omega) (by omega) (by omega) (by omega)
  · rcases gverts'' hy with rfl | rfl | rfl | rfl <;> exact row_below f k hk (by omega) (by omega) (by omega)

/-- `h` beyond `v = −1` -/
theorem sep_minusV (hd : MinusV f h) {i j i' j' : Nat} (hi : i < 2 ^ k) (hj0 : 2 ≤ j) (hj : j < 2 ^ k)
    (hi' : i' < 2 ^ k) (hj' : j' < 2 ^ k) :
    sepByB (gridV f k 0 (j - 1)) (gridV f k (2 ^ k) (j - 1)) (gcell (gridV f k) i j) (gcell (gridV h k) i' j') = true := by
  refine sep_of_signs (fin_gridV f k hk (Nat.zero_le _) (by omega)) (fin_gridV f k hk (le_refl _) (by omega))
    (fin_gridV f k hk (by omega) (by omega)) (fun x hx => ?_) (fun y hy => ?_)
  · rcases gverts'' hx with rfl | rfl | rfl | rfl <;> exact row_above f k hk (by omega) (by omega) (by omega)
  · rcases gverts'' hy with rfl | rfl | rfl | rfl <;>
      exact row_minusV f h k hk hd (by omega) (by omega) (by omega) (by omega)

/-- **a cell of face `f` at least two cells away from the cube edge towards the adjacent face `h` has no inner point in
    common with ANY cell of `h`** (`p` finite and not `==` to a grid vertex of `f`); `Dir` = one of the four direction
    facts, all 24 ordered pairs of adjacent faces are instances (`plusU_all`, `minusU_all`, `plusV_all`, `minusV_all`) -/
theorem adjacent_faces_far_disjoint_exact {i j i' j' : Nat} (hi : i < 2 ^ k) (hj : j < 2 ^ k) (hi' : i' < 2 ^ k)
    (hj' : j' < 2 ^ k)
    (hdir : (PlusU f h ∧ i + 3 ≤ 2 ^ k) ∨ (MinusU f h ∧ 2 ≤ i) ∨ (PlusV f h ∧ j + 3 ≤ 2 ^ k) ∨ (MinusV f h ∧ 2 ≤ j))
    {p : V3} (fp : Fin3 p) (hoff : ∀ a, a ≤ 2 ^ k → ∀ b, b ≤ 2 ^ k → V3.feq (gridV f k a b) p = false) :
    ¬ ((gcell (gridV f k) i j).inner p = true ∧ (gcell (gridV h k) i' j').inner p = true) := by
  have hq := gridV_cell_ok f k hk hi hj
  have hq' := gridV_cell_ok h k hk hi' hj'
  have N0 : 0 ≤ 2 ^ k := Nat.zero_le _
  rcases hdir with ⟨d, c⟩ | ⟨d, c⟩ | ⟨d, c⟩ | ⟨d, c⟩
  · exact quads_disjoint_exact hq hq' (fin_gridV f k hk (by omega) N0) (fin_gridV f k hk (by omega) (le_refl _)) fp
      (sep_plusU f h k hk d c hj hi' hj') (hoff _ (by omega) _ N0) (hoff _ (by omega) _ (le_refl _))
  · intro hc
    exact quads_disjoint_exact hq' hq (fin_gridV f k hk (by omega) N0) (fin_gridV f k hk (by omega) (le_refl _)) fp
      (sep_minusU f h k hk d c hi hj hi' hj') (hoff _ (by omega) _ N0) (hoff _ (by omega) _ (le_refl _)) ⟨hc.2, hc.1⟩
  · intro hc
    exact quads_disjoint_exact hq' hq (fin_gridV f k hk N0 (by omega)) (fin_gridV f k hk (le_refl _) (by omega)) fp
      (sep_plusV f h k hk d hi c hi' hj') (hoff _ N0 _ (by omega)) (hoff _ (le_refl _) _ (by omega)) ⟨hc.2, hc.1⟩
  · exact quads_disjoint_exact hq hq' (fin_gridV f k hk N0 (by omega)) (fin_gridV f k hk (le_refl _) (by omega)) fp
      (sep_minusV f h k hk d hi c hj hi' hj') (hoff _ N0 _ (by omega)) (hoff _ (le_refl _) _ (by omega))

end adjacent

/-! ## 3d. OPPOSITE faces: entirely separated by a long grid line of a third face

  Every interior column line of face `f` has the whole `−u` neighbour of `f` on its left and the whole `+u` neighbour on its
  right; those two neighbours are opposite faces.  (Level 0 has no interior line: the six face loops are c04tiling2's
  `six_faces_tile_exact`.) -/

/-- `g` beyond `u = −1` and `h` beyond `u = +1` of `f`: ANY cell of `g` and ANY cell of `h` are separated by the interior
    column line `a` of `f` -/
theorem sep_opposite (f g h k : Nat) (hk : k ≤ 30) (hg : MinusU f g) (hh : PlusU f h) {a i j i' j' : Nat} (h1 : 1 ≤ a)
    (h2 : a + 1 ≤ 2 ^ k) (hi : i < 2 ^ k) (hj : j < 2 ^ k) (hi' : i' < 2 ^ k) (hj' : j' < 2 ^ k) :
    sepByB (gridV f k a 0) (gridV f k a (2 ^ k)) (gcell (gridV g k) i j) (gcell (gridV h k) i' j') = true := by
  refine sep_of_signs (fin_gridV f k hk (by omega) (Nat.zero_le _)) (fin_gridV f k hk (by omega) (le_refl _))
    (fin_gridV g k hk (by omega) (by omega)) (fun x hx => ?_) (fun y hy => ?_)
  · rcases gverts'' hx with rfl | rfl | rfl | rfl <;>
      exact col_minusU f g k hk hg h1 h2 (by omega) (by omega)
  · rcases gverts'' hy with rfl | rfl | rfl | rfl <;>
      exact col_plusU f h k hk hh h1 h2 (by omega) (by omega)

/-- **cells on OPPOSITE faces have no common inner point**, every level `1 ≤ k ≤ 30`, all three pairs of opposite faces
    (`0|3` through face 1, `4|1` through face 0, `2|5` through face 3); `p` finite and not `==` to a vertex of the third face -/
theorem opposite_faces_disjoint_exact (k : Nat) (hk1 : 1 ≤ k) (hk : k ≤ 30) {f g h : Nat}
    (hfgh : (f = 1 ∧ g = 0 ∧ h = 3) ∨ (f = 0 ∧ g = 4 ∧ h = 1) ∨ (f = 3 ∧ g = 2 ∧ h = 5))
    {i j i' j' : Nat} (hi : i < 2 ^ k) (hj : j < 2 ^ k) (hi' : i' < 2 ^ k) (hj' : j' < 2 ^ k)
    {p : V3} (fp : Fin3 p) (hoff : ∀ a, a ≤ 2 ^ k → ∀ b, b ≤ 2 ^ k → V3.feq (gridV f k a b) p = false) :
    ¬ ((gcell (gridV g k) i j).inner p = true ∧ (gcell (gridV h k) i' j').inner p = true) := by
  have h2 : 1 + 1 ≤ 2 ^ k := by
    calc 1 + 1 = 2 ^ 1 := rfl
      _ ≤ 2 ^ k := Nat.pow_le_pow_right (by norm_num) hk1
  have dirs : MinusU f g ∧ PlusU f h := by
    rcases hfgh with ⟨rfl, rfl, rfl⟩ | ⟨rfl, rfl, rfl⟩ | ⟨rfl, rfl, rfl⟩
    · exact ⟨minusU_all.2.1, plusU_all.2.1⟩
    · exact ⟨minusU_all.1, plusU_all.1⟩
    · exact ⟨minusU_all.2.2.2.1, plusU_all.2.2.2.1⟩
  exact quads_disjoint_exact (gridV_cell_ok g k hk hi hj) (gridV_cell_ok h k hk hi' hj')
    (fin_gridV f k hk (by omega) (Nat.zero_le _)) (fin_gridV f k hk (by omega) (le_refl _)) fp
    (sep_opposite f g h k hk dirs.1 dirs.2 (le_refl 1) h2 hi hj hi' hj')
    (hoff 1 (by omega) 0 (Nat.zero_le _)) (hoff 1 (by omega) _ (le_refl _))

/-! ## 4. non-vacuity -/

-- level 2, face 0: the hypotheses are satisfiable (all 25 vertices, the input class of the 16 loops; the point (4,1,2))
example : RefOK 0 2 := by decide +kernel
example : FamilyDom originPoint (gridCells (gridV 0 2) (2 ^ 2)) ⟨⟨0x4010000000000000⟩, f1, f2⟩ := by decide +kernel
-- face 3 (negative x axis), level 1
example : RefOK 3 1 := by decide +kernel

-- level 30, the corner region of face 0 (evaluated): the reference directions are usable, the corner cell is a
-- `CellQuad`, and a cone orientation (top edge of the cell (2^30−5, 2^30−7) against the vertex two rows up, one column
-- left) has the sign the theorem says
example : PtOK (gridV 0 30 1073741824 1073741823) ∧ PtOK (gridV 0 30 1073741824 1073741824) := by decide +kernel
example : (gcell (gridV 0 30) 1073741823 1073741823).OK := by decide +kernel
example : exactDecision (gridV 0 30 (1073741819 + 1) (1073741817 + 1)) (gridV 0 30 1073741819 (1073741817 + 1))
    (gridV 0 30 1073741818 1073741819) = -1 := by decide +kernel

-- LEVEL 30, the whole face (2^60 loops), the point (4,1,2): every hypothesis discharged
example : containCount originPoint ((gridCells (gridV 0 30) (2 ^ 30)).map (Q4.loop originPoint))
    ⟨⟨0x4010000000000000⟩, f1, f2⟩ ≤ 1 := by
  refine face_cells_count_le_one_origin 0 30 (by norm_num) (by decide +kernel) (by decide +kernel)
    (offVerts_of_len 0 30 (by norm_num) (by decide +kernel) (Or.inl ?_))
  have h := (S2Proofs.C16Acc.R3.abs_comp_le_norm (S2Proofs.C16Acc.ofV ⟨⟨0x4010000000000000⟩, f1, f2⟩)).1
  have e : S2Proofs.FloatErr.val (⟨0x4010000000000000⟩ : F64) = 4 := S2Proofs.C12Dist.VertexErr.val_four
  have h' : |S2Proofs.FloatErr.val (⟨0x4010000000000000⟩ : F64)| ≤
      (S2Proofs.C16Acc.ofV ⟨⟨0x4010000000000000⟩, f1, f2⟩).norm := h
  rw [e] at h'
  have : |(4 : ℝ)| = 4 := by norm_num
  have : (1 : ℝ) + 1 / 2 ^ 40 < 4 := by norm_num
  linarith

-- real cell ids: the level-30 leaf 0x1555555555555555 and its Hilbert successor, same face
example : IsCell (0x1555555555555555 : CellID) 30 ∧ IsCell (0x1555555555555557 : CellID) 30 := by
  refine ⟨⟨by norm_num, by decide, by decide⟩, ⟨by norm_num, by decide, by decide⟩⟩

end S2Proofs.C04
