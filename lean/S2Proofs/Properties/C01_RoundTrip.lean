/-
  C01 (round trips): tokens, debug strings and `MaxTile` of `s2.CellID`.

  Model: `S2.CellID.toToken / fromToken / toStr / fromStr / maxTile` (lean/S2/CellID.lean), which
  follow `ToToken`, `CellIDFromToken`, `String`, `CellIDFromString`, `MaxTile` of /repo/s2/cellid.go.
-/
import S2Proofs.CellIDRoundTrip
open S2 S2.CellID
namespace S2Proofs.C01

/-! ### A. tokens -/

/-- The token of the zero word is "X" (the hex string is all zeros, trimmed to empty). -/
theorem toToken_zero : toToken 0 = "X" := by decide

/-- "X" decodes to 0: 'X' is not a hex digit, so `ParseUint` fails and the error path returns 0. -/
theorem fromToken_X : fromToken "X" = 0 := by decide

/-- Only the zero word has token "X". -/
theorem toToken_eq_X_iff (id : CellID) : toToken id = "X" ↔ id = 0 := by
  constructor
  · intro h
    by_cases h0 : id = 0
    · exact h0
    · exfalso
      obtain ⟨s, hs, _, _, hhex, _, _⟩ := toToken_spec id h0
      rw [hs] at h
      have := congrArg String.toList h
      rw [String.toList_ofList] at this
      have hx : IsLowerHex 'X' := hhex 'X' (by rw [this]; decide)
      revert hx; decide
  · rintro rfl; exact toToken_zero

example : toToken 0x89c2594000000000 ≠ "X" := by decide

/-- Shape of the token of a non-zero word: between 1 and 16 characters, all lower-case hex digits,
    and the last one is not '0' (trailing zeros are trimmed). -/
theorem toToken_shape (id : CellID) (h : id ≠ 0) :
    1 ≤ (toToken id).toList.length ∧ (toToken id).toList.length ≤ 16 ∧
    (∀ c ∈ (toToken id).toList, ('0' ≤ c ∧ c ≤ '9') ∨ ('a' ≤ c ∧ c ≤ 'f')) ∧
    (toToken id).toList.getLast? ≠ some '0' := by
  obtain ⟨s, hs, h1, h2, hhex, hlast, _⟩ := toToken_spec id h
  rw [hs, String.toList_ofList]
  exact ⟨List.length_pos_iff.mpr h1, h2, hhex, hlast⟩

example : (0x89c2594000000000 : CellID) ≠ 0 ∧ toToken 0x89c2594000000000 = "89c2594" := by decide

/-- Token round trip for EVERY 64-bit word (valid cell id or not, including 0 ↦ "X" ↦ 0). -/
theorem fromToken_toToken (id : CellID) : fromToken (toToken id) = id := by
  by_cases h0 : id = 0
  · subst h0; decide
  · obtain ⟨s, hs, h1, h2, _, _, v, hv, hvx⟩ := toToken_spec id h0
    rw [hs]
    apply UInt64.toNat_inj.mp
    rw [fromToken_ofList s v h1 h2 hv (by rw [hvx]; exact id.toNat_lt), hvx]

example : fromToken (toToken 0x89c2594000000000) = 0x89c2594000000000 := by decide
example : fromToken (toToken 0xffffffffffffffff) = 0xffffffffffffffff := by decide

/-- `ToToken` is injective on all 64-bit words. -/
theorem toToken_injective (a b : CellID) (h : toToken a = toToken b) : a = b := by
  rw [← fromToken_toToken a, ← fromToken_toToken b, h]

example : toToken 0x3000000000000000 = toToken (fromFace 1) := by decide

/-! ### B. debug strings "f/ddd…" -/

/-- String round trip: `CellIDFromString(id.String()) = id` for every valid cell id. -/
theorem fromStr_toStr (id : CellID) (h : isValid id = true) : fromStr (toStr id) = id := by
  obtain ⟨k, hk⟩ := (isValid_iff id).mp h
  exact hk.fromStr_toStr

example : isValid 0x89c2594000000000 = true ∧ toStr 0x89c2594000000000 = "4/10320102302" := by decide
example : isValid 0x1 = true := by decide  -- a leaf cell: 30 digits

/-- Shape of the string of a valid id: face digit, '/', then `level id` digits (so ≤ 32 chars). -/
theorem toStr_length (id : CellID) (h : isValid id = true) :
    (toStr id).toList.length = level id + 2 ∧ level id ≤ 30 := by
  obtain ⟨k, hk⟩ := (isValid_iff id).mp h
  rw [hk.toStr_eq, hk.level_eq, String.toList_ofList]
  exact ⟨by simp, hk.k_le⟩

example : isValid 0x1 = true ∧ (toStr 0x1).toList.length = 32 ∧ level (0x1 : CellID) = 30 := by decide

/-- `String` is injective on valid cell ids. -/
theorem toStr_injective (a b : CellID) (ha : isValid a = true) (hb : isValid b = true)
    (h : toStr a = toStr b) : a = b := by
  rw [← fromStr_toStr a ha, ← fromStr_toStr b hb, h]

example : isValid (fromFace 3) = true ∧ isValid (child (fromFace 3) 2) = true := by decide

/-- For an invalid id, `String` prints "Invalid: …", which `CellIDFromString` maps to 0
    (the first byte 'I' is not a face digit), so the round trip fails exactly on invalid ids ≠ 0. -/
theorem fromStr_toStr_invalid (id : CellID) (h : isValid id = false) : fromStr (toStr id) = 0 :=
  toStr_invalid id h

example : isValid 0x2 = false ∧ toStr 0x2 = "Invalid: 2" ∧ fromStr "Invalid: 2" = 0 := by decide

/-! ### C. `MaxTile`

Go: "MaxTile returns the largest cell with the same RangeMin such that RangeMax < limit.RangeMin.
It returns limit if no such cell exists."  -/

/-- First branch: if `ci` does not start before `limit`'s range, the result is `limit`. -/
theorem maxTile_of_ge (ci limit : CellID) (h : rangeMin ci ≥ rangeMin limit) :
    maxTile ci limit = limit := by
  rw [maxTile_unfold, if_pos h]

example : rangeMin (0x0500000000000000 : CellID) ≥ rangeMin (0x1000000000000000 : CellID) ∧
    maxTile 0x0500000000000000 0x1000000000000000 = 0x1000000000000000 := by decide

/-- The Go loops test `RangeMax() < limit` (the id), the doc comment promises
    `RangeMax < limit.RangeMin()`.  For a cell that starts before `limit`'s range the two tests
    agree, because cells are nested or disjoint. -/
theorem rangeMax_lt_limit_iff (c limit : CellID) (hc : isValid c = true) (hl : isValid limit = true)
    (hlt : rangeMin c < rangeMin limit) :
    rangeMax c < limit ↔ rangeMax c < rangeMin limit := by
  obtain ⟨i, hi⟩ := (isValid_iff c).mp hc
  obtain ⟨kl, hkl⟩ := (isValid_iff limit).mp hl
  rw [UInt64.lt_iff_toNat_lt, UInt64.lt_iff_toNat_lt]
  exact hi.rt_lt_limit_iff hkl (UInt64.lt_iff_toNat_lt.mp hlt)

example : isValid 0x0100000000000000 = true ∧ isValid 0x0500000000000000 = true ∧
    rangeMin (0x0100000000000000 : CellID) < rangeMin (0x0500000000000000 : CellID) := by decide

/-- Main specification.  If `ci` starts before `limit`'s range, `r = maxTile ci limit` is a valid
    cell with the same `rangeMin`, it ends before `rangeMin limit`, and it is the LARGEST such cell:
    every valid cell `c` with the same `rangeMin` that ends before `rangeMin limit` is at least as
    fine as `r` and is contained in `r`. -/
theorem maxTile_spec (ci limit : CellID) (hci : isValid ci = true) (hl : isValid limit = true)
    (hlt : rangeMin ci < rangeMin limit) :
    isValid (maxTile ci limit) = true ∧
    rangeMin (maxTile ci limit) = rangeMin ci ∧
    rangeMax (maxTile ci limit) < rangeMin limit ∧
    ∀ c, isValid c = true → rangeMin c = rangeMin ci → rangeMax c < rangeMin limit →
      level (maxTile ci limit) ≤ level c ∧ contains (maxTile ci limit) c = true := by
  obtain ⟨k, hk⟩ := (isValid_iff ci).mp hci
  obtain ⟨kl, hkl⟩ := (isValid_iff limit).mp hl
  obtain ⟨j, h1, h2, h3, h4⟩ := maxTile_core hk hkl (UInt64.lt_iff_toNat_lt.mp hlt)
  refine ⟨(isValid_iff _).mpr ⟨j, h1⟩, h2, UInt64.lt_iff_toNat_lt.mpr h3, ?_⟩
  intro c hc hcmin hcmax
  obtain ⟨i, hi⟩ := (isValid_iff c).mp hc
  have hji := h4 c i hi hcmin (UInt64.lt_iff_toNat_lt.mp hcmax)
  rw [h1.level_eq, hi.level_eq]
  exact ⟨hji, h1.rt_contains_of_same_min hi (by rw [hcmin, h2]) hji⟩

-- grow branch, 30 iterations: a leaf at the start of face 0 grows to face 0
example : isValid 0x1 = true ∧ isValid 0x3000000000000000 = true ∧
    rangeMin (0x1 : CellID) < rangeMin (0x3000000000000000 : CellID) ∧
    maxTile 0x1 0x3000000000000000 = 0x1000000000000000 := by decide
-- shrink branch, two iterations
example : isValid 0x1000000000000000 = true ∧ isValid 0x0500000000000000 = true ∧
    rangeMin (0x1000000000000000 : CellID) < rangeMin (0x0500000000000000 : CellID) ∧
    maxTile 0x1000000000000000 0x0500000000000000 = 0x0100000000000000 := by decide
-- grow branch stopping at once because the parent starts earlier
example : maxTile 0x0500000000000000 0x3000000000000000 = 0x0500000000000000 := by decide

/-- The result is the ONLY valid cell with these properties (same start, ends before
    `rangeMin limit`, coarsest such). -/
theorem maxTile_unique (ci limit r : CellID) (hci : isValid ci = true) (hl : isValid limit = true)
    (hlt : rangeMin ci < rangeMin limit)
    (hr : isValid r = true) (hrmin : rangeMin r = rangeMin ci) (hrmax : rangeMax r < rangeMin limit)
    (hbest : ∀ c, isValid c = true → rangeMin c = rangeMin ci → rangeMax c < rangeMin limit →
      level r ≤ level c) :
    r = maxTile ci limit := by
  obtain ⟨hv, hmin, hmax, hopt⟩ := maxTile_spec ci limit hci hl hlt
  have h1 := (hopt r hr hrmin hrmax).1
  have h2 := hbest _ hv hmin hmax
  obtain ⟨j, hj⟩ := (isValid_iff r).mp hr
  obtain ⟨j', hj'⟩ := (isValid_iff (maxTile ci limit)).mp hv
  rw [hj.level_eq, hj'.level_eq] at h1 h2
  have : j = j' := by omega
  subst this
  exact hj.rt_eq_of_same_min hj' (by rw [hrmin, hmin])

-- the witness of the shrink example satisfies the hypotheses on `r` (instance of the theorem):
example : (0x0100000000000000 : CellID) = maxTile 0x1000000000000000 0x0500000000000000 := by decide
example : isValid 0x0100000000000000 = true ∧
    rangeMin (0x0100000000000000 : CellID) = rangeMin (0x1000000000000000 : CellID) ∧
    rangeMax (0x0100000000000000 : CellID) < rangeMin (0x0500000000000000 : CellID) := by decide

/-- `MaxTile` returns `limit` exactly when `ci` does not start before `limit`'s range (this is the
    termination test of the tiling idiom `for id := start.MaxTile(limit); id != limit; …`). -/
theorem maxTile_eq_limit_iff (ci limit : CellID) (hci : isValid ci = true) (hl : isValid limit = true) :
    maxTile ci limit = limit ↔ rangeMin ci ≥ rangeMin limit := by
  constructor
  · intro h
    by_cases hlt : rangeMin ci < rangeMin limit
    · exfalso
      obtain ⟨_, hmin, _, _⟩ := maxTile_spec ci limit hci hl hlt
      rw [h] at hmin
      rw [hmin] at hlt
      exact UInt64.lt_irrefl _ hlt
    · exact UInt64.not_lt.mp hlt
  · exact maxTile_of_ge ci limit

example : isValid 0x0500000000000000 = true ∧ isValid 0x1000000000000000 = true ∧
    maxTile 0x0500000000000000 0x1000000000000000 = 0x1000000000000000 ∧
    maxTile 0x1000000000000000 0x0500000000000000 ≠ 0x0500000000000000 := by decide

/-- Fuel, shrink loop: under the entry conditions of the loop (`rangeMax ci ≥ limit`), any fuel
    `n ≥ 30 - level ci` gives the same result as the model's 32, i.e. the bounded model loop equals
    Go's unbounded `for` (the `fuel = 0` exit is never taken). -/
theorem maxTile_shrink_fuel (ci limit : CellID) (hci : isValid ci = true) (hl : isValid limit = true)
    (hlt : rangeMin ci < rangeMin limit) (hbig : rangeMax ci ≥ limit) (n : Nat)
    (hn : 30 - level ci ≤ n) :
    maxTile.shrink limit n ci = maxTile.shrink limit 32 ci := by
  obtain ⟨k, hk⟩ := (isValid_iff ci).mp hci
  obtain ⟨kl, hkl⟩ := (isValid_iff limit).mp hl
  rw [hk.level_eq] at hn
  exact (maxTile_fuel hk hkl (UInt64.lt_iff_toNat_lt.mp hlt)).1 hbig n hn

example : rangeMax (0x1000000000000000 : CellID) ≥ (0x0500000000000000 : CellID) ∧
    30 - level (0x1000000000000000 : CellID) ≤ 30 := by decide

/-- Fuel, grow loop: any fuel `n ≥ level ci` gives the same result as the model's 32. -/
theorem maxTile_grow_fuel (ci limit : CellID) (hci : isValid ci = true) (hl : isValid limit = true)
    (hlt : rangeMin ci < rangeMin limit) (hsmall : ¬ rangeMax ci ≥ limit) (n : Nat)
    (hn : level ci ≤ n) :
    maxTile.grow limit n ci (rangeMin ci) = maxTile.grow limit 32 ci (rangeMin ci) := by
  obtain ⟨k, hk⟩ := (isValid_iff ci).mp hci
  obtain ⟨kl, hkl⟩ := (isValid_iff limit).mp hl
  rw [hk.level_eq] at hn
  exact (maxTile_fuel hk hkl (UInt64.lt_iff_toNat_lt.mp hlt)).2 hsmall n hn

example : ¬ rangeMax (0x1 : CellID) ≥ (0x3000000000000000 : CellID) ∧ level (0x1 : CellID) ≤ 30 := by
  decide

end S2Proofs.C01
