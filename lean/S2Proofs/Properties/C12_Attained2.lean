/-
  C12 — ATTAINED for `Cell.DistanceToEdge` / `Cell.MaxDistanceToEdge` in EVERY branch, and the link
  `Cell.ContainsPoint(p)  ⇒  Cell.CapBound().ContainsPoint(p)`   (package c12edgeatt).

  (1) `DistanceToEdge` (model `S2.CellEdgeM.distanceToEdge`, bit-exact).  c12dist2 proved "attained" (some point of the exact cell and
      some point of the arc are at most `2^-45` farther apart than the reported value) except for the branch `return 0` of the crossing
      loop.  That branch is done here (`distanceToEdge_crossing_return`): the loop returns iff one of the four values of the EXACT
      specification `exactCrossing a b V_k V_{k+1}` is not `DoNotCross` (C03); `MaybeCross` means an endpoint of the edge IS a float
      vertex (within 2u of an exact corner); `Cross` means — by c17pairs2's `weak_cross_meets`, for ANY vanishing determinants, symbolic
      perturbation included — that the closed arcs `ab` and `V_k V_{k+1}` have a common point, provided the two great circles are
      different; the float edge is within 8u of the exact edge.  So a point of the exact cell is within squared chord `2^-100` of a
      point of the arc, the reported `0` is right up to `2^-100`.
      REMAINING CLASS (explicit, decidable hypothesis `CrossCirclesDiffer c a b`): the exact specification answers `Cross` for a cell
      edge whose two FLOAT vertices both lie exactly on the great circle of `ab` (all four determinants vanish; the answer is purely the
      symbolic perturbation's; needs the consistency theory of the perturbation).  `EdgeCirclesDiffer` (no float cell edge on the great
      circle of `ab`) implies it.
      Consequences: `distanceToEdge_attained`, `distanceToEdge_within` (two-sided `2^-44`), `maxDistanceToEdge_attained`,
      `maxDistanceToEdge_within` (two-sided `2^-40`).
  (2) `containsPoint_capBound` (level ≥ 2) — see the second half of this file; all levels: `C12_Attained2_Low.lean`.
-/
import S2Proofs.C12Dist2.EdgeAttained2
import S2Proofs.Properties.C12_Distance2
import S2Proofs.Properties.C12_MaxDistance2
import S2Proofs.Properties.C12_CapBound
import S2Proofs.C12Cap.ContainsReal
import S2Proofs.C12Cap.ContainsGlue
import S2Proofs.C12Cap.CellWidth
import S2Proofs.C12Cap.Pad2
import S2Proofs.C12Cap.Pad3
import S2Proofs.C12Cap.ContainsRel
import S2Proofs.C12Cap.Level2

set_option linter.unusedSimpArgs false
set_option linter.unusedVariables false
set_option exponentiation.threshold 3000

namespace S2Proofs.C12
open S2 S2.CellID S2.CellM S2.CellEdgeM S2.EdgeNum S2Proofs.F64Order S2Proofs.FloatErr
open S2Proofs.C12Dist S2Proofs.C16Acc

section edge
open S2Proofs.C17Err S2Proofs.C17Err.R3 S2Proofs.C17Pairs S2Proofs.C17 S2Proofs.C08World S2Proofs.C12Dist2

/-- **`Cross` of the exact specification of `CrossingSign` on different great circles ⇒ the closed arcs have a common point**,
    whatever determinants vanish (the `exactCrossing` form of c17pairs2's `crosses_meets`; `exactCrossing` is what
    `ChainCrossingSign` returns by C03) -/
theorem exactCross_arcs_meet {a b c d : V3} (ha : C02Err.Unitish a) (hb : C02Err.Unitish b) (hc : C02Err.Unitish c)
    (hd : C02Err.Unitish d) (hcirc : CirclesDifferZ a b c d) (h : S2.Crossing.exactCrossing a b c d = 1) :
    ArcsMeet a b c d := by
  rcases exactCrossing_cases a b c d with ⟨_, h0⟩ | ⟨_, h4, _⟩ | hn
  · rw [h0] at h; cases h
  · exact exactCross_meets ha hb hc hd hcirc h4
  · rw [hn] at h; cases h

/-- **the branch `return 0` of the crossing loop of `DistanceToEdge`**: if the code gets to the loop (`minDist ≠ 0`) and the loop
    returns, the result is exactly `0`, and some point of the EXACT cell is within squared chord `2^-100` of some point of the arc.
    Hypotheses: valid cell, unit-length endpoints, `CrossCirclesDiffer` — nothing about the vertices (they are `Unitish` by
    `vertex_unitish`), nothing about `EdgeOK` or `WedgeMargin`. -/
theorem distanceToEdge_crossing_return (id : CellID) (hv : isValid id = true) (a b : V3) (ha : UnitPt a) (hb : UnitPt b)
    (hcirc : CrossCirclesDiffer (cellFromCellID id) a b)
    (hz : ¬ F64.feq (minChord (distance (cellFromCellID id) a) [distance (cellFromCellID id) b]) fzero = true)
    (hany : anyCrossing (Crosser.initChain a b (vertex (cellFromCellID id) 3)) (vertices (cellFromCellID id)) = true) :
    distanceToEdge (cellFromCellID id) a b = fzero ∧
    ∃ q r : C17Err.R3, InCellXYZ (cellFromCellID id) (toAcc q) ∧ OnArc (vecR a) (vecR b) r ∧ chordPQ q r ≤ 1 / 2 ^ 100 :=
  ⟨distanceToEdge_crossing_value _ a b hz hany,
    crossing_loop_attained id hv (C12Dist2.unitish_of_unitPt ha) (C12Dist2.unitish_of_unitPt hb) ha.len_pos hb.len_pos hcirc hany⟩

/-- **ATTAINED for `DistanceToEdge`, every branch**: for every valid cell and every edge in the domain of
    `distanceToEdge_lower_bound`, some point of the exact cell and some point of the arc are at most `2^-45` (squared chord) farther
    apart than the reported value.  The proviso `hcode` of `distanceToEdge_attained_partial` is gone; the only extra hypothesis is
    `CrossCirclesDiffer` (see the file header: `Cross` for a float cell edge lying on the great circle of `ab`). -/
theorem distanceToEdge_attained (id : CellID) (hv : isValid id = true) (a b : V3)
    (ha : UnitPt a) (hb : UnitPt b) (hE : EdgeOK a b) (hV : VerticesOK (cellFromCellID id) a b)
    (hcirc : CrossCirclesDiffer (cellFromCellID id) a b) :
    ∃ q r : C17Err.R3, InCellXYZ (cellFromCellID id) (toAcc q) ∧ OnArc (vecR a) (vecR b) r ∧
      chordPQ q r ≤ val (distanceToEdge (cellFromCellID id) a b) + 1 / 2 ^ 45 :=
  distanceToEdge_attained2 id hv a b ha hb hE (fun k hk => ⟨(hV k hk).1, (hV k hk).2⟩) hcirc

/-- **two-sided**: `DistanceToEdge` is within `2^-44` of the TRUE minimum of the squared chord over (exact cell) × (arc) -/
theorem distanceToEdge_within (id : CellID) (hv : isValid id = true) (a b : V3)
    (ha : UnitPt a) (hb : UnitPt b) (hE : EdgeOK a b) (hV : VerticesOK (cellFromCellID id) a b)
    (hcirc : CrossCirclesDiffer (cellFromCellID id) a b) :
    (∀ q r : C17Err.R3, InCellXYZ (cellFromCellID id) (toAcc q) → OnArc (vecR a) (vecR b) r →
      val (distanceToEdge (cellFromCellID id) a b) ≤ chordPQ q r + 1 / 2 ^ 44) ∧
    (∃ q r : C17Err.R3, InCellXYZ (cellFromCellID id) (toAcc q) ∧ OnArc (vecR a) (vecR b) r ∧
      |val (distanceToEdge (cellFromCellID id) a b) - chordPQ q r| ≤ 1 / 2 ^ 44) := by
  have hlo := fun q r hq hr => (distanceToEdge_lower_bound id hv a b ha hb hE hV q r hq hr).2
  refine ⟨hlo, ?_⟩
  obtain ⟨q, r, hq, hr, h⟩ := distanceToEdge_attained id hv a b ha hb hE hV hcirc
  refine ⟨q, r, hq, hr, ?_⟩
  have := hlo q r hq hr
  have h45 : (1 : ℝ) / 2 ^ 45 ≤ 1 / 2 ^ 44 := by norm_num
  rw [abs_le]; constructor <;> linarith

/-- the full claim of c12dist2 (`DistanceToEdgeAttainedClaim`) restricted to the covered class -/
def DistanceToEdgeAttainedOnCircles (err : ℝ) : Prop :=
  ∀ (id : CellID) (a b : V3), isValid id = true → UnitPt a → UnitPt b → EdgeOK a b → VerticesOK (cellFromCellID id) a b →
    CrossCirclesDiffer (cellFromCellID id) a b →
    ∃ q r : C17Err.R3, InCellXYZ (cellFromCellID id) (toAcc q) ∧ OnArc (vecR a) (vecR b) r ∧
      chordPQ q r ≤ val (distanceToEdge (cellFromCellID id) a b) + err

theorem distanceToEdgeAttainedOnCircles_holds : DistanceToEdgeAttainedOnCircles (1 / 2 ^ 45) :=
  fun id a b hv ha hb hE hV hc => distanceToEdge_attained id hv a b ha hb hE hV hc

/-- what is missing for `DistanceToEdgeAttainedClaim` is exactly the class `¬ CrossCirclesDiffer` -/
theorem distanceToEdgeAttainedClaim_of_circles
    (h : ∀ (id : CellID) (a b : V3), isValid id = true → UnitPt a → UnitPt b → CrossCirclesDiffer (cellFromCellID id) a b) :
    DistanceToEdgeAttainedClaim (1 / 2 ^ 45) :=
  fun id a b hv ha hb hE hV => distanceToEdge_attained id hv a b ha hb hE hV (h id a b hv ha hb)

/-- **ATTAINED for `MaxDistanceToEdge`, every branch**: near branch unconditional; far branch `4 − DistanceToEdge(−a, −b)` through
    `distanceToEdge_attained` for the antipodal edge; extra hypothesis: `CrossCirclesDiffer` for the antipodal edge
    (used only in the far branch). -/
theorem maxDistanceToEdge_attained (id : CellID) (hv : isValid id = true) (a b : V3)
    (ha : UnitPt a) (hb : UnitPt b) (hE : EdgeOK a b) (hV : AntipodalVerticesOK (cellFromCellID id) a b)
    (hcirc : CrossCirclesDiffer (cellFromCellID id) (negV a) (negV b)) :
    ∃ q r : C17Err.R3, InCellXYZ (cellFromCellID id) (toAcc q) ∧ OnArc (vecR a) (vecR b) r ∧
      val (maxDistanceToEdge (cellFromCellID id) a b) ≤ chordPQ q r + 1 / 2 ^ 44 :=
  maxDistanceToEdge_attained2 id hv a b ha hb hE (fun k hk => ⟨(hV k hk).1, (hV k hk).2⟩) hcirc

/-- **two-sided**: `MaxDistanceToEdge` is within `2^-40` of the TRUE maximum of the squared chord over (exact cell) × (arc) -/
theorem maxDistanceToEdge_within (id : CellID) (hv : isValid id = true) (a b : V3)
    (ha : UnitPt a) (hb : UnitPt b) (hE : EdgeOK a b) (hV : AntipodalVerticesOK (cellFromCellID id) a b)
    (hcirc : CrossCirclesDiffer (cellFromCellID id) (negV a) (negV b)) :
    (∀ q r : C17Err.R3, InCellXYZ (cellFromCellID id) (toAcc q) → OnArc (vecR a) (vecR b) r →
      chordPQ q r ≤ val (maxDistanceToEdge (cellFromCellID id) a b) + 1 / 2 ^ 40) ∧
    (∃ q r : C17Err.R3, InCellXYZ (cellFromCellID id) (toAcc q) ∧ OnArc (vecR a) (vecR b) r ∧
      |val (maxDistanceToEdge (cellFromCellID id) a b) - chordPQ q r| ≤ 1 / 2 ^ 40) := by
  have hup := fun q r hq hr => (maxDistanceToEdge_upper_bound id hv a b ha hb hE hV q r hq hr).2
  refine ⟨hup, ?_⟩
  obtain ⟨q, r, hq, hr, h⟩ := maxDistanceToEdge_attained id hv a b ha hb hE hV hcirc
  refine ⟨q, r, hq, hr, ?_⟩
  have := hup q r hq hr
  have h44 : (1 : ℝ) / 2 ^ 44 ≤ 1 / 2 ^ 40 := by norm_num
  rw [abs_le]; constructor <;> linarith

/-- the simpler sufficient condition: no float cell edge lies on the great circle of `ab` -/
theorem crossCirclesDiffer_of_edges {c : Cell} {a b : V3} (h : EdgeCirclesDiffer c a b) : CrossCirclesDiffer c a b :=
  crossCirclesDiffer_of_edge h

/-- **the remaining class, spelled out**: on the domain (`EdgeOK a b`), `CrossCirclesDiffer` holds as soon as for every cell edge at
    least one of `a`, `b` is off the plane through the two float vertices — i.e. what is NOT covered is a `Cross` answer for a cell
    edge with BOTH `det(V_k, V_{k+1}, a) = 0` and `det(V_k, V_{k+1}, b) = 0` (exact determinants of the float vectors). -/
theorem crossCirclesDiffer_of_dets {c : Cell} {a b : V3} (hE : EdgeOK a b)
    (h : ∀ k : Fin 4,
      S2.Exact.det3 (S2.Exact.ofV3 (vertex c k.val)) (S2.Exact.ofV3 (vertex c (k + 1).val)) (S2.Exact.ofV3 a) ≠ 0 ∨
      S2.Exact.det3 (S2.Exact.ofV3 (vertex c k.val)) (S2.Exact.ofV3 (vertex c (k + 1).val)) (S2.Exact.ofV3 b) ≠ 0) :
    CrossCirclesDiffer c a b :=
  crossCirclesDiffer_of_edge (edgeCirclesDiffer_of_det (edge_cross_pos hE) h)

/-! ### non-vacuity: cell `151f000000000000` (face 0, level 6; `cellB` of `C12_Distance2.lean`) and an edge that crosses it -/

/-- an edge through the cell: both endpoints outside; the arc crosses the float edges `V3 V0` and `V1 V2` (Go: `Cross` for both) -/
def crA : V3 := ⟨⟨0x3fe4cc156ec0eda1⟩, ⟨0x3fe1174c2d370f41⟩, ⟨0x3fe14d6bb31226ab⟩⟩
def crB : V3 := ⟨⟨0x3fe67da04882f597⟩, ⟨0x3fdaed7919b3def3⟩, ⟨0x3fe25ac9d83af239⟩⟩

set_option maxRecDepth 100000 in
/-- the code gets to the crossing loop, the loop returns, the result is 0 — and the covered class applies (`EdgeCirclesDiffer`) -/
theorem cross_instance_value :
    F64.feq (minChord (distance cellB crA) [distance cellB crB]) fzero = false ∧
    anyCrossing (Crosser.initChain crA crB (vertex cellB 3)) (vertices cellB) = true ∧
    distanceToEdge cellB crA crB = fzero ∧ EdgeCirclesDiffer cellB crA crB := by decide +kernel

/-- every hypothesis of `distanceToEdge_attained` holds on that instance -/
theorem cross_instance : isValid (0x151f000000000000 : CellID) = true ∧ UnitPt crA ∧ UnitPt crB ∧ EdgeOK crA crB ∧
    VerticesOK (cellFromCellID 0x151f000000000000) crA crB ∧ CrossCirclesDiffer (cellFromCellID 0x151f000000000000) crA crB := by
  have h : isValid (0x151f000000000000 : CellID) = true ∧ UnitPtZ crA ∧ UnitPtZ crB ∧ EdgeOKZ crA crB ∧
      UnitPtZ vB0 ∧ UnitPtZ vB1 ∧ UnitPtZ vB2 ∧ UnitPtZ vB3 ∧
      WedgeMarginZ vB0 crA crB ∧ WedgeMarginZ vB1 crA crB ∧ WedgeMarginZ vB2 crA crB ∧ WedgeMarginZ vB3 crA crB := by
    decide +kernel
  obtain ⟨v, p, b, e, u0, u1, u2, u3, m0, m1, m2, m3⟩ := h
  obtain ⟨e0, e1, e2, e3⟩ := vB_eq
  have hp := unitPt_of_int p
  have hb := unitPt_of_int b
  refine ⟨v, hp, hb, edgeOK_of_int e, ?_, ?_⟩
  · rw [cellB_eq]
    intro k hk
    interval_cases k
    · rw [e0]; exact ⟨unitPt_of_int u0, wedgeMargin_of_int _ _ _ (unitPt_of_int u0) hp hb m0⟩
    · rw [e1]; exact ⟨unitPt_of_int u1, wedgeMargin_of_int _ _ _ (unitPt_of_int u1) hp hb m1⟩
    · rw [e2]; exact ⟨unitPt_of_int u2, wedgeMargin_of_int _ _ _ (unitPt_of_int u2) hp hb m2⟩
    · rw [e3]; exact ⟨unitPt_of_int u3, wedgeMargin_of_int _ _ _ (unitPt_of_int u3) hp hb m3⟩
  · rw [cellB_eq]; exact crossCirclesDiffer_of_edges cross_instance_value.2.2.2

/-- the branch theorem applied: the code returns 0 and a cell point is within `2^-100` of the arc -/
example : distanceToEdge (cellFromCellID 0x151f000000000000) crA crB = fzero ∧
    ∃ q r : C17Err.R3, InCellXYZ (cellFromCellID 0x151f000000000000) (toAcc q) ∧ OnArc (vecR crA) (vecR crB) r ∧
      chordPQ q r ≤ 1 / 2 ^ 100 := by
  obtain ⟨v, p, b, _, _, hc⟩ := cross_instance
  obtain ⟨hz, hany, _, _⟩ := cross_instance_value
  refine distanceToEdge_crossing_return _ v crA crB p b hc ?_ ?_
  · rw [cellB_eq, hz]; simp
  · rw [cellB_eq]; exact hany

/-- `distanceToEdge_within` applied to the crossing instance and to the non-crossing instance of `C12_Distance2.lean` -/
example : ∃ q r : C17Err.R3, InCellXYZ (cellFromCellID 0x151f000000000000) (toAcc q) ∧ OnArc (vecR crA) (vecR crB) r ∧
    |val (distanceToEdge (cellFromCellID 0x151f000000000000) crA crB) - chordPQ q r| ≤ 1 / 2 ^ 44 := by
  obtain ⟨v, p, b, e, hV, hc⟩ := cross_instance
  exact (distanceToEdge_within _ v crA crB p b e hV hc).2

set_option maxRecDepth 100000 in
/-- the determinant form of the covered class holds on the crossing instance (for every cell edge even both determinants are ≠ 0) -/
example : ∀ k : Fin 4,
    S2.Exact.det3 (S2.Exact.ofV3 (vertex cellB k.val)) (S2.Exact.ofV3 (vertex cellB (k + 1).val)) (S2.Exact.ofV3 crA) ≠ 0 ∨
    S2.Exact.det3 (S2.Exact.ofV3 (vertex cellB k.val)) (S2.Exact.ofV3 (vertex cellB (k + 1).val)) (S2.Exact.ofV3 crB) ≠ 0 := by
  decide +kernel

end edge

/-! ## (2) `Cell.ContainsPoint(p)  ⇒  Cell.CapBound().ContainsPoint(p)` -/

section cap
open S2.Exact S2Proofs.CapF64 S2Proofs.C12Cap S2.CapF64

/-- the statement for one cell id: every Normalize-grade float point accepted by the FLOAT test `Cell.ContainsPoint` (which accepts
    directions up to `2·DBL_EPSILON` + two roundings OUTSIDE the uv rectangle) is accepted by the FLOAT test of the cap returned by
    `Cell.CapBound()` — for every admissible outcome `dc` of the `sin` call inside `padCapBound` (Go: `capSlackChord = 36·2^-104`). -/
def ContainsPointImpliesCapBound (id : CellID) : Prop :=
  ∀ (dc : F64), Fin dc → 35 * eps ^ 2 ≤ val dc → val dc ≤ 4 → ∀ p : V3, nunitB p = true →
    containsPoint (cellFromCellID id) p = true → (capBound (cellFromCellID id) dc).containsPoint p = true

/-- **level ≥ 3, through the ABSOLUTE margin** (`containsPoint_real`: an accepted direction is at most `2.76ε` outside the rectangle in
    each uv coordinate, hence within chord `3.904ε` of the exact cell; `contains_chain`; `padRadius_lower_small`: for raw radii
    `≤ 1/20` the padding provides `R(1+9.6ε) + 9.85ε√R + 90ε²`; `cell_width_le3` + `raw_radius_le_of_width3`: raw radius `≤ 1/20`
    from level 3 on; `raw_radius_ge`: raw radius `≥ 2^-80`). -/
theorem containsPoint_capBound_level3 (id : CellID) (hv : CellID.isValid id = true) (hl : 3 ≤ CellID.level id) :
    ContainsPointImpliesCapBound id := by
  intro dc fdc hdc0 hdc4 p hp hcp
  have ctx := capCtx id hv
  obtain ⟨wu, wv⟩ := cell_width_le3 id hv hl
  obtain ⟨R, hraw, fR, n0, h1, m0, m1, m2, m3⟩ := raw_radius_le_of_width3 id hv wu wv
  have hRlo := raw_radius_ge id hv R hraw
  obtain ⟨fp, p4, plow⟩ := padRadius_lower_small R dc fR fdc hRlo h1 hdc0 hdc4
  obtain ⟨f1, f2, f3, f4, ok, hf⟩ := cellOK id hv
  obtain ⟨e1, e0, e3, e2⟩ := cell_edge_exact id hv
  obtain ⟨hz, c1, c2, c3, c4⟩ := containsPoint_real (cellFromCellID id) f1 f2 f3 f4 ok hf e1 e0 e3 e2 p hp hcp
  rw [capBound_eq id hv dc, hraw, containsPoint_eq]
  set c := cellFromCellID id with hc
  have key := contains_chain c ctx (val R) m0 m1 m2 m3 n0 (by linarith) (uvwR c.face (ofV p)) (nunit_real hp c.face) hz c1 c2 c3 c4
  rw [dist2_frame] at key
  have hC' := (nunitB_iff _).1 ctx.ctrN
  have hp' := (nunitB_iff p).1 hp
  obtain ⟨ca1, ca2, ca3⟩ := nunit_coord_le hC'
  obtain ⟨cb1, cb2, cb3⟩ := nunit_coord_le hp'
  obtain ⟨fb, _, _, hU, _⟩ := between_spec (capCenter c) p hC'.1 hp'.1 ca1 ca2 ca3 cb1 cb2 cb3
  apply (le_iff_val fb fp).2
  linarith

/-- **`containsPoint_capBound` — level ≥ 2, through the RELATIVE margin**: `containsPoint_real_rel` (the margin `2ε` of
    `Cell.ContainsPoint` is exact and its two roundings are relative to the coordinate: an accepted quotient exceeds the bound `t` by at
    most `(2+|t|)ε + 8ε²`), `clamp_point_rel` (`(2+|a|)² + (2+|b|)² ≤ 9·|(a,b,1)|²`: the accepted direction is within chord
    `3.0005ε` of the exact cell), `contains_chain_rel`, `padRadius_lower_mid` (for raw radii `≤ 0.1703` the padding provides
    `R(1+9.6ε) + 8.1ε√R + 90ε²`), `raw_radius_le_level2` (raw radius `≤ 0.1703` from level 2 on), `raw_radius_ge`.
    Levels 0 and 1 (30 cells) are NOT reachable by this worst-case-per-operation budget (c12cap: the padding constant would have to be
    ≈ 7.2 instead of 6); they are proved from the actual float values of the 30 caps in `Properties/C12_Attained2_Low.lean`
    (`containsPoint_capBound_all`). -/
theorem containsPoint_capBound (id : CellID) (hv : CellID.isValid id = true) (hl : 2 ≤ CellID.level id) :
    ContainsPointImpliesCapBound id := by
  intro dc fdc hdc0 hdc4 p hp hcp
  have ctx := capCtx id hv
  obtain ⟨R, hraw, fR, n0, h1, m0, m1, m2, m3⟩ := raw_radius_le_level2 id hv hl
  have hRlo := raw_radius_ge id hv R hraw
  obtain ⟨fp, p4, plow⟩ := padRadius_lower_mid R dc fR fdc hRlo h1 hdc0 hdc4
  obtain ⟨f1, f2, f3, f4, ok, hf⟩ := cellOK id hv
  obtain ⟨hz, c1, c2, c3, c4⟩ := containsPoint_real_rel (cellFromCellID id) f1 f2 f3 f4 ok hf p hp hcp
  rw [capBound_eq id hv dc, hraw, containsPoint_eq]
  set c := cellFromCellID id with hc
  have key := contains_chain_rel c ctx (val R) m0 m1 m2 m3 n0 (by linarith) (uvwR c.face (ofV p)) (nunit_real hp c.face) hz c1 c2 c3 c4
  rw [dist2_frame] at key
  have hC' := (nunitB_iff _).1 ctx.ctrN
  have hp' := (nunitB_iff p).1 hp
  obtain ⟨ca1, ca2, ca3⟩ := nunit_coord_le hC'
  obtain ⟨cb1, cb2, cb3⟩ := nunit_coord_le hp'
  obtain ⟨fb, _, _, hU, _⟩ := between_spec (capCenter c) p hC'.1 hp'.1 ca1 ca2 ca3 cb1 cb2 cb3
  apply (le_iff_val fb fp).2
  linarith

/-- the coverers' form: with Go's value of `dc` -/
theorem containsPoint_capBound_go (id : CellID) (hv : CellID.isValid id = true) (hl : 2 ≤ CellID.level id) (p : V3)
    (hp : nunitB p = true) (hcp : containsPoint (cellFromCellID id) p = true) :
    (capBound (cellFromCellID id) capSlackChord).containsPoint p = true := by
  have hc : 35 * eps ^ 2 ≤ val capSlackChord ∧ val capSlackChord ≤ 4 := by
    rw [capSlackChord_val]
    have := eps_pos
    constructor
    · nlinarith [sq_nonneg eps]
    · unfold eps; norm_num
  exact containsPoint_capBound id hv hl capSlackChord (by decide) hc.1 hc.2 p hp hcp

/-! ### non-vacuity of (2): a float point ACCEPTED by `Cell.ContainsPoint` whose direction is OUTSIDE the exact cell

  Cell `151f000000000000` (face 0, level 6, `cellB`), `pOutB` = the Normalize-grade point whose u coordinate `y/x` exceeds the upper
  bound `u1` of the cell by `2.05·2^-52` (exactly; the float quotient is above `u1` and at most `fl(u1 + 2ε)`).
  `capBound_containsPoint` of c12cap does NOT apply to it (its hypothesis `InCone` is false: `pOutB_notInCone`);
  `containsPoint_capBound` does. -/

def pOutB : V3 := ⟨⟨0x3fe598895dbbef9a⟩, ⟨0x3fdf4875a69d1244⟩, ⟨0x3fe1b0d4317e2911⟩⟩

set_option maxRecDepth 100000 in
theorem pOutB_facts : nunitB pOutB = true ∧ containsPoint cellB pOutB = true ∧
    toInt cellB.uv.1.2 * toInt pOutB.x < toInt pOutB.y * 2 ^ 1074 ∧ CellID.isValid (0x151f000000000000 : CellID) = true ∧
    CellID.level (0x151f000000000000 : CellID) = 6 := by decide +kernel

theorem val_gt_of_int (a x y : F64) (h : toInt a * toInt x < toInt y * 2 ^ 1074) : val a * val x < val y := by
  unfold S2Proofs.FloatErr.val
  have hR : ((toInt a : ℤ) : ℝ) * ((toInt x : ℤ) : ℝ) < ((toInt y : ℤ) : ℝ) * (2 : ℝ) ^ 1074 := by exact_mod_cast h
  have hp : (0 : ℝ) < 2 ^ 1074 := by positivity
  rw [div_mul_div_comm, div_lt_div_iff₀ (by positivity) hp]
  generalize ((toInt a : ℤ) : ℝ) = A at *
  generalize ((toInt x : ℤ) : ℝ) = X at *
  generalize ((toInt y : ℤ) : ℝ) = Y at *
  generalize (2 : ℝ) ^ 1074 = B at *
  nlinarith

/-- the direction of `pOutB` is outside the exact cell: `P.x > u1·P.z` in the face frame -/
theorem pOutB_notInCone : ¬ InCone (rectOf cellB) (uvwR cellB.face (ofV pOutB)) := by
  intro h
  have h2 := h.2.2.1
  have hlt := val_gt_of_int _ _ _ pOutB_facts.2.2.1
  have hf : cellB.face = 0 := rfl
  rw [hf] at h2
  unfold uvwR rectOf ofV at h2
  simp only at h2
  linarith

/-- the theorem applied: Go's `CapBound().ContainsPoint(pOutB)` is true (not evaluated — PROVED from the budget) -/
example : (capBound (cellFromCellID 0x151f000000000000) capSlackChord).containsPoint pOutB = true := by
  obtain ⟨hn, hc, _, hv, hl⟩ := pOutB_facts
  refine containsPoint_capBound_go _ hv (by rw [hl]; norm_num) pOutB hn ?_
  rw [cellB_eq]; exact hc

-- valid ids of level exactly 2 and 3 exist (the theorems are not vacuous at their lowest levels)
example : CellID.isValid (0x3100000000000000 : CellID) = true ∧ CellID.level (0x3100000000000000 : CellID) = 2 ∧
    CellID.isValid (0x3040000000000000 : CellID) = true ∧ CellID.level (0x3040000000000000 : CellID) = 3 := by decide

end cap

end S2Proofs.C12
