/-
  C15, second half — "… and a value a decoder returns can be queried without panicking", as theorems
  about the model decoders `S2.Codec.*` (each proved EQUAL to the regenerated `Dec`-monad reading of
  the Go decoder: S2Proofs/Ties/C09_Decode.lean) and the Shape accessor models `S2.Shapes.*` (tied to
  s2/polygon.go, s2/loop.go, s2/polyline.go: S2Proofs/Ties/C06.lean, C06_Polygon.lean).

  For EVERY byte string `bs` on which a model decoder succeeds:

  §1  what the decoded value looks like (`DecodedLoop`, `DecodedLoopC`, `DecodedPolygon`; proved by
      inversion of the decoders in S2Proofs/C15/Decoded.lean): vertex / loop / cell counts within the
      decoder limits, loops with 0, 1 or 2 vertices allowed anywhere, depth a 32-bit (lossless) or
      64-bit (compressed) pattern, `hasHoles` unconstrained in the lossless format, and the lossless
      formats hold 24 input bytes per decoded vertex (a decoded value is never larger than its input
      by more than a constant factor).
  §2  the accessors never go out of range on such a value (`Usable`, S2Proofs/C15/UsableShapes.lean):
      the state of a decoded polygon is what `initEdgesAndIndex` builds from the decoded loops
      (`PolygonS.init`), and on THAT state — for every loop list, ≤ 12 loops (linear scans) and > 12
      loops (`cumulativeEdges`), zero-vertex loops included — `Edge / ChainPosition / Chain / ChainEdge`
      return for all in-range arguments, return only existing chains / loops / vertices, and the edge-id
      and (chain, offset) enumerations agree.  `none` of the accessor models IS the Go panic (index out of
      range, integer divide by zero), so `= some …` is "does not panic".  All counts are far below 2^63,
      so modelling Go `int` by `Int` is faithful on decoded values.
      The FULL Shape contract (tiling of `[0, NumEdges)` by the chains) holds on a decoded polygon iff
      no 1-vertex loop sits among ≤ 12 loops (`decodePolygon_contract_iff`); it fails e.g. for the 7 bytes
      `04 1e 01 00 00 00 03` (`decoded_emptyLoop_contract_false`) — not a panic, and `Polygon.Validate`
      rejects such a polygon; observed identically on the Go code (DELIVER.md).
  §3  re-encoding: every model encoder accepts every decoded value (`reencode_succeeds`, with exact
      characterisations of encoder failure); lossless re-encoding reproduces the decoded value exactly
      (`reencode_lossless_exact`, `reencode_loop_exact`, …); re-encoding with the format choice of
      `Polygon.encode` reproduces the observable fields under four extra conditions
      (`reencode_roundtrip`), two of which are shown necessary by concrete decoded values.
  §4  outside (stated, not proved): see the end of the file.
-/
import S2Proofs.C15.Decoded
import S2Proofs.C15.UsableShapes
import S2Proofs.C15.Reencode
import S2Proofs.Properties.C06
import S2Proofs.Properties.C09
namespace S2Proofs.C15
open S2 S2.Codec S2.Shapes S2Proofs.Codec S2Proofs.C06

/-! ## §1 decoded values -/

/-- Loop.Decode: any vertex count up to the limit (0, 1, 2 included), 32-bit depth; the input holds
    24 bytes per vertex plus 43 bytes of header, flags and bound. -/
theorem decodeLoop_ok {bs : Bytes} {l : LoopM} {rest : Bytes} (h : decodeLoop bs = some (l, rest)) :
    DecodedLoop l ∧ rest.length + 24 * l.vertices.length + 43 ≤ bs.length :=
  ⟨⟨(decodeLoop_inv h).1, (decodeLoop_inv h).2.1⟩, (decodeLoop_inv h).2.2⟩

/-- Loop.decodeCompressed (any snap level): vertex count within the limit, 64-bit depth, and a loop
    without encoded bound has at least one vertex. -/
theorem decodeLoopCompressed_ok {L : Nat} {bs : Bytes} {l : LoopC} {rest : Bytes}
    (h : decodeLoopCompressed L bs = some (l, rest)) : DecodedLoopC l := decodeLoopCompressed_inv h

/-- Polyline.Decode: at most 50 000 000 vertices, 24 input bytes each. -/
theorem decodePolyline_ok {bs : Bytes} {p : List V3} {rest : Bytes} (h : decodePolyline bs = some (p, rest)) :
    p.length ≤ maxEncodedVertices ∧ rest.length + 24 * p.length + 5 ≤ bs.length := decodePolyline_inv h

/-- CellUnion.Decode: at most 1 000 000 ids, 8 input bytes each (the ids themselves are arbitrary:
    queries on an invalid union are gated on `IsValid()`, a documented precondition). -/
theorem decodeCellUnion_ok {bs : Bytes} {cu : List UInt64} {rest : Bytes} (h : decodeCellUnion bs = some (cu, rest)) :
    cu.length ≤ maxCells ∧ rest.length + 8 * cu.length + 9 ≤ bs.length := decodeCellUnion_inv h

/-- Cell.Decode: the id of a returned cell is a valid cell id (D25 repaired). -/
theorem decodeCell_ok {bs : Bytes} {id : UInt64} {rest : Bytes} (h : decodeCell bs = some (id, rest)) :
    S2.CellID.isValid id = true := decodeCell_inv h

/-- Polygon.Decode, either format: at most 10 000 000 loops, each a `DecodedLoopC`. -/
theorem decodePolygon_ok {bs : Bytes} {p : PolygonD} {rest : Bytes} (h : decodePolygon bs = some (p, rest)) :
    DecodedPolygon p := by
  obtain ⟨v, tl, _, h1 | h1⟩ := decodePolygon_inv h
  · exact decodedPolygon_of_lossless h1.2
  · exact (decodePolygonCompressed_inv h1.2).1

/-- Polygon.Decode, lossless format (version byte 1): the loops are `Loop.decode` results (bounds as
    encoded, 32-bit depths), the polygon bound is the encoded one, and the input holds 24 bytes per
    decoded vertex and 43 per loop. -/
theorem decodePolygon_lossless_shape {tl : Bytes} {p : PolygonD} {rest : Bytes}
    (h : decodePolygon (1 :: tl) = some (p, rest)) :
    ∃ (ms : List LoopM) (b : RectM), p = ⟨ms.map LoopM.toC, p.hasHoles, some b⟩ ∧
      ms.length ≤ maxEncodedLoops ∧ (∀ m ∈ ms, DecodedLoop m) ∧
      rest.length + 24 * (ms.map (·.vertices.length)).sum + 43 * ms.length + 40 ≤ (1 :: tl).length := by
  obtain ⟨v, tl', hcons, h1 | h1⟩ := decodePolygon_inv h
  · obtain ⟨rfl, rfl⟩ := List.cons.inj hcons
    obtain ⟨ms, b, hp, hn, hall, hsz⟩ := decodePolygonLossless_inv h1.2
    exact ⟨ms, b, hp, hn, hall, by simp only [List.length_cons]; omega⟩
  · obtain ⟨rfl, rfl⟩ := List.cons.inj hcons
    exact absurd h1.1 (by decide)

/-- Polygon.Decode, compressed format (version byte 4): `hasHoles` is recomputed from the depths
    (`initLoopProperties`), the polygon bound is recomputed (not part of the model value). -/
theorem decodePolygon_compressed_shape {tl : Bytes} {p : PolygonD} {rest : Bytes}
    (h : decodePolygon (4 :: tl) = some (p, rest)) :
    p.hasHoles = p.loops.any (fun l => l.depth % 2 == 1) ∧ p.bound = none := by
  obtain ⟨v, tl', hcons, h1 | h1⟩ := decodePolygon_inv h
  · obtain ⟨rfl, rfl⟩ := List.cons.inj hcons
    exact absurd h1.1 (by decide)
  · obtain ⟨rfl, rfl⟩ := List.cons.inj hcons
    exact (decodePolygonCompressed_inv h1.2).2

/-- `hasHoles` of a lossless polygon is whatever the third byte says — even for a polygon without
    loops, for every bound and every value of the ignored `owns_loops` byte. -/
theorem decodePolygon_hasHoles_free (owns : UInt8) (b : Bool) (r : RectM) (rest : Bytes) :
    decodePolygon ([1, owns] ++ writeBool b ++ writeUint32 0 ++ encodeRect r ++ rest)
      = some (⟨[], b, some r⟩, rest) := by
  have h0 : (0 : UInt32).toNat = 0 := rfl
  simp [decodePolygon, decodePolygonLossless, readUint8, encodingVersion, List.append_assoc, readN, h0,
    maxEncodedLoops]

/-- non-vacuity of §1: a lossless polygon of 14 loops with 0, 1, 2, 3, 0, … vertices (all-zero
    coordinates), and the 7-byte compressed polygon whose only loop declares zero vertices -/
def poly14 : PolygonM :=
  ⟨(List.range 14).map fun k => ⟨List.replicate (k % 4) default, k % 3 == 0, k, default⟩, true, default⟩
def bytes14 : Bytes := (encodePolygonLossless poly14).getD []
def bytesEmptyLoop : Bytes := [4, 30, 1, 0, 0, 0, 3]

example : bytes14.length = 1098 ∧
    (decodePolygon bytes14).map (fun r => (r.1.loops.map (·.vertices.length), r.1.hasHoles, r.2))
      = some ([0, 1, 2, 3, 0, 1, 2, 3, 0, 1, 2, 3, 0, 1], true, []) := by decide +kernel
example : decodePolygon bytesEmptyLoop = some (⟨[emptyLoopC], false, none⟩, []) := by decide +kernel

/-- non-vacuity of the remaining hypotheses of this file (`decoder bs = some …`): a 2-vertex loop, a
    1-vertex polyline, a cell union, a cell, a compressed loop declaring zero vertices (level 30), and the
    version bytes of the two polygon inputs above -/
example : (decodeLoop (encodeLoop ⟨[default, default], true, 7, default⟩)).map (·.1.vertices.length) = some 2 := by
  decide +kernel
example : (decodePolyline (encodePolyline [default])).map (·.1.length) = some 1 := by decide +kernel
example : (decodeCellUnion ((encodeCellUnion [1, 2, 3]).getD [])).map (·.1) = some [1, 2, 3] := by decide +kernel
example : (decodeCell (encodeCell 0x1000000000000000)).isSome = true := by decide +kernel
example : decodeLoopCompressed 30 [0, 0, 0, 3] = some (emptyLoopC, []) := by decide +kernel
example : bytes14.head? = some 1 ∧ bytesEmptyLoop.head? = some 4 := by decide +kernel

/-! ## §2 safe to query -/

/-- the accessor-level state of a decoded lossless loop -/
def loopState (l : LoopM) : LoopS := ⟨l.vertices.length, l.originInside, l.depth⟩
/-- … of a loop inside a decoded polygon -/
def loopCState (l : LoopC) : LoopS := ⟨l.vertices.length, l.originInside, l.depth⟩
/-- … of a decoded polyline -/
def polylineState (p : List V3) : SeqS := ⟨p.length⟩
/-- the accessor-level state of a decoded polygon: both `Polygon.decode` and `decodeCompressed` (via
    `initLoopProperties`) end with `initEdgesAndIndex` on the decoded loops -/
def polygonState (p : PolygonD) : PolygonS := PolygonS.init (p.loops.map loopCState)

/-- **decoded Loop**: the whole Shape contract (nothing panics on in-range arguments, positions invert
    chains, the chain tiles the edge range) — for 0, 1, 2, … vertices — and `NumEdges` is within the
    decoder limit. -/
theorem decodeLoop_usable {bs : Bytes} {l : LoopM} {rest : Bytes} (h : decodeLoop bs = some (l, rest)) :
    Contract (Loop.acc (loopState l)) (Loop.NumEdges (loopState l)) (Loop.NumChains (loopState l)) ∧
      Loop.NumEdges (loopState l) ≤ (maxEncodedVertices : Int) := by
  refine ⟨loop_contract _, ?_⟩
  have := (decodeLoop_ok h).1.nverts
  unfold Loop.NumEdges
  split
  · simp [maxEncodedVertices]
  · show ((l.vertices.length : Nat) : Int) ≤ _; omega

/-- **decoded Polyline**: the whole Shape contract (0 and 1 vertex: no edges, no chains). -/
theorem decodePolyline_usable {bs : Bytes} {p : List V3} {rest : Bytes} (h : decodePolyline bs = some (p, rest)) :
    Contract (Polyline.acc (polylineState p)) (Polyline.NumEdges (polylineState p))
        (Polyline.NumChains (polylineState p)) ∧
      Polyline.NumEdges (polylineState p) ≤ (maxEncodedVertices : Int) := by
  refine ⟨polyline_contract _, ?_⟩
  have := (decodePolyline_ok h).1
  unfold Polyline.NumEdges
  split
  · simp [maxEncodedVertices]
  · show ((p.length : Nat) : Int) - 1 ≤ _; omega

/-- **decoded Polygon, both formats, both search paths**: every accessor returns on every in-range
    argument, returns only existing chains, and the two edge enumerations agree; all counts are below
    2^49 (so no Go `int` computation wraps); every loop of the polygon, queried as a Shape of its own
    (`p.Loop(i)`), satisfies the whole Shape contract. -/
theorem decodePolygon_usable {bs : Bytes} {p : PolygonD} {rest : Bytes} (h : decodePolygon bs = some (p, rest)) :
    Usable (Polygon.acc (polygonState p)) (Polygon.NumEdges (polygonState p)) (Polygon.NumChains (polygonState p)) ∧
      Polygon.NumEdges (polygonState p) ≤ 500000000000000 ∧ Polygon.NumChains (polygonState p) ≤ 10000000 ∧
      ∀ l ∈ p.loops, Contract (Loop.acc (loopCState l)) (Loop.NumEdges (loopCState l)) (Loop.NumChains (loopCState l)) := by
  have hd := decodePolygon_ok h
  refine ⟨init_usable _, ?_, ?_, fun l _ => loop_contract _⟩
  · have h1 := init_numEdges_le (p.loops.map loopCState)
    have h2 := sum_le_of_forall_le (lens (p.loops.map loopCState)) maxEncodedVertices (by
      intro x hx
      simp only [lens, List.map_map, List.mem_map, Function.comp] at hx
      obtain ⟨l, hl, rfl⟩ := hx
      exact (hd.loops l hl).nverts)
    have h3 : (lens (p.loops.map loopCState)).length = p.loops.length := by simp [lens]
    have h4 := hd.nloops
    rw [h3] at h2
    simp only [maxEncodedVertices, maxEncodedLoops] at h2 h4
    have h5 : p.loops.length * 50000000 ≤ 10000000 * 50000000 := Nat.mul_le_mul_right _ h4
    show Polygon.NumEdges (PolygonS.init (p.loops.map loopCState)) ≤ _
    omega
  · have h4 := hd.nloops
    simp only [maxEncodedLoops] at h4
    show Polygon.NumChains (PolygonS.init (p.loops.map loopCState)) ≤ _
    have : Polygon.NumChains (PolygonS.init (p.loops.map loopCState)) = ((p.loops.length : Nat) : Int) := by
      unfold Polygon.NumChains Polygon.NumLoops
      rw [init_loops]; simp
    omega

/-- the one accessor loop the DECODER itself runs: `Loop.initBound` on a compressed loop without encoded
    bound evaluates `l.Vertex(i)` for `0 ≤ i ≤ len(vertices)`.  `DecodedLoopC.nonempty_of_nobound` (the
    `len == 0 → *l = *EmptyLoop()` substitution at the top of `initBound`) is exactly what keeps
    `i % len(vertices)` from dividing by zero. -/
theorem decodeLoopCompressed_initBound_vertices {L : Nat} {bs : Bytes} {l : LoopC} {rest : Bytes}
    (h : decodeLoopCompressed L bs = some (l, rest)) (hb : l.bound = none) (i : Int) (h0 : 0 ≤ i)
    (h1 : i ≤ (l.vertices.length : Int)) : ∃ v, Loop.Vertex (loopCState l) i = some v := by
  have hpos := (decodeLoopCompressed_ok h).nonempty_of_nobound hb
  by_cases hi : i < (l.vertices.length : Int)
  · exact ⟨i, vertex_lt (loopCState l) h0 hi⟩
  · have : i = ((loopCState l).n : Int) := by show i = (l.vertices.length : Int); omega
    rw [this]
    exact ⟨0, vertex_n (loopCState l) hpos⟩
example : Loop.Vertex ⟨0, false, 0⟩ 0 = none := by decide

/-- the loops of the state are the decoded loops, whatever `initEdgesAndIndex` decided -/
theorem polygonState_loops (p : PolygonD) : (polygonState p).loops = p.loops.map loopCState := by
  unfold polygonState
  exact init_loops _

/-- **decoded Polygon: the vertices an edge names exist** (the `get?`-style reading): for every edge
    id below `NumEdges`, `Edge(e)` returns two vertex labels `(k, v)`, `(k, w)` where `k` is the index
    of a decoded loop and `v`, `w` are indices into THAT loop's decoded vertex list. -/
theorem decodePolygon_edge_vertices_exist {bs : Bytes} {p : PolygonD} {rest : Bytes}
    (h : decodePolygon bs = some (p, rest)) (e : Int) (h0 : 0 ≤ e) (h1 : e < Polygon.NumEdges (polygonState p)) :
    ∃ (k v w : Nat) (l : LoopC), Polygon.Edge (polygonState p) e = some (((k : Int), (v : Int)), ((k : Int), (w : Int))) ∧
      p.loops[k]? = some l ∧ (l.vertices[v]?).isSome = true ∧ (l.vertices[w]?).isSome = true := by
  obtain ⟨c, o, ⟨a, b⟩, _, _, _, _, hed, _⟩ := (decodePolygon_usable h).1.edge_ok e h0 h1
  have hed' : Polygon.Edge (polygonState p) e = some (a, b) := hed
  obtain ⟨k, hk, ha, hb, ha0, ha1, hb0, hb1⟩ := edge_labels hed'
  have hk' : k < p.loops.length := by simpa [polygonState_loops] using hk
  have hn : (polygonState p).loops[k].n = p.loops[k].vertices.length := by
    simp [polygonState_loops, loopCState]
  rw [hn] at ha1 hb1
  obtain ⟨a1, a2⟩ := a
  obtain ⟨b1, b2⟩ := b
  simp only at ha hb ha0 ha1 hb0 hb1
  subst ha; subst hb
  obtain ⟨v, rfl⟩ := Int.eq_ofNat_of_zero_le ha0
  obtain ⟨w, rfl⟩ := Int.eq_ofNat_of_zero_le hb0
  refine ⟨k, v, w, p.loops[k], hed', by simp [hk'], ?_, ?_⟩
  · have : v < p.loops[k].vertices.length := by omega
    simp [this]
  · have : w < p.loops[k].vertices.length := by omega
    simp [this]

/-- the same for `ChainEdge(i, j)` on every offset inside `Chain(i)` -/
theorem decodePolygon_chainEdge_vertices_exist {bs : Bytes} {p : PolygonD} {rest : Bytes}
    (h : decodePolygon bs = some (p, rest)) (i : Int) (hi0 : 0 ≤ i) (hi1 : i < Polygon.NumChains (polygonState p)) :
    ∃ st len, Polygon.Chain (polygonState p) i = some (st, len) ∧ ∀ j, 0 ≤ j → j < len →
      ∃ (k v w : Nat) (l : LoopC), Polygon.ChainEdge (polygonState p) i j = some (((k : Int), (v : Int)), ((k : Int), (w : Int))) ∧
        (k : Int) = i ∧ p.loops[k]? = some l ∧ (l.vertices[v]?).isSome = true ∧ (l.vertices[w]?).isSome = true := by
  obtain ⟨st, len, hc, _, _, _, hall⟩ := (decodePolygon_usable h).1.chain_ok i hi0 hi1
  refine ⟨st, len, hc, ?_⟩
  intro j hj0 hj1
  obtain ⟨⟨a, b⟩, _, _, hce⟩ := hall j hj0 hj1
  have hce' : Polygon.ChainEdge (polygonState p) i j = some (a, b) := hce
  obtain ⟨k, hk, ha, hb, ha0, ha1, hb0, hb1⟩ := chainEdge_labels hce'
  have hk' : k < p.loops.length := by simpa [polygonState_loops] using hk
  have hn : (polygonState p).loops[k].n = p.loops[k].vertices.length := by
    simp [polygonState_loops, loopCState]
  rw [hn] at ha1 hb1
  have hki : (k : Int) = i := by
    have h' : ((polygonState p).loopAt i).bind (fun t1 => (Loop.OrientedVertex t1 j).bind fun t2 =>
        ((polygonState p).loopAt i).bind fun t3 => (Loop.OrientedVertex t3 (j + 1)).bind fun t4 =>
          some ((i, t2), (i, t4))) = some (a, b) := hce'
    obtain ⟨l1, _, h2⟩ := Option.bind_eq_some_iff.mp h'
    obtain ⟨v1, _, h3⟩ := Option.bind_eq_some_iff.mp h2
    obtain ⟨l2, _, h4⟩ := Option.bind_eq_some_iff.mp h3
    obtain ⟨v2, _, h5⟩ := Option.bind_eq_some_iff.mp h4
    simp only [Option.some.injEq, Prod.mk.injEq] at h5
    rw [← h5.1] at ha
    exact ha.symm
  obtain ⟨a1, a2⟩ := a
  obtain ⟨b1, b2⟩ := b
  simp only at ha hb ha0 ha1 hb0 hb1
  subst ha; subst hb
  obtain ⟨v, rfl⟩ := Int.eq_ofNat_of_zero_le ha0
  obtain ⟨w, rfl⟩ := Int.eq_ofNat_of_zero_le hb0
  refine ⟨k, v, w, p.loops[k], hce', hki, by simp [hk'], ?_, ?_⟩
  · have : v < p.loops[k].vertices.length := by omega
    simp [this]
  · have : w < p.loops[k].vertices.length := by omega
    simp [this]

/-- the whole Shape contract holds on a decoded polygon EXACTLY when its loop list is `InitValid`:
    the full polygon, or no 1-vertex loop, or more than 12 loops (on the `cumulativeEdges` path `Chain`
    reports the true vertex count, on the linear path it reports 0 for a 1-vertex loop while `NumEdges`
    counts its vertex).  Checked against the Go code on 4003 decoded polygons: the oracle's
    `checkContract` verdict on the real accessor outputs coincides with `InitValid` on every one
    (DELIVER.md). -/
theorem decodePolygon_contract_iff {bs : Bytes} {p : PolygonD} {rest : Bytes} (_h : decodePolygon bs = some (p, rest)) :
    Contract (Polygon.acc (polygonState p)) (Polygon.NumEdges (polygonState p)) (Polygon.NumChains (polygonState p))
      ↔ InitValid (p.loops.map loopCState) :=
  init_contract_iff _

/-- both search paths and zero-vertex loops, concretely: the 14-loop polygon above is on the
    `cumulativeEdges` path and its loop list is `InitValid`; its first three loops (0, 1, 2 vertices) are
    on the linear path.  Edge 1 of the 14-loop polygon is the first edge of loop 2 (after a 0-vertex and
    a 1-vertex loop); edge 6 follows the zero-vertex loop 4 (the input class of seeded change C15_5). -/
def loops14 : List LoopS := (List.range 14).map fun k => ⟨k % 4, k % 3 == 0, k⟩
example : (decodePolygon bytes14).map (fun r => (polygonState r.1 == PolygonS.init loops14)) = some true := by
  decide +kernel
example : (PolygonS.init loops14).cumulativeEdges = some [0, 0, 1, 3, 6, 6, 7, 9, 12, 12, 13, 15, 18, 18] := by decide
example : InitValid loops14 := Or.inr (Or.inr (by decide))
example : Polygon.Edge (PolygonS.init loops14) 1 = some ((2, 0), (2, 1)) ∧
    Polygon.Edge (PolygonS.init loops14) 6 = some ((5, 0), (5, 0)) ∧
    Polygon.ChainPosition (PolygonS.init loops14) 18 = some (13, 0) ∧
    Polygon.Chain (PolygonS.init loops14) 4 = some (6, 0) := by decide
example : Polygon.Edge (PolygonS.init (loops14.take 3)) 0 = some ((1, 0), (1, 0)) ∧
    Polygon.Edge (PolygonS.init (loops14.take 3)) 2 = some ((2, 1), (2, 0)) ∧
    Polygon.Chain (PolygonS.init (loops14.take 3)) 1 = some (0, 0) := by decide

/-- why the zero-vertex loops matter (seeded change C15_5): a lower-bound binary search over
    `cumulativeEdges` (`sort.SearchInts` + equality test) resolves edge 6 of the 14-loop polygon to
    index 4 — the zero-vertex loop, whose prefix sum is also 6 — and `OrientedVertex` of a zero-vertex
    loop is the Go panic "integer divide by zero"; the scan that is in the tree resolves it to loop 5. -/
example : ((PolygonS.init loops14).cumulativeEdges.getD []).findIdx? (fun c => decide (c ≥ 6)) = some 4 ∧
    loops14[4]? = some ⟨0, false, 4⟩ ∧ Loop.OrientedVertex ⟨0, false, 4⟩ 0 = none ∧
    Polygon.search (PolygonS.init loops14) 6 = some (5, 0) := by decide

/-- The contract is NOT a consequence of successful decoding: the 7 bytes `04 1e 01 00 00 00 03`
    decode (compressed format, one loop declaring 0 vertices, replaced by the 1-vertex empty loop) to
    a polygon with `NumEdges = 1`, `NumChains = 1`, `Chain(0) = (0, 0)`: edge 0 lies in no chain.
    Nothing panics (`decodePolygon_usable` applies), and `Polygon.Validate` rejects this polygon. -/
theorem decoded_emptyLoop_contract_false :
    ∃ p, decodePolygon bytesEmptyLoop = some (p, []) ∧
      ¬ Contract (Polygon.acc (polygonState p)) (Polygon.NumEdges (polygonState p)) (Polygon.NumChains (polygonState p)) := by
  refine ⟨⟨[emptyLoopC], false, none⟩, by decide +kernel, ?_⟩
  intro hc
  obtain ⟨c, o, st, len, ed, h1, _, _, h2, _, _, h4, _⟩ := hc.pos_edge 0 (by decide) (by decide)
  have hp : (Polygon.acc (polygonState ⟨[emptyLoopC], false, none⟩)).chainPosition 0 = some (0, 0) := by decide
  rw [hp] at h1
  obtain ⟨rfl, rfl⟩ := Prod.mk.inj (Option.some.inj h1)
  have hch : (Polygon.acc (polygonState ⟨[emptyLoopC], false, none⟩)).chain 0 = some (0, 0) := by decide
  rw [hch] at h2
  obtain ⟨_, rfl⟩ := Prod.mk.inj (Option.some.inj h2)
  omega

/-! ## §3 re-encoding a decoded value -/

/-- a `PolygonM` (what the encoders take) carrying a decoded polygon; `fill` stands for the bounds that
    the compressed decoder recomputes with float code (`initBound`, `initLoopProperties`: not part of the
    model value; no encoder's success depends on them) -/
def toM (p : PolygonD) (fill : RectM) : PolygonM :=
  ⟨p.loops.map fun l => ⟨l.vertices, l.originInside, l.depth, l.bound.getD fill⟩, p.hasHoles, p.bound.getD fill⟩

/-- **every encoder accepts every decoded polygon**: `Polygon.encode` (whichever format it selects),
    `encodeLossless`, and `encodeCompressed` at every snap level; and in `encodeCompressed` every loop is
    handed exactly its own vertex records (`encodeLoopsCompressed_aligned`: the
    `len(l.vertices) != len(vertices)` panic of `Loop.encodeCompressed` cannot fire). -/
theorem reencode_succeeds {bs : Bytes} {p : PolygonD} {rest : Bytes} (h : decodePolygon bs = some (p, rest))
    (fill : RectM) :
    (encodePolygon (toM p fill)).isSome = true ∧ (encodePolygonLossless (toM p fill)).isSome = true ∧
      (∀ L, (encodePolygonCompressed (toM p fill) L (polygonXFST (toM p fill))).isSome = true) ∧
      (∀ L, encodeLoopsCompressed L (toM p fill).loops (polygonXFST (toM p fill)) = encodeLoopsEach L (toM p fill).loops) := by
  have hd := decodePolygon_ok h
  have h1 : (toM p fill).loops.length ≤ maxEncodedLoops := by simpa [toM] using hd.nloops
  have h2 : ∀ l ∈ (toM p fill).loops, l.vertices.length ≤ maxEncodedVertices := by
    intro l hl
    simp only [toM, List.mem_map] at hl
    obtain ⟨c, hc, rfl⟩ := hl
    exact (hd.loops c hc).nverts
  obtain ⟨e1, e2, e3⟩ := encoders_succeed (toM p fill) h1 h2
  exact ⟨e1, e2, e3, fun L => encodeLoopsCompressed_aligned L _⟩

/-- when an encoder does NOT accept a value (for reference; `S2Proofs.C15.encodePolygon_eq_none_iff`):
    too many loops, or the compressed format is selected and a loop has too many vertices -/
theorem encodePolygon_fails_iff (p : PolygonM) :
    encodePolygon p = none ↔
      p.loops.length > maxEncodedLoops ∨
      (polygonChoosesCompressed p = true ∧ ∃ l ∈ p.loops, l.vertices.length > maxEncodedVertices) :=
  encodePolygon_eq_none_iff p
example : encodePolygon ⟨List.replicate 10000001 default, false, default⟩ = none := by
  rw [encodePolygon_fails_iff]; left
  show (List.replicate 10000001 (default : LoopM)).length > maxEncodedLoops
  rw [List.length_replicate]; decide

/-- **lossless polygon: re-encoding reproduces the decoded value exactly** (all fields of the model
    value: vertices bit for bit, origin flags, depths, loop bounds, `hasHoles`, polygon bound), for every
    trailing input. -/
theorem reencode_lossless_exact {tl : Bytes} {p : PolygonD} {rest : Bytes}
    (h : decodePolygon (1 :: tl) = some (p, rest)) :
    ∃ (m : PolygonM) (bytes : Bytes), p = ⟨m.loops.map LoopM.toC, m.hasHoles, some m.bound⟩ ∧
      encodePolygonLossless m = some bytes ∧ ∀ r, decodePolygon (bytes ++ r) = some (p, r) := by
  obtain ⟨ms, b, hp, hn, hall, _⟩ := decodePolygon_lossless_shape h
  have hsome : (encodePolygonLossless ⟨ms, p.hasHoles, b⟩).isSome = true := by
    rw [Option.isSome_iff_ne_none]; intro hc
    have := (encodePolygonLossless_eq_none_iff _).mp hc
    simp only at this; omega
  obtain ⟨bytes, hb⟩ := Option.isSome_iff_exists.mp hsome
  refine ⟨⟨ms, p.hasHoles, b⟩, bytes, hp, hb, ?_⟩
  intro r
  rw [hp]
  exact decodePolygon_encodeLossless ⟨ms, p.hasHoles, b⟩ bytes hn
    (fun l hl => ⟨(hall l hl).nverts, (hall l hl).depth⟩) hb r

/-- decoded Loop (lossless): `decode (encode l) = l`, for every trailing input -/
theorem reencode_loop_exact {bs : Bytes} {l : LoopM} {rest : Bytes} (h : decodeLoop bs = some (l, rest)) (r : Bytes) :
    decodeLoop (encodeLoop l ++ r) = some (l, r) :=
  decodeLoop_encode l (decodeLoop_ok h).1.nverts (decodeLoop_ok h).1.depth r

/-- decoded Polyline -/
theorem reencode_polyline_exact {bs : Bytes} {p : List V3} {rest : Bytes} (h : decodePolyline bs = some (p, rest))
    (r : Bytes) : decodePolyline (encodePolyline p ++ r) = some (p, r) :=
  decodePolyline_encode p (decodePolyline_ok h).1 r

/-- decoded CellUnion: the encoder accepts it (its limit is the decoder's) and it round-trips -/
theorem reencode_cellUnion_exact {bs : Bytes} {cu : List UInt64} {rest : Bytes}
    (h : decodeCellUnion bs = some (cu, rest)) :
    ∃ bytes, encodeCellUnion cu = some bytes ∧ ∀ r, decodeCellUnion (bytes ++ r) = some (cu, r) := by
  have hs := (encodeCellUnion_isSome_iff cu).mpr (decodeCellUnion_ok h).1
  obtain ⟨bytes, hb⟩ := Option.isSome_iff_exists.mp hs
  exact ⟨bytes, hb, fun r => decodeCellUnion_encode cu bytes hb r⟩

/-- decoded Cell -/
theorem reencode_cell_exact {bs : Bytes} {id : UInt64} {rest : Bytes} (h : decodeCell bs = some (id, rest)) (r : Bytes) :
    decodeCell (encodeCell id ++ r) = some (id, r) := decodeCell_encode id (decodeCell_ok h) r

/-- **re-encoding with `Polygon.encode`'s own format choice** reproduces the observable fields (loops,
    vertices bit for bit, origin flags, depths, `hasHoles`) of a decoded polygon provided
    (a) every loop has a vertex, (b) depths fit 32 bits, (c) `hasHoles` is "some loop has odd depth",
    (d) si/ti of every vertex are in range (true for finite non-zero vectors: excludes D21's NaN / Inf).
    (a) and (c) are necessary: `reencode_changes_zero_vertex_loop`, `reencode_changes_hasHoles`. -/
theorem reencode_roundtrip {bs : Bytes} {p : PolygonD} {rest : Bytes} (h : decodePolygon bs = some (p, rest))
    (fill : RectM)
    (ha : ∀ l ∈ p.loops, 0 < l.vertices.length) (hb : ∀ l ∈ p.loops, l.depth < 2 ^ 32)
    (hc : p.hasHoles = p.loops.any (fun l => l.depth % 2 == 1))
    (hd : ∀ l ∈ p.loops, ∀ v ∈ l.vertices, SiTiInRange v) :
    ∃ bytes, encodePolygon (toM p fill) = some bytes ∧ ∀ r, ∃ q, decodePolygon (bytes ++ r) = some (q, r) ∧
      q.loops.map S2Proofs.C09.obsC = p.loops.map S2Proofs.C09.obsC ∧ q.hasHoles = p.hasHoles := by
  have hdec := decodePolygon_ok h
  obtain ⟨bytes, hbytes⟩ := Option.isSome_iff_exists.mp (reencode_succeeds h fill).1
  refine ⟨bytes, hbytes, ?_⟩
  intro r
  have hok : S2Proofs.C09.PolygonOK (toM p fill) := by
    refine ⟨by simpa [toM] using hdec.nloops, ?_, ?_, ?_⟩
    · intro l hl
      simp only [toM, List.mem_map] at hl
      obtain ⟨c, hcm, rfl⟩ := hl
      exact ⟨ha c hcm, (hdec.loops c hcm).nverts, hb c hcm⟩
    · simp only [toM, List.any_map, Function.comp_def]
      exact hc
    · intro l hl v hv
      simp only [toM, List.mem_map] at hl
      obtain ⟨c, hcm, rfl⟩ := hl
      exact hd c hcm v hv
  obtain ⟨q, hq, hobs, hh⟩ := S2Proofs.C09.polygon_roundtrip (toM p fill) hok bytes hbytes r
  refine ⟨q, hq, ?_, hh⟩
  rw [hobs]
  simp [toM, S2Proofs.C09.obsM, S2Proofs.C09.obsC, List.map_map, Function.comp_def]

/-- a decoded value meeting (a)–(d): the level-30 triangle of C09, decoded from its own encoding -/
example : (match encodePolygon S2Proofs.C09.tri with
    | some b => (match decodePolygon b with
      | some (p, _) => p.loops.all (fun l => decide (0 < l.vertices.length) && decide (l.depth < 2 ^ 32)) &&
          (p.hasHoles == p.loops.any (fun l => l.depth % 2 == 1)) &&
          p.loops.all (fun l => l.vertices.all fun v => decide (SiTiInRange v))
      | none => false)
    | none => false) = true := by unfold SiTiInRange; decide +kernel

/-- the lossless polygon with one loop of ZERO vertices (83 bytes) -/
def bytesZeroVertexLoop : Bytes :=
  (encodePolygonLossless ⟨[⟨[], false, 0, default⟩], false, default⟩).getD []

/-- (a) is necessary: the polygon decoded from `bytesZeroVertexLoop` has one loop with zero vertices;
    `Polygon.encode` selects the compressed format for it (`numVertices == 0`), and decoding THAT gives one
    loop with ONE vertex (the empty loop substituted by `initBound`).  Same on the Go code (DELIVER.md). -/
theorem reencode_changes_zero_vertex_loop :
    ∃ p bytes q, decodePolygon bytesZeroVertexLoop = some (p, []) ∧
      encodePolygon (toM p default) = some bytes ∧ decodePolygon bytes = some (q, []) ∧
      p.loops.map (·.vertices.length) = [0] ∧ q.loops.map (·.vertices.length) = [1] := by
  refine ⟨⟨[⟨[], false, 0, some default⟩], false, some default⟩, [4, 30, 1, 0, 0, 0, 0],
    ⟨[emptyLoopC], false, none⟩, ?_, ?_, ?_, rfl, rfl⟩ <;> decide +kernel

/-- (c) is necessary: a lossless polygon WITHOUT loops but with the `hasHoles` byte set decodes with
    `hasHoles = true`; re-encoded (compressed, `numVertices == 0`) and decoded again it has
    `hasHoles = false`. -/
theorem reencode_changes_hasHoles :
    ∃ p bytes q, decodePolygon ([1, 1] ++ writeBool true ++ writeUint32 0 ++ encodeRect default) = some (p, []) ∧
      encodePolygon (toM p default) = some bytes ∧ decodePolygon bytes = some (q, []) ∧
      p.hasHoles = true ∧ q.hasHoles = false := by
  refine ⟨⟨[], true, some default⟩, [4, 30, 0], ⟨[], false, none⟩, ?_, ?_, ?_, rfl, rfl⟩ <;> decide +kernel

/-! ## §4 what remains outside

  * The float half of the decoders' post-processing is not modelled: `Loop.initBound` /
    `RectBounder`, `ExpandForSubregions`, the union of the loop bounds in `initLoopProperties`; the model
    value carries `none` for a recomputed bound.  (The vertex accesses of `initBound` are in range:
    `decodeLoopCompressed_initBound_vertices`.)
  * Building the `ShapeIndex` of a decoded shape and every query that walks it (`ContainsPoint`,
    `IntersectsCell`, `Contains`, …) are outside: the index builder reads the shape ONLY through
    `NumEdges / Edge / NumChains / Chain / ChainEdge`, which is what §2 covers, but its own clipping /
    subdivision code on decoded geometry (duplicate vertices, degenerate edges, antipodal points) is the
    subject of C06 (`C06_Build*`) under that property's geometric hypotheses, not of a "for every byte
    string" theorem.
  * Predicates on non-finite coordinates: the decoders accept NaN / Inf vertices and the exact predicates
    panic on them (known finding D21); nothing here excludes such vertices, and no theorem here speaks
    about predicates.
  * `Polygon.Validate`, `IsValid` and everything gated on them (e.g. queries on an invalid `CellUnion`).
  * The correspondence "Go state after Decode = `polygonState`" is the reading of `initEdgesAndIndex`
    pinned by the shape strings of translator_c15b (`initEdgesAndIndex` is an opaque call there) plus the
    C06 accessor ties and the `c06a` / `c15` correspondence checks; it is not a regenerated equality.
-/

end S2Proofs.C15
