/-
  C08 — the closest-edge search for an EDGE target (`MinDistanceToEdgeTarget`) with NO abstract world hypothesis
  (package c08edge; the edge-target twin of `C08_World.lean` / `C08_World2.lean`).

  The world is INSTANTIATED (`S2Proofs.C08Edge.world`, file `EdgeQuery/EdgeWorld.lean`):
    distances  = bit-exact float chord angles (`Chord`, `chordI`: Go's `<`, `+0`, `+Inf`, `ChordAngle.Sub`);
    edges      = float vertex pairs; `updateDistanceToEdge` = the bit-exact
                 `updateEdgePairMinDistance(target.V0, target.V1, edge.V0, edge.V1, limit)` (`S2.EdgeNum`) + `updateDistance`;
    cells      = the tree `Roots.subtree` of the index; `updateDistanceToCell` = the bit-exact
                 `Cell.DistanceToEdge(target.V0, target.V1)` (`S2.CellEdgeM`);
  the abstract search theorems of c08world / c08world2 (`Slack.slack_single_on`, `Slack.slack_multi`,
  `Slack.brute_multi_internal`) are reused UNCHANGED; their hypothesis `Slack.SlackWorld` is DERIVED (`edge_world_slack`) from
    * c12dist2 `distanceToEdge_lower_bound`: `DistanceToEdge(cell, a, b) ≤ chord²(q, r) + 2^-44` for every point `q` of the exact
      cell and every point `r` of the target arc;
    * c17pairs2 / c08world via `edgePair_contract` (`EdgeQuery/EdgePairNum.lean`): every value `updateEdgePairMinDistance`
      returns with flag `true` is finite, below the limit, within `edgeErr = 2^-46` of the EXACT edge-pair distance
      `rho e = truePairDist2(target, e)` (the minimum of the squared chord over arc × arc: `edge_rho_is_min`); flag `false`
      only if `limit ≤ rho e + 2^-46`.  (c17pairs2's `edgePairMin_within` bounds the same value by `pairSlack ≤ 200u`; the
      search needs the FLAG too, so the chain of four calls is re-analysed with `updateMin_contract`; the three exits
      `minDist == 0`, `CrossingSign == Cross`, chain are all covered.)
    * the index invariant I1 in the form `ClosestCovered` (hypothesis; from `I1Arc` + `RootsCover`: `edge_indexOK_of_parts`).

  SLACK (explicit, squared chord length, absolute): `slack = 2^-44` — the SAME as for point targets: the cell bound of
  c12dist2 is exactly `2^-44`, the edge contract `2^-46`.  No generalisation of the abstract theorems was needed.

  HYPOTHESES (all explicit; instance `EdgeQuery/EdgeWorldEx.lean`):
    `EdgeTargetOK` : ONE record with the hypotheses of the two source packages — `UnitPt` of the target endpoints, `EdgeOK` of the
                 target edge, `VerticesOK` for every cell the search can visit (c12dist2), `PairOK` = the four `CallOK` of every
                 (target, index edge) pair + "`Cross` only on different great circles" (c17pairs2);
    `IndexOK`  : sorted disjoint valid index cells, valid initial cells, index cells list only index edges, `ClosestCovered`.
-/
import S2Proofs.EdgeQuery.EdgeWorld
import S2Proofs.EdgeQuery.EdgeWorldEx
import S2Proofs.EdgeQuery.SearchSlack
import S2Proofs.Properties.C08_World2

set_option linter.unusedSimpArgs false
set_option linter.unusedVariables false

namespace S2Proofs.C08
open S2 S2.CellID S2.EdgeQueryM S2Proofs.F64Order S2Proofs.FloatErr S2Proofs.EdgeQuery S2Proofs.C08Edge
open S2Proofs.C08World (Chord chordI czero cinf cstraight csub posInf slack edgeErr chord_order chord_subLaws_zero csub_zero
  ChordSubLe SubDom chordSubLe_of_subDom chordSubLe_straight)

variable {E : EdgeIndex}

/-! ## (0) the instantiated world satisfies the search hypotheses -/

/-- **the concrete edge-target world is a `SlackWorld`** (c12dist2's and c17pairs2's results plugged in); what remains are
    the numeric domain `EdgeTargetOK` and the index hypotheses `IndexOK`. -/
theorem edge_world_slack (HE : EdgeTargetOK E) (HI : C08Edge.IndexOK E) :
    Slack.SlackWorld chordI (C08Edge.world E) (C08Edge.Near E) :=
  edge_slackWorld HE HI

/-- **the exact distance the theorems speak about**: `rho E e` is the MINIMUM of the squared chord over all pairs
    (point of the target arc, point of the arc of edge `e`), and it is attained -/
theorem edge_rho_is_min (HE : EdgeTargetOK E) {e : EdgeKey} (he : e ∈ E.allEdges) :
    (∀ R Q, S2Proofs.C17Err.OnArc (S2Proofs.C17Err.vecR E.t0) (S2Proofs.C17Err.vecR E.t1) R →
      S2Proofs.C17Err.OnArc (S2Proofs.C17Err.vecR (E.vert e).1) (S2Proofs.C17Err.vecR (E.vert e).2) Q →
      C08Edge.rho E e ≤ S2Proofs.C17Pairs.chordPQ R Q) ∧
    (∃ R Q, S2Proofs.C17Err.OnArc (S2Proofs.C17Err.vecR E.t0) (S2Proofs.C17Err.vecR E.t1) R ∧
      S2Proofs.C17Err.OnArc (S2Proofs.C17Err.vecR (E.vert e).1) (S2Proofs.C17Err.vecR (E.vert e).2) Q ∧
      S2Proofs.C17Pairs.chordPQ R Q = C08Edge.rho E e) :=
  rho_is_min HE he

/-- **the numeric contract of `updateDistanceToEdge` for an edge target** (flag and value, every exit of
    `updateEdgePairMinDistance`): "ok, x" ⇒ `x` finite, `≤ 4`, below the limit in Go's `<`, within `2^-46` of the exact
    edge-pair distance; "not ok" ⇒ the limit is finite and at most `2^-46` above the exact distance. -/
theorem edge_update_contract (HE : EdgeTargetOK E) {e : EdgeKey} (he : e ∈ E.allEdges) (lim : Chord) :
    (∀ x, C08Edge.updEdge E e lim = some x →
      Fin x.1 ∧ val x.1 ≤ 4 ∧ chordI.less x lim = true ∧ |val x.1 - C08Edge.rho E e| ≤ edgeErr) ∧
    (C08Edge.updEdge E e lim = none → Fin lim.1 ∧ val lim.1 ≤ C08Edge.rho E e + edgeErr) :=
  ⟨fun x h => C08Edge.edge_some HE he h, fun h => C08Edge.edge_none HE he h⟩

/-- **the reported value in the terms of c17pairs2** (`edgePairMin_within`, `edgePairMin_inf`, `edgePairMin_crossing_weak` via
    their union `edgePairMin_within_total` / `edgePairMin_inf_total`): for a finite limit it is within `pairSlack ≤ 200u` of
    `min(limit, exact distance)`, for the limit `+Inf` within `pairSlack` of the exact distance -/
theorem edge_update_pairSlack (HE : EdgeTargetOK E) {e : EdgeKey} (he : e ∈ E.allEdges) {lim x : Chord}
    (h : C08Edge.updEdge E e lim = some x) :
    (Fin lim.1 → |val x.1 - min (val lim.1) (C08Edge.rho E e)|
      ≤ S2Proofs.C17.pairSlack E.t0 E.t1 (E.vert e).1 (E.vert e).2) ∧
    (lim.1 = posInf → |val x.1 - C08Edge.rho E e| ≤ S2Proofs.C17.pairSlack E.t0 E.t1 (E.vert e).1 (E.vert e).2) ∧
    S2Proofs.C17.pairSlack E.t0 E.t1 (E.vert e).1 (E.vert e).2 ≤ 200 * uR :=
  ⟨(C08Edge.edge_some_pairSlack HE he h).1, (C08Edge.edge_some_pairSlack HE he h).2,
    S2Proofs.C17.pairSlack_le _ _ _ _ (HE.pairs e he).c1 (HE.pairs e he).c2 (HE.pairs e he).c3 (HE.pairs e he).c4⟩

/-- "not `Near`" unfolded: the value is not `+Inf` and at most `slack` above the exact distance -/
theorem edge_not_near_iff (e : EdgeKey) (x : Chord) :
    ¬ C08Edge.Near E e x ↔ x.1 ≠ posInf ∧ val x.1 ≤ C08Edge.rho E e + slack := by
  unfold C08Edge.Near
  constructor
  · intro h
    exact ⟨fun hi => h (Or.inl hi), not_lt.mp (fun hl => h (Or.inr hl))⟩
  · rintro ⟨h1, h2⟩ (hi | hl)
    · exact h1 hi
    · linarith

/-- `ClosestCovered` from its parts: `I1Arc` (C06 — the statement of the point-target package, it only speaks about the
    index), `RootsCover` (completeness of the initial cells), nesting of the exact regions (proved, c08world2) -/
theorem edge_indexOK_of_parts (HE : EdgeTargetOK E) (hcells : IndexCellsOK (Roots.ids E.ix))
    (hroots : ∀ lim, ∀ c ∈ E.rootIds lim, CellID.isValid c = true) (hdepth : 30 ≤ E.depth)
    (hes : ∀ x es, E.ix.lookup x = some es → ∀ e ∈ es, e ∈ E.allEdges)
    (hloc : ∀ es, E.located = some es → ∀ e ∈ es, e ∈ E.allEdges)
    (h1 : S2Proofs.C08World.I1Arc E.toPoint) (hr : C08Edge.RootsCover E) : C08Edge.IndexOK E :=
  C08Edge.indexOK_of_parts HE hcells hroots hdepth hes hloc h1 hr

/-- `RootsCover` = unbounded part (index-only) + finite-limit part (hypothesis `RootsCoverFin`) -/
theorem edge_rootsCover_of_inf_fin (hi : C08Edge.RootsCoverInf E) (hf : C08Edge.RootsCoverFin E) : C08Edge.RootsCover E :=
  C08Edge.rootsCover_of_inf_fin hi hf

/-- **the unbounded part is a theorem when the initial cells of the unbounded search are the index covering** (c08world2's
    `rootsCoverInf_of_initCovering`, reused: the statement only speaks about the index) -/
theorem edge_rootsCoverInf_of_initCovering (hok : IndexCellsOK (Roots.ids E.ix)) {cov : List (CellID × Bool)}
    (hcov : initCovering (Roots.ids E.ix) = some cov) (hroots : E.rootIds cinf = cov.map (·.1)) :
    C08Edge.RootsCoverInf E :=
  rootsCoverInf_of_initCovering (P := E.toPoint) hok hcov hroots

/-! ## (1) MaxResults = 1 (`FindEdge`, `Distance`, `IsDistanceLess`, …), either path -/

/-- **END-TO-END, MaxResults = 1, any permitted error with `ChordSubLe`** (c08world2: proved for `0`, `+Inf`, every finite
    value `≥ 2^-400`).  On either path (optimized or brute force) the answer has at most one entry; an entry is an interior
    result or an edge of the index whose reported distance is finite, below the limit, and within `edgeErr = 2^-46` of the
    EXACT distance between the target arc and that edge; NO edge of the index is truly closer than
    `reported ⊖ MaxError − slack` (`slack = 2^-44`); an empty answer means no edge is truly closer than `limit − slack`. -/
theorem edge_single (HE : EdgeTargetOK E) (HI : C08Edge.IndexOK E) {o : Opts Chord} (S : ChordSubLe o.maxError)
    (h1 : o.maxResults = 1) (hU : o.targetUsesMaxError = false) {rs : List (Result Chord)}
    (h : findEdges chordI o (C08Edge.world E) = some rs) :
    rs.length ≤ 1 ∧
    (∀ r ∈ rs,
      (o.includeInteriors = true ∧ r.dist = czero ∧ r.edge = -1 ∧ r.shape ∈ E.interiors) ∨
      (∃ e ∈ E.allEdges, r.shape = e.shape ∧ r.edge = e.edge ∧ Fin r.dist.1 ∧
        |val r.dist.1 - C08Edge.rho E e| ≤ edgeErr ∧ chordI.less r.dist o.distanceLimit = true)) ∧
    (∀ r ∈ rs, ∀ e ∈ E.allEdges,
      (csub r.dist o.maxError).1 ≠ posInf ∧ val (csub r.dist o.maxError).1 ≤ C08Edge.rho E e + slack) ∧
    (rs = [] → ∀ e ∈ E.allEdges, o.distanceLimit.1 ≠ posInf ∧ val o.distanceLimit.1 ≤ C08Edge.rho E e + slack) := by
  obtain ⟨a, b, c, d, _⟩ := Slack.slack_single_on chord_order (edge_subLawsOn HE S) (edge_world_slack HE HI) h1 hU
    (chord_not_lt_zero _) h
  refine ⟨a, ?_, ?_, ?_⟩
  · intro r hr
    rcases b r hr with hi | ⟨e, he, hs, hed, ⟨lim, hup, _⟩, hlt⟩
    · exact Or.inl hi
    · obtain ⟨f, _, _, herr⟩ := C08Edge.edge_some HE he hup
      exact Or.inr ⟨e, he, hs, hed, f, herr, hlt⟩
  · intro r hr e he
    exact (edge_not_near_iff e _).mp (c r hr e he)
  · intro hnil e he
    exact (edge_not_near_iff e _).mp (d hnil e he)

/-- the law of `ChordAngle.Sub` discharged: MaxError `= 0`, `= +Inf` or finite `≥ 2^-400` -/
theorem edge_single_subDom (HE : EdgeTargetOK E) (HI : C08Edge.IndexOK E) {o : Opts Chord} (S : SubDom o.maxError)
    (h1 : o.maxResults = 1) (hU : o.targetUsesMaxError = false) {rs : List (Result Chord)}
    (h : findEdges chordI o (C08Edge.world E) = some rs) :
    rs.length ≤ 1 ∧
    (∀ r ∈ rs,
      (o.includeInteriors = true ∧ r.dist = czero ∧ r.edge = -1 ∧ r.shape ∈ E.interiors) ∨
      (∃ e ∈ E.allEdges, r.shape = e.shape ∧ r.edge = e.edge ∧ Fin r.dist.1 ∧
        |val r.dist.1 - C08Edge.rho E e| ≤ edgeErr ∧ chordI.less r.dist o.distanceLimit = true)) ∧
    (∀ r ∈ rs, ∀ e ∈ E.allEdges,
      (csub r.dist o.maxError).1 ≠ posInf ∧ val (csub r.dist o.maxError).1 ≤ C08Edge.rho E e + slack) ∧
    (rs = [] → ∀ e ∈ E.allEdges, o.distanceLimit.1 ≠ posInf ∧ val o.distanceLimit.1 ≤ C08Edge.rho E e + slack) :=
  edge_single HE HI (chordSubLe_of_subDom S) h1 hU h

/-- **MaxError = 0 (the default): the reported distance is within `slack` of the TRUE minimum distance between the target arc
    and the indexed arcs**: it is at most `2^-44` above the exact distance of EVERY edge, and (being the computed distance of
    some edge `e0`) at least the exact distance of `e0` minus `2^-46`. -/
theorem edge_distance_within_slack (HE : EdgeTargetOK E) (HI : C08Edge.IndexOK E) {o : Opts Chord}
    (h0 : o.maxError = czero) (h1 : o.maxResults = 1) (hU : o.targetUsesMaxError = false)
    {rs : List (Result Chord)} (h : findEdges chordI o (C08Edge.world E) = some rs) :
    ∀ r ∈ rs, (∀ e ∈ E.allEdges, val r.dist.1 ≤ C08Edge.rho E e + slack) ∧
      (r.edge ≠ -1 → ∃ e0 ∈ E.allEdges, r.shape = e0.shape ∧ r.edge = e0.edge ∧
        C08Edge.rho E e0 - edgeErr ≤ val r.dist.1) := by
  have S : ChordSubLe o.maxError := chordSubLe_of_subDom (by rw [h0]; exact Or.inl rfl)
  obtain ⟨_, b, c, _⟩ := edge_single HE HI S h1 hU h
  intro r hr
  constructor
  · intro e he
    have := (c r hr e he).2
    rw [h0, csub_zero] at this
    exact this
  · intro hne
    rcases b r hr with ⟨_, _, hedge, _⟩ | ⟨e, he, hs, hed, _, herr, _⟩
    · exact absurd hedge hne
    · exact ⟨e, he, hs, hed, by have := (abs_le.mp herr).1; linarith⟩

/-- the same as ONE inequality against the true optimum: if `m` is the least exact distance (`m ≤ rho e` for all `e`, `m = rho e1`
    for some edge `e1`), a reported EDGE distance `d` satisfies `m − 2^-46 ≤ d ≤ m + 2^-44` -/
theorem edge_distance_vs_optimum (HE : EdgeTargetOK E) (HI : C08Edge.IndexOK E) {o : Opts Chord}
    (h0 : o.maxError = czero) (h1 : o.maxResults = 1) (hU : o.targetUsesMaxError = false)
    {rs : List (Result Chord)} (h : findEdges chordI o (C08Edge.world E) = some rs)
    {m : ℝ} (hm : ∀ e ∈ E.allEdges, m ≤ C08Edge.rho E e) {e1 : EdgeKey} (he1 : e1 ∈ E.allEdges) (hm1 : C08Edge.rho E e1 = m) :
    ∀ r ∈ rs, r.edge ≠ -1 → m - edgeErr ≤ val r.dist.1 ∧ val r.dist.1 ≤ m + slack := by
  intro r hr hne
  obtain ⟨a, b⟩ := edge_distance_within_slack HE HI h0 h1 hU h r hr
  obtain ⟨e0, he0, _, _, l⟩ := b hne
  refine ⟨by have := hm e0 he0; linarith, by have := a e1 he1; rw [hm1] at this; exact this⟩

/-- **optimized vs brute force, MaxResults = 1, MaxError = 0**: whenever both runs report an EDGE, the two reported
    distances differ by at most `slack + edgeErr = 2^-44 + 2^-46` -/
theorem edge_optimized_vs_bruteforce_single (HE : EdgeTargetOK E) (HI : C08Edge.IndexOK E) {o o' : Opts Chord}
    (h0 : o.maxError = czero) (h0' : o'.maxError = czero) (h1 : o.maxResults = 1) (h1' : o'.maxResults = 1)
    (hU : o.targetUsesMaxError = false) (hU' : o'.targetUsesMaxError = false)
    {rs rs' : List (Result Chord)} (h : findEdges chordI o (C08Edge.world E) = some rs)
    (h' : findEdges chordI o' (C08Edge.world E) = some rs') :
    ∀ r ∈ rs, ∀ r' ∈ rs', r.edge ≠ -1 → r'.edge ≠ -1 →
      |val r.dist.1 - val r'.dist.1| ≤ slack + edgeErr := by
  intro r hr r' hr' hne hne'
  obtain ⟨a1, a3⟩ := edge_distance_within_slack HE HI h0 h1 hU h r hr
  obtain ⟨e0, he0, _, _, a2⟩ := a3 hne
  obtain ⟨b1, b3⟩ := edge_distance_within_slack HE HI h0' h1' hU' h' r' hr'
  obtain ⟨e1, he1, _, _, b2⟩ := b3 hne'
  have c1 := a1 e1 he1
  have c2 := b1 e0 he0
  rw [abs_le]; constructor <;> linarith

/-- **`Distance(target)` with MaxError = 0** (`findEdge` + `.distance`): the returned chord `d` is `+Inf` only if no edge is
    truly closer than `limit − slack`; otherwise it is at most `slack` above the exact distance of EVERY edge. -/
theorem edge_distance_call (HE : EdgeTargetOK E) (HI : C08Edge.IndexOK E) {o : Opts Chord}
    (h0 : o.maxError = czero) (hU : o.targetUsesMaxError = false) {d : Chord}
    (hd : distance chordI o (C08Edge.world E) = some d) :
    ∀ e ∈ E.allEdges,
      (d = cinf ∧ o.distanceLimit.1 ≠ posInf ∧ val o.distanceLimit.1 ≤ C08Edge.rho E e + slack) ∨
      val d.1 ≤ C08Edge.rho E e + slack := by
  rw [distance_eq] at hd
  cases hf : findEdges chordI { o with maxResults := 1 } (C08Edge.world E) with
  | none => rw [hf] at hd; cases hd
  | some rs =>
    rw [hf] at hd
    simp only [Option.map_some, Option.some.injEq] at hd
    have S : ChordSubLe ({ o with maxResults := 1 } : Opts Chord).maxError := by
      show ChordSubLe o.maxError
      exact chordSubLe_of_subDom (by rw [h0]; exact Or.inl rfl)
    intro e he
    cases rs with
    | nil =>
      left
      obtain ⟨_, _, _, dd⟩ := edge_single HE HI S rfl hU hf
      have := dd rfl e he
      exact ⟨hd.symm, this⟩
    | cons r t =>
      right
      have := (edge_distance_within_slack HE HI (o := { o with maxResults := 1 }) h0 rfl hU hf r (by simp)).1 e he
      have hdr : d = r.dist := hd.symm
      rw [hdr]; exact this

/-- **`IsDistanceLess(edgeTarget, limit)`** (`MaxResults(1)`, `DistanceLimit(limit)`, `MaxError(StraightChordAngle)`), on the
    float code.  `true` ⇒ interior hit or some edge has a COMPUTED distance below the limit (within `2^-46` of its exact
    distance); `false` ⇒ the limit is finite and NO edge is truly closer than `limit − 2^-44`. -/
theorem edge_isDistanceLess (HE : EdgeTargetOK E) (HI : C08Edge.IndexOK E) {o : Opts Chord}
    (hU : o.targetUsesMaxError = false) (hsh : ∀ e ∈ E.allEdges, 0 ≤ e.shape) (hin : ∀ sh ∈ E.interiors, 0 ≤ sh)
    {t : Chord} {b : Bool} (hb : isDistanceLess chordI cstraight o (C08Edge.world E) t = some b) :
    (b = true →
      (o.includeInteriors = true ∧ E.interiors ≠ []) ∨
      ∃ e ∈ E.allEdges, ∃ x : Chord, Fin x.1 ∧ |val x.1 - C08Edge.rho E e| ≤ edgeErr ∧ chordI.less x t = true) ∧
    (b = false → ∀ e ∈ E.allEdges, t.1 ≠ posInf ∧ val t.1 ≤ C08Edge.rho E e + slack) := by
  rw [isDistanceLess_eq] at hb
  cases hrs : findEdges chordI { o with maxResults := 1, distanceLimit := t, maxError := cstraight } (C08Edge.world E) with
  | none => rw [hrs] at hb; cases hb
  | some rs =>
    rw [hrs] at hb
    simp only [Option.map_some, Option.some.injEq] at hb
    obtain ⟨k1, k2, _, k4⟩ := edge_single HE HI
      (o := { o with maxResults := 1, distanceLimit := t, maxError := cstraight }) chordSubLe_straight rfl hU hrs
    cases rs with
    | nil =>
      have hbf : b = false := hb.symm
      subst hbf
      exact ⟨fun h => (by cases h), fun _ => k4 rfl⟩
    | cons r tl =>
      simp only at hb
      rcases k2 r (by simp) with ⟨hi, _, _, hs⟩ | ⟨e, he, hs, _, hf, herr, hlt⟩
      · have : b = true := by
          rw [← hb]; exact decide_eq_true (hin _ hs)
        subst this
        refine ⟨fun _ => Or.inl ⟨hi, List.ne_nil_of_mem hs⟩, fun h => by cases h⟩
      · have : b = true := by
          rw [← hb]; apply decide_eq_true; rw [hs]; exact hsh e he
        subst this
        exact ⟨fun _ => Or.inr ⟨e, he, r.dist, hf, herr, hlt⟩, fun h => by cases h⟩

/-! ## (2) MaxResults ≠ 1 (`FindEdges` with several results), either path -/

/-- **END-TO-END, MaxResults ≠ 1.**  The answer has at most MaxResults entries, strictly increasing in
    (distance, shape, edge); an entry is an interior result or an edge of the index with the value
    `updateEdgePairMinDistance` computes for it at the option's limit — finite, below the limit, within `edgeErr` of the
    edge's EXACT distance to the target arc; EVERY edge that is truly closer than `limit − slack` (every edge, for an infinite
    limit) is reported with such a value, unless the answer is full and every reported entry precedes that edge's entry. -/
theorem edge_multi (HE : EdgeTargetOK E) (HI : C08Edge.IndexOK E) {o : Opts Chord}
    (hk : o.maxResults ≠ 1) (hU : o.targetUsesMaxError = false) {rs : List (Result Chord)}
    (h : findEdges chordI o (C08Edge.world E) = some rs) :
    rs.length ≤ o.maxResults ∧
    rs.Pairwise (fun a b => Result.less chordI a b = true) ∧
    (∀ r ∈ rs,
      (o.includeInteriors = true ∧ r.dist = czero ∧ r.edge = -1 ∧ r.shape ∈ E.interiors) ∨
      (∃ e ∈ E.allEdges, r.shape = e.shape ∧ r.edge = e.edge ∧ C08Edge.updEdge E e o.distanceLimit = some r.dist ∧
        Fin r.dist.1 ∧ |val r.dist.1 - C08Edge.rho E e| ≤ edgeErr ∧ chordI.less r.dist o.distanceLimit = true)) ∧
    (∀ e ∈ E.allEdges, (o.distanceLimit.1 = posInf ∨ C08Edge.rho E e + slack < val o.distanceLimit.1) →
      ∃ x, C08Edge.updEdge E e o.distanceLimit = some x ∧ |val x.1 - C08Edge.rho E e| ≤ edgeErr ∧
        ((⟨x, e.shape, e.edge⟩ : Result Chord) ∈ rs ∨
         (rs.length = o.maxResults ∧ ∀ a ∈ rs, Result.less chordI a ⟨x, e.shape, e.edge⟩ = true))) := by
  obtain ⟨a, b, c, d⟩ := Slack.slack_multi chord_order (edge_world_slack HE HI) hk hU h
  refine ⟨a, b, ?_, ?_⟩
  · intro r hr
    rcases c r hr with hi | ⟨e, he, hs, hed, hup⟩
    · exact Or.inl hi
    · obtain ⟨f, _, hlt, herr⟩ := C08Edge.edge_some HE he hup
      exact Or.inr ⟨e, he, hs, hed, hup, f, herr, hlt⟩
  · intro e he hn
    obtain ⟨x, hup, hx⟩ := d e he hn
    exact ⟨x, hup, (C08Edge.edge_some HE he hup).2.2.2, hx⟩

/-- **optimized vs brute force, MaxResults ≠ 1.**  `sB` = the raw result list of the brute-force scan.  Every entry of the
    optimized answer is an entry of the brute-force scan (same float); every brute-force entry whose COMPUTED distance is
    below `limit − (slack + edgeErr)` (`2^-44 + 2^-46`; any entry for an infinite limit) is in the optimized answer, unless
    that answer is full and all its entries precede it.  (Edges whose computed distance lies in the band
    `[limit − (2^-44 + 2^-46), limit)` may be found by the scan and missed by the optimized search: their cell can be pruned
    because `Cell.DistanceToEdge` over-estimates.) -/
theorem edge_multi_vs_bruteforce (HE : EdgeTargetOK E) (HI : C08Edge.IndexOK E) {o : Opts Chord}
    (hk : o.maxResults ≠ 1) (hU : o.targetUsesMaxError = false) (hz : o.distanceLimit ≠ czero)
    {rs : List (Result Chord)} (h : findEdges chordI o (C08Edge.world E) = some rs)
    {sB : St Chord} (hB : findEdgesInternal chordI { o with useBruteForce := true } (C08Edge.world E) = some sB) :
    (∀ r ∈ rs, r ∈ sB.results) ∧
    (∀ r ∈ sB.results, r.edge ≠ -1 →
      (o.distanceLimit.1 = posInf ∨ val r.dist.1 + (slack + edgeErr) < val o.distanceLimit.1) →
      r ∈ rs ∨ (rs.length = o.maxResults ∧ ∀ a ∈ rs, Result.less chordI a r = true)) := by
  have hchar := Slack.brute_multi_internal (I := chordI) (o := { o with useBruteForce := true }) (w := C08Edge.world E)
    hk hU (Or.inl rfl) hz hB
  obtain ⟨_, _, c, d⟩ := edge_multi HE HI hk hU h
  constructor
  · intro r hr
    rw [hchar]
    rcases c r hr with hi | ⟨e, he, hs, hed, hup, _⟩
    · exact Or.inl hi
    · refine Or.inr ⟨e, he, ?_, hup⟩
      cases r; simp only at hs hed; subst hs; subst hed; rfl
  · intro r hr hne hband
    rcases (hchar r).mp hr with ⟨_, _, hedge, _⟩ | ⟨e, he, hre, hup⟩
    · exact absurd hedge hne
    · have hup' : C08Edge.updEdge E e o.distanceLimit = some r.dist := hup
      obtain ⟨f, _, _, herr⟩ := C08Edge.edge_some HE he hup'
      have hnear : o.distanceLimit.1 = posInf ∨ C08Edge.rho E e + slack < val o.distanceLimit.1 := by
        rcases hband with hi | hb
        · exact Or.inl hi
        · right
          have := (abs_le.mp herr).1
          linarith
      obtain ⟨x, hx, _, hres⟩ := d e he hnear
      rw [hup'] at hx
      cases hx
      rw [← hre] at hres
      exact hres

/-! ## (3) non-vacuity: the two-cell index of `PointWorldEx` with an EDGE target (`EdgeQuery/EdgeWorldEx.lean`)

  face cell 0 (node) over two level-1 index cells, each listing one edge; target edge (1/3,2/3,2/3) → (2/3,1/3,2/3).
  Every hypothesis of the theorems above is DISCHARGED for it by the kernel. -/

section NonVacuity
open S2Proofs.C08World.Ex S2Proofs.C08Edge.Ex

example : EdgeTargetOK exE := ex_targetOK
example : C08Edge.IndexOK exE := ex_indexOKE
example : Slack.SlackWorld chordI (C08Edge.world exE) (C08Edge.Near exE) := edge_world_slack ex_targetOK ex_indexOKE
example : ChordSubLe exOpts.maxError := chordSubLe_of_subDom (Or.inl rfl)

/-- the optimized search on this world, evaluated by the kernel on the bit-exact soft-float: the root NODE is enqueued, popped,
    its two index cells are processed, and edge 0 is returned at squared chord `0x3FC5D8E65D58F4A2` (≈ 0.1707) -/
example : (findEdges chordI exOpts (C08Edge.world exE)).map (fun rs => rs.map (fun r => (r.dist.1.bits, r.shape, r.edge)))
    = some [(0x3FC5D8E65D58F4A2, 0, 0)] := ex_searchE
example : (findEdges chordI exOpts2 (C08Edge.world exE)).map (fun rs => rs.map (fun r => (r.dist.1.bits, r.shape, r.edge)))
    = some [(0x3FC5D8E65D58F4A2, 0, 0), (0x4000000000000000, 0, 1)] := ex_searchE2

/-- `edge_distance_within_slack` APPLIED, no hypothesis left: the float the search returns is at most `2^-44` above the EXACT
    distance between the target arc and every edge of the index -/
example : ∀ e ∈ exE.allEdges, val (⟨0x3FC5D8E65D58F4A2⟩ : F64) ≤ C08Edge.rho exE e + slack := by
  obtain ⟨rs, hf⟩ : ∃ rs, findEdges chordI exOpts (C08Edge.world exE) = some rs :=
    S2Proofs.EdgeQuery.findEdges_total chordI exOpts (C08Edge.world exE)
  have hs := ex_searchE
  rw [hf] at hs
  simp only [Option.map_some, Option.some.injEq] at hs
  obtain ⟨r, hrs⟩ : ∃ r, rs = [r] := by
    cases rs with
    | nil => simp at hs
    | cons r t =>
      cases t with
      | nil => exact ⟨r, rfl⟩
      | cons _ _ => simp at hs
  subst hrs
  simp only [List.map_cons, List.map_nil, List.cons.injEq, Prod.mk.injEq, and_true] at hs
  have hr : r.dist.1 = (⟨0x3FC5D8E65D58F4A2⟩ : F64) := by
    have := hs.1
    cases hd : r.dist.1 with
    | mk b => rw [hd] at this; simp only at this; rw [this]
  intro e he
  have := (edge_distance_within_slack ex_targetOK ex_indexOKE (o := exOpts) rfl rfl rfl hf r (by simp)).1 e he
  rw [hr] at this
  exact this

/-- `edge_multi` APPLIED: with `MaxResults = 2` and an infinite limit BOTH edges must be reported -/
example : ∀ rs, findEdges chordI exOpts2 (C08Edge.world exE) = some rs →
    ∀ e ∈ exE.allEdges, ∃ x, C08Edge.updEdge exE e cinf = some x ∧
      ((⟨x, e.shape, e.edge⟩ : Result Chord) ∈ rs ∨
        (rs.length = 2 ∧ ∀ a ∈ rs, Result.less chordI a ⟨x, e.shape, e.edge⟩ = true)) := by
  intro rs h e he
  obtain ⟨_, _, _, d⟩ := edge_multi ex_targetOK ex_indexOKE (o := exOpts2) (by decide) rfl h
  obtain ⟨x, hx, _, hres⟩ := d e he (Or.inl rfl)
  exact ⟨x, hx, hres⟩

/-- `edge_isDistanceLess` APPLIED to the example index -/
example (t : Chord) (b : Bool) (hb : isDistanceLess chordI cstraight exOpts (C08Edge.world exE) t = some b) :
    (b = false → ∀ e ∈ exE.allEdges, t.1 ≠ posInf ∧ val t.1 ≤ C08Edge.rho exE e + slack) :=
  (edge_isDistanceLess ex_targetOK ex_indexOKE (o := exOpts) rfl
    (by intro e he; rcases memE he with rfl | rfl <;> decide)
    (by intro sh h; simp [exE, mkE, exIdx] at h) hb).2

/-! ### second instance: the target edge (2/3,1/3,2/3) → (2/3,2/3,−1/3) CROSSES edge 0 -/

example : EdgeTargetOK exE2 := ex_targetOK2
example : C08Edge.IndexOK exE2 := ex_indexOKE2

/-- the float `CrossingSign` answers `Cross` for (target, edge 0), hence (c17pairs2, `edgePairMin_crossing_weak`) the arcs have a
    common point and the exact distance is 0 -/
example : C08Edge.rho exE2 e0 = 0 := by
  have P := ex_targetOK2.pairs e0 (by simp [exE2, mkE, exIdx])
  have hc : S2.EdgeNum.crosses U0 U1 a0 b0 = true := ex2_crosses.1
  exact (S2Proofs.C17.edgePairMin_crossing_weak U0 U1 a0 b0 S2.EdgeNum.fInf P.c1.hx P.c2.hx P.c3.hx P.c4.hx (P.cross hc)
    (by decide) hc).2.2.2

/-- the search on it: edge 0 is reported at distance exactly `+0`; with `MaxResults = 2` edge 1 follows at `0x3FF1C71C71C71C72`
    (the chain of four calls, run with the limit `+Inf`) -/
example : (findEdges chordI exOpts (C08Edge.world exE2)).map (fun rs => rs.map (fun r => (r.dist.1.bits, r.shape, r.edge)))
    = some [(0, 0, 0)] := ex2_search
example : (findEdges chordI exOpts2 (C08Edge.world exE2)).map (fun rs => rs.map (fun r => (r.dist.1.bits, r.shape, r.edge)))
    = some [(0, 0, 0), (0x3FF1C71C71C71C72, 0, 1)] := ex2_search2

/-- `edge_multi` APPLIED to the crossing instance: both edges must be reported -/
example : ∀ rs, findEdges chordI exOpts2 (C08Edge.world exE2) = some rs →
    ∀ e ∈ exE2.allEdges, ∃ x, C08Edge.updEdge exE2 e cinf = some x ∧ |val x.1 - C08Edge.rho exE2 e| ≤ edgeErr := by
  intro rs h e he
  obtain ⟨_, _, _, d⟩ := edge_multi ex_targetOK2 ex_indexOKE2 (o := exOpts2) (by decide) rfl h
  obtain ⟨x, hx, herr, _⟩ := d e he (Or.inl rfl)
  exact ⟨x, hx, herr⟩

end NonVacuity

end S2Proofs.C08
