/-
  C13 — answers depend on the current geometry and the caller's options only, never on the call
  history; no history hangs or panics.

  Model: `S2.History` (bookkeeping of ShapeIndex / EdgeQuery / Loop.Invert / Polygon.Invert; geometry
  abstracted; an answer = the symbolic record of the shapes visible to the search and the effective
  options).  `spec` is the history-free specification: its state is the geometry and the caller's
  options and nothing else, its answers are those of FRESH objects built by the shortest path.

  On the current tree the property is FALSE (defects D4, D5, D8, D19): the faithful model `step`
  reproduces each failure (theorems `current_*`, by concrete histories), the full statement is kept
  as `AnswersHistoryFree`, `current_partial*` say for which histories it does hold, and the full
  statement is proved for `stepFixed`, the model with the four minimal repairs.

  `List Op` includes `remove k` (ShapeIndex.Remove, work package c13remove): the theorems for ALL finite histories
  below cover removals; what they say about removals, the answers-by-identity theorem and the regression witnesses
  D52 / D53 are in `Properties/C13_Remove.lean`.
-/
import S2Proofs.History.State
namespace S2Proofs.C13
open S2.History S2Proofs.HistoryLemmas

/-- FULL STATEMENT (for a given set of repairs): for every loop / polygon the history starts with and
    every finite history, every output (ids, answers together with the options left behind,
    out-of-contract markers, stuck / panicked) equals the output of the history-free specification.
    Since the specification never answers `stuck` or `panicked` and always reports the caller's own
    options, this contains "no hang, no panic" and "options preserved". -/
def AnswersHistoryFree (f : Fixes) : Prop :=
  ∀ (loopVerts : Nat) (loopOrigin : Bool) (pk : PolyKind) (polyVerts : Nat) (h : List Op),
    (runV f (State.init f loopVerts loopOrigin pk polyVerts) h).2 =
      (runSpec (abs (State.init f loopVerts loopOrigin pk polyVerts)) h).2

/-- FULL STATEMENT: no reachable state is stuck or panicked -/
def NeverStuck (f : Fixes) : Prop :=
  ∀ (loopVerts : Nat) (loopOrigin : Bool) (pk : PolyKind) (polyVerts : Nat) (h : List Op),
    (runV f (State.init f loopVerts loopOrigin pk polyVerts) h).1.dead = none

/-- FULL STATEMENT: after any history the options held by the query object are the caller's -/
def OptionsPreserved (f : Fixes) : Prop :=
  ∀ (loopVerts : Nat) (loopOrigin : Bool) (pk : PolyKind) (polyVerts : Nat) (h : List Op) (q : EQ),
    (runV f (State.init f loopVerts loopOrigin pk polyVerts) h).1.eq = some q → q.opts = q.user

/-! ### The repaired model: the full theorems, for ALL finite histories -/

theorem run_fixed (s : State) (hs : SOK true s) (h : List Op) :
    (runV Fixes.all s h).2 = (runSpec (abs s) h).2 ∧ SOK true (runV Fixes.all s h).1 := by
  induction h generalizing s with
  | nil => exact ⟨rfl, hs⟩
  | cons op t ih =>
    obtain ⟨h1, h2, h3⟩ := step_fixed s op hs
    obtain ⟨i1, i2⟩ := ih _ h1
    simp only [runV, runSpec]
    rw [h3, i1, h2]
    exact ⟨rfl, i2⟩

/-- every answer in every history = the answer of fresh objects holding the same geometry and the
    caller's options -/
theorem fixed_answers_history_free : AnswersHistoryFree Fixes.all := by
  intro n o k m h
  exact (run_fixed _ (sok_init _ n o k m true (fun _ => Or.inl rfl)) h).1

/-- no reachable state of the repaired model is stuck or panicked -/
theorem fixed_never_stuck : NeverStuck Fixes.all := by
  intro n o k m h
  exact (run_fixed _ (sok_init _ n o k m true (fun _ => Or.inl rfl)) h).2.alive

/-- the options after any call are the options the caller set -/
theorem fixed_options_preserved : OptionsPreserved Fixes.all := by
  intro n o k m h q hq
  exact (run_fixed _ (sok_init _ n o k m true (fun _ => Or.inl rfl)) h).2.opts rfl q hq

/-- the specification never hangs or panics, so neither does anything that refines it -/
theorem spec_never_stuck (g : Geo) (op : Op) : (spec g op).2 ≠ .stuck ∧ (spec g op).2 ≠ .panicked := by
  cases op <;> simp only [spec] <;> (repeat' split) <;> simp

/-- Invert ∘ Invert = id on the geometry of the model (any combination of repairs) … -/
theorem invert_invert_geometry (f : Fixes) (l : LoopS) (hb : l.boundFor = l.reversed) :
    let l2 := (l.invert f).invert f
    l2.nverts = l.nverts ∧ l2.reversed = l.reversed ∧ l2.originInside = l.originInside ∧
      l2.boundFor = l.boundFor ∧ l2.idx.shapes = [l.shape] := by
  simp [LoopS.invert, hb, Index.add, Index.reset, LoopS.shape]

/-- … and, in the repaired model, observationally: after inverting the loop twice every later
    history gives exactly the answers it gives without the two inversions. -/
theorem fixed_invert_invert_id (s : State) (hs : SOK true s) (h : List Op) :
    (runV Fixes.all s (.invert :: .invert :: h)).2 = .unit :: .unit :: (runV Fixes.all s h).2 := by
  obtain ⟨a1, a2, a3⟩ := step_fixed s .invert hs
  obtain ⟨b1, b2, b3⟩ := step_fixed _ .invert a1
  have e1 := (run_fixed _ b1 h).1
  have e2 := (run_fixed s hs h).1
  have habs : abs (stepV Fixes.all (stepV Fixes.all s .invert).1 .invert).1 = abs s := by
    rw [b2, a2]; simp [spec]
  simp only [runV]
  rw [e1, habs, ← e2, a3, b3]
  simp [spec]

/-- non-vacuity of `SOK true`: every initial state of the repaired model satisfies it -/
example : SOK true (State.init Fixes.all 64 false .full 8) := sok_init _ _ _ _ _ _ (fun _ => Or.inl rfl)

/-! ### The current tree: what does hold (`_partial`) -/

/-- nothing has been removed from the index since its last Reset -/
def NoRem (x : Index) : Prop := x.gone = [] ∧ x.pendingRemovals = []

/-- an operation that does not touch the defect triggers: an `add`, or a build / index query while the
    index is fresh or still before its first update and nothing has been removed -/
def Quiet (s : State) (op : Op) : Prop :=
  match op with
  | .add _ => True
  | .build | .query => (s.idx.status = .fresh ∨ s.idx.pendingAdditionsPos = 0) ∧ NoRem s.idx
  | _ => False

theorem step_agree_of_quiet (s : State) (op : Op) (hq : Quiet s op) :
    stepV Fixes.none s op = stepV Fixes.all s op := by
  cases op <;> simp only [Quiet] at hq
  · simp [stepV]
  · simp only [stepV]; rw [mau_agree Fixes.none Fixes.all s.idx hq.1 (Or.inr hq.2) (Or.inr hq.2)]
  · simp only [stepV]; rw [mau_agree Fixes.none Fixes.all s.idx hq.1 (Or.inr hq.2) (Or.inr hq.2)]
    cases s.dead with
    | some o => rfl
    | none =>
      cases hm : maybeApplyUpdates Fixes.all s.idx with
      | none => rfl
      | some i => simp [mau_gone hm, hq.2.1]

theorem init_agree (n : Nat) (o : Bool) (k : PolyKind) (m : Nat) (hk : k ≠ .full) :
    State.init Fixes.none n o k m = State.init Fixes.all n o k m := by
  cases k <;> simp_all [State.init, PolyS.new, polyIndex]

/-- phase 1: any number of `Add`s on an index that has never been updated -/
theorem run_adds (s : State) (hs : SOK true s) (hp : s.idx.pendingAdditionsPos = 0) (hn : NoRem s.idx)
    (shapes : List Shape) :
    runV Fixes.none s (shapes.map .add) = runV Fixes.all s (shapes.map .add) ∧
    (runV Fixes.all s (shapes.map .add)).1.idx.pendingAdditionsPos = 0 ∧
    NoRem (runV Fixes.all s (shapes.map .add)).1.idx := by
  induction shapes generalizing s with
  | nil => exact ⟨rfl, hp, hn⟩
  | cons sh t ih =>
    have hstep := step_agree_of_quiet s (.add sh) trivial
    have hs' := (step_fixed s (.add sh) hs).1
    have hp' : (stepV Fixes.all s (.add sh)).1.idx.pendingAdditionsPos = 0 := by
      simp [stepV, hs.alive, Index.add, hp]
    have hn' : NoRem (stepV Fixes.all s (.add sh)).1.idx := by
      simp only [stepV, hs.alive, Index.add]; exact hn
    obtain ⟨i1, i2⟩ := ih _ hs' hp' hn'
    simp only [List.map_cons, runV]
    rw [hstep, i1]
    exact ⟨rfl, i2⟩

/-- phase 2: any number of builds / index queries once no further shape is added -/
theorem run_queries (s : State) (hs : SOK true s)
    (hp : s.idx.status = .fresh ∨ s.idx.pendingAdditionsPos = 0) (hn : NoRem s.idx)
    (qs : List Op) (hq : ∀ op ∈ qs, op = .build ∨ op = .query) :
    runV Fixes.none s qs = runV Fixes.all s qs := by
  induction qs generalizing s with
  | nil => rfl
  | cons op t ih =>
    have hop := hq op (by simp)
    have hquiet : Quiet s op := by rcases hop with h | h <;> subst h <;> exact ⟨hp, hn⟩
    have hstep := step_agree_of_quiet s op hquiet
    have hs' := (step_fixed s op hs).1
    obtain ⟨i, hi⟩ := mau_fixed_isSome (f := Fixes.all) rfl s.idx
    have hm := mau_some hs.idx hi
    have hd53 : (!Fixes.all.d53 && i.numPresent == 1 && i.gone.contains 0) = false := by simp [Fixes.all]
    have hidx : (stepV Fixes.all s op).1.idx = i := by
      rcases hop with h | h <;> subst h <;> simp only [stepV, hs.alive, hi, hd53, Bool.false_eq_true, if_false]
    have hfresh : (stepV Fixes.all s op).1.idx.status = .fresh := by rw [hidx]; exact hm.2.2.2.1
    have hn' : NoRem (stepV Fixes.all s op).1.idx := by
      rw [hidx]; exact ⟨by rw [mau_gone hi]; exact hn.1, hm.1.freshRem hm.2.2.2.1⟩
    have := ih _ hs' (Or.inl hfresh) hn' (fun o ho => hq o (by simp [ho]))
    simp only [runV]
    rw [hstep, this]

/-- PARTIAL (current tree): for histories with a single batch of additions before all queries —
    any shapes added, then any number of Builds and index queries — every answer equals the
    fresh-object answer and nothing hangs.  Missing for the full statement: an `Add` after the first
    update (D4), `Reset`/`Invert` after an update (D5), EdgeQuery calls of different kinds (D8), the
    full polygon (D19). -/
theorem current_partial_single_build (n : Nat) (o : Bool) (k : PolyKind) (m : Nat) (hk : k ≠ .full)
    (shapes : List Shape) (qs : List Op) (hq : ∀ op ∈ qs, op = .build ∨ op = .query) :
    let s0 := State.init Fixes.none n o k m
    (runV Fixes.none s0 (shapes.map .add ++ qs)).2 = (runSpec (abs s0) (shapes.map .add ++ qs)).2 ∧
    (runV Fixes.none s0 (shapes.map .add ++ qs)).1.dead = none := by
  intro s0
  have hinit : s0 = State.init Fixes.all n o k m := init_agree n o k m hk
  have hs0 : SOK true s0 := by rw [hinit]; exact sok_init _ n o k m true (fun _ => Or.inl rfl)
  have key : runV Fixes.none s0 (shapes.map .add ++ qs) = runV Fixes.all s0 (shapes.map .add ++ qs) := by
    have happ : ∀ (f : Fixes) (s : State) (a b : List Op),
        runV f s (a ++ b) = ((runV f (runV f s a).1 b).1, (runV f s a).2 ++ (runV f (runV f s a).1 b).2) := by
      intro f s a b
      induction a generalizing s with
      | nil => simp [runV]
      | cons x t ih => simp [runV, ih]
    obtain ⟨a1, a2, a3⟩ := run_adds s0 hs0 (by rw [hinit]; rfl) (by rw [hinit]; exact ⟨rfl, rfl⟩) shapes
    have hs1 := (run_fixed s0 hs0 (shapes.map .add)).2
    have q1 := run_queries _ hs1 (Or.inr a2) a3 qs hq
    rw [happ, happ, a1, q1]
  rw [key]
  exact ⟨(run_fixed s0 hs0 _).1, (run_fixed s0 hs0 _).2.alive⟩

/-- non-vacuity: three shapes, then Build, Query, Query, Build -/
example : (∀ op ∈ [Op.build, .query, .query, .build], op = .build ∨ op = .query) := by decide

/-- PARTIAL (current tree): a first update never blocks, whatever is pending (so no history of fewer
    than four operations Add, Build, Add, Build can be stuck on the index) -/
theorem current_partial_first_update (x : Index) (h : x.status = .fresh ∨ x.pendingAdditionsPos = 0) :
    ∃ y, maybeApplyUpdates Fixes.none x = some y :=
  mau_first_isSome Fixes.none x h

/-- PARTIAL (current tree): on a well-formed index every EdgeQuery search that returns gives the
    fresh-object answer for the options it was handed — the defect D8 is only in WHICH options the
    public methods hand down, and D4 in whether the search returns. -/
theorem current_partial_search_answer {idx idx' : Index} {q q' : EQ} {thr : Nat} {o : Opts} {rep : Report}
    {a : EQAns} (hi : IdxOK idx) (hc : CovOK idx q) (hn : NoRem idx)
    (h : findEdgesCore Fixes.none idx q thr o rep = some (idx', q', a)) :
    a = ansOf idx.shapes o rep ∧ IdxOK idx' ∧ idx'.shapes = idx.shapes :=
  have hv : Vis Fixes.none idx := Or.inr hn
  ⟨(fec_some hi hc h hv).ans, (fec_some hi hc h hv).ok, (fec_some hi hc h hv).shapes⟩

/-- PARTIAL (current tree): FindEdges leaves the options alone (a query object used only for
    FindEdges keeps the caller's options) -/
example (o : Opts) : QKind.findEdges.override o = o := rfl

/-! ### The current tree: the property is FALSE — shortest failing histories -/

def L : Shape := ⟨64, false⟩      -- a 64-edge loop
def E : Shape := ⟨0, false⟩       -- an empty polyline
def F : Shape := ⟨0, true⟩        -- the full polygon (no edges, interior tracked)
def outs (f : Fixes) (n : Nat) (k : PolyKind) (h : List Op) : List Out :=
  (runV f (State.init f n false k n) h).2

/-- D4: Add, Build, Add, Build — the second Build never returns (4 operations; no shorter history
    gets stuck, see `current_partial_first_update`). -/
theorem current_D4_stuck : outs Fixes.none 8 .normal [.add L, .build, .add L, .build] = [.id 0, .unit, .id 1, .stuck] := by
  decide
/-- D4 needs no edges in the index: an empty shape first, and a shape that only has an interior -/
theorem current_D4_stuck_interior : outs Fixes.none 8 .normal [.add E, .build, .add F, .query] = [.id 0, .unit, .id 1, .stuck] := by
  decide
/-- D5: Add, Build, Reset, Add, Query — the query sees an empty index -/
theorem current_D5_wrong : outs Fixes.none 8 .normal [.add L, .build, .reset, .add L, .query] =
    [.id 0, .unit, .unit, .id 0, .seen []] ∧
    (runSpec (abs (State.init Fixes.none 8 false .normal 8)) [.add L, .build, .reset, .add L, .query]).2 =
    [.id 0, .unit, .unit, .id 0, .seen [0]] := by decide
/-- D5 through Loop.Invert: a 64-vertex loop queried, inverted, queried — sees no edges -/
theorem current_D5_invert : outs Fixes.none 64 .normal [.loopCell, .invert, .loopCell] =
    [.loop false false false (some [0]), .unit, .loop true true true (some [])] := by decide
/-- Invert ∘ Invert is NOT the identity on the current tree (observationally) -/
theorem current_invert_invert_not_id :
    outs Fixes.none 64 .normal [.loopCell, .invert, .invert, .loopCell] ≠
    outs Fixes.none 64 .normal [.loopCell, .loopCell] ++ [] ∧
    (outs Fixes.none 64 .normal [.loopCell, .invert, .invert, .loopCell]).getLast? = some (.loop false false false (some [])) := by
  decide
/-- D8: Distance then FindEdges — FindEdges runs with MaxResults = 1, and the options are changed -/
theorem current_D8_findEdges_after_distance :
    (outs Fixes.none 8 .normal [.add L, .newEQ Opts.default, .call .distance 30, .call .findEdges 30]).getLast? =
      some (.eq ⟨⟨.list, some [0], [0], 1, .infinity, .zero⟩, none⟩ { Opts.default with maxResults := 1 }) := by decide
/-- D8: IsDistanceLess then Distance — Distance runs with the threshold as limit and MaxError = π -/
theorem current_D8_distance_after_isDistanceLess :
    (outs Fixes.none 8 .normal [.add L, .newEQ Opts.default, .call (.isDistanceLess 10) 30, .call .distance 30]).getLast? =
      some (.eq ⟨⟨.dist, some [0], [0], 1, .val 10, .straight⟩, none⟩
              { Opts.default with maxResults := 1, distanceLimit := .val 10, maxError := .straight }) := by decide
/-- D19: the full polygon panics on its first ContainsPoint; so does an inverted empty polygon -/
theorem current_D19_panics :
    outs Fixes.none 8 .full [.polyContains] = [.panicked] ∧
    outs Fixes.none 8 .empty [.polyInvert, .polyContains] = [.unit, .panicked] := by decide

/-- the full statements are false for the faithful model -/
theorem current_not_history_free : ¬ AnswersHistoryFree Fixes.none := by
  intro h
  have := h 8 false .normal 8 [.add L, .build, .reset, .add L, .query]
  revert this; decide
theorem current_not_never_stuck : ¬ NeverStuck Fixes.none := by
  intro h
  have := h 8 false .normal 8 [.add L, .build, .add L, .build]
  revert this; decide
theorem current_not_options_preserved : ¬ OptionsPreserved Fixes.none := by
  intro h
  have := h 8 false .normal 8 [.add L, .newEQ Opts.default, .call .distance 30]
    ⟨{ Opts.default with maxResults := 1 }, Opts.default, 64, 31, some [0]⟩
  revert this; decide

/-- the D5 repair alone is not enough (the D4 history still hangs); neither is the D4 repair as coded in
    a4a8224 (rebuild on a non-first update only when `pendingAdditionsPos < nextID` or a removal is queued):
    after `Reset` the stale `pendingAdditionsPos = 1` equals `nextID` again after one `Add`, nothing counts as
    pending and the index stays empty -/
theorem single_repairs :
    ¬ NeverStuck ⟨false, true, false, false, false, false, false, false⟩ ∧
    outs ⟨true, false, false, false, false, false, false, false⟩ 8 .normal [.add L, .build, .reset, .add L, .query] =
      [.id 0, .unit, .unit, .id 0, .seen []] := by
  constructor
  · intro h
    have := h 8 false .normal 8 [.add L, .build, .add L, .build]
    revert this; decide
  · decide

end S2Proofs.C13
