/-
  C08 — the closest-edge search for a CELL target (`MinDistanceToCellTarget`) with NO abstract world hypothesis
  (package c08more; the cell-target twin of `C08_World.lean` / `C08_World2.lean` / `C08_EdgeTarget.lean`).

  The world is INSTANTIATED (`S2Proofs.C08Cell.world`, file `EdgeQuery/CellWorld.lean`):
    distances  = bit-exact float chord angles (`Chord`, `chordI`: Go's `<`, `+0`, `+Inf`, `ChordAngle.Sub`);
    edges      = float vertex pairs; `updateDistanceToEdge` = `dist.updateDistance(minDistance(m.cell.DistanceToEdge(edge.V0, edge.V1)))`
                 with the bit-exact `Cell.DistanceToEdge` (`S2.CellEdgeM.distanceToEdge`) of the TARGET cell;
    cells      = the tree `Roots.subtree` of the index; `updateDistanceToCell` =
                 `dist.updateDistance(minDistance(m.cell.DistanceToCell(cell)))` with the bit-exact `Cell.DistanceToCell` (`S2.CellEdgeM.distanceToCell`);
  the abstract search theorems of c08world / c08world2 (`Slack.slack_single_on`, `Slack.slack_multi`, `Slack.brute_multi_internal`) are reused
  UNCHANGED; their hypothesis `Slack.SlackWorld` is DERIVED (`cellTarget_world_slack`) from
    * c12dist2 `distanceToEdge_lower_bound`: `DistanceToEdge(target, a, b) ≤ chord²(q, r) + 2^-44` for every point `q` of the exact target cell and
      every point `r` of the arc `ab` — so every value the target reports for an edge is at most `rho e + 2^-44`;
    * c12dist2 `distanceToCell_lower_bound`: `DistanceToCell(target, cell) ≤ chord²(q, q') + 2^-45` for all points of the two exact cells;
    * c12max `distanceToEdge_nonneg` (the reported float is `≥ 0`, needed for "ok ⇒ value < limit" at the limit `0`);
    * the index invariant I1 in the form `ClosestCovered` (hypothesis; from `I1Arc` + `RootsCover`: `cellTarget_indexOK_of_parts`).

  The EXACT distance the theorems speak about: `rho E e` = the INFIMUM of the squared chord `2 − 2 q·r` over (exact target cell) × (arc of edge `e`)
  (`cellTarget_rho_is_inf`).  No minimiser is needed: the cell bound is `2^-45`, the slack `2^-44`, so a pair within `2^-45` of the infimum carries
  the witness path.

  SLACK (explicit, squared chord length, absolute): `slack = 2^-44` — the SAME as for point and edge targets.
  ONE-SIDED edge contract: c12dist2 proves the "attained" direction of `DistanceToEdge` only outside the `return 0` of its crossing loop
  (`AttainedProviso`, decidable on the floats); the statements that need `reported ≥ exact − 2^-45` carry this proviso explicitly, the search
  guarantees ("no edge is truly closer than reported − 2^-44", "every edge truly closer than limit − 2^-44 is reported") do NOT.

  HYPOTHESES (all explicit; instance `EdgeQuery/CellWorldEx.lean`):
    `CellTargetOK` : valid target id; for every index edge `UnitPt` ×2, `EdgeOK`, `VerticesOK target edge`; for every cell the search can visit
                 `CallOK` of the 32 calls of `DistanceToCell(target, cell)` (c12dist2's domains);
    `IndexOK`  : sorted disjoint valid index cells, valid initial cells, index cells list only index edges, `ClosestCovered`.
-/
import S2Proofs.EdgeQuery.CellWorld
import S2Proofs.EdgeQuery.CellWorldEx
import S2Proofs.EdgeQuery.SearchSlack
import S2Proofs.Properties.C08_World2

set_option linter.unusedSimpArgs false
set_option linter.unusedVariables false

namespace S2Proofs.C08
open S2 S2.CellID S2.EdgeQueryM S2Proofs.F64Order S2Proofs.FloatErr S2Proofs.EdgeQuery S2Proofs.C08Cell
open S2Proofs.C08World (Chord chordI czero cinf cstraight csub posInf slack edgeErr chord_order chord_subLaws_zero csub_zero
  ChordSubLe SubDom chordSubLe_of_subDom chordSubLe_straight toAcc)
open S2Proofs.C17Err (OnArc vecR)
open S2Proofs.C17Pairs (chordPQ)
open S2Proofs.C12Dist (InCellXYZ)

variable {E : CellIndex}

/-! ## (0) the instantiated world satisfies the search hypotheses -/

/-- **the concrete cell-target world is a `SlackWorld`** (c12dist2's two lower bounds plugged in); what remains are
    the numeric domain `CellTargetOK` and the index hypotheses `IndexOK`. -/
theorem cellTarget_world_slack (HE : CellTargetOK E) (HI : C08Cell.IndexOK E) :
    Slack.SlackWorld chordI (C08Cell.world E) (C08Cell.Near E) :=
  cell_slackWorld HE HI

/-- **the exact distance the theorems speak about**: `rho E e` is the INFIMUM of the squared chord over all pairs
    (point of the exact target cell, point of the arc of edge `e`): a lower bound, the greatest one, approached arbitrarily well -/
theorem cellTarget_rho_is_inf (HE : CellTargetOK E) {e : EdgeKey} (he : e ∈ E.allEdges) :
    (∀ q r : S2Proofs.C17Err.R3, InCellXYZ (tcell E) (toAcc q) → OnArc (vecR (E.vert e).1) (vecR (E.vert e).2) r →
      C08Cell.rho E e ≤ chordPQ q r) ∧
    (∀ m : ℝ, (∀ q r : S2Proofs.C17Err.R3, InCellXYZ (tcell E) (toAcc q) → OnArc (vecR (E.vert e).1) (vecR (E.vert e).2) r →
      m ≤ chordPQ q r) → m ≤ C08Cell.rho E e) ∧
    (∀ ε : ℝ, 0 < ε → ∃ q r : S2Proofs.C17Err.R3, InCellXYZ (tcell E) (toAcc q) ∧ OnArc (vecR (E.vert e).1) (vecR (E.vert e).2) r ∧
      chordPQ q r < C08Cell.rho E e + ε) ∧
    0 ≤ C08Cell.rho E e :=
  ⟨fun q r hq hr => rho_le HE e hq hr, fun m hm => rho_greatest HE he hm, fun ε hε => exists_near_rho HE he hε, C08Cell.rho_nonneg HE he⟩

/-- **the numeric contract of `updateDistanceToEdge` for a cell target** (flag and value): "ok, x" ⇒ `x` is the float `DistanceToEdge` of the target cell
    returns — finite, `≥ 0`, below the limit in Go's `<`, at most `2^-44` above the exact distance; "not ok" ⇒ the limit is finite and at most
    `2^-44` above the exact distance. -/
theorem cellTarget_update_contract (HE : CellTargetOK E) {e : EdgeKey} (he : e ∈ E.allEdges) (lim : Chord) :
    (∀ x, C08Cell.updEdge E e lim = some x →
      Fin x.1 ∧ val x.1 = val (C08Cell.edgeDist E e) ∧ 0 ≤ val x.1 ∧ chordI.less x lim = true ∧ val x.1 ≤ C08Cell.rho E e + slack) ∧
    (C08Cell.updEdge E e lim = none → Fin lim.1 ∧ val lim.1 ≤ C08Cell.rho E e + slack) :=
  ⟨fun x h => C08Cell.edge_some HE he h, fun h => C08Cell.edge_none HE he h⟩

/-- **the other direction, under c12dist2's proviso**: if `DistanceToEdge(target, e)` does not return from its crossing loop
    (`AttainedProviso`, decidable), its value is within `[rho e − 2^-45, rho e + 2^-44]` -/
theorem cellTarget_update_attained_partial (HE : CellTargetOK E) {e : EdgeKey} (he : e ∈ E.allEdges)
    (hp : AttainedProviso E e) :
    C08Cell.rho E e - 1 / 2 ^ 45 ≤ val (C08Cell.edgeDist E e) ∧ val (C08Cell.edgeDist E e) ≤ C08Cell.rho E e + slack := by
  have := rho_le_edgeDist HE he hp
  exact ⟨by linarith, (edgeDist_le HE he).2⟩

/-- "not `Near`" unfolded: the value is not `+Inf` and at most `slack` above the exact distance -/
theorem cellTarget_not_near_iff (e : EdgeKey) (x : Chord) :
    ¬ C08Cell.Near E e x ↔ x.1 ≠ posInf ∧ val x.1 ≤ C08Cell.rho E e + slack := by
  unfold C08Cell.Near
  constructor
  · intro h
    exact ⟨fun hi => h (Or.inl hi), not_lt.mp (fun hl => h (Or.inr hl))⟩
  · rintro ⟨h1, h2⟩ (hi | hl)
    · exact h1 hi
    · linarith

/-- `ClosestCovered` from its parts: `I1Arc` (C06 — the statement of the point-target package, it only speaks about the
    index), `RootsCover` (completeness of the initial cells), nesting of the exact regions (proved, c08world2) -/
theorem cellTarget_indexOK_of_parts (HE : CellTargetOK E) (hcells : IndexCellsOK (Roots.ids E.ix))
    (hroots : ∀ lim, ∀ c ∈ E.rootIds lim, CellID.isValid c = true) (hdepth : 30 ≤ E.depth)
    (hes : ∀ x es, E.ix.lookup x = some es → ∀ e ∈ es, e ∈ E.allEdges)
    (hloc : ∀ es, E.located = some es → ∀ e ∈ es, e ∈ E.allEdges)
    (h1 : S2Proofs.C08World.I1Arc E.toPoint) (hr : C08Cell.RootsCover E) : C08Cell.IndexOK E :=
  C08Cell.indexOK_of_parts HE hcells hroots hdepth hes hloc h1 hr

/-- `RootsCover` = unbounded part (index-only) + finite-limit part (hypothesis `RootsCoverFin`) -/
theorem cellTarget_rootsCover_of_inf_fin (hi : C08Cell.RootsCoverInf E) (hf : C08Cell.RootsCoverFin E) : C08Cell.RootsCover E :=
  C08Cell.rootsCover_of_inf_fin hi hf

/-- **the unbounded part is a theorem when the initial cells of the unbounded search are the index covering** (c08world2's
    `rootsCoverInf_of_initCovering`, reused: the statement only speaks about the index) -/
theorem cellTarget_rootsCoverInf_of_initCovering (hok : IndexCellsOK (Roots.ids E.ix)) {cov : List (CellID × Bool)}
    (hcov : initCovering (Roots.ids E.ix) = some cov) (hroots : E.rootIds cinf = cov.map (·.1)) :
    C08Cell.RootsCoverInf E :=
  rootsCoverInf_of_initCovering (P := E.toPoint) hok hcov hroots

/-- the law `x ⊖ err ≤ x` on the values the target reports: trivially for MaxError = 0; for any error with `ChordSubLe` (c08world2: `0`, `+Inf`,
    finite `≥ 2^-400`) when the reported floats are `≤ 4` (`EdgeLe4`: decidable; c12dist2 bounds `DistanceToEdge` by `exact + 2^-44` only) -/
theorem cellTarget_subLaws (HE : CellTargetOK E) {err : Chord} (h : err = czero ∨ (EdgeLe4 E ∧ ChordSubLe err)) :
    Slack.SubLawsOn chordI (C08Cell.world E) err := by
  rcases h with rfl | ⟨h4, hs⟩
  · exact cell_subLawsOn_zero
  · exact cell_subLawsOn HE h4 hs

/-! ## (1) MaxResults = 1 (`FindEdge`, `Distance`, `IsDistanceLess`, …), either path -/

/-- **END-TO-END, MaxResults = 1** (MaxError = 0, or any error with `ChordSubLe` when the reported floats are `≤ 4`).  On either path
    (optimized or brute force) the answer has at most one entry; an entry is an interior result or an edge of the index whose reported distance
    is the float `Cell.DistanceToEdge(target, edge)` — finite, below the limit, at most `2^-44` above that edge's EXACT distance to the target cell;
    NO edge of the index is truly closer than `reported ⊖ MaxError − slack` (`slack = 2^-44`); an empty answer means no edge is truly closer
    than `limit − slack`. -/
theorem cellTarget_single (HE : CellTargetOK E) (HI : C08Cell.IndexOK E) {o : Opts Chord}
    (S : o.maxError = czero ∨ (EdgeLe4 E ∧ ChordSubLe o.maxError))
    (h1 : o.maxResults = 1) (hU : o.targetUsesMaxError = false) {rs : List (Result Chord)}
    (h : findEdges chordI o (C08Cell.world E) = some rs) :
    rs.length ≤ 1 ∧
    (∀ r ∈ rs,
      (o.includeInteriors = true ∧ r.dist = czero ∧ r.edge = -1 ∧ r.shape ∈ E.interiors) ∨
      (∃ e ∈ E.allEdges, r.shape = e.shape ∧ r.edge = e.edge ∧ Fin r.dist.1 ∧ val r.dist.1 = val (C08Cell.edgeDist E e) ∧
        val r.dist.1 ≤ C08Cell.rho E e + slack ∧ chordI.less r.dist o.distanceLimit = true)) ∧
    (∀ r ∈ rs, ∀ e ∈ E.allEdges,
      (csub r.dist o.maxError).1 ≠ posInf ∧ val (csub r.dist o.maxError).1 ≤ C08Cell.rho E e + slack) ∧
    (rs = [] → ∀ e ∈ E.allEdges, o.distanceLimit.1 ≠ posInf ∧ val o.distanceLimit.1 ≤ C08Cell.rho E e + slack) := by
  obtain ⟨a, b, c, d, _⟩ := Slack.slack_single_on chord_order (cellTarget_subLaws HE S) (cellTarget_world_slack HE HI) h1 hU
    (chord_not_lt_zero _) h
  refine ⟨a, ?_, ?_, ?_⟩
  · intro r hr
    rcases b r hr with hi | ⟨e, he, hs, hed, ⟨lim, hup, _⟩, hlt⟩
    · exact Or.inl hi
    · obtain ⟨f, hv, _, _, hle⟩ := C08Cell.edge_some HE he hup
      exact Or.inr ⟨e, he, hs, hed, f, hv, hle, hlt⟩
  · intro r hr e he
    exact (cellTarget_not_near_iff e _).mp (c r hr e he)
  · intro hnil e he
    exact (cellTarget_not_near_iff e _).mp (d hnil e he)

/-- **MaxError = 0 (the default): the reported distance against the TRUE distances between the target cell and the indexed arcs**: it is at most
    `2^-44` above the exact distance of EVERY edge, and it is the float `DistanceToEdge(target, e0)` of its own edge `e0`, which under the proviso
    of c12dist2 is at least the exact distance of `e0` minus `2^-45`. -/
theorem cellTarget_single_distance_within_slack (HE : CellTargetOK E) (HI : C08Cell.IndexOK E) {o : Opts Chord}
    (h0 : o.maxError = czero) (h1 : o.maxResults = 1) (hU : o.targetUsesMaxError = false)
    {rs : List (Result Chord)} (h : findEdges chordI o (C08Cell.world E) = some rs) :
    ∀ r ∈ rs, (∀ e ∈ E.allEdges, val r.dist.1 ≤ C08Cell.rho E e + slack) ∧
      (r.edge ≠ -1 → ∃ e0 ∈ E.allEdges, r.shape = e0.shape ∧ r.edge = e0.edge ∧ val r.dist.1 = val (C08Cell.edgeDist E e0) ∧
        (AttainedProviso E e0 → C08Cell.rho E e0 - 1 / 2 ^ 45 ≤ val r.dist.1)) := by
  obtain ⟨_, b, c, _⟩ := cellTarget_single HE HI (Or.inl h0) h1 hU h
  intro r hr
  constructor
  · intro e he
    have := (c r hr e he).2
    rw [h0, csub_zero] at this
    exact this
  · intro hne
    rcases b r hr with ⟨_, _, hedge, _⟩ | ⟨e, he, hs, hed, _, hv, _, _⟩
    · exact absurd hedge hne
    · refine ⟨e, he, hs, hed, hv, fun hp => ?_⟩
      rw [hv]; exact (cellTarget_update_attained_partial HE he hp).1

/-- **`cellTarget_distance_vs_optimum`** — ONE inequality against the true optimum: if `m` is the least exact distance (`m ≤ rho e` for all `e`,
    `m = rho e1` for some edge `e1`), a reported EDGE distance `d` satisfies `d ≤ m + 2^-44`; and `m − 2^-45 ≤ d` when the proviso holds for the
    edges of the index. -/
theorem cellTarget_distance_vs_optimum (HE : CellTargetOK E) (HI : C08Cell.IndexOK E) {o : Opts Chord}
    (h0 : o.maxError = czero) (h1 : o.maxResults = 1) (hU : o.targetUsesMaxError = false)
    {rs : List (Result Chord)} (h : findEdges chordI o (C08Cell.world E) = some rs)
    {m : ℝ} (hm : ∀ e ∈ E.allEdges, m ≤ C08Cell.rho E e) {e1 : EdgeKey} (he1 : e1 ∈ E.allEdges) (hm1 : C08Cell.rho E e1 = m) :
    ∀ r ∈ rs, r.edge ≠ -1 →
      val r.dist.1 ≤ m + slack ∧ ((∀ e ∈ E.allEdges, AttainedProviso E e) → m - 1 / 2 ^ 45 ≤ val r.dist.1) := by
  intro r hr hne
  obtain ⟨a, b⟩ := cellTarget_single_distance_within_slack HE HI h0 h1 hU h r hr
  obtain ⟨e0, he0, _, _, _, l⟩ := b hne
  refine ⟨by have := a e1 he1; rw [hm1] at this; exact this, fun hp => ?_⟩
  have := l (hp e0 he0)
  have := hm e0 he0
  linarith

/-- **optimized vs brute force, MaxResults = 1, MaxError = 0**, proviso for the edges of the index: whenever both runs report an EDGE, the two
    reported distances differ by at most `2^-44 + 2^-45` -/
theorem cellTarget_optimized_vs_bruteforce_single (HE : CellTargetOK E) (HI : C08Cell.IndexOK E) {o o' : Opts Chord}
    (h0 : o.maxError = czero) (h0' : o'.maxError = czero) (h1 : o.maxResults = 1) (h1' : o'.maxResults = 1)
    (hU : o.targetUsesMaxError = false) (hU' : o'.targetUsesMaxError = false)
    (hp : ∀ e ∈ E.allEdges, AttainedProviso E e)
    {rs rs' : List (Result Chord)} (h : findEdges chordI o (C08Cell.world E) = some rs)
    (h' : findEdges chordI o' (C08Cell.world E) = some rs') :
    ∀ r ∈ rs, ∀ r' ∈ rs', r.edge ≠ -1 → r'.edge ≠ -1 →
      |val r.dist.1 - val r'.dist.1| ≤ slack + 1 / 2 ^ 45 := by
  intro r hr r' hr' hne hne'
  obtain ⟨a1, a3⟩ := cellTarget_single_distance_within_slack HE HI h0 h1 hU h r hr
  obtain ⟨e0, he0, _, _, _, a2⟩ := a3 hne
  obtain ⟨b1, b3⟩ := cellTarget_single_distance_within_slack HE HI h0' h1' hU' h' r' hr'
  obtain ⟨e1, he1, _, _, _, b2⟩ := b3 hne'
  have c1 := a1 e1 he1
  have c2 := b1 e0 he0
  have d1 := a2 (hp e0 he0)
  have d2 := b2 (hp e1 he1)
  rw [abs_le]; constructor <;> linarith

/-- **`Distance(target)` with MaxError = 0** (`findEdge` + `.distance`): the returned chord `d` is `+Inf` only if no edge is
    truly closer than `limit − slack`; otherwise it is at most `slack` above the exact distance of EVERY edge. -/
theorem cellTarget_distance_call (HE : CellTargetOK E) (HI : C08Cell.IndexOK E) {o : Opts Chord}
    (h0 : o.maxError = czero) (hU : o.targetUsesMaxError = false) {d : Chord}
    (hd : distance chordI o (C08Cell.world E) = some d) :
    ∀ e ∈ E.allEdges,
      (d = cinf ∧ o.distanceLimit.1 ≠ posInf ∧ val o.distanceLimit.1 ≤ C08Cell.rho E e + slack) ∨
      val d.1 ≤ C08Cell.rho E e + slack := by
  rw [distance_eq] at hd
  cases hf : findEdges chordI { o with maxResults := 1 } (C08Cell.world E) with
  | none => rw [hf] at hd; cases hd
  | some rs =>
    rw [hf] at hd
    simp only [Option.map_some, Option.some.injEq] at hd
    intro e he
    cases rs with
    | nil =>
      left
      obtain ⟨_, _, _, dd⟩ := cellTarget_single HE HI (o := { o with maxResults := 1 }) (Or.inl h0) rfl hU hf
      have := dd rfl e he
      exact ⟨hd.symm, this⟩
    | cons r t =>
      right
      have := (cellTarget_single_distance_within_slack HE HI (o := { o with maxResults := 1 }) h0 rfl hU hf r (by simp)).1 e he
      have hdr : d = r.dist := hd.symm
      rw [hdr]; exact this

/-- **`IsDistanceLess(cellTarget, limit)`** (`MaxResults(1)`, `DistanceLimit(limit)`, `MaxError(StraightChordAngle)`), on the float code, when the
    reported floats are `≤ 4`.  `true` ⇒ interior hit or some edge has a COMPUTED distance below the limit (at most `2^-44` above its exact
    distance); `false` ⇒ the limit is finite and NO edge is truly closer than `limit − 2^-44`. -/
theorem cellTarget_isDistanceLess (HE : CellTargetOK E) (HI : C08Cell.IndexOK E) (h4 : EdgeLe4 E) {o : Opts Chord}
    (hU : o.targetUsesMaxError = false) (hsh : ∀ e ∈ E.allEdges, 0 ≤ e.shape) (hin : ∀ sh ∈ E.interiors, 0 ≤ sh)
    {t : Chord} {b : Bool} (hb : isDistanceLess chordI cstraight o (C08Cell.world E) t = some b) :
    (b = true →
      (o.includeInteriors = true ∧ E.interiors ≠ []) ∨
      ∃ e ∈ E.allEdges, ∃ x : Chord, Fin x.1 ∧ val x.1 = val (C08Cell.edgeDist E e) ∧ chordI.less x t = true) ∧
    (b = false → ∀ e ∈ E.allEdges, t.1 ≠ posInf ∧ val t.1 ≤ C08Cell.rho E e + slack) := by
  rw [isDistanceLess_eq] at hb
  cases hrs : findEdges chordI { o with maxResults := 1, distanceLimit := t, maxError := cstraight } (C08Cell.world E) with
  | none => rw [hrs] at hb; cases hb
  | some rs =>
    rw [hrs] at hb
    simp only [Option.map_some, Option.some.injEq] at hb
    obtain ⟨k1, k2, _, k4⟩ := cellTarget_single HE HI
      (o := { o with maxResults := 1, distanceLimit := t, maxError := cstraight }) (Or.inr ⟨h4, chordSubLe_straight⟩) rfl hU hrs
    cases rs with
    | nil =>
      have hbf : b = false := hb.symm
      subst hbf
      exact ⟨fun h => (by cases h), fun _ => k4 rfl⟩
    | cons r tl =>
      simp only at hb
      rcases k2 r (by simp) with ⟨hi, _, _, hs⟩ | ⟨e, he, hs, _, hf, hv, _, hlt⟩
      · have : b = true := by
          rw [← hb]; exact decide_eq_true (hin _ hs)
        subst this
        refine ⟨fun _ => Or.inl ⟨hi, List.ne_nil_of_mem hs⟩, fun h => by cases h⟩
      · have : b = true := by
          rw [← hb]; apply decide_eq_true; rw [hs]; exact hsh e he
        subst this
        exact ⟨fun _ => Or.inr ⟨e, he, r.dist, hf, hv, hlt⟩, fun h => by cases h⟩

/-! ## (2) MaxResults ≠ 1 (`FindEdges` with several results), either path -/

/-- **END-TO-END, MaxResults ≠ 1.**  The answer has at most MaxResults entries, strictly increasing in (distance, shape, edge); an entry is an
    interior result or an edge of the index with the value `Cell.DistanceToEdge(target, edge)` — finite, below the limit, at most `2^-44` above the
    edge's EXACT distance to the target cell; EVERY edge that is truly closer than `limit − slack` (every edge, for an infinite limit) is reported
    with that value, unless the answer is full and every reported entry precedes that edge's entry. -/
theorem cellTarget_multi (HE : CellTargetOK E) (HI : C08Cell.IndexOK E) {o : Opts Chord}
    (hk : o.maxResults ≠ 1) (hU : o.targetUsesMaxError = false) {rs : List (Result Chord)}
    (h : findEdges chordI o (C08Cell.world E) = some rs) :
    rs.length ≤ o.maxResults ∧
    rs.Pairwise (fun a b => Result.less chordI a b = true) ∧
    (∀ r ∈ rs,
      (o.includeInteriors = true ∧ r.dist = czero ∧ r.edge = -1 ∧ r.shape ∈ E.interiors) ∨
      (∃ e ∈ E.allEdges, r.shape = e.shape ∧ r.edge = e.edge ∧ C08Cell.updEdge E e o.distanceLimit = some r.dist ∧
        Fin r.dist.1 ∧ val r.dist.1 = val (C08Cell.edgeDist E e) ∧ val r.dist.1 ≤ C08Cell.rho E e + slack ∧
        chordI.less r.dist o.distanceLimit = true)) ∧
    (∀ e ∈ E.allEdges, (o.distanceLimit.1 = posInf ∨ C08Cell.rho E e + slack < val o.distanceLimit.1) →
      ∃ x, C08Cell.updEdge E e o.distanceLimit = some x ∧ val x.1 = val (C08Cell.edgeDist E e) ∧
        ((⟨x, e.shape, e.edge⟩ : Result Chord) ∈ rs ∨
         (rs.length = o.maxResults ∧ ∀ a ∈ rs, Result.less chordI a ⟨x, e.shape, e.edge⟩ = true))) := by
  obtain ⟨a, b, c, d⟩ := Slack.slack_multi chord_order (cellTarget_world_slack HE HI) hk hU h
  refine ⟨a, b, ?_, ?_⟩
  · intro r hr
    rcases c r hr with hi | ⟨e, he, hs, hed, hup⟩
    · exact Or.inl hi
    · obtain ⟨f, hv, _, hlt, hle⟩ := C08Cell.edge_some HE he hup
      exact Or.inr ⟨e, he, hs, hed, hup, f, hv, hle, hlt⟩
  · intro e he hn
    obtain ⟨x, hup, hx⟩ := d e he hn
    exact ⟨x, hup, (C08Cell.edge_some HE he hup).2.1, hx⟩

/-- **optimized vs brute force, MaxResults ≠ 1**, proviso for the edges of the index.  `sB` = the raw result list of the brute-force scan.  Every
    entry of the optimized answer is an entry of the brute-force scan (same float); every brute-force entry whose COMPUTED distance is below
    `limit − (2^-44 + 2^-45)` (any entry for an infinite limit) is in the optimized answer, unless that answer is full and all its entries
    precede it. -/
theorem cellTarget_multi_vs_bruteforce (HE : CellTargetOK E) (HI : C08Cell.IndexOK E) {o : Opts Chord}
    (hk : o.maxResults ≠ 1) (hU : o.targetUsesMaxError = false) (hz : o.distanceLimit ≠ czero)
    (hp : ∀ e ∈ E.allEdges, AttainedProviso E e)
    {rs : List (Result Chord)} (h : findEdges chordI o (C08Cell.world E) = some rs)
    {sB : St Chord} (hB : findEdgesInternal chordI { o with useBruteForce := true } (C08Cell.world E) = some sB) :
    (∀ r ∈ rs, r ∈ sB.results) ∧
    (∀ r ∈ sB.results, r.edge ≠ -1 →
      (o.distanceLimit.1 = posInf ∨ val r.dist.1 + (slack + 1 / 2 ^ 45) < val o.distanceLimit.1) →
      r ∈ rs ∨ (rs.length = o.maxResults ∧ ∀ a ∈ rs, Result.less chordI a r = true)) := by
  have hchar := Slack.brute_multi_internal (I := chordI) (o := { o with useBruteForce := true }) (w := C08Cell.world E)
    hk hU (Or.inl rfl) hz hB
  obtain ⟨_, _, c, d⟩ := cellTarget_multi HE HI hk hU h
  constructor
  · intro r hr
    rw [hchar]
    rcases c r hr with hi | ⟨e, he, hs, hed, hup, _⟩
    · exact Or.inl hi
    · refine Or.inr ⟨e, he, ?_, hup⟩
      cases r; simp only at hs hed; subst hs; subst hed; rfl
  · intro r hr hne hband
    rcases (hchar r).mp hr with ⟨_, _, hedge, _⟩ | ⟨e, he, hre, hup⟩
    · exact absurd hedge hne
    · have hup' : C08Cell.updEdge E e o.distanceLimit = some r.dist := hup
      obtain ⟨f, hv, _, _, _⟩ := C08Cell.edge_some HE he hup'
      have hlow := rho_le_edgeDist HE he (hp e he)
      have hnear : o.distanceLimit.1 = posInf ∨ C08Cell.rho E e + slack < val o.distanceLimit.1 := by
        rcases hband with hi | hb
        · exact Or.inl hi
        · right
          rw [hv] at hb
          linarith
      obtain ⟨x, hx, _, hres⟩ := d e he hnear
      rw [hup'] at hx
      cases hx
      rw [← hre] at hres
      exact hres

/-! ## (3) non-vacuity: the two-cell index of `PointWorldEx` with a CELL target (`EdgeQuery/CellWorldEx.lean`)

  face cell 0 (node) over two level-1 index cells, each listing one edge; target cell `0x0c40000000000000` (face 0, level 3, inside the
  quadrant `child 1` — disjoint from both index cells).  Every hypothesis of the theorems above is DISCHARGED for it by the kernel. -/

section NonVacuity
open S2Proofs.C08World.Ex S2Proofs.C08Cell.Ex

example : CellTargetOK exC := C08Cell.Ex.ex_targetOK
example : C08Cell.IndexOK exC := ex_indexOKC
example : Slack.SlackWorld chordI (C08Cell.world exC) (C08Cell.Near exC) := cellTarget_world_slack C08Cell.Ex.ex_targetOK ex_indexOKC
example : ∀ e ∈ exC.allEdges, AttainedProviso exC e := ex_proviso
example : EdgeLe4 exC := ex_le4

/-- the optimized search on this world, evaluated by the kernel on the bit-exact soft-float: the root NODE (`DistanceToCell = 0`: it contains the
    target) is enqueued, popped, its two index cells are processed (`DistanceToCell` ≈ 0.135 and ≈ 0.0235), and edge 0 is returned at squared chord
    `4595673941343881311` (≈ 0.18) -/
example : (findEdges chordI exOpts (C08Cell.world exC)).map (fun rs => rs.map (fun r => (r.dist.1.bits, r.shape, r.edge)))
    = some [(4595673941343881311, 0, 0)] := ex_searchC
example : (findEdges chordI S2Proofs.C08World.Ex.exOpts2 (C08Cell.world exC)).map (fun rs => rs.map (fun r => (r.dist.1.bits, r.shape, r.edge)))
    = some [(4595673941343881311, 0, 0), (4603687153151700380, 0, 1)] := ex_searchC2

/-- `cellTarget_distance_vs_optimum` APPLIED, no hypothesis left besides naming the optimum: the float the search returns is within
    `[m − 2^-45, m + 2^-44]` of the least EXACT distance `m` between the target cell and the edges of the index -/
example {m : ℝ} (hm : ∀ e ∈ exC.allEdges, m ≤ C08Cell.rho exC e) {e1 : EdgeKey} (he1 : e1 ∈ exC.allEdges) (hm1 : C08Cell.rho exC e1 = m) :
    m - 1 / 2 ^ 45 ≤ val (⟨4595673941343881311⟩ : F64) ∧ val (⟨4595673941343881311⟩ : F64) ≤ m + slack := by
  obtain ⟨rs, hf⟩ : ∃ rs, findEdges chordI exOpts (C08Cell.world exC) = some rs :=
    S2Proofs.EdgeQuery.findEdges_total chordI exOpts (C08Cell.world exC)
  have hs := ex_searchC
  rw [hf] at hs
  simp only [Option.map_some, Option.some.injEq] at hs
  obtain ⟨r, hrs⟩ : ∃ r, rs = [r] := by
    cases rs with
    | nil => simp at hs
    | cons r t =>
      cases t with
      | nil => exact ⟨r, rfl⟩
      | cons _ _ => simp at hs
  subst hrs
  simp only [List.map_cons, List.map_nil, List.cons.injEq, Prod.mk.injEq, and_true] at hs
  have hr : r.dist.1 = (⟨4595673941343881311⟩ : F64) := by
    have := hs.1
    cases hd : r.dist.1 with
    | mk b => rw [hd] at this; simp only at this; rw [this]
  have hne : r.edge ≠ -1 := by rw [hs.2.2]; decide
  have := cellTarget_distance_vs_optimum C08Cell.Ex.ex_targetOK ex_indexOKC (o := exOpts) rfl rfl rfl hf hm he1 hm1 r (by simp) hne
  rw [hr] at this
  exact ⟨this.2 ex_proviso, this.1⟩

/-- `cellTarget_multi` APPLIED: with `MaxResults = 2` and an infinite limit BOTH edges must be reported -/
example : ∀ rs, findEdges chordI S2Proofs.C08World.Ex.exOpts2 (C08Cell.world exC) = some rs →
    ∀ e ∈ exC.allEdges, ∃ x, C08Cell.updEdge exC e cinf = some x ∧
      ((⟨x, e.shape, e.edge⟩ : Result Chord) ∈ rs ∨
        (rs.length = 2 ∧ ∀ a ∈ rs, Result.less chordI a ⟨x, e.shape, e.edge⟩ = true)) := by
  intro rs h e he
  obtain ⟨_, _, _, d⟩ := cellTarget_multi C08Cell.Ex.ex_targetOK ex_indexOKC (o := S2Proofs.C08World.Ex.exOpts2) (by decide) rfl h
  obtain ⟨x, hx, _, hres⟩ := d e he (Or.inl rfl)
  exact ⟨x, hx, hres⟩

/-- `cellTarget_isDistanceLess` APPLIED to the example index -/
example (t : Chord) (b : Bool) (hb : isDistanceLess chordI cstraight exOpts (C08Cell.world exC) t = some b) :
    (b = false → ∀ e ∈ exC.allEdges, t.1 ≠ posInf ∧ val t.1 ≤ C08Cell.rho exC e + slack) :=
  (cellTarget_isDistanceLess C08Cell.Ex.ex_targetOK ex_indexOKC ex_le4 (o := exOpts) rfl
    (by intro e he; rcases memC he with rfl | rfl <;> decide)
    (by intro sh h; simp [exC, mkC, exIdx] at h) hb).2

end NonVacuity

end S2Proofs.C08
