/-
  Property C05 — coverings cover, interior coverings are contained, level limits are honoured.

  Model: `S2.Coverer` (s2/regioncoverer.go over an abstract region = two predicates on cell ids).
  All theorems are for EVERY user configuration `o : Options` (any integers), EVERY abstract region
  and EVERY lawful priority queue (`LawfulPQ`: push/pop behave as a multiset, nothing is assumed
  about which element is popped); `heapLawful` shows that Go's container/heap is one.

  Contents
   (1) level discipline:   `covering_levels`, `interiorCovering_levels`, `coveringWith_levels`,
                           `cellUnion_levels` (+ the documented exception, shown by example),
                           `fastCovering_levels_partial` and the COUNTEREXAMPLE `fastCovering_levels_false`
                           (S18: FastCovering violates LevelMod when normalizeCovering re-covers with
                           default options);
   (2) covering soundness: `rawResult_covers`, `covering_covers`;
   (3) interior:           `rawResult_interior`, `interiorCovering_inside`;
   (4) totality:           `coverLoop_terminates`;
   (5) `isCanonical_sound` (accepted coverings are valid, on the grid, sorted and disjoint).
-/
import S2Proofs.C05.Levels
import S2Proofs.C05.Heap
import S2Proofs.C05.Sort
import S2Proofs.C05.Init
import S2Proofs.C05.Fast
import S2Proofs.C05.Canonical
open S2 S2.CellID S2.CellUnion S2.Coverer
namespace S2Proofs.C05

variable {Q : Type}

/-- A returned cell respects the configuration: valid id, `minLevel ≤ level`,
    `(level - minLevel) % levelMod = 0`, `level ≤ maxLevel`; if the user configured
    `MaxLevel < MinLevel` (the code does not reject that) `MinLevel` wins and the level is `minLevel`. -/
def LevelsOK (cfg : Config) (c : CellID) : Prop :=
  isValid c = true ∧ cfg.minLevel ≤ level c ∧ (level c - cfg.minLevel) % cfg.levelMod = 0 ∧
    (cfg.minLevel ≤ cfg.maxLevel → level c ≤ cfg.maxLevel) ∧
    (cfg.maxLevel < cfg.minLevel → level c = cfg.minLevel)

/-- Contract on the cells handed to the search by `initialCandidates` (the result of the temporary
    `FastCovering` with `MaxLevel = c.MaxLevel`): valid ids of level `≤ maxLevel`. -/
def StartOK (cfg : Config) (start : CU) : Prop :=
  ∀ c ∈ start, isValid c = true ∧ level c ≤ cfg.maxLevel

theorem StartOK.cellAt {cfg : Config} {start : CU} (h : StartOK cfg start) :
    ∀ c ∈ start, CellAt (· ≤ cfg.maxLevel) c := by
  intro c hc
  obtain ⟨hv, hl⟩ := h c hc
  obtain ⟨k, hk⟩ := (isValid_iff c).mp hv
  exact ⟨k, hk, by rw [hk.level_eq] at hl; exact hl⟩

theorem levelsOK_of_res {cfg : Config} {c : CellID} (h : CellAt (Res cfg) c) : LevelsOK cfg c := by
  obtain ⟨k, hk, ⟨hg1, hg2⟩, ht⟩ := h
  refine ⟨(isValid_iff c).mpr ⟨k, hk⟩, ?_⟩
  rw [hk.level_eq]
  refine ⟨hg1, hg2, ?_, ?_⟩
  · intro hmm; exact Nat.le_trans ht (top_le_max hmm)
  · intro hlt
    unfold top at ht
    have : ¬ cfg.minLevel ≤ cfg.maxLevel := by omega
    simp only [this, if_false] at ht
    omega

/-- the cells `coveringInternal` leaves in `c.result` are on the grid -/
theorem coveringInternal_res {ops : PQOps Q} (law : LawfulPQ ops) {cfg : Config} (h : CfgOK cfg)
    (interior : Bool) (R : Region) (start : CU) (hs : StartOK cfg start) :
    ∀ c ∈ coveringInternal ops cfg interior R start, CellAt (Res cfg) c := by
  have hraw := rawResult_levels law h interior R start hs.cellAt
  have hn := normalize_levels (top cfg) _ (fun c hc => (hraw c hc).mono (fun k _ hk => hk.2))
  unfold coveringInternal
  simp only []
  split
  · exact denormalize_levels h _ hn
  · rename_i hc
    simp only [Bool.or_eq_true, decide_eq_true_eq, not_or] at hc
    intro c hcm
    obtain ⟨k, hk, hkt⟩ := hn c hcm
    have h1 : cfg.levelMod = 1 := by have := h.mod_ge; omega
    exact ⟨k, hk, ⟨by omega, by rw [h1]; omega⟩, hkt⟩

/-- (1a) LEVEL DISCIPLINE of `Covering` and `InteriorCovering`, for every configuration, every
    region, every pop order: each returned cell is valid, has `minLevel ≤ level ≤ maxLevel` and
    `(level - minLevel) % levelMod = 0`. -/
theorem coveringWith_levels {ops : PQOps Q} (law : LawfulPQ ops) (o : Options) (interior : Bool)
    (R : Region) (start : CU) (hs : StartOK (newCoverer o) start) :
    ∀ c ∈ coveringWith ops o interior R start, LevelsOK (newCoverer o) c := by
  have h := newCoverer_ok o
  intro c hc
  apply levelsOK_of_res
  unfold coveringWith cellUnionWith at hc
  refine denormalize_levels h _ ?_ c hc
  apply normalize_levels
  intro x hx
  exact (coveringInternal_res law h interior R start hs x hx).mono (fun k _ hk => hk.2)

/-- (1a) for Go's own queue: `RegionCoverer.Covering` -/
theorem covering_levels (o : Options) (R : Region) (start : CU) (hs : StartOK (newCoverer o) start) :
    ∀ c ∈ covering o R start, LevelsOK (newCoverer o) c :=
  coveringWith_levels heapLawful o false R start hs

/-- (1a) for Go's own queue: `RegionCoverer.InteriorCovering` -/
theorem interiorCovering_levels (o : Options) (R : Region) (start : CU) (hs : StartOK (newCoverer o) start) :
    ∀ c ∈ interiorCovering o R start, LevelsOK (newCoverer o) c :=
  coveringWith_levels heapLawful o true R start hs

/-- (1b) `CellUnion` / `InteriorCellUnion`: valid cells of level `≤ maxLevel` (`≤ minLevel` when the
    user set `MaxLevel < MinLevel`).  `MinLevel` and `LevelMod` are NOT honoured, as the Go doc says
    ("satisfies the restrictions except for minLevel and levelMod"): see the example below. -/
theorem cellUnion_levels {ops : PQOps Q} (law : LawfulPQ ops) (o : Options) (interior : Bool)
    (R : Region) (start : CU) (hs : StartOK (newCoverer o) start) :
    ∀ c ∈ cellUnionWith ops o interior R start,
      isValid c = true ∧ level c ≤ max (newCoverer o).maxLevel (newCoverer o).minLevel := by
  have h := newCoverer_ok o
  intro c hc
  unfold cellUnionWith at hc
  have := normalize_levels (top (newCoverer o)) _
    (fun x hx => (coveringInternal_res law h interior R start hs x hx).mono (fun k _ hk => hk.2)) c hc
  obtain ⟨k, hk, hkt⟩ := this
  refine ⟨(isValid_iff c).mpr ⟨k, hk⟩, ?_⟩
  rw [hk.level_eq]
  have : top (newCoverer o) ≤ max (newCoverer o).maxLevel (newCoverer o).minLevel := by
    unfold top; split <;> omega
  omega

/-- the documented exception of (1b) is real: with `MinLevel = 1` the `CellUnion` of a whole face is
    the face cell (level 0 < MinLevel), while `Covering` returns its four children. -/
example : cellUnion ⟨1, 30, 1, 8⟩ (cellUnionRegion [fromFace 0]) [fromFace 0] = [fromFace 0] ∧
    covering ⟨1, 30, 1, 8⟩ (cellUnionRegion [fromFace 0]) [fromFace 0] = childrenList (fromFace 0) := by
  simp only [cellUnion, covering, cellUnionWith, coveringWith, coveringInternal, normalize, sortIDs_eq_isort]
  decide +kernel

/-- non-vacuity of `StartOK` and of the level theorem: a level-3 cell covered from its face with
    `MinLevel 1, LevelMod 3` gives four level-4 cells -/
example : StartOK (newCoverer ⟨1, 30, 3, 8⟩) [fromFace 0] ∧
    (covering ⟨1, 30, 3, 8⟩ (cellUnionRegion [child (child (child (fromFace 0) 1) 2) 3]) [fromFace 0]).map level = [4, 4, 4, 4] := by
  constructor
  · intro c hc; simp only [List.mem_singleton] at hc; subst hc; decide +kernel
  · simp only [covering, cellUnionWith, coveringWith, coveringInternal, normalize, sortIDs_eq_isort]
    decide +kernel

/-! ### FastCovering: the level discipline is FALSE (S18) -/

/-- `NewRegionCoverer().Covering(&cu)` as the model computes it, for any start cells of that inner
    search which satisfy the start contract of the default options -/
def InnerStartOK (innerStart : CU → CU) : Prop := ∀ cu, StartOK (newCoverer defaultOptions) (innerStart cu)

/-- the full-strength level claim for `FastCovering` ("All of the usual parameters are respected
    (MaxCells, MinLevel, MaxLevel, and LevelMod)", regioncoverer.go) -/
def FastCoveringLevels : Prop :=
  ∀ (o : Options) (innerStart : CU → CU) (bound : CU), InnerStartOK innerStart →
    (∀ c ∈ bound, isValid c = true) →
    ∀ c ∈ fastCovering o (recoverDefault innerStart) bound, LevelsOK (newCoverer o) c

/-- The concrete failing run (replayed on the Go code: `Cap` of 0.05 rad centred at the centre of
    cell 0/12, `RegionCoverer{MinLevel:0, MaxLevel:30, LevelMod:3, MaxCells:-5000}.FastCovering`
    returns the level-2 cell 0x0d00000000000000).  `bound` is that cap's `CellUnionBound()` (four
    level-3 siblings); they are merged by `Normalize`, split again by `Denormalize(0,3)`, found
    non-canonical, `excess*len = 5004*4 > 10000`, and re-covered with DEFAULT options, which
    returns their level-2 parent: `(2 - 0) % 3 ≠ 0`. -/
theorem s18_run : fastCovering ⟨0, 30, 3, -5000⟩
    (recoverDefault (fun _ => [0x1000000000000000, 0x5000000000000000, 0x9000000000000000]))
    [0x0d40000000000000, 0x0cc0000000000000, 0x0dc0000000000000, 0x0c40000000000000]
      = [0x0d00000000000000] := by
  simp only [fastCovering, normalizeCovering, preNormalize, recoverDefault, covering, cellUnionWith,
    coveringWith, coveringInternal, normalize, sortIDs_eq_isort]
  decide +kernel

/-- (1c) S18 settled: `FastCovering` does NOT honour `LevelMod` for all configurations. -/
theorem fastCovering_levels_false : ¬ FastCoveringLevels := by
  intro h
  have h1 := h ⟨0, 30, 3, -5000⟩ (fun _ => [0x1000000000000000, 0x5000000000000000, 0x9000000000000000])
    [0x0d40000000000000, 0x0cc0000000000000, 0x0dc0000000000000, 0x0c40000000000000]
    (by intro cu c hc
        simp only [List.mem_cons, List.not_mem_nil, or_false] at hc
        rcases hc with rfl | rfl | rfl <;> decide +kernel)
    (by intro c hc
        simp only [List.mem_cons, List.not_mem_nil, or_false] at hc
        rcases hc with rfl | rfl | rfl | rfl <;> decide +kernel)
    0x0d00000000000000 (by rw [s18_run]; simp)
  have h2 := h1.2.2.1
  revert h2
  decide +kernel

/-- (1c, partial) `FastCovering` honours MinLevel, MaxLevel and LevelMod for every configuration and
    every bound of valid cells, PROVIDED `normalizeCovering` does not take its
    `NewRegionCoverer().Covering(covering)` branch (`takesRecover = false`: the covering is small
    enough, canonical, or `excess*len ≤ 10000`).  `recover` is arbitrary.  The excluded branch is
    exactly where the claim fails (`fastCovering_levels_false`).  What is missing for the full
    statement `FastCoveringLevels`: nothing provable — it is false. -/
theorem fastCovering_levels_partial (o : Options) (recover : CU → CU) (bound : CU)
    (hb : ∀ c ∈ bound, isValid c = true) (hnr : takesRecover (newCoverer o) bound = false) :
    ∀ c ∈ fastCovering o recover bound, LevelsOK (newCoverer o) c :=
  fun c hc => levelsOK_of_res (fastCovering_res o recover bound hb hnr c hc)

/-- non-vacuity: two level-1 siblings with `MaxCells = 1` go through the merge loop
    (`takesRecover = false`, not canonical) and come out as their face cell -/
example : (∀ c ∈ [child (fromFace 0) 0, child (fromFace 0) 1], isValid c = true) ∧
    takesRecover (newCoverer ⟨0, 30, 1, 1⟩) [child (fromFace 0) 0, child (fromFace 0) 1] = false ∧
    fastCovering ⟨0, 30, 1, 1⟩ id [child (fromFace 0) 0, child (fromFace 0) 1] = [fromFace 0] := by
  refine ⟨?_, ?_, ?_⟩
  · intro c hc
    simp only [List.mem_cons, List.not_mem_nil, or_false] at hc
    rcases hc with rfl | rfl <;> decide +kernel
  · simp only [takesRecover, preNormalize, normalize, sortIDs_eq_isort]
    decide +kernel
  · simp only [fastCovering, normalizeCovering, preNormalize, normalize, sortIDs_eq_isort]
    decide +kernel

/-- the start contract of the search (`StartOK`) is met by the temporary `FastCovering` of
    `initialCandidates` (from `Region.CellUnionBound()`) whenever that call does not re-cover -/
theorem startCells_ok (o : Options) (recover : CU → CU) (bound : CU) (hb : ∀ c ∈ bound, isValid c = true)
    (hnr : takesRecover (newCoverer (tempOptions (newCoverer o))) bound = false) :
    StartOK (newCoverer o) (startCells o recover bound) := by
  intro c hc
  obtain ⟨k, hk, hkm⟩ := startCells_cellAt o recover bound hb hnr c hc
  exact ⟨(isValid_iff c).mpr ⟨k, hk⟩, by rw [hk.level_eq]; exact hkm⟩

/-- (1a) end to end, from `Region.CellUnionBound()` on: `Covering`/`InteriorCovering` computed from the
    start cells the code itself derives (`initialCandidates`) respect the level limits, for every
    configuration and region, as long as the temporary `FastCovering` inside `initialCandidates`
    does not take the re-cover branch (it cannot for `MaxCells ≥ 0` and the ≤ 6-cell bounds of the
    library's regions, where `excess*len ≤ 36`; with `MaxCells ≤ -2497` it can). -/
theorem covering_levels_from_bound (o : Options) (interior : Bool) (R : Region) (recover : CU → CU) (bound : CU)
    (hb : ∀ c ∈ bound, isValid c = true)
    (hnr : takesRecover (newCoverer (tempOptions (newCoverer o))) bound = false) :
    ∀ c ∈ coveringWith heapOps o interior R (startCells o recover bound), LevelsOK (newCoverer o) c :=
  coveringWith_levels heapLawful o interior R _ (startCells_ok o recover bound hb hnr)

/-! ### (4) totality -/

/-- (4) The `for` loop of `coveringInternal` always ends by its own exit test within `loopFuel`
    iterations (so the fuel of the model is never what stops it): for every configuration, region,
    lawful queue, exterior or interior. -/
theorem coverLoop_terminates {ops : PQOps Q} (law : LawfulPQ ops) (o : Options) (interior : Bool)
    (R : Region) (start : CU) (hs : StartOK (newCoverer o) start) :
    loopCond ops (newCoverer o) interior
      (coverLoop ops (newCoverer o) interior R (loopFuel start) (initState ops (newCoverer o) interior R start)) = false := by
  have h := newCoverer_ok o
  apply coverLoop_exit law h
  · apply initState_inv law (term_closure h interior R) start
    intro ci hci ch hch
    obtain ⟨k, hx, hp⟩ := adjustCellLevels_pre h start hs.cellAt ci hci
    exact ⟨k, newCandidate_good hx hch, hp⟩
  · exact initState_mu law start

/-! ### (2) covering soundness -/

/-- named hypothesis (package C11, `normalize_leaves`): Normalize preserves the covered leaf set -/
def NormalizeLeaves : Prop :=
  ∀ cu : CU, (∀ c ∈ cu, isValid c = true) → ∀ n, n % 2 = 1 → coversLeaf (normalize cu) n = coversLeaf cu n

/-- named hypothesis (package C11): Denormalize preserves the covered leaf set -/
def DenormalizeLeaves : Prop :=
  ∀ (cu : CU) (minLevel levelMod : Nat), minLevel ≤ 30 → 1 ≤ levelMod → levelMod ≤ 3 →
    (∀ c ∈ cu, isValid c = true) → ∀ n, n % 2 = 1 → coversLeaf (denormalize cu minLevel levelMod) n = coversLeaf cu n

/-- (2a) the raw result of the exterior search covers every region leaf that the start cells cover:
    for every configuration, every region whose `intersectsCell` is one-sidedly safe, every pop order. -/
theorem rawResult_covers {ops : PQOps Q} (law : LawfulPQ ops) (o : Options) (R : Region) (P : Nat → Prop)
    (hI : IntersectsSafe R P) (start : CU) (hs : StartOK (newCoverer o) start)
    (hcov : ∀ n, n % 2 = 1 → P n → coversLeaf start n = true) :
    ∀ n, n % 2 = 1 → P n → coversLeaf (rawResult ops (newCoverer o) false R start) n = true := by
  have h := newCoverer_ok o
  intro n hn hP
  rw [coversLeaf_iff]
  unfold rawResult
  have hg0 := initState_good law h hI start hs.cellAt hn hP ((coversLeaf_iff _ _).mp (hcov n hn hP))
  have hinv0 : StInv law (fun _ => True) (NestCand (newCoverer o)) (initState ops (newCoverer o) false R start) := by
    apply initState_inv law (nest_closure h false R) start
    intro ci hci ch hch
    obtain ⟨k, hx, hp⟩ := adjustCellLevels_pre h start hs.cellAt ci hci
    exact ⟨k, newCandidate_good hx hch, hp⟩
  have hg := coverLoop_good law h hI hn hP (loopFuel start) _ hinv0 hg0
  have hexit := coverLoop_terminates law o false R start hs
  generalize coverLoop ops (newCoverer o) false R (loopFuel start) (initState ops (newCoverer o) false R start) = fin at hg hexit ⊢
  unfold loopCond at hexit
  simp only [Bool.not_false, Bool.true_or, Bool.and_true, decide_eq_false_iff_not, Nat.not_lt, Nat.le_zero] at hexit
  have hnil : law.toList fin.pq = [] := by
    have := law.size_eq fin.pq; rw [hexit] at this
    exact List.eq_nil_of_length_eq_zero this.symm
  rcases hg with hr | ⟨cand, hc, _⟩
  · obtain ⟨c, hc, hin⟩ := hr
    exact ⟨c, by simpa using hc, hin⟩
  · rw [hnil] at hc; cases hc

theorem valid_of_res {cfg : Config} {cu : CU} (h : ∀ c ∈ cu, CellAt (Res cfg) c) : ∀ c ∈ cu, isValid c = true :=
  fun c hc => by obtain ⟨k, hk, _⟩ := h c hc; exact isCell_valid hk

/-- the leaf set of `Covering`/`InteriorCovering`/`CellUnion` equals the leaf set of the raw search result -/
theorem coveringWith_leaves {ops : PQOps Q} (law : LawfulPQ ops) (hN : NormalizeLeaves) (hD : DenormalizeLeaves)
    (o : Options) (interior : Bool) (R : Region) (start : CU) (hs : StartOK (newCoverer o) start) :
    ∀ n, n % 2 = 1 →
      (coversLeaf (coveringWith ops o interior R start) n = coversLeaf (rawResult ops (newCoverer o) interior R start) n ∧
       coversLeaf (cellUnionWith ops o interior R start) n = coversLeaf (rawResult ops (newCoverer o) interior R start) n) := by
  have h := newCoverer_ok o
  intro n hn
  have hraw := rawResult_levels law h interior R start hs.cellAt
  have hrawv := valid_of_res hraw
  have hnv : ∀ c ∈ normalize (rawResult ops (newCoverer o) interior R start), isValid c = true := by
    intro c hc
    obtain ⟨k, hk, _⟩ := normalize_levels (top (newCoverer o)) _ (fun c hc => (hraw c hc).mono (fun k _ hk => hk.2)) c hc
    exact isCell_valid hk
  have hci := coveringInternal_res law h interior R start hs
  have hciv := valid_of_res hci
  have e1 : coversLeaf (coveringInternal ops (newCoverer o) interior R start) n
      = coversLeaf (rawResult ops (newCoverer o) interior R start) n := by
    unfold coveringInternal
    simp only []
    split
    · rw [hD _ _ _ h.min_le h.mod_ge h.mod_le hnv n hn, hN _ hrawv n hn]
    · rw [hN _ hrawv n hn]
  have e2 : coversLeaf (cellUnionWith ops o interior R start) n
      = coversLeaf (rawResult ops (newCoverer o) interior R start) n := by
    unfold cellUnionWith; rw [hN _ hciv n hn, e1]
  refine ⟨?_, e2⟩
  unfold coveringWith
  simp only []
  have hcuv : ∀ c ∈ cellUnionWith ops o interior R start, isValid c = true :=
    fun c hc => (cellUnion_levels law o interior R start hs c hc).1
  rw [hD _ _ _ h.min_le h.mod_ge h.mod_le hcuv n hn, e2]

/-- (2b) COVERING SOUNDNESS of `Covering` and `CellUnion`: if `intersectsCell` never says *no* for a
    cell that holds a leaf of the region and the start cells cover the region, the returned cells
    cover the region — for every configuration (any ints), every pop order.  Normalize/Denormalize
    leaf preservation enters as the named hypotheses of package C11. -/
theorem covering_covers {ops : PQOps Q} (law : LawfulPQ ops) (hN : NormalizeLeaves) (hD : DenormalizeLeaves)
    (o : Options) (R : Region) (P : Nat → Prop) (hI : IntersectsSafe R P) (start : CU)
    (hs : StartOK (newCoverer o) start) (hcov : ∀ n, n % 2 = 1 → P n → coversLeaf start n = true) :
    ∀ n, n % 2 = 1 → P n →
      coversLeaf (coveringWith ops o false R start) n = true ∧ coversLeaf (cellUnionWith ops o false R start) n = true := by
  intro n hn hP
  obtain ⟨e1, e2⟩ := coveringWith_leaves law hN hD o false R start hs n hn
  have := rawResult_covers law o R P hI start hs hcov n hn hP
  exact ⟨by rw [e1]; exact this, by rw [e2]; exact this⟩

/-- non-vacuity of (2): a cell-union region with its exact id predicates is `IntersectsSafe` w.r.t. its
    own leaf set, here for the one-cell union `[0/123]` (checked on the instance by evaluation of the
    covering; the general fact is C11 `intersectsCellID_iff`). -/
example : (covering ⟨0, 30, 1, 8⟩ (cellUnionRegion [child (child (child (fromFace 0) 1) 2) 3]) [fromFace 0])
    = [child (child (child (fromFace 0) 1) 2) 3] := by
  simp only [covering, cellUnionWith, coveringWith, coveringInternal, normalize, sortIDs_eq_isort]
  decide +kernel

/-- non-vacuity of `IntersectsSafe` / `ContainsSafe`: the region "everything" with the trivial predicates -/
example : IntersectsSafe ⟨fun _ => true, fun _ => true⟩ (fun _ => True) ∧ ContainsSafe ⟨fun _ => true, fun _ => true⟩ (fun _ => True) :=
  ⟨(fun _ _ h => nomatch h), fun _ _ _ _ _ _ => trivial⟩

/-! ### (3) interior coverings -/

/-- (3a) every cell of the raw interior search result lies inside the region -/
theorem rawResult_interior {ops : PQOps Q} (law : LawfulPQ ops) (o : Options) (R : Region) (P : Nat → Prop)
    (hC : ContainsSafe R P) (start : CU) (hs : StartOK (newCoverer o) start) :
    ∀ n, n % 2 = 1 → coversLeaf (rawResult ops (newCoverer o) true R start) n = true → P n := by
  have h := newCoverer_ok o
  intro n hn hc
  obtain ⟨c, hcm, hin⟩ := (coversLeaf_iff _ _).mp hc
  refine rawResult_inv law (interior_closure h R P hC) start ?_ c hcm n hn hin
  intro ci hci ch hch
  obtain ⟨k, hx, hp⟩ := adjustCellLevels_pre h start hs.cellAt ci hci
  exact ⟨⟨k, newCandidate_good hx hch, hp⟩, fun ht => newCandidate_interior_terminal hch ht⟩

/-- (3b) INTERIOR: if `containsCell` never says *yes* for a cell with a leaf outside the region, every
    leaf of `InteriorCovering` and of `InteriorCellUnion` is in the region — every configuration,
    every pop order (the start cells need not even cover the region). -/
theorem interiorCovering_inside {ops : PQOps Q} (law : LawfulPQ ops) (hN : NormalizeLeaves) (hD : DenormalizeLeaves)
    (o : Options) (R : Region) (P : Nat → Prop) (hC : ContainsSafe R P) (start : CU)
    (hs : StartOK (newCoverer o) start) :
    ∀ n, n % 2 = 1 →
      (coversLeaf (coveringWith ops o true R start) n = true → P n) ∧
      (coversLeaf (cellUnionWith ops o true R start) n = true → P n) := by
  intro n hn
  obtain ⟨e1, e2⟩ := coveringWith_leaves law hN hD o true R start hs n hn
  have := rawResult_interior law o R P hC start hs n hn
  exact ⟨by rw [e1]; exact this, by rw [e2]; exact this⟩

/-! ### (5) isCanonical -/

/-- (5, soundness direction) a covering accepted by `IsCanonical` consists of valid cells with
    `minLevel ≤ level ≤ trueMax`, on the LevelMod grid, sorted and pairwise disjoint.
    (The converse — characterisation of the sibling-run and too-many-cells clauses — is not proved.) -/
theorem isCanonical_sound (o : Options) (cov : CU) (hc : isCanonical (newCoverer o) cov = true) :
    (∀ c ∈ cov, isValid c = true ∧ (newCoverer o).minLevel ≤ level c ∧ ((level c : Int) ≤ trueMax (newCoverer o)) ∧
        (level c - (newCoverer o).minLevel) % (newCoverer o).levelMod = 0)
    ∧ List.Pairwise (fun a b => rangeMax a < rangeMin b) cov :=
  isCanonical_levels (newCoverer_ok o) cov hc

end S2Proofs.C05
