/-
  Property C05 — coverings cover, interior coverings are contained, level limits are honoured.

  Model: `S2.Coverer` (s2/regioncoverer.go over an abstract region = two predicates on cell ids).
  All theorems are for EVERY user configuration `o : Options` (any integers), EVERY abstract region
  and EVERY lawful priority queue (`LawfulPQ`: push/pop behave as a multiset, nothing is assumed
  about which element is popped); `heapLawful` shows that Go's container/heap is one.

  Contents
   (1) level discipline:   `covering_levels`, `interiorCovering_levels`, `coveringWith_levels`,
                           `cellUnion_levels` (+ the documented exception, shown by example),
                           `fastCovering_levels` (full strength since repair e130a30; the former S18
                           counterexample is kept as an `example` that now evaluates to face 0),
                           `covering_levels_from_bound` (end to end, no side condition);
   (2) covering soundness: `rawResult_covers`, `covering_covers`;
   (3) interior:           `rawResult_interior`, `interiorCovering_inside`;
   (4) totality:           `coverLoop_terminates`, `normalizeCovering_merge_terminates` (hang repaired);
   (5) `isCanonical_sound` (accepted coverings are valid, on the grid, sorted and disjoint).
-/
import S2Proofs.C05.Levels
import S2Proofs.C05.Heap
import S2Proofs.C05.Sort
import S2Proofs.C05.Init
import S2Proofs.C05.Fast
import S2Proofs.C05.Canonical
import S2Proofs.Properties.C11
import S2Proofs.C05.MergeTerm
open S2 S2.CellID S2.CellUnion S2.Coverer
namespace S2Proofs.C05

variable {Q : Type}

/-- A returned cell respects the configuration: valid id, `minLevel ≤ level`,
    `(level - minLevel) % levelMod = 0`, `level ≤ maxLevel`; if the user configured
    `MaxLevel < MinLevel` (the code does not reject that) `MinLevel` wins and the level is `minLevel`. -/
def LevelsOK (cfg : Config) (c : CellID) : Prop :=
  isValid c = true ∧ cfg.minLevel ≤ level c ∧ (level c - cfg.minLevel) % cfg.levelMod = 0 ∧
    (cfg.minLevel ≤ cfg.maxLevel → level c ≤ cfg.maxLevel) ∧
    (cfg.maxLevel < cfg.minLevel → level c = cfg.minLevel)

/-- Contract on the cells handed to the search by `initialCandidates` (the result of the temporary
    `FastCovering` with `MaxLevel = c.MaxLevel`): valid ids of level `≤ maxLevel`. -/
def StartOK (cfg : Config) (start : CU) : Prop :=
  ∀ c ∈ start, isValid c = true ∧ level c ≤ cfg.maxLevel

theorem StartOK.cellAt {cfg : Config} {start : CU} (h : StartOK cfg start) :
    ∀ c ∈ start, CellAt (· ≤ cfg.maxLevel) c := by
  intro c hc
  obtain ⟨hv, hl⟩ := h c hc
  obtain ⟨k, hk⟩ := (isValid_iff c).mp hv
  exact ⟨k, hk, by rw [hk.level_eq] at hl; exact hl⟩

theorem levelsOK_of_res {cfg : Config} {c : CellID} (h : CellAt (Res cfg) c) : LevelsOK cfg c := by
  obtain ⟨k, hk, ⟨hg1, hg2⟩, ht⟩ := h
  refine ⟨(isValid_iff c).mpr ⟨k, hk⟩, ?_⟩
  rw [hk.level_eq]
  refine ⟨hg1, hg2, ?_, ?_⟩
  · intro hmm; exact Nat.le_trans ht (top_le_max hmm)
  · intro hlt
    unfold top at ht
    have : ¬ cfg.minLevel ≤ cfg.maxLevel := by omega
    simp only [this, if_false] at ht
    omega

/-- the cells `coveringInternal` leaves in `c.result` are on the grid -/
theorem coveringInternal_res {ops : PQOps Q} (law : LawfulPQ ops) {cfg : Config} (h : CfgOK cfg)
    (interior : Bool) (R : Region) (start : CU) (hs : StartOK cfg start) :
    ∀ c ∈ coveringInternal ops cfg interior R start, CellAt (Res cfg) c := by
  have hraw := rawResult_levels law h interior R start hs.cellAt
  have hn := normalize_levels (top cfg) _ (fun c hc => (hraw c hc).mono (fun k _ hk => hk.2))
  unfold coveringInternal
  simp only []
  split
  · exact denormalize_levels h _ hn
  · rename_i hc
    simp only [Bool.or_eq_true, decide_eq_true_eq, not_or] at hc
    intro c hcm
    obtain ⟨k, hk, hkt⟩ := hn c hcm
    have h1 : cfg.levelMod = 1 := by have := h.mod_ge; omega
    exact ⟨k, hk, ⟨by omega, by rw [h1]; omega⟩, hkt⟩

/-- `Covering` / `InteriorCovering`: cells are valid, on the grid, `≤ top` -/
theorem coveringWith_res {ops : PQOps Q} (law : LawfulPQ ops) (o : Options) (interior : Bool)
    (R : Region) (start : CU) (hs : StartOK (newCoverer o) start) :
    ∀ c ∈ coveringWith ops o interior R start, CellAt (Res (newCoverer o)) c := by
  have h := newCoverer_ok o
  intro c hc
  unfold coveringWith cellUnionWith at hc
  refine denormalize_levels h _ ?_ c hc
  apply normalize_levels
  intro x hx
  exact (coveringInternal_res law h interior R start hs x hx).mono (fun k _ hk => hk.2)

/-- (1a) LEVEL DISCIPLINE of `Covering` and `InteriorCovering`, for every configuration, every
    region, every pop order: each returned cell is valid, has `minLevel ≤ level ≤ maxLevel` and
    `(level - minLevel) % levelMod = 0`. -/
theorem coveringWith_levels {ops : PQOps Q} (law : LawfulPQ ops) (o : Options) (interior : Bool)
    (R : Region) (start : CU) (hs : StartOK (newCoverer o) start) :
    ∀ c ∈ coveringWith ops o interior R start, LevelsOK (newCoverer o) c :=
  fun c hc => levelsOK_of_res (coveringWith_res law o interior R start hs c hc)

/-- (1a) for Go's own queue: `RegionCoverer.Covering` -/
theorem covering_levels (o : Options) (R : Region) (start : CU) (hs : StartOK (newCoverer o) start) :
    ∀ c ∈ covering o R start, LevelsOK (newCoverer o) c :=
  coveringWith_levels heapLawful o false R start hs

/-- (1a) for Go's own queue: `RegionCoverer.InteriorCovering` -/
theorem interiorCovering_levels (o : Options) (R : Region) (start : CU) (hs : StartOK (newCoverer o) start) :
    ∀ c ∈ interiorCovering o R start, LevelsOK (newCoverer o) c :=
  coveringWith_levels heapLawful o true R start hs

/-- (1b) `CellUnion` / `InteriorCellUnion`: valid cells of level `≤ maxLevel` (`≤ minLevel` when the
    user set `MaxLevel < MinLevel`).  `MinLevel` and `LevelMod` are NOT honoured, as the Go doc says
    ("satisfies the restrictions except for minLevel and levelMod"): see the example below. -/
theorem cellUnion_levels {ops : PQOps Q} (law : LawfulPQ ops) (o : Options) (interior : Bool)
    (R : Region) (start : CU) (hs : StartOK (newCoverer o) start) :
    ∀ c ∈ cellUnionWith ops o interior R start,
      isValid c = true ∧ level c ≤ max (newCoverer o).maxLevel (newCoverer o).minLevel := by
  have h := newCoverer_ok o
  intro c hc
  unfold cellUnionWith at hc
  have := normalize_levels (top (newCoverer o)) _
    (fun x hx => (coveringInternal_res law h interior R start hs x hx).mono (fun k _ hk => hk.2)) c hc
  obtain ⟨k, hk, hkt⟩ := this
  refine ⟨(isValid_iff c).mpr ⟨k, hk⟩, ?_⟩
  rw [hk.level_eq]
  have : top (newCoverer o) ≤ max (newCoverer o).maxLevel (newCoverer o).minLevel := by
    unfold top; split <;> omega
  omega

/-- the documented exception of (1b) is real: with `MinLevel = 1` the `CellUnion` of a whole face is
    the face cell (level 0 < MinLevel), while `Covering` returns its four children. -/
example : cellUnion ⟨1, 30, 1, 8⟩ (cellUnionRegion [fromFace 0]) [fromFace 0] = [fromFace 0] ∧
    covering ⟨1, 30, 1, 8⟩ (cellUnionRegion [fromFace 0]) [fromFace 0] = childrenList (fromFace 0) := by
  simp only [cellUnion, covering, cellUnionWith, coveringWith, coveringInternal, normalize, sortIDs_eq_isort]
  decide +kernel

/-- non-vacuity of `StartOK` and of the level theorem: a level-3 cell covered from its face with
    `MinLevel 1, LevelMod 3` gives four level-4 cells -/
example : StartOK (newCoverer ⟨1, 30, 3, 8⟩) [fromFace 0] ∧
    (covering ⟨1, 30, 3, 8⟩ (cellUnionRegion [child (child (child (fromFace 0) 1) 2) 3]) [fromFace 0]).map level = [4, 4, 4, 4] := by
  constructor
  · intro c hc; simp only [List.mem_singleton] at hc; subst hc; decide +kernel
  · simp only [covering, cellUnionWith, coveringWith, coveringInternal, normalize, sortIDs_eq_isort]
    decide +kernel

/-! ### FastCovering (after repair e130a30: the re-cover branch uses the coverer's own options) -/

theorem newCoverer_optionsOf {cfg : Config} (h : CfgOK cfg) : newCoverer (optionsOf cfg) = cfg := by
  have h1 := h.min_le; have h2 := h.max_le; have h3 := h.mod_ge; have h4 := h.mod_le
  obtain ⟨a, b, c, m⟩ := cfg
  simp only [] at h1 h2 h3 h4
  simp only [newCoverer, optionsOf, clamp, Config.mk.injEq]
  refine ⟨?_, ?_, ?_, trivial⟩ <;> omega

/-- the temporary coverer's results are valid start cells for the outer coverer -/
theorem startOK_of_temp_res {cfg : Config} (h : CfgOK cfg) {cu : CU}
    (hr : ∀ c ∈ cu, CellAt (Res (newCoverer (tempOptions cfg))) c) : StartOK cfg cu := by
  intro c hc
  obtain ⟨h0, hM, h1⟩ := newCoverer_tempOptions h
  obtain ⟨k, hk, _, ht⟩ := hr c hc
  have : top (newCoverer (tempOptions cfg)) = cfg.maxLevel := by
    unfold top; rw [h0, hM, h1]; simp [Nat.mod_one]
  exact ⟨(isValid_iff c).mpr ⟨k, hk⟩, by rw [hk.level_eq]; omega⟩

/-- `normalizeCovering` with the re-cover recursion of the code (any depth, any geometry oracle
    `geo` = `CellUnionBound()` of a cell union returning valid cells): valid cells on the grid. -/
theorem normalizeCoveringRec_res (geo : CU → CU) (hgeo : ∀ cu, ∀ c ∈ geo cu, isValid c = true) :
    ∀ (fuel : Nat) (cfg : Config), CfgOK cfg → ∀ (cov : CU), (∀ c ∈ cov, isValid c = true) →
      ∀ c ∈ normalizeCoveringRec fuel geo cfg cov, CellAt (Res cfg) c := by
  intro fuel
  induction fuel with
  | zero =>
    intro cfg h cov hb
    unfold normalizeCoveringRec
    exact normalizeCovering_levels_of_recover h _ cov hb (fun _ hc => hc)
  | succ fuel ih =>
    intro cfg h cov hb
    unfold normalizeCoveringRec
    apply normalizeCovering_levels_of_recover h _ cov hb
    intro cu _ c hc
    unfold recoverOwn covering at hc
    have hs : StartOK (newCoverer (optionsOf cfg))
        (normalizeCoveringRec fuel geo (newCoverer (tempOptions cfg)) (geo cu)) := by
      rw [newCoverer_optionsOf h]
      exact startOK_of_temp_res h (ih _ (newCoverer_ok _) _ (hgeo cu))
    have := coveringWith_res heapLawful (optionsOf cfg) false (cellUnionRegion cu) _ hs c hc
    rwa [newCoverer_optionsOf h] at this

/-- the full-strength level claim for `FastCovering` ("All of the usual parameters are respected
    (MaxCells, MinLevel, MaxLevel, and LevelMod)", regioncoverer.go): every configuration (any ints),
    every bound of valid cells, every depth of the re-cover recursion, every geometry oracle. -/
def FastCoveringLevels : Prop :=
  ∀ (fuel : Nat) (geo : CU → CU) (o : Options) (bound : CU), (∀ cu, ∀ c ∈ geo cu, isValid c = true) →
    (∀ c ∈ bound, isValid c = true) →
    ∀ c ∈ fastCoveringRec fuel geo o bound, LevelsOK (newCoverer o) c

/-- (1c) S18 REPAIRED: `FastCovering` honours MinLevel, MaxLevel and LevelMod for all configurations
    (before repair e130a30 this was false: the re-cover branch used `NewRegionCoverer()`). -/
theorem fastCovering_levels : FastCoveringLevels := by
  intro fuel geo o bound hgeo hb c hc
  exact levelsOK_of_res (normalizeCoveringRec_res geo hgeo fuel _ (newCoverer_ok o) bound hb c hc)

/-- the former S18 input (Cap of 0.05 rad at the centre of cell 0/12, `{0, 30, LevelMod 3, MaxCells -5000}`,
    `CellUnionBound()` = four level-3 siblings; the inner cap bound = faces 0,1,2): the old code
    returned the level-2 parent `0x0d00…`, the repaired code returns face 0. -/
example : fastCoveringRec 3 (fun _ => [0x1000000000000000, 0x5000000000000000, 0x9000000000000000])
    ⟨0, 30, 3, -5000⟩
    [0x0d40000000000000, 0x0cc0000000000000, 0x0dc0000000000000, 0x0c40000000000000]
      = [0x1000000000000000] := by
  simp only [fastCoveringRec, normalizeCoveringRec, normalizeCovering, preNormalize, recoverOwn, covering,
    cellUnionWith, coveringWith, coveringInternal, normalize, sortIDs_eq_isort]
  decide +kernel

/-- (1c, auxiliary) the same with the re-cover branch abstracted to an ARBITRARY function, when that
    branch is not taken (`takesRecover = false`) — this is the form the oracle uses, where `recover`
    is the implementation's own output. -/
theorem fastCovering_levels_norecover (o : Options) (recover : CU → CU) (bound : CU)
    (hb : ∀ c ∈ bound, isValid c = true) (hnr : takesRecover (newCoverer o) bound = false) :
    ∀ c ∈ fastCovering o recover bound, LevelsOK (newCoverer o) c :=
  fun c hc => levelsOK_of_res (fastCovering_res o recover bound hb hnr c hc)

/-- non-vacuity: two level-1 siblings with `MaxCells = 1` go through the merge loop
    (`takesRecover = false`, not canonical) and come out as their face cell -/
example : (∀ c ∈ [child (fromFace 0) 0, child (fromFace 0) 1], isValid c = true) ∧
    takesRecover (newCoverer ⟨0, 30, 1, 1⟩) [child (fromFace 0) 0, child (fromFace 0) 1] = false ∧
    fastCovering ⟨0, 30, 1, 1⟩ id [child (fromFace 0) 0, child (fromFace 0) 1] = [fromFace 0] := by
  refine ⟨?_, ?_, ?_⟩
  · intro c hc
    simp only [List.mem_cons, List.not_mem_nil, or_false] at hc
    rcases hc with rfl | rfl <;> decide +kernel
  · simp only [takesRecover, preNormalize, normalize, sortIDs_eq_isort]
    decide +kernel
  · simp only [fastCovering, normalizeCovering, preNormalize, normalize, sortIDs_eq_isort]
    decide +kernel

/-- the start contract of the search (`StartOK`) is met by the temporary `FastCovering` of
    `initialCandidates` (from `Region.CellUnionBound()`) whenever that call does not re-cover -/
theorem startCells_ok (o : Options) (recover : CU → CU) (bound : CU) (hb : ∀ c ∈ bound, isValid c = true)
    (hnr : takesRecover (newCoverer (tempOptions (newCoverer o))) bound = false) :
    StartOK (newCoverer o) (startCells o recover bound) := by
  intro c hc
  obtain ⟨k, hk, hkm⟩ := startCells_cellAt o recover bound hb hnr c hc
  exact ⟨(isValid_iff c).mpr ⟨k, hk⟩, by rw [hk.level_eq]; exact hkm⟩

/-- the start cells the code derives in `initialCandidates` (recursion spelled out) meet `StartOK` -/
theorem startCellsRec_ok (fuel : Nat) (geo : CU → CU) (o : Options) (bound : CU)
    (hgeo : ∀ cu, ∀ c ∈ geo cu, isValid c = true) (hb : ∀ c ∈ bound, isValid c = true) :
    StartOK (newCoverer o) (startCellsRec fuel geo o bound) :=
  startOK_of_temp_res (newCoverer_ok o) (normalizeCoveringRec_res geo hgeo fuel _ (newCoverer_ok _) bound hb)

/-- (1a) END TO END, from `Region.CellUnionBound()` on, no side condition left: `Covering` /
    `InteriorCovering` computed from the start cells the code itself derives respect the level
    limits, for every configuration (any ints), every abstract region, every valid bound. -/
theorem covering_levels_from_bound (fuel : Nat) (geo : CU → CU) (o : Options) (interior : Bool) (R : Region) (bound : CU)
    (hgeo : ∀ cu, ∀ c ∈ geo cu, isValid c = true) (hb : ∀ c ∈ bound, isValid c = true) :
    ∀ c ∈ coveringWith heapOps o interior R (startCellsRec fuel geo o bound), LevelsOK (newCoverer o) c :=
  coveringWith_levels heapLawful o interior R _ (startCellsRec_ok fuel geo o bound hgeo hb)

/-! ### (4) totality -/

/-- (4) The `for` loop of `coveringInternal` always ends by its own exit test within `loopFuel`
    iterations (so the fuel of the model is never what stops it): for every configuration, region,
    lawful queue, exterior or interior. -/
theorem coverLoop_terminates {ops : PQOps Q} (law : LawfulPQ ops) (o : Options) (interior : Bool)
    (R : Region) (start : CU) (hs : StartOK (newCoverer o) start) :
    loopCond ops (newCoverer o) interior
      (coverLoop ops (newCoverer o) interior R (loopFuel start) (initState ops (newCoverer o) interior R start)) = false := by
  have h := newCoverer_ok o
  apply coverLoop_exit law h
  · apply initState_inv law (term_closure h interior R) start
    intro ci hci ch hch
    obtain ⟨k, hx, hp⟩ := adjustCellLevels_pre h start hs.cellAt ci hci
    exact ⟨k, newCandidate_good hx hch, hp⟩
  · exact initState_mu law start

/-! ### (2) covering soundness -/

/-- named hypothesis (package C11, `normalize_leaves`): Normalize preserves the covered leaf set -/
def NormalizeLeaves : Prop :=
  ∀ cu : CU, (∀ c ∈ cu, isValid c = true) → ∀ n, n % 2 = 1 → coversLeaf (normalize cu) n = coversLeaf cu n

/-- named hypothesis (package C11): Denormalize preserves the covered leaf set -/
def DenormalizeLeaves : Prop :=
  ∀ (cu : CU) (minLevel levelMod : Nat), minLevel ≤ 30 → 1 ≤ levelMod → levelMod ≤ 3 →
    (∀ c ∈ cu, isValid c = true) → ∀ n, n % 2 = 1 → coversLeaf (denormalize cu minLevel levelMod) n = coversLeaf cu n

/-- (2a) the raw result of the exterior search covers every region leaf that the start cells cover:
    for every configuration, every region whose `intersectsCell` is one-sidedly safe, every pop order. -/
theorem rawResult_covers {ops : PQOps Q} (law : LawfulPQ ops) (o : Options) (R : Region) (P : Nat → Prop)
    (hI : IntersectsSafe R P) (start : CU) (hs : StartOK (newCoverer o) start)
    (hcov : ∀ n, n % 2 = 1 → P n → coversLeaf start n = true) :
    ∀ n, n % 2 = 1 → P n → coversLeaf (rawResult ops (newCoverer o) false R start) n = true := by
  have h := newCoverer_ok o
  intro n hn hP
  rw [coversLeaf_iff]
  unfold rawResult
  have hg0 := initState_good law h hI start hs.cellAt hn hP ((coversLeaf_iff _ _).mp (hcov n hn hP))
  have hinv0 : StInv law (fun _ => True) (NestCand (newCoverer o)) (initState ops (newCoverer o) false R start) := by
    apply initState_inv law (nest_closure h false R) start
    intro ci hci ch hch
    obtain ⟨k, hx, hp⟩ := adjustCellLevels_pre h start hs.cellAt ci hci
    exact ⟨k, newCandidate_good hx hch, hp⟩
  have hg := coverLoop_good law h hI hn hP (loopFuel start) _ hinv0 hg0
  have hexit := coverLoop_terminates law o false R start hs
  generalize coverLoop ops (newCoverer o) false R (loopFuel start) (initState ops (newCoverer o) false R start) = fin at hg hexit ⊢
  unfold loopCond at hexit
  simp only [Bool.not_false, Bool.true_or, Bool.and_true, decide_eq_false_iff_not, Nat.not_lt, Nat.le_zero] at hexit
  have hnil : law.toList fin.pq = [] := by
    have := law.size_eq fin.pq; rw [hexit] at this
    exact List.eq_nil_of_length_eq_zero this.symm
  rcases hg with hr | ⟨cand, hc, _⟩
  · obtain ⟨c, hc, hin⟩ := hr
    exact ⟨c, by simpa using hc, hin⟩
  · rw [hnil] at hc; cases hc

theorem valid_of_res {cfg : Config} {cu : CU} (h : ∀ c ∈ cu, CellAt (Res cfg) c) : ∀ c ∈ cu, isValid c = true :=
  fun c hc => by obtain ⟨k, hk, _⟩ := h c hc; exact isCell_valid hk

/-- the leaf set of `Covering`/`InteriorCovering`/`CellUnion` equals the leaf set of the raw search result -/
theorem coveringWith_leaves {ops : PQOps Q} (law : LawfulPQ ops) (hN : NormalizeLeaves) (hD : DenormalizeLeaves)
    (o : Options) (interior : Bool) (R : Region) (start : CU) (hs : StartOK (newCoverer o) start) :
    ∀ n, n % 2 = 1 →
      (coversLeaf (coveringWith ops o interior R start) n = coversLeaf (rawResult ops (newCoverer o) interior R start) n ∧
       coversLeaf (cellUnionWith ops o interior R start) n = coversLeaf (rawResult ops (newCoverer o) interior R start) n) := by
  have h := newCoverer_ok o
  intro n hn
  have hraw := rawResult_levels law h interior R start hs.cellAt
  have hrawv := valid_of_res hraw
  have hnv : ∀ c ∈ normalize (rawResult ops (newCoverer o) interior R start), isValid c = true := by
    intro c hc
    obtain ⟨k, hk, _⟩ := normalize_levels (top (newCoverer o)) _ (fun c hc => (hraw c hc).mono (fun k _ hk => hk.2)) c hc
    exact isCell_valid hk
  have hci := coveringInternal_res law h interior R start hs
  have hciv := valid_of_res hci
  have e1 : coversLeaf (coveringInternal ops (newCoverer o) interior R start) n
      = coversLeaf (rawResult ops (newCoverer o) interior R start) n := by
    unfold coveringInternal
    simp only []
    split
    · rw [hD _ _ _ h.min_le h.mod_ge h.mod_le hnv n hn, hN _ hrawv n hn]
    · rw [hN _ hrawv n hn]
  have e2 : coversLeaf (cellUnionWith ops o interior R start) n
      = coversLeaf (rawResult ops (newCoverer o) interior R start) n := by
    unfold cellUnionWith; rw [hN _ hciv n hn, e1]
  refine ⟨?_, e2⟩
  unfold coveringWith
  simp only []
  have hcuv : ∀ c ∈ cellUnionWith ops o interior R start, isValid c = true :=
    fun c hc => (cellUnion_levels law o interior R start hs c hc).1
  rw [hD _ _ _ h.min_le h.mod_ge h.mod_le hcuv n hn, e2]

/-- (2b) COVERING SOUNDNESS of `Covering` and `CellUnion`: if `intersectsCell` never says *no* for a
    cell that holds a leaf of the region and the start cells cover the region, the returned cells
    cover the region — for every configuration (any ints), every pop order.  Normalize/Denormalize
    leaf preservation enters as the named hypotheses of package C11. -/
theorem covering_covers {ops : PQOps Q} (law : LawfulPQ ops) (hN : NormalizeLeaves) (hD : DenormalizeLeaves)
    (o : Options) (R : Region) (P : Nat → Prop) (hI : IntersectsSafe R P) (start : CU)
    (hs : StartOK (newCoverer o) start) (hcov : ∀ n, n % 2 = 1 → P n → coversLeaf start n = true) :
    ∀ n, n % 2 = 1 → P n →
      coversLeaf (coveringWith ops o false R start) n = true ∧ coversLeaf (cellUnionWith ops o false R start) n = true := by
  intro n hn hP
  obtain ⟨e1, e2⟩ := coveringWith_leaves law hN hD o false R start hs n hn
  have := rawResult_covers law o R P hI start hs hcov n hn hP
  exact ⟨by rw [e1]; exact this, by rw [e2]; exact this⟩

/-- non-vacuity of (2): a cell-union region with its exact id predicates is `IntersectsSafe` w.r.t. its
    own leaf set, here for the one-cell union `[0/123]` (checked on the instance by evaluation of the
    covering; the general fact is C11 `intersectsCellID_iff`). -/
example : (covering ⟨0, 30, 1, 8⟩ (cellUnionRegion [child (child (child (fromFace 0) 1) 2) 3]) [fromFace 0])
    = [child (child (child (fromFace 0) 1) 2) 3] := by
  simp only [covering, cellUnionWith, coveringWith, coveringInternal, normalize, sortIDs_eq_isort]
  decide +kernel

/-- non-vacuity of `IntersectsSafe` / `ContainsSafe`: the region "everything" with the trivial predicates -/
example : IntersectsSafe ⟨fun _ => true, fun _ => true⟩ (fun _ => True) ∧ ContainsSafe ⟨fun _ => true, fun _ => true⟩ (fun _ => True) :=
  ⟨(fun _ _ h => nomatch h), fun _ _ _ _ _ _ => trivial⟩

/-! ### (3) interior coverings -/

/-- (3a) every cell of the raw interior search result lies inside the region -/
theorem rawResult_interior {ops : PQOps Q} (law : LawfulPQ ops) (o : Options) (R : Region) (P : Nat → Prop)
    (hC : ContainsSafe R P) (start : CU) (hs : StartOK (newCoverer o) start) :
    ∀ n, n % 2 = 1 → coversLeaf (rawResult ops (newCoverer o) true R start) n = true → P n := by
  have h := newCoverer_ok o
  intro n hn hc
  obtain ⟨c, hcm, hin⟩ := (coversLeaf_iff _ _).mp hc
  refine rawResult_inv law (interior_closure h R P hC) start ?_ c hcm n hn hin
  intro ci hci ch hch
  obtain ⟨k, hx, hp⟩ := adjustCellLevels_pre h start hs.cellAt ci hci
  exact ⟨⟨k, newCandidate_good hx hch, hp⟩, fun ht => newCandidate_interior_terminal hch ht⟩

/-- (3b) INTERIOR: if `containsCell` never says *yes* for a cell with a leaf outside the region, every
    leaf of `InteriorCovering` and of `InteriorCellUnion` is in the region — every configuration,
    every pop order (the start cells need not even cover the region). -/
theorem interiorCovering_inside {ops : PQOps Q} (law : LawfulPQ ops) (hN : NormalizeLeaves) (hD : DenormalizeLeaves)
    (o : Options) (R : Region) (P : Nat → Prop) (hC : ContainsSafe R P) (start : CU)
    (hs : StartOK (newCoverer o) start) :
    ∀ n, n % 2 = 1 →
      (coversLeaf (coveringWith ops o true R start) n = true → P n) ∧
      (coversLeaf (cellUnionWith ops o true R start) n = true → P n) := by
  intro n hn
  obtain ⟨e1, e2⟩ := coveringWith_leaves law hN hD o true R start hs n hn
  have := rawResult_interior law o R P hC start hs n hn
  exact ⟨by rw [e1]; exact this, by rw [e2]; exact this⟩

/-! ### the named hypotheses are theorems of C11 -/

theorem normalizeLeaves_holds : NormalizeLeaves :=
  fun cu hv n hn => S2Proofs.C11.normalize_leaves cu hv n hn

theorem denormalizeLeaves_holds : DenormalizeLeaves :=
  fun cu minLevel levelMod hmin h1 h3 hv n hn =>
    (S2Proofs.C11.denormalize_leaves cu minLevel levelMod hv hmin ⟨h1, h3⟩).2.1 n hn

/-- (2b) without named hypotheses: `Covering` and `CellUnion` cover every leaf of the region, for
    Go's own queue order. -/
theorem covering_covers_heap (o : Options) (R : Region) (P : Nat → Prop) (hI : IntersectsSafe R P) (start : CU)
    (hs : StartOK (newCoverer o) start) (hcov : ∀ n, n % 2 = 1 → P n → coversLeaf start n = true) :
    ∀ n, n % 2 = 1 → P n →
      coversLeaf (covering o R start) n = true ∧ coversLeaf (cellUnion o R start) n = true :=
  covering_covers heapLawful normalizeLeaves_holds denormalizeLeaves_holds o R P hI start hs hcov

/-- (3b) without named hypotheses: every leaf of `InteriorCovering` / `InteriorCellUnion` is in the region. -/
theorem interiorCovering_inside_heap (o : Options) (R : Region) (P : Nat → Prop) (hC : ContainsSafe R P) (start : CU)
    (hs : StartOK (newCoverer o) start) :
    ∀ n, n % 2 = 1 →
      (coversLeaf (interiorCovering o R start) n = true → P n) ∧
      (coversLeaf (interiorCellUnion o R start) n = true → P n) :=
  interiorCovering_inside heapLawful normalizeLeaves_holds denormalizeLeaves_holds o R P hC start hs

/-! ### the merge loop of normalizeCovering ends (repair cd338c8: the hang is gone) -/

/-- the covering handed to the size test / merge loop of `normalizeCovering` is a valid (sorted,
    pairwise disjoint) cell union, for every configuration and every bound of valid cells -/
theorem preNormalize_valid (o : Options) (bound : CU) (hb : ∀ c ∈ bound, isValid c = true) :
    isValidCU (preNormalize (newCoverer o) bound) = true := by
  have h := newCoverer_ok o
  have hcl : AllValid (clampLevels (newCoverer o) bound) := fun c hc => by
    obtain ⟨k, hk, _⟩ := clampLevels_top h bound hb c hc; exact isCell_valid hk
  have hn := S2Proofs.C11.normalize_isValidCU _ hcl
  unfold preNormalize
  simp only []
  split
  · exact S2Proofs.C11.denormalize_valid _ _ _ hn h.min_le ⟨h.mod_ge, h.mod_le⟩
  · exact hn

/-- (4b) THE HANG IS GONE: for every configuration (any ints) and every bound of valid cells — leaf
    cells included — the `for len(*covering) > c.maxCells` loop of `normalizeCovering` ends by one of
    its own exit tests (`len ≤ maxCells`, or no adjacent pair with a common ancestor at `minLevel` or
    above): every round strictly shortens the covering (`mergeLoop_round_shrinks`), so the fuel
    `len(covering)` of the model is never what stops it, and more fuel changes nothing. -/
theorem normalizeCovering_merge_terminates (o : Options) (bound : CU) (hb : ∀ c ∈ bound, isValid c = true) (k : Nat) :
    let cov := preNormalize (newCoverer o) bound
    MergeDone (newCoverer o) (mergeLoop (newCoverer o) cov.length cov) ∧
      mergeLoop (newCoverer o) (cov.length + k) cov = mergeLoop (newCoverer o) cov.length cov ∧
      isValidCU (mergeLoop (newCoverer o) cov.length cov) = true := by
  intro cov
  obtain ⟨hv, hs⟩ := (isValidCU_iff cov).mp (preNormalize_valid o bound hb)
  obtain ⟨hd, hv', hs', _⟩ := mergeLoop_done (newCoverer o) cov.length cov hv hs (Nat.le_refl _)
  exact ⟨hd, mergeLoop_fuel_suffices (newCoverer o) hv hs k, (isValidCU_iff _).mpr ⟨hv', hs'⟩⟩

/-! ### (5) isCanonical -/

/-- (5, soundness direction) a covering accepted by `IsCanonical` consists of valid cells with
    `minLevel ≤ level ≤ trueMax`, on the LevelMod grid, sorted and pairwise disjoint.
    (The converse — characterisation of the sibling-run and too-many-cells clauses — is not proved.) -/
theorem isCanonical_sound (o : Options) (cov : CU) (hc : isCanonical (newCoverer o) cov = true) :
    (∀ c ∈ cov, isValid c = true ∧ (newCoverer o).minLevel ≤ level c ∧ ((level c : Int) ≤ trueMax (newCoverer o)) ∧
        (level c - (newCoverer o).minLevel) % (newCoverer o).levelMod = 0)
    ∧ List.Pairwise (fun a b => rangeMax a < rangeMin b) cov :=
  isCanonical_levels (newCoverer_ok o) cov hc

end S2Proofs.C05
