/-
  Property C16, order independence of the REPAIRED `Intersection` (repair D50, docs/fixes/D50_intersection_canonical_order.diff).

  The repaired code puts its four arguments into a canonical order ONCE (`canonicalEdges` = `EdgeNum.canonArgs`: endpoints of
  each edge in `Cmp` order, then the longer edge first with the `compareEdges` tie-break) and hands the SAME tuple to the stable
  kernel, to the exact kernel and into the vertex sum of the hemisphere correction.  Hence bit identity under the 8 argument
  orders is no longer a statement about the numeric kernels at all:

   * the canonical tuple does not depend on the order of the endpoints of an edge as soon as the endpoints are different
     points (finite, not equal under `==`)                                          sortEdge_comm, canonArgs_reverse_a/b
     nor on the order of the two edges as soon as `compareEdges` orders them one way only (finite points, different smaller
     endpoints; the squared lengths may overflow to +Inf, they are never NaN)        norm2_sub_nn, aFirst_swap_nn, canonArgs_swap
     `CanonInput` (decidable) collects these facts; it is closed under the three generators       CanonInput.revA/revB/swap
     all 8 orders give ONE tuple                                                                   canonArgs_order_independent
   * `Intersection` is a function of that tuple, for ARBITRARY kernels `K`, `E` — no `KernelSym`, no `DecisiveAt`, no
     `OccwSym` / `GenPos`                       intersectionG_eq_onTuple, intersectionG_reverse_a/b, intersectionG_swap,
                                                intersectionG_order_independent, intersection_order_independent
     the same for `intersectionStable` (accept flag and point)                             intersectionStable_order_independent
   * in-contract inputs are canonical inputs (`CrossingSign == Cross` excludes degenerate edges and shared vertices; unit
     vectors do not overflow)                                                     nondegenerate_of_crosses, canonInput_of_inContract
     so `BitIdentityClaim` of `C16.lean` — the property's "bit-identical under reversing either edge or swapping the two
     edges", over ALL in-contract inputs, including the exactly antipodal edges that refuted it for the old code — is PROVED
                                                                    bitIdentityClaim, intersection_order_independent_inContract
     and Go's `==` form wherever the result has no NaN coordinate                                            goEquality_of_fin
   * the canonical tuple is one of the 8 orders of the arguments (so the kernels see the edges the caller passed, only
     reordered)                                                                                                canonArgs_mem
     and on it the repaired function is the OLD function: `stableArgs` is idempotent there, so every statement about the old
     code evaluated at a canonical tuple (accuracy evidence, `kernelSym_real`) carries over
                                                             canonArgs_idem, stableArgs_canonArgs, intersection_eq_old_on_canon
   * regression witnesses: the D50 input (in contract, collinear, two parallel vertices) gives ONE point in all 8 orders now,
     while the pre-repair model gives three different ones                                  d50_repaired, d50_old_order_dependent
     the hypothesis `mins` of `CanonInput` is not redundant: two edges of equal length sharing their smaller endpoint give a
     canonical tuple — and a result — that depends on the order of the edges                                  mins_necessary

  What is NOT here (unchanged by the repair, judged by the oracle): the 8·2^-53 accuracy bound, unit length of the result.
-/
import S2Proofs.Properties.C16_Sym
import S2Proofs.F64Carrier

set_option linter.unusedSimpArgs false
set_option linter.unusedVariables false

namespace S2Proofs.C16
open S2 S2.Exact S2.EdgeNum S2Proofs.F64Order S2Proofs.PredLemmas

/-! ## (1) the canonical tuple -/

/-- Sorting the endpoints of an edge forgets their order, provided they are different finite points. -/
theorem sortEdge_comm {a0 a1 : V3} (h0 : Fin3 a0) (h1 : Fin3 a1) (hne : ofV3 a0 ≠ ofV3 a1) :
    sortEdge a1 a0 = sortEdge a0 a1 := by
  unfold sortEdge vlt
  rw [v3cmp_eq h0 h1, v3cmp_eq h1 h0, cmp_antisymm (ofV3 a0) (ofV3 a1)]
  have hz : IV3.cmp (ofV3 a0) (ofV3 a1) ≠ 0 := fun h => hne ((cmp_eq_zero_iff _ _).mp h)
  rcases cmp_values (ofV3 a0) (ofV3 a1) with h | h | h
  · simp [h]
  · exact absurd h hz
  · simp [h]

/-- the finiteness hypothesis is needed: two NaN-free points are required for `Cmp` to be an order.  Non-vacuity of the
    hypotheses: two different finite points -/
example : Fin3 ⟨F64.one, F64.zero false, F64.zero false⟩ ∧ Fin3 ⟨F64.zero false, F64.one, F64.zero false⟩ ∧
    ofV3 ⟨F64.one, F64.zero false, F64.zero false⟩ ≠ ofV3 ⟨F64.zero false, F64.one, F64.zero false⟩ := by decide +kernel

/-- reversing the first edge does not change the canonical tuple -/
theorem canonArgs_reverse_a (a0 a1 b0 b1 : V3) (h0 : Fin3 a0) (h1 : Fin3 a1) (hne : ofV3 a0 ≠ ofV3 a1) :
    canonArgs a1 a0 b0 b1 = canonArgs a0 a1 b0 b1 := by
  unfold canonArgs; rw [sortEdge_comm h0 h1 hne]

/-- reversing the second edge does not change the canonical tuple -/
theorem canonArgs_reverse_b (a0 a1 b0 b1 : V3) (h0 : Fin3 b0) (h1 : Fin3 b1) (hne : ofV3 b0 ≠ ofV3 b1) :
    canonArgs a0 a1 b1 b0 = canonArgs a0 a1 b0 b1 := by
  unfold canonArgs; rw [sortEdge_comm h0 h1 hne]

/-- the squared length of the sorted edge is the squared length of the edge -/
theorem sortEdge_len {a0 a1 : V3} (h0 : Fin3 a0) (h1 : Fin3 a1) :
    ((sortEdge a0 a1).2.sub (sortEdge a0 a1).1).norm2 = (a1.sub a0).norm2 := by
  unfold sortEdge; split
  · rfl
  · show (a0.sub a1).norm2 = (a1.sub a0).norm2
    exact S2Proofs.F64Sym.norm2_sub_swap h1 h0

/-- the smaller endpoint of the sorted edge is the smaller endpoint of the edge -/
theorem sortEdge_min {a0 a1 : V3} (h0 : Fin3 a0) (h1 : Fin3 a1) :
    min (ofV3 (sortEdge a0 a1).1) (ofV3 (sortEdge a0 a1).2) = min (ofV3 a0) (ofV3 a1) := by
  rw [sortEdge_fst h0 h1, sortEdge_snd h0 h1]
  exact min_eq_left (le_trans (min_le_left _ _) (le_max_left _ _))

/-! The squared length of an edge with finite endpoints may overflow to `+Inf` but is never NaN, and on NaN-free values
    `<` / `==` are a trichotomy: the length comparison of `canonicalEdges` needs no finiteness of the lengths. -/

open S2Proofs.F64Carrier in
/-- the squared distance of two finite points is not NaN (it is `+0`, positive or `+Inf`) -/
theorem norm2_sub_nn {u v : V3} (hu : Fin3 u) (hv : Fin3 v) : NN (u.sub v).norm2 := by
  have hx := S2Proofs.F64Sym2.sq_pos (nn_sub_of_fin hu.1 hv.1)
  have hy := S2Proofs.F64Sym2.sq_pos (nn_sub_of_fin hu.2.1 hv.2.1)
  have hz := S2Proofs.F64Sym2.sq_pos (nn_sub_of_fin hu.2.2 hv.2.2)
  exact (S2Proofs.F64Sym2.add_pos (S2Proofs.F64Sym2.add_pos hx hy) hz).1

open S2Proofs.F64Carrier in
/-- `aFirst_swap` of `C16.lean` for squared lengths that are merely not NaN -/
theorem aFirst_swap_nn (a0 a1 b0 b1 : V3)
    (hA : NN (a1.sub a0).norm2) (hB : NN (b1.sub b0).norm2)
    (htie : F64.feq (a1.sub a0).norm2 (b1.sub b0).norm2 = true →
      compareEdges b0 b1 a0 a1 = !compareEdges a0 a1 b0 b1) :
    aFirst b0 b1 a0 a1 = !aFirst a0 a1 b0 b1 := by
  unfold aFirst
  generalize (a1.sub a0).norm2 = x at *
  generalize (b1.sub b0).norm2 = y at *
  have hlt1 := lt_iff_key hA hB
  have hlt2 := lt_iff_key hB hA
  have heq1 := feq_iff_key hA hB
  have heq2 := feq_iff_key hB hA
  rcases lt_trichotomy (key x) (key y) with h | h | h
  · have e1 : F64.lt x y = true := hlt1.mpr h
    have e2 : F64.lt y x = false := by
      cases hh : F64.lt y x
      · rfl
      · have := hlt2.mp hh; omega
    have e3 : F64.feq y x = false := by
      cases hh : F64.feq y x
      · rfl
      · have := heq2.mp hh; omega
    simp [e1, e2, e3]
  · have e1 : F64.lt x y = false := by
      cases hh : F64.lt x y
      · rfl
      · have := hlt1.mp hh; omega
    have e2 : F64.lt y x = false := by
      cases hh : F64.lt y x
      · rfl
      · have := hlt2.mp hh; omega
    have e3 : F64.feq x y = true := heq1.mpr h
    have e4 : F64.feq y x = true := heq2.mpr h.symm
    have ht := htie e3
    cases hc : compareEdges a0 a1 b0 b1 <;> simp [e1, e2, e3, e4, ht, hc]
  · have e1 : F64.lt x y = false := by
      cases hh : F64.lt x y
      · rfl
      · have := hlt1.mp hh; omega
    have e2 : F64.lt y x = true := hlt2.mpr h
    have e3 : F64.feq x y = false := by
      cases hh : F64.feq x y
      · rfl
      · have := heq1.mp hh; omega
    simp [e1, e2, e3]

/-- the edge sorting of `intersectionStable` sees the same tuple for both orders of the edges: finite points with different
    smaller endpoints (no hypothesis on the lengths) -/
theorem stableArgs_swap_fin3 (a0 a1 b0 b1 : V3) (ha0 : Fin3 a0) (ha1 : Fin3 a1) (hb0 : Fin3 b0) (hb1 : Fin3 b1)
    (hne : min (ofV3 a0) (ofV3 a1) ≠ min (ofV3 b0) (ofV3 b1)) :
    stableArgs b0 b1 a0 a1 = stableArgs a0 a1 b0 b1 := by
  rw [stableArgs_eq, stableArgs_eq, aFirst_swap_nn a0 a1 b0 b1 (norm2_sub_nn ha1 ha0) (norm2_sub_nn hb1 hb0)
    (fun _ => by
      rw [compareEdges_eq_I _ _ _ _ hb0 hb1 ha0 ha1, compareEdges_eq_I _ _ _ _ ha0 ha1 hb0 hb1]
      exact compareEdgesI_asymm_total _ _ _ _ hne)]
  cases aFirst a0 a1 b0 b1 <;> simp

/-- swapping the two edges does not change the canonical tuple, provided `compareEdges` can order them: finite points with
    different smaller endpoints -/
theorem canonArgs_swap (a0 a1 b0 b1 : V3) (ha0 : Fin3 a0) (ha1 : Fin3 a1) (hb0 : Fin3 b0) (hb1 : Fin3 b1)
    (hne : min (ofV3 a0) (ofV3 a1) ≠ min (ofV3 b0) (ofV3 b1)) :
    canonArgs b0 b1 a0 a1 = canonArgs a0 a1 b0 b1 := by
  unfold canonArgs
  dsimp only
  obtain ⟨fa, fa'⟩ := sortEdge_fin ha0 ha1
  obtain ⟨fb, fb'⟩ := sortEdge_fin hb0 hb1
  apply stableArgs_swap_fin3 _ _ _ _ fa fa' fb fb'
  rw [sortEdge_min ha0 ha1, sortEdge_min hb0 hb1]; exact hne

/-- The facts about one input on which the canonicalisation relies — all decidable: finite points, non-degenerate edges
    (`a0 != a1` under Go's `==`), different smaller endpoints.  EXACTLY what makes `Cmp` order the endpoints of each edge and
    `compareEdges` order the two edges (`compareEdgesI_asymm_total`).  Compared with `GoodInput` of the pre-repair theorems:
    finiteness of the squared lengths and of the vertex sums is not needed any more (the lengths may overflow to +Inf, the sum
    is taken over the canonical tuple); non-degeneracy is new. -/
structure CanonInput (a0 a1 b0 b1 : V3) : Prop where
  fa0 : Fin3 a0
  fa1 : Fin3 a1
  fb0 : Fin3 b0
  fb1 : Fin3 b1
  neA : ofV3 a0 ≠ ofV3 a1
  neB : ofV3 b0 ≠ ofV3 b1
  mins : min (ofV3 a0) (ofV3 a1) ≠ min (ofV3 b0) (ofV3 b1)

instance (a0 a1 b0 b1 : V3) : Decidable (CanonInput a0 a1 b0 b1) :=
  decidable_of_iff (Fin3 a0 ∧ Fin3 a1 ∧ Fin3 b0 ∧ Fin3 b1 ∧
      ofV3 a0 ≠ ofV3 a1 ∧ ofV3 b0 ≠ ofV3 b1 ∧ min (ofV3 a0) (ofV3 a1) ≠ min (ofV3 b0) (ofV3 b1))
    ⟨fun ⟨h1, h2, h3, h4, h7, h8, h9⟩ => ⟨h1, h2, h3, h4, h7, h8, h9⟩,
     fun h => ⟨h.fa0, h.fa1, h.fb0, h.fb1, h.neA, h.neB, h.mins⟩⟩

/-- canonical inputs are closed under the three generating permutations -/
theorem CanonInput.revA {a0 a1 b0 b1 : V3} (C : CanonInput a0 a1 b0 b1) : CanonInput a1 a0 b0 b1 :=
  ⟨C.fa1, C.fa0, C.fb0, C.fb1, fun e => C.neA e.symm, C.neB, by rw [min_comm]; exact C.mins⟩
theorem CanonInput.revB {a0 a1 b0 b1 : V3} (C : CanonInput a0 a1 b0 b1) : CanonInput a0 a1 b1 b0 :=
  ⟨C.fa0, C.fa1, C.fb1, C.fb0, C.neA, fun e => C.neB e.symm, by rw [min_comm (ofV3 b1)]; exact C.mins⟩
theorem CanonInput.swap {a0 a1 b0 b1 : V3} (C : CanonInput a0 a1 b0 b1) : CanonInput b0 b1 a0 a1 :=
  ⟨C.fb0, C.fb1, C.fa0, C.fa1, C.neB, C.neA, fun e => C.mins e.symm⟩

/-- a good input of the pre-repair theorems with non-degenerate edges is a canonical input -/
theorem CanonInput.ofGood {a0 a1 b0 b1 : V3} (G : GoodInput a0 a1 b0 b1) (neA : ofV3 a0 ≠ ofV3 a1)
    (neB : ofV3 b0 ≠ ofV3 b1) : CanonInput a0 a1 b0 b1 :=
  ⟨G.fa0, G.fa1, G.fb0, G.fb1, neA, neB, G.mins⟩

/-- ALL 8 ARGUMENT ORDERS GIVE ONE CANONICAL TUPLE. -/
theorem canonArgs_order_independent {a0 a1 b0 b1 : V3} (C : CanonInput a0 a1 b0 b1) :
    canonArgs a1 a0 b0 b1 = canonArgs a0 a1 b0 b1 ∧
    canonArgs a0 a1 b1 b0 = canonArgs a0 a1 b0 b1 ∧
    canonArgs a1 a0 b1 b0 = canonArgs a0 a1 b0 b1 ∧
    canonArgs b0 b1 a0 a1 = canonArgs a0 a1 b0 b1 ∧
    canonArgs b0 b1 a1 a0 = canonArgs a0 a1 b0 b1 ∧
    canonArgs b1 b0 a0 a1 = canonArgs a0 a1 b0 b1 ∧
    canonArgs b1 b0 a1 a0 = canonArgs a0 a1 b0 b1 := by
  have ra : ∀ {a0 a1 b0 b1 : V3}, CanonInput a0 a1 b0 b1 → canonArgs a1 a0 b0 b1 = canonArgs a0 a1 b0 b1 :=
    fun C => canonArgs_reverse_a _ _ _ _ C.fa0 C.fa1 C.neA
  have rb : ∀ {a0 a1 b0 b1 : V3}, CanonInput a0 a1 b0 b1 → canonArgs a0 a1 b1 b0 = canonArgs a0 a1 b0 b1 :=
    fun C => canonArgs_reverse_b _ _ _ _ C.fb0 C.fb1 C.neB
  have sw : ∀ {a0 a1 b0 b1 : V3}, CanonInput a0 a1 b0 b1 → canonArgs b0 b1 a0 a1 = canonArgs a0 a1 b0 b1 :=
    fun C => canonArgs_swap _ _ _ _ C.fa0 C.fa1 C.fb0 C.fb1 C.mins
  have e1 := ra C
  have e2 := rb C
  have e3 := (ra C.revB).trans e2
  exact ⟨e1, e2, e3, sw C, (sw C.revA).trans e1, (sw C.revB).trans e2, (sw C.revA.revB).trans e3⟩

/-! ## (2) `Intersection` is a function of the canonical tuple — for arbitrary kernels -/

/-- everything `Intersection` does after the canonicalisation, as a function of the tuple -/
def onTuple (K : V3 → V3 → V3 → V3 → Option V3) (E : V3 → V3 → V3 → V3 → V3) (t : V3 × V3 × V3 × V3) : V3 :=
  canonZero (signCorrect ((K t.1 t.2.1 t.2.2.1 t.2.2.2).getD (E t.1 t.2.1 t.2.2.1 t.2.2.2)) (sum4 t.1 t.2.1 t.2.2.1 t.2.2.2))

/-- the repaired `Intersection` = `onTuple` of the canonical tuple (by definition of the model; the model is tied to the Go
    source by `S2Proofs.Ties.C16_EdgeNum.tie_Intersection` / `tie_canonicalEdges`) -/
theorem intersectionG_eq_onTuple (K : V3 → V3 → V3 → V3 → Option V3) (E : V3 → V3 → V3 → V3 → V3) (a0 a1 b0 b1 : V3) :
    intersectionG K E a0 a1 b0 b1 = onTuple K E (canonArgs a0 a1 b0 b1) := by
  unfold intersectionG onTuple
  dsimp only
  cases K (canonArgs a0 a1 b0 b1).1 (canonArgs a0 a1 b0 b1).2.1 (canonArgs a0 a1 b0 b1).2.2.1
    (canonArgs a0 a1 b0 b1).2.2.2 <;> rfl

section
variable (K : V3 → V3 → V3 → V3 → Option V3) (E : V3 → V3 → V3 → V3 → V3)

/-- reversing the first edge: same bits, whatever the kernels — only "the endpoints are different finite points" is used -/
theorem intersectionG_reverse_a (a0 a1 b0 b1 : V3) (h0 : Fin3 a0) (h1 : Fin3 a1) (hne : ofV3 a0 ≠ ofV3 a1) :
    intersectionG K E a1 a0 b0 b1 = intersectionG K E a0 a1 b0 b1 := by
  rw [intersectionG_eq_onTuple, intersectionG_eq_onTuple, canonArgs_reverse_a a0 a1 b0 b1 h0 h1 hne]

/-- reversing the second edge: same bits, whatever the kernels -/
theorem intersectionG_reverse_b (a0 a1 b0 b1 : V3) (h0 : Fin3 b0) (h1 : Fin3 b1) (hne : ofV3 b0 ≠ ofV3 b1) :
    intersectionG K E a0 a1 b1 b0 = intersectionG K E a0 a1 b0 b1 := by
  rw [intersectionG_eq_onTuple, intersectionG_eq_onTuple, canonArgs_reverse_b a0 a1 b0 b1 h0 h1 hne]

/-- swapping the edges: same bits, whatever the kernels -/
theorem intersectionG_swap {a0 a1 b0 b1 : V3} (C : CanonInput a0 a1 b0 b1) :
    intersectionG K E b0 b1 a0 a1 = intersectionG K E a0 a1 b0 b1 := by
  rw [intersectionG_eq_onTuple, intersectionG_eq_onTuple,
    canonArgs_swap a0 a1 b0 b1 C.fa0 C.fa1 C.fb0 C.fb1 C.mins]

/-- ORDER INDEPENDENCE (BIT IDENTITY) of the repaired `Intersection` for ARBITRARY numeric kernels: on a canonical input all
    8 argument orders give the same bits.  No `KernelSym`, no `DecisiveAt`, no `OccwSym` / `GenPos`. -/
theorem intersectionG_order_independent {a0 a1 b0 b1 : V3} (C : CanonInput a0 a1 b0 b1) :
    intersectionG K E a1 a0 b0 b1 = intersectionG K E a0 a1 b0 b1 ∧
    intersectionG K E a0 a1 b1 b0 = intersectionG K E a0 a1 b0 b1 ∧
    intersectionG K E a1 a0 b1 b0 = intersectionG K E a0 a1 b0 b1 ∧
    intersectionG K E b0 b1 a0 a1 = intersectionG K E a0 a1 b0 b1 ∧
    intersectionG K E b0 b1 a1 a0 = intersectionG K E a0 a1 b0 b1 ∧
    intersectionG K E b1 b0 a0 a1 = intersectionG K E a0 a1 b0 b1 ∧
    intersectionG K E b1 b0 a1 a0 = intersectionG K E a0 a1 b0 b1 := by
  obtain ⟨e1, e2, e3, e4, e5, e6, e7⟩ := canonArgs_order_independent C
  simp only [intersectionG_eq_onTuple, e1, e2, e3, e4, e5, e6, e7, and_self]

/-- the stable method alone (`intersectionStable`: accept flag and point) is order independent as well -/
theorem intersectionStableG_order_independent {a0 a1 b0 b1 : V3} (C : CanonInput a0 a1 b0 b1) :
    intersectionStableG K a1 a0 b0 b1 = intersectionStableG K a0 a1 b0 b1 ∧
    intersectionStableG K a0 a1 b1 b0 = intersectionStableG K a0 a1 b0 b1 ∧
    intersectionStableG K a1 a0 b1 b0 = intersectionStableG K a0 a1 b0 b1 ∧
    intersectionStableG K b0 b1 a0 a1 = intersectionStableG K a0 a1 b0 b1 ∧
    intersectionStableG K b0 b1 a1 a0 = intersectionStableG K a0 a1 b0 b1 ∧
    intersectionStableG K b1 b0 a0 a1 = intersectionStableG K a0 a1 b0 b1 ∧
    intersectionStableG K b1 b0 a1 a0 = intersectionStableG K a0 a1 b0 b1 := by
  obtain ⟨e1, e2, e3, e4, e5, e6, e7⟩ := canonArgs_order_independent C
  simp only [intersectionStableG, e1, e2, e3, e4, e5, e6, e7, and_self]
end

/-- **ORDER INDEPENDENCE of the model's `Intersection`** (the real kernels): on every canonical input the 8 argument orders
    give the same BITS. -/
theorem intersection_order_independent {a0 a1 b0 b1 : V3} (C : CanonInput a0 a1 b0 b1) :
    intersection a1 a0 b0 b1 = intersection a0 a1 b0 b1 ∧
    intersection a0 a1 b1 b0 = intersection a0 a1 b0 b1 ∧
    intersection a1 a0 b1 b0 = intersection a0 a1 b0 b1 ∧
    intersection b0 b1 a0 a1 = intersection a0 a1 b0 b1 ∧
    intersection b0 b1 a1 a0 = intersection a0 a1 b0 b1 ∧
    intersection b1 b0 a0 a1 = intersection a0 a1 b0 b1 ∧
    intersection b1 b0 a1 a0 = intersection a0 a1 b0 b1 :=
  intersectionG_order_independent intersectionStableSorted intersectionExact C

/-- the three generators separately, with the minimal hypotheses each -/
theorem intersection_reverse_a (a0 a1 b0 b1 : V3) (h0 : Fin3 a0) (h1 : Fin3 a1) (hne : ofV3 a0 ≠ ofV3 a1) :
    intersection a1 a0 b0 b1 = intersection a0 a1 b0 b1 :=
  intersectionG_reverse_a _ _ a0 a1 b0 b1 h0 h1 hne
theorem intersection_reverse_b (a0 a1 b0 b1 : V3) (h0 : Fin3 b0) (h1 : Fin3 b1) (hne : ofV3 b0 ≠ ofV3 b1) :
    intersection a0 a1 b1 b0 = intersection a0 a1 b0 b1 :=
  intersectionG_reverse_b _ _ a0 a1 b0 b1 h0 h1 hne
theorem intersection_swap {a0 a1 b0 b1 : V3} (C : CanonInput a0 a1 b0 b1) :
    intersection b0 b1 a0 a1 = intersection a0 a1 b0 b1 :=
  intersectionG_swap _ _ C

theorem intersectionStable_order_independent {a0 a1 b0 b1 : V3} (C : CanonInput a0 a1 b0 b1) :
    intersectionStable a1 a0 b0 b1 = intersectionStable a0 a1 b0 b1 ∧
    intersectionStable a0 a1 b1 b0 = intersectionStable a0 a1 b0 b1 ∧
    intersectionStable a1 a0 b1 b0 = intersectionStable a0 a1 b0 b1 ∧
    intersectionStable b0 b1 a0 a1 = intersectionStable a0 a1 b0 b1 ∧
    intersectionStable b0 b1 a1 a0 = intersectionStable a0 a1 b0 b1 ∧
    intersectionStable b1 b0 a0 a1 = intersectionStable a0 a1 b0 b1 ∧
    intersectionStable b1 b0 a1 a0 = intersectionStable a0 a1 b0 b1 :=
  intersectionStableG_order_independent intersectionStableSorted C

/-! ## (3) the contract of `Intersection` implies `CanonInput`: the property's claim, in full -/

/-- crossing edges (the model's `CrossingSign == Cross`) are not degenerate, as floats under `==` -/
theorem nondegenerate_of_crosses {a0 a1 b0 b1 : V3} (h : crosses a0 a1 b0 b1 = true) :
    V3.feq a0 a1 = false ∧ V3.feq b0 b1 = false := by
  unfold crosses Contain.crossingSign at h
  simp only [Contain.floatGeo] at h
  by_cases hs : (V3.feq a0 b0 || V3.feq a0 b1 || V3.feq a1 b0 || V3.feq a1 b1) = true
  · simp [hs] at h
  · by_cases hd : (V3.feq a0 a1 || V3.feq b0 b1) = true
    · simp [hs, hd] at h
    · simpa using hd

/-- **in-contract inputs are canonical inputs** -/
theorem canonInput_of_inContract {a0 a1 b0 b1 : V3} (h : InContract a0 a1 b0 b1) : CanonInput a0 a1 b0 b1 := by
  have G := goodInput_of_inContract h
  obtain ⟨n1, n2⟩ := nondegenerate_of_crosses h.2.2.2.2
  have ne : ∀ {u w : V3}, Fin3 u → Fin3 w → V3.feq u w = false → ofV3 u ≠ ofV3 w := by
    intro u w hu hw hfe heq
    rw [(v3feq_iff hu hw).mpr heq] at hfe; cases hfe
  exact CanonInput.ofGood G (ne G.fa0 G.fa1 n1) (ne G.fb0 G.fb1 n2)

/-- C16, order independence IN FULL for the repaired model: for EVERY in-contract input (unit length within the `Normalize`
    guarantee, `CrossingSign == Cross`) the 8 argument orders give the same bits — transversal or exactly collinear, parallel
    vertices or not, hemisphere test decisive or not, antipodal endpoints or not. -/
theorem intersection_order_independent_inContract {a0 a1 b0 b1 : V3} (h : InContract a0 a1 b0 b1) :
    intersection a1 a0 b0 b1 = intersection a0 a1 b0 b1 ∧
    intersection a0 a1 b1 b0 = intersection a0 a1 b0 b1 ∧
    intersection a1 a0 b1 b0 = intersection a0 a1 b0 b1 ∧
    intersection b0 b1 a0 a1 = intersection a0 a1 b0 b1 ∧
    intersection b0 b1 a1 a0 = intersection a0 a1 b0 b1 ∧
    intersection b1 b0 a0 a1 = intersection a0 a1 b0 b1 ∧
    intersection b1 b0 a1 a0 = intersection a0 a1 b0 b1 :=
  intersection_order_independent (canonInput_of_inContract h)

/-- **`BitIdentityClaim` (the property's clause "bit-identical under reversing either edge or swapping the two edges", as
    stated in `C16.lean` over `InContract`) HOLDS for the repaired model.**  For the pre-repair model it is false
    (`bitIdentityClaimOld_false`, `bitIdentityOld_violated_in_contract`). -/
theorem bitIdentityClaim : BitIdentityClaim := fun a0 a1 b0 b1 h =>
  let C := canonInput_of_inContract h
  ⟨intersection_reverse_a a0 a1 b0 b1 C.fa0 C.fa1 C.neA, intersection_reverse_b a0 a1 b0 b1 C.fb0 C.fb1 C.neB,
    intersection_swap C⟩

/-- Go's `==` form (`GoEqualityClaim`) on every in-contract input whose result has no NaN coordinate (`==` is not reflexive
    on NaN; that the result is NaN-free is part of the unproved unit-length claim) -/
theorem goEquality_of_fin {a0 a1 b0 b1 : V3} (h : InContract a0 a1 b0 b1) (hf : Fin3 (intersection a0 a1 b0 b1)) :
    V3.feq (intersection a1 a0 b0 b1) (intersection a0 a1 b0 b1) = true ∧
    V3.feq (intersection a0 a1 b1 b0) (intersection a0 a1 b0 b1) = true ∧
    V3.feq (intersection b0 b1 a0 a1) (intersection a0 a1 b0 b1) = true := by
  obtain ⟨e1, e2, e3⟩ := bitIdentityClaim a0 a1 b0 b1 h
  rw [e1, e2, e3]
  exact ⟨(v3feq_iff hf hf).mpr rfl, (v3feq_iff hf hf).mpr rfl, (v3feq_iff hf hf).mpr rfl⟩

/-! ## (4) the canonical tuple is one of the 8 orders, and on it the repaired function is the old one -/

/-- the canonical tuple is one of the 8 argument orders of the input (unconditionally) -/
theorem canonArgs_mem (a0 a1 b0 b1 : V3) :
    canonArgs a0 a1 b0 b1 ∈ [(a0, a1, b0, b1), (a1, a0, b0, b1), (a0, a1, b1, b0), (a1, a0, b1, b0),
                             (b0, b1, a0, a1), (b0, b1, a1, a0), (b1, b0, a0, a1), (b1, b0, a1, a0)] := by
  unfold canonArgs sortEdge
  dsimp only
  rw [stableArgs_eq]
  split <;> split <;> split <;> simp

/-- sorting is idempotent -/
theorem sortEdge_idem (a0 a1 : V3) (h0 : Fin3 a0) (h1 : Fin3 a1) (hne : ofV3 a0 ≠ ofV3 a1) :
    sortEdge (sortEdge a0 a1).1 (sortEdge a0 a1).2 = sortEdge a0 a1 := by
  have hc := sortEdge_comm h0 h1 hne
  unfold sortEdge at hc ⊢
  cases h : vlt a0 a1
  · simp only [h, Bool.false_eq_true, if_false] at hc ⊢
    exact hc
  · simp [h]

/-- the tuple which the canonicalisation feeds to `stableArgs` and its swapped version give the same result -/
private theorem canon_aux {a0 a1 b0 b1 : V3} (C : CanonInput a0 a1 b0 b1) :
    stableArgs (sortEdge b0 b1).1 (sortEdge b0 b1).2 (sortEdge a0 a1).1 (sortEdge a0 a1).2 =
      stableArgs (sortEdge a0 a1).1 (sortEdge a0 a1).2 (sortEdge b0 b1).1 (sortEdge b0 b1).2 := by
  obtain ⟨fa, fa'⟩ := sortEdge_fin C.fa0 C.fa1
  obtain ⟨fb, fb'⟩ := sortEdge_fin C.fb0 C.fb1
  exact stableArgs_swap_fin3 _ _ _ _ fa fa' fb fb'
    (by rw [sortEdge_min C.fa0 C.fa1, sortEdge_min C.fb0 C.fb1]; exact C.mins)

/-- on the canonical tuple `canonArgs` is the identity -/
theorem canonArgs_idem {a0 a1 b0 b1 : V3} (C : CanonInput a0 a1 b0 b1) :
    canonArgs (canonArgs a0 a1 b0 b1).1 (canonArgs a0 a1 b0 b1).2.1 (canonArgs a0 a1 b0 b1).2.2.1
      (canonArgs a0 a1 b0 b1).2.2.2 = canonArgs a0 a1 b0 b1 := by
  have ia := sortEdge_idem a0 a1 C.fa0 C.fa1 C.neA
  have ib := sortEdge_idem b0 b1 C.fb0 C.fb1 C.neB
  have hsw := canon_aux C
  have hst : canonArgs a0 a1 b0 b1 =
      stableArgs (sortEdge a0 a1).1 (sortEdge a0 a1).2 (sortEdge b0 b1).1 (sortEdge b0 b1).2 := rfl
  have hc1 : canonArgs (sortEdge a0 a1).1 (sortEdge a0 a1).2 (sortEdge b0 b1).1 (sortEdge b0 b1).2 =
      stableArgs (sortEdge a0 a1).1 (sortEdge a0 a1).2 (sortEdge b0 b1).1 (sortEdge b0 b1).2 := by
    unfold canonArgs; dsimp only; rw [ia, ib]
  have hc2 : canonArgs (sortEdge b0 b1).1 (sortEdge b0 b1).2 (sortEdge a0 a1).1 (sortEdge a0 a1).2 =
      stableArgs (sortEdge a0 a1).1 (sortEdge a0 a1).2 (sortEdge b0 b1).1 (sortEdge b0 b1).2 := by
    unfold canonArgs; dsimp only; rw [ia, ib, hsw]
  rw [hst, stableArgs_eq (sortEdge a0 a1).1]
  cases h : aFirst (sortEdge a0 a1).1 (sortEdge a0 a1).2 (sortEdge b0 b1).1 (sortEdge b0 b1).2
  · simp only [Bool.false_eq_true, if_false]
    rw [hc2, stableArgs_eq, h]; rfl
  · simp only [if_true]
    rw [hc1, stableArgs_eq, h]; rfl

/-- on the canonical tuple the edge sorting of the OLD `intersectionStable` (`stableArgs`) is the identity -/
theorem stableArgs_canonArgs {a0 a1 b0 b1 : V3} (C : CanonInput a0 a1 b0 b1) :
    stableArgs (canonArgs a0 a1 b0 b1).1 (canonArgs a0 a1 b0 b1).2.1 (canonArgs a0 a1 b0 b1).2.2.1
      (canonArgs a0 a1 b0 b1).2.2.2 = canonArgs a0 a1 b0 b1 := by
  have hsw := canon_aux C
  have hst : canonArgs a0 a1 b0 b1 =
      stableArgs (sortEdge a0 a1).1 (sortEdge a0 a1).2 (sortEdge b0 b1).1 (sortEdge b0 b1).2 := rfl
  rw [hst, stableArgs_eq (sortEdge a0 a1).1]
  cases h : aFirst (sortEdge a0 a1).1 (sortEdge a0 a1).2 (sortEdge b0 b1).1 (sortEdge b0 b1).2
  · simp only [Bool.false_eq_true, if_false]
    rw [hsw, stableArgs_eq, h]; rfl
  · simp only [if_true]
    rw [stableArgs_eq, h]; rfl

/-- **On its canonical tuple the repaired `Intersection` is the pre-repair `Intersection`**: the repair changes nothing but
    the order in which the (old) computation receives its arguments.  Hence what is known about the old code on one argument
    order — the oracle's accuracy / unit-length evidence, `kernelSym_real` — applies to the repaired code on every order. -/
theorem intersection_eq_old_on_canon {a0 a1 b0 b1 : V3} (C : CanonInput a0 a1 b0 b1) :
    intersection a0 a1 b0 b1 =
      intersectionOld (canonArgs a0 a1 b0 b1).1 (canonArgs a0 a1 b0 b1).2.1 (canonArgs a0 a1 b0 b1).2.2.1
        (canonArgs a0 a1 b0 b1).2.2.2 := by
  unfold intersection intersectionOld intersectionG intersectionGOld intersectionStableGOld
  dsimp only
  rw [stableArgs_canonArgs C]

/-! ## (5) regression witnesses and non-vacuity -/

private def mk (x y z : UInt64) : V3 := ⟨⟨x⟩, ⟨y⟩, ⟨z⟩⟩

/-- finding D50: exactly collinear overlapping edges on z = 0 (85°→90° and −50°→90°), `a1 = (0, 1−2^-52, 0)` and
    `b1 = (0, 1−2^-53, 0)` parallel and not bit-equal -/
private def d50a0 := mk 0x3fb64fd6b8c28100 0x3fefe0d3b41815a2 0
private def d50a1 := mk 0 0x3feffffffffffffe 0
private def d50b0 := mk 0x3fe491b7523c161d 0xbfe8836fa2cf5039 0
private def d50b1 := mk 0 0x3fefffffffffffff 0

/-- non-vacuity (the D50 input): in contract, hence a canonical input -/
example : InContract d50a0 d50a1 d50b0 d50b1 := by decide +kernel
example : CanonInput d50a0 d50a1 d50b0 d50b1 := by decide +kernel

/-- REPAIRED: on the D50 input all 8 orders return the vertex `a1` (checked by evaluation, in agreement with
    `intersection_order_independent_inContract`); the canonical tuple is `(b1, b0, a1, a0)`: edge `b` is longer, and the
    endpoints on the y axis are the lexicographically smaller ones -/
theorem d50_repaired :
    canonArgs d50a0 d50a1 d50b0 d50b1 = (d50b1, d50b0, d50a1, d50a0) ∧
    intersection d50a0 d50a1 d50b0 d50b1 = d50a1 ∧ intersection d50a1 d50a0 d50b0 d50b1 = d50a1 ∧
    intersection d50a0 d50a1 d50b1 d50b0 = d50a1 ∧ intersection d50a1 d50a0 d50b1 d50b0 = d50a1 ∧
    intersection d50b0 d50b1 d50a0 d50a1 = d50a1 ∧ intersection d50b0 d50b1 d50a1 d50a0 = d50a1 ∧
    intersection d50b1 d50b0 d50a0 d50a1 = d50a1 ∧ intersection d50b1 d50b0 d50a1 d50a0 = d50a1 := by decide +kernel

/-- BEFORE THE REPAIR (regression witness, the faithful pre-repair model): three different points, one of them 5° away -/
theorem d50_old_order_dependent :
    intersectionOld d50a0 d50a1 d50b0 d50b1 = d50b1 ∧ intersectionOld d50a1 d50a0 d50b0 d50b1 = d50a0 ∧
    intersectionOld d50a0 d50a1 d50b1 d50b0 = d50a1 := by decide +kernel

/-- The hypothesis `mins` of `CanonInput` is NOT redundant: two edges of bit-equal squared length that share their smaller
    endpoint `p = (−0.9, 0.505, 0.505)` (`q = (0.611, 0.7, −0.707)`, `r` = `q` with y and z exchanged) — `compareEdges` says
    "less" in both directions (`compareEdges_not_asymmetric`), the canonical tuple depends on the order of the edges and the
    results differ in the last bit.  (Out of contract: crossing edges share no vertex.) -/
theorem mins_necessary : ∃ a0 a1 b0 b1 : V3, Fin3 a0 ∧ Fin3 a1 ∧ Fin3 b0 ∧ Fin3 b1 ∧ ofV3 a0 ≠ ofV3 a1 ∧ ofV3 b0 ≠ ofV3 b1 ∧
    min (ofV3 a0) (ofV3 a1) = min (ofV3 b0) (ofV3 b1) ∧
    canonArgs b0 b1 a0 a1 ≠ canonArgs a0 a1 b0 b1 ∧ intersection b0 b1 a0 a1 ≠ intersection a0 a1 b0 b1 :=
  ⟨mk 0xbfeccccccccccccd 0x3fe028f5c28f5c29 0x3fe028f5c28f5c29, mk 0x3fe38d4fdf3b645a 0x3fe6666666666666 0xbfe69fbe76c8b439, mk 0xbfeccccccccccccd 0x3fe028f5c28f5c29 0x3fe028f5c28f5c29, mk 0x3fe38d4fdf3b645a 0xbfe69fbe76c8b439 0x3fe6666666666666, by decide +kernel⟩

/-- non-vacuity (a general input: the transversal in-contract input F4 of `C16.lean`, stable path) -/
private def f4a0 := mk 0xbfefd44ddc89bf69 0x3fba67e5fdc238ad 0x8000000000000001
private def f4a1 := mk 0xbfe8a56939bcbcbb 0xbfd7323388dac21c 0x3fe0cb605d9b5942
private def f4b0 := mk 0xbfd0fc39f116dc7b 0x3feeda3bd53c8ea0 0x8000000000000000
private def f4b1 := mk 0xbfeff135f8e02bbe 0x3faec05ffe58da34 0x8000000000000000
example : InContract f4a0 f4a1 f4b0 f4b1 ∧ CanonInput f4a0 f4a1 f4b0 f4b1 ∧
    (intersectionStable f4a0 f4a1 f4b0 f4b1).isSome = true := by decide +kernel

/-- the exactly antipodal input that REFUTED `BitIdentityClaim` for the pre-repair code (`bitIdentityClaimOld_false`:
    `a = (1,0,0)→(−1,0,0)`, `b = (0,1,0)→(0,−1,0)`, both normals exactly 0) is a canonical input: same bits in all orders now -/
example : CanonInput (mk 0x3ff0000000000000 0 0) (mk 0xbff0000000000000 0 0) (mk 0 0x3ff0000000000000 0)
    (mk 0 0xbff0000000000000 0) := by decide +kernel

end S2Proofs.C16
