/-
  C01 (neighbours, COMPLETENESS — the last open item of C01).  For EVERY valid cell `id` (interior, on a face edge, at
  one of the eight cube corners, a whole face) and every level `level id ≤ lvl ≤ 30`:

  * `allNeighbors_complete` — a 64-bit word `n` is an element of `allNeighbors id lvl` (the model of Go's
    `CellID.AllNeighbors(lvl)`, soft-float cross-face wrap included) IF AND ONLY IF `n` is a valid cell of level `lvl`
    that is not a descendant of `id` (`contains id n = false`) and touches `id`: the exact integer cube boxes of the two
    cells have a common point (`boxMeet (cubeBox id) (cubeBox n) ≠ none`, the oracle's judge; vertices count).
  * `allNeighbors_complete_disjoint` — the same with "does not intersect `id`" instead of "not a descendant".
  * `allNeighbors_reports_every_touching_cell` — the completeness direction alone, as a `∀ n`.

  What the LIST contains (the property text speaks of "every reported cell"; Go's doc comment says "for cells adjacent
  to a face vertex, the same neighbor may be returned more than once"):
  * `allNeighbors_length` — the list always has exactly `4·2^(lvl − level id) + 4` entries;
  * `allNeighbors_duplicate_at_cube_corner` — whenever the square of `id` is a corner square of its face (the cell
    reaches a cube corner) the list is NOT duplicate free: the ring position diagonally across the cube corner has
    both coordinates out of range and `cellIDFromFaceIJWrap` maps it onto the side neighbour next to it (the j-side
    neighbour on faces 0,1,2, the i-side neighbour on faces 3,4,5).  This is what Go's doc comment announces.
  * `allNeighbors_no_duplicates_false` — hence "`AllNeighbors` returns every neighbour once"
    (`def AllNeighborsNoDuplicates`) is FALSE; kernel-evaluated counterexample `allNeighbors_corner_evaluated`:
    cell 0/00 (level 2) at level 3 returns 12 entries, entry 0 = entry 2 = 5/333, 11 distinct cells — the same list,
    entry by entry, as Go's `CellID(0x0100000000000000).AllNeighbors(3)`.
  * `allNeighbors_nodup_iff` — EXACTLY those cells: the list is duplicate free IF AND ONLY IF the cell does not reach
    a cube corner (`allNeighbors_no_duplicates_partial` is the positive half: cells on a face EDGE but not at a corner
    get every neighbour once; the ring position ↦ grid square map `sqOf` is injective, `S2Proofs/NbrNodup.lean`).
  Together with `allNeighbors_complete`: for a cell away from the cube corners `allNeighbors id lvl` is a duplicate
  free enumeration of exactly the `4·2^(lvl − level id) + 4` level-`lvl` cells that touch `id` without being inside it.

  Proof (helpers in `S2Proofs/FoldInv.lean`, `S2Proofs/NbrCompleteAll.lean`): the loop of `allNeighbors` visits every
  position of the ring of width one grid step around the cell's square (`ring_has`); a touching cell of the same face
  sits at an in-range ring position; a touching cell of another face must lie across a cube edge that the cell reaches
  (`faceBox_meet_cases`: 36 face pairs, opposite faces never meet) and is the table neighbour `nbrSq` of a ring
  position with exactly ONE coordinate out of range (`fold_inv`), onto which the float wrap `cellIDFromFaceIJWrap`
  maps that position (`nbr_dir0..3`, proved exact in `C01_Wrap.lean`).  The ring positions with BOTH coordinates out
  of range (they exist only at cube corners) are never needed: there the "diagonal" neighbour does not exist (three
  faces meet) and the wrap returns a copy of a side neighbour.
-/
import S2Proofs.NbrCompleteAll
import S2Proofs.NbrDup
import S2Proofs.NbrNodup
import S2Proofs.NbrCornerEval
import S2Proofs.Properties.C01_NeighborsAll
open S2 S2.CellID S2.Hilbert S2.STUV
open S2Proofs.C01W
namespace S2Proofs.C01

/-- the completeness direction: EVERY valid cell `n` of level `lvl` that touches `id` (exact cube boxes meet) and is
    not a descendant of `id` is reported by `allNeighbors id lvl` — all valid `id`, all `level id ≤ lvl ≤ 30` -/
theorem allNeighbors_reports_every_touching_cell (id : CellID) (hv : isValid id = true) (lvl : Nat)
    (h1 : level id ≤ lvl) (h2 : lvl ≤ 30) :
    ∀ n : CellID, isValid n = true → level n = lvl → contains id n = false →
      boxMeet (cubeBox id) (cubeBox n) ≠ none → n ∈ allNeighbors id lvl := by
  intro n hvn hl hnot ht
  have hn := isCell_of_valid hvn
  rw [hl] at hn
  exact allNeighbors_complete_all (rfl : 30 = 30) id (level id) (isCell_of_valid hv) lvl h1 h2 n hn hnot ht
/-- non-vacuity: the level-2 cell 0/00 (a cube corner: its square is (0,0) of face 0) with lvl = 3, and a whole face
    with lvl = 0 (all four cube corners of the face, every neighbour on another face) -/
example : isValid (0x0100000000000000 : CellID) = true ∧ level (0x0100000000000000 : CellID) ≤ 3 ∧
    isValid (0x1000000000000000 : CellID) = true ∧ level (0x1000000000000000 : CellID) ≤ 0 := by decide

/-- **`allNeighbors_complete`**: for every valid cell `id` and every level `level id ≤ lvl ≤ 30`, a word `n` is in
    `allNeighbors id lvl` IFF it is a valid cell of level `lvl`, not a descendant of `id`, whose exact cube box meets
    the cube box of `id`.  No hypothesis on the position of `id`. -/
theorem allNeighbors_complete (id : CellID) (hv : isValid id = true) (lvl : Nat)
    (h1 : level id ≤ lvl) (h2 : lvl ≤ 30) (n : CellID) :
    n ∈ allNeighbors id lvl ↔
      (isValid n = true ∧ level n = lvl ∧ contains id n = false ∧ boxMeet (cubeBox id) (cubeBox n) ≠ none) := by
  constructor
  · intro hmem
    obtain ⟨a, b, c, d⟩ := allNeighbors_all_cells id hv lvl h1 h2 n hmem
    refine ⟨a, b, ?_, d⟩
    cases hc : contains id n
    · rfl
    · have := (intersects_iff_contains n id a hv).mpr (Or.inr hc)
      rw [this] at c; cases c
  · rintro ⟨a, b, c, d⟩
    exact allNeighbors_reports_every_touching_cell id hv lvl h1 h2 n a b c d
example : isValid (0x0100000000000000 : CellID) = true ∧ level (0x0100000000000000 : CellID) ≤ 3 ∧ 3 ≤ 30 := by decide

/-- the same characterisation with "does not intersect" (neither contains the other) -/
theorem allNeighbors_complete_disjoint (id : CellID) (hv : isValid id = true) (lvl : Nat)
    (h1 : level id ≤ lvl) (h2 : lvl ≤ 30) (n : CellID) :
    n ∈ allNeighbors id lvl ↔
      (isValid n = true ∧ level n = lvl ∧ intersects n id = false ∧ boxMeet (cubeBox id) (cubeBox n) ≠ none) := by
  rw [allNeighbors_complete id hv lvl h1 h2 n]
  constructor
  · rintro ⟨a, b, c, d⟩
    exact allNeighbors_all_cells id hv lvl h1 h2 n
      (allNeighbors_reports_every_touching_cell id hv lvl h1 h2 n a b c d)
  · rintro ⟨a, b, c, d⟩
    refine ⟨a, b, ?_, d⟩
    cases hc : contains id n
    · rfl
    · have := (intersects_iff_contains n id a hv).mpr (Or.inr hc)
      rw [this] at c; cases c
example : isValid (0x0000000000000001 : CellID) = true ∧ level (0x0000000000000001 : CellID) ≤ 30 := by decide

/-! ### what the list contains: length and duplicates -/

/-- the result list always has `4·2^(lvl − level id) + 4` entries (one per position of the ring around the cell) -/
theorem allNeighbors_length (id : CellID) (hv : isValid id = true) (lvl : Nat) (h1 : level id ≤ lvl) (h2 : lvl ≤ 30) :
    (allNeighbors id lvl).length = 4 * 2^(lvl - level id) + 4 :=
  allNeighbors_length_eq (rfl : 30 = 30) id (level id) (isCell_of_valid hv) lvl h1 h2
example : isValid (0x0100000000000000 : CellID) = true ∧ level (0x0100000000000000 : CellID) ≤ 3 ∧
    4 * 2^(3 - level (0x0100000000000000 : CellID)) + 4 = 12 := by decide

/-- the square of the cell is one of the four corner squares of its face, i.e. the cell reaches a cube corner -/
def ReachesCubeCorner (id : CellID) : Prop :=
  (sqI id (level id) = 0 ∨ sqI id (level id) = 2^(level id) - 1) ∧
  (sqJ id (level id) = 0 ∨ sqJ id (level id) = 2^(level id) - 1)

/-- **duplicates at cube corners**: for EVERY valid cell that reaches a cube corner and every `level id ≤ lvl ≤ 30`
    the list `allNeighbors id lvl` contains some cell twice -/
theorem allNeighbors_duplicate_at_cube_corner (id : CellID) (hv : isValid id = true) (lvl : Nat)
    (h1 : level id ≤ lvl) (h2 : lvl ≤ 30) (hc : ReachesCubeCorner id) : ¬ (allNeighbors id lvl).Nodup :=
  allNeighbors_dup_corner (rfl : 30 = 30) id (level id) (isCell_of_valid hv) lvl h1 h2 hc.1 hc.2
/-- non-vacuity (two steps; evaluating `sqI` on a closed id would make the kernel build the lookup tables): the
    level-2 cell of face 0 that contains the leaf (0,0) is valid, of level 2 and reaches a cube corner; so does the
    level-5 cell of face 3 that contains the leaf (2^30−1, 0) -/
example : ∃ c : CellID, isValid c = true ∧ level c = 2 ∧ ReachesCubeCorner c := by
  obtain ⟨c, _, i, j⟩ := S2Proofs.square_cell (rfl : 30 = 30) 0 0 0 2 (by decide) (by decide) (by decide) (by decide)
  refine ⟨_, (isValid_iff _).mpr ⟨2, c⟩, c.level_eq, ?_⟩
  unfold ReachesCubeCorner
  rw [c.level_eq, i, j]; decide
example : ∃ c : CellID, isValid c = true ∧ level c = 5 ∧ ReachesCubeCorner c := by
  obtain ⟨c, _, i, j⟩ := S2Proofs.square_cell (rfl : 30 = 30) 3 1073741823 0 5 (by decide) (by decide) (by decide)
    (by decide)
  refine ⟨_, (isValid_iff _).mpr ⟨5, c⟩, c.level_eq, ?_⟩
  unfold ReachesCubeCorner
  rw [c.level_eq, i, j]; decide

/-- the positive half of "no duplicates": a valid cell that does NOT reach a cube corner (interior cells and cells on a
    face edge) gets every neighbour exactly once -/
theorem allNeighbors_no_duplicates_partial (id : CellID) (hv : isValid id = true) (lvl : Nat)
    (h1 : level id ≤ lvl) (h2 : lvl ≤ 30) (hc : ¬ ReachesCubeCorner id) : (allNeighbors id lvl).Nodup :=
  allNeighbors_nodup_all (rfl : 30 = 30) id (level id) (isCell_of_valid hv) lvl h1 h2 hc
/-- non-vacuity: the level-3 cell of face 1 that contains the leaf (0, 2^29) lies on the face edge i = 0 (its
    i-neighbours are on another face) but not at a cube corner -/
example : ∃ c : CellID, isValid c = true ∧ level c = 3 ∧ ¬ ReachesCubeCorner c := by
  obtain ⟨c, _, i, j⟩ := S2Proofs.square_cell (rfl : 30 = 30) 1 0 536870912 3 (by decide) (by decide) (by decide)
    (by decide)
  refine ⟨_, (isValid_iff _).mpr ⟨3, c⟩, c.level_eq, ?_⟩
  unfold ReachesCubeCorner
  rw [c.level_eq, i, j]; decide

/-- **exactly when**: `allNeighbors id lvl` is duplicate free iff the cell does not reach a cube corner -/
theorem allNeighbors_nodup_iff (id : CellID) (hv : isValid id = true) (lvl : Nat)
    (h1 : level id ≤ lvl) (h2 : lvl ≤ 30) : (allNeighbors id lvl).Nodup ↔ ¬ ReachesCubeCorner id :=
  ⟨fun hnd hc => allNeighbors_duplicate_at_cube_corner id hv lvl h1 h2 hc hnd,
   allNeighbors_no_duplicates_partial id hv lvl h1 h2⟩
example : isValid (0x0100000000000000 : CellID) = true ∧ level (0x0100000000000000 : CellID) ≤ 3 := by decide

/-- kernel evaluation of the model at a cube corner (cell 0/00, level 2, neighbours of level 3) and on a whole face
    (level 0): the lists are, entry by entry, those returned by Go's `AllNeighbors`; entry 0 = entry 2 in the first
    list (cell 5/333), and the face cell gets its four edge neighbours (faces 5, 2, 4, 1) in eight entries -/
theorem allNeighbors_corner_evaluated :
    allNeighbors 0x0100000000000000 3 =
      [13817043656772681728, 13312640498507186176, 13817043656772681728, 522417556774977536, 10754595910160744448,
       162129586585337856, 13781014859753717760, 486388759756013568, 10718567113141780480, 270215977642229760,
       10610480722084888576, 306244774661193728] ∧
    allNeighbors 0x1000000000000000 0 =
      [12682136550675316736, 12682136550675316736, 12682136550675316736, 5764607523034234880,
       10376293541461622784, 3458764513820540928, 5764607523034234880, 5764607523034234880] :=
  corner_eval

/-- the full "no duplicates" claim one might expect of `AllNeighbors` -/
def AllNeighborsNoDuplicates : Prop :=
  ∀ (id : CellID), isValid id = true → ∀ lvl, level id ≤ lvl → lvl ≤ 30 → (allNeighbors id lvl).Nodup

/-- it is FALSE (as documented by Go: "for cells adjacent to a face vertex, the same neighbor may be returned more
    than once"): counterexample cell 0/00 with lvl = 3, evaluated by the kernel -/
theorem allNeighbors_no_duplicates_false : ¬ AllNeighborsNoDuplicates := by
  intro h
  have := h 0x0100000000000000 (by decide) 3 (by decide) (by decide)
  rw [corner_eval.1] at this
  revert this
  decide

end S2Proofs.C01
