/-
  C08 — the closest-edge search for a POINT target with NO abstract world hypothesis (package c08world).

  `Properties/C08.lean` / `C08_Approx.lean` prove the search theorems under `WorldOK` / `WorldApprox`:
  `updateDistanceToEdge` exact, `updateDistanceToCell` a lower bound for every edge stored in the cell.  For the real
  code these hypotheses are FALSE (not merely unproved):
    (a) edges are clipped: a cell far from the target lists a long edge whose closest point lies in another cell, so the
        cell distance is NOT a lower bound for the edge's distance (it bounds the part of the edge inside the cell);
    (b) `Cell.Distance` over-estimates by a few ulps (c12dist F2) and `UpdateMinDistance` is accurate only up to its
        documented error; moreover with a finite limit `UpdateMinDistance` may return the VERTEX value where the
        unbounded call returns the INTERIOR value (limit-dependent early exits), so "the" computed distance of an edge
        is not even a function of the edge.
  Here the world is INSTANTIATED (`S2Proofs.C08World.world`, file `EdgeQuery/PointWorld.lean`):
    distances  = bit-exact float chord angles (`Chord`, `chordI`: Go's `<`, `+0`, `+Inf`, `ChordAngle.Sub`);
    edges      = float vertex pairs, `updateDistanceToEdge` = the bit-exact `UpdateMinDistance(point, v0, v1, limit)`;
    cells      = the tree `Roots.subtree` of the index, `updateDistanceToCell` = the bit-exact `Cell.Distance`;
  and the search theorems are re-proved (`EdgeQuery/SearchSlack.lean`) from the weaker, TRUE hypotheses `Slack.SlackWorld`,
  which are then DERIVED (`point_world_slack`) from
    * C12 `distance_lower_bound` (`Distance(cell,p) ≤ |p−q|² + cellErr` for every point q of the exact cell; `cellErr = 2^-45` after repair D58,
      `2^-46` before: the statement is a PARAMETER, `point_world_slack_of`),
    * C17 (c17err) via `updateMin_contract`: every value `UpdateMinDistance` returns is within `edgeErr = 2^-46` of the
      TRUE squared chord distance `rho e` from the target to the arc of the edge, "not ok" only if `limit ≤ rho e + 2^-46`,
    * the index invariant I1 in the form `ClosestCovered` (hypothesis, C06's subject).

  SLACK (explicit, squared chord length, absolute):  `slack = 2^-44`  (= `2^-45` cell (C12 after repair D58) + `2^-49` for `|p| ≠ 1`, rounded up;
  it dominates `edgeErr = 2^-46`).  In angle terms at distance θ: `δθ ≈ slack / (2·sin θ)`, e.g. 2.8e-14 rad at 90°.

  REMAINING HYPOTHESES (all explicit; instance: `EdgeQuery/PointWorldEx.lean`):
    `EdgesOK`  : c17err's domain for the target and every edge: `UnitPt` (finite, | |v| − 1 | ≤ 2^-52 − 2^-80),
                 `EdgeOK` (|2a×b|² ≥ 2^-68), `WedgeMargin` (the target is not within rounding error of a meridian
                 plane through an endpoint; without it c17err's `wedgeGap` term would have to be added to `edgeErr`);
    `IndexOK`  : sorted disjoint valid index cells, valid initial cells, index cells list only index edges, and
                 `ClosestCovered` (I1 + nesting of exact cell regions + for a finite limit the search-disc covering);
    `SubLaws chordI o.maxError` for MaxResults = 1 (`ChordAngle.Sub` never increases its receiver): proved for
                 MaxError = 0 (`chord_subLaws_zero`), a hypothesis for other values (float analysis of `Sub` not done).
-/
import S2Proofs.EdgeQuery.PointWorld
import S2Proofs.EdgeQuery.SearchSlack
import S2Proofs.EdgeQuery.PointWorldEx
import S2Proofs.Properties.C08

set_option linter.unusedSimpArgs false
set_option linter.unusedVariables false

namespace S2Proofs.C08
open S2 S2.EdgeQueryM S2Proofs.F64Order S2Proofs.FloatErr S2Proofs.EdgeQuery S2Proofs.C08World

variable {P : PointIndex}

/-! ## (0) the instantiated world satisfies the search hypotheses -/

/-- **the concrete point-target world is a `SlackWorld`**: C12's lower bound is plugged in, what remains are the
    domain hypotheses of C17 (`EdgesOK`) and the index hypotheses (`IndexOK`). -/
theorem point_world_slack (HE : EdgesOK P) (HI : IndexOK P) :
    Slack.SlackWorld chordI (world P) (Near P) :=
  point_slackWorld (by unfold slack; norm_num) S2Proofs.C12.distanceLowerBound_holds HE HI

/-- the same with the C12 statement as a PARAMETER (so that a change of C12 internals — package d58fix — only needs
    this one line re-instantiated) -/
theorem point_world_slack_of {cellErr : ℝ} (hc : cellErr + 1 / 2 ^ 49 ≤ slack)
    (cellLB : S2Proofs.C12.DistanceLowerBoundReal cellErr)
    (HE : EdgesOK P) (HI : IndexOK P) : Slack.SlackWorld chordI (world P) (Near P) :=
  point_slackWorld hc cellLB HE HI

/-- the order laws of the float distance type, and `SubLaws` for the default MaxError = 0 -/
theorem chord_distOrder : DistOrder chordI := chord_order
theorem chord_subLaws_maxError_zero : SubLaws chordI czero := chord_subLaws_zero

/-- "not `Near`" unfolded: the value is finite-or-zero … and at most `slack` above the true distance -/
theorem not_near_iff (e : EdgeKey) (x : Chord) :
    ¬ Near P e x ↔ x.1 ≠ posInf ∧ val x.1 ≤ rho P e + slack := by
  unfold Near
  constructor
  · intro h
    exact ⟨fun hi => h (Or.inl hi), not_lt.mp (fun hl => h (Or.inr hl))⟩
  · rintro ⟨h1, h2⟩ (hi | hl)
    · exact h1 hi
    · linarith

/-- no chord is below zero -/
theorem chord_not_lt_zero (x : Chord) : chordI.less x chordI.zero = false := by
  show F64.lt x.1 czero.1 = false
  rcases chord_lim_ok x with ⟨hf, h0⟩ | hi
  · cases h : F64.lt x.1 czero.1 with
    | false => rfl
    | true =>
      have := (S2Proofs.C17Err.lt_val hf czero_facts.1).mp h
      rw [czero_facts.2] at this; linarith
  · have : x.1 = posInf := hi
    rw [this]; exact lt_inf_left _

/-! ## (1) MaxResults = 1 (`FindEdge`, `Distance`, `IsDistanceLess`, …), either path -/

/-- **END-TO-END, MaxResults = 1.**  On either path (optimized or brute force) the answer has at most one entry;
    an entry is an interior result or an edge of the index whose reported distance is finite, below the limit, and
    within `edgeErr = 2^-46` of the TRUE distance of that edge; NO edge of the index is truly closer than
    `reported − MaxError − slack` (`slack = 2^-44`); an empty answer means no edge is truly closer than
    `limit − slack`. -/
theorem point_single (HE : EdgesOK P) (HI : IndexOK P) {o : Opts Chord} (S : SubLaws chordI o.maxError)
    (h1 : o.maxResults = 1) (hU : o.targetUsesMaxError = false) {rs : List (Result Chord)}
    (h : findEdges chordI o (world P) = some rs) :
    rs.length ≤ 1 ∧
    (∀ r ∈ rs,
      (o.includeInteriors = true ∧ r.dist = czero ∧ r.edge = -1 ∧ r.shape ∈ P.interiors) ∨
      (∃ e ∈ P.allEdges, r.shape = e.shape ∧ r.edge = e.edge ∧ Fin r.dist.1 ∧
        |val r.dist.1 - rho P e| ≤ edgeErr ∧ chordI.less r.dist o.distanceLimit = true)) ∧
    (∀ r ∈ rs, ∀ e ∈ P.allEdges,
      (csub r.dist o.maxError).1 ≠ posInf ∧ val (csub r.dist o.maxError).1 ≤ rho P e + slack) ∧
    (rs = [] → ∀ e ∈ P.allEdges, o.distanceLimit.1 ≠ posInf ∧ val o.distanceLimit.1 ≤ rho P e + slack) := by
  obtain ⟨a, b, c, d, _⟩ := Slack.slack_single chord_order S (point_world_slack HE HI) h1 hU
    (chord_not_lt_zero _) h
  refine ⟨a, ?_, ?_, ?_⟩
  · intro r hr
    rcases b r hr with hi | ⟨e, he, hs, hed, ⟨lim, hup, _⟩, hlt⟩
    · exact Or.inl hi
    · obtain ⟨f, _, herr⟩ := edge_some HE he hup
      exact Or.inr ⟨e, he, hs, hed, f, herr, hlt⟩
  · intro r hr e he
    exact (not_near_iff e _).mp (c r hr e he)
  · intro hnil e he
    exact (not_near_iff e _).mp (d hnil e he)

/-- **MaxError = 0 (the default): the reported distance is within `slack` of the TRUE optimum**: it is at most
    `2^-44` above the true distance of EVERY edge, and (being the computed distance of some edge `e0`) at least the true
    distance of `e0` minus `2^-46`. -/
theorem point_distance_within_slack (HE : EdgesOK P) (HI : IndexOK P) {o : Opts Chord}
    (h0 : o.maxError = czero) (h1 : o.maxResults = 1) (hU : o.targetUsesMaxError = false)
    {rs : List (Result Chord)} (h : findEdges chordI o (world P) = some rs) :
    ∀ r ∈ rs, (∀ e ∈ P.allEdges, val r.dist.1 ≤ rho P e + slack) ∧
      (r.edge ≠ -1 → ∃ e0 ∈ P.allEdges, r.shape = e0.shape ∧ r.edge = e0.edge ∧ rho P e0 - edgeErr ≤ val r.dist.1) := by
  have S : SubLaws chordI o.maxError := by rw [h0]; exact chord_subLaws_zero
  obtain ⟨_, b, c, _⟩ := point_single HE HI S h1 hU h
  intro r hr
  constructor
  · intro e he
    have := (c r hr e he).2
    rw [h0, csub_zero] at this
    exact this
  · intro hne
    rcases b r hr with ⟨_, _, hedge, _⟩ | ⟨e, he, hs, hed, _, herr, _⟩
    · exact absurd hedge hne
    · exact ⟨e, he, hs, hed, by have := (abs_le.mp herr).1; linarith⟩

/-- **optimized vs brute force, MaxResults = 1, MaxError = 0**: whenever both paths report an EDGE, the two reported
    distances differ by at most `slack + edgeErr = 2^-44 + 2^-46` (each is within `edgeErr` of the true distance of its own
    edge and at most `slack` above the true distance of the other's). -/
theorem point_optimized_vs_bruteforce_single (HE : EdgesOK P) (HI : IndexOK P) {o o' : Opts Chord}
    (h0 : o.maxError = czero) (h0' : o'.maxError = czero) (h1 : o.maxResults = 1) (h1' : o'.maxResults = 1)
    (hU : o.targetUsesMaxError = false) (hU' : o'.targetUsesMaxError = false)
    {rs rs' : List (Result Chord)} (h : findEdges chordI o (world P) = some rs)
    (h' : findEdges chordI o' (world P) = some rs') :
    ∀ r ∈ rs, ∀ r' ∈ rs', r.edge ≠ -1 → r'.edge ≠ -1 →
      |val r.dist.1 - val r'.dist.1| ≤ slack + edgeErr := by
  intro r hr r' hr' hne hne'
  obtain ⟨a1, a3⟩ := point_distance_within_slack HE HI h0 h1 hU h r hr
  obtain ⟨e0, he0, _, _, a2⟩ := a3 hne
  obtain ⟨b1, b3⟩ := point_distance_within_slack HE HI h0' h1' hU' h' r' hr'
  obtain ⟨e1, he1, _, _, b2⟩ := b3 hne'
  have c1 := a1 e1 he1
  have c2 := b1 e0 he0
  rw [abs_le]; constructor <;> linarith

/-- **`Distance(target)` with MaxError = 0** (`findEdge` + `.distance`): the returned chord `d` is `+Inf` only if no edge is
    truly closer than `limit − slack`; otherwise it is at most `slack` above the true distance of EVERY edge. -/
theorem point_distance_call (HE : EdgesOK P) (HI : IndexOK P) {o : Opts Chord}
    (h0 : o.maxError = czero) (hU : o.targetUsesMaxError = false) {d : Chord}
    (hd : distance chordI o (world P) = some d) :
    ∀ e ∈ P.allEdges,
      (d = cinf ∧ o.distanceLimit.1 ≠ posInf ∧ val o.distanceLimit.1 ≤ rho P e + slack) ∨
      val d.1 ≤ rho P e + slack := by
  rw [distance_eq] at hd
  cases hf : findEdges chordI { o with maxResults := 1 } (world P) with
  | none => rw [hf] at hd; cases hd
  | some rs =>
    rw [hf] at hd
    simp only [Option.map_some, Option.some.injEq] at hd
    have S : SubLaws chordI ({ o with maxResults := 1 } : Opts Chord).maxError := by
      show SubLaws chordI o.maxError
      rw [h0]; exact chord_subLaws_zero
    intro e he
    cases rs with
    | nil =>
      left
      obtain ⟨_, _, _, dd⟩ := point_single HE HI S rfl hU hf
      have := dd rfl e he
      exact ⟨hd.symm, this⟩
    | cons r t =>
      right
      have := (point_distance_within_slack HE HI (o := { o with maxResults := 1 }) h0 rfl hU hf r (by simp)).1 e he
      have hdr : d = r.dist := hd.symm
      rw [hdr]; exact this

/-! ## (2) MaxResults ≠ 1 (`FindEdges` with several results), either path -/

/-- **END-TO-END, MaxResults ≠ 1.**  The answer has at most MaxResults entries, strictly increasing in
    (distance, shape, edge); an entry is an interior result or an edge of the index with the value `UpdateMinDistance`
    computes for it at the option's limit — finite, below the limit, within `edgeErr` of the edge's TRUE distance;
    EVERY edge that is truly closer than `limit − slack` (every edge, for an infinite limit) is reported with such a value,
    unless the answer is full and every reported entry precedes that edge's entry. -/
theorem point_multi (HE : EdgesOK P) (HI : IndexOK P) {o : Opts Chord}
    (hk : o.maxResults ≠ 1) (hU : o.targetUsesMaxError = false) {rs : List (Result Chord)}
    (h : findEdges chordI o (world P) = some rs) :
    rs.length ≤ o.maxResults ∧
    rs.Pairwise (fun a b => Result.less chordI a b = true) ∧
    (∀ r ∈ rs,
      (o.includeInteriors = true ∧ r.dist = czero ∧ r.edge = -1 ∧ r.shape ∈ P.interiors) ∨
      (∃ e ∈ P.allEdges, r.shape = e.shape ∧ r.edge = e.edge ∧ updEdge P e o.distanceLimit = some r.dist ∧
        Fin r.dist.1 ∧ |val r.dist.1 - rho P e| ≤ edgeErr ∧ chordI.less r.dist o.distanceLimit = true)) ∧
    (∀ e ∈ P.allEdges, (o.distanceLimit.1 = posInf ∨ rho P e + slack < val o.distanceLimit.1) →
      ∃ x, updEdge P e o.distanceLimit = some x ∧ |val x.1 - rho P e| ≤ edgeErr ∧
        ((⟨x, e.shape, e.edge⟩ : Result Chord) ∈ rs ∨
         (rs.length = o.maxResults ∧ ∀ a ∈ rs, Result.less chordI a ⟨x, e.shape, e.edge⟩ = true))) := by
  obtain ⟨a, b, c, d⟩ := Slack.slack_multi chord_order (point_world_slack HE HI) hk hU h
  refine ⟨a, b, ?_, ?_⟩
  · intro r hr
    rcases c r hr with hi | ⟨e, he, hs, hed, hup⟩
    · exact Or.inl hi
    · obtain ⟨f, hlt, herr⟩ := edge_some HE he hup
      exact Or.inr ⟨e, he, hs, hed, hup, f, herr, hlt⟩
  · intro e he hn
    obtain ⟨x, hup, hx⟩ := d e he hn
    exact ⟨x, hup, (edge_some HE he hup).2.2, hx⟩

/-- **optimized vs brute force, MaxResults ≠ 1.**  `sB` = the raw result list of the brute-force scan (before sorting /
    truncation).  Every entry of the optimized answer is an entry of the brute-force scan (same value); and every
    brute-force entry whose COMPUTED distance is below `limit − (slack + edgeErr)` (`2^-44 + 2^-46`; any entry for an infinite
    limit) is in the optimized answer, unless that answer is full and all its entries precede it.  (Edges whose computed
    distance lies in the band `[limit − (2^-44 + 2^-46), limit)` may be found by the scan and missed by the optimized search:
    their cell can be pruned because `Cell.Distance` over-estimates.) -/
theorem point_multi_vs_bruteforce (HE : EdgesOK P) (HI : IndexOK P) {o : Opts Chord}
    (hk : o.maxResults ≠ 1) (hU : o.targetUsesMaxError = false) (hz : o.distanceLimit ≠ czero)
    {rs : List (Result Chord)} (h : findEdges chordI o (world P) = some rs)
    {sB : St Chord} (hB : findEdgesInternal chordI { o with useBruteForce := true } (world P) = some sB) :
    (∀ r ∈ rs, r ∈ sB.results) ∧
    (∀ r ∈ sB.results, r.edge ≠ -1 →
      (o.distanceLimit.1 = posInf ∨ val r.dist.1 + (slack + edgeErr) < val o.distanceLimit.1) →
      r ∈ rs ∨ (rs.length = o.maxResults ∧ ∀ a ∈ rs, Result.less chordI a r = true)) := by
  have hchar := Slack.brute_multi_internal (I := chordI) (o := { o with useBruteForce := true }) (w := world P)
    hk hU (Or.inl rfl) hz hB
  obtain ⟨_, _, c, d⟩ := point_multi HE HI hk hU h
  constructor
  · intro r hr
    rw [hchar]
    rcases c r hr with hi | ⟨e, he, hs, hed, hup, _⟩
    · exact Or.inl hi
    · refine Or.inr ⟨e, he, ?_, hup⟩
      cases r; simp only at hs hed; subst hs; subst hed; rfl
  · intro r hr hne hband
    rcases (hchar r).mp hr with ⟨_, _, hedge, _⟩ | ⟨e, he, hre, hup⟩
    · exact absurd hedge hne
    · have hup' : updEdge P e o.distanceLimit = some r.dist := hup
      obtain ⟨f, _, herr⟩ := edge_some HE he hup'
      have hnear : o.distanceLimit.1 = posInf ∨ rho P e + slack < val o.distanceLimit.1 := by
        rcases hband with hi | hb
        · exact Or.inl hi
        · right
          have := (abs_le.mp herr).1
          linarith
      obtain ⟨x, hx, _, hres⟩ := d e he hnear
      rw [hup'] at hx
      cases hx
      rw [← hre] at hres
      exact hres

/-! ## (3) where `ClosestCovered` comes from -/

/-- nesting of the EXACT cell regions (a statement about `S2.CellM` only: the float uv-bounds of a child lie inside the
    float uv-bounds of its ancestors — monotonicity of the float `stToUV`; NOT proved here) -/
def RegionsNested : Prop :=
  ∀ y x : CellID, CellID.isValid y = true → CellID.isValid x = true → CellID.contains y x = true →
    ∀ q, S2Proofs.C12Dist.InCellXYZ (CellM.cellFromCellID x) q → S2Proofs.C12Dist.InCellXYZ (CellM.cellFromCellID y) q

/-- **index invariant I1** (C06) for the search: every point of (the arc of) an index edge lies in the exact region of an
    index cell that lists the edge, and that cell is below an initial cell for every limit (true for the UNBOUNDED search,
    whose initial cells are the index covering: `rootsComplete_unbounded_from_initCovering`) -/
def I1Covers (P : PointIndex) : Prop :=
  ∀ e ∈ P.allEdges, ∀ Q : S2Proofs.C17Err.R3,
    S2Proofs.C17Err.OnArc (S2Proofs.C17Err.vecR (P.vert e).1) (S2Proofs.C17Err.vecR (P.vert e).2) Q →
    ∃ x es, P.ix.lookup x = some es ∧ e ∈ es ∧
      S2Proofs.C12Dist.InCellXYZ (CellM.cellFromCellID x) (toAcc Q) ∧
      ∀ lim, ∃ c ∈ P.rootIds lim, CellID.contains c x = true

/-- `ClosestCovered` follows from I1 and the nesting of the exact regions -/
theorem closestCovered_of_I1 (HE : EdgesOK P) (hcells : IndexCellsOK (Roots.ids P.ix))
    (h1 : I1Covers P) (hn : RegionsNested) : ClosestCovered P := by
  intro lim e he _
  obtain ⟨Q, hQ, hρ⟩ := S2Proofs.C17Err.trueDist2_attained (x := P.p) (a := (P.vert e).1) (b := (P.vert e).2)
    HE.target.len_pos (HE.v0 e he).len_pos (HE.v1 e he).len_pos
  obtain ⟨x, es, hl, hes, hin, hroot⟩ := h1 e he Q hQ
  refine ⟨Q, hQ, hρ, x, es, hl, hes, hroot lim, ?_⟩
  intro y hy hyx
  exact hn y x hy (hcells.valid x (Roots.lookup_mem_ids P.ix hl)) hyx _ hin

/-! ## (4) non-vacuity: a concrete index (`EdgeQuery/PointWorldEx.lean`)

  face cell 0 (node) over two level-1 index cells, each listing one edge; target (1/3, 2/3, 2/3) on another face.
  Every hypothesis of the theorems above is DISCHARGED for it (kernel-checked integer forms of `UnitPt`, `EdgeOK`,
  `WedgeMargin`; `ClosestCovered` from "both endpoints in the cell ⇒ the arc is in the cell"). -/

section NonVacuity
open S2Proofs.C08World.Ex

example : EdgesOK exIdx := ex_edgesOK
example : IndexOK exIdx := ex_indexOK
example : Slack.SlackWorld chordI (world exIdx) (Near exIdx) := point_world_slack ex_edgesOK ex_indexOK
example : SubLaws chordI exOpts.maxError := chord_subLaws_zero

/-- the optimized search on this world, evaluated by the kernel on the bit-exact soft-float: the root NODE is enqueued, popped,
    its two index cells are processed, and edge 0 is returned at squared chord `0x3FCC71C71C71C71C` (≈ 2/9) -/
example : (findEdges chordI exOpts (world exIdx)).map (fun rs => rs.map (fun r => (r.dist.1.bits, r.shape, r.edge)))
    = some [(0x3FCC71C71C71C71C, 0, 0)] := ex_search
example : (findEdges chordI exOpts2 (world exIdx)).map (fun rs => rs.map (fun r => (r.dist.1.bits, r.shape, r.edge)))
    = some [(0x3FCC71C71C71C71C, 0, 0), (0x40071C71C71C71C7, 0, 1)] := ex_search2

/-- `point_distance_within_slack` APPLIED, no hypothesis left: the float the search returns is at most `2^-44` above the TRUE
    distance of every edge of the index -/
example : ∀ e ∈ exIdx.allEdges, val (⟨0x3FCC71C71C71C71C⟩ : F64) ≤ rho exIdx e + slack := by
  obtain ⟨rs, hf⟩ : ∃ rs, findEdges chordI exOpts (world exIdx) = some rs :=
    S2Proofs.EdgeQuery.findEdges_total chordI exOpts (world exIdx)
  have hs := ex_search
  rw [hf] at hs
  simp only [Option.map_some, Option.some.injEq] at hs
  obtain ⟨r, hrs⟩ : ∃ r, rs = [r] := by
    cases rs with
    | nil => simp at hs
    | cons r t =>
      cases t with
      | nil => exact ⟨r, rfl⟩
      | cons _ _ => simp at hs
  subst hrs
  simp only [List.map_cons, List.map_nil, List.cons.injEq, Prod.mk.injEq, and_true] at hs
  have hr : r.dist.1 = (⟨0x3FCC71C71C71C71C⟩ : F64) := by
    have := hs.1
    cases hd : r.dist.1 with
    | mk b => rw [hd] at this; simp only at this; rw [this]
  intro e he
  have := (point_distance_within_slack ex_edgesOK ex_indexOK (o := exOpts) rfl rfl rfl hf r (by simp)).1 e he
  rw [hr] at this
  exact this

/-- `point_multi` APPLIED: with `MaxResults = 2` and an infinite limit BOTH edges must be reported -/
example : ∀ rs, findEdges chordI exOpts2 (world exIdx) = some rs →
    ∀ e ∈ exIdx.allEdges, ∃ x, updEdge exIdx e cinf = some x ∧
      ((⟨x, e.shape, e.edge⟩ : Result Chord) ∈ rs ∨
        (rs.length = 2 ∧ ∀ a ∈ rs, Result.less chordI a ⟨x, e.shape, e.edge⟩ = true)) := by
  intro rs h e he
  obtain ⟨_, _, _, d⟩ := point_multi ex_edgesOK ex_indexOK (o := exOpts2) (by decide) rfl h
  obtain ⟨x, hx, _, hres⟩ := d e he (Or.inl rfl)
  exact ⟨x, hx, hres⟩

end NonVacuity

end S2Proofs.C08
