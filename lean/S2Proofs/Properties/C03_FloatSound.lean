/-
  Property C03 — `FloatSound` DISCHARGED for the repaired EdgeCrosser, and finding D48.

  1. FINDING D48 (code before the repair).  `NewEdgeCrosser` built the outward tangents from
     `norm := a.PointCross(b)`, un-normalised, and `PointCross` falls back to an arbitrary `Ortho()` vector when
     the float `(a+b)×(b−a)` is exactly zero.  For a nearly antipodal edge AB whose float cross product cancels
     exactly although a×b ≠ 0 the tangents point anywhere and the early rejection fires wrongly:
     `crossingSignOld nA nB nC nD = -1` (DoNotCross) although the exact criterion says `+1` (Cross).
     Kernel-checked below on the faithful pre-repair model (`tangentsOld`, `crossingSignOld`):
     `floatSound_tangent_false_before_repair`, `fullExactness_false_before_repair`.
     Independently of that witness the constant `maxError = (1.5 + 1/√3)·dblEpsilon ≈ 4.155·u` was only justified
     for a UNIT normal: with |norm| = 2·sin(AB) ≤ 2 the rigorous bound is 3.6548·u·|norm| (up to 7.31·u).

  2. THE REPAIR (docs/fixes/D48_edgecrosser_tangent.diff; model `S2.Crossing.tangents`): the normal
     `(a+b)×(b−a)` is used only if its float squared norm is ≥ 2^-80 and is then normalised; otherwise both
     tangents stay zero and the test cannot succeed.  For this code:

       `floatSound_tangent`   the rejection fires only when the exact answer is DoNotCross, for ALL unit-ish points
                              (rigorous constant 3.654785·u + relative part  <  4.15·u ≤ maxError ≤ 4.16·u);
       `floatSound_unitish : FloatSound Unitish`   — all three float filters, NO hypothesis left;

     and the `…_partial` theorems of `Properties/C03.lean` hold unconditionally on the point set
     `UnitPt` = unit-ish (| ‖p‖² − 1 | ≤ 2^-16, finite) without negative-zero coordinates (the ±0 side condition
     is needed only because those theorems speak about structural equality, see `C03_Exact.lean`).
-/
import S2Proofs.FloatErr2.Tangent
import S2Proofs.Properties.C02_StableError
import S2Proofs.Properties.C03_Exact

namespace S2Proofs.C03
open S2 S2.Exact S2.Pred S2.Crossing S2.Crosser S2Proofs.F64Order S2Proofs.F64Inj S2Proofs.FloatErr
  S2Proofs.C02Err

local notation "E" => S2.Pred.exactDecision

/-! ## 1. finding D48: the code before the repair -/

/-- `NewEdgeCrosser` BEFORE the repair: tangents from the un-normalised `a.PointCross(b)` (the `PointCross` of that time,
    i.e. the one before repair D60: `pointCrossOld`) -/
def tangentsOld (a b : V3) : V3 × V3 :=
  let norm := pointCrossOld a b
  (a.cross norm, norm.cross b)

/-- `CrossingSign` BEFORE the repair -/
def crossingSignOld (a b c d : V3) : Int :=
  (chainSign a b (tangentsOld a b).1 (tangentsOld a b).2 c (-(triageSign a b c)) d).1

/-- the D48 witness: A = (0.6−ulp, 0.8−ulp, 0), B ≈ −A·(1 + 1e-15) with `fl((A+B)×(B−A)) = 0` exactly although
    A×B ≠ 0; the edge CD crosses AB near its midpoint -/
def nA : V3 := ⟨⟨0x3fe3333333333332⟩, ⟨0x3fe9999999999999⟩, ⟨0x0000000000000000⟩⟩
def nB : V3 := ⟨⟨0xbfe3333333333335⟩, ⟨0xbfe999999999999d⟩, ⟨0x0000000000000000⟩⟩
def nC : V3 := ⟨⟨0xbfe9791363068b55⟩, ⟨0x3fe31ace8a44e87f⟩, ⟨0x3fb9791363068b55⟩⟩
def nD : V3 := ⟨⟨0xbfe9791363068b55⟩, ⟨0x3fe31ace8a44e87f⟩, ⟨0xbfb9791363068b55⟩⟩

/-- the facts about the witness, evaluated by the kernel on the bit-exact soft-float model -/
theorem d48_witness :
    nearUnit nA = true ∧ nearUnit nB = true ∧ nearUnit nC = true ∧ nearUnit nD = true ∧
    antipodal nA nB = false ∧ antipodal nC nD = false ∧
    Unitish nA ∧ Unitish nB ∧ Unitish nC ∧ Unitish nD ∧
    NoNegZero3 nA ∧ NoNegZero3 nB ∧ NoNegZero3 nC ∧ NoNegZero3 nD ∧
    V3.feq ((nA.add nB).cross (nB.sub nA)) zero3 = true ∧
    det3 (ofV3 nA) (ofV3 nB) (ofV3 nC) ≠ 0 ∧
    tangentReject (tangentsOld nA nB).1 (tangentsOld nA nB).2 nC nD = true ∧
    crossingSignOld nA nB nC nD = -1 ∧ exactCrossing nA nB nC nD = 1 ∧
    crossingSign nA nB nC nD = 1 := by decide +kernel

/-- **D48**: before the repair the tangent field of `FloatSound` was FALSE on unit-ish points. -/
theorem floatSound_tangent_false_before_repair :
    ¬ ∀ a b c d : V3, Unitish a → Unitish b → Unitish c → Unitish d →
      tangentReject (tangentsOld a b).1 (tangentsOld a b).2 c d = true → exactCrossing a b c d = -1 := by
  intro h
  obtain ⟨_, _, _, _, _, _, ua, ub, uc, ud, _, _, _, _, _, _, ht, _, he, _⟩ := d48_witness
  have := h nA nB nC nD ua ub uc ud ht
  rw [he] at this
  omega

/-- **D48**: before the repair `FullExactness` (the full-strength statement of `Properties/C03.lean`, with the
    pre-repair `CrossingSign`) was FALSE: DoNotCross is returned for a pair of crossing edges. -/
theorem fullExactness_false_before_repair :
    ¬ ∀ a b c d : V3, nearUnit a = true → nearUnit b = true → nearUnit c = true → nearUnit d = true →
      antipodal a b = false → antipodal c d = false → crossingSignOld a b c d = exactCrossing a b c d := by
  intro h
  obtain ⟨h1, h2, h3, h4, h5, h6, _, _, _, _, _, _, _, _, _, _, _, hc, he, _⟩ := d48_witness
  have := h nA nB nC nD h1 h2 h3 h4 h5 h6
  rw [hc, he] at this
  omega

/-! ## 2. the repaired code: `FloatSound` on unit-ish points -/

/-- **The tangent field of `FloatSound`** for the repaired EdgeCrosser: the outward-tangent rejection fires only
    when the exact answer is DoNotCross.  All unit-ish float points; no hypothesis. -/
theorem floatSound_tangent (a b c d : V3) (ha : Unitish a) (hb : Unitish b) (hc : Unitish c) (hd : Unitish d)
    (h : tangentReject (tangents a b).1 (tangents a b).2 c d = true) : exactCrossing a b c d = -1 :=
  FE2.tangentReject_sound a b c d ha.normLe hb.normLe hc.normLe hd.normLe h

/-- the same for all finite points of squared norm ≤ 1 + 2^-16 (no lower bound on the norm is needed) -/
theorem floatSound_tangent_normLe (a b c d : V3) (ha : NormLe a) (hb : NormLe b) (hc : NormLe c) (hd : NormLe d)
    (h : tangentReject (tangents a b).1 (tangents a b).2 c d = true) : exactCrossing a b c d = -1 :=
  FE2.tangentReject_sound a b c d ha hb hc hd h

/-- the code's constant against the rigorous one: `3.654785·u < 4.15·u ≤ maxError ≤ 4.16·u` -/
theorem tangent_constant_comparison :
    3654785 / 1000000 * uR < 415 / 100 * uR ∧ 415 / 100 * uR ≤ val Crossing.maxError ∧
      val Crossing.maxError ≤ 416 / 100 * uR := by
  refine ⟨?_, FE2.maxError_facts.2, FE2.maxError_le⟩
  have : 0 < uR := by unfold uR; positivity
  nlinarith

/-- **`FloatSound Unitish`**: triageSign, stableSign and the tangent rejection never contradict the exact
    decision on unit-ish points.  No hypothesis left. -/
theorem floatSound_unitish : FloatSound Unitish where
  triage a b c ha hb hc hne := floatSound_triage a b c ha hb hc hne
  stable a b c ha hb hc _ _ _ hne := S2Proofs.C02StableErr.floatSound_stable a b c ha hb hc hne
  tangent a b c d ha hb hc hd h := floatSound_tangent a b c d ha hb hc hd h

/-- `FloatSound` is inherited by subsets -/
theorem floatSound_mono {S S' : V3 → Prop} (h : ∀ p, S' p → S p) (hF : FloatSound S) : FloatSound S' where
  triage a b c ha hb hc := hF.triage a b c (h a ha) (h b hb) (h c hc)
  stable a b c ha hb hc := hF.stable a b c (h a ha) (h b hb) (h c hc)
  tangent a b c d ha hb hc hd := hF.tangent a b c d (h a ha) (h b hb) (h c hc) (h d hd)

/-! ## 3. the unconditional C03 theorems -/

/-- the point set of the unconditional theorems: unit-ish, finite, no negative-zero coordinate -/
def UnitPt (p : V3) : Prop := Unitish p ∧ NoNegZero3 p

instance (p : V3) : Decidable (UnitPt p) := by unfold UnitPt; infer_instance

theorem unitPt_allFin : AllFin UnitPt := fun _ h => h.1.1

theorem unitish_ne_zero {p : V3} (h : Unitish p) : V3.feq p zero3 = false := by
  cases hq : V3.feq p zero3
  · rfl
  · have hz : Fin3 zero3 ∧ (ofV3 zero3).norm2 = 0 := by decide
    have e := (v3feq_iff h.1 hz.1).mp hq
    have h2 := h.2
    unfold norm2I at h2
    rw [e, hz.2] at h2
    have hs : (0 : ℤ) < (scale : ℤ) ^ 2 := by unfold scale; positivity
    generalize ((scale : ℤ) ^ 2) = X at h2 hs
    rw [zero_sub, abs_neg, abs_of_pos hs] at h2
    omega

theorem unitPt_dom : Dom UnitPt :=
  dom_exact unitPt_allFin (eqInj_of_noNegZero unitPt_allFin (fun _ h => h.2)) (fun _ h => unitish_ne_zero h.1)

theorem unitPt_signLaws : SignLaws UnitPt := signLaws_of_dom unitPt_dom unitPt_allFin

theorem unitPt_floatSound : FloatSound UnitPt := floatSound_mono (fun _ h => h.1) floatSound_unitish

section stateless
variable {a b c d : V3}

/-- **`CrossingSign` is decided exactly** (four-orientation criterion in exact arithmetic with the library's
    perturbation; MaybeCross iff a vertex is shared) — unconditional on `UnitPt`. -/
theorem crossingSign_exact (ha : UnitPt a) (hb : UnitPt b) (hc : UnitPt c) (hd : UnitPt d) :
    crossingSign a b c d = exactCrossing a b c d :=
  crossingSign_exact_partial unitPt_dom unitPt_signLaws unitPt_floatSound ha hb hc hd

/-- `FullExactness` of `Properties/C03.lean` for points without negative zeros — the antipodality guard is not
    even needed for the repaired code. -/
theorem fullExactness_noNegZero (a b c d : V3) (ha : nearUnit a = true) (hb : nearUnit b = true)
    (hc : nearUnit c = true) (hd : nearUnit d = true)
    (za : NoNegZero3 a) (zb : NoNegZero3 b) (zc : NoNegZero3 c) (zd : NoNegZero3 d) :
    crossingSign a b c d = exactCrossing a b c d := by
  have conv : ∀ p : V3, nearUnit p = true → Unitish p := by
    intro p hp
    unfold nearUnit at hp
    simp only [Bool.and_eq_true, decide_eq_true_eq] at hp
    obtain ⟨hf, hn⟩ := hp
    have hfin : Fin3 p := by
      unfold finite3 at hf
      simp only [Bool.and_eq_true] at hf
      have fin_of : ∀ x : F64, x.isFinite = true → Fin x := by
        intro x hx
        unfold F64.isFinite at hx
        unfold F64Order.Fin
        simpa using hx
      exact ⟨fin_of _ hf.1.1, fin_of _ hf.1.2, fin_of _ hf.2⟩
    refine ⟨hfin, ?_⟩
    unfold norm2I
    have h1 : (|(ofV3 p).norm2 - (scale : ℤ) ^ 2| : ℤ) = ((((ofV3 p).norm2 - (scale : ℤ) ^ 2).natAbs : ℕ) : ℤ) :=
      (Int.natCast_natAbs _).symm
    rw [h1]
    have h2 : ((((ofV3 p).norm2 - (scale : ℤ) ^ 2).natAbs * 2 ^ 50 : ℕ) : ℤ) ≤ ((scale ^ 2 : ℕ) : ℤ) := by
      exact_mod_cast hn
    push_cast at h2
    have h3 : ((((ofV3 p).norm2 - (scale : ℤ) ^ 2).natAbs : ℕ) : ℤ) * 2 ^ 16
        ≤ ((((ofV3 p).norm2 - (scale : ℤ) ^ 2).natAbs : ℕ) : ℤ) * 2 ^ 50 :=
      mul_le_mul_of_nonneg_left (by norm_num) (Int.natCast_nonneg _)
    linarith
  exact crossingSign_exact ⟨conv a ha, za⟩ ⟨conv b hb, zb⟩ ⟨conv c hc, zc⟩ ⟨conv d hd, zd⟩

/-- symmetry of `CrossingSign` under reversing either edge and swapping the edges — unconditional -/
theorem crossingSign_symmetric (ha : UnitPt a) (hb : UnitPt b) (hc : UnitPt c) (hd : UnitPt d) :
    crossingSign b a c d = crossingSign a b c d ∧ crossingSign a b d c = crossingSign a b c d ∧
    crossingSign c d a b = crossingSign a b c d :=
  crossingSign_symmetric_partial unitPt_dom unitPt_signLaws unitPt_floatSound ha hb hc hd

/-- `MaybeCross` exactly when two vertices of different edges coincide — unconditional -/
theorem crossingSign_maybe_iff (ha : UnitPt a) (hb : UnitPt b) (hc : UnitPt c) (hd : UnitPt d) :
    crossingSign a b c d = 0 ↔ (a = c ∨ a = d ∨ b = c ∨ b = d) :=
  crossingSign_maybe_iff_partial unitPt_dom unitPt_signLaws unitPt_floatSound ha hb hc hd

/-- degenerate edges: MaybeCross if a vertex is shared, otherwise DoNotCross — unconditional -/
theorem crossingSign_degenerate (ha : UnitPt a) (hb : UnitPt b) (hc : UnitPt c) (hd : UnitPt d)
    (hdeg : a = b ∨ c = d) :
    crossingSign a b c d = if (a = c ∨ a = d ∨ b = c ∨ b = d) then 0 else -1 :=
  crossingSign_degenerate_partial unitPt_dom unitPt_signLaws unitPt_floatSound ha hb hc hd hdeg

end stateless

section crosser
variable {a b : V3}

/-- **REFINEMENT, unconditional**: for every history of calls on one EdgeCrosser for the edge `a b` (any mixture of
    RestartAt / ChainCrossingSign / CrossingSign / EdgeOrVertexCrossing / EdgeOrVertexChainCrossing, all vertices
    in `UnitPt`, not starting with a chain call) every returned value equals the stateless answer. -/
theorem crosser_refines_stateless (ha : UnitPt a) (hb : UnitPt b) (ops : List Op)
    (hpts : ∀ op ∈ ops, ∀ p ∈ op.points, UnitPt p) (hwf : wellFormed ops = true) :
    run (init a b) ops = spec a b zero3 ops :=
  crosser_refines_stateless_partial unitPt_dom unitPt_signLaws unitPt_floatSound ha hb ops hpts hwf

/-- the same from any state satisfying the invariant -/
theorem crosser_refines_from_state (ha : UnitPt a) (hb : UnitPt b) {e : St} (hI : Inv UnitPt a b e)
    (hc : UnitPt e.c) (ops : List Op) (hpts : ∀ op ∈ ops, ∀ p ∈ op.points, UnitPt p) :
    run e ops = spec a b e.c ops :=
  crosser_refines_from_state_partial unitPt_dom unitPt_signLaws unitPt_floatSound ha hb hI hc ops hpts

/-- the cache invariant after every history — unconditional -/
theorem crosser_invariant (ha : UnitPt a) (hb : UnitPt b) (ops : List Op)
    (hpts : ∀ op ∈ ops, ∀ p ∈ op.points, UnitPt p) (hwf : wellFormed ops = true) :
    (exec (init a b) ops).acb = 0 ∨ (exec (init a b) ops).acb = -(E a b (exec (init a b) ops).c) :=
  crosser_invariant_partial unitPt_dom unitPt_signLaws unitPt_floatSound ha hb ops hpts hwf

/-- every chained output is the exact specification — unconditional -/
theorem crosser_sign_outputs_exact (ha : UnitPt a) (hb : UnitPt b) {e : St} (hI : Inv UnitPt a b e)
    (hc : UnitPt e.c) {d : V3} (hd : UnitPt d) :
    (step e (.chainCrossingSign d)).2 = .sign (exactCrossing a b e.c d) :=
  crosser_sign_outputs_exact_partial unitPt_dom unitPt_signLaws unitPt_floatSound ha hb hI hc hd

/-- `RobustSign` satisfies the laws the vertex rules need — unconditional on `UnitPt` -/
theorem rsLaws_robust_unitPt : RSLaws UnitPt robustSign :=
  rsLaws_robust unitPt_dom unitPt_signLaws unitPt_floatSound

end crosser

/-! ## 4. non-vacuity on bit patterns -/

/-- the D48 witness points are `UnitPt`, and the repaired `CrossingSign` decides the quadruple exactly (Cross) -/
example : UnitPt nA ∧ UnitPt nB ∧ UnitPt nC ∧ UnitPt nD ∧ crossingSign nA nB nC nD = exactCrossing nA nB nC nD :=
  ⟨⟨d48_witness.2.2.2.2.2.2.1, d48_witness.2.2.2.2.2.2.2.2.2.2.1⟩,
   ⟨d48_witness.2.2.2.2.2.2.2.1, d48_witness.2.2.2.2.2.2.2.2.2.2.2.1⟩,
   ⟨d48_witness.2.2.2.2.2.2.2.2.1, d48_witness.2.2.2.2.2.2.2.2.2.2.2.2.1⟩,
   ⟨d48_witness.2.2.2.2.2.2.2.2.2.1, d48_witness.2.2.2.2.2.2.2.2.2.2.2.2.2.1⟩,
   by decide +kernel⟩

/-- an instance where the tangent rejection FIRES on the repaired model (edge X→Y on the equator, CD beyond X):
    the hypotheses of `floatSound_tangent` hold and its conclusion is the exact answer -/
def tC : V3 := ⟨⟨0x3FE999999999999A⟩, ⟨0xBFE3333333333333⟩, ⟨0x3F50000000000000⟩⟩   -- (0.8, -0.6, 2^-10)
def tD : V3 := ⟨⟨0x3FE999999999999A⟩, ⟨0xBFE3333333333333⟩, ⟨0xBF50000000000000⟩⟩   -- (0.8, -0.6, -2^-10)

example : Unitish pX ∧ Unitish pY ∧ Unitish tC ∧ Unitish tD ∧
    tangentReject (tangents pX pY).1 (tangents pX pY).2 tC tD = true ∧ exactCrossing pX pY tC tD = -1 := by
  decide +kernel

/-- a short edge (below the guard `2^-80`): the tangents are zero and nothing is rejected -/
def sB : V3 := ⟨⟨0x3FF0000000000000⟩, ⟨0x3CD0000000000000⟩, ⟨0⟩⟩   -- (1, 2^-50, 0)
example : Unitish sB ∧ tangents pX sB = (zero3, zero3) := by decide +kernel

/-- a mixed history on the edge pX pY decided by the unconditional refinement theorem -/
example : run (init pX pY) ops0 = spec pX pY zero3 ops0 :=
  crosser_refines_stateless (by unfold UnitPt; decide +kernel) (by unfold UnitPt; decide +kernel) ops0
    (by
      have h : ∀ p ∈ L0, UnitPt p := by unfold UnitPt; decide +kernel
      intro op hop p hp
      apply h
      simp only [ops0, List.mem_cons, List.mem_nil_iff, or_false] at hop
      rcases hop with rfl | rfl | rfl | rfl | rfl | rfl | rfl <;>
        simp only [Op.points, List.mem_cons, List.mem_nil_iff, or_false] at hp <;>
        rcases hp with rfl | rfl <;> simp [L0])
    (by decide)

end S2Proofs.C03
