/-
  Property C02 (error constant of `stableSign`, `detErrorMultiplier = 3.2321·dblEpsilon`) — the float error
  analysis of the second stage of `RobustSign`, and with it the UNCONDITIONAL statement

      RobustSign(a,b,c) = exact + symbolic decision         for all unit-ish float points        (`robustSign_exact`).

  `stableSign` evaluates `d = −fl((x × y)·O)` with `x = fl(P−O)`, `y = fl(O−Q)` the two shortest edges (float
  vectors) and answers ±1 when `|d| > maxErr = fl(detErrorMultiplier·fl(√fl(fl(|x|²)·fl(|y|²))))`, unless that
  product is below 2^-1000.  Rigorous bound (u = 2^-53, all second-order and underflow terms):

      |d − det| ≤ (3/2)u(1+u/3)·|det| + 5.97·u·|x||y| + 20·2^-1075           (first order (5/2 + 6/√3) = 5.9641),
      maxErr ≥ 5.97·u·|x||y| + 20·2^-1075                                  (code: 3 + 6/√3 = 6.4641, `maxErr_ge`),

  including the roundings of the squared norms, of their product, of the square root (`FloatErr.sqrt_lower`, a
  lower bound for the soft-float `F64.sqrt`) and of the final product, and the inputs' tolerance | ‖p‖² − 1 | ≤ 2^-16.
  The guard `norm2Product ≥ 2^-1000` (finding D24, fixed in /repo) is USED: without it `maxErr` underflows.
-/
import S2Proofs.FloatErr.Stable
import S2Proofs.Properties.C02_TriageError

namespace S2Proofs.C02StableErr
open S2 S2.Exact S2.Pred S2Proofs.F64Order S2Proofs.PredLemmas S2Proofs.FloatErr S2Proofs.C02Err

/-- `stableSign` computes `stableGen` for one of the three cyclic vertex orders. -/
theorem stableParts_cases (a b c : V3) :
    stableParts a b c = stableGen a b c ∨ stableParts a b c = stableGen b c a ∨
      stableParts a b c = stableGen c a b := by
  unfold stableParts stableGen
  simp only
  split
  · left; rfl
  · split
    · right; left; rfl
    · right; right; rfl

/-- **`stableSign` is sound**: 0 or the sign of the exact determinant, for all finite float triples with
    squared norms ≤ 1 + 2^-16.  Unconditional. -/
theorem stableSign_sound_normLe (a b c : V3) (ha : NormLe a) (hb : NormLe b) (hc : NormLe c) :
    stableSign a b c = 0 ∨ stableSign a b c = detSign a b c := by
  unfold stableSign stableDetErr detSign
  split
  · left; rfl
  · rename_i hg
    have hg' : F64.lt (stableParts a b c).2.2 minStableSignNorm2Product = false := by
      cases h : F64.lt (stableParts a b c).2.2 minStableSignNorm2Product
      · rfl
      · exact absurd h hg
    rcases stableParts_cases a b c with h | h | h
    · rw [h] at hg' ⊢
      exact stableGen_sound stdModel a b c ha hb hc hg'
    · rw [h] at hg' ⊢
      have := stableGen_sound stdModel b c a hb hc ha hg'
      rwa [det3_rot] at this
    · rw [h] at hg' ⊢
      have := stableGen_sound stdModel c a b hc ha hb hg'
      rwa [det3_rot2] at this

/-- **`stableSign` is sound** on unit-ish points. -/
theorem stableSign_sound (a b c : V3) (ha : Unitish a) (hb : Unitish b) (hc : Unitish c) :
    stableSign a b c = 0 ∨ stableSign a b c = detSign a b c :=
  stableSign_sound_normLe a b c ha.normLe hb.normLe hc.normLe

/-- the `stable` field of `C03.FloatSound (S := Unitish)` (its distinctness hypotheses are not needed). -/
theorem floatSound_stable (a b c : V3) (ha : Unitish a) (hb : Unitish b) (hc : Unitish c)
    (hne : stableSign a b c ≠ 0) : stableSign a b c = exactDecision a b c := by
  rcases stableSign_sound a b c ha hb hc with h | h
  · exact absurd h hne
  · rw [h] at hne ⊢
    exact (S2Proofs.C02.exactDecision_of_det_ne a b c ha.1 hb.1 hc.1 hne).symm

/-- **C02, orientation: `RobustSign` IS the exact + symbolic decision** on all unit-ish float points — both
    float filters are proved sound, no error-bound hypothesis is left.  Hence `RobustSign` has all the
    properties proved for `exactDecision` in `C02.lean` (0 iff two points equal, rotation, swap, SoS). -/
theorem robustSign_exact (a b c : V3) (ha : Unitish a) (hb : Unitish b) (hc : Unitish c) :
    robustSign a b c = exactDecision a b c :=
  robustSign_given_stable_bound a b c ha hb hc (stableSign_sound a b c ha hb hc)

/-! non-vacuity: on the first example of `C02_TriageError` (det ≈ 1e-15) `stableSign` answers +1 = exact; on the
    second (det ≈ 2.2e-16) both float stages answer 0 and the exact stage decides +1 -/
example : Unitish exA ∧ Unitish exB ∧ Unitish exC ∧ stableSign exA exB exC = 1 ∧ detSign exA exB exC = 1 ∧
    Unitish exA' ∧ Unitish exB' ∧ Unitish exC' ∧ triageSign exA' exB' exC' = 0 ∧
    stableSign exA' exB' exC' = 0 ∧ detSign exA' exB' exC' = 1 ∧ robustSign exA' exB' exC' = 1 := by
  decide +kernel

end S2Proofs.C02StableErr
