/-
  Property C02, consequences of the global simulation of simplicity (`sos_global_holds`):
  the exact + symbolic orientation decision `exactDecisionI`, restricted to ANY finite family of integer vectors,
  is the chirotope of a genuine real vector configuration in general position.  Hence it satisfies
    * the three-term Grassmann–Plücker sign relations (the chirotope axiom)   exactDecision_grassmann_plucker
    * Knuth's CC-system axiom 5 (transitivity) and its dual, for ALL vectors      exactDecision_knuth5, exactDecision_knuth5_dual
    * Knuth's axiom 4 (interiority) for vectors of an open half-space          exactDecision_knuth4
  for all inputs, degenerate ones (coplanar / collinear / proportional / zero vectors) included.
  (Axioms 1–3: `exactDecision_rotate`, `exactDecision_swap12`, `exactDecision_zero_iff` in C02.lean.)
-/
import S2Proofs.Properties.C02_Global

namespace S2Proofs.C02
open S2 S2.Exact S2.Pred S2Proofs.PredLemmas S2Proofs.SosLemmas

/-! ### realisation -/

/-- **Realisability.**  For every finite family of integer vectors there is a map into ℝ³ (the points with their
    rank perturbations at one fixed small ε) whose orientation signs are the answers of the exact decision on
    all triples of the family, and whose image is in general position: the determinant of three distinct
    members is non-zero. -/
theorem exactDecision_realisable (pts : List IV3) :
    ∃ f : IV3 → ℝ × ℝ × ℝ,
      (∀ a ∈ pts, ∀ b ∈ pts, ∀ c ∈ pts, exactDecisionI a b c = rsgn (detR (f a) (f b) (f c))) ∧
      (∀ a ∈ pts, ∀ b ∈ pts, ∀ c ∈ pts, a ≠ b → b ≠ c → c ≠ a → detR (f a) (f b) (f c) ≠ 0) := by
  obtain ⟨ε₀, h0, H⟩ := sos_global_list pts
  have H' := H (ε₀ / 2) (by linarith) (by linarith)
  refine ⟨pertPt pts (ε₀ / 2), H', fun a ha b hb c hc hab hbc hca h => ?_⟩
  have h1 := H' a ha b hb c hc
  unfold Realised at h1
  rw [h, rsgn_zero, exactDecision_zero_iff] at h1
  tauto

/-- the form used for sign consequences: `+1` answers are positive determinants of the realisation -/
theorem exactDecision_realisable_pos (pts : List IV3) :
    ∃ f : IV3 → ℝ × ℝ × ℝ, ∀ a b c, a ∈ pts → b ∈ pts → c ∈ pts →
      (exactDecisionI a b c = 1 ↔ 0 < detR (f a) (f b) (f c)) := by
  obtain ⟨f, hf, _⟩ := exactDecision_realisable pts
  exact ⟨f, fun a b c ha hb hc => by rw [hf a ha b hb c hc, rsgn_eq_one_iff]⟩

/-! ### Grassmann–Plücker -/

/-- **The chirotope axiom (three-term Grassmann–Plücker sign relation) for the code's decision, ALL inputs.**
    For any five integer vectors the three sign products
        t₁ = [xab][xcd],   t₂ = −[xac][xbd],   t₃ = [xad][xbc]            ([· · ·] = `exactDecisionI`)
    are either all 0 or contain both a +1 and a −1 — exactly what holds for the determinants of a genuine vector
    configuration (whose three products sum to 0).  No hypothesis: equal, proportional, coplanar, zero vectors
    are allowed. -/
theorem exactDecision_grassmann_plucker (x a b c d : IV3) :
    (exactDecisionI x a b * exactDecisionI x c d = 0 ∧ -(exactDecisionI x a c * exactDecisionI x b d) = 0 ∧
        exactDecisionI x a d * exactDecisionI x b c = 0) ∨
    ((exactDecisionI x a b * exactDecisionI x c d = 1 ∨ -(exactDecisionI x a c * exactDecisionI x b d) = 1 ∨
        exactDecisionI x a d * exactDecisionI x b c = 1) ∧
     (exactDecisionI x a b * exactDecisionI x c d = -1 ∨ -(exactDecisionI x a c * exactDecisionI x b d) = -1 ∨
        exactDecisionI x a d * exactDecisionI x b c = -1)) := by
  obtain ⟨f, hf, _⟩ := exactDecision_realisable [x, a, b, c, d]
  have m : ∀ u v w, u ∈ [x, a, b, c, d] → v ∈ [x, a, b, c, d] → w ∈ [x, a, b, c, d] →
      exactDecisionI u v w = rsgn (detR (f u) (f v) (f w)) := fun u v w hu hv hw => hf u hu v hv w hw
  rw [m x a b (by simp) (by simp) (by simp), m x c d (by simp) (by simp) (by simp),
    m x a c (by simp) (by simp) (by simp), m x b d (by simp) (by simp) (by simp),
    m x a d (by simp) (by simp) (by simp), m x b c (by simp) (by simp) (by simp),
    ← rsgn_mul, ← rsgn_mul, ← rsgn_mul, ← rsgn_neg]
  exact sign_pattern_of_sum_zero _ _ _ (by have := gpR (f x) (f a) (f b) (f c) (f d); linarith)

/-- non-vacuity: five coplanar vectors (all six determinants are 0, all six decisions are symbolic); here
    t₁ = −1, t₂ = −1, t₃ = +1 -/
example :
    det3 ⟨1, 0, 0⟩ ⟨2, 0, 0⟩ ⟨3, 0, 0⟩ = 0 ∧ det3 ⟨1, 0, 0⟩ ⟨0, 1, 0⟩ ⟨1, 1, 0⟩ = 0 ∧
    exactDecisionI ⟨1, 0, 0⟩ ⟨2, 0, 0⟩ ⟨3, 0, 0⟩ * exactDecisionI ⟨1, 0, 0⟩ ⟨0, 1, 0⟩ ⟨1, 1, 0⟩ = -1 ∧
    -(exactDecisionI ⟨1, 0, 0⟩ ⟨2, 0, 0⟩ ⟨0, 1, 0⟩ * exactDecisionI ⟨1, 0, 0⟩ ⟨3, 0, 0⟩ ⟨1, 1, 0⟩) = -1 ∧
    exactDecisionI ⟨1, 0, 0⟩ ⟨2, 0, 0⟩ ⟨1, 1, 0⟩ * exactDecisionI ⟨1, 0, 0⟩ ⟨3, 0, 0⟩ ⟨0, 1, 0⟩ = 1 := by
  decide +kernel

/-! ### Knuth's axioms 4 and 5 -/

/-- **Knuth's axiom 5 (transitivity)** for the code's decision, ALL integer vectors:
    tsp ∧ tsq ∧ tsr ∧ tpq ∧ tqr ⟹ tpr. -/
theorem exactDecision_knuth5 (t s p q r : IV3)
    (hp : exactDecisionI t s p = 1) (hq : exactDecisionI t s q = 1) (hr : exactDecisionI t s r = 1)
    (hpq : exactDecisionI t p q = 1) (hqr : exactDecisionI t q r = 1) : exactDecisionI t p r = 1 := by
  obtain ⟨f, hf, _⟩ := exactDecision_realisable [t, s, p, q, r]
  have m : ∀ u v w, u ∈ [t, s, p, q, r] → v ∈ [t, s, p, q, r] → w ∈ [t, s, p, q, r] →
      (exactDecisionI u v w = 1 ↔ 0 < detR (f u) (f v) (f w)) :=
    fun u v w hu hv hw => by rw [hf u hu v hv w hw, rsgn_eq_one_iff]
  rw [m _ _ _ (by simp) (by simp) (by simp)] at hp hq hr hpq hqr ⊢
  have key := gpR (f t) (f s) (f p) (f q) (f r)
  have p1 := mul_pos hp hqr
  have p2 := mul_pos hr hpq
  by_contra hn
  have : detR (f t) (f s) (f q) * detR (f t) (f p) (f r) ≤ 0 :=
    mul_nonpos_of_nonneg_of_nonpos hq.le (not_lt.mp hn)
  linarith

/-- the dual form: stp ∧ stq ∧ str ∧ tpq ∧ tqr ⟹ tpr -/
theorem exactDecision_knuth5_dual (t s p q r : IV3)
    (hp : exactDecisionI s t p = 1) (hq : exactDecisionI s t q = 1) (hr : exactDecisionI s t r = 1)
    (hpq : exactDecisionI t p q = 1) (hqr : exactDecisionI t q r = 1) : exactDecisionI t p r = 1 := by
  obtain ⟨f, hf, _⟩ := exactDecision_realisable [t, s, p, q, r]
  have m : ∀ u v w, u ∈ [t, s, p, q, r] → v ∈ [t, s, p, q, r] → w ∈ [t, s, p, q, r] →
      (exactDecisionI u v w = 1 ↔ 0 < detR (f u) (f v) (f w)) :=
    fun u v w hu hv hw => by rw [hf u hu v hv w hw, rsgn_eq_one_iff]
  rw [m _ _ _ (by simp) (by simp) (by simp)] at hp hq hr hpq hqr ⊢
  have key := gpR (f t) (f s) (f p) (f q) (f r)
  rw [detR_swap12] at hp hq hr
  have p1 := mul_pos hp hqr
  have p2 := mul_pos hr hpq
  by_contra hn
  have : -detR (f t) (f s) (f q) * detR (f t) (f p) (f r) ≤ 0 :=
    mul_nonpos_of_nonneg_of_nonpos hq.le (not_lt.mp hn)
  linarith

/-- non-vacuity of axiom 5 and its dual on coplanar vectors (every hypothesis is a symbolic decision) -/
example : exactDecisionI ⟨1, 0, 0⟩ ⟨2, 0, 0⟩ ⟨3, 0, 0⟩ = 1 ∧ exactDecisionI ⟨1, 0, 0⟩ ⟨2, 0, 0⟩ ⟨1, 1, 0⟩ = 1 ∧
    exactDecisionI ⟨1, 0, 0⟩ ⟨2, 0, 0⟩ ⟨0, 1, 0⟩ = 1 ∧ exactDecisionI ⟨1, 0, 0⟩ ⟨3, 0, 0⟩ ⟨1, 1, 0⟩ = 1 ∧
    exactDecisionI ⟨1, 0, 0⟩ ⟨1, 1, 0⟩ ⟨0, 1, 0⟩ = 1 ∧ det3 ⟨1, 0, 0⟩ ⟨2, 0, 0⟩ ⟨3, 0, 0⟩ = 0 ∧
    det3 ⟨1, 0, 0⟩ ⟨1, 1, 0⟩ ⟨0, 1, 0⟩ = 0 := by
  decide +kernel

example : exactDecisionI ⟨0, 1, 0⟩ ⟨1, 0, 0⟩ ⟨2, 0, 0⟩ = 1 ∧ exactDecisionI ⟨0, 1, 0⟩ ⟨1, 0, 0⟩ ⟨3, 0, 0⟩ = 1 ∧
    exactDecisionI ⟨0, 1, 0⟩ ⟨1, 0, 0⟩ ⟨1, 1, 0⟩ = 1 ∧ exactDecisionI ⟨1, 0, 0⟩ ⟨2, 0, 0⟩ ⟨3, 0, 0⟩ = 1 ∧
    exactDecisionI ⟨1, 0, 0⟩ ⟨3, 0, 0⟩ ⟨1, 1, 0⟩ = 1 ∧ det3 ⟨0, 1, 0⟩ ⟨1, 0, 0⟩ ⟨2, 0, 0⟩ = 0 := by
  decide +kernel

/-- **Knuth's axiom 4 (interiority)** for vectors in an open half-space (as decided by the code itself:
    `[u v ·] = +1` on the four vectors):   tqr ∧ ptr ∧ pqt ⟹ pqr.
    The half-space hypothesis cannot be dropped for vectors through the origin: `t = −(p+q+r)`. -/
theorem exactDecision_knuth4 (u v p q r t : IV3)
    (up : exactDecisionI u v p = 1) (uq : exactDecisionI u v q = 1) (ur : exactDecisionI u v r = 1)
    (ut : exactDecisionI u v t = 1)
    (h1 : exactDecisionI t q r = 1) (h2 : exactDecisionI p t r = 1) (h3 : exactDecisionI p q t = 1) :
    exactDecisionI p q r = 1 := by
  obtain ⟨f, hf, _⟩ := exactDecision_realisable [u, v, p, q, r, t]
  have m : ∀ a b c, a ∈ [u, v, p, q, r, t] → b ∈ [u, v, p, q, r, t] → c ∈ [u, v, p, q, r, t] →
      (exactDecisionI a b c = 1 ↔ 0 < detR (f a) (f b) (f c)) :=
    fun a b c ha hb hc => by rw [hf a ha b hb c hc, rsgn_eq_one_iff]
  rw [m _ _ _ (by simp) (by simp) (by simp)] at up uq ur ut h1 h2 h3 ⊢
  have key := cramerR (f u) (f v) (f p) (f q) (f r) (f t)
  have p1 := mul_pos h1 up
  have p2 := mul_pos h2 uq
  have p3 := mul_pos h3 ur
  by_contra hn
  have : detR (f u) (f v) (f t) * detR (f p) (f q) (f r) ≤ 0 :=
    mul_nonpos_of_nonneg_of_nonpos ut.le (not_lt.mp hn)
  linarith

/-- non-vacuity of axiom 4 with p, q, t = p+q, r = 2t: all four determinants of the axiom vanish -/
example :
    exactDecisionI ⟨1, 0, 0⟩ ⟨0, 0, -1⟩ ⟨0, 1, 0⟩ = 1 ∧ exactDecisionI ⟨1, 0, 0⟩ ⟨0, 0, -1⟩ ⟨1, 0, 1⟩ = 1 ∧
    exactDecisionI ⟨1, 0, 0⟩ ⟨0, 0, -1⟩ ⟨2, 2, 2⟩ = 1 ∧ exactDecisionI ⟨1, 0, 0⟩ ⟨0, 0, -1⟩ ⟨1, 1, 1⟩ = 1 ∧
    exactDecisionI ⟨1, 1, 1⟩ ⟨1, 0, 1⟩ ⟨2, 2, 2⟩ = 1 ∧ exactDecisionI ⟨0, 1, 0⟩ ⟨1, 1, 1⟩ ⟨2, 2, 2⟩ = 1 ∧
    exactDecisionI ⟨0, 1, 0⟩ ⟨1, 0, 1⟩ ⟨1, 1, 1⟩ = 1 ∧
    det3 ⟨1, 1, 1⟩ ⟨1, 0, 1⟩ ⟨2, 2, 2⟩ = 0 ∧ det3 ⟨0, 1, 0⟩ ⟨1, 1, 1⟩ ⟨2, 2, 2⟩ = 0 ∧
    det3 ⟨0, 1, 0⟩ ⟨1, 0, 1⟩ ⟨1, 1, 1⟩ = 0 ∧ det3 ⟨0, 1, 0⟩ ⟨1, 0, 1⟩ ⟨2, 2, 2⟩ = 0 := by
  decide +kernel

/-- the half-space hypothesis of axiom 4 is needed -/
theorem knuth4_fails_without_halfspace :
    exactDecisionI ⟨-1, -1, -1⟩ ⟨0, 0, 1⟩ ⟨0, 1, 0⟩ = 1 ∧ exactDecisionI ⟨1, 0, 0⟩ ⟨-1, -1, -1⟩ ⟨0, 1, 0⟩ = 1 ∧
    exactDecisionI ⟨1, 0, 0⟩ ⟨0, 0, 1⟩ ⟨-1, -1, -1⟩ = 1 ∧ exactDecisionI ⟨1, 0, 0⟩ ⟨0, 0, 1⟩ ⟨0, 1, 0⟩ = -1 := by
  decide +kernel

end S2Proofs.C02
