/-
  C01 (curve continuity, complete).  The six face-to-face transitions of the Hilbert curve and the continuity of
  the WHOLE curve:
  * `face_transition`  — at every level the last cell of face f and its successor (first cell of face (f+1) mod 6,
    wrapping 5 → 0) are valid cells of the same level whose exact integer cube boxes share an edge
    (`boxMeet … = some 1`; `cubeBox` / `boxMeet` are the oracle's neighbour judge, `S2Proofs/CubeAdj.lean`);
    exit corner / entry corner in square coordinates are given explicitly;
  * `curveContinuity`  — `CurveContinuity` of `C01_Hilbert.lean` in full: for EVERY valid cell the successor
    `nextWrap id` is one of `edgeNeighbors id` (the model's `EdgeNeighbors`, which runs the soft-float
    `cellIDFromFaceIJWrap`; the float part is proved in `S2Proofs/WrapFloat.lean`, `WrapIJ.lean`, no hypothesis);
  * `curveContinuity_geometric` — consecutive cells are disjoint cells of the same level sharing an edge on the cube.
-/
import S2Proofs.EdgeNbrAll
import S2Proofs.Properties.C01_Hilbert
import S2Proofs.Properties.C01_Neighbors
open S2 S2.CellID S2.Hilbert S2.STUV
open S2Proofs.C01W
namespace S2Proofs.C01

/-- THE SIX FACE TRANSITIONS.  If the successor of a valid cell lies on another face (the cell is the last one of its
    face at its level) then: the successor with wrap-around is a valid cell of the same level on face (f+1) mod 6; the
    cell is the exit corner of its face (square (2^k−1, 0) on even faces, (0, 2^k−1) on odd faces), the successor the
    entry corner (0,0); and the two exact cube boxes share an edge. -/
theorem face_transition (id : CellID) (hv : isValid id = true) (hf : face (next id) ≠ face id) :
    isValid (nextWrap id) = true ∧ level (nextWrap id) = level id ∧ face (nextWrap id) = (face id + 1) % 6 ∧
    sqI id (level id) = (if face id % 2 = 0 then 2^(level id) - 1 else 0) ∧
    sqJ id (level id) = (if face id % 2 = 0 then 0 else 2^(level id) - 1) ∧
    sqI (nextWrap id) (level id) = 0 ∧ sqJ (nextWrap id) (level id) = 0 ∧
    boxMeet (cubeBox id) (cubeBox (nextWrap id)) = some 1 := by
  have h := isCell_of_valid hv
  obtain ⟨t1, t2, tc, tf, t3, t4⟩ := last_cell_facts (rfl : 30 = 30) id (level id) h hf
  refine ⟨(isValid_iff _).mpr ⟨_, tc⟩, tc.level_eq, tf, ?_, ?_, t3, t4,
    transition_sharesEdge (rfl : 30 = 30) id (level id) h hf⟩
  · rw [t1]
    rcases Nat.mod_two_eq_zero_or_one (face id) with hp | hp <;> rw [hp]
    · rw [exit_vals.1, Nat.one_mul]; simp
    · rw [exit_vals.2.2.1, Nat.zero_mul]; simp
  · rw [t2]
    rcases Nat.mod_two_eq_zero_or_one (face id) with hp | hp <;> rw [hp]
    · rw [exit_vals.2.1, Nat.zero_mul]; simp
    · rw [exit_vals.2.2.2, Nat.one_mul]; simp

/-- non-vacuity: the last leaf of face 5 (wraps to the first leaf of face 0), the last level-1 cell of face 2,
    and the face cell 3 itself (level 0: every face cell is the last one of its face) -/
example : isValid (0xBFFFFFFFFFFFFFFF : CellID) = true ∧
    face (next (0xBFFFFFFFFFFFFFFF : CellID)) ≠ face (0xBFFFFFFFFFFFFFFF : CellID) := by decide
example : isValid (0x5C00000000000000 : CellID) = true ∧
    face (next (0x5C00000000000000 : CellID)) ≠ face (0x5C00000000000000 : CellID) := by decide
example : isValid (0x7000000000000000 : CellID) = true ∧
    face (next (0x7000000000000000 : CellID)) ≠ face (0x7000000000000000 : CellID) := by decide

/-- **CURVE CONTINUITY, in full**: for every valid cell (every level, every face, including the last cell of each
    face and the wrap from face 5 to face 0) the next cell along the curve is one of the four edge neighbours
    computed by the model of `EdgeNeighbors`. -/
theorem curveContinuity : CurveContinuity := by
  intro id hv
  exact nextWrap_mem_edgeNeighbors (rfl : 30 = 30) id (level id) (isCell_of_valid hv)

example : isValid (0xBFFFFFFFFFFFFFFF : CellID) = true := by decide

/-- geometric form: consecutive cells along the whole curve are valid cells of the same level that do not intersect
    and whose exact cube boxes share an edge -/
theorem curveContinuity_geometric (id : CellID) (hv : isValid id = true) :
    isValid (nextWrap id) = true ∧ level (nextWrap id) = level id ∧ intersects (nextWrap id) id = false ∧
    boxMeet (cubeBox id) (cubeBox (nextWrap id)) = some 1 := by
  have h := isCell_of_valid hv
  have hmem := nextWrap_mem_edgeNeighbors (rfl : 30 = 30) id (level id) h
  obtain ⟨n0, n1, n2, n3, he, s0, s1, s2, s3⟩ := edgeNeighbors_all (rfl : 30 = 30) id (level id) h
  obtain ⟨b1, b2⟩ := sq_le (rfl : 30 = 30) id (level id) h
  rw [he] at hmem
  have hself : IsSqT id (level id) (face id, sqI id (level id), sqJ id (level id)) := ⟨h, rfl, rfl, rfl⟩
  have fin : ∀ n d, d < 4 → IsSqT n (level id) (nbrSq (face id) (sqI id (level id)) (sqJ id (level id)) (2^(level id) - 1) d) →
      isValid n = true ∧ level n = level id ∧ intersects n id = false ∧ boxMeet (cubeBox id) (cubeBox n) = some 1 := by
    intro n d hd hn
    have hne : n ≠ id := isSqT_ne hn hself (nbrSq_ne_self _ _ _ _ d h.face_lt6 hd b1 b2)
    obtain ⟨v, l, i⟩ := disjoint_of_ne hn.1 h hne
    exact ⟨v, l, i, nbr_sharesEdge (rfl : 30 = 30) id n (level id) d h hd hn⟩
  simp only [List.mem_cons, List.mem_nil_iff, or_false] at hmem
  rcases hmem with e | e | e | e <;> rw [e]
  · exact fin _ 0 (by decide) s0
  · exact fin _ 1 (by decide) s1
  · exact fin _ 2 (by decide) s2
  · exact fin _ 3 (by decide) s3

example : isValid (0x3000000000000004 : CellID) = true := by decide

end S2Proofs.C01
