/-
  Property C04 / C06 — the crossing-parity cocycle for the exact geometry with coincident points that are ±0 TWINS, without
  the extra hypothesis of `CocycleDomAny`.

  `parityCocycle_exact_any` (`Properties/C04_Cocycle.lean`) allows two of ref / center / p to be Go-`==` (the same float vector
  or ±0 twins of each other) under the decidable hypothesis that their reference directions `s2Ortho` are `==` — "always true
  in IEEE arithmetic, not proved for the soft-float".  It is proved here (`S2Proofs.C03Z.contain_s2Ortho_feq`: every float stage
  of `Ortho` — `LargestAbsComponent`, the cross product, `Normalize`, whose only division is by `sqrt(norm2)`, the same bit
  pattern for twins — treats a vector and its ±0 twin alike), so the hypothesis disappears:

     `CocycleDomZ`                     the input class: ref, center, p and the chain vertices finite; `s2Ortho x` finite and not
                                       `==` x for x = ref, center, p.  Nothing about coincidences.
     `parityCocycle_exact_allZeros`    the cocycle on that class.
     `s2Ortho_feq_of_feq`              Go-`==` points have Go-`==` reference directions.
-/
import S2Proofs.Properties.C04_Cocycle
import S2Proofs.C03Zero.Twin
namespace S2Proofs.C04
open S2 S2.Contain S2.Pred S2.Exact S2Proofs.Contain S2Proofs.F64Order S2Proofs.ExactLaws

/-- **Go-`==` points have Go-`==` reference directions** (when the latter is finite) -/
theorem s2Ortho_feq_of_feq {x y : V3} (h : V3.feq x y = true) (hy : Fin3 (s2Ortho y)) :
    V3.feq (s2Ortho x) (s2Ortho y) = true :=
  S2Proofs.C03Z.contain_s2Ortho_feq h hy

/-- (1,0,0) and its twin (1,−0,−0) -/
example : V3.feq eX eXm = true ∧ eX ≠ eXm ∧ V3.feq (s2Ortho eX) (s2Ortho eXm) = true :=
  ⟨by decide +kernel, by decide +kernel, s2Ortho_feq_of_feq (by decide +kernel) (by decide +kernel)⟩

/-- the input class of the general cocycle theorem with NO condition on coincidences of ref / center / p: all points finite;
    the reference directions of ref, center, p finite and not `==` to the point (decidable) -/
def CocycleDomZ (ref center p : V3) (chains : List (List V3)) : Prop :=
  Fin3 ref ∧ Fin3 center ∧ Fin3 p ∧
  (Fin3 (s2Ortho ref) ∧ V3.feq ref (s2Ortho ref) = false) ∧
  (Fin3 (s2Ortho center) ∧ V3.feq center (s2Ortho center) = false) ∧
  (Fin3 (s2Ortho p) ∧ V3.feq p (s2Ortho p) = false) ∧
  ∀ vs ∈ chains, ∀ v ∈ vs, Fin3 v

instance (ref center p : V3) (chains : List (List V3)) : Decidable (CocycleDomZ ref center p chains) := by
  unfold CocycleDomZ; infer_instance

/-- the twin hypothesis of `CocycleDomAny` is automatic -/
theorem cocycleDomAny_of_Z {ref center p : V3} {chains : List (List V3)} (h : CocycleDomZ ref center p chains) :
    CocycleDomAny ref center p chains := by
  obtain ⟨hr, hc, hp, o1, o2, o3, hv⟩ := h
  have pair : ∀ {x y : V3}, Fin3 (s2Ortho y) → (V3.feq x y = false ∨ V3.feq (s2Ortho x) (s2Ortho y) = true) := by
    intro x y hy
    cases hq : V3.feq x y with
    | false => exact Or.inl rfl
    | true => exact Or.inr (s2Ortho_feq_of_feq hq hy)
  exact ⟨hr, hc, hp, pair o2.1, pair o3.1, pair o3.1, o1, o2, o3, hv⟩

/-- **The parity cocycle for the exact geometry, all coincidences allowed, no twin hypothesis**: chain vertices may be `==`
    to ref / center / p, and any two of ref, center, p may be `==` — the same float vector or ±0 twins. -/
theorem parityCocycle_exact_allZeros {ref center p : V3} {chains : List (List V3)}
    (h : CocycleDomZ ref center p chains) :
    ParityCocycle exactGeo ref center p (chains.flatMap loopEdges) :=
  parityCocycle_exact_any (cocycleDomAny_of_Z h)

/-- cell centre = the loop vertex `eX`, query point = its ±0 twin `eXm`: all hypotheses by kernel evaluation, none about
    the pair (centre, query point) -/
example : ParityCocycle exactGeo originPoint eX eXm ([[eX, eY, eZ]].flatMap loopEdges) :=
  parityCocycle_exact_allZeros (by decide +kernel)

/-- **Index path = brute force, exact geometry**, all coincidences allowed, no twin hypothesis. -/
theorem iteratorContains_eq_parity_exact_allZeros {ref center p : V3} {chains : List (List V3)} {rc cc : Bool}
    {ids : List Nat} (hd : CocycleDomZ ref center p chains)
    (hi : CellInv exactGeo ref rc (chains.flatMap loopEdges) center cc ids p) :
    iteratorContains exactGeo center cc (listed (chains.flatMap loopEdges) ids) p =
      (rc != crossParity exactGeo ref p (chains.flatMap loopEdges)) :=
  iteratorContains_eq_parity_exact_any (cocycleDomAny_of_Z hd) hi

/-- **Query-object path = brute force, exact geometry** (semi-open model), all coincidences allowed, no twin hypothesis. -/
theorem shapeContains_eq_containsBruteForce_exact_allZeros (S : ShapeM V3) (hdim : S.dim = 2)
    {chains : List (List V3)} (hch : S.edges.toList = chains.flatMap loopEdges)
    {center p : V3} {cc : Bool} {ids : List Nat}
    (hd : CocycleDomZ S.refPoint center p chains)
    (hi : CellInv exactGeo S.refPoint S.refContained S.edges.toList center cc ids p) :
    shapeContainsM exactGeo .semiOpen S.dim center cc (listed S.edges.toList ids) p =
      containsBruteForce exactGeo S p :=
  shapeContains_eq_containsBruteForce_exact_any S hdim hch (cocycleDomAny_of_Z hd) hi

end S2Proofs.C04
