/-
  Property C06 — I3 of the BUILT index from geometry only, WITHOUT the exclusion of negative-zero coordinates.

  `build_I3_of_geom` (`Properties/C06_BuildI3.lean`) discharges the float clauses (`init_exact`, `crosser_exact`) and the cocycle
  clause of `TrackSound` on points of the class `PtOK`, which contains "no coordinate is −0" (because C03's unconditional
  theorems did).  `faceUVToXYZ` negates coordinates on faces 1–5: every cell centre / vertex with u = 0 or v = 0 there has a
  `-0.0` coordinate (centre of face 1 = (−0, 1, 0)), so for the cells touching the central cross of a face `crosser_exact`
  stayed an assumption.  With C03 lifted to ±0 twins (`Properties/C03_AllZeros.lean`) the restriction disappears:

     `PtOKZ p`  :=  `Unitish p` ∧ `Unitish (s2Ortho p)` ∧ `p` not `==` `s2Ortho p`          (decidable; −0 allowed)
     `build_I3_of_geom_allZeros`, `build_I3_of_local_geom_allZeros`, `queryCocycle_of_ptOKZ`
  The old hypotheses imply the new ones (`ShapesUnit.toZ`, `CellPtsOK.toZ`), so these theorems subsume the old ones.
-/
import S2Proofs.Properties.C06_BuildI3
import S2Proofs.C06.BuildI3UnitZ
import S2Proofs.C06.BuildLeafChain
open S2 S2.CellID S2.PaddedCellM S2.IndexBuild S2Proofs.C06BuildH
namespace S2Proofs.C06Build

/-- **I3 from geometry only, negative zeros allowed**: the float clauses (`init_exact`, `crosser_exact`) and the cocycle
    clause (`parity_step`) of `TrackSound` are theorems when the vertices / reference points of the 2-dimensional shapes,
    the tracker origin and the entry vertex / centre / exit vertex of the index cells WITH EDGES are unit-ish points — any
    sign of zero coordinates, in particular the cells on the central cross of a face — whose reference direction is
    unit-ish and not `==` to the point (`ShapesUnitZ`, `CellPtsOKZ`: finitely many decidable conditions for a concrete
    input), and the shapes' edges are closed chains.  What remains assumed is `TrackGeom` (exact geometry) besides the
    hypotheses of I1. -/
theorem build_I3_of_geom_allZeros (shapes : Array Shape) {Meets : FaceEdge → CellID → Prop}
    {BoundOK : ClippedEdge → CellID → Prop} (hs : ClipSound Meets BoundOK)
    (hroot : RootSound shapes BoundOK) (hshrink : ShrinkSoundAll shapes Meets)
    (hg : TrackGeom shapes Meets) (hsu : ShapesUnitZ shapes) (hc : CellPtsOKZ shapes) : I3 shapes :=
  build_I3 shapes hs hroot hshrink (trackSound_of_geomZ shapes hg hsu hc)

/-- **I3 from LOCAL geometry, negative zeros allowed** (`TrackGeomLocal`: statements about ONE cell each). -/
theorem build_I3_of_local_geom_allZeros (shapes : Array Shape) {Meets : FaceEdge → CellID → Prop}
    {BoundOK : ClippedEdge → CellID → Prop} (hs : ClipSound Meets BoundOK)
    (hroot : RootSound shapes BoundOK) (hshrink : ShrinkSoundAll shapes Meets)
    (hg : TrackGeomLocal shapes Meets) (hsu : ShapesUnitZ shapes) (hc : CellPtsOKZ shapes) : I3 shapes :=
  build_I3_of_geom_allZeros shapes hs hroot hshrink (trackGeom_of_local shapes hg) hsu hc

/-- the cocycle hypothesis of the end-to-end theorem `built_index_queries_eq_bruteForce_partial` is a theorem on unit-ish
    points, negative zeros allowed: shapes as in `ShapesUnitZ`, centre of the cell and query point `PtOKZ` — also when the
    query point is a ±0 twin of the centre or of a reference point -/
theorem queryCocycle_of_ptOKZ (shapes : Array Shape) (hsu : ShapesUnitZ shapes) (x : IndexCell) (p : V3)
    (hc : PtOKZ (center (fromCellID x.id))) (hp : PtOKZ p) : QueryCocycle shapes x p := by
  intro sid hsid hdim
  obtain ⟨chains, hch⟩ := hsu.chains sid hsid hdim
  rw [hch]
  apply S2Proofs.C04.parityCocycle_exact_any
  apply cocycleDomAny_of_ptOKZ (hsu.ref sid hsid hdim) hc hp
  intro vs hvs v hv
  obtain ⟨e, he, rfl⟩ := mem_loopEdges_of_mem hv
  have hmem : e ∈ (shapes[sid]!).edges.toList := by
    rw [hch]; exact List.mem_flatMap.mpr ⟨vs, hvs, he⟩
  exact (hsu.edges sid hsid hdim e hmem).1.1

/-! ## non-vacuity -/

/-- **the points of the root cell of face 1** — entry vertex, centre (−0, 1, 0), exit vertex — are in the new class; the
    centre is NOT in the old one (it has a negative-zero coordinate) -/
theorem face1_points :
    PtOKZ (entryVertex (fromCellID (fromFace 1))) ∧ PtOKZ (center (fromCellID (fromFace 1))) ∧
    PtOKZ (exitVertex (fromCellID (fromFace 1))) ∧ ¬ PtOK (center (fromCellID (fromFace 1))) ∧
    (center (fromCellID (fromFace 1))).x = F64.zero true := by
  unfold PtOK S2Proofs.C03.UnitPt
  decide +kernel

/-- the six face cells -/
def faceCells : List CellID := (List.range 6).map fromFace

set_option maxRecDepth 100000 in
/-- **all six face cells**: entry vertex, centre and exit vertex of every face cell are in the new class `PtOKZ`; in the old
    class `PtOK` this holds for 2 of the 6 only — on the others one of the three points has a negative-zero coordinate -/
theorem faceCells_points :
    (faceCells.all fun c => decide (PtOKZ (entryVertex (fromCellID c))) && decide (PtOKZ (center (fromCellID c))) &&
      decide (PtOKZ (exitVertex (fromCellID c)))) = true ∧
    (faceCells.filter fun c => decide (PtOK (entryVertex (fromCellID c))) && decide (PtOK (center (fromCellID c))) &&
      decide (PtOK (exitVertex (fromCellID c)))).length = 2 := by
  decide +kernel

/-- the full polygon with the centre of face 1, (−0, 1, 0), as reference point -/
def fullShapeZ : Shape := ⟨2, #[], ⟨F64.zero true, F64.one, F64.zero false⟩, true⟩

private theorem no_edgeCell_fullShapeZ (c : CellID) : ¬ IsEdgeCell #[fullShapeZ] c := by
  rintro ⟨x, hx, _, hne⟩
  obtain ⟨pr, hpr⟩ := List.exists_mem_of_ne_nil _ hne
  unfold listedPairs at hpr
  obtain ⟨cl, hcl, hpr⟩ := List.mem_flatMap.mp hpr
  obtain ⟨e, he, _⟩ := List.mem_map.mp hpr
  obtain ⟨h1, h2⟩ := build_edge_ids_in_range #[fullShapeZ] x hx cl hcl e he
  have h0 : cl.shapeID = 0 := by simpa using h1
  rw [h0] at h2
  simp [fullShapeZ] at h2

/-- the point conditions hold for an input whose reference point has a negative-zero coordinate — and the OLD condition
    `ShapesUnit` fails for it -/
example : ShapesUnitZ #[fullShapeZ] ∧ CellPtsOKZ #[fullShapeZ] ∧ ¬ ShapesUnit #[fullShapeZ] := by
  refine ⟨⟨?_, ?_, ?_⟩, ⟨?_, fun c hK => absurd hK (no_edgeCell_fullShapeZ c)⟩, ?_⟩
  · intro sid hsid _
    have h0 : sid = 0 := by simpa using hsid
    subst h0
    exact ⟨[], by simp [fullShapeZ]⟩
  · intro sid hsid _ e he
    have h0 : sid = 0 := by simpa using hsid
    subst h0
    simp [fullShapeZ] at he
  · intro sid hsid _
    have h0 : sid = 0 := by simpa using hsid
    subst h0
    show PtOKZ (⟨F64.zero true, F64.one, F64.zero false⟩ : V3)
    decide +kernel
  · decide +kernel
  · intro h
    have := (h.ref 0 (by decide) rfl).1.2
    revert this
    show ¬ S2Proofs.F64Inj.NoNegZero3 (⟨F64.zero true, F64.one, F64.zero false⟩ : V3)
    decide +kernel

end S2Proofs.C06Build
