/-
  S2Proofs.Properties.C06_BuildI3 — the index invariants of the BUILT ShapeIndex (`S2.IndexBuild.build`, bit-exact
  model of s2/shapeindex.go tied to the implementation by the `c04build` correspondence check), continuing
  `C06_Build.lean`:

  * unconditional structure of every cell (`build_cell_struct`, `build_cell_facts`): every cell was filled by the merge
    loop of `makeIndexCell` from a sorted edge list and a strictly increasing tracker list — the sortedness precondition
    is threaded through the whole recursion (`S2Proofs.C06.BuildInd` is the induction principle, `BuildSorted`,
    `BuildStruct` the instances);
  * **I1 in full** (`build_I1`): `MergeComplete` is no longer a hypothesis; what remains is `ClipSound` (+ sound root
    bounds `RootSound`) and `ShrinkSound`; `ClipSound` itself is reduced to per-call facts about `clipUBound` /
    `clipVBound` (`build_I1_narrow`, `S2Proofs.C06.BuildClip`);
  * **I3** (`build_I3`): `containsCenter` of every (cell, 2-dimensional shape) pair equals the exact brute-force
    containment of the cell centre, from the named hypotheses `TrackSound` (exact geometry / locality) — the float
    parts of `TrackSound` (crosser = exact crossing, initial `containsBruteForce`) and the parity cocycle are THEOREMS
    on unit points (`build_I3_of_geom`), and its non-local clauses follow from statements about one cell each
    (`build_I3_of_local_geom`);
  * end to end (`built_index_queries_eq_bruteForce_partial`): `ContainsPointQuery` on a cell of the built index equals
    brute force over all shapes.
-/
import S2Proofs.C06.BuildI3
import S2Proofs.C06.BuildI3Hyp
import S2Proofs.C06.BuildI3Unit
import S2Proofs.C06.BuildLeafChain
import S2Proofs.C06.BuildStruct
import S2Proofs.C06.BuildClip
import S2Proofs.C06.BuildQuery
import S2Proofs.Properties.C06_Build
open S2 S2.CellID S2.PaddedCellM S2.IndexBuild S2Proofs.C06BuildH
namespace S2Proofs.C06Build

/-! ## hypotheses of I1 at the top level -/

/-- the bounds `updateFaceEdges` starts from (`RectFromPoints(a, b)` of every face edge) are sound for the root cell
    of the face -/
def RootSound (shapes : Array Shape) (BoundOK : ClippedEdge → CellID → Prop) : Prop :=
  ∀ f, f < 6 → ∀ fe ∈ faceEdgesOf (allFaceEdges shapes) f,
    BoundOK ⟨fe, rectFromPoints fe.a fe.b⟩ (rootCell f (faceEdgesOf (allFaceEdges shapes) f))

/-- the contract of `ShrinkToFit` on every face -/
def ShrinkSoundAll (shapes : Array Shape) (Meets : FaceEdge → CellID → Prop) : Prop :=
  ∀ f, f < 6 → ShrinkSound Meets f (faceEdgesOf (allFaceEdges shapes) f)

/-! ## the unconditional structure of the cells -/

/-- Every cell of the built index was filled by the merge loop of `makeIndexCell` from an input satisfying the
    precondition of the loop: `x.shapes = fillShapes n (countShapes es cs) es cs` for an edge list `es` STRICTLY
    increasing in (shape id, edge id) whose face edges point to existing shape edges, and a tracker list `cs` strictly
    increasing, below the sentinel `n = #shapes`, consisting of 2-dimensional shapes.  For every input. -/
theorem build_cell_struct (shapes : Array Shape) : ∀ x ∈ build shapes,
    ∃ (es : List ClippedEdge) (cs : List Nat),
      x.shapes = fillShapes shapes.size (countShapes es cs) es cs ∧ MergeInput shapes.size none es cs ∧
      List.Pairwise FLt (es.map (·.fe)) ∧ (∀ ce ∈ es, FEQ2 shapes ce.fe) ∧ (∀ c ∈ cs, (shapes[c]!).dim = 2) :=
  build_cellStruct shapes

/-- the merge loop of every cell of the built index drops nothing (what `MergeComplete` asked for, for the actual
    input of the loop) -/
theorem build_merge_complete (shapes : Array Shape) : ∀ x ∈ build shapes,
    ∃ (es : List ClippedEdge) (cs : List Nat), x.shapes = fillShapes shapes.size (countShapes es cs) es cs ∧
      ∀ ce ∈ es, key ce ∈ listedPairs x.shapes := by
  intro x hx
  obtain ⟨es, cs, hsh, hmi, _⟩ := build_cellStruct shapes x hx
  refine ⟨es, cs, hsh, ?_⟩
  rw [hsh]
  exact merge_loop_complete shapes.size es cs hmi

/-- Consequences for the clipped shapes of every cell, for every input: strictly increasing shape ids, all below
    `#shapes` (interior-only entries included), edge ids of each clipped shape strictly increasing and in range,
    `containsCenter = false` for points and polylines. -/
theorem build_cell_facts (shapes : Array Shape) : ∀ x ∈ build shapes,
    List.Pairwise (fun a b : Clipped => a.shapeID < b.shapeID) x.shapes ∧
    (∀ cl ∈ x.shapes, cl.shapeID < shapes.size) ∧
    (∀ cl ∈ x.shapes, List.Pairwise (fun a b : Nat => a < b) cl.edges) ∧
    (∀ cl ∈ x.shapes, ∀ e ∈ cl.edges, e < (shapes[cl.shapeID]!).edges.size) ∧
    (∀ cl ∈ x.shapes, (shapes[cl.shapeID]!).dim ≠ 2 → cl.containsCenter = false) := by
  intro x hx
  have h := (build_cellStruct shapes x hx).facts
  exact ⟨h.sorted, h.sid_lt, h.edges_sorted, h.edges_lt, h.lowDim⟩

example : build #[] = [] := by decide

/-! ## I1 in full -/

/-- **I1**: in the built index every face edge of the face of an index cell that meets (the padded cell of) that
    index cell is listed in it — from clipping soundness (`ClipSound`, `RootSound`) and the `ShrinkToFit` contract only.
    `MergeComplete` is gone: the merge loop's precondition holds at every recursion level (`build_cell_struct`). -/
theorem build_I1 (shapes : Array Shape) {Meets : FaceEdge → CellID → Prop}
    {BoundOK : ClippedEdge → CellID → Prop} (hs : ClipSound Meets BoundOK)
    (hroot : RootSound shapes BoundOK) (hshrink : ShrinkSoundAll shapes Meets) : I1 shapes Meets :=
  fun x hx f hf h1 h2 fe hfe hm => build_cellI1 shapes hs hroot hshrink x hx f hf h1 h2 fe hfe hm

/-- consistency of the hypotheses of `build_I1` (trivial instance: nothing meets anything) -/
example (shapes : Array Shape) : I1 shapes (fun _ _ => False) :=
  build_I1 shapes clipSound_trivial (fun _ _ _ _ => trivial) (fun _ _ _ _ _ _ h => h.elim)

/-- **I1 from per-call facts**: the step-level hypothesis `ClipSound` is implied by the narrow record `ClipSoundN`
    (one fact per call of `clipUBound` / `clipVBound`, four comparisons against the `middle` rectangle, monotonicity
    in the region); the case analysis of `edgeChildren` / `clipVAxis` is discharged (`clipSound_of_narrow`). -/
theorem build_I1_narrow (shapes : Array Shape) {Meets : FaceEdge → CellID → Prop}
    {BoundOK : ClippedEdge → CellID → Prop} {M : FaceEdge → CellID → Option Nat → Option Nat → Prop}
    {B : ClippedEdge → CellID → Option Nat → Option Nat → Prop} (hs : ClipSoundN Meets BoundOK M B)
    (hroot : RootSound shapes BoundOK) (hshrink : ShrinkSoundAll shapes Meets) : I1 shapes Meets :=
  build_I1 shapes (clipSound_of_narrow hs) hroot hshrink

/-! ## I3 -/

/-- **I3**: in the built index the `containsCenter` flag of every (cell, 2-dimensional shape) pair — `false` when the
    shape has no entry in the cell — equals the exact brute-force containment of the centre of the cell.
    Hypotheses: those of I1, and `TrackSound` (float crosser = exact crossing on the tracker's segments, locality of the
    tracker's segments, the parity cocycle along them, edge-free ranges of leaf cells do not change containment). -/
theorem build_I3 (shapes : Array Shape) {Meets : FaceEdge → CellID → Prop}
    {BoundOK : ClippedEdge → CellID → Prop} (hs : ClipSound Meets BoundOK)
    (hroot : RootSound shapes BoundOK) (hshrink : ShrinkSoundAll shapes Meets)
    (ht : TrackSound shapes Meets) : I3 shapes :=
  fun x hx sid hsid hdim => (build_cellI1_I3 shapes hs hroot hshrink ht x hx).2 sid hsid hdim

/-- the full polygon as a Shape: 2-dimensional, no edges, reference point contained -/
def fullShape : Shape := ⟨2, #[], ⟨F64.one, F64.zero false, F64.zero false⟩, true⟩

/-- exact containment in the full polygon: everything -/
private theorem cbf_fullShape (p : V3) : cbf #[fullShape] 0 p = true := by
  unfold cbf Contain.containsBruteForce
  simp [toShapeM, fullShape, Contain.crossParity, Contain.xorAll]

/-- the index of the full polygon lists no edge -/
private theorem no_edgeCell_fullShape (c : CellID) : ¬ IsEdgeCell #[fullShape] c := by
  rintro ⟨x, hx, _, hne⟩
  obtain ⟨pr, hpr⟩ := List.exists_mem_of_ne_nil _ hne
  unfold listedPairs at hpr
  obtain ⟨cl, hcl, hpr⟩ := List.mem_flatMap.mp hpr
  obtain ⟨e, he, _⟩ := List.mem_map.mp hpr
  obtain ⟨h1, h2⟩ := build_edge_ids_in_range #[fullShape] x hx cl hcl e he
  have h0 : cl.shapeID = 0 := by simpa using h1
  rw [h0] at h2
  simp [fullShape] at h2

/-- **non-vacuity of `TrackSound`** on an input WITH an interior: the full polygon (the tracker is active, its id list
    is `[0]` from the origin on, all six faces become interior-only cells) -/
theorem trackSound_fullShape : TrackSound #[fullShape] (fun _ _ => False) where
  init_exact := by
    intro sid hsid _
    have h0 : sid = 0 := by simpa using hsid
    subst h0
    rw [cbf_fullShape]
    unfold IndexBuild.containsBruteForce
    simp [fullShape]
  crosser_exact := fun a b c hK => absurd hK (no_edgeCell_fullShape c)
  local_ := fun a b c hK => absurd hK (no_edgeCell_fullShape c)
  parity_step := fun a b c hK => absurd hK (no_edgeCell_fullShape c)
  jump := fun f N c _ hK => absurd hK (no_edgeCell_fullShape c)
  interior := by
    intro f N c _ _ _ _ _ sid hsid _
    have h0 : sid = 0 := by simpa using hsid
    subst h0
    rw [cbf_fullShape, cbf_fullShape]

/-- I3 for the index of the full polygon, through `build_I3` (all hypotheses instantiated) -/
example : I3 #[fullShape] :=
  build_I3 #[fullShape] clipSound_trivial (fun _ _ _ _ => trivial) (fun _ _ _ _ _ _ h => h.elim) trackSound_fullShape

/-- **I3 from geometry only**: the float clauses (`init_exact`, `crosser_exact`) and the cocycle clause (`parity_step`)
    of `TrackSound` are theorems when the vertices / reference points of the 2-dimensional shapes, the tracker origin
    and the entry vertex / centre / exit vertex of the index cells WITH EDGES are unit points without negative zeros
    whose reference direction is unit-ish and different from the point (`ShapesUnit`, `CellPtsOK`: finitely many
    decidable conditions for a concrete input), and the shapes' edges are closed chains.  What remains assumed is
    `TrackGeom` (exact geometry: locality of the two segments of each index cell with edges; edge-free ranges of leaf
    cells do not change containment) besides the hypotheses of I1. -/
theorem build_I3_of_geom (shapes : Array Shape) {Meets : FaceEdge → CellID → Prop}
    {BoundOK : ClippedEdge → CellID → Prop} (hs : ClipSound Meets BoundOK)
    (hroot : RootSound shapes BoundOK) (hshrink : ShrinkSoundAll shapes Meets)
    (hg : TrackGeom shapes Meets) (hsu : ShapesUnit shapes) (hc : CellPtsOK shapes) : I3 shapes :=
  build_I3 shapes hs hroot hshrink (trackSound_of_geom shapes hg hsu hc)

/-- **I3 from LOCAL geometry**: the non-local clauses `jump` / `interior` ("a whole range of edge-free leaf cells does
    not change containment") follow, by walking the Hilbert curve leaf by leaf (exit vertex of a leaf = entry vertex of
    the next one, bitwise, across levels and faces), from two statements about ONE cell each (`TrackGeomLocal`): a leaf
    cell that no face edge meets has its entry and exit vertices in the same shapes; an index cell none of whose leaves
    is met by a face edge has its entry vertex and centre in the same shapes. -/
theorem build_I3_of_local_geom (shapes : Array Shape) {Meets : FaceEdge → CellID → Prop}
    {BoundOK : ClippedEdge → CellID → Prop} (hs : ClipSound Meets BoundOK)
    (hroot : RootSound shapes BoundOK) (hshrink : ShrinkSoundAll shapes Meets)
    (hg : TrackGeomLocal shapes Meets) (hsu : ShapesUnit shapes) (hc : CellPtsOK shapes) : I3 shapes :=
  build_I3_of_geom shapes hs hroot hshrink (trackGeom_of_local shapes hg) hsu hc

/-- `TrackGeomLocal` is satisfiable on an input with an interior (the full polygon contains every point) -/
example : TrackGeomLocal #[fullShape] (fun _ _ => False) where
  local_ := fun a b c hK => absurd hK (no_edgeCell_fullShape c)
  leaf := by
    intro l _ _ _ sid hsid _
    have h0 : sid = 0 := by simpa using hsid
    subst h0
    rw [cbf_fullShape, cbf_fullShape]
  centre := by
    intro c _ _ _ sid hsid _
    have h0 : sid = 0 := by simpa using hsid
    subst h0
    rw [cbf_fullShape, cbf_fullShape]

/-- the point conditions hold for the full polygon (reference point (1,0,0), tracker origin; no cell with edges) -/
example : ShapesUnit #[fullShape] ∧ CellPtsOK #[fullShape] := by
  refine ⟨⟨?_, ?_, ?_⟩, ?_, fun c hK => absurd hK (no_edgeCell_fullShape c)⟩
  · intro sid hsid _
    have h0 : sid = 0 := by simpa using hsid
    subst h0
    exact ⟨[], by simp [fullShape]⟩
  · intro sid hsid _ e he
    have h0 : sid = 0 := by simpa using hsid
    subst h0
    simp [fullShape] at he
  · intro sid hsid _
    have h0 : sid = 0 := by simpa using hsid
    subst h0
    show PtOK (⟨F64.one, F64.zero false, F64.zero false⟩ : V3)
    decide +kernel
  · decide +kernel

/-! ## end to end: `ContainsPointQuery` on the built index = brute force -/

/-- geometric locality for the QUERY segment centre → p of cell `x` (the same statement as `TrackSound.local_` for the
    tracker's segments): an edge of a 2-dimensional shape that crosses centre → p has a face edge on the face of `x`
    that meets (the padded cell of) `x`.  This is where "p lies in the cell" enters. -/
def QueryGeo (shapes : Array Shape) (Meets : FaceEdge → CellID → Prop) (x : IndexCell) (p : V3) : Prop :=
  ∀ sid, sid < shapes.size → (shapes[sid]!).dim = 2 → ∀ eid, eid < (shapes[sid]!).edges.size →
    Contain.edgeOrVertexCrossing Contain.exactGeo (center (fromCellID x.id)) p
      ((shapes[sid]!).edges[eid]!).1 ((shapes[sid]!).edges[eid]!).2 = true →
    ∃ f, f < 6 ∧ lo (fromFace f) ≤ lo x.id ∧ hi x.id ≤ hi (fromFace f) ∧
      ∃ fe ∈ faceEdgesOf (allFaceEdges shapes) f, fe.shapeID = sid ∧ fe.edgeID = eid ∧ Meets fe x.id

/-- a listed pair is an edge id of the cell's entry for that shape -/
private theorem mem_cellEdgeIDs_of_listed (x : IndexCell) (sid i : Nat) (h : (sid, i) ∈ listedPairs x.shapes) :
    i ∈ cellEdgeIDs x sid := by
  unfold listedPairs at h
  obtain ⟨cl, hcl, hpr⟩ := List.mem_flatMap.mp h
  obtain ⟨e, he, heq⟩ := List.mem_map.mp hpr
  have h1 : cl.shapeID = sid := congrArg Prod.fst heq
  have h2 : e = i := congrArg Prod.snd heq
  unfold cellEdgeIDs
  refine List.mem_flatMap.mpr ⟨cl, List.mem_filter.mpr ⟨hcl, by simp [h1]⟩, ?_⟩
  rw [← h2]; exact he

/-- I2 for the query point from I1 of the cell and geometric locality of the query segment -/
theorem queryLocal_of_I1 (shapes : Array Shape) {Meets : FaceEdge → CellID → Prop} (x : IndexCell)
    (hI1 : CellI1 shapes Meets x) (p : V3) (hg : QueryGeo shapes Meets x p) : QueryLocal shapes x p := by
  intro sid hsid hdim i hi hni
  cases hc : Contain.edgeOrVertexCrossing Contain.exactGeo (center (fromCellID x.id)) p
      ((shapes[sid]!).edges[i]!).1 ((shapes[sid]!).edges[i]!).2 with
  | false => rfl
  | true =>
    exfalso
    obtain ⟨f, hf, h1, h2, fe, hfe, hs1, hs2, hm⟩ := hg sid hsid hdim i hi hc
    have := hI1 f hf h1 h2 fe hfe hm
    rw [hs1, hs2] at this
    exact hni (mem_cellEdgeIDs_of_listed x sid i this)

/-- **Queries on the BUILT index = brute force** (partial: under the named hypotheses).  For every cell `x` of the built
    index and every query point `p`: `ContainsPointQuery.ContainingShapes(p)` / `Contains(p)` (semi-open vertex model),
    evaluated on `x` exactly as the query does (`cellM`: the clipped shapes resolved against their shapes, edges by id),
    return the brute-force answer over ALL shapes (listed in the cell or not), in shape-id order.
    Hypotheses: clipping soundness (`ClipSound`, `RootSound`), the `ShrinkToFit` contract, `TrackSound` (for I3),
    geometric locality of the query segment (`QueryGeo`) and the parity cocycle reference point → centre → p
    (`QueryCocycle`, a theorem for closed chains in `CocycleDomAny`: `S2Proofs.C04.parityCocycle_exact_any`).
    Missing for the unconditional statement: exactly these hypotheses. -/
theorem built_index_queries_eq_bruteForce_partial (shapes : Array Shape) {Meets : FaceEdge → CellID → Prop}
    {BoundOK : ClippedEdge → CellID → Prop} (hs : ClipSound Meets BoundOK)
    (hroot : RootSound shapes BoundOK) (hshrink : ShrinkSoundAll shapes Meets) (ht : TrackSound shapes Meets)
    (x : IndexCell) (hx : x ∈ build shapes) (p : V3) (hg : QueryGeo shapes Meets x p)
    (hco : QueryCocycle shapes x p) :
    Contain.queryContainingShapes Contain.exactGeo .semiOpen (some (cellM shapes x)) p =
      (List.range shapes.size).filter
        (fun sid => Contain.containsBruteForce Contain.exactGeo (toShapeM (shapes[sid]!)) p) ∧
    Contain.queryContains Contain.exactGeo .semiOpen (some (cellM shapes x)) p =
      (List.range shapes.size).any
        (fun sid => Contain.containsBruteForce Contain.exactGeo (toShapeM (shapes[sid]!)) p) := by
  obtain ⟨hI1, hI3⟩ := build_cellI1_I3 shapes hs hroot hshrink ht x hx
  exact query_eq_bruteForce shapes x (build_cellStruct shapes x hx).facts hI3 p
    (queryLocal_of_I1 shapes x hI1 p hg) hco

/-- the cocycle hypothesis of the end-to-end theorem is a theorem on unit points: shapes as in `ShapesUnit`, centre of
    the cell and query point `PtOK` -/
theorem queryCocycle_of_ptOK (shapes : Array Shape) (hsu : ShapesUnit shapes) (x : IndexCell) (p : V3)
    (hc : PtOK (center (fromCellID x.id))) (hp : PtOK p) : QueryCocycle shapes x p := by
  intro sid hsid hdim
  obtain ⟨chains, hch⟩ := hsu.chains sid hsid hdim
  rw [hch]
  apply S2Proofs.C04.parityCocycle_exact_any
  apply cocycleDomAny_of_ptOK (hsu.ref sid hsid hdim) hc hp
  intro vs hvs v hv
  obtain ⟨e, he, rfl⟩ := mem_loopEdges_of_mem hv
  have hmem : e ∈ (shapes[sid]!).edges.toList := by
    rw [hch]; exact List.mem_flatMap.mpr ⟨vs, hvs, he⟩
  exact (hsu.edges sid hsid hdim e hmem).1

/-- the hypotheses of the end-to-end theorem are satisfiable on an input with an interior: the full polygon, any cell
    of its index, any query point -/
example (x : IndexCell) (hx : x ∈ build #[fullShape]) (p : V3) :
    Contain.queryContains Contain.exactGeo .semiOpen (some (cellM #[fullShape] x)) p = true := by
  have hg : QueryGeo #[fullShape] (fun _ _ => False) x p := by
    intro sid hsid _ eid heid
    have h0 : sid = 0 := by simpa using hsid
    subst h0
    simp [fullShape] at heid
  have hco : QueryCocycle #[fullShape] x p := by
    intro sid hsid _
    have h0 : sid = 0 := by simpa using hsid
    subst h0
    unfold S2Proofs.C04.ParityCocycle
    simp [fullShape, Contain.crossParity, Contain.xorAll]
  rw [(built_index_queries_eq_bruteForce_partial #[fullShape] clipSound_trivial (fun _ _ _ _ => trivial)
    (fun _ _ _ _ _ _ h => h.elim) trackSound_fullShape x hx p hg hco).2]
  have := cbf_fullShape p
  unfold cbf at this
  simp only [List.any_eq_true, List.mem_range]
  exact ⟨0, by decide, this⟩

end S2Proofs.C06Build
