/-
  S2Proofs.Properties.C06_ClipFloat — index invariant I1 of the BUILT ShapeIndex (`S2.IndexBuild.build`, bit-exact model of
  s2/shapeindex.go) for REAL geometry in (u,v) face coordinates, with NO clipping hypothesis left.

    Meets fe c   := `MeetsReal fe c` : the exact (real) segment between the float uv endpoints `fe.a`, `fe.b` of the face edge
                    meets the uv-rectangle of the cell `c` (the float boundaries `stToUV(k/2^30)` the implementation uses)
                    expanded by `cellPadding − 4·dblEpsilon`.  It is implied by "the exact segment meets the unpadded cell"
                    (`meetsCell_implies_meetsReal`) — that is what the queries need.
    BoundOK ce c := `BoundOKR ce c`  : `ce.bound` is finite, non-empty, inside the bounding rectangle of the endpoints, and
                    contains every point of the exact segment that lies in the float padded cell, up to `epsClip`
                    (`= 3·dblEpsilon + 2^-80`, the interpolation error).

  (1) `interpolateFloat64_error_documented` / `_padded` : the value of `interpolateFloat64` against the exact interpolation
  (2) `clipSoundN_float`     : all `ClipSoundNG` fields (per call of `clipUBound` / `clipVBound`, the four comparisons)
  (3) `rootSound_float`      : `RectFromPoints(a, b)` is a sound root bound
  (4) `shrinkSound_float`    : the contract of `ShrinkToFit` (float round trip uv → st → ij with the 1.5·dblEpsilon fudge,
                               xor / msb level computation, Hilbert bijection)
  (5) `build_I1_float`       : `I1 shapes MeetsReal`, under the ONLY remaining hypothesis `FaceEdgesOK shapes`
                               (the uv endpoints `ClipToPaddedFace` / the `maxUV` fast path produced are finite and within
                               `1 + 2^-40` of the origin in each coordinate — a decidable condition on the input).

  Repairs of the hypothesis records of `C06_BuildI3.lean` (both were too strong to be instantiable with real geometry, see
  `S2Proofs/C06Clip/Defs.lean`): the per-call facts carry the guard `pre = true → level 0` (`ClipSoundNG`), and the
  `ShrinkToFit` contract is restricted to cells of the face (`ShrinkSoundF`); `build_I1_guarded` re-proves I1 from them.
-/
import S2Proofs.C06Clip.ClipFields
import S2Proofs.C06Clip.Guarded
import S2Proofs.C06Clip.Shrink
import S2Proofs.C06Clip.ShrinkIJ
import S2Proofs.C06Clip.RoundTrip
import S2Proofs.C06Clip.Interp
import S2Proofs.C06Clip.Check
import S2Proofs.FloatErr2.Normal

namespace S2Proofs.C06Clip
open S2 S2.CellID S2.Hilbert S2.PaddedCellM S2.IndexBuild S2Proofs.F64Order S2Proofs.C06BuildH S2Proofs.C06Build

/-! ## the only hypothesis left -/

/-- every face edge the builder created has finite uv endpoints within `1 + 2^-40` of the origin in both coordinates -/
def FaceEdgesOK (shapes : Array Shape) : Prop :=
  ∀ f, f < 6 → ∀ fe ∈ faceEdgesOf (allFaceEdges shapes) f, FaceEdgeOK fe

/-! ## (0) what `Meets` means -/

/-- an exact segment that meets the unpadded uv-rectangle of the cell `Meets` it -/
theorem meetsCell_implies_meetsReal (fe : FaceEdge) (c : CellID) (h : MeetsCell fe c) : MeetsReal fe c :=
  meetsReal_of_meetsCell h

/-- the padding `Meets` keeps is at least `13·dblEpsilon`; what it gives up (`4·dblEpsilon`) exceeds the interpolation
    error (`epsClip`) plus the rounding error of `mid ± cellPadding` (`rho`) -/
theorem padding_budget : 13 * dblEps ≤ meetPad ∧ rho + epsClip < clipSlack ∧ meetPad + clipSlack = padR := by
  refine ⟨?_, budget, by unfold meetPad; ring⟩
  have := padR_lo
  unfold meetPad clipSlack
  linarith

/-! ## (1) `interpolateFloat64` -/

/-- **the documented constant** `edgeClipErrorUVCoord = 2.25·dblEpsilon`: for finite coordinates in `[-1,1]`, `x` between
    `a` and `b` (which are at least `2^-200` apart, so that no underflow in `(b1-a1)*(x-a)` can be amplified by the
    division), the value of `interpolateFloat64(x, a, b, a1, b1)` is finite and within `2.25·dblEpsilon + 2^-100` of the exact
    linear interpolation (the `2^-100` covers the second-order terms; the first-order bound 4.5·2^-53 is the documented one) -/
theorem interpolateFloat64_error_documented (x a b a1 b1 : F64) (hx : Fin x) (ha : Fin a) (hb : Fin b) (ha1 : Fin a1)
    (hb1 : Fin b1) (ma : |rv a| ≤ 1) (mb : |rv b| ≤ 1) (ma1 : |rv a1| ≤ 1) (mb1 : |rv b1| ≤ 1)
    (hbtw : (rv a ≤ rv x ∧ rv x ≤ rv b) ∨ (rv b ≤ rv x ∧ rv x ≤ rv a))
    (hw : 1 / 2 ^ 200 ≤ |rv b - rv a|) :
    Fin (interpolateFloat64 x a b a1 b1) ∧
    |rv (interpolateFloat64 x a b a1 b1) - interpR (rv x) (rv a) (rv b) (rv a1) (rv b1)| ≤ 9 / 4 * dblEps + 1 / 2 ^ 100 :=
  interpolateFloat64_err x a b a1 b1 hx ha hb ha1 hb1 ma mb ma1 mb1 hbtw hw

/-- the same for coordinates in the PADDED face `[-(1+2^-40), 1+2^-40]` (what the index builder feeds it: face edges are
    clipped to `[-(1+cellPadding), 1+cellPadding]²`): `3·dblEpsilon + 2^-80`.  This is the bound I1 uses (`epsClip`). -/
theorem interpolateFloat64_error_padded (x a b a1 b1 : F64) (hx : Fin x) (ha : CoordOK a) (hb : CoordOK b)
    (ha1 : CoordOK a1) (hb1 : CoordOK b1)
    (hbtw : (rv a ≤ rv x ∧ rv x ≤ rv b) ∨ (rv b ≤ rv x ∧ rv x ≤ rv a))
    (hw : 1 / 2 ^ 200 ≤ |rv b - rv a|) :
    Fin (interpolateFloat64 x a b a1 b1) ∧
    |rv (interpolateFloat64 x a b a1 b1) - interpR (rv x) (rv a) (rv b) (rv a1) (rv b1)| ≤ epsClip :=
  interpolateFloat64_err_pad x a b a1 b1 hx ha hb ha1 hb1 hbtw hw

/-- endpoint exactness ("If x == a, then x1 = a1 (exactly); if x == b, then x1 = b1 (exactly)"), as values -/
theorem interpolateFloat64_endpoints (x a b a1 b1 : F64) (hx : Fin x) (ha : Fin a) (hb : Fin b)
    (ha1 : CoordOK a1) (hb1 : CoordOK b1) (hab : rv a ≠ rv b) :
    (rv x = rv a → rv (interpolateFloat64 x a b a1 b1) = rv a1) ∧
    (rv x = rv b → rv (interpolateFloat64 x a b a1 b1) = rv b1) :=
  ⟨interpolateFloat64_at_a x a b a1 b1 hx ha hb ha1 hb1 hab, interpolateFloat64_at_b x a b a1 b1 hx ha hb ha1 hb1 hab⟩

/-- non-vacuity: a = -0.5, b = 0.5, x = 0.1, a1 = -1, b1 = 1 -/
example : Fin (interpolateFloat64 ⟨0x3FB999999999999A⟩ ⟨0xBFE0000000000000⟩ ⟨0x3FE0000000000000⟩
    ⟨0xBFF0000000000000⟩ ⟨0x3FF0000000000000⟩) := by decide +kernel

/-- ONE call `clipUBound(edge, uEnd, x)` including its clamping (`ClampPoint` of the interpolated value into the old
    v-interval): the new bound is well-formed and keeps, up to `epsClip`, every point of the exact segment on the kept
    side of `x` that the old bound contained up to `epsClip` — the error does not accumulate over the levels. -/
theorem clipUBound_call_sound (ce : ClippedEdge) (hw : WfCE ce) (uEnd : Nat) (hE : uEnd = 0 ∨ uEnd = 1) (x : F64)
    (hx : Fin x) (hx49 : 1 / 2 ^ 49 ≤ |rv x|) (hlo : rv ce.bound.1.1 < rv x) (hhi : rv x < rv ce.bound.1.2) :
    WfCE (clipUBound ce uEnd x) ∧
    ∀ t : ℝ, 0 ≤ t → t ≤ 1 → (uEnd = 1 → segU ce.fe t ≤ rv x) → (uEnd = 0 → rv x ≤ segU ce.fe t) →
      Within ce.bound (segU ce.fe t) (segV ce.fe t) →
      Within (clipUBound ce uEnd x).bound (segU ce.fe t) (segV ce.fe t) :=
  clipUBound_sound ce hw uEnd hE x hx hx49 hlo hhi

/-- the same for `clipVBound(edge, vEnd, x)` -/
theorem clipVBound_call_sound (ce : ClippedEdge) (hw : WfCE ce) (vEnd : Nat) (hE : vEnd = 0 ∨ vEnd = 1) (x : F64)
    (hx : Fin x) (hx49 : 1 / 2 ^ 49 ≤ |rv x|) (hlo : rv ce.bound.2.1 < rv x) (hhi : rv x < rv ce.bound.2.2) :
    WfCE (clipVBound ce vEnd x) ∧
    ∀ t : ℝ, 0 ≤ t → t ≤ 1 → (vEnd = 1 → segV ce.fe t ≤ rv x) → (vEnd = 0 → rv x ≤ segV ce.fe t) →
      Within ce.bound (segU ce.fe t) (segV ce.fe t) →
      Within (clipVBound ce vEnd x).bound (segU ce.fe t) (segV ce.fe t) :=
  clipVBound_sound ce hw vEnd hE x hx hx49 hlo hhi

/-! ## (2) the per-call clipping facts -/

/-- every `ClipSoundNG` field holds for the real geometry: whatever `clipUBound` / `clipVBound` hand to a child is a sound
    bound for the child's region, and an edge whose exact segment meets a child's (reduced-padding) region is not dropped
    by the comparisons against `Middle()` -/
theorem clipSoundN_float : ClipSoundNG MeetsReal BoundOKR MR BR := clipSoundNG_real

/-! ## (3) the root bound -/

/-- `RectFromPoints(a, b)` is a sound bound of the exact segment, for every root cell -/
theorem rootSound_float (shapes : Array Shape) (h : FaceEdgesOK shapes) : RootSound shapes BoundOKR := by
  intro f hf fe hfe
  obtain ⟨hw, hin⟩ := root_sound fe (h f hf fe hfe)
  exact ⟨hw, fun _ t h0 h1 _ => hin t h0 h1⟩

/-! ## (4) `ShrinkToFit` -/

/-- no face edge meets a cell of its face that is disjoint from the root cell `ShrinkToFit` chose -/
theorem shrinkSound_float (shapes : Array Shape) (h : FaceEdgesOK shapes) :
    ∀ f, f < 6 → ShrinkSoundF MeetsReal f (faceEdgesOf (allFaceEdges shapes) f) :=
  fun f hf => shrinkSoundF_real roundTripGe roundTripLt shrinkIJCovers f hf _ (h f hf)

/-! ## (5) I1 -/

/-- **I1 for real geometry, no clipping hypothesis**: in the built index, every face edge of the face of an index cell whose
    exact uv segment meets the cell's uv-rectangle expanded by `cellPadding − 4·dblEpsilon` is listed in that cell. -/
theorem build_I1_float (shapes : Array Shape) (h : FaceEdgesOK shapes) : I1 shapes MeetsReal :=
  build_I1_guarded shapes clipSoundN_float (rootSound_float shapes h) (shrinkSound_float shapes h)

/-- the form the queries use: an edge whose exact uv segment meets the (unpadded) cell is listed in it -/
theorem build_I1_cell (shapes : Array Shape) (h : FaceEdgesOK shapes) : I1 shapes MeetsCell :=
  fun x hx f hf h1 h2 fe hfe hm =>
    build_I1_float shapes h x hx f hf h1 h2 fe hfe (meetsReal_of_meetsCell hm)

/-- I1 from the decidable check of the face edges (evaluate `faceEdgesOKb shapes` for a concrete input) -/
theorem build_I1_float_checked (shapes : Array Shape) (h : faceEdgesOKb shapes = true) : I1 shapes MeetsReal :=
  build_I1_float shapes (fun f _ fe hfe => faceEdgeOK_of_all h f fe hfe)

/-! ## non-vacuity on a concrete input -/

/-- one polyline with two edges: (1, .25, .25) → (1, .5, .375) inside face 0 (the `maxUV` fast path) and
    (1, .5, .1) → (.5, 1, .1) from face 0 to face 1 (`ClipToPaddedFace` on all six faces; 3 face edges in total) -/
def exShapes : Array Shape :=
  #[⟨1, #[(⟨⟨0x3FF0000000000000⟩, ⟨0x3FD0000000000000⟩, ⟨0x3FD0000000000000⟩⟩,
           ⟨⟨0x3FF0000000000000⟩, ⟨0x3FE0000000000000⟩, ⟨0x3FD8000000000000⟩⟩),
          (⟨⟨0x3FF0000000000000⟩, ⟨0x3FE0000000000000⟩, ⟨0x3FB999999999999A⟩⟩,
           ⟨⟨0x3FE0000000000000⟩, ⟨0x3FF0000000000000⟩, ⟨0x3FB999999999999A⟩⟩)],
     ⟨⟨0x3FF0000000000000⟩, ⟨0⟩, ⟨0⟩⟩, false⟩]

/-- the hypothesis of `build_I1_float` holds for it (kernel evaluation of the soft-float face clipping) -/
theorem exShapes_ok : faceEdgesOKb exShapes = true := by decide +kernel

example : (allFaceEdges exShapes).length = 3 := by decide +kernel

/-- I1 of its index, all hypotheses discharged -/
example : I1 exShapes MeetsReal := build_I1_float_checked exShapes exShapes_ok

/-- the face edge of the first edge on face 0: (0.25, 0.25) → (0.5, 0.375) -/
def exFE : FaceEdge :=
  { shapeID := 0, edgeID := 0, maxLevel := 30, hasInterior := false,
    a := (⟨0x3FD0000000000000⟩, ⟨0x3FD0000000000000⟩), b := (⟨0x3FE0000000000000⟩, ⟨0x3FD8000000000000⟩),
    v0 := default, v1 := default }

/-- `MeetsCell` (hence `MeetsReal`) is satisfiable: that segment meets the uv-square `[-1,1]²` of the face cell 0 -/
example : MeetsReal exFE (fromFace 0) := by
  apply meetsReal_of_meetsCell
  have hq : rv (⟨0x3FD0000000000000⟩ : F64) = 1 / 4 := by
    have : S2.Exact.toInt (⟨0x3FD0000000000000⟩ : F64) = 2 ^ 1072 := by decide +kernel
    unfold rv S2Proofs.FloatErr.val
    rw [this]; push_cast
    rw [show (2 : ℝ) ^ 1074 = 2 ^ 1072 * 4 by rw [show (4 : ℝ) = 2 ^ 2 by norm_num, ← pow_add]]
    field_simp
  have hI : (fromCellID (fromFace 0)).iLo = 0 ∧ (fromCellID (fromFace 0)).jLo = 0 ∧
      sizeIJ (fromCellID (fromFace 0)).level = 2 ^ 30 := by decide +kernel
  have h0 : UG 0 = -1 := by
    unfold UG
    rw [S2Proofs.C12M.stToUV_g_zero]
    show S2Proofs.FloatErr.val (F64.neg F64.one) = -1
    rw [S2Proofs.FloatErr.val_neg, S2Proofs.FE2.val_one']
  have h1 : UG (2 ^ 30) = 1 := by
    unfold UG
    rw [S2Proofs.C12M.stToUV_g_one]
    exact S2Proofs.FE2.val_one'
  refine ⟨0, le_refl _, by norm_num, ?_, ?_, ?_, ?_⟩ <;>
    simp only [cellULo, cellUHi, cellVLo, cellVHi, hI.1, hI.2.1, hI.2.2, Nat.zero_add, h0, h1, segU, segV, exFE, hq] <;>
    norm_num

/-- non-vacuity of the hypothesis: an index without edges -/
example : FaceEdgesOK #[] := by
  intro f _ fe hfe
  have : allFaceEdges #[] = [] := by decide
  rw [this] at hfe
  simp [faceEdgesOf] at hfe

end S2Proofs.C06Clip
