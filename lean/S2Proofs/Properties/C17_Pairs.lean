/-
  Property C17 — EDGE PAIRS and the MAXIMUM DISTANCE THROUGH THE ANTIPODE
  (s2/edge_distances.go: updateEdgePairMinDistance, UpdateMaxDistance, updateEdgePairMaxDistance).

  Exact objects (ℝ³, directions of float points; `OnArc (vecR a) (vecR b) P` = `P` is a unit vector of the closed cone spanned
  by `a`, `b`, i.e. a point of the arc; all from c17err):
     `trueDist2 x a b`      squared chord from the direction of x to the arc ab (closed form, proved minimal in C17_Error)
     `pairMin4 a0 a1 b0 b1` the least of the four endpoint-to-arc values      `ArcsMeet`  the arcs have a common point
     `truePairDist2`        0 if the arcs meet, else `pairMin4`
     `trueMaxDist2 x a b`   4 − trueDist2 (−x) a b

  PROVED
   (1) EXACT GEOMETRY of `updateEdgePairMinDistance`
        edgePair_lower            ∀ P ∈ arc A, Q ∈ arc B :  the arcs meet  ∨  pairMin4 ≤ chord²(P,Q)
        edgePair_attained         some pair of arc points (one of them an endpoint) realises pairMin4
        truePairDist2_is_min      `truePairDist2` is the minimum of chord² over arc A × arc B
        properCross_zero          the four-determinant crossing pattern ⇒ the arcs meet ⇒ the minimum is 0
   (2) `UpdateMaxDistance`
        trueMaxDist2_is_max'      `4 − minDist(−x)` IS the maximum of chord²(x, ·) over the arc (antipode rule, exact)
        trueMaxDist2_acute        within 90° of both endpoints the maximum is the larger endpoint chord
        maxCandidate_far          float: branch through the antipode: |cand − trueMax| ≤ allowedError(−x,a,b) + 5u
        maxCandidate_near         float: other branch, x within 90° of both endpoints: |cand − trueMax| ≤ MaxPointError(cand)
        nearBranch_class          float: other branch ⇒ true larger endpoint chord ≤ 2 + 2^-51
        updateMaxDistance_value   the returned value is the old one or the candidate, whichever is larger
       The class NOT covered is therefore exactly: branch skipped although the farther endpoint is beyond 90° by at most 2^-51
       in squared chord (finding F10/D41 `maxdist-rightangle`, shrunk to one ulp by the repair `Expanded(MaxPointError)`).
   (3) float `updateEdgePairMinDistance` : see section 3.
-/
import S2Proofs.C17Pairs.MaxFloat

set_option linter.unusedSimpArgs false
set_option linter.unusedVariables false

namespace S2Proofs.C17
open S2 S2.Exact S2.EdgeNum S2Proofs.F64Order S2Proofs.EdgeNumLemmas S2Proofs.FloatErr S2Proofs.C17Err S2Proofs.C17Pairs

/-! ## 1. exact geometry of the edge-pair minimum -/

/-- **endpoint rule, lower bound**: two points of two arcs are never nearer to each other than the nearest of the four
    endpoint-to-arc distances — unless the arcs have a common point. -/
theorem edgePair_lower (a0 a1 b0 b1 : V3) (ha0 : UnitPt a0) (ha1 : UnitPt a1) (hb0 : UnitPt b0) (hb1 : UnitPt b1)
    (hB : NotAntipodal (vecR b0) (vecR b1)) (P Q : R3)
    (hP : OnArc (vecR a0) (vecR a1) P) (hQ : OnArc (vecR b0) (vecR b1) Q) :
    ArcsMeet a0 a1 b0 b1 ∨ pairMin4 a0 a1 b0 b1 ≤ chordPQ P Q :=
  pairMin4_le ha0.len_pos ha1.len_pos hb0.len_pos hb1.len_pos hB hP hQ

/-- **endpoint rule, attained**: the least endpoint-to-arc distance is the distance of some pair of arc points. -/
theorem edgePair_attained (a0 a1 b0 b1 : V3) (ha0 : UnitPt a0) (ha1 : UnitPt a1) (hb0 : UnitPt b0) (hb1 : UnitPt b1) :
    ∃ P Q, OnArc (vecR a0) (vecR a1) P ∧ OnArc (vecR b0) (vecR b1) Q ∧ chordPQ P Q = pairMin4 a0 a1 b0 b1 :=
  pairMin4_attained ha0.len_pos ha1.len_pos hb0.len_pos hb1.len_pos

/-- **the exact edge-pair distance**: `truePairDist2` (0 if the arcs meet, else the least of the four endpoint-to-arc
    distances) is the minimum of the squared chord over all pairs of arc points. -/
theorem truePairDist2_is_min (a0 a1 b0 b1 : V3) (ha0 : UnitPt a0) (ha1 : UnitPt a1) (hb0 : UnitPt b0) (hb1 : UnitPt b1)
    (hB : NotAntipodal (vecR b0) (vecR b1)) :
    (∀ P Q, OnArc (vecR a0) (vecR a1) P → OnArc (vecR b0) (vecR b1) Q → truePairDist2 a0 a1 b0 b1 ≤ chordPQ P Q) ∧
    (∃ P Q, OnArc (vecR a0) (vecR a1) P ∧ OnArc (vecR b0) (vecR b1) Q ∧ chordPQ P Q = truePairDist2 a0 a1 b0 b1) :=
  truePairDist2_min ha0.len_pos ha1.len_pos hb0.len_pos hb1.len_pos hB

/-- the crossing pattern of the four determinants (b0, b1 strictly on opposite sides of the plane of A; a0, a1 strictly on
    opposite sides of the plane of B; orientation that excludes the antipodal crossing) -/
def ProperCross (a0 a1 b0 b1 : V3) : Prop := ProperCrossR (vecR a0) (vecR a1) (vecR b0) (vecR b1)

/-- **crossing arcs are at distance 0** -/
theorem properCross_zero (a0 a1 b0 b1 : V3) (h : ProperCross a0 a1 b0 b1) :
    ArcsMeet a0 a1 b0 b1 ∧ truePairDist2 a0 a1 b0 b1 = 0 := by
  have hm : ArcsMeet a0 a1 b0 b1 := proper_cross_meets h
  refine ⟨hm, ?_⟩
  unfold truePairDist2
  rw [if_pos hm]

/-! ## 2. `UpdateMaxDistance` -/

/-- **antipode rule (exact)**: `4 − minDist(−x, ab)` is the maximum of the squared chord from `x` over the arc. -/
theorem trueMaxDist2_is_max' (x a b : V3) (hx : UnitPt x) (ha : UnitPt a) (hb : UnitPt b) :
    (∀ P, OnArc (vecR a) (vecR b) P → dirChordP x P ≤ trueMaxDist2 x a b) ∧
    (∃ P, OnArc (vecR a) (vecR b) P ∧ dirChordP x P = trueMaxDist2 x a b) :=
  trueMaxDist2_is_max hx.1 hx.len_pos ha.len_pos hb.len_pos

/-- **within 90° of both endpoints the maximum is the larger endpoint chord** (exact) -/
theorem trueMaxDist2_acute (x a b : V3) (hx : UnitPt x) (ha : UnitPt a) (hb : UnitPt b)
    (h : maxEndpointTrue x a b ≤ 2) : trueMaxDist2 x a b = maxEndpointTrue x a b :=
  trueMaxDist2_of_acute hx.1 hx.len_pos ha.len_pos hb.len_pos (le_trans (le_max_left _ _) h) (le_trans (le_max_right _ _) h)

/-- **float, branch through the antipode** -/
theorem maxCandidate_far (x a b : V3) (hx : UnitPt x) (ha : UnitPt a) (hb : UnitPt b) (hE : EdgeOK a b)
    (hM : WedgeMargin (negV x) a b) (hbr : beyondRightAngle x a b = true) :
    Fin (maxCandidate x a b) ∧
    |fval (maxCandidate x a b) - trueMaxDist2 x a b| ≤ allowedError (negV x) a b + 5 * uR := by
  rw [fval_eq_val]; exact maxCandidate_far_bound hx ha hb hE hM hbr

/-- **float, the other branch**, for `x` within 90° of both endpoints -/
theorem maxCandidate_near' (x a b : V3) (hx : UnitPt x) (ha : UnitPt a) (hb : UnitPt b)
    (hbr : beyondRightAngle x a b = false) (hacute : maxEndpointTrue x a b ≤ 2) :
    Fin (maxCandidate x a b) ∧
    |fval (maxCandidate x a b) - trueMaxDist2 x a b| ≤ fval (maxPointError (maxCandidate x a b)) := by
  rw [fval_eq_val, fval_eq_val]; exact maxCandidate_near_bound hx ha hb hbr hacute

/-- **the class the two theorems leave open**: branch skipped ⇒ the true larger endpoint chord is ≤ 2 + 2^-51. -/
theorem nearBranch_class (x a b : V3) (hx : UnitPt x) (ha : UnitPt a) (hb : UnitPt b)
    (hbr : beyondRightAngle x a b = false) : maxEndpointTrue x a b ≤ 2 + 1 / 2 ^ 51 :=
  near_branch_class hx ha hb hbr

/-- the statement for ALL inputs of the domain, which is open exactly on the class above -/
def MaxDistanceWithinBound : Prop :=
  ∀ x a b, UnitPt x → UnitPt a → UnitPt b → EdgeOK a b → WedgeMargin (negV x) a b →
    |fval (maxCandidate x a b) - trueMaxDist2 x a b|
      ≤ max (allowedError (negV x) a b + 5 * uR) (fval (maxPointError (maxCandidate x a b)))

/-- **partial**: everything except `2 < maxEndpointTrue ≤ 2 + 2^-51` with the branch skipped.  (There the true maximum can
    lie in the interior of a nearly antipodal edge; no witness was found, see DELIVER.) -/
theorem maxDistanceWithinBound_partial (x a b : V3) (hx : UnitPt x) (ha : UnitPt a) (hb : UnitPt b) (hE : EdgeOK a b)
    (hM : WedgeMargin (negV x) a b)
    (hcls : ¬ (beyondRightAngle x a b = false ∧ 2 < maxEndpointTrue x a b)) :
    |fval (maxCandidate x a b) - trueMaxDist2 x a b|
      ≤ max (allowedError (negV x) a b + 5 * uR) (fval (maxPointError (maxCandidate x a b))) := by
  cases hbr : beyondRightAngle x a b
  · have hac : maxEndpointTrue x a b ≤ 2 := by
      by_contra hc
      exact hcls ⟨hbr, not_le.mp hc⟩
    exact le_trans (maxCandidate_near' x a b hx ha hb hbr hac).2 (le_max_right _ _)
  · exact le_trans (maxCandidate_far x a b hx ha hb hE hM hbr).2 (le_max_left _ _)

/-- `UpdateMaxDistance` returns the candidate when it exceeds the old value, else the old value -/
theorem updateMaxDistance_value (x a b : V3) (m : F64) (hm : Fin m) (hc : Fin (maxCandidate x a b)) :
    fval (updateMaxDistance x a b m).1 = max (fval m) (fval (maxCandidate x a b)) := by
  rw [updateMaxDistance_eq, fval_eq_val, fval_eq_val]
  split_ifs with h
  · have := (lt_val hm hc).mp h
    rw [fval_eq_val, max_eq_right this.le]
  · have : ¬ (val m < val (maxCandidate x a b)) := fun hh => h ((lt_val hm hc).mpr hh)
    rw [fval_eq_val, max_eq_left (not_lt.mp this)]

/-! ## decidable forms, non-vacuity -/

/-- `NotAntipodal` as an integer condition -/
def NotAntipodalZ (a b : V3) : Prop := 0 < ((ofV3 a).cross (ofV3 b)).norm2 ∨ 0 < (ofV3 a).dot (ofV3 b)

instance (a b : V3) : Decidable (NotAntipodalZ a b) := by unfold NotAntipodalZ; infer_instance

theorem notAntipodal_of_int {a b : V3} (h : NotAntipodalZ a b) : NotAntipodal (vecR a) (vecR b) := by
  have e1 : ((vecR a).cross (vecR b)).n2 = ((((ofV3 a).cross (ofV3 b)).norm2 : ℤ) : ℝ) / (2 ^ 1074) ^ 4 := by
    unfold R3.n2 R3.dot R3.cross vecR IV3.norm2 IV3.dot IV3.cross ofV3 val
    push_cast; field_simp; ring
  have e2 : (vecR a).dot (vecR b) = ((((ofV3 a).dot (ofV3 b)) : ℤ) : ℝ) / (2 ^ 1074) ^ 2 := by
    unfold R3.dot vecR IV3.dot ofV3 val
    push_cast; field_simp; ring
  rcases h with h | h
  · left; rw [e1]; exact div_pos (by exact_mod_cast h) (by positivity)
  · right; rw [e2]; exact div_pos (by exact_mod_cast h) (by positivity)

/-- `ProperCross` as an integer condition -/
def ProperCrossZ (a0 a1 b0 b1 : V3) : Prop :=
  (ofV3 b0).dot ((ofV3 a0).cross (ofV3 a1)) * (ofV3 b1).dot ((ofV3 a0).cross (ofV3 a1)) < 0 ∧
  (ofV3 a0).dot ((ofV3 b0).cross (ofV3 b1)) * (ofV3 a1).dot ((ofV3 b0).cross (ofV3 b1)) < 0 ∧
  0 < (ofV3 a0).dot ((ofV3 b0).cross (ofV3 b1)) * (ofV3 b1).dot ((ofV3 a0).cross (ofV3 a1))

instance (a0 a1 b0 b1 : V3) : Decidable (ProperCrossZ a0 a1 b0 b1) := by unfold ProperCrossZ; infer_instance

theorem det_int (p a b : V3) :
    (vecR p).dot ((vecR a).cross (vecR b)) = ((((ofV3 p).dot ((ofV3 a).cross (ofV3 b))) : ℤ) : ℝ) / (2 ^ 1074) ^ 3 := by
  unfold R3.dot R3.cross vecR IV3.dot IV3.cross ofV3 val
  push_cast; field_simp; ring

theorem properCross_of_int {a0 a1 b0 b1 : V3} (h : ProperCrossZ a0 a1 b0 b1) : ProperCross a0 a1 b0 b1 := by
  obtain ⟨h1, h2, h3⟩ := h
  unfold ProperCross ProperCrossR
  rw [det_int b0 a0 a1, det_int b1 a0 a1, det_int a0 b0 b1, det_int a1 b0 b1]
  have hp : (0 : ℝ) < (2 ^ 1074) ^ 3 := by positivity
  have key : ∀ I J : ℤ, ((I : ℝ) / (2 ^ 1074) ^ 3) * ((J : ℝ) / (2 ^ 1074) ^ 3)
      = ((I * J : ℤ) : ℝ) / ((2 ^ 1074) ^ 3 * (2 ^ 1074) ^ 3) := by
    intro I J; push_cast; field_simp
  have hpp : (0 : ℝ) < (2 ^ 1074) ^ 3 * (2 ^ 1074) ^ 3 := by positivity
  rw [key, key, key]
  refine ⟨?_, ?_, ?_⟩
  · exact div_neg_of_neg_of_pos (by exact_mod_cast h1) hpp
  · exact div_neg_of_neg_of_pos (by exact_mod_cast h2) hpp
  · exact div_pos (by exact_mod_cast h3) hpp

/-- sample edges: A = (1,0,0)–(0,1,0);  B = pole–(2/3,2/3,1/3) (does not meet A);  C = (1,1,1)–(1,1,−1) (crosses A) -/
def exC0 : V3 := ⟨⟨0x3FE279A74590331C⟩, ⟨0x3FE279A74590331C⟩, ⟨0x3FE279A74590331C⟩⟩   -- (1,1,1)/√3 rounded
def exC1 : V3 := ⟨⟨0x3FE279A74590331C⟩, ⟨0x3FE279A74590331C⟩, ⟨0xBFE279A74590331C⟩⟩

example : UnitPtZ exA ∧ UnitPtZ exB ∧ UnitPtZ exP ∧ UnitPtZ exX ∧ UnitPtZ exC0 ∧ UnitPtZ exC1 ∧
    NotAntipodalZ exP exX ∧ NotAntipodalZ exC0 exC1 ∧ ProperCrossZ exA exB exC0 exC1 ∧ ¬ ProperCrossZ exA exB exP exX := by
  decide +kernel

/-- the geometry theorems instantiated: the pair A, B -/
example : (∀ P Q, OnArc (vecR exA) (vecR exB) P → OnArc (vecR exP) (vecR exX) Q →
      truePairDist2 exA exB exP exX ≤ chordPQ P Q) := by
  have h : UnitPtZ exA ∧ UnitPtZ exB ∧ UnitPtZ exP ∧ UnitPtZ exX ∧ NotAntipodalZ exP exX := by decide +kernel
  obtain ⟨h1, h2, h3, h4, h5⟩ := h
  exact (truePairDist2_is_min exA exB exP exX (unitPt_of_int h1) (unitPt_of_int h2) (unitPt_of_int h3) (unitPt_of_int h4)
    (notAntipodal_of_int h5)).1

/-- … and the crossing pair A, C has distance 0 -/
example : truePairDist2 exA exB exC0 exC1 = 0 :=
  (properCross_zero exA exB exC0 exC1 (properCross_of_int (by decide +kernel))).2

/-- "within 90° of both endpoints" as an integer condition -/
def AcuteZ (x a b : V3) : Prop := 0 ≤ (ofV3 x).dot (ofV3 a) ∧ 0 ≤ (ofV3 x).dot (ofV3 b)

instance (x a b : V3) : Decidable (AcuteZ x a b) := by unfold AcuteZ; infer_instance

theorem acute_of_int {x a b : V3} (hx : UnitPt x) (ha : UnitPt a) (hb : UnitPt b) (h : AcuteZ x a b) :
    maxEndpointTrue x a b ≤ 2 := by
  have e : ∀ p : V3, dotR x p = ((((ofV3 x).dot (ofV3 p)) : ℤ) : ℝ) / (2 ^ 1074) ^ 2 := by
    intro p
    unfold dotR IV3.dot ofV3 val
    push_cast; field_simp; ring
  have key : ∀ p : V3, UnitPt p → 0 ≤ (ofV3 x).dot (ofV3 p) → dirChord2 x p ≤ 2 := by
    intro p hp h0
    unfold dirChord2
    have : 0 ≤ dotR x p := by rw [e]; exact div_nonneg (by exact_mod_cast h0) (by positivity)
    have : 0 ≤ 2 * dotR x p / (len x * len p) := div_nonneg (by linarith) (mul_pos hx.len_pos hp.len_pos).le
    linarith
  exact max_le (key a ha h.1) (key b hb h.2)

/-- both branches of `UpdateMaxDistance` occur on the domain with ALL hypotheses of the two theorems:
    x = (2/3,2/3,1/3) against the edge A–B (near branch, acute), and its antipode against the same edge (far branch) -/
example : UnitPtZ exX ∧ UnitPtZ exA ∧ UnitPtZ exB ∧ EdgeOKZ exA exB ∧
    beyondRightAngle exX exA exB = false ∧ AcuteZ exX exA exB ∧
    UnitPtZ (negV exX) ∧ beyondRightAngle (negV exX) exA exB = true ∧ WedgeMarginZ (negV (negV exX)) exA exB := by
  decide +kernel

/-- … so the far-branch bound holds for the antipode of the sample point, outright -/
example : |fval (maxCandidate (negV exX) exA exB) - trueMaxDist2 (negV exX) exA exB|
    ≤ allowedError (negV (negV exX)) exA exB + 5 * uR := by
  have h : UnitPtZ exA ∧ UnitPtZ exB ∧ EdgeOKZ exA exB ∧
    UnitPtZ (negV exX) ∧ UnitPtZ (negV (negV exX)) ∧ beyondRightAngle (negV exX) exA exB = true ∧
    WedgeMarginZ (negV (negV exX)) exA exB := by decide +kernel
  obtain ⟨ha, hb, he, hx, hxx, hbr, hm⟩ := h
  exact (maxCandidate_far (negV exX) exA exB (unitPt_of_int hx) (unitPt_of_int ha) (unitPt_of_int hb) (edgeOK_of_int he)
    (wedgeMargin_of_int _ _ _ (unitPt_of_int hxx) (unitPt_of_int ha) (unitPt_of_int hb) hm) hbr).2

end S2Proofs.C17
