/-
  S2Proofs.Properties.C06_PointCross — repair D60 (`Point.PointCross` had no exact fallback), the model side.

  `Point.PointCross(p, op)` hands `ClipToPaddedFace` (hence the ShapeIndex builder and `CrossingEdgeQuery`), `interiorDist`
  and `Project` the plane normal of the edge `p op`.  Before the repair it was `fl((p+op) × (op−p))` unless that float vector
  was EXACTLY zero; for `op = −p` up to an ulp per coordinate (`p+op` is quantisation noise) or `op = p` up to subnormal
  amounts (underflow) its DIRECTION is arbitrary, an index cell that the edge passes through does not list it and a crossing
  is missed (C06 violated; replay `corpus/C06/fixed_D60_pointcross_antipodal.txt`).  The repaired function
  (`S2.EdgeNum.pointCross` = `S2.Crossing.pointCross`, S2/PointCross.lean; tied to the regenerated Go text in
  Ties/C17_EdgeNum.tie_PointCross, Ties/C03_Cross.tie_PointCross) keeps the float value when its float squared norm is at least
  `pointCrossMinNorm2` and otherwise returns the exact cross product through `PreciseVector.Vector()`.

  Proved here (all quantified over ALL float vectors unless a witness is named):
    * `pointCross_eq_old_of_ge`      the repair is conservative: above the threshold old and new function agree;
    * `pointCross_exact_normed`      below the threshold (and not parallel) the result is a unit vector: finite, |c|² within 33·2^-55 of 1,
      for ALL float arguments (no underflow: `toVector_normed`, S2Proofs/PointCrossExact.lean);
    * `pointCross_ortho_only_if_parallel`  the arbitrary `Ortho` answer is given only when the EXACT cross product is zero,
      `pointCross_exact_of_lt` what is returned below the threshold otherwise;
    * `pointCrossOld_ortho_of_cancel` / `d60_cancel_witness`  the pre-repair function did return `Ortho` for non-parallel arguments;
    * `d60_witness`, `f1_witness`    kernel-checked regression witnesses (the replay edge of the finding; c06face's F1):
      direction error of the old value > 2^-42.5 (≈ 950 dblEpsilon) resp. > 2^-4.5 (≈ 3 degrees), of the new value ≤ 2^-55;
    * `pointCrossDirection_false_before_repair`  the direction claim is FALSE for the pre-repair function at any useful accuracy.
  NOT proved: `PointCrossDirectionClaim pointCross 100` for ALL unit-ish inputs (needs: error of three roundings of the scaled
  exact product + `Normalize`; the float branch is covered for `EdgeOK` edges by `C17Err.pcRaw_spec`).  It is the `def` below.
-/
import S2.PointCross
import S2.Crossing
import S2Proofs.C16Kernel
import S2Proofs.F64Sym2
import S2Proofs.PointCrossExact

namespace S2Proofs.C06PointCross
open S2 S2.Exact S2.EdgeNum

/-! ### the exact direction measure -/

/-- `sin² ∠(c, a × b) ≤ 2^-k`, in exact integer arithmetic on the float coordinates (`a × b` the EXACT cross product) -/
def SinSqLe (c a b : V3) (k : Nat) : Prop :=
  (((ofV3 c).cross ((ofV3 a).cross (ofV3 b))).norm2) * 2 ^ k ≤ (ofV3 c).norm2 * ((ofV3 a).cross (ofV3 b)).norm2

instance (c a b : V3) (k : Nat) : Decidable (SinSqLe c a b k) := by unfold SinSqLe; infer_instance

/-- finite, `| |p|² − 1 | ≤ 2^-50` (what `Normalize` outputs and their negations satisfy) -/
def UnitIsh (p : V3) : Prop :=
  finite3 p = true ∧ ((ofV3 p).norm2 - (scale : Int) ^ 2).natAbs * 2 ^ 50 ≤ scale ^ 2

instance (p : V3) : Decidable (UnitIsh p) := by unfold UnitIsh; infer_instance

/-- THE CLAIM a caller of `PointCross` relies on (`faceClipErrorRadians`, `interiorDist`): for unit-ish arguments that are not
    exactly (anti)parallel the result points along the exact normal up to `sin² ≤ 2^-k`.  Full statement; see the header for
    what is proved about it. -/
def PointCrossDirectionClaim (f : V3 → V3 → V3) (k : Nat) : Prop :=
  ∀ p op : V3, UnitIsh p → UnitIsh op → ((ofV3 p).cross (ofV3 op)).isZero = false → SinSqLe (f p op) p op k

/-! ### the repair is conservative -/

/-- the float squared norm of a vector of zeros (any signs) is below the threshold -/
theorem norm2_zero_lt_thr : ∀ s1 s2 s3 : Bool,
    F64.ge (V3.norm2 ⟨F64.zero s1, F64.zero s2, F64.zero s3⟩) pointCrossMinNorm2 = false := by decide +kernel

/-- a float vector that Go's `==` identifies with the zero vector has float squared norm below the threshold -/
theorem not_ge_of_feq_zero (x : V3) (h : V3.feq x zero3 = true) : F64.ge x.norm2 pointCrossMinNorm2 = false := by
  unfold V3.feq zero3 at h
  simp only [Bool.and_eq_true, S2Proofs.C16K.feq_fz] at h
  obtain ⟨⟨h1, h2⟩, h3⟩ := h
  have e : x = ⟨F64.zero x.x.signBit, F64.zero x.y.signBit, F64.zero x.z.signBit⟩ := by
    cases x with
    | mk a b c =>
      simp only at h1 h2 h3 ⊢
      rw [← S2Proofs.F64Sym2.eq_zero_of_isZero h1, ← S2Proofs.F64Sym2.eq_zero_of_isZero h2,
        ← S2Proofs.F64Sym2.eq_zero_of_isZero h3]
  rw [e]
  exact norm2_zero_lt_thr _ _ _

/-- **Conservative.**  Wherever the float value passes the threshold test, the repaired `PointCross` returns exactly what the
    pre-repair function returned.  All float vectors, no hypothesis on lengths. -/
theorem pointCross_eq_old_of_ge (p op : V3) (h : F64.ge (pointCrossFloat p op).norm2 pointCrossMinNorm2 = true) :
    pointCross p op = pointCrossOld p op := by
  rw [pointCross_eq_float_of_ge p op h]
  unfold pointCrossOld
  have hz : V3.feq ((p.add op).cross (op.sub p)) zero3 = false := by
    cases hq : V3.feq ((p.add op).cross (op.sub p)) zero3
    · rfl
    · have := not_ge_of_feq_zero _ hq
      unfold pointCrossFloat at h
      rw [h] at this
      exact absurd this (by decide)
  simp only [hz]
  rfl

example : F64.ge (pointCrossFloat ⟨F64.one, fz, fz⟩ ⟨fz, F64.one, fz⟩).norm2 pointCrossMinNorm2 = true := by decide +kernel

/-! ### below the threshold -/

/-- the exact vector of the model is the exact integer cross product -/
theorem pv_cross_toIV3 (p op : V3) : ((PV.ofV3 p).cross (PV.ofV3 op)).toIV3 = (ofV3 p).cross (ofV3 op) := by
  simp only [PV.cross, PV.ofV3, PV.toIV3, SZ.sub, SZ.mul, SZ.ofF64, IV3.cross, ofV3]

theorem pv_isZero_iff (p op : V3) : ((PV.ofV3 p).cross (PV.ofV3 op)).isZero = ((ofV3 p).cross (ofV3 op)).isZero := by
  have h := pv_cross_toIV3 p op
  unfold PV.isZero IV3.isZero
  rw [← h]
  rfl

/-- **Below the threshold, not parallel**: the result is the exact cross product, scaled, rounded per component to nearest even
    and float-normalised (`PreciseVector.Vector()`); never `Ortho`. -/
theorem pointCross_exact_of_lt (p op : V3) (h : F64.ge (pointCrossFloat p op).norm2 pointCrossMinNorm2 = false)
    (hne : ((ofV3 p).cross (ofV3 op)).isZero = false) :
    pointCross p op = ((PV.ofV3 p).cross (PV.ofV3 op)).toVector 0 := by
  rw [pointCross_eq_exact_of_not_ge p op h]
  unfold pointCrossExact
  simp only [pv_isZero_iff, hne]
  rfl

/-- **Below the threshold the result is a UNIT vector** (finite, `| |c|² − 1 | ≤ 33·2^-55`), whatever the arguments are (also
    non-unit, subnormal, huge): the exact product is scaled before it is rounded, so nothing under- or overflows.  (The
    pre-repair function returned `(−1, 0, 1)·2^-1074` on `f1_witness`.) -/
theorem pointCross_exact_normed (p op : V3) (h : F64.ge (pointCrossFloat p op).norm2 pointCrossMinNorm2 = false)
    (hne : ((ofV3 p).cross (ofV3 op)).isZero = false) : S2Proofs.FE3.Normed (pointCross p op) := by
  rw [pointCross_exact_of_lt p op h hne]
  exact S2Proofs.PointCrossExact.toVector_normed _ _ (by rw [pv_isZero_iff]; exact hne)

/-- **`Ortho` only for exactly parallel arguments**: if the repaired `PointCross` takes its last branch (the arbitrary
    orthogonal vector), the EXACT cross product of the arguments is zero. -/
theorem pointCross_ortho_only_if_parallel (p op : V3)
    (h : pointCross p op ≠ pointCrossFloat p op)
    (h2 : pointCross p op ≠ ((PV.ofV3 p).cross (PV.ofV3 op)).toVector 0) :
    ((ofV3 p).cross (ofV3 op)).isZero = true ∧ pointCross p op = p.ortho := by
  have hge : F64.ge (pointCrossFloat p op).norm2 pointCrossMinNorm2 = false := by
    cases hq : F64.ge (pointCrossFloat p op).norm2 pointCrossMinNorm2
    · rfl
    · exact absurd (pointCross_eq_float_of_ge p op hq) h
  have hz : ((ofV3 p).cross (ofV3 op)).isZero = true := by
    cases hq : ((ofV3 p).cross (ofV3 op)).isZero
    · exact absurd (pointCross_exact_of_lt p op hge hq) h2
    · rfl
  refine ⟨hz, ?_⟩
  rw [pointCross_eq_exact_of_not_ge p op hge]
  unfold pointCrossExact
  simp only [pv_isZero_iff, hz]
  rfl

/-- non-vacuity: exactly antipodal arguments take the `Ortho` branch -/
example : pointCross ⟨F64.one, fz, fz⟩ ⟨F64.neg F64.one, fz, fz⟩ = (⟨F64.one, fz, fz⟩ : V3).ortho := by decide +kernel

/-! ### witnesses -/

/-- the shape edge of the finding (replay `corpus/C06/fixed_D60_pointcross_antipodal.txt`): b = −a up to one ulp per coordinate -/
def dA : V3 := ⟨⟨0xbfe6a00328eb3734⟩, ⟨0x3fe6a136e4af2daf⟩, ⟨0xbf563ca930f4445c⟩⟩
def dB : V3 := ⟨⟨0x3fe6a00328eb3735⟩, ⟨0xbfe6a136e4af2db0⟩, ⟨0x3f563ca930f4445d⟩⟩

/-- c06face's F1: b = a + (0, 2^-1074, 0) -/
def sA : V3 := ⟨⟨0x3fe7c84b5dcc63f1⟩, ⟨0x0000000000000000⟩, ⟨0x3fe56904120a22c5⟩⟩
def sB : V3 := ⟨⟨0x3fe7c84b5dcc63f1⟩, ⟨0x0000000000000001⟩, ⟨0x3fe56904120a22c5⟩⟩

/-- the D48 pair: `fl((a+b) × (b−a))` is EXACTLY zero although a × b ≠ 0 -/
def cA : V3 := ⟨⟨0x3fe3333333333332⟩, ⟨0x3fe9999999999999⟩, ⟨0x0000000000000000⟩⟩
def cB : V3 := ⟨⟨0xbfe3333333333335⟩, ⟨0xbfe999999999999d⟩, ⟨0x0000000000000000⟩⟩

/-- **D60, nearly antipodal**: in-contract edge (unit-ish, not parallel); the float value is below the threshold; the
    pre-repair direction is off by `sin² > 2^-85` (sin ≈ 2.1e-13 ≈ 950 dblEpsilon; `cellPadding` is 17 dblEpsilon);
    the repaired direction is exact to `sin² ≤ 2^-110`. -/
theorem d60_witness :
    UnitIsh dA ∧ UnitIsh dB ∧ ((ofV3 dA).cross (ofV3 dB)).isZero = false ∧
    F64.ge (pointCrossFloat dA dB).norm2 pointCrossMinNorm2 = false ∧
    pointCrossOld dA dB = pointCrossFloat dA dB ∧
    ¬ SinSqLe (pointCrossOld dA dB) dA dB 85 ∧ SinSqLe (pointCrossOld dA dB) dA dB 84 ∧
    SinSqLe (pointCross dA dB) dA dB 110 := by decide +kernel

/-- **D60, subnormal difference** (F1): the pre-repair value `(−1, 0, 1)·2^-1074` is 3 degrees off (`sin² > 2^-9`), the repaired
    one is exact to `sin² ≤ 2^-110` -/
theorem f1_witness :
    UnitIsh sA ∧ UnitIsh sB ∧ ((ofV3 sA).cross (ofV3 sB)).isZero = false ∧
    F64.ge (pointCrossFloat sA sB).norm2 pointCrossMinNorm2 = false ∧
    ¬ SinSqLe (pointCrossOld sA sB) sA sB 9 ∧ SinSqLe (pointCross sA sB) sA sB 110 := by decide +kernel

/-- **pre-repair `Ortho` for non-parallel arguments** (the D48 pair): the old function returned the arbitrary orthogonal
    vector although the exact cross product is not zero; the repaired one returns the exact direction -/
theorem d60_cancel_witness :
    UnitIsh cA ∧ UnitIsh cB ∧ ((ofV3 cA).cross (ofV3 cB)).isZero = false ∧
    pointCrossOld cA cB = cA.ortho ∧
    pointCross cA cB = ((PV.ofV3 cA).cross (PV.ofV3 cB)).toVector 0 ∧ SinSqLe (pointCross cA cB) cA cB 110 := by
  decide +kernel

/-- **The direction claim was FALSE before the repair**, at any accuracy better than 3 degrees (`k = 9`), on unit-ish
    non-parallel arguments. -/
theorem pointCrossDirection_false_before_repair : ¬ PointCrossDirectionClaim pointCrossOld 9 := by
  intro h
  obtain ⟨ua, ub, hz, _, hbad, _⟩ := f1_witness
  exact hbad (h sA sB ua ub hz)

/-- … and for nearly antipodal arguments (the class of the finding) at any accuracy better than 2^-42.5 ≈ 950 dblEpsilon -/
theorem pointCrossDirection_false_before_repair_antipodal : ¬ PointCrossDirectionClaim pointCrossOld 85 := by
  intro h
  obtain ⟨ua, ub, hz, _, _, hbad, _⟩ := d60_witness
  exact hbad (h dA dB ua ub hz)

/-- what holds of the claim for the REPAIRED function (partial): on the three witnesses of the finding the direction is exact
    to `sin² ≤ 2^-110`; for all arguments the result is one of: the float value (above the threshold, = the pre-repair value),
    the rounded exact product, `Ortho` with an exactly vanishing exact product (`pointCross_ortho_only_if_parallel`).
    Missing for the full claim: the rounding analysis of `PreciseVector.Vector()` and of the float value just above the threshold. -/
theorem pointCrossDirection_partial :
    SinSqLe (pointCross dA dB) dA dB 110 ∧ SinSqLe (pointCross sA sB) sA sB 110 ∧ SinSqLe (pointCross cA cB) cA cB 110 :=
  ⟨d60_witness.2.2.2.2.2.2.2, f1_witness.2.2.2.2.2, d60_cancel_witness.2.2.2.2.2⟩

end S2Proofs.C06PointCross
