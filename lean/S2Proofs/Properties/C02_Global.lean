/-
  Property C02, global simulation of simplicity:  `sos_global_holds : sos_global`  (the statement left open in C02.lean).

  For every finite list of integer vectors there is ONE perturbation per point, depending only on the
  lexicographic rank r of the point in the list,
        (dZ, dY, dX) = (ε^(8^r), ε^(2·8^r), ε^(4·8^r))                      (`perturbRank`, unchanged),
  and an ε₀ > 0 such that for all 0 < ε < ε₀ and ALL triples (a, b, c) of the list, in any order and with
  repetitions, the code's answer `exactDecisionI a b c` (exact determinant sign, else the 13-case cascade of
  `symbolicallyPerturbedSign` on the sorted triple, times the permutation sign; 0 for repeated points) is the sign
  of the determinant of the three genuinely perturbed points.

  The exponent scheme of C02.lean (base 8) is CORRECT as stated; nothing was changed.  What is needed of the
  exponents A < B < C of a sorted triple is exactly  1 ≤ A,  4A < B,  4B + 2A < C  (`sos_triple_exponents`):
  then the 34 monomials of the perturbed determinant have the same order as for (1, 8, 64) — in particular the
  thirteen tested coefficients and the final constant +1 come first in the order of the code.  Base 8 gives
  B ≥ 8A, C ≥ 8B.  (Any base ≥ 5 satisfies the three inequalities; base 4 does not: dX of one rank would be dZ of the next.)

  Steps: (i) `SosLemmas.pertDetG_expansion` (ring identity for arbitrary exponents), (ii) `sos_triple_exponents`,
  `sos_triple_ranks`, (iii) `rankIn_lt` (the rank is strictly monotone on members), (iv) `realised_triple` (all six
  orders of a triple + repeated points, by alternation of both sides), (v) one ε₀ for the finitely many triples
  (`SosLemmas.uniform_eps`).  The `Nodup` hypothesis of `sos_global` is not needed (`sos_global_list`).
-/
import S2Proofs.Properties.C02
import S2Proofs.SosLemmas

namespace S2Proofs.C02
open S2 S2.Exact S2.Pred S2Proofs.PredLemmas S2Proofs.SosLemmas

/-- **Rank-monotone relabelling preserves the leading term.**  For ANY exponents `A, B, C` of the three rows with
    `1 ≤ A`, `4A < B`, `4B + 2A < C` the 34 monomials of the perturbed determinant come in the same order as for
    `(1, 8, 64)`, hence the sign for small ε is again the answer of the exact stage of `exactSign`. -/
theorem sos_triple_exponents (a b c : IV3) (A B C : ℕ) (hA : 1 ≤ A) (hB : 4 * A < B) (hC : 4 * B + 2 * A < C) :
    ∃ ε₀ : ℝ, 0 < ε₀ ∧ ∀ ε : ℝ, 0 < ε → ε < ε₀ →
      rsgn (pertDetG a b c A B C ε) = exactSignSorted a b c true := by
  obtain ⟨p, rfl⟩ : ∃ p, A = p + 1 := ⟨A - 1, by omega⟩
  obtain ⟨q, rfl⟩ : ∃ q, B = 4 * (p + 1) + q + 1 := ⟨B - (4 * (p + 1) + 1), by omega⟩
  obtain ⟨s, rfl⟩ : ∃ s, C = 4 * (4 * (p + 1) + q + 1) + 2 * (p + 1) + s + 1 :=
    ⟨C - (4 * (4 * (p + 1) + q + 1) + 2 * (p + 1) + 1), by omega⟩
  obtain ⟨ε₀, h0, H⟩ := evalS_sign (sosCoeffsG p q s a b c)
  refine ⟨ε₀, h0, fun ε he he' => ?_⟩
  rw [pertDetG_expansion, H ε he he', lead_sosCoeffsG, sgn_lead_sosCoeffs]

example : (1 : ℕ) ≤ 8 ^ 1 ∧ 4 * 8 ^ 1 < 8 ^ 3 ∧ 4 * 8 ^ 3 + 2 * 8 ^ 1 < 8 ^ 7 := by decide

/-- the same for three points carrying the perturbations of ANY increasing ranks -/
theorem sos_triple_ranks (a b c : IV3) {r1 r2 r3 : ℕ} (h12 : r1 < r2) (h23 : r2 < r3) :
    ∃ ε₀ : ℝ, 0 < ε₀ ∧ ∀ ε : ℝ, 0 < ε → ε < ε₀ →
      rsgn (detR (perturbRank a r1 ε) (perturbRank b r2 ε) (perturbRank c r3 ε)) = exactSignSorted a b c true := by
  have h1 : 1 ≤ 8 ^ r1 := Nat.one_le_two_pow.trans (Nat.pow_le_pow_left (by decide) r1)
  have g1 := pow8_gap h12
  have g2 := pow8_gap h23
  exact sos_triple_exponents a b c (8 ^ r1) (8 ^ r2) (8 ^ r3) h1 (by omega) (by omega)

example : (0 : ℕ) < 3 ∧ (3 : ℕ) < 4 := by decide

/-! ### ranks -/

/-- the rank in the list is strictly monotone on the members of the list -/
theorem rankIn_lt (pts : List IV3) {a b : IV3} (ha : a ∈ pts) (hab : gtI b a = true) :
    rankIn pts a < rankIn pts b := by
  unfold rankIn
  exact filter_length_lt _ _ (fun x hx => gtI_strictTotal.trans b a x hab hx) pts ⟨a, ha, hab, gtI_irrefl a⟩

example : (⟨1, 0, 0⟩ : IV3) ∈ [(⟨2, 0, 0⟩ : IV3), ⟨1, 0, 0⟩, ⟨0, 5, 0⟩] ∧ gtI ⟨2, 0, 0⟩ ⟨1, 0, 0⟩ = true ∧
    rankIn [(⟨2, 0, 0⟩ : IV3), ⟨1, 0, 0⟩, ⟨0, 5, 0⟩] ⟨1, 0, 0⟩ = 1 ∧
    rankIn [(⟨2, 0, 0⟩ : IV3), ⟨1, 0, 0⟩, ⟨0, 5, 0⟩] ⟨2, 0, 0⟩ = 2 :=
  ⟨by simp, by decide +kernel, by decide +kernel, by decide +kernel⟩

/-! ### the global statement -/

/-- the point `p` of the list `pts` with the perturbation that belongs to its rank -/
noncomputable def pertPt (pts : List IV3) (ε : ℝ) (p : IV3) : ℝ × ℝ × ℝ := perturbRank p (rankIn pts p) ε

/-- "the decision on (a,b,c) is the orientation of the perturbed points" -/
def Realised (pts : List IV3) (ε : ℝ) (a b c : IV3) : Prop :=
  exactDecisionI a b c = rsgn (detR (pertPt pts ε a) (pertPt pts ε b) (pertPt pts ε c))

private theorem Realised.swap12 {pts : List IV3} {ε : ℝ} {a b c : IV3} (h : Realised pts ε a b c) :
    Realised pts ε b a c := by
  unfold Realised at *
  rw [exactDecision_swap12, detR_swap12, rsgn_neg, h]

private theorem Realised.swap23 {pts : List IV3} {ε : ℝ} {a b c : IV3} (h : Realised pts ε a b c) :
    Realised pts ε a c b := by
  unfold Realised at *
  rw [exactDecision_swap23, detR_swap23, rsgn_neg, h]

private theorem realised_of_eq (pts : List IV3) (ε : ℝ) {a b c : IV3} (h : a = b ∨ b = c ∨ c = a) :
    Realised pts ε a b c := by
  unfold Realised
  rw [(exactDecision_zero_iff a b c).2 h]
  rcases h with h | h | h <;> subst h
  · rw [detR_eq12, rsgn_zero]
  · rw [detR_eq23, rsgn_zero]
  · rw [detR_eq13, rsgn_zero]

/-- a lexicographically increasing triple of the list -/
private theorem realised_sorted (pts : List IV3) {a b c : IV3} (ha : a ∈ pts) (hb : b ∈ pts)
    (hab : gtI b a = true) (hbc : gtI c b = true) :
    ∃ ε₀ : ℝ, 0 < ε₀ ∧ ∀ ε : ℝ, 0 < ε → ε < ε₀ → Realised pts ε a b c := by
  obtain ⟨ε₀, h0, H⟩ := sos_triple_ranks a b c (rankIn_lt pts ha hab) (rankIn_lt pts hb hbc)
  refine ⟨ε₀, h0, fun ε he he' => ?_⟩
  have hne : ¬ (a = b ∨ b = c ∨ c = a) := by
    rintro (h | h | h)
    · subst h; rw [gtI_irrefl] at hab; cases hab
    · subst h; rw [gtI_irrefl] at hbc; cases hbc
    · subst h
      have h3 := gtI_strictTotal.trans _ _ _ hbc hab
      rw [gtI_irrefl] at h3; cases h3
  unfold Realised pertPt
  rw [H ε he he']
  unfold exactDecisionI
  rw [if_neg hne, exactSignI_eq, sort3_sorted hab hbc]
  simp

/-- every triple of the list -/
theorem realised_triple (pts : List IV3) {a b c : IV3} (ha : a ∈ pts) (hb : b ∈ pts) (hc : c ∈ pts) :
    ∃ ε₀ : ℝ, 0 < ε₀ ∧ ∀ ε : ℝ, 0 < ε → ε < ε₀ → Realised pts ε a b c := by
  by_cases heq : a = b ∨ b = c ∨ c = a
  · exact ⟨1, one_pos, fun ε _ _ => realised_of_eq pts ε heq⟩
  · simp only [not_or] at heq
    obtain ⟨hab, hbc, hca⟩ := heq
    have T := gtI_strictTotal
    have tot : ∀ x y : IV3, x ≠ y → gtI x y = true ∨ gtI y x = true := fun x y hne => by
      cases h : gtI x y with
      | true => exact Or.inl rfl
      | false => exact Or.inr (T.total x y hne h)
    rcases tot a b hab with h1 | h1 <;> rcases tot b c hbc with h2 | h2 <;> rcases tot c a hca with h3 | h3
    · -- a > b > c > a
      have := T.trans _ _ _ (T.trans _ _ _ h1 h2) h3; rw [gtI_irrefl] at this; cases this
    · -- c < b < a
      obtain ⟨ε₀, h0, H⟩ := realised_sorted pts hc hb h2 h1
      exact ⟨ε₀, h0, fun ε he he' => ((H ε he he').swap12.swap23.swap12)⟩
    · -- b < a, b < c, a < c : b < a < c
      obtain ⟨ε₀, h0, H⟩ := realised_sorted pts hb ha h1 h3
      exact ⟨ε₀, h0, fun ε he he' => (H ε he he').swap12⟩
    · -- b < a, b < c, c < a : b < c < a
      obtain ⟨ε₀, h0, H⟩ := realised_sorted pts hb hc h2 h3
      exact ⟨ε₀, h0, fun ε he he' => (H ε he he').swap23.swap12⟩
    · -- a < b, c < b, a < c : a < c < b
      obtain ⟨ε₀, h0, H⟩ := realised_sorted pts ha hc h3 h2
      exact ⟨ε₀, h0, fun ε he he' => (H ε he he').swap23⟩
    · -- a < b, c < b, c < a : c < a < b
      obtain ⟨ε₀, h0, H⟩ := realised_sorted pts hc ha h3 h1
      exact ⟨ε₀, h0, fun ε he he' => (H ε he he').swap12.swap23⟩
    · -- a < b < c
      obtain ⟨ε₀, h0, H⟩ := realised_sorted pts ha hb h1 h2
      exact ⟨ε₀, h0, fun ε he he' => H ε he he'⟩
    · -- a < b < c < a
      have := T.trans _ _ _ (T.trans _ _ _ h3 h2) h1; rw [gtI_irrefl] at this; cases this

/-- a genuinely degenerate family: five coplanar vectors, three of them proportional -/
def degPts : List IV3 := [⟨1, 0, 0⟩, ⟨2, 0, 0⟩, ⟨3, 0, 0⟩, ⟨0, 1, 0⟩, ⟨1, 1, 0⟩]

theorem degPts_degenerate : degPts.Nodup ∧ (∀ a ∈ degPts, ∀ b ∈ degPts, ∀ c ∈ degPts, det3 a b c = 0) ∧
    (∀ a ∈ degPts, ∀ b ∈ degPts, ∀ c ∈ degPts, a ≠ b → b ≠ c → c ≠ a → exactDecisionI a b c ≠ 0) := by
  decide +kernel

/-- the ranks that are used there are not 0,1,2: e.g. the triple with ranks 1 < 3 < 4 -/
example : rankIn degPts ⟨1, 0, 0⟩ = 1 ∧ rankIn degPts ⟨2, 0, 0⟩ = 3 ∧ rankIn degPts ⟨3, 0, 0⟩ = 4 ∧
    rankIn degPts ⟨0, 1, 0⟩ = 0 ∧ rankIn degPts ⟨1, 1, 0⟩ = 2 := by decide +kernel

/-- non-vacuity of `realised_triple`: a collinear triple of `degPts` given in the order rank 4, rank 1, rank 3 -/
example : (⟨3, 0, 0⟩ : IV3) ∈ degPts ∧ (⟨1, 0, 0⟩ : IV3) ∈ degPts ∧ (⟨2, 0, 0⟩ : IV3) ∈ degPts :=
  ⟨by simp [degPts], by simp [degPts], by simp [degPts]⟩

/-- the stronger form of `sos_global` actually proved: the list may contain duplicates -/
theorem sos_global_list (pts : List IV3) :
    ∃ ε₀ : ℝ, 0 < ε₀ ∧ ∀ ε : ℝ, 0 < ε → ε < ε₀ →
      ∀ a ∈ pts, ∀ b ∈ pts, ∀ c ∈ pts, Realised pts ε a b c :=
  uniform_eps (fun a ε => ∀ b ∈ pts, ∀ c ∈ pts, Realised pts ε a b c) pts (fun _ ha =>
    uniform_eps (fun b ε => ∀ c ∈ pts, Realised pts ε _ b c) pts (fun _ hb =>
      uniform_eps (fun c ε => Realised pts ε _ _ c) pts (fun _ hc => realised_triple pts ha hb hc)))

/-- **Global simulation of simplicity** (`sos_global` of C02.lean, proved): for every duplicate-free finite list of
    integer vectors, one rank-dependent perturbation per point and one ε₀ serve ALL triples of the list. -/
theorem sos_global_holds : sos_global := fun pts _ => sos_global_list pts

/-- non-vacuity of `sos_global_holds` / `sos_global_list`: every one of the 60 decisions on distinct triples of
    `degPts` is made by the symbolic perturbation, and all of them are realised simultaneously -/
example : ∃ ε₀ : ℝ, 0 < ε₀ ∧ ∀ ε : ℝ, 0 < ε → ε < ε₀ → ∀ a ∈ degPts, ∀ b ∈ degPts, ∀ c ∈ degPts,
    exactDecisionI a b c = rsgn (detR (perturbRank a (rankIn degPts a) ε) (perturbRank b (rankIn degPts b) ε)
      (perturbRank c (rankIn degPts c) ε)) :=
  sos_global_holds degPts degPts_degenerate.1

end S2Proofs.C02
