/-
  Property C17 — the FLOAT `updateEdgePairMinDistance` against the exact edge-pair distance
  (model `S2.EdgeNum.updateEdgePairMinDistance`; exact objects of `Properties/C17_Pairs.lean`).

  Domain of one point-to-edge call `CallOK x a b` = c17err's hypotheses of the two-sided point-to-edge theorem:
  `UnitPt x a b`, `EdgeOK a b`, `WedgeMargin x a b`.  The four calls of an edge pair: (a0; b0 b1), (a1; b0 b1), (b0; a0 a1),
  (b1; a0 a1).  `pairHigh` = the largest of the four documented bounds `allowedError`; `pairLow` = the largest of the four
  `lowSlack` = max(allowedError, MaxPointError of the vertex value).

   edgePairMin_noncrossing      CrossingSign ≠ Cross, finite threshold m ≠ 0:  the result R is finite, R ≤ m,
                                min(m, pairMin4 − pairLow) ≤ R   (never too small), and
                                R ≤ pairMin4 + pairHigh          if no call leaves through the early exit `xDotC2 > c2·minDist`
   edgePairMin_within_partial   both sides in one statement: |R − min(m, pairMin4)| ≤ max pairLow pairHigh   (same hypothesis)
   edgePairMin_crossing         CrossingSign == Cross on unit-ish points with non-vanishing determinants: the arcs properly
                                cross, the true distance is 0 and the code returns exactly 0 (for every threshold ≠ 0)
  NOT proved: the early-exit case of the upper bound (there R ≤ m and m < xDotC2/c2·(1+3u) ≤ dist·(1+4u): the slack is
  ≈ 4u·dist, not formalised); `CrossingSign == Cross` with a vanishing determinant (symbolic perturbation).
-/
import S2Proofs.C17Pairs.CrossLink
import S2Proofs.C17Pairs.PairFloat

set_option linter.unusedSimpArgs false
set_option linter.unusedVariables false

namespace S2Proofs.C17
open S2 S2.Exact S2.EdgeNum S2Proofs.F64Order S2Proofs.EdgeNumLemmas S2Proofs.FloatErr S2Proofs.C17Err S2Proofs.C17Pairs

/-- **NON-CROSSING EDGES**: lower bound unconditionally on the domain, upper bound when no call exits early. -/
theorem edgePairMin_noncrossing (a0 a1 b0 b1 : V3) (m : F64)
    (h1 : CallOK a0 b0 b1) (h2 : CallOK a1 b0 b1) (h3 : CallOK b0 a0 a1) (h4 : CallOK b1 a0 a1)
    (hm : F64Order.Fin m) (hz : F64.feq m fz = false) (hc : crosses a0 a1 b0 b1 = false) :
    F64Order.Fin (updateEdgePairMinDistance a0 a1 b0 b1 m).1 ∧
    fval (updateEdgePairMinDistance a0 a1 b0 b1 m).1 ≤ fval m ∧
    min (fval m) (pairMin4 a0 a1 b0 b1 - pairLow a0 a1 b0 b1) ≤ fval (updateEdgePairMinDistance a0 a1 b0 b1 m).1 ∧
    (noEarlyExit a0 a1 b0 b1 m = true →
      fval (updateEdgePairMinDistance a0 a1 b0 b1 m).1 ≤ pairMin4 a0 a1 b0 b1 + pairHigh a0 a1 b0 b1) := by
  rw [fval_eq_val, fval_eq_val]
  exact chain_bound h1 h2 h3 h4 hm hz hc

/-- the two-sided reading against `min(m, true distance)` -/
def EdgePairMinWithinBound : Prop :=
  ∀ a0 a1 b0 b1 m, CallOK a0 b0 b1 → CallOK a1 b0 b1 → CallOK b0 a0 a1 → CallOK b1 a0 a1 → F64Order.Fin m →
    F64.feq m fz = false → crosses a0 a1 b0 b1 = false →
    |fval (updateEdgePairMinDistance a0 a1 b0 b1 m).1 - min (fval m) (pairMin4 a0 a1 b0 b1)|
      ≤ max (pairLow a0 a1 b0 b1) (pairHigh a0 a1 b0 b1)

/-- **partial** (hypothesis `noEarlyExit` left, see header) -/
theorem edgePairMin_within_partial (a0 a1 b0 b1 : V3) (m : F64)
    (h1 : CallOK a0 b0 b1) (h2 : CallOK a1 b0 b1) (h3 : CallOK b0 a0 a1) (h4 : CallOK b1 a0 a1)
    (hm : F64Order.Fin m) (hz : F64.feq m fz = false) (hc : crosses a0 a1 b0 b1 = false)
    (hne : noEarlyExit a0 a1 b0 b1 m = true) :
    |fval (updateEdgePairMinDistance a0 a1 b0 b1 m).1 - min (fval m) (pairMin4 a0 a1 b0 b1)|
      ≤ max (pairLow a0 a1 b0 b1) (pairHigh a0 a1 b0 b1) := by
  obtain ⟨_, u, l, g⟩ := edgePairMin_noncrossing a0 a1 b0 b1 m h1 h2 h3 h4 hm hz hc
  have g' := g hne
  have hL : pairLow a0 a1 b0 b1 ≤ max (pairLow a0 a1 b0 b1) (pairHigh a0 a1 b0 b1) := le_max_left _ _
  have hH : pairHigh a0 a1 b0 b1 ≤ max (pairLow a0 a1 b0 b1) (pairHigh a0 a1 b0 b1) := le_max_right _ _
  have hH0 : 0 ≤ pairHigh a0 a1 b0 b1 :=
    le_trans (allowedError_small h1.hx h1.ha h1.hb h1.hE).1 (le_trans (le_max_left _ _) (le_max_left _ _))
  have hL0 : 0 ≤ pairLow a0 a1 b0 b1 :=
    le_trans (allowedError_small h1.hx h1.ha h1.hb h1.hE).1
      (le_trans (le_max_left _ _) (le_trans (le_max_left _ _) (le_max_left _ _)))
  rw [abs_le]
  constructor
  · rcases min_le_iff.mp l with q | q
    · have := min_le_left (fval m) (pairMin4 a0 a1 b0 b1); linarith
    · have := min_le_right (fval m) (pairMin4 a0 a1 b0 b1); linarith
  · rcases le_total (fval m) (pairMin4 a0 a1 b0 b1) with q | q
    · rw [min_eq_left q]; linarith
    · rw [min_eq_right q]; linarith

/-- **CROSSING EDGES**: the code returns exactly 0 and the true distance is 0. -/
theorem edgePairMin_crossing (a0 a1 b0 b1 : V3) (m : F64)
    (ha0 : S2Proofs.C02Err.Unitish a0) (ha1 : S2Proofs.C02Err.Unitish a1)
    (hb0 : S2Proofs.C02Err.Unitish b0) (hb1 : S2Proofs.C02Err.Unitish b1)
    (hg : GenericPair a0 a1 b0 b1) (hz : F64.feq m fz = false) (hc : crosses a0 a1 b0 b1 = true) :
    updateEdgePairMinDistance a0 a1 b0 b1 m = (fz, true) ∧ fval fz = 0 ∧ truePairDist2 a0 a1 b0 b1 = 0 := by
  refine ⟨edgePair_crossing a0 a1 b0 b1 m hz hc, ?_, ?_⟩
  · rw [fval_eq_val]; exact fz_facts'.2
  · exact (properCross_zero a0 a1 b0 b1 (properCross_of_int (crosses_proper ha0 ha1 hb0 hb1 hg hc))).2

/-! ## non-vacuity -/

/-- `CallOK` from the integer forms -/
theorem callOK_of_int {x a b : V3} (hx : UnitPtZ x) (ha : UnitPtZ a) (hb : UnitPtZ b) (hE : EdgeOKZ a b)
    (hM : WedgeMarginZ x a b) : CallOK x a b :=
  ⟨unitPt_of_int hx, unitPt_of_int ha, unitPt_of_int hb, edgeOK_of_int hE,
   wedgeMargin_of_int _ _ _ (unitPt_of_int hx) (unitPt_of_int ha) (unitPt_of_int hb) hM⟩

/-- second sample edge: X = (2/3,2/3,1/3) – Y = (1/3,2/3,2/3) -/
def exY : V3 := ⟨⟨0x3FD5555555555555⟩, ⟨0x3FE5555555555555⟩, ⟨0x3FE5555555555555⟩⟩

/-- every hypothesis of `edgePairMin_within_partial` holds for the pair (A–B, Y–X) with the threshold 4, hence its conclusion.
    (For the pair written (A–B, X–Y) the fourth call leaves through the early exit: `noEarlyExit` is false there.) -/
example : |fval (updateEdgePairMinDistance exA exB exY exX f4).1 - min (fval f4) (pairMin4 exA exB exY exX)|
    ≤ max (pairLow exA exB exY exX) (pairHigh exA exB exY exX) := by
  have h : UnitPtZ exA ∧ UnitPtZ exB ∧ UnitPtZ exX ∧ UnitPtZ exY ∧ EdgeOKZ exA exB ∧ EdgeOKZ exY exX ∧
      WedgeMarginZ exA exY exX ∧ WedgeMarginZ exB exY exX ∧ WedgeMarginZ exY exA exB ∧ WedgeMarginZ exX exA exB ∧
      F64Order.Fin f4 ∧ F64.feq f4 fz = false ∧ crosses exA exB exY exX = false ∧ noEarlyExit exA exB exY exX f4 = true ∧
      noEarlyExit exA exB exX exY f4 = false := by
    decide +kernel
  obtain ⟨a, b, x, y, eab, eyx, m1, m2, m3, m4, f, z, c, n, _⟩ := h
  exact edgePairMin_within_partial exA exB exY exX f4 (callOK_of_int a y x eyx m1) (callOK_of_int b y x eyx m2)
    (callOK_of_int y a b eab m3) (callOK_of_int x a b eab m4) f z c n

/-- every hypothesis of `edgePairMin_crossing` holds for the crossing pair (A–B, C0–C1) -/
example : updateEdgePairMinDistance exA exB exC0 exC1 f4 = (fz, true) ∧ fval fz = 0 ∧ truePairDist2 exA exB exC0 exC1 = 0 := by
  have h : S2Proofs.C02Err.Unitish exA ∧ S2Proofs.C02Err.Unitish exB ∧ S2Proofs.C02Err.Unitish exC0 ∧
      S2Proofs.C02Err.Unitish exC1 ∧ GenericPair exA exB exC0 exC1 ∧ F64.feq f4 fz = false ∧
      crosses exA exB exC0 exC1 = true := by decide +kernel
  obtain ⟨a, b, c, d, g, z, cr⟩ := h
  exact edgePairMin_crossing exA exB exC0 exC1 f4 a b c d g z cr

end S2Proofs.C17
