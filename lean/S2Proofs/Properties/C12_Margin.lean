/-
  Property C12 / C01 (float half) — **`CellFromPoint(p).ContainsPoint(p)` holds for every finite non-zero float vector,
  and so does `ContainsPoint` of every ancestor cell** (work package c12margin, finding D46).

  `Cell.ContainsPoint` expands the cell's (u,v) rectangle by a margin before testing `(u,v) = faceXYZToUV(face, p)`.
  With the original margin `dblEpsilon = 2^-52` the claim is FALSE (`old_margin_refuted`: the D46 point); the code now uses
  `2·dblEpsilon = 2^-51` (`CellM.containsMargin`).  Here this is PROVED sufficient for all inputs:

  * `coordinate_margin`          the quantitative one-coordinate statement (below), `coordinate_margin_excess`: the bound is
                                 attained to 2.5E = 1.25·dblEpsilon (kernel-checked floats), so the needed margin is in
                                 [1.25, 2]·dblEpsilon;
  * `containsPoint_of_contains`  every valid cell whose id range contains the leaf `cellIDFromPoint p` passes
                                 `containsPoint` — all faces, all levels, all finite `p` with a non-zero component;
  * `containsPoint_ancestors`    the form of the brief: every `parent (cellIDFromPoint p) k`, `k ≤ 30`;
  * `cellFromPoint_containsPoint` the level-30 instance `CellFromPoint(p).ContainsPoint(p)`;
  * `containsClaimFixed_holds`   the repaired statement of `ContainsClaim` (Properties/C12.lean);
  * `old_margin_refuted`, `containsClaimOldMargin_false`  the claim with the old margin `dblEpsilon` is false (D46 point);
  * `containsClaim_literal_false` the LITERAL `ContainsClaim` of Properties/C12.lean is false for a reason unrelated to the
                                 margin: its hypothesis `p ≠ (+0,+0,+0)` admits `p = (−0,+0,+0)`, a zero vector.

  Numerical content (helpers `S2Proofs/C12/Margin*.lean`): with `E = 2^-53`, for a float `u ∈ [-1,1]` and a grid point
  `a = k/2^30`:  `a ≤ uvToST(u) ⟹ stToUV(a) − 4E ≤ u`  and  `uvToST(u) < a ⟹ u ≤ stToUV(a) + 4E`  (exact comparisons of the
  float values).  The standard-model error analysis gives `23/6·E` (1.92·dblEpsilon) for one direction and
  `13/3·E + E²/3` (2.17·dblEpsilon) for the other; the latter is brought down to `4E` because the two floats compared lie on
  a common grid of spacing `E/2` (both ≥ 1/4 in the critical range).  `4E = 2·dblEpsilon` is exactly the margin of the code;
  the rounding of the expansion `lo − margin`, `hi + margin` costs nothing (monotonicity of rounding, `u` is a float).
-/
import S2Proofs.Properties.C12
import S2Proofs.C12.MarginAssemble
import S2Proofs.C12.MarginFace
import S2Proofs.CellIDAlgebra

set_option linter.unusedSimpArgs false
set_option linter.unusedVariables false

namespace S2Proofs.C12
open S2 S2.CellID S2.Hilbert S2.STUV S2.CellM S2Proofs S2Proofs.C12H S2Proofs.C12C
open S2Proofs.F64Round S2Proofs.C12M

/-! ## one coordinate -/

/-- **One coordinate, quantitatively** (`E = 2^-53`, so `4E = 2·dblEpsilon`): for every finite float `u ∈ [-1,1]` and every
    grid point `k/2^30` (`g k = ijToSTMin k`): if the grid point is at most `uvToST u` then `u ≥ stToUV(k/2^30) − 4E`, and if
    `uvToST u` is below it then `u ≤ stToUV(k/2^30) + 4E` — exact comparisons of the float values.  `stToIJ (uvToST u)` is the
    `k` with `k/2^30 ≤ uvToST u < (k+1)/2^30`. -/
theorem coordinate_margin (u : F64) (hu : F64Order.Fin u) (h1 : -1 ≤ val u) (h2 : val u ≤ 1) (k : Nat) (hk : k ≤ 2 ^ 30) :
    (val (g k) ≤ val (uvToST u) → val (stToUV (g k)) - 4 * E ≤ val u) ∧
    (val (uvToST u) < val (g k) → val u ≤ val (stToUV (g k)) + 4 * E) :=
  ⟨fun h => coord_lo u hu h1 h2 k hk (Or.inr h), fun h => coord_hi u hu h1 h2 k hk (Or.inr h)⟩

/-! ## the theorem -/

/-- **Margin theorem.**  For every finite float vector `p` with a non-zero component and every valid cell `x` (any face,
    any level) whose id range contains the leaf cell `cellIDFromPoint p`, `Cell.ContainsPoint` — with the margin
    `2·dblEpsilon` of the repaired code — answers `true`. -/
theorem containsPoint_of_contains (p : V3) (x : CellID) (hv : isValid x = true) (hf : Exact.finite3 p = true)
    (hz : C12F.NonZero3 p) (hc : contains x (cellIDFromPoint p) = true) :
    containsPoint (cellFromCellID x) p = true := by
  obtain ⟨n, hx⟩ := (isValid_iff x).1 hv
  have hxy := xyzToFaceUV_eq p
  obtain ⟨fu, u1, u2, fv, v1, v2⟩ := C12F.validFaceXYZToUV_bounds p hf hz
  have hface := C12F.faceXYZToUV_face p hf hz
  have e1 : (xyzToFaceUV p).2.1 = (validFaceXYZToUV (STUV.face p) p).1 := by rw [hxy]
  have e2 : (xyzToFaceUV p).2.2 = (validFaceXYZToUV (STUV.face p) p).2 := by rw [hxy]
  have e0 : (xyzToFaceUV p).1 = STUV.face p := rfl
  obtain ⟨gs, gs2⟩ := C12M.uvToST_guard _ fu u1 u2
  obtain ⟨gt, gt2⟩ := C12M.uvToST_guard _ fv v1 v2
  obtain ⟨hfc, hsI, htI⟩ := point_leaf_in_range_st' p hx (by rw [e1]; exact gs) (by rw [e1]; exact gs2)
    (by rw [e2]; exact gt) (by rw [e2]; exact gt2) hc
  rw [e1] at hsI
  rw [e2] at htI
  obtain ⟨hI, hJ, _⟩ := prefixState_bounds x n
  have hle : ∀ I, I < 2 ^ n → (I + 1) * 2 ^ (30 - n) ≤ 2 ^ 30 := by
    intro I hI
    have h1 : (I + 1) * 2 ^ (30 - n) ≤ 2 ^ n * 2 ^ (30 - n) := Nat.mul_le_mul_right _ hI
    rw [← Nat.pow_add, show n + (30 - n) = 30 by have := hx.k_le; omega] at h1
    exact h1
  have hmono : ∀ I : Nat, I * 2 ^ (30 - n) ≤ (I + 1) * 2 ^ (30 - n) :=
    fun I => Nat.mul_le_mul_right _ (Nat.le_succ I)
  obtain ⟨cu1, cu2⟩ := coord_contains _ fu u1 u2 _ _ (hmono _) (hle _ hI) hsI.1 hsI.2
  obtain ⟨cv1, cv2⟩ := coord_contains _ fv v1 v2 _ _ (hmono _) (hle _ hJ) htI.1 htI.2
  unfold containsPoint
  rw [hfc, e0, hface, (cell_bound_is_square hx).1]
  rcases hval : validFaceXYZToUV (STUV.face p) p with ⟨u, v⟩
  rw [hval] at cu2 cv2
  simp only at cu2 cv2 ⊢
  unfold Rect2.expandedByMargin Rect2.expanded Rect2.containsPoint boundOf
  simp only [cu1, cv1, cu2, cv2, Bool.or_self, Bool.false_eq_true, if_false, Bool.and_self]

/-- **The form of the brief**: every ancestor `parent (cellIDFromPoint p) k`, `k = 0..30`, of the leaf cell of `p` contains
    `p` by `Cell.ContainsPoint`. -/
theorem containsPoint_ancestors (p : V3) (hf : Exact.finite3 p = true) (hz : C12F.NonZero3 p) (k : Nat) (hk : k ≤ 30) :
    containsPoint (cellFromCellID (parent (cellIDFromPoint p) k)) p = true := by
  obtain ⟨_, _, hcell, hcont⟩ := point_leaf_valid_and_ancestors p k hk
  exact containsPoint_of_contains p _ ((isValid_iff _).2 ⟨k, hcell⟩) hf hz hcont

/-- **`CellFromPoint(p).ContainsPoint(p)`** for every finite float vector with a non-zero component -/
theorem cellFromPoint_containsPoint (p : V3) (hf : Exact.finite3 p = true) (hz : C12F.NonZero3 p) :
    containsPoint (cellFromPoint p) p = true := by
  obtain ⟨hv, _, _, _⟩ := point_leaf_valid_and_ancestors p 30 (le_refl _)
  obtain ⟨n, hx⟩ := (isValid_iff _).1 hv
  exact containsPoint_of_contains p _ hv hf hz ((hx.contains_iff_parent hx).2 ⟨le_refl _, hx.parent_self_id⟩)

/-! ## the repaired statement of `ContainsClaim`, and what is wrong with the literal one -/

/-- `ContainsClaim` of Properties/C12.lean with the zero-vector guard stated correctly (no component pattern is
    singled out: ±0 in every component is the excluded case).  The margin is the one of the model `CellM.containsPoint`
    (`containsMargin = 2·dblEpsilon`, repair D46). -/
def ContainsClaimFixed : Prop :=
  ∀ (p : V3) (x : CellID), isValid x = true → Exact.finite3 p = true → C12F.NonZero3 p →
    contains x (cellIDFromPoint p) = true → containsPoint (cellFromCellID x) p = true

theorem containsClaimFixed_holds : ContainsClaimFixed :=
  fun p x hv hf hz hc => containsPoint_of_contains p x hv hf hz hc

/-- structure of `CellFromPoint`: the face is `face p`, the uv bound is the leaf square of the computed (i,j) -/
theorem cellFromPoint_face_uv (p : V3) :
    (cellFromPoint p).face = STUV.face p ∧
    (cellFromPoint p).uv = ijLevelToBoundUV (stToIJ (uvToST (xyzToFaceUV p).2.1)).toNat
      (stToIJ (uvToST (xyzToFaceUV p).2.2)).toNat 30 := by
  obtain ⟨ri0, ri1⟩ := C12ST.stToIJ_range (uvToST (xyzToFaceUV p).2.1)
  obtain ⟨rj0, rj1⟩ := C12ST.stToIJ_range (uvToST (xyzToFaceUV p).2.2)
  have hid : cellIDFromPoint p = cellIDFromFaceIJ (xyzToFaceUV p).1
      (stToIJ (uvToST (xyzToFaceUV p).2.1)).toNat (stToIJ (uvToST (xyzToFaceUV p).2.2)).toNat := rfl
  have hfa : (xyzToFaceUV p).1 = STUV.face p := rfl
  obtain ⟨hleaf, h1, h2, h3⟩ := hilbertBijection (xyzToFaceUV p).1 (stToIJ (uvToST (xyzToFaceUV p).2.1)).toNat
    (stToIJ (uvToST (xyzToFaceUV p).2.2)).toNat (by rw [hfa]; exact face_lt_six p) (by omega) (by omega)
  rw [← hid] at hleaf h1 h2 h3
  unfold cellFromPoint cellFromCellID
  rw [hleaf.level_eq]
  rcases hfo : faceIJOrientation (cellIDFromPoint p) with ⟨a, b, c, d⟩
  rw [hfo] at h1 h2 h3
  simp only at h1 h2 h3 ⊢
  rw [h1, h2, h3, hfa]
  exact ⟨rfl, rfl⟩

/-- the D46 point (≈ (0.4532, 0.3638, 0.8138), face 2): its `v` coordinate lies 5 ulps = `1.25·dblEpsilon` below the lower
    `v` bound of its own leaf cell -/
def pD46 : V3 := ⟨⟨0x3fdd020521914ff4⟩, ⟨0x3fd747e7b62fc552⟩, ⟨0x3fea0a818e6cb0d9⟩⟩

/-- `CellFromPoint(p).ContainsPoint(p)` with margin `m`, reduced to float-only terms (no Hilbert curve) -/
theorem containsPointWith_cellFromPoint (m : F64) (p : V3) :
    containsPointWith m (cellFromPoint p) p =
      containsUV m (ijLevelToBoundUV (stToIJ (uvToST (xyzToFaceUV p).2.1)).toNat
        (stToIJ (uvToST (xyzToFaceUV p).2.2)).toNat 30) (STUV.face p) p := by
  obtain ⟨hf, huv⟩ := cellFromPoint_face_uv p
  unfold containsPointWith containsUV
  rw [hf, huv]

/-- **D46, kernel-checked**: with the ORIGINAL margin `dblEpsilon` the leaf cell of the D46 point does not contain it … -/
theorem old_margin_refuted : containsPointWith dblEpsilon (cellFromPoint pD46) pD46 = false := by
  rw [containsPointWith_cellFromPoint]
  decide +kernel

/-- … and with the repaired margin it does (an instance of the theorem; also checked by evaluation). -/
theorem new_margin_d46 : containsPoint (cellFromPoint pD46) pD46 = true := by
  rw [← containsPointWith_margin, containsPointWith_cellFromPoint]
  decide +kernel

/-- the claim with the old margin, as a proposition … -/
def ContainsClaimOldMargin : Prop :=
  ∀ (p : V3) (x : CellID), isValid x = true → Exact.finite3 p = true → C12F.NonZero3 p →
    contains x (cellIDFromPoint p) = true → containsPointWith dblEpsilon (cellFromCellID x) p = true

/-- … is false: witness D46 (x = the leaf cell of the point). -/
theorem containsClaimOldMargin_false : ¬ ContainsClaimOldMargin := by
  intro h
  obtain ⟨hv, _, _, _⟩ := point_leaf_valid_and_ancestors pD46 30 (le_refl _)
  obtain ⟨n, hx⟩ := (isValid_iff _).1 hv
  have := h pD46 (cellIDFromPoint pD46) hv (by decide) (by unfold C12F.NonZero3; decide)
    ((hx.contains_iff_parent hx).2 ⟨le_refl _, hx.parent_self_id⟩)
  have h2 := old_margin_refuted
  unfold cellFromPoint at h2
  rw [h2] at this
  exact Bool.false_ne_true this

/-- the zero vector `(−0, +0, +0)`: not the literal `(+0,+0,+0)`, but every component is a zero -/
def pNegZero : V3 := ⟨F64.zero true, fzero, fzero⟩

/-- **The literal `ContainsClaim` of Properties/C12.lean is false** — not because of the margin, but because its
    non-zero guard `p ≠ ⟨+0,+0,+0⟩` compares bit patterns: `(−0,+0,+0)` passes the guard, is the zero vector, is sent to
    face 2 with `u = v = NaN` (leaf (0,0)), and `faceXYZToUV` rejects it (`p.z ≤ 0`).  (The Go code behaves the same:
    `CellFromPoint(Point{}).ContainsPoint(Point{})` is false; the property excludes the zero vector.) -/
theorem containsClaim_literal_false : ¬ ContainsClaim := by
  intro h
  obtain ⟨hv, _, _, _⟩ := point_leaf_valid_and_ancestors pNegZero 30 (le_refl _)
  obtain ⟨n, hx⟩ := (isValid_iff _).1 hv
  have := h pNegZero (cellIDFromPoint pNegZero) hv (by decide) (by decide)
    ((hx.contains_iff_parent hx).2 ⟨le_refl _, hx.parent_self_id⟩)
  have h2 : containsPointWith containsMargin (cellFromPoint pNegZero) pNegZero = false := by
    rw [containsPointWith_cellFromPoint]
    decide +kernel
  rw [containsPointWith_margin] at h2
  unfold cellFromPoint at h2
  rw [h2] at this
  exact Bool.false_ne_true this

/-! ## non-vacuity

  * the hypotheses of `containsPoint_of_contains` on the D46 point and its level-7 ancestor;
  * threshold floats: the `v` coordinate of the D46 point is the LAST float (towards −1) that `stToIJ ∘ uvToST` still sends to
    leaf column 252309862 — its neighbour one ulp below goes to 252309861 — and it lies below the float lower bound
    `stToUV(252309862/2^30)` of that column by exactly 5 ulps (`5·2^-54 = 1.25·dblEpsilon`): the largest excess found by the
    directed search, and within the proved bound `4E = 2·dblEpsilon`;
  * the two clamped ends `u = ±1`. -/

example : Exact.finite3 pD46 = true ∧ C12F.NonZero3 pD46 ∧ isValid (parent (cellIDFromPoint pD46) 7) = true ∧
    contains (parent (cellIDFromPoint pD46) 7) (cellIDFromPoint pD46) = true := by
  obtain ⟨_, _, hcell, hcont⟩ := point_leaf_valid_and_ancestors pD46 7 (by decide)
  exact ⟨by decide, by unfold C12F.NonZero3; decide, (isValid_iff _).2 ⟨7, hcell⟩, hcont⟩

/-- the `v` coordinate of the D46 point and its lower neighbour (one ulp towards −1) -/
def vD46 : F64 := ⟨0xbfdc9bb534599bc7⟩
def vD46below : F64 := ⟨0xbfdc9bb534599bc8⟩

example : (validFaceXYZToUV (STUV.face pD46) pD46).2 = vD46 ∧
    stToIJ (uvToST vD46) = 252309862 ∧ stToIJ (uvToST vD46below) = 252309861 ∧
    stToUV (ijToSTMin 252309862) = ⟨0xbfdc9bb534599bc2⟩ ∧
    F64.lt vD46 (stToUV (ijToSTMin 252309862)) = true ∧
    F64.lt vD46 (stToUV (ijToSTMin 252309862) - dblEpsilon) = true ∧
    F64.le (stToUV (ijToSTMin 252309862) - containsMargin) vD46 = true := by decide +kernel

/-- **The bound of `coordinate_margin` is attained to `2.5E = 1.25·dblEpsilon`** (the largest excess exhibited: the `v`
    coordinate of the D46 point and its own leaf column 252309862): `uvToST` sends the float to that column although it
    lies `5·2^-54` below the column's float lower bound.  So no margin below `1.25·dblEpsilon` can work; `2·dblEpsilon` is
    proved to work; the truth lies in between (in the range |u| ≥ 1/2 excesses are multiples of `E`, below that of `E/2`). -/
theorem coordinate_margin_excess :
    F64Order.Fin vD46 ∧ -1 ≤ val vD46 ∧ val vD46 ≤ 1 ∧ val (g 252309862) ≤ val (uvToST vD46) ∧
    val vD46 = val (stToUV (g 252309862)) - 5 / 2 * E := by
  have hf : F64Order.Fin vD46 := by decide
  have hneg : F64Order.Fin (F64.neg F64.one) := by decide
  have hg := g_spec 252309862 (by decide)
  have hw := fin_stToUV_g 252309862 (by decide)
  have hs := (uvToST_range vD46 hf (by
    have : F64.le (F64.neg F64.one) vD46 = true := by decide +kernel
    have := (val_le_iff hneg hf).1 this
    rwa [val_neg, val_one] at this) (by
    have : F64.le vD46 F64.one = true := by decide +kernel
    have := (val_le_iff hf C12M.fin_one).1 this
    rwa [val_one] at this)).1
  refine ⟨hf, ?_, ?_, ?_, ?_⟩
  · have : F64.le (F64.neg F64.one) vD46 = true := by decide +kernel
    have := (val_le_iff hneg hf).1 this
    rwa [val_neg, val_one] at this
  · have : F64.le vD46 F64.one = true := by decide +kernel
    have := (val_le_iff hf C12M.fin_one).1 this
    rwa [val_one] at this
  · have : F64.le (g 252309862) (uvToST vD46) = true := by decide +kernel
    exact (val_le_iff hg.1 hs).1 this
  · have h : Exact.toInt (stToUV (g 252309862)) - Exact.toInt vD46 = 5 * 2 ^ 1020 := by decide +kernel
    have h' : ((Exact.toInt (stToUV (g 252309862)) : ℚ)) - (Exact.toInt vD46 : ℚ) = 5 * 2 ^ 1020 := by exact_mod_cast h
    unfold val U E
    have hU : (2 : ℚ) ^ 1074 = 2 ^ 54 * 2 ^ 1020 := by rw [← pow_add]
    rw [hU]
    have hp : (0 : ℚ) < 2 ^ 1020 := by positivity
    generalize (2 : ℚ) ^ 1020 = P at *
    have : (Exact.toInt vD46 : ℚ) = (Exact.toInt (stToUV (g 252309862)) : ℚ) - 5 * P := by linarith
    rw [this]
    field_simp

/-- the ends of the face: `u = −1` goes to column 0 (`stToUV 0 = −1`), `u = +1` is clamped to the last column -/
example : stToIJ (uvToST (F64.neg F64.one)) = 0 ∧ stToIJ (uvToST F64.one) = 1073741823 ∧
    stToUV (ijToSTMin 0) = F64.neg F64.one ∧ stToUV (ijToSTMin 1073741824) = F64.one := by decide +kernel

end S2Proofs.C12

#print axioms S2Proofs.C12.coordinate_margin
#print axioms S2Proofs.C12.coordinate_margin_excess
#print axioms S2Proofs.C12.containsPoint_of_contains
#print axioms S2Proofs.C12.containsPoint_ancestors
#print axioms S2Proofs.C12.cellFromPoint_containsPoint
#print axioms S2Proofs.C12.containsClaimFixed_holds
#print axioms S2Proofs.C12.old_margin_refuted
#print axioms S2Proofs.C12.containsClaimOldMargin_false
#print axioms S2Proofs.C12.containsClaim_literal_false
