/-
  S2Proofs.Properties.C07_WalkSound — property C07, the two-index walk of the loop relations
  (model `S2.RelateWalk`): SOUNDNESS of the `true` answers, the WEDGE half, and the walk's answers
  = the exact relation `S2.Relate`, reduced to the centre-shortcut statement.
  (Vocabulary `EdgesOK`, `wedgeWitness`, `CenterFires`, `StateSound` and the helper lemmas:
  S2Proofs/C07/WalkExact.lean, WalkSoundGen.lean, WalkWedge.lean.)

  PROVED here for ALL loops, ALL indexes with `IdxOK` (valid, sorted, disjoint cells) and `EdgesOK`
  (the index lists only edge ids of its loop), every geometry `G` (no geometric law is used; the model
  runs on `geoExact`):
    * `walk_true_sound`          if `hasCrossingRelation` returns `true` (any of the three relation objects)
                                 then the exact relation has a witness: an exact edge crossing
                                 (`Relate.anyCrossing`), or the relation's exact wedge witness at shared
                                 vertices (`wedgeWitness` = the `any`-expressions of `S2.Relate`), or a centre
                                 shortcut fired on a pair of cells with meeting ranges (`CenterFires`);
      `walk_state_sound`         the flags of the returned relation object are set only for real shared
                                 vertices / semiwedge values
    * `walk_false_no_wedge`      (plus `PairsCovered`, `GetCellsComplete`) if it returns `false` then the exact
                                 wedge witness is `false`: the walk has evaluated the wedge test at every
                                 shared vertex, with the same five vertices as `S2.Relate`, and none fired
    * `walk_false_state_exact`   … and the returned relation object equals the exact scan:
                                 `foundSharedVertex = !shared.isEmpty`, `containsEdge = any semiwedge`,
                                 `excludesEdge = any ¬semiwedge`
    * `walk_false_no_centre`     if it returns `false` no centre shortcut can fire (every applicable pair of cells
                                 has been centre-tested): completeness of the centre shortcuts
    * `walk_hasCrossingRelation_eq_exact`   raw boolean = `anyCrossing || wedgeWitness || CenterFires`, exactly;
                                 `walk_compareBoundary_raw_eq_exact`: = `anyCrossing || wedgeWitness` for the
                                 boundary relation (its crossing targets are `dontCare`)
    * `walk_compareBoundary_eq_exact`   `Loop.compareBoundary` as walked = the exact relation (FULL: no centre hypothesis)
    * `walk_contains_eq_exact`, `walk_intersects_eq_exact`   `Loop.Contains` / `Loop.Intersects` as walked = the
                                 exact relation, with ONE remaining hypothesis `CenterSound`: whenever a centre
                                 shortcut can fire, the exact relation has the value the walk then returns
                                 (Jordan-type: "a point inside B and outside A"; not available for the exact model).
    * `centerSound_of_walk_contains_eq_exact`, `…_intersects_…`   conversely the equality implies `CenterSound`:
                                 the reduction is to exactly this statement
  The bounding-rectangle shortcuts stay hypotheses (`RectsExact`; Go's own booleans in the model).
  NOT proved: `CenterSound` itself (the only place where the point-set reading of the loops enters).
-/
import S2Proofs.C07.WalkExact
import S2.RelateWalkHyps
namespace S2Proofs.C07
open S2 S2.CellID S2.RelateWalk S2.Relate

set_option linter.unusedSectionVars false

section
variable {α : Type} [DecidableEq α] (G : Geo α)

/-- the result of `hasCrossingRelation` is the result of the merge loop on the real tests -/
private theorem walk_of_hcr (k : RelKind) (A B : Loop α) (IA IB : Index) (gcAB gcBA : Nat → Nat → List Nat)
    (r : Bool) (rs : RelState) (h : hasCrossingRelation G k A B IA IB gcAB gcBA = some (r, rs)) :
    ∃ s', walk (realTests G k A B IA IB gcAB gcBA) IA IB {} = some (s', r) ∧ s'.rel = rs := by
  unfold hasCrossingRelation at h
  cases hw : walk (realTests G k A B IA IB gcAB gcBA) IA IB {} with
  | none => rw [hw] at h; simp at h
  | some p =>
    obtain ⟨s', r'⟩ := p
    rw [hw] at h
    simp only [Option.map_some, Option.some.injEq, Prod.mk.injEq] at h
    obtain ⟨rfl, rfl⟩ := h
    exact ⟨s', rfl, rfl⟩

private theorem walk_sound_core (k : RelKind) (A B : Loop α) (IA IB : Index) (gcAB gcBA : Nat → Nat → List Nat)
    (hA : IdxOK IA) (hB : IdxOK IB) (eA : EdgesOK A IA) (eB : EdgesOK B IB) (r : Bool) (rs : RelState)
    (h : hasCrossingRelation G k A B IA IB gcAB gcBA = some (r, rs)) :
    StateSound G k A B rs ∧ (r = true → Witness G k A B IA IB) := by
  obtain ⟨s', hw, rfl⟩ := walk_of_hcr G k A B IA IB gcAB gcBA r rs h
  have h0 : StateSound G k A B ({} : WState).rel :=
    ⟨fun h => by simp at h, fun rev _ => ⟨fun h => by simp at h, fun h => by simp at h⟩⟩
  exact mainLoop_sound (realTests_sound G k A B IA IB gcAB gcBA eA eB) (facts_of_ok hA) (facts_of_ok hB)
    (lam_of_ok hA hB) (walkFuel IA IB) 0 0 {} s' r (Nat.zero_le _) (Nat.zero_le _)
    ⟨fun i j h => by omega, fun i j h => by omega⟩ h0 hw

/-! ### (1) soundness of the `true` answers -/

/-- SOUNDNESS OF `true`.  If `hasCrossingRelation(A, B, relation)` returns `true` — for the contains,
    intersects or compareBoundary relation object — then the exact relation has the corresponding
    witness: some edge of A properly crosses some edge of B (`Relate.anyCrossing`), or the exact wedge
    test of the relation at the shared vertices is `true` (`wedgeWitness`), or a centre shortcut fired
    (`CenterFires`: two cells with meeting ranges, equal or the larger one edge-free, both centre tests match).
    Needs only: valid sorted disjoint cell lists, and that the index lists edge ids of its loop. -/
theorem walk_true_sound (k : RelKind) (A B : Loop α) (IA IB : Index) (gcAB gcBA : Nat → Nat → List Nat)
    (hA : IdxOK IA) (hB : IdxOK IB) (eA : EdgesOK A IA) (eB : EdgesOK B IB) (rs : RelState)
    (h : hasCrossingRelation G k A B IA IB gcAB gcBA = some (true, rs)) :
    anyCrossing G A B = true ∨ wedgeWitness G k A B = true ∨ CenterFires k IA IB :=
  (walk_sound_core G k A B IA IB gcAB gcBA hA hB eA eB true rs h).2 rfl

/-- the relation object the walk returns (whatever the answer) has `foundSharedVertex` only if the
    loops share a vertex, `containsEdge` / `excludesEdge` only if the exact semiwedge test is `true` /
    `false` at some shared vertex -/
theorem walk_state_sound (k : RelKind) (A B : Loop α) (IA IB : Index) (gcAB gcBA : Nat → Nat → List Nat)
    (hA : IdxOK IA) (hB : IdxOK IB) (eA : EdgesOK A IA) (eB : EdgesOK B IB) (r : Bool) (rs : RelState)
    (h : hasCrossingRelation G k A B IA IB gcAB gcBA = some (r, rs)) : StateSound G k A B rs :=
  (walk_sound_core G k A B IA IB gcAB gcBA hA hB eA eB r rs h).1

/-- the boundary relation has no centre shortcut: a `true` answer is a crossing or a pair of shared
    vertices with opposite semiwedge values -/
theorem walk_true_sound_compareBoundary (rev : Bool) (A B : Loop α) (IA IB : Index) (gcAB gcBA : Nat → Nat → List Nat)
    (hA : IdxOK IA) (hB : IdxOK IB) (eA : EdgesOK A IA) (eB : EdgesOK B IB) (rs : RelState)
    (h : hasCrossingRelation G (.compareBoundary rev) A B IA IB gcAB gcBA = some (true, rs)) :
    anyCrossing G A B = true ∨ wedgeWitness G (.compareBoundary rev) A B = true := by
  rcases walk_true_sound G _ A B IA IB gcAB gcBA hA hB eA eB rs h with h | h | h
  · exact Or.inl h
  · exact Or.inr h
  · exact absurd h (centerFires_compareBoundary rev IA IB)

/-! ### (2) the wedge half -/

private theorem walk_false_seen (k : RelKind) (A B : Loop α) (IA IB : Index) (gcAB gcBA : Nat → Nat → List Nat)
    (hA : IdxOK IA) (hB : IdxOK IB) (hcov : PairsCovered G A B IA IB)
    (cAB : GetCellsComplete G A B IA IB gcAB) (cBA : GetCellsComplete G B A IB IA gcBA) (rs : RelState)
    (h : hasCrossingRelation G k A B IA IB gcAB gcBA = some (false, rs)) :
    NotBoth rs ∧ ∀ i j, i < A.numEdges → j < B.numEdges → SharedEnd G A B i j → Obs G k false A B i j rs := by
  obtain ⟨s', log, r, hw, hcomp⟩ := walk_instrumented_complete (realTests G k A B IA IB gcAB gcBA) IA IB hA hB {}
  have hfst := mainLoop_fst (realTests G k A B IA IB gcAB gcBA) IA IB (walkFuel IA IB) 0 0 {} []
  have hw' : mainLoop (instr (realTests G k A B IA IB gcAB gcBA) IA IB) IA IB (walkFuel IA IB) 0 0 ({}, []) = some ((s', log), r) := hw
  rw [hw'] at hfst
  have hreal : walk (realTests G k A B IA IB gcAB gcBA) IA IB {} = some (s', r) := hfst.symm
  unfold hasCrossingRelation at h
  rw [hreal] at h
  have hr : r = false ∧ s'.rel = rs := by simpa using h
  obtain ⟨hr, hrs⟩ := hr
  subst hr
  have hJ := walk_invariant _ IA IB _ (realTests_preserve_wedgeSeen G k A B IA IB gcAB gcBA cAB cBA) ({}, []) (s', log)
    ⟨rfl, fun e he => by simp at he⟩ hw
  obtain ⟨_, _, hall⟩ := hcomp rfl
  rw [← hrs]
  refine ⟨hJ.1, ?_⟩
  intro i j hi' hj hsh
  have hne : crossingSign G (A.vertex G i) (A.vertex G (i + 1)) (B.vertex G j) (B.vertex G (j + 1)) ≠ -1 := by
    rw [crossingSign_eq]; unfold SharedEnd at hsh; simp [hsh]
  obtain ⟨pa, pb, h1, h2, h3⟩ := hcov i j hi' hj hne
  have hne1 : 0 < IA.numEdgesAt pa := by unfold Index.numEdgesAt; exact List.length_pos_of_mem h1
  have hne2 : 0 < IB.numEdgesAt pb := by unfold Index.numEdgesAt; exact List.length_pos_of_mem h2
  have hmem := hall pa pb h3 ⟨fun _ => ⟨hne1, hne2⟩, fun _ => Or.inr hne2, fun _ => Or.inr hne1⟩
  exact hJ.2 (pa, pb) hmem i h1 j h2 hsh

/-- THE WEDGE HALF, completeness.  If `hasCrossingRelation` returns `false` (valid sorted disjoint
    indexes, complete `getCells` table, `PairsCovered`) then the exact wedge witness of the relation is
    `false`: at every shared vertex the walk has evaluated the relation's wedge test on the same five
    vertices as `S2.Relate` (`A.prev/vertex/next`, `B.prev/next`), and no evaluation answered `true`
    (for the boundary relation: no two shared vertices have opposite semiwedge values). -/
theorem walk_false_no_wedge (k : RelKind) (A B : Loop α) (IA IB : Index) (gcAB gcBA : Nat → Nat → List Nat)
    (hA : IdxOK IA) (hB : IdxOK IB) (hcov : PairsCovered G A B IA IB)
    (cAB : GetCellsComplete G A B IA IB gcAB) (cBA : GetCellsComplete G B A IB IA gcBA) (rs : RelState)
    (h : hasCrossingRelation G k A B IA IB gcAB gcBA = some (false, rs)) :
    wedgeWitness G k A B = false := by
  obtain ⟨hnb, hseen⟩ := walk_false_seen G k A B IA IB gcAB gcBA hA hB hcov cAB cBA rs h
  cases hk : wedgeWitness G k A B
  · rfl
  · exfalso
    cases k with
    | contains =>
      obtain ⟨p, hp, hv⟩ := List.any_eq_true.mp hk
      obtain ⟨i, j, hi', hj, hsh, rfl⟩ := shared_is_endPair G A B hp
      rw [obs_contains G A B hi' hj (hseen i j hi' hj hsh)] at hv
      cases hv
    | intersects =>
      obtain ⟨p, hp, hv⟩ := List.any_eq_true.mp hk
      obtain ⟨i, j, hi', hj, hsh, rfl⟩ := shared_is_endPair G A B hp
      rw [obs_intersects G A B hi' hj (hseen i j hi' hj hsh)] at hv
      cases hv
    | compareBoundary r =>
      unfold wedgeWitness at hk
      simp only [Bool.and_eq_true, List.any_map] at hk
      obtain ⟨p, hp, hv⟩ := List.any_eq_true.mp hk.1
      obtain ⟨q, hq, hu⟩ := List.any_eq_true.mp hk.2
      obtain ⟨i, j, hi', hj, hsh, rfl⟩ := shared_is_endPair G A B hp
      obtain ⟨i2, j2, hi2, hj2, hsh2, rfl⟩ := shared_is_endPair G A B hq
      have c := (obs_boundary G A B r hi' (hseen i j hi' hj hsh)).1 (by simpa using hv)
      have e := (obs_boundary G A B r hi2 (hseen i2 j2 hi2 hj2 hsh2)).2 (by simpa using hu)
      unfold NotBoth at hnb
      rw [c, e] at hnb
      cases hnb

/-- … and the relation object returned with the answer `false` IS the exact scan of the shared vertices:
    `foundSharedVertex` iff the loops share a vertex; for the boundary relation `containsEdge` iff the
    exact semiwedge test is `true` at some shared vertex, `excludesEdge` iff it is `false` at some. -/
theorem walk_false_state_exact (k : RelKind) (A B : Loop α) (IA IB : Index) (gcAB gcBA : Nat → Nat → List Nat)
    (hA : IdxOK IA) (hB : IdxOK IB) (eA : EdgesOK A IA) (eB : EdgesOK B IB) (hcov : PairsCovered G A B IA IB)
    (cAB : GetCellsComplete G A B IA IB gcAB) (cBA : GetCellsComplete G B A IB IA gcBA) (rs : RelState)
    (h : hasCrossingRelation G k A B IA IB gcAB gcBA = some (false, rs)) :
    rs.foundSharedVertex = !(sharedVertices G A B).isEmpty ∧
    ∀ rev, k = .compareBoundary rev →
      rs.containsEdge = ((sharedVertices G A B).map (semiwedgeContained G A B rev)).any id ∧
      rs.excludesEdge = ((sharedVertices G A B).map (semiwedgeContained G A B rev)).any not := by
  obtain ⟨_, hseen⟩ := walk_false_seen G k A B IA IB gcAB gcBA hA hB hcov cAB cBA rs h
  obtain ⟨hs1, hs2⟩ := walk_state_sound G k A B IA IB gcAB gcBA hA hB eA eB false rs h
  refine ⟨?_, ?_⟩
  · cases hsv : sharedVertices G A B with
    | nil =>
      cases hf : rs.foundSharedVertex
      · rfl
      · have := hs1 hf; rw [hsv] at this; cases this
    | cons p rest =>
      have hp : p ∈ sharedVertices G A B := by rw [hsv]; simp
      obtain ⟨i, j, hi', hj, hsh, _⟩ := shared_is_endPair G A B hp
      exact walk_false_found_shared G k A B IA IB gcAB gcBA hA hB hcov cAB cBA rs h i j hi' hj hsh
  · intro rev hk
    subst hk
    obtain ⟨c0, e0⟩ := hs2 rev rfl
    refine ⟨?_, ?_⟩
    · rw [Bool.eq_iff_iff]
      refine ⟨c0, ?_⟩
      intro hany
      rw [List.any_map] at hany
      obtain ⟨p, hp, hv⟩ := List.any_eq_true.mp hany
      obtain ⟨i, j, hi', hj, hsh, rfl⟩ := shared_is_endPair G A B hp
      exact (obs_boundary G A B rev hi' (hseen i j hi' hj hsh)).1 (by simpa using hv)
    · rw [Bool.eq_iff_iff]
      refine ⟨e0, ?_⟩
      intro hany
      rw [List.any_map] at hany
      obtain ⟨p, hp, hv⟩ := List.any_eq_true.mp hany
      obtain ⟨i, j, hi', hj, hsh, rfl⟩ := shared_is_endPair G A B hp
      exact (obs_boundary G A B rev hi' (hseen i j hi' hj hsh)).2 (by simpa using hv)

/-! ### (3) the raw boolean of the walk -/

/-- COMPLETENESS OF THE CENTRE SHORTCUTS.  If `hasCrossingRelation` returns `false` (valid sorted
    disjoint indexes; nothing else) then no centre shortcut can fire: on every pair of cells with meeting
    ranges that are equal, or of which the larger one has no edges, the two centre tests do not both match. -/
theorem walk_false_no_centre (k : RelKind) (A B : Loop α) (IA IB : Index) (gcAB gcBA : Nat → Nat → List Nat)
    (hA : IdxOK IA) (hB : IdxOK IB) (rs : RelState)
    (h : hasCrossingRelation G k A B IA IB gcAB gcBA = some (false, rs)) : ¬ CenterFires k IA IB := by
  obtain ⟨s', hw, _⟩ := walk_of_hcr G k A B IA IB gcAB gcBA false rs h
  have hinv := mainLoop_centre_complete (realTests_centreT G k A B IA IB gcAB gcBA) (facts_of_ok hA) (facts_of_ok hB)
    (lam_of_ok hA hB) (walkFuel IA IB) 0 0 {} s' (Nat.zero_le _) (Nat.zero_le _)
    ⟨fun i j h => by omega, fun i j h => by omega⟩ (fun i j _ h => by omega) hw
  rintro ⟨pa, hpa, pb, hpb, hm, ma, mb, hel⟩
  exact hinv pa pb (interR_of_rangesMeet hm) (Or.inl hpa) hel ⟨ma, mb⟩

/-- THE RAW ANSWER OF THE WALK, characterised exactly: for all loops and all indexes with `IdxOK`,
    `EdgesOK`, `PairsCovered` and a complete `getCells` table, `hasCrossingRelation` returns `true` iff
    some edges cross exactly, or the relation's exact wedge test at the shared vertices is `true`, or a
    centre shortcut can fire on the two indexes.  No geometric law. -/
theorem walk_hasCrossingRelation_eq_exact (k : RelKind) (A B : Loop α) (IA IB : Index) (gcAB gcBA : Nat → Nat → List Nat)
    (hA : IdxOK IA) (hB : IdxOK IB) (eA : EdgesOK A IA) (eB : EdgesOK B IB) (hcov : PairsCovered G A B IA IB)
    (cAB : GetCellsComplete G A B IA IB gcAB) (cBA : GetCellsComplete G B A IB IA gcBA) (r : Bool) (rs : RelState)
    (h : hasCrossingRelation G k A B IA IB gcAB gcBA = some (r, rs)) :
    r = (anyCrossing G A B || wedgeWitness G k A B || decide (CenterFires k IA IB)) := by
  cases r with
  | false =>
    rw [walk_false_no_crossing G k A B IA IB gcAB gcBA hA hB hcov cAB cBA rs h,
      walk_false_no_wedge G k A B IA IB gcAB gcBA hA hB hcov cAB cBA rs h,
      decide_eq_false (walk_false_no_centre G k A B IA IB gcAB gcBA hA hB rs h)]
    rfl
  | true =>
    rcases walk_true_sound G k A B IA IB gcAB gcBA hA hB eA eB rs h with h | h | h
    · rw [h]; rfl
    · rw [h]; simp
    · rw [decide_eq_true h]; simp

/-- for the boundary relation (crossing targets `dontCare`: no centre shortcut):
    raw boolean = exact crossing or exact wedge witness -/
theorem walk_compareBoundary_raw_eq_exact (rev : Bool) (A B : Loop α) (IA IB : Index) (gcAB gcBA : Nat → Nat → List Nat)
    (hA : IdxOK IA) (hB : IdxOK IB) (eA : EdgesOK A IA) (eB : EdgesOK B IB) (hcov : PairsCovered G A B IA IB)
    (cAB : GetCellsComplete G A B IA IB gcAB) (cBA : GetCellsComplete G B A IB IA gcBA) (r : Bool) (rs : RelState)
    (h : hasCrossingRelation G (.compareBoundary rev) A B IA IB gcAB gcBA = some (r, rs)) :
    r = (anyCrossing G A B || wedgeWitness G (.compareBoundary rev) A B) := by
  rw [walk_hasCrossingRelation_eq_exact G _ A B IA IB gcAB gcBA hA hB eA eB hcov cAB cBA r rs h,
    decide_eq_false (centerFires_compareBoundary rev IA IB)]
  simp

/-! ### (4) `Contains`, `Intersects`, `compareBoundary` as walked = the exact relation -/

/-- the bounding-rectangle answers (Go's own booleans in the model) are exact shortcuts: a rejection
    implies the exact answer, the empty loop has the empty bound, and when the boundaries neither cross
    nor touch the rectangle-gated vertex tests of `Contains` / `Intersects` equal the ungated ones -/
structure RectsExact (R : Rects) (A B : Loop α) : Prop where
  contains_reject : R.aSubContainsB = false → Relate.contains G A B = false
  intersects_reject : R.boundsIntersect = false → Relate.intersects G A B = false
  boundary_reject : R.boundsIntersect = false → A.isEmpty = false → B.isEmpty = false → Relate.compareBoundary G A B = -1
  empty_reject : (A.isEmpty || B.isEmpty) = true → R.boundsIntersect = false
  contains_gate : (A.isEmptyOrFull || B.isEmptyOrFull) = false → anyCrossing G A B = false →
    (sharedVertices G A B).isEmpty = true →
    (A.containsPoint G (B.vertex G 0) && !((R.bSubContainsA || R.unionFull) && B.containsPoint G (A.vertex G 0))) =
      (A.containsPoint G (B.vertex G 0) && !B.containsPoint G (A.vertex G 0))
  intersects_gate : anyCrossing G A B = false → (sharedVertices G A B).isEmpty = true →
    (((R.aSubContainsB || R.unionFull) && A.containsPoint G (B.vertex G 0)) ||
      (R.bSubContainsA && B.containsPoint G (A.vertex G 0))) =
      (A.containsPoint G (B.vertex G 0) || B.containsPoint G (A.vertex G 0))

/-- the hypotheses about the passed-in data -/
structure WalkExactHyps (R : Rects) (A B : Loop α) (IA IB : Index) (gcAB gcBA : Nat → Nat → List Nat) : Prop where
  okA : IdxOK IA
  okB : IdxOK IB
  edgesA : EdgesOK A IA
  edgesB : EdgesOK B IB
  covered : PairsCovered G A B IA IB
  gcAB : GetCellsComplete G A B IA IB gcAB
  gcBA : GetCellsComplete G B A IB IA gcBA
  rects : RectsExact G R A B

/-- THE REMAINING HYPOTHESIS (Jordan-type, not proved): whenever a centre shortcut of the walk for
    relation `k` can fire, the exact relation has the value the walk then returns.
    (`exactCrossed` = `!Relate.contains` for Contains: "some point of B is outside A";
     `Relate.intersects` for Intersects: "some point is inside both".) -/
def CenterSound (k : RelKind) (IA IB : Index) (exactCrossed : Bool) : Prop :=
  CenterFires k IA IB → exactCrossed = true

/-- `Loop.Contains` AS WALKED = THE EXACT RELATION, reduced to the centre-shortcut statement:
    for all loops, indexes, `getCells` tables and rectangle booleans satisfying `WalkExactHyps`, if the
    centre shortcut of the contains relation is sound (`CenterSound`) then the model of
    `A.Contains(B)` (rectangle tests, the walk, the vertex tests) returns `Relate.contains G A B`. -/
theorem walk_contains_eq_exact (R : Rects) (A B : Loop α) (IA IB : Index) (gcAB gcBA : Nat → Nat → List Nat)
    (H : WalkExactHyps G R A B IA IB gcAB gcBA)
    (hcen : CenterSound .contains IA IB (!(Relate.contains G A B))) :
    RelateWalk.contains G R A B IA IB gcAB gcBA = some (Relate.contains G A B) := by
  obtain ⟨hA, hB, eA, eB, hcov, cAB, cBA, HR⟩ := H
  unfold RelateWalk.contains containsFrom
  cases h1 : R.aSubContainsB with
  | false => simp only [Bool.not_false, if_true]; rw [HR.contains_reject h1]
  | true =>
    simp only [Bool.not_true, Bool.false_eq_true, if_false]
    have e := contains_exact_unfold G A B
    by_cases h2 : (A.isEmptyOrFull || B.isEmptyOrFull) = true
    · rw [if_pos h2] at e ⊢; rw [e]
    · rw [if_neg h2] at e ⊢
      have htot := hasCrossingRelation_total G .contains A B IA IB gcAB gcBA hA hB
      cases hw : hasCrossingRelation G .contains A B IA IB gcAB gcBA with
      | none => rw [hw] at htot; cases htot
      | some p =>
        obtain ⟨r, rs⟩ := p
        simp only [Option.map_some, Option.some.injEq]
        cases r with
        | true =>
          simp only [if_true]
          rcases walk_true_sound G .contains A B IA IB gcAB gcBA hA hB eA eB rs hw with hx | hx | hx
          · rw [if_pos hx] at e; exact e.symm
          · by_cases hy : anyCrossing G A B = true
            · rw [if_pos hy] at e; exact e.symm
            · rw [if_neg hy, if_pos hx] at e; exact e.symm
          · have := hcen hx; simpa using this.symm
        | false =>
          have nx := walk_false_no_crossing G .contains A B IA IB gcAB gcBA hA hB hcov cAB cBA rs hw
          have nw := walk_false_no_wedge G .contains A B IA IB gcAB gcBA hA hB hcov cAB cBA rs hw
          have st := (walk_false_state_exact G .contains A B IA IB gcAB gcBA hA hB eA eB hcov cAB cBA rs hw).1
          rw [nx, nw] at e
          simp only [Bool.false_eq_true, if_false] at e ⊢
          rw [e, st]
          cases hs : (sharedVertices G A B).isEmpty
          · simp
          · have g := HR.contains_gate (by simpa using h2) nx hs
            simp only [Bool.not_true, Bool.false_eq_true, if_false]
            rw [← g]
            cases A.containsPoint G (B.vertex G 0) <;> cases B.containsPoint G (A.vertex G 0) <;>
              cases (R.bSubContainsA || R.unionFull) <;> simp

/-- `Loop.Intersects` AS WALKED = THE EXACT RELATION, reduced to the centre-shortcut statement. -/
theorem walk_intersects_eq_exact (R : Rects) (A B : Loop α) (IA IB : Index) (gcAB gcBA : Nat → Nat → List Nat)
    (H : WalkExactHyps G R A B IA IB gcAB gcBA)
    (hcen : CenterSound .intersects IA IB (Relate.intersects G A B)) :
    RelateWalk.intersects G R A B IA IB gcAB gcBA = some (Relate.intersects G A B) := by
  obtain ⟨hA, hB, eA, eB, hcov, cAB, cBA, HR⟩ := H
  unfold RelateWalk.intersects intersectsFrom
  cases h1 : R.boundsIntersect with
  | false => simp only [Bool.not_false, if_true]; rw [HR.intersects_reject h1]
  | true =>
    simp only [Bool.not_true, Bool.false_eq_true, if_false]
    have e := intersects_exact_unfold G A B
    have h2 : ¬ (A.isEmpty || B.isEmpty) = true := by
      intro h; have := HR.empty_reject h; rw [h1] at this; cases this
    rw [if_neg h2] at e
    have htot := hasCrossingRelation_total G .intersects A B IA IB gcAB gcBA hA hB
    cases hw : hasCrossingRelation G .intersects A B IA IB gcAB gcBA with
    | none => rw [hw] at htot; cases htot
    | some p =>
      obtain ⟨r, rs⟩ := p
      simp only [Option.map_some, Option.some.injEq]
      cases r with
      | true =>
        simp only [if_true]
        rcases walk_true_sound G .intersects A B IA IB gcAB gcBA hA hB eA eB rs hw with hx | hx | hx
        · rw [if_pos hx] at e; exact e.symm
        · by_cases hy : anyCrossing G A B = true
          · rw [if_pos hy] at e; exact e.symm
          · rw [if_neg hy, if_pos hx] at e; exact e.symm
        · exact (hcen hx).symm
      | false =>
        have nx := walk_false_no_crossing G .intersects A B IA IB gcAB gcBA hA hB hcov cAB cBA rs hw
        have nw := walk_false_no_wedge G .intersects A B IA IB gcAB gcBA hA hB hcov cAB cBA rs hw
        have st := (walk_false_state_exact G .intersects A B IA IB gcAB gcBA hA hB eA eB hcov cAB cBA rs hw).1
        rw [nx, nw] at e
        simp only [Bool.false_eq_true, if_false] at e ⊢
        rw [e, st]
        cases hs : (sharedVertices G A B).isEmpty
        · simp
        · have g := HR.intersects_gate nx hs
          simp only [Bool.not_true, Bool.false_eq_true, if_false]
          rw [← g]
          cases A.containsPoint G (B.vertex G 0) <;> cases B.containsPoint G (A.vertex G 0) <;>
            cases (R.aSubContainsB || R.unionFull) <;> cases R.bSubContainsA <;> simp

/-- `Loop.compareBoundary` AS WALKED = THE EXACT RELATION — FULL (no centre hypothesis: both crossing
    targets of the boundary relation are `dontCare`).  Go requires: neither loop is empty. -/
theorem walk_compareBoundary_eq_exact (R : Rects) (A B : Loop α) (IA IB : Index) (gcAB gcBA : Nat → Nat → List Nat)
    (H : WalkExactHyps G R A B IA IB gcAB gcBA) (hAe : A.isEmpty = false) (hBe : B.isEmpty = false) :
    RelateWalk.compareBoundary G R A B IA IB gcAB gcBA = some (Relate.compareBoundary G A B) := by
  obtain ⟨hA, hB, eA, eB, hcov, cAB, cBA, HR⟩ := H
  unfold RelateWalk.compareBoundary compareBoundaryFrom
  cases h1 : R.boundsIntersect with
  | false => simp only [Bool.not_false, if_true]; rw [HR.boundary_reject h1 hAe hBe]
  | true =>
    simp only [Bool.not_true, Bool.false_eq_true, if_false]
    have e := compareBoundary_exact_unfold G A B
    rw [if_neg (by simp [hAe, hBe])] at e
    by_cases h2 : A.isFull = true
    · rw [if_pos h2] at e ⊢; rw [e]
    · rw [if_neg h2] at e ⊢
      by_cases h3 : B.isFull = true
      · rw [if_pos h3] at e ⊢; rw [e]
      · rw [if_neg h3] at e ⊢
        have htot := hasCrossingRelation_total G (.compareBoundary B.isHole) A B IA IB gcAB gcBA hA hB
        cases hw : hasCrossingRelation G (.compareBoundary B.isHole) A B IA IB gcAB gcBA with
        | none => rw [hw] at htot; cases htot
        | some p =>
          obtain ⟨r, rs⟩ := p
          simp only [Option.map_some, Option.some.injEq]
          cases r with
          | true =>
            simp only [if_true]
            rcases walk_true_sound_compareBoundary G B.isHole A B IA IB gcAB gcBA hA hB eA eB rs hw with hx | hx
            · rw [if_pos hx] at e; exact e.symm
            · by_cases hy : anyCrossing G A B = true
              · rw [if_pos hy] at e; exact e.symm
              · rw [if_neg hy, if_pos hx] at e; exact e.symm
          | false =>
            have nx := walk_false_no_crossing G _ A B IA IB gcAB gcBA hA hB hcov cAB cBA rs hw
            have nw := walk_false_no_wedge G _ A B IA IB gcAB gcBA hA hB hcov cAB cBA rs hw
            obtain ⟨st1, st2⟩ := walk_false_state_exact G _ A B IA IB gcAB gcBA hA hB eA eB hcov cAB cBA rs hw
            obtain ⟨stc, _⟩ := st2 B.isHole rfl
            rw [nx, nw] at e
            simp only [Bool.false_eq_true, if_false] at e ⊢
            rw [e, st1, stc]
            have hm : ((sharedVertices G A B).map (semiwedgeContained G A B B.isHole)).isEmpty =
                (sharedVertices G A B).isEmpty := by simp
            rw [hm]

/-- `CenterSound` is not only sufficient but NECESSARY: if the walked `Contains` (past the rectangle test
    and the empty/full cases) equals the exact relation, the centre-shortcut statement holds for these
    indexes.  So `walk_contains_eq_exact` reduces the equality to exactly this statement. -/
theorem centerSound_of_walk_contains_eq_exact (R : Rects) (A B : Loop α) (IA IB : Index) (gcAB gcBA : Nat → Nat → List Nat)
    (hA : IdxOK IA) (hB : IdxOK IB) (h1 : R.aSubContainsB = true) (h2 : (A.isEmptyOrFull || B.isEmptyOrFull) = false)
    (heq : RelateWalk.contains G R A B IA IB gcAB gcBA = some (Relate.contains G A B)) :
    CenterSound .contains IA IB (!(Relate.contains G A B)) := by
  intro hcf
  unfold RelateWalk.contains containsFrom at heq
  simp only [h1, h2, Bool.not_true, Bool.false_eq_true, if_false] at heq
  cases hw : hasCrossingRelation G .contains A B IA IB gcAB gcBA with
  | none => rw [hw] at heq; cases heq
  | some p =>
    obtain ⟨r, rs⟩ := p
    cases r with
    | false => exact absurd hcf (walk_false_no_centre G .contains A B IA IB gcAB gcBA hA hB rs hw)
    | true =>
      rw [hw] at heq
      simp only [Option.map_some, if_true, Option.some.injEq] at heq
      rw [← heq]; rfl

/-- the same for `Intersects` -/
theorem centerSound_of_walk_intersects_eq_exact (R : Rects) (A B : Loop α) (IA IB : Index) (gcAB gcBA : Nat → Nat → List Nat)
    (hA : IdxOK IA) (hB : IdxOK IB) (h1 : R.boundsIntersect = true)
    (heq : RelateWalk.intersects G R A B IA IB gcAB gcBA = some (Relate.intersects G A B)) :
    CenterSound .intersects IA IB (Relate.intersects G A B) := by
  intro hcf
  unfold RelateWalk.intersects intersectsFrom at heq
  simp only [h1, Bool.not_true, Bool.false_eq_true, if_false] at heq
  cases hw : hasCrossingRelation G .intersects A B IA IB gcAB gcBA with
  | none => rw [hw] at heq; cases heq
  | some p =>
    obtain ⟨r, rs⟩ := p
    cases r with
    | false => exact absurd hcf (walk_false_no_centre G .intersects A B IA IB gcAB gcBA hA hB rs hw)
    | true =>
      rw [hw] at heq
      simp only [Option.map_some, if_true, Option.some.injEq] at heq
      exact heq.symm

/-! ### the hypotheses as the oracle evaluates them (op `c07walk`, clauses hyp-edges / hyp-centre / hyp-rects) -/

/-- the oracle's `edgesOKB` decides `EdgesOK` -/
theorem edgesOKB_iff (A : Loop α) (IA : Index) : edgesOKB A.numEdges IA = true ↔ EdgesOK A IA := by
  unfold edgesOKB EdgesOK
  simp only [List.all_eq_true, List.mem_range, decide_eq_true_eq]

/-- the oracle's `centerFiresB` decides `CenterFires` -/
theorem centerFiresB_iff (k : RelKind) (IA IB : Index) : centerFiresB k IA IB = true ↔ CenterFires k IA IB := by
  unfold centerFiresB CenterFires centerPairB RangesMeet rangeWidth rangeWidthAt
  simp only [List.any_eq_true, List.mem_range, Bool.and_eq_true, Bool.or_eq_true, decide_eq_true_eq]
  constructor
  · rintro ⟨pa, hpa, ma, pb, hpb, mb, ⟨m1, m2⟩, hel⟩
    exact ⟨pa, hpa, pb, hpb, ⟨hpa, hpb, m1, m2⟩, ma, mb, by
      rcases hel with (h | h) | h
      · exact Or.inl h
      · exact Or.inr (Or.inl h)
      · exact Or.inr (Or.inr h)⟩
  · rintro ⟨pa, hpa, pb, hpb, ⟨_, _, m1, m2⟩, ma, mb, hel⟩
    exact ⟨pa, hpa, ma, pb, hpb, mb, ⟨m1, m2⟩, by
      rcases hel with h | h | h
      · exact Or.inl (Or.inl h)
      · exact Or.inl (Or.inr h)
      · exact Or.inr h⟩

/-- the oracle's `rectsExactB` (on the exact scan) decides `RectsExact` -/
theorem rectsExactB_iff (R : Rects) (A B : Loop α) : rectsExactB G (scan G A B) R A B = true ↔ RectsExact G R A B := by
  have e1 : containsWith G (scan G A B) A B = Relate.contains G A B := rfl
  have e2 : intersectsWith G (scan G A B) A B = Relate.intersects G A B := rfl
  have e3 : compareBoundaryWith G (scan G A B) A B = Relate.compareBoundary G A B := rfl
  have e4 : (scan G A B).crossing = anyCrossing G A B := rfl
  have e5 : (scan G A B).shared = sharedVertices G A B := rfl
  unfold rectsExactB
  simp only [e1, e2, e3, e4, e5, Bool.and_eq_true]
  constructor
  · rintro ⟨⟨⟨⟨⟨c1, c2⟩, c3⟩, c4⟩, c5⟩, c6⟩
    refine ⟨?_, ?_, ?_, ?_, ?_, ?_⟩
    · intro h; rw [h] at c1; simpa using c1
    · intro h; rw [h] at c2; simpa using c2
    · intro h ha hb; rw [h, ha, hb] at c3; simpa using c3
    · intro h; rw [h] at c4; simpa using c4
    · intro h hx hs; rw [h, hx, hs] at c5; simpa using c5
    · intro hx hs; rw [hx, hs] at c6; simpa using c6
  · intro H
    refine ⟨⟨⟨⟨⟨?_, ?_⟩, ?_⟩, ?_⟩, ?_⟩, ?_⟩
    · cases h : R.aSubContainsB
      · simp [H.contains_reject h]
      · rfl
    · cases h : R.boundsIntersect
      · simp [H.intersects_reject h]
      · rfl
    · cases h : R.boundsIntersect
      · cases ha : A.isEmpty
        · cases hb : B.isEmpty
          · simp [H.boundary_reject h ha hb]
          · simp
        · simp
      · rfl
    · cases h : (A.isEmpty || B.isEmpty)
      · rfl
      · simp [H.empty_reject h]
    · cases h : (A.isEmptyOrFull || B.isEmptyOrFull)
      · cases hx : anyCrossing G A B
        · cases hs : (sharedVertices G A B).isEmpty
          · simp
          · rw [H.contains_gate h hx hs]; simp
        · simp
      · simp
    · cases hx : anyCrossing G A B
      · cases hs : (sharedVertices G A B).isEmpty
        · simp
        · rw [H.intersects_gate hx hs]; simp
      · simp

end

/-! ### non-vacuity -/

section examples

/-- one face cell listing all edges of the loop -/
private def ix (cc : Bool) (edges : List Nat) : Index := ⟨#[⟨0x1000000000000000, cc, edges⟩]⟩

private def rAll : Rects := ⟨true, false, true, false⟩

private theorem covered_face {A B : Loop (Fin 5)} {ccA ccB : Bool} :
    PairsCovered geo5 A B (ix ccA (List.range A.numEdges)) (ix ccB (List.range B.numEdges)) := by
  intro i j hi' hj _
  refine ⟨0, 0, ?_, ?_, ?_⟩
  · show i ∈ List.range A.numEdges; exact List.mem_range.mpr hi'
  · show j ∈ List.range B.numEdges; exact List.mem_range.mpr hj
  · have e1 : ∀ cc l, (ix cc l).idAt 0 = (0x1000000000000000 : UInt64) := fun _ _ => rfl
    unfold RangesMeet Index.rangeMinAt Index.rangeMaxAt
    rw [e1, e1]
    exact ⟨Nat.zero_lt_one, Nat.zero_lt_one, by decide, by decide⟩

/-- the triangle 1,3,4: its edge (4,1) … and the edge (2,0) of the triangle 0,1,2 cross (edge (1,3) does) -/
private def tri5x : Loop (Fin 5) := { vs := #[1, 3, 4], originInside := false }

/-- `walk_true_sound`, crossing witness: the triangles 0,1,2 and 1,3,4 of `geo5` (edges 2→0 and 1→3 cross);
    the walk of the intersects relation returns `true` and the exact scan has the crossing -/
example :
    let IA := ix false [0, 1, 2]
    let IB := ix false [0, 1, 2]
    IdxOK IA ∧ IdxOK IB ∧ EdgesOK tri5b IA ∧ EdgesOK tri5x IB ∧
    hasCrossingRelation geo5 .intersects tri5b tri5x IA IB (fun _ _ => [0]) (fun _ _ => [0]) = some (true, { foundSharedVertex := true }) ∧
    anyCrossing geo5 tri5b tri5x = true := by
  decide +kernel

/-- `walk_true_sound`, wedge witness: the triangles 0,1,2 and 2,3,4 touch in vertex 2 without crossing;
    for the contains relation the wedge test at the shared vertex is `true` (the wedge of 2,3,4 is not
    contained), the walk returns `true`, and `wedgeWitness` is `true` while `anyCrossing` is `false` -/
example :
    let IA := ix false [0, 1, 2]
    let IB := ix false [0, 1, 2]
    IdxOK IA ∧ IdxOK IB ∧ EdgesOK tri5b IA ∧ EdgesOK tri5c IB ∧
    hasCrossingRelation geo5 .contains tri5b tri5c IA IB (fun _ _ => [0]) (fun _ _ => [0]) = some (true, { foundSharedVertex := true }) ∧
    anyCrossing geo5 tri5b tri5c = false ∧ wedgeWitness geo5 .contains tri5b tri5c = true ∧
    ¬ CenterFires .contains IA IB := by
  decide +kernel

/-- `walk_true_sound`, centre witness: two equal face cells, the centre is outside A and inside B:
    the contains walk returns `true` at once (`sameCenter`), and `CenterFires` holds -/
example :
    let IA := ix false [0, 1, 2, 3, 4]
    let IB := ix true [0, 1, 2]
    hasCrossingRelation geo5 .contains pent5 tri5 IA IB (fun _ _ => [0]) (fun _ _ => [0]) = some (true, {}) ∧
    CenterFires .contains IA IB ∧ anyCrossing geo5 pent5 tri5 = false ∧ wedgeWitness geo5 .contains pent5 tri5 = false := by
  decide +kernel

/-- the hypotheses of the final theorems hold for the pentagon 0..4 and the inscribed triangle 0,2,3
    (three shared vertices, no crossing, one face cell each, brute-force `getCells` table) -/
private theorem hyps_pent_tri :
    WalkExactHyps geo5 rAll pent5 tri5 (ix false (List.range pent5.numEdges)) (ix false (List.range tri5.numEdges))
      (fun _ _ => List.range 1) (fun _ _ => List.range 1) where
  okA := by decide +kernel
  okB := by decide +kernel
  edgesA := by decide +kernel
  edgesB := by decide +kernel
  covered := covered_face
  gcAB := getCellsComplete_all geo5 pent5 tri5 _ _
  gcBA := getCellsComplete_all geo5 tri5 pent5 _ _
  rects :=
    { contains_reject := fun h => by cases h
      intersects_reject := fun h => by cases h
      boundary_reject := fun h => by cases h
      empty_reject := by decide +kernel
      contains_gate := by decide +kernel
      intersects_gate := by decide +kernel }

/-- `walk_contains_eq_exact`, `walk_intersects_eq_exact`, `walk_compareBoundary_eq_exact` instantiated:
    the walked answers are the exact ones (`true`, `true`, `+1`), the centre hypothesis holds because no
    centre shortcut can fire on these indexes -/
example :
    let IA := ix false (List.range pent5.numEdges)
    let IB := ix false (List.range tri5.numEdges)
    RelateWalk.contains geo5 rAll pent5 tri5 IA IB (fun _ _ => List.range 1) (fun _ _ => List.range 1) = some true ∧
    RelateWalk.intersects geo5 rAll pent5 tri5 IA IB (fun _ _ => List.range 1) (fun _ _ => List.range 1) = some true ∧
    RelateWalk.compareBoundary geo5 rAll pent5 tri5 IA IB (fun _ _ => List.range 1) (fun _ _ => List.range 1) = some 1 := by
  intro IA IB
  have c1 : ¬ CenterFires .contains IA IB := by decide +kernel
  have c2 : ¬ CenterFires .intersects IA IB := by decide +kernel
  have e1 : Relate.contains geo5 pent5 tri5 = true := by decide +kernel
  have e2 : Relate.intersects geo5 pent5 tri5 = true := by decide +kernel
  have e3 : Relate.compareBoundary geo5 pent5 tri5 = 1 := by decide +kernel
  refine ⟨?_, ?_, ?_⟩
  · rw [← e1]; exact walk_contains_eq_exact geo5 rAll pent5 tri5 IA IB _ _ hyps_pent_tri (fun h => absurd h c1)
  · rw [← e2]; exact walk_intersects_eq_exact geo5 rAll pent5 tri5 IA IB _ _ hyps_pent_tri (fun h => absurd h c2)
  · rw [← e3]; exact walk_compareBoundary_eq_exact geo5 rAll pent5 tri5 IA IB _ _ hyps_pent_tri (by decide) (by decide)

/-- `walk_false_no_wedge` / `walk_false_state_exact` on the same pair, boundary relation: the walk returns
    `false` with `containsEdge` set and `excludesEdge` clear, as the exact scan says -/
example :
    let IA := ix false (List.range pent5.numEdges)
    let IB := ix false (List.range tri5.numEdges)
    hasCrossingRelation geo5 (.compareBoundary false) pent5 tri5 IA IB (fun _ _ => List.range 1) (fun _ _ => List.range 1)
      = some (false, { foundSharedVertex := true, containsEdge := true }) ∧
    wedgeWitness geo5 (.compareBoundary false) pent5 tri5 = false ∧
    ((sharedVertices geo5 pent5 tri5).map (semiwedgeContained geo5 pent5 tri5 false)).any id = true ∧
    ((sharedVertices geo5 pent5 tri5).map (semiwedgeContained geo5 pent5 tri5 false)).any not = false := by
  decide +kernel

/-- a loop value without vertices (not a Go loop) whose "index" nevertheless lists an edge -/
private def novert5 : Loop (Fin 5) := { vs := #[], originInside := false }

/-- WHY `EdgesOK` IS A HYPOTHESIS: the statement `WalkCompareBoundaryEqExact` of
    S2Proofs.Properties.C07_Walk (stated there, not proved; hypotheses `WalkHyps` = `IdxOK`, `PairsCovered`,
    `GetCellsComplete`, `RectsSound`) is FALSE as stated: `PairsCovered` speaks about the edge ids below
    `numEdges` only, so an index that lists an edge id the loop does not have satisfies all of `WalkHyps`,
    the walk evaluates a wedge at the "shared vertex" `Vertex(i % 0)` = default point and answers `+1`,
    the exact relation scans no edges and answers `-1`.  With `EdgesOK` added the statement is the
    theorem `walk_compareBoundary_eq_exact`. -/
example : ¬ WalkCompareBoundaryEqExact geo5 := by
  intro h
  let IA := ix false [0]
  let IB := ix false [0, 1, 2]
  have hyp : WalkHyps geo5 ⟨true, true, true, true⟩ novert5 tri5 IA IB (fun _ _ => List.range 1) (fun _ _ => List.range 1) :=
    { okA := by decide +kernel
      okB := by decide +kernel
      covered := fun i j hi' _ _ => absurd hi' (Nat.not_lt_zero i)
      gcAB := getCellsComplete_all geo5 novert5 tri5 IA IB
      gcBA := getCellsComplete_all geo5 tri5 novert5 IB IA
      rects := ⟨fun h => absurd h (by decide), fun h => absurd h (by decide), fun h => absurd h (by decide),
        fun h => absurd h (by decide), fun h => absurd h (by decide)⟩ }
  have := h ⟨true, true, true, true⟩ novert5 tri5 IA IB _ _ hyp (by decide) (by decide)
  revert this
  decide +kernel

/-- WHY THE CENTRE HYPOTHESIS COVERS EQUAL CELLS WITH EDGES: the statement `WalkContainsEqExact` of
    S2Proofs.Properties.C07_Walk is FALSE as stated.  Its `CenterShortcutSound` speaks about edge-free
    cells only, but the walk also applies the centre test to two EQUAL cells that both have edges
    (loop.go, "The A and B cells are the same").  With `containsCenter` flags that contradict the loops
    (outside A, inside B, although B ⊆ A) all hypotheses hold, the walk answers `Contains = false`, the
    exact relation is `true`.  `CenterFires` / `CenterSound` above include the equal-cells case. -/
example : ¬ WalkContainsEqExact geo5 := by
  intro h
  let IA := ix false [0, 1, 2, 3, 4]
  let IB := ix true [0, 1, 2]
  have hyp : WalkHyps geo5 ⟨true, true, true, true⟩ pent5 tri5 IA IB (fun _ _ => List.range 1) (fun _ _ => List.range 1) :=
    { okA := by decide +kernel
      okB := by decide +kernel
      covered := covered_face (A := pent5) (B := tri5)
      gcAB := getCellsComplete_all geo5 pent5 tri5 IA IB
      gcBA := getCellsComplete_all geo5 tri5 pent5 IB IA
      rects := ⟨fun h => absurd h (by decide), fun h => absurd h (by decide), fun h => absurd h (by decide),
        fun h => absurd h (by decide), fun h => absurd h (by decide)⟩ }
  have hc : CenterShortcutSound .contains IA IB (!(Relate.contains geo5 pent5 tri5)) := by
    intro pa pb hm hor _ _
    obtain ⟨h1, h2, _, _⟩ := hm
    have e1 : pa = 0 := by have : pa < 1 := h1; omega
    have e2 : pb = 0 := by have : pb < 1 := h2; omega
    subst e1; subst e2
    revert hor; decide +kernel
  have := h ⟨true, true, true, true⟩ pent5 tri5 IA IB _ _ hyp hc
  revert this
  decide +kernel

/-- WHY `RectsExact` HAS THE GATE CLAUSES: the statement `WalkIntersectsEqExact` of
    S2Proofs.Properties.C07_Walk is FALSE as stated.  Its `RectsSound` lets the rectangle boolean
    `B.subregionBound.Contains(A.bound)` be `false` whenever the exact relation is `true`, but then the
    vertex test "B contains A" of `Loop.Intersects` is skipped.  A = the degenerate loop 3,4 inside
    B = the complement of the triangle 0,1,2 (no crossing, no shared vertex): all hypotheses hold with the
    rectangle booleans (false, false, true, false), the walk answers `false`, the exact relation is `true`. -/
example : ¬ WalkIntersectsEqExact geo5 := by
  intro h
  let A : Loop (Fin 5) := { vs := #[3, 4], originInside := false }
  let B : Loop (Fin 5) := { vs := #[2, 1, 0], originInside := true }
  let IA := ix false [0, 1]
  let IB := ix false [0, 1, 2]
  have hyp : WalkHyps geo5 ⟨false, false, true, false⟩ A B IA IB (fun _ _ => List.range 1) (fun _ _ => List.range 1) :=
    { okA := by decide +kernel
      okB := by decide +kernel
      covered := covered_face (A := A) (B := B)
      gcAB := getCellsComplete_all geo5 A B IA IB
      gcBA := getCellsComplete_all geo5 B A IB IA
      rects := by unfold RectsSound; decide +kernel }
  have hc : CenterShortcutSound .intersects IA IB (Relate.intersects geo5 A B) := by
    intro pa pb hm _ hma _
    obtain ⟨h1, _, _, _⟩ := hm
    have e1 : pa = 0 := by have : pa < 1 := h1; omega
    subst e1
    revert hma; decide +kernel
  have := h ⟨false, false, true, false⟩ A B IA IB _ _ hyp hc
  revert this
  decide +kernel

end examples

end S2Proofs.C07
